#!/usr/bin/env python3
"""mark.py <file> <text> : remove any (*HERE*) marker, then insert one after the LAST occurrence of <text>;
   mark.py <file> : just remove the marker"""
import sys
p=sys.argv[1]; s=open(p).read().replace("(*HERE*)","")
if len(sys.argv)>2:
    t=sys.argv[2]; i=s.rindex(t)+len(t); s=s[:i]+"(*HERE*)"+s[i:]
open(p,'w').write(s)
