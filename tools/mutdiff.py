#!/usr/bin/env python3
"""tools/mutdiff.py [--secs N] [--jobs K] — second opinion on the mutants that survived
tools/mutcampaign.py: is the mutant observably different from the original at all?

For each surviving mutation of notes/mutation_campaign.jsonl a scratch module is built that
links the original package and the mutated package side by side (two module paths), and Go's
coverage-guided fuzzer compares IsSQLi (verdict and fingerprint) and IsXSS on the same input
for N seconds, seeded with the fixtures and /verif/corpus.  A difference means the mutant is
NOT equivalent, i.e. the correspondence streams have a blind spot there: the input is printed
and appended to notes/mutation_blindspots.txt (hex) for triage.  No difference after N seconds:
recorded as "no difference found" (probably equivalent: dead code, capacity constants, ...).
Scratch directories are under /tmp and removed."""
import argparse, json, os, re, shutil, subprocess, sys, tempfile
from concurrent.futures import ThreadPoolExecutor

VERIF = os.environ.get("VERIF_ROOT", "/verif")
REPO = os.environ.get("REPO_ROOT", "/repo")
ENV = dict(os.environ, GOFLAGS="-mod=mod", GOPROXY="off", GOSUMDB="off", GOTOOLCHAIN="local")

FUZZ = r'''package difft

import (
	"encoding/hex"
	"os"
	"path/filepath"
	"strings"
	"testing"

	lo "lo"
	lm "lm"
)

func seeds(f *testing.F) {
	ents, _ := os.ReadDir("orig/tests")
	for _, e := range ents {
		data, err := os.ReadFile(filepath.Join("orig/tests", e.Name()))
		if err != nil {
			continue
		}
		parts := strings.SplitN(string(data), "--INPUT--\n", 2)
		if len(parts) == 2 {
			f.Add(strings.SplitN(parts[1], "\n--EXPECTED--", 2)[0])
		}
	}
	files, _ := filepath.Glob("corpus/*.txt")
	for _, fn := range files {
		data, _ := os.ReadFile(fn)
		for _, ln := range strings.Split(string(data), "\n") {
			if b, err := hex.DecodeString(strings.TrimSpace(ln)); err == nil && len(b) > 0 {
				f.Add(string(b))
			}
		}
	}
}

func FuzzDiff(f *testing.F) {
	seeds(f)
	f.Fuzz(func(t *testing.T, s string) {
		b0, f0 := lo.IsSQLi(s)
		b1, f1 := lm.IsSQLi(s)
		if b0 != b1 || f0 != f1 {
			t.Fatalf("DIFF sqli %x: (%v,%q) vs (%v,%q)", s, b0, f0, b1, f1)
		}
		if x0, x1 := lo.IsXSS(s), lm.IsXSS(s); x0 != x1 {
			t.Fatalf("DIFF xss %x: %v vs %v", s, x0, x1)
		}
	})
}
'''


def sh(cmd, cwd=None, timeout=900, env=None):
    try:
        p = subprocess.run(cmd, cwd=cwd, env=env or ENV, stdout=subprocess.PIPE, stderr=subprocess.STDOUT, timeout=timeout)
        return p.returncode, p.stdout.decode(errors="replace")
    except subprocess.TimeoutExpired as e:
        return 124, (e.stdout or b"").decode(errors="replace")


def one(m, secs, root):
    d = os.path.join(root, "m%d" % m["id"])
    os.makedirs(d)
    try:
        for name in ("orig", "mut"):
            w = os.path.join(d, name)
            os.makedirs(w)
            subprocess.run("git -C %s archive HEAD | tar -x -C %s" % (REPO, w), shell=True, check=True)
            for fn in os.listdir(w):
                if fn.endswith("_test.go"):
                    os.remove(os.path.join(w, fn))
            gm = open(os.path.join(w, "go.mod")).read()
            gm = re.sub(r"^module .*$", "module " + ("lo" if name == "orig" else "lm"), gm, count=1, flags=re.M)
            open(os.path.join(w, "go.mod"), "w").write(gm)
        path = os.path.join(d, "mut", m["file"])
        orig = open(os.path.join(REPO, m["file"]), "rb").read()
        open(path, "wb").write(orig[: m["start"]] + m["repl"].encode() + orig[m["end"]:])
        shutil.copytree(os.path.join(VERIF, "corpus"), os.path.join(d, "corpus"))
        open(os.path.join(d, "go.mod"), "w").write("module difft\n\ngo 1.21\n\nrequire (\n\tlo v0.0.0\n\tlm v0.0.0\n)\n\nreplace lo => ./orig\n\nreplace lm => ./mut\n")
        open(os.path.join(d, "diff_test.go"), "w").write(FUZZ)
        env = dict(ENV, GOCACHE=os.path.join(root, "gocache"))
        rc, out = sh(["go", "test", "-run", "XXX", "-fuzz", "FuzzDiff", "-fuzztime", "%ds" % secs, "-parallel", "3", "."], cwd=d, timeout=secs + 600, env=env)
        mm = re.search(r"DIFF (sqli|xss) ([0-9a-f]*): (.*)", out)
        res = dict(m)
        if mm:
            res["diff"] = {"which": mm.group(1), "input": mm.group(2), "detail": mm.group(3)[:200]}
        elif rc != 0:
            res["diff_error"] = out[-400:]
        else:
            res["diff"] = None
        return res
    finally:
        shutil.rmtree(d, ignore_errors=True)


def main():
    ap = argparse.ArgumentParser()
    ap.add_argument("--secs", type=int, default=40)
    ap.add_argument("--jobs", type=int, default=4)
    ap.add_argument("--inp", default=os.path.join(VERIF, "notes", "mutation_campaign.jsonl"))
    ap.add_argument("--out", default=os.path.join(VERIF, "notes", "mutation_survivors.jsonl"))
    a = ap.parse_args()
    muts = [json.loads(l) for l in open(a.inp)]
    # the campaign drops long replacement texts: regenerate them from the enumerator
    root = tempfile.mkdtemp(prefix="mutd_")
    try:
        rc, out = sh(["go", "build", "-o", os.path.join(root, "mutgen"), "."], cwd=os.path.join(VERIF, "tools", "mut"))
        files = sorted(set(m["file"] for m in muts))
        rc, out = sh([os.path.join(root, "mutgen"), REPO] + ["sqli.go", "sqli_parse.go", "sqli_helpers.go", "sqli_token.go", "html5.go", "xss.go", "xss_helpers.go"])
        full = {}
        for l in out.splitlines():
            if l.startswith("{"):
                x = json.loads(l)
                full[(x["file"], x["start"], x["end"], x["desc"])] = x
        todo = []
        for m in muts:
            if m["outcome"] != "survived":
                continue
            x = full.get((m["file"], m["start"], m["end"], m["desc"]))
            if x:
                todo.append(x)
        print("survivors:", len(todo), flush=True)
        with ThreadPoolExecutor(max_workers=a.jobs) as ex, open(a.out, "w") as fo:
            for res in ex.map(lambda m: one(m, a.secs, root), todo):
                res.pop("repl", None)
                fo.write(json.dumps(res) + "\n"); fo.flush()
                d = res.get("diff")
                print("%s:%d %s | %s | %s" % (res["file"], res["line"], res["func"], res["desc"][:70],
                                               ("DIFFERS on %s" % d["input"][:80]) if d else ("error" if "diff_error" in res else "no difference found")), flush=True)
    finally:
        shutil.rmtree(root, ignore_errors=True)


if __name__ == "__main__":
    sys.exit(main())
