#!/usr/bin/env python3
"""Mutation campaign: how many single-site source mutations of /repo that still
compile and still pass the project's own test suite are noticed by the
model-vs-code correspondence (the tie that every theorem rests on)?

  tools/mutcampaign.py [--jobs N] [--limit K] [--files a.go,b.go] [--out FILE]

For every mutation enumerated by tools/mut:  a scratch copy of the repository
(under /tmp, removed at the end) gets the one mutated file; `go build`, then
`go test -count=1 ./...` (the pinned suite); mutants that fail either are not
interesting (the existing tests notice them).  The others are run through the
harness correspondence (C06 for SQL files, C07 for HTML/XSS files, quick tier,
against the already built model driver /verif/build/driver).  Result lines go to
--out (JSON lines) and a summary is printed.  Nothing is written to /repo.
"""
import argparse, json, os, shutil, subprocess, sys, tempfile, time
from concurrent.futures import ThreadPoolExecutor

VERIF = os.environ.get("VERIF_ROOT", "/verif")
REPO = os.environ.get("REPO_ROOT", "/repo")
ENV = dict(os.environ, GOFLAGS="-mod=mod", GOPROXY="off", GOSUMDB="off", GOTOOLCHAIN="local")
SQL_FILES = ["sqli.go", "sqli_parse.go", "sqli_helpers.go", "sqli_token.go"]
HTML_FILES = ["html5.go", "xss.go", "xss_helpers.go"]


def sh(cmd, cwd=None, timeout=600):
    # own process group: on a timeout the whole group is killed (a mutant that loops for ever
    # would otherwise leave the harness's worker processes spinning as orphans)
    import signal
    p = subprocess.Popen(cmd, cwd=cwd, env=ENV, stdout=subprocess.PIPE, stderr=subprocess.STDOUT, start_new_session=True)
    try:
        out, _ = p.communicate(timeout=timeout)
        return p.returncode, out.decode(errors="replace")
    except subprocess.TimeoutExpired:
        try:
            os.killpg(p.pid, signal.SIGKILL)
        except Exception:
            pass
        p.wait()
        return 124, "timeout"
    finally:
        try:
            os.killpg(p.pid, signal.SIGKILL)
        except Exception:
            pass


def main():
    ap = argparse.ArgumentParser()
    ap.add_argument("--jobs", type=int, default=8)
    ap.add_argument("--limit", type=int, default=0)
    ap.add_argument("--every", type=int, default=1, help="take every n-th mutation")
    ap.add_argument("--files", default=",".join(SQL_FILES + HTML_FILES))
    ap.add_argument("--out", default=os.path.join(VERIF, "notes", "mutation_campaign.jsonl"))
    ap.add_argument("--retry", default="", help="run only the mutations that are recorded as survived in this earlier result file")
    ap.add_argument("--props", default="", help="override: comma list of properties to run per surviving mutant")
    a = ap.parse_args()
    files = a.files.split(",")
    root = tempfile.mkdtemp(prefix="mutc_")
    try:
        rc, out = sh(["go", "build", "-o", os.path.join(root, "mutgen"), "."], cwd=os.path.join(VERIF, "tools", "mut"))
        if rc != 0:
            print(out); return 2
        rc, out = sh([os.path.join(root, "mutgen"), REPO] + files)
        muts = [json.loads(l) for l in out.splitlines() if l.startswith("{")]
        if a.retry:
            keep = set()
            for l in open(a.retry):
                r = json.loads(l)
                if r.get("outcome") == "survived":
                    keep.add((r["file"], r["start"], r["end"], r["desc"]))
            muts = [m for m in muts if (m["file"], m["start"], m["end"], m["desc"]) in keep]
        muts = muts[:: a.every]
        if a.limit:
            muts = muts[: a.limit]
        print("mutations:", len(muts), flush=True)
        # one scratch repo + harness copy per worker
        workers = []
        for k in range(a.jobs):
            w = os.path.join(root, "w%d" % k)
            os.makedirs(w)
            subprocess.run("git -C %s archive HEAD | tar -x -C %s" % (REPO, w), shell=True, check=True)
            # the working tree may carry uncommitted hook files: copy the .go files as they are
            for fn in os.listdir(REPO):
                if fn.endswith(".go"):
                    shutil.copy(os.path.join(REPO, fn), os.path.join(w, fn))
            h = os.path.join(root, "h%d" % k)
            shutil.copytree(os.path.join(VERIF, "tools", "harness"), h)
            gm = open(os.path.join(h, "go.mod")).read().replace("=> /repo", "=> " + w).replace("=> " + REPO, "=> " + w)
            open(os.path.join(h, "go.mod"), "w").write(gm)
            workers.append((w, h))
        free = list(range(a.jobs))
        results = []
        t0 = time.time()

        def run(m):
            k = free.pop()
            try:
                w, h = workers[k]
                path = os.path.join(w, m["file"])
                orig = open(os.path.join(REPO, m["file"]), "rb").read()
                open(path, "wb").write(orig[: m["start"]] + m["repl"].encode() + orig[m["end"]:])
                res = dict(m)
                try:
                    rc, out = sh(["go", "build", "-tags", "verif", "./..."], cwd=w)
                    if rc != 0:
                        res["outcome"] = "no-build"; return res
                    rc, out = sh(["go", "vet", "."], cwd=w)
                    rc, out = sh(["go", "test", "-vet=off", "-count=1", "-timeout", "120s", "./..."], cwd=w, timeout=200)
                    if rc != 0:
                        res["outcome"] = "killed-by-tests"; return res
                    rc, out = sh(["go", "build", "-tags", "verif", "-o", os.path.join(h, "harness.bin"), "."], cwd=h)
                    if rc != 0:
                        res["outcome"] = "harness-no-build"; res["log"] = out[-400:]; return res
                    props = a.props.split(",") if a.props else (["C06"] if m["file"] in SQL_FILES else ["C07"])
                    res["outcome"] = "survived"
                    for p in props:
                        rep = os.path.join(h, "rep_%s.json" % p)
                        rc, out = sh([os.path.join(h, "harness.bin"), "run", "-prop", p, "-tier", "quick", "-seed", "1", "-out", rep,
                                      "-repo", w, "-verif", VERIF, "-driver", os.path.join(VERIF, "build", "driver")], cwd=h, timeout=900)
                        if rc != 0:
                            res["outcome"] = "killed-by-" + p
                            res["log"] = out.splitlines()[0][:300] if out else ""
                            break
                    return res
                finally:
                    open(path, "wb").write(orig)
            finally:
                free.append(k)

        with ThreadPoolExecutor(max_workers=a.jobs) as ex, open(a.out, "w") as fo:
            for i, res in enumerate(ex.map(run, muts)):
                res.pop("repl", None) if len(res.get("repl", "")) > 200 else None
                fo.write(json.dumps(res) + "\n"); fo.flush()
                results.append(res)
                if (i + 1) % 50 == 0:
                    print("  %d/%d  %.0fs" % (i + 1, len(muts), time.time() - t0), flush=True)
        tally = {}
        for r in results:
            tally[r["outcome"]] = tally.get(r["outcome"], 0) + 1
        print("summary:", json.dumps(tally, sort_keys=True))
        for r in results:
            if r["outcome"] == "survived":
                print("SURVIVED %s:%d %s [%s] %s" % (r["file"], r["line"], r["func"], r["id"], r["desc"]))
        return 0
    finally:
        shutil.rmtree(root, ignore_errors=True)


if __name__ == "__main__":
    sys.exit(main())
