#!/bin/sh
# tools/seedimport.sh <worktree-dir> <property-id> <seed-id> : copy a sub-agent's deliverables into /verif/seeded/<seed-id>/ and drop the worktree
set -e
wt=$1; prop=$2; d=/verif/seeded/$3
mkdir -p $d
cp $wt/seeded.diff $d/patch.diff
cp $wt/seeded_demo_test.go $d/demo_test.go
python3 - "$wt" "$prop" "$3" <<'PY'
import json,sys
wt,p,s=sys.argv[1:4]
meta={"id":s,"breaks":p,"origin":"fresh sub-agent given only the property text and a scratch worktree","needs":open(wt+'/seeded_meta.txt',errors='replace').read()}
json.dump(meta,open('/verif/seeded/%s/meta.json'%s,'w'),indent=1)
PY
git -C /repo worktree remove --force $wt
