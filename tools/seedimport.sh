#!/bin/sh
# tools/seedimport.sh <worktree-prop-id> <seed-id> : copy a sub-agent's deliverables into /verif/seeded/<seed-id>/ and drop the worktree
set -e
wt=/tmp/wt_$1; d=/verif/seeded/$2
mkdir -p $d
cp $wt/seeded.diff $d/patch.diff
cp $wt/seeded_demo_test.go $d/demo_test.go
python3 - "$1" "$2" <<'PY'
import json,sys
p,s=sys.argv[1],sys.argv[2]
meta={"id":s,"breaks":p,"origin":"fresh sub-agent given only the property text and a scratch worktree","needs":open('/tmp/wt_%s/seeded_meta.txt'%p,errors='replace').read()}
json.dump(meta,open('/verif/seeded/%s/meta.json'%s,'w'),indent=1)
PY
git -C /repo worktree remove --force $wt
