#!/usr/bin/env python3
"""tools/harmlesstest.py <id> [props...] — run the quick checks against a behaviour-preserving change.

Takes /verif/harmless/<id>/patch.diff (a refactoring that keeps every property: same tokens,
fingerprints and verdicts for every input).  Confirms in a scratch worktree that it builds and the
pinned suite passes, then runs the checks (default: all twenty) on an isolated copy exactly as
tools/seedtest.py does.  Every check must exit 0 with no VIOLATION line: an alarm here is a false
alarm of the machinery.  Results go to /verif/harmless/<id>/meta.json."""
import json, os, sys, time
sys.path.insert(0, os.path.dirname(os.path.abspath(__file__)))
import seedtest
from seedtest import sh, ENV

ALL = ["C%02d" % i for i in range(1, 21)]


def main():
    hid = sys.argv[1]
    props = sys.argv[2:] or ALL
    d = "/verif/harmless/" + hid
    meta_path = d + "/meta.json"
    meta = json.load(open(meta_path)) if os.path.exists(meta_path) else {"id": hid}
    vroot, rroot = "/tmp/vharm_" + hid, "/tmp/rharm_" + hid
    sh("git -C /repo worktree remove --force %s; rm -rf %s" % (rroot, vroot))
    try:
        rc, out = sh("git -C /repo worktree add -q --detach %s HEAD && git -C %s apply %s/patch.diff" % (rroot, rroot, d))
        assert rc == 0, out
        rcb, ob = sh("go build ./... && go build -tags verif ./...", cwd=rroot)
        rcs, os_ = sh("go test -count=1 ./... 2>&1 | tail -3", cwd=rroot)
        meta["confirmed"] = {"builds": rcb == 0, "pinned_suite_passes": rcs == 0 and "FAIL" not in os_}
        print("confirm:", meta["confirmed"])
        if not (meta["confirmed"]["builds"] and meta["confirmed"]["pinned_suite_passes"]):
            json.dump(meta, open(meta_path, "w"), indent=1)
            return
        rc, out = sh("rsync -a --exclude .git --exclude evidence/replay --exclude 'build/.lock' /verif/ %s/" % vroot)
        assert rc == 0, out
        sh("sed -i 's#=> /repo#=> %s#' %s/tools/harness/go.mod" % (rroot, vroot))
        # tracked proof / tool files that are being edited (uncommitted) are taken from HEAD, with a
        # time stamp older than their compiled file so that nothing is rebuilt because of them
        rc, out = sh("git -C /verif diff --name-only HEAD -- coq tools bin ocaml grammar corpus")
        for f in out.split():
            q = vroot + "/" + f
            rc2, _ = sh("git -C /verif show HEAD:%s > %s" % (f, q))
            vo = q[:-2] + ".vo" if q.endswith(".v") else None
            if rc2 == 0 and vo and os.path.exists(vo):
                t = os.path.getmtime(vo) - 2
                os.utime(q, (t, t))
        rc, out = sh("git -C /verif ls-files --others --exclude-standard")
        for f in out.split():
            for ext in ("", "o", "ok", "os"):
                q = vroot + "/" + f + ext
                if f.endswith(".v") and os.path.exists(q):
                    os.remove(q)
        env = dict(ENV, VERIF_ROOT=vroot, REPO_ROOT=rroot)
        results = meta.get("checks", {})
        results.update(seedtest.run_checks(vroot, props, env))
        meta["checks"] = results
        meta["false_alarms"] = sorted(p for p, r in results.items() if r["exit"] != 0 or r["violation_lines"])
        print("false alarms:", meta["false_alarms"])
    finally:
        sh("git -C /repo worktree remove --force %s; rm -rf %s" % (rroot, vroot))
    json.dump(meta, open(meta_path, "w"), indent=1)


if __name__ == "__main__":
    main()
