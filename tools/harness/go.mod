module verif/harness

go 1.23

require github.com/corazawaf/libinjection-go v0.0.0

replace github.com/corazawaf/libinjection-go => /repo
