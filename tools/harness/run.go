package main

import (
	"bufio"
	"encoding/json"
	"fmt"
	"io"
	"os"
	"os/exec"
	"path/filepath"
	"runtime/debug"
	"sort"
	"strings"
	"sync"
	"time"
)

// Failure is one direct-oracle failure or model/implementation disagreement.
type Failure struct {
	Prop   string `json:"property"`
	Kind   string `json:"kind"`   // oracle name or "disagreement"
	Input  string `json:"input"`  // hex ("-" = empty)
	Detail string `json:"detail"` // what was expected / observed
}

// ---------- worker (child process) ----------

// workerMain reads hex inputs from stdin; for each prints "I <hex>", the
// observable lines of the requested kinds, "!F <json>" for each oracle
// failure, "!E <n>" (oracle evaluations) and "." when the input is done.
func workerMain(kinds, prop string, seed uint64) {
	in := bufio.NewReaderSize(os.Stdin, 1<<20)
	out := bufio.NewWriterSize(os.Stdout, 1<<16)
	defer out.Flush()
	r := newRng(seed)
	if prop == "C01" || prop == "C02" {
		// totality includes "does not exhaust the goroutine stack however long the
		// input is": with the default 1 GB limit a recursion that is linear in the
		// input only dies on inputs of tens of megabytes; with a 1 MB limit the
		// 64 KB - 1 MB repetitions of the long-input stage expose it.  Code whose
		// recursion depth is bounded uses a few KB.
		debug.SetMaxStack(1 << 20)
	}
	for {
		line, err := in.ReadString('\n')
		line = strings.TrimSpace(line)
		if line != "" {
			input := unhx(line)
			fmt.Fprintf(out, "I %s\n", line)
			out.Flush()
			observe(kinds, input, func(s string) { out.WriteString(s); out.WriteByte('\n') })
			if prop != "" {
				evals := runOracle(prop, input, r, func(kind, fin, detail string) {
					b, _ := json.Marshal(Failure{Prop: prop, Kind: kind, Input: hx(fin), Detail: detail})
					fmt.Fprintf(out, "!F %s\n", b)
				})
				fmt.Fprintf(out, "!E %d\n", evals)
			}
			out.WriteString(".\n")
			out.Flush()
		}
		if err != nil {
			return
		}
	}
}

// ---------- parent: run a shard in a watched child ----------

type shardResult struct {
	lines    []string  // observable lines incl. "I ..." (no "!" lines, no ".")
	failures []Failure // oracle failures
	evals    int
	crashes  []Failure
}

// runShard feeds inputs to a child; when the child dies or stalls the in-flight
// input is recorded with outcome CRASH / TIMEOUT and a new child continues.
func runShard(argv []string, inputs []string, stall time.Duration) shardResult {
	var res shardResult
	start := 0
	for start < len(inputs) {
		done, crashed := runChild(argv, inputs[start:], stall, &res)
		start += done
		if crashed != "" && start < len(inputs) {
			res.lines = append(res.lines, "I "+hx(inputs[start]), "OUTCOME "+crashed)
			res.crashes = append(res.crashes, Failure{Kind: "outcome", Input: hx(inputs[start]), Detail: crashed})
			start++
		} else if crashed != "" {
			break
		}
	}
	return res
}

func runChild(argv []string, inputs []string, stall time.Duration, res *shardResult) (completed int, crashed string) {
	cmd := exec.Command(argv[0], argv[1:]...)
	stdin, _ := cmd.StdinPipe()
	stdout, _ := cmd.StdoutPipe()
	cmd.Stderr = io.Discard
	if err := cmd.Start(); err != nil {
		return 0, "SPAWN-FAILED"
	}
	go func() {
		w := bufio.NewWriterSize(stdin, 1<<16)
		for _, in := range inputs {
			w.WriteString(hx(in))
			w.WriteByte('\n')
		}
		w.Flush()
		stdin.Close()
	}()
	type msg struct {
		line string
		eof  bool
	}
	ch := make(chan msg, 4096)
	go func() {
		sc := bufio.NewScanner(stdout)
		sc.Buffer(make([]byte, 1<<20), 64<<20)
		for sc.Scan() {
			ch <- msg{line: sc.Text()}
		}
		ch <- msg{eof: true}
	}()
	var pending []string
	timer := time.NewTimer(stall)
	defer timer.Stop()
	for {
		select {
		case m := <-ch:
			if m.eof {
				err := cmd.Wait()
				if completed < len(inputs) {
					_ = err
					return completed, "CRASH"
				}
				return completed, ""
			}
			if !timer.Stop() {
				select {
				case <-timer.C:
				default:
				}
			}
			timer.Reset(stall)
			switch {
			case m.line == ".":
				res.lines = append(res.lines, pending...)
				pending = pending[:0]
				completed++
			case strings.HasPrefix(m.line, "!F "):
				var f Failure
				if json.Unmarshal([]byte(m.line[3:]), &f) == nil {
					res.failures = append(res.failures, f)
				}
			case strings.HasPrefix(m.line, "!E "):
				var n int
				fmt.Sscanf(m.line[3:], "%d", &n)
				res.evals += n
			default:
				pending = append(pending, m.line)
			}
		case <-timer.C:
			cmd.Process.Kill()
			cmd.Wait()
			return completed, "TIMEOUT"
		}
	}
}

// ---------- comparison with projection ----------

// project maps an observable line to what property `prop` is about; "" = ignore.
func project(prop, line string) string {
	if strings.HasPrefix(line, "I ") {
		return line
	}
	outcome := func(l string) string {
		f := strings.Fields(l)
		last := f[len(f)-1]
		switch last {
		case "PANIC", "OUTOFFUEL", "STACKOVERFLOW", "CRASH", "TIMEOUT":
			return f[0] + " " + last
		}
		return f[0] + " RETURNS"
	}
	switch prop {
	case "C01", "C02":
		return outcome(line)
	case "C08":
		// the returned pair and the per-context fingerprint + verdict
		if strings.HasPrefix(line, "SV ") {
			return line
		}
		if strings.HasPrefix(line, "SP ") {
			f := strings.Fields(line)
			if len(f) >= 5 {
				return strings.Join(f[:5], " ")
			}
			return line
		}
		return ""
	case "C16":
		if strings.HasPrefix(line, "SQ ") {
			return line
		}
		return ""
	case "C18":
		// string tokens only: (class 's'/'v'/'n' with open mark) offsets, length, marks, before/after
		if strings.HasPrefix(line, "SQ ") {
			return projectStrings(line)
		}
		return ""
	}
	return line
}

// projectStrings keeps, from an SQ line, only tokens of class 's' (115) or
// carrying an opening/closing mark: pos len open close before after.
func projectStrings(line string) string {
	f := strings.Fields(line)
	if len(f) < 3 {
		return line
	}
	if f[2] == "PANIC" || f[2] == "OUTOFFUEL" {
		return line
	}
	var n int
	fmt.Sscanf(f[2], "%d", &n)
	out := []string{f[0], f[1]}
	idx := 3
	for i := 0; i < n && idx+9 <= len(f); i++ {
		t := f[idx : idx+9]
		idx += 9
		if t[0] == "115" || t[4] != "0" || t[5] != "0" {
			out = append(out, t[1], t[2], t[4], t[5], t[7], t[8])
		}
	}
	return strings.Join(out, " ")
}

type runReport struct {
	Prop          string         `json:"property"`
	Tier          string         `json:"tier"`
	Seed          uint64         `json:"seed"`
	Inputs        int            `json:"inputs"`
	Streams       map[string]int `json:"streams"`
	LenHist       map[string]int `json:"length_histogram"`
	Kinds         string         `json:"kinds"`
	LinesCompared int            `json:"lines_compared"`
	Disagreements []Failure      `json:"disagreements"`
	NDisagree     int            `json:"n_disagreements"`
	OracleEvals   int            `json:"oracle_evaluations"`
	OracleFails   []Failure      `json:"oracle_failures"`
	NOracleFails  int            `json:"n_oracle_failures"`
	Nontrivial    int            `json:"distinct_nontrivial"`
	NontrivRule   string         `json:"nontrivial_rule"`
	Samples       []string       `json:"samples"`
	OutcomeHist   map[string]int `json:"outcome_histogram"`
	WallS         float64        `json:"wall_s"`
	Extra         map[string]any `json:"extra,omitempty"`
}

func lenBucket(n int) string {
	switch {
	case n == 0:
		return "0"
	case n <= 4:
		return "1-4"
	case n <= 16:
		return "5-16"
	case n <= 64:
		return "17-64"
	case n <= 1024:
		return "65-1024"
	default:
		return ">1024"
	}
}

// runCompare: Go worker and model driver over the same shards, projected diff.
func runCompare(prop, kinds string, inputs []string, seed uint64, driver string, withModel bool, withOracle bool, rep *runReport) {
	self, _ := os.Executable()
	nsh := 16
	if len(inputs) < 64 {
		nsh = 1
	}
	chunk := (len(inputs) + nsh - 1) / nsh
	type pair struct{ goR, mR shardResult }
	results := make([]pair, nsh)
	var wg sync.WaitGroup
	for i := 0; i < nsh; i++ {
		lo, hi := i*chunk, (i+1)*chunk
		if lo > len(inputs) {
			lo = len(inputs)
		}
		if hi > len(inputs) {
			hi = len(inputs)
		}
		sh := inputs[lo:hi]
		if len(sh) == 0 {
			continue
		}
		wg.Add(1)
		go func(i int, sh []string) {
			defer wg.Done()
			oprop := ""
			if withOracle {
				oprop = prop
			}
			results[i].goR = runShard([]string{self, "worker", "-kinds", kinds, "-prop", oprop, "-seed", fmt.Sprint(seed + uint64(i)*7919)}, sh, 60*time.Second)
		}(i, sh)
		if withModel && kinds != "" {
			wg.Add(1)
			go func(i int, sh []string) {
				defer wg.Done()
				results[i].mR = runModelShard(driver, kinds, sh)
			}(i, sh)
		}
	}
	wg.Wait()
	rep.OutcomeHist = map[string]int{}
	for i := range results {
		g, m := results[i].goR, results[i].mR
		rep.OracleEvals += g.evals
		for _, f := range g.failures {
			rep.NOracleFails++
			if len(rep.OracleFails) < 50 {
				rep.OracleFails = append(rep.OracleFails, f)
			}
		}
		for _, f := range g.crashes {
			f.Prop = prop
			rep.NOracleFails++
			if len(rep.OracleFails) < 50 {
				rep.OracleFails = append(rep.OracleFails, f)
			}
		}
		for _, l := range g.lines {
			if !strings.HasPrefix(l, "I ") {
				f := strings.Fields(l)
				last := f[len(f)-1]
				switch last {
				case "PANIC", "OUTOFFUEL", "STACKOVERFLOW", "CRASH", "TIMEOUT":
					rep.OutcomeHist[f[0]+" "+last]++
				default:
					rep.OutcomeHist[f[0]+" returns"]++
				}
			}
		}
		if !withModel || kinds == "" {
			continue
		}
		// walk both line lists input by input
		gi, mi := 0, 0
		cur := ""
		for gi < len(g.lines) && mi < len(m.lines) {
			gl, ml := g.lines[gi], m.lines[mi]
			if strings.HasPrefix(gl, "I ") {
				cur = gl[2:]
			}
			if strings.HasPrefix(gl, "OUTCOME ") {
				// the Go child crashed/stalled on this input: compare as outcome against every model line
				for mi < len(m.lines) && !strings.HasPrefix(m.lines[mi], "I ") {
					mi++
				}
				gi++
				rep.NDisagree++
				if len(rep.Disagreements) < 50 {
					rep.Disagreements = append(rep.Disagreements, Failure{Prop: prop, Kind: "disagreement", Input: cur, Detail: "implementation " + gl + " ; model returned"})
				}
				continue
			}
			pg, pm := project(prop, gl), project(prop, ml)
			rep.LinesCompared++
			if pg != pm {
				rep.NDisagree++
				if len(rep.Disagreements) < 50 {
					rep.Disagreements = append(rep.Disagreements, Failure{Prop: prop, Kind: "disagreement", Input: cur, Detail: "impl: " + clip(pg, 400) + " | model: " + clip(pm, 400)})
				}
			}
			gi++
			mi++
		}
		if gi != len(g.lines) || mi != len(m.lines) {
			rep.NDisagree++
			if len(rep.Disagreements) < 50 {
				rep.Disagreements = append(rep.Disagreements, Failure{Prop: prop, Kind: "disagreement", Input: cur, Detail: fmt.Sprintf("line count differs: impl %d model %d", len(g.lines), len(m.lines))})
			}
		}
	}
}

func clip(s string, n int) string {
	if len(s) > n {
		return s[:n] + "..."
	}
	return s
}

func runModelShard(driver, kinds string, inputs []string) shardResult {
	var res shardResult
	cmd := exec.Command(driver, kinds)
	cmd.Stdin = strings.NewReader(string(hexLines(inputs)))
	cmd.Stderr = io.Discard
	out, err := cmd.Output()
	if err != nil {
		res.lines = append(res.lines, "MODEL-DRIVER-FAILED "+err.Error())
	}
	for _, l := range strings.Split(string(out), "\n") {
		if l != "" {
			res.lines = append(res.lines, l)
		}
	}
	return res
}

func writeJSON(path string, v any) {
	b, _ := json.MarshalIndent(v, "", " ")
	os.MkdirAll(filepath.Dir(path), 0o755)
	os.WriteFile(path, b, 0o644)
}

func sortedKeys(m map[string]int) []string {
	var ks []string
	for k := range m {
		ks = append(ks, k)
	}
	sort.Strings(ks)
	return ks
}
