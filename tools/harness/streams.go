package main

import (
	"bufio"
	"bytes"
	"encoding/hex"
	"fmt"
	"go/ast"
	"go/parser"
	"go/token"
	"os"
	"path/filepath"
	"sort"
	"strconv"
	"strings"

	li "github.com/corazawaf/libinjection-go"
)

// ---------------- corpus ----------------

type corpus struct {
	sql   []string // fixture inputs of tests/*sqli*, *folding*, *tokens*
	html  []string // fixture inputs of tests/*html5* and the literals of xss_test.go
	kept  []string // /verif/corpus/*.txt (hex, one per line): minimised disagreements ever found
	dict  []string // string literals of the source + table keys
	logic []string // string literals of the logic files only (names the code compares against)
}

func readFixtureInput(path string) (string, bool) {
	f, err := os.Open(path)
	if err != nil {
		return "", false
	}
	defer f.Close()
	state := ""
	var lines []string
	sc := bufio.NewScanner(f)
	sc.Buffer(make([]byte, 1<<20), 1<<20)
	for sc.Scan() {
		str := strings.TrimSpace(sc.Text())
		if str == "--TEST--" || str == "--INPUT--" || str == "--EXPECTED--" {
			state = str
		} else if state == "--INPUT--" {
			lines = append(lines, str)
		}
	}
	return strings.TrimSpace(strings.Join(lines, "\n")), true
}

func loadCorpus(repo, verif string) *corpus {
	c := &corpus{}
	loadSourceLists(verif)
	ents, _ := os.ReadDir(filepath.Join(repo, "tests"))
	for _, e := range ents {
		in, ok := readFixtureInput(filepath.Join(repo, "tests", e.Name()))
		if !ok {
			continue
		}
		if strings.Contains(e.Name(), "html5") || strings.Contains(e.Name(), "xss") {
			c.html = append(c.html, in)
		} else {
			c.sql = append(c.sql, in)
		}
	}
	// string literals of the test files
	fset := token.NewFileSet()
	for _, name := range []string{"xss_test.go", "sqli_test.go", "xss_helpers_test.go"} {
		f, err := parser.ParseFile(fset, filepath.Join(repo, name), nil, 0)
		if err != nil {
			continue
		}
		ast.Inspect(f, func(n ast.Node) bool {
			if bl, ok := n.(*ast.BasicLit); ok && bl.Kind == token.STRING {
				if s, err := strconv.Unquote(bl.Value); err == nil && len(s) > 2 && len(s) < 400 {
					if name == "sqli_test.go" {
						c.sql = append(c.sql, s)
					} else {
						c.html = append(c.html, s)
					}
				}
			}
			return true
		})
	}
	files, _ := filepath.Glob(filepath.Join(verif, "corpus", "*.txt"))
	sort.Strings(files)
	for _, fn := range files {
		data, err := os.ReadFile(fn)
		if err != nil {
			continue
		}
		for _, ln := range strings.Split(string(data), "\n") {
			ln = strings.TrimSpace(ln)
			if ln == "" || strings.HasPrefix(ln, "#") {
				continue
			}
			if ln == "-" {
				c.kept = append(c.kept, "")
			} else if b, err := hex.DecodeString(ln); err == nil {
				c.kept = append(c.kept, string(b))
			}
		}
	}
	if data, err := os.ReadFile(filepath.Join(verif, "build", "dict_logic.txt")); err == nil {
		for _, ln := range strings.Split(string(data), "\n") {
			if b, err := hex.DecodeString(strings.TrimSpace(ln)); err == nil && len(b) > 0 {
				c.logic = append(c.logic, string(b))
			}
		}
	}
	if data, err := os.ReadFile(filepath.Join(verif, "build", "dict.txt")); err == nil {
		for _, ln := range strings.Split(string(data), "\n") {
			if b, err := hex.DecodeString(strings.TrimSpace(ln)); err == nil && len(b) > 0 {
				c.dict = append(c.dict, string(b))
			}
		}
	}
	return c
}

// ---------------- alphabets ----------------

// one byte of every dispatch class plus multi-byte atoms
var sqlAlphabet = []string{
	" ", "\t", "\n", "\x00", "\xa0", "\x01", "\x7f", "\x80", "\xe9",
	"'", "\"", "`", "\\", "#", "-", "/", "*", "(", ")", ",", ";", "{", "}", ".", "[", "]",
	"0", "1", "9", "@", "$", "?", "!", "<", "=", ">", "&", "|", ":", "+", "~", "^", "%",
	"a", "e", "E", "n", "N", "q", "Q", "u", "x", "X", "b", "d", "f", "_", "z",
	"--", "/*", "*/", "0x", "0b", "1e", "::", "$$", "''", "\\'", "@@", "<=>", "&&", "!!",
	"or", "union", "select", "sp_password", "q'(", ")'", "u&'", "n'", "$a$", "/*!",
	// runes that strings.ToUpper / ToLower fold into ASCII or change in length
	// (U+0131, U+017F, U+0130, U+212A, U+0250 whose upper case is 3 bytes, U+00FF)
	"\u0131", "\u017f", "\u0130", "\u212a", "\u0250", "\u00ff", "\xc4", "\xb1",
}

// one lexeme per token class (joined by a separator), to reach every folding rule
var sqlLexemes = []string{
	"1", "1.5", "0x1f", "foo", "foo_bar", "'s'", "\"d\"", "`t`", "``", "@v", "@@v", "+", "-", "!", "~", "*", "/", "%", "=", "<", "||",
	"AND", "OR", "NOT", "XOR", "(", ")", ",", ";", "{", "}", ".", ":", "::", "\\", "?", "#",
	"SELECT", "UNION", "UNION ALL", "GROUP BY", "ORDER BY", "INT", "CHAR", "COLLATE", "IF", "USER", "DATABASE", "CURRENT_USER",
	"LIKE", "NOT LIKE", "IN", "NOT IN", "IS", "INTO", "INTO OUTFILE", "FROM", "WHERE", "HAVING", "LIMIT", "CASE", "WHEN",
	"SLEEP", "BENCHMARK", "WAITFOR", "DELAY", "EXEC", "DROP", "TABLE", "NULL", "TRUE", "BETWEEN", "DIV", "MOD",
	"--", "-- x", "--x", "/**/", "/*x*/", "/*!1*/", "/* /* */", "sp_password", "BINARY", "ALL", "DISTINCT", "AS", "BY",
	"x'1f'", "b'01'", "n'x'", "e'x'", "u&'x'", "q'(x)'", "$$x$$", "$t$x$t$", "$1.5", "[x]", "\\N", "1e5", "1e", "1f", "0x", "1.", ".5", "IN BOOLEAN MODE",
	"@`v`", "@'v'", "INTO DUMPFILE", "NATURAL", "JOIN", "CROSS", "LEFT", "USING", "DECLARE", "SET", "BEGIN", "GOTO", "PRINT", "RAISERROR",
}

var sqlSeparators = []string{" ", " ", " ", "", "\t", "\n", "/**/", "\x00", "\xa0", "  "}

var htmlAlphabet = []string{
	"<", ">", "/", "=", "'", "\"", "`", "!", "-", "?", "%", "[", "]", "&", "#", ";", "\x00", " ", "\t", "\n",
	"a", "x", "X", "1", ":", "\x80",
	"\u0131", "\u017f", "\u0130", "\u212a", "\u0250", "\u00ff", "\xc4", "\xb1",
	"script", "on", "onclick", "href", "style", "--", "[CDATA[", "]]>", "doctype", "&#x6a;", "&#106", "javascript:", "<!--", "-->", "<%", "%>", "<?", "xml", "import", "<a ", "src", "xmlns", "svg",
}

// ---------------- stream builders ----------------

type inputSet struct {
	seen  map[string]bool
	list  []string
	src   []string       // stream name of list[i]
	hist  map[string]int // stream name -> count
	limit int
}

func newInputSet() *inputSet { return &inputSet{seen: map[string]bool{}, hist: map[string]int{}} }

func (s *inputSet) add(stream, in string) {
	if len(in) > 1<<20 {
		return
	}
	if s.seen[in] {
		return
	}
	s.seen[in] = true
	s.list = append(s.list, in)
	s.src = append(s.src, stream)
	s.hist[stream]++
}

func exhaustive(alpha []string, depth int, f func(string)) {
	var rec func(prefix string, d int)
	rec = func(prefix string, d int) {
		f(prefix)
		if d == 0 {
			return
		}
		for _, a := range alpha {
			rec(prefix+a, d-1)
		}
	}
	rec("", depth)
}

func randomSeq(r *rng, alpha []string, minLen, maxLen int) string {
	n := minLen + r.intn(maxLen-minLen+1)
	var b strings.Builder
	for i := 0; i < n; i++ {
		b.WriteString(alpha[r.intn(len(alpha))])
	}
	return b.String()
}

func randomLexemes(r *rng, minLen, maxLen int) string {
	n := minLen + r.intn(maxLen-minLen+1)
	var b strings.Builder
	sep := sqlSeparators[r.intn(len(sqlSeparators))]
	for i := 0; i < n; i++ {
		if i > 0 {
			if r.coin(1, 4) {
				b.WriteString(sqlSeparators[r.intn(len(sqlSeparators))])
			} else {
				b.WriteString(sep)
			}
		}
		b.WriteString(sqlLexemes[r.intn(len(sqlLexemes))])
	}
	return b.String()
}

var mutationBytes = []byte{0x00, 0x80, 0xa0, 0xff, '\'', '"', '`', '\\', '-', '/', '*', '#', '$', '@', '<', '>', '=', '%', ']', '&', ';', ' ', '\n', 'q', 'N', '.', '0', '(', ')'}

var foldRunes = []string{"\u0131", "\u017f", "\u0130", "\u212a", "\u0250", "\u00ff", "\u0131\u0131", "\u017f\u017f"}

// unicodeRespell replaces some of s/S, i/I, k/K by U+017F, U+0131 / U+0130, U+212A:
// the spellings that strings.ToUpper or strings.ToLower map back to the ASCII letter.
func unicodeRespell(r *rng, s string) string {
	var b strings.Builder
	all := r.intn(2) == 0
	for i := 0; i < len(s); i++ {
		c := s[i]
		if !all && r.intn(3) != 0 {
			b.WriteByte(c)
			continue
		}
		switch c {
		case 's', 'S':
			b.WriteString("\u017f")
		case 'i':
			b.WriteString("\u0131")
		case 'I':
			if r.intn(2) == 0 {
				b.WriteString("\u0131")
			} else {
				b.WriteString("\u0130")
			}
		case 'k', 'K':
			b.WriteString("\u212a")
		default:
			b.WriteByte(c)
		}
	}
	return b.String()
}

// lowByteTwin replaces up to k non-alphanumeric ASCII bytes of s by a validly encoded rune
// whose code point has the same low byte (U+01xx, U+04xx or U+20xx): the bytes differ, but
// code that walks a string by runes and truncates them to bytes sees the ASCII byte again.
func lowByteTwin(r *rng, s string, k int) string {
	b := []byte(s)
	var out []byte
	for i := 0; i < len(b); i++ {
		c := b[i]
		special := c < 0x80 && !(c >= '0' && c <= '9') && !isLetter(c)
		if special && k > 0 && r.intn(3) == 0 {
			k--
			base := []rune{0x100, 0x400, 0x2000}[r.intn(3)]
			out = append(out, string(base+rune(c))...)
		} else {
			out = append(out, c)
		}
	}
	return string(out)
}

func mutate(r *rng, s string) string {
	b := []byte(s)
	switch r.intn(11) {
	case 10: // replace ASCII punctuation by a multi-byte rune with the same low byte
		return lowByteTwin(r, s, 1+r.intn(3))
	case 8: // respell letters with the runes that Unicode case mapping folds into them
		return unicodeRespell(r, s)
	case 9: // insert a rune whose case mapping changes its encoded length
		i := r.intn(len(b) + 1)
		ins := foldRunes[r.intn(len(foldRunes))]
		return string(b[:i]) + ins + string(b[i:])
	case 0: // flip a byte
		if len(b) > 0 {
			b[r.intn(len(b))] = mutationBytes[r.intn(len(mutationBytes))]
		}
	case 1: // insert
		i := r.intn(len(b) + 1)
		b = append(b[:i], append([]byte{mutationBytes[r.intn(len(mutationBytes))]}, b[i:]...)...)
	case 2: // delete
		if len(b) > 0 {
			i := r.intn(len(b))
			b = append(b[:i], b[i+1:]...)
		}
	case 3: // duplicate a tail (the shape that found the parseStringCore re-search defect)
		if len(b) > 1 {
			i := r.intn(len(b))
			b = append(b, b[i:]...)
		}
	case 4: // case flip of a letter
		for k := 0; k < 4 && len(b) > 0; k++ {
			i := r.intn(len(b))
			if (b[i] >= 'a' && b[i] <= 'z') || (b[i] >= 'A' && b[i] <= 'Z') {
				b[i] ^= 0x20
			}
		}
	case 5: // truncate
		if len(b) > 0 {
			b = b[:r.intn(len(b))]
		}
	case 6: // swap two bytes
		if len(b) > 1 {
			i, j := r.intn(len(b)), r.intn(len(b))
			b[i], b[j] = b[j], b[i]
		}
	case 7: // splice a random random byte run
		i := r.intn(len(b) + 1)
		n := 1 + r.intn(3)
		ins := make([]byte, n)
		for k := range ins {
			ins[k] = byte(r.intn(256))
		}
		b = append(b[:i], append(ins, b[i:]...)...)
	}
	return string(b)
}

func (c *corpus) fragments(r *rng, seps []string, n int) string {
	var b strings.Builder
	k := 1 + r.intn(n)
	for i := 0; i < k; i++ {
		if i > 0 {
			b.WriteString(seps[r.intn(len(seps))])
		}
		if len(c.dict) > 0 {
			b.WriteString(c.dict[r.intn(len(c.dict))])
		}
	}
	return b.String()
}

var sqlOpeners = []string{"q'(", "q'x", "nq'[", "$tag$", "$$", "0x", "0b", "1e+", "1.", "/*", "/*!", "--", "#", "@@", "@`", "@'", "u&'", "n'", "e'", "x'", "b'", "'", "\"", "`", "[", "\\", "$1", "<=", "1d", "{`", "{"}
var htmlOpeners = []string{"<![CDATA[", "<%", "<!--", "<!", "<?", "<!doctype", "&#x", "&#", "<a b='", "<a b=\"", "<a b=`", "<a b=", "<a ", "</", "<a/", "<", "<a href=", "<a href='&#"}

// sizes per tier
type sizes struct {
	exhDepthBytes, exhDepthLex int
	randBytes, randLex         int
	trunc, frag, mut           int
}

func tierSizes(tier string, scale int) sizes {
	if tier == "thorough" {
		return sizes{3, 3, 60000 * scale, 80000 * scale, 40000, 30000 * scale, 60000 * scale}
	}
	return sizes{2, 2, 6000 * scale, 10000 * scale, 5000, 3000 * scale, 6000 * scale}
}

// whitelistShapes enumerates the inputs on which the false-positive rules of
// notWhitelist decide: two-token fingerprints (number / word + comment, with every
// kind of byte between them and in front), string-operator-string with every
// open / close quote combination, and the three-token "and"-shapes with and without
// a further token.
func whitelistShapes(emit func(string)) {
	leads := []string{"", " ", "\t", "\xa0", "\x00", "  ", "+", "("}
	firsts := []string{"1", "12", "1.5", "0x1f", "1e5", "foo", "@v", "'s'", "1 union", "union", "1+foo"}
	mids := []string{"", " ", "\xa0", "\t", "\x01", "\x7f", "\x00", "/", "-", "*", "\n"}
	comments := []string{"--", "-- x", "--x", "-- ", "#", "#x", "/*", "/*x*/", "/*!1*/", "/**/", "-- sp_password", "/*sp_password*/", "--sp_password", "# sp_password", "-", "--\n1"}
	for _, l := range leads {
		for _, f := range firsts {
			for _, m := range mids {
				for _, c := range comments {
					emit(l + f + m + c)
				}
			}
		}
	}
	quotes := []string{"", "'", "\""}
	ops := []string{"+", "||", " and ", " or ", "&&", " like ", " into outfile ", " into ", " having ", " union ", ","}
	for _, q0 := range quotes {
		for _, q1 := range quotes {
			for _, q2 := range quotes {
				for _, q3 := range quotes {
					for _, o := range ops {
						for _, tail := range []string{"", " 1", "--", " -- x"} {
							emit(q0 + "x" + q1 + o + q2 + "y" + q3 + tail)
						}
					}
				}
			}
		}
	}
	atoms := []string{"1", "foo", "'s'", "@v", "sexy", "17", "\"d\""}
	for _, a := range atoms {
		for _, o := range []string{" and ", " or ", "&&", " xor ", " div ", " mod ", " like ", " into outfile ", " into dumpfile ", " into ", " select ", " from "} {
			for _, b := range atoms {
				for _, tail := range []string{"", "<18", " --", "/**/", " ;", "("} {
					emit(a + o + b + tail)
				}
			}
		}
	}
}

// one or two lexemes per token class: every window of three classes that a folding rule
// can look at, and the five-token patterns with each position replaced by every class
var classReps = []string{"1", "foo", "'s'", "@v", "+", "-", "!", "(", ")", ",", ";", "{", "}", ".", "\\", "and", "not", "like", "in",
	"select", "union", "from", "by", "into outfile", "collate", "int", "if", "case", "exec", "binary"}

func foldShapes(emit func(string)) {
	for _, a := range classReps {
		for _, b := range classReps {
			for _, c := range classReps {
				emit(a + " " + b + " " + c)
			}
		}
	}
	five := [][]string{
		{"1", "+", "(", "1", ")"}, {"1", ",", "(", "1", ")"}, {"foo", "=", "(", "bar", ")"}, {"foo", "+", "(", "1", ")"},
		{"1", ")", ",", "(", "1"}, {"foo", ")", "+", "(", "bar"},
	}
	// the five-token pattern met with six tokens in the window (a two-token rule rewrites
	// token 4 in place while slot 5 already holds the look-ahead): every pair of classes behind it
	for _, head := range []string{"foo ) = ( in ", "foo ) = ( not in ", "1 ) , ( \\ + ", "foo ) ! ( in ", "( foo ) = ( in ", "1 like foo ) = ( in "} {
		for _, a := range classReps {
			emit(head + a)
			for _, b := range classReps {
				emit(head + a + " " + b)
			}
		}
	}
	tails := []string{"", " 1", " foo", " +", " )", " ,", " union select 1", " --", " or 1=1", " ( 1 )"}
	heads := []string{"", "( ", "- ", "/**/ ", "1 ", "foo "}
	for _, f := range five {
		for _, h := range heads {
			for _, t := range tails {
				emit(h + strings.Join(f, " ") + t)
				emit(h + strings.Join(f, "") + t)
			}
		}
		for i := range f {
			for _, r := range classReps {
				g := append([]string{}, f...)
				g[i] = r
				for _, t := range []string{"", " 1", " foo", " +"} {
					emit(strings.Join(g, " ") + t)
				}
			}
		}
	}
}

// tablePhrases: every multi-word key of the keyword table (the phrases merge() builds), alone
// and in context, with its words also separated by other white space, and every pair
// (first word of a phrase, second word of another phrase): merge must find exactly the listed ones.
func tablePhrases(emit func(string)) {
	kw := li.VerifSQLKeywords()
	var phrases []string
	firsts, seconds := map[string]bool{}, map[string]bool{}
	for k := range kw {
		if i := strings.IndexByte(k, ' '); i > 0 && !strings.HasPrefix(k, "0") {
			phrases = append(phrases, k)
			firsts[k[:i]] = true
			seconds[k[i+1:]] = true
		}
	}
	sort.Strings(phrases)
	for _, p := range phrases {
		lp := strings.ToLower(p)
		for _, f := range []string{"%s", "1 %s 1", "%s(1)", "x' %s 'y", "1 %s", "%s 1", "@v %s foo", "1;%s x",
			// attack contexts in which the class of the merged phrase decides the verdict
			"x' %s 'utc' is null --", "1 %s 'utc' or 1", "1) or %s=1 --", "1 or 1=1 %s 1", "1 union select %s", "1' or %s --", "1 and %s(1)", "x' or 1 %s 1 --"} {
			emit(fmt.Sprintf(f, p))
			emit(fmt.Sprintf(f, lp))
		}
		// the words of the phrase carried by tokens of other classes (variable, strings,
		// quoted identifiers): merge must look at the class, not only at the value
		if i := strings.IndexByte(lp, ' '); i > 0 {
			a, b := lp[:i], lp[i+1:]
			for _, q := range [][2]string{{"@", ""}, {"'", "'"}, {"\"", "\""}, {"`", "`"}, {"[", "]"}, {"@@", ""}, {"$", ""}, {"0x", ""}, {"", "("}, {"", "."}} {
				emit("1 " + a + " " + q[0] + b + q[1] + " 1")
				emit("1 " + q[0] + a + q[1] + " " + b + " 1")
				emit(a + " " + q[0] + b + q[1] + "(0)")
			}
		}
		emit("1 " + strings.Replace(lp, " ", "\t", 1) + " 1")
		emit("1 " + strings.Replace(lp, " ", "  ", 1) + " 1")
		emit("1 " + strings.Replace(lp, " ", "/**/", 1) + " 1")
	}
	var fs, ss []string
	for f := range firsts {
		fs = append(fs, f)
	}
	for x := range seconds {
		ss = append(ss, x)
	}
	sort.Strings(fs)
	sort.Strings(ss)
	for _, f := range fs {
		for _, x := range ss {
			emit("1 " + strings.ToLower(f+" "+x) + " 1")
		}
	}
}

// nearMisses: every word-like name with itself, its lower case, and the names one edit away
// (last byte dropped, first byte dropped, a byte appended, last byte changed).
func nearMisses(names []string) []string {
	seen := map[string]bool{}
	var out []string
	add := func(x string) {
		if x != "" && !seen[x] {
			seen[x] = true
			out = append(out, x)
		}
	}
	for _, w := range names {
		if len(w) < 2 || strings.ContainsAny(w, " \t\n'\"`") && len(w) > 12 {
			continue
		}
		add(w)
		add(strings.ToLower(w))
		add(w[:len(w)-1])
		add(w[1:])
		add(w + "x")
		add(w + "S")
		b := []byte(w)
		b[len(b)-1] ^= 1
		add(string(b))
	}
	return out
}

// every byte value (and the byte after one ordinary byte) in every syntactic position where
// a lexer consults a byte class: decides each entry of each class table and each comparison
// against a byte constant
var sqlByteForms = []string{"x'%s'", "X'1%s'", "b'%s'", "B'1%s'", "0x%s", "0X1%s", "0b%s", "0b1%s", "1e%s", "1e1%s", "1.%s", "1%s", ".%s", ".1%s",
	"@%s", "@a%s", "@@%s", "@`a%s`", "$%s", "$1%s", "$a%s$", "$a$x$%s$", "%s", "a%s", "a%sb", "a.%s", "'a%s'", "'a\\%s'", "'a'%s'", "\"a%s\"", "`a%s`", "q'%sx%s'", "nq'%sx%s'",
	"n'%s'", "e'%s'", "u&'%s'", "/*%s*/", "/*!%s*/", "/*a*%s", "--%s", "-- %s\n1", "#%s\n1", "1 %s 1", "1 -%s", "1 <%s", "1 !%s", "1 |%s", "1 &%s", "1 :%s", "[a%s]", "{a%s}", "\\%s", "1 union%sselect 1", "1'%sor'1"}

var htmlByteForms = []string{"<%s>", "<a%s>", "<a%sb>", "<a %s=x>", "<a b%s=x>", "<a b%sc=x>", "<a b=%s>", "<a b=x%s>", "<a b='x%s'>", "<a b='x'%s>", "<a b=\"x\"%sc>", "<a b %s>", "<a b =%s>",
	"<!%s>", "<!-%s", "<!--%s-->", "<!--x-%s>", "<!--x--%s>", "<!--x--!%s", "<![CDATA[%s]]>", "<![CDATA[x]%s>", "<![CDATA[x]]%s", "</%s>", "</a%s>", "<?%s>", "<?x%s>", "<%%%s%%>", "<%%x%%%s",
	"&#%s;", "&#x%s;", "&#1%s", "&#x1%s", "&#x1%s;", "&%s", "<a href=%sjavascript:x>", "<a href=java%sscript:x>", "<a href=javascript%sx>", "<a href='%sjavascript:x'>", "<a/%s>", "<a/%sonclick=x>",
	"<a on%s=x>", "<a o%snclick=x>", "<s%script>", "<script%s", "x%s", "%s<script>", "'%sonclick=x", "' %s onclick=x"}

func everyByteIn(forms []string, emit func(string)) {
	for _, f := range forms {
		n := strings.Count(f, "%s")
		for c := 0; c < 256; c++ {
			b := string([]byte{byte(c)})
			if n == 1 {
				emit(strings.Replace(f, "%s", b, 1))
			} else {
				emit(strings.Replace(f, "%s", b, -1))
				emit(strings.Replace(strings.Replace(f, "%s", b, 1), "%s", "(", 1))
			}
		}
	}
}

func sqlAll(c *corpus, r *rng, tier string, scale int) *inputSet {
	z := tierSizes(tier, scale)
	s := newInputSet()
	for _, x := range c.kept {
		s.add("corpus", x)
	}
	for _, x := range c.sql {
		s.add("corpus", x)
	}
	exhaustive(sqlAlphabet, z.exhDepthBytes, func(x string) { s.add("exhaustive-bytes", x) })
	lexSep := func(x []string) string { return strings.Join(x, " ") }
	var rec func(cur []string, d int)
	rec = func(cur []string, d int) {
		if len(cur) > 0 {
			s.add("exhaustive-lexemes", lexSep(cur))
		}
		if d == 0 {
			return
		}
		for _, l := range sqlLexemes {
			rec(append(cur, l), d-1)
		}
	}
	rec(nil, z.exhDepthLex)
	whitelistShapes(func(x string) { s.add("whitelist-shapes", x) })
	foldShapes(func(x string) { s.add("fold-shapes", x) })
	tablePhrases(func(x string) { s.add("table-phrases", x) })
	everyByteIn(sqlByteForms, func(x string) { s.add("every-byte-in-position", x) })
	for _, w := range nearMisses(c.logic) {
		for _, f := range []string{"%s", "%s(", "%s (1)", "@%s(1)", "@@%s (1)", "'%s'(1)", "`%s`(1)", "1 %s 1", "1 %s (1)", "x' %s 'y", "; %s 1=1", "1 %s outfile 'x'", "select %s(1)", "1 not %s (1)", "1 %s", "%s 1"} {
			s.add("logic-words", fmt.Sprintf(f, w))
		}
	}
	for i := 0; i < z.randBytes; i++ {
		s.add("random-bytes", randomSeq(r, sqlAlphabet, 3, 9))
	}
	for i := 0; i < z.randLex; i++ {
		s.add("random-lexemes", randomLexemes(r, 3, 9))
	}
	// truncation: every corpus input and opener cut at every offset, openers followed by every symbol
	var truncs []string
	for _, x := range append(append([]string{}, c.sql...), c.kept...) {
		if len(x) <= 48 {
			for i := 0; i <= len(x); i++ {
				truncs = append(truncs, x[:i])
			}
		}
	}
	for _, o := range sqlOpeners {
		for i := 0; i <= len(o); i++ {
			truncs = append(truncs, o[:i])
		}
		for _, a := range sqlAlphabet {
			truncs = append(truncs, o+a, "1 "+o+a, o+a+a, o+"a"+a)
		}
	}
	if len(truncs) > z.trunc {
		// keep a deterministic sample
		for i := len(truncs) - 1; i > 0; i-- {
			j := r.intn(i + 1)
			truncs[i], truncs[j] = truncs[j], truncs[i]
		}
		truncs = truncs[:z.trunc]
	}
	for _, x := range truncs {
		s.add("truncation", x)
	}
	for i := 0; i < z.frag; i++ {
		s.add("fragments", c.fragments(r, sqlSeparators, 8))
	}
	// literal forms: every q-quote delimiter byte, and random literal bodies behind every opening mode
	for _, x := range qDelimiterInputs() {
		s.add("q-delimiters", x)
	}
	openers := []string{"'", "\"", "`", "@'", "@`", "n'", "e'", "u&'", "q'(", "q'x", "nq'[", "$$", "$a$", "x'", "b'", "1 '", "x \""}
	for i := 0; i < z.frag; i++ {
		s.add("literal-bodies", openers[r.intn(len(openers))]+randomSeq(r, bodyAlphabetSQL, 1, 8))
	}
	base := append(append([]string{}, c.sql...), c.kept...)
	for i := 0; i < z.mut && len(base) > 0; i++ {
		x := base[r.intn(len(base))]
		for k := r.intn(3); k >= 0; k-- {
			x = mutate(r, x)
		}
		s.add("mutation", x)
	}
	return s
}

// wrappedVectors: a vector hidden from some contexts inside a (quoted) attribute value of a
// decoy tag, preceded and / or followed by an unfinished construct or a tag form that leaves
// tokenizer flags set.  The verdict of such an input depends on every context being scanned
// from a clean state: state carried from one context (or one call) to the next shows here.
func wrappedVectors(emit func(string)) {
	vectors := []string{"<script>alert(1)</script>", "<iframe>", "<style>x</style>", "<svg/onload=alert(1)>", "<img src=x onerror=alert(1)>",
		"<a href=javascript:alert(1)>", "<x onclick=alert(1)>", "<!DOCTYPE x>", "<?import x>", "<!--[if x]>", "<b>", "<script src=x>"}
	wraps := []string{"%s", "<a title=\">%s\">x", "<a title='>%s'>x", "<a title=`>%s`>x", "<a title=>%s>x", "x>%s", "\">%s", "'>%s", "</p >%s", "</p/>%s", "</>%s", "</ br>%s", "</p x=\"y\">%s"}
	tails := []string{"", "</a", "</", "</a ", "</a/", "<a", "<a ", "<a b", "<a b=", "<a b='", "<a b=\"", "<!--", "<!", "<?", "<%", "<![CDATA[", "&#", "</a>", "</ x>", "</1>"}
	for _, v := range vectors {
		for _, w := range wraps {
			body := fmt.Sprintf(w, v)
			for _, t := range tails {
				emit(body + t)
				if t != "" {
					emit(t + ">" + body)
					emit(t + " " + body)
				}
			}
		}
	}
	// two flag-setting forms in a row in front of a directly closed tag
	pre := []string{"</p >", "</p/>", "</>", "</p x=\"y\">", "</ br>", "</1>", "<//>", "<b>", "</b>", "<a b=c>", "<!-- -->", "<a/>"}
	for _, a := range pre {
		for _, b := range pre {
			for _, v := range []string{"<script>", "<iframe>", "<b>", "<style>"} {
				for _, q := range []string{"", "x>", "\">", "'>"} {
					emit(q + a + b + v)
				}
			}
		}
	}
}

// doubleTerminators: a construct whose FIRST terminator is an unusual spelling (NULs inside the
// comment end, a decoy byte directly in front of it) followed at a short distance by a plain
// terminator of the same construct, at several depths of the input: a scanner that jumps to the
// plain terminator, or that checks the bytes in front of it with the wrong base offset, ends the
// construct at the wrong place.
func doubleTerminators(emit func(string)) {
	type cons struct {
		open         []string
		first, plain []string
	}
	cs := []cons{
		{[]string{"<!--", "<!--x", "<!-- a "}, []string{"-\x00->", "-\x00!>", "-\x00\x00->", "-\x00\x00\x00!>", "--!>", "-!>", "-->", "-\x00-", "--\x00>", "-\x00>"}, []string{"-->", "--!>", "->", "-!>"}},
		{[]string{"<![CDATA[", "<![CDATA[x"}, []string{"]]>", "]]]>", "]>]]>", "]] >", "]]\x00>"}, []string{"]]>"}},
		{[]string{"<%", "<%x"}, []string{"%>", "%%>", "% >", "%\x00>"}, []string{"%>"}},
		{[]string{"<?", "<?x", "<!", "<!x", "</ ", "</1"}, []string{">", "\x00>", "->", "?>"}, []string{">", "-->"}},
	}
	mids := []string{"", "x", "-", "<script>", "\x00", " "}
	pres := []string{"", "x>", "<p>hello</p>", "0123456789"}
	tails := []string{"", "<script>alert(1)</script>", "-->"}
	for _, c := range cs {
		for _, o := range c.open {
			for _, f := range c.first {
				for _, m := range mids {
					for _, pl := range c.plain {
						for _, p := range pres {
							for _, t := range tails {
								emit(p + o + f + m + pl + t)
							}
						}
					}
				}
			}
		}
	}
}

// attrSoup: an attribute-list injection that starts with a quote (or not) and puts every short
// sequence of separator / equals / empty-value pieces in front of a black attribute: the five
// contexts read such a list one token out of phase with each other, so the verdict is decided by
// exactly one of them -- IsXSS must still be their disjunction.
func attrSoup(emit func(string)) {
	pieces := []string{" ", "=", "x", "==", "=x=", "\x00", "\"\"", "''", "/", "a=b", "\t"}
	vectors := []string{"onclick=alert(1)", "onerror=x ", "style=x"}
	starts := []string{"'", "\"", "`", ""}
	var rec func(cur string, d int)
	rec = func(cur string, d int) {
		for _, st := range starts {
			for _, v := range vectors {
				emit(st + cur + v)
			}
		}
		if d == 0 {
			return
		}
		for _, p := range pieces {
			rec(cur+p, d-1)
		}
	}
	rec("", 3)
}

func htmlAll(c *corpus, r *rng, tier string, scale int) *inputSet {
	s := newInputSet()
	for _, x := range c.kept {
		s.add("corpus", x)
	}
	for _, x := range c.html {
		s.add("corpus", x)
	}
	depth, nrand, nfrag, nmut, ntrunc := 2, 12000*scale, 4000*scale, 8000*scale, 5000
	if tier == "thorough" {
		depth, nrand, nfrag, nmut, ntrunc = 3, 120000*scale, 40000*scale, 80000*scale, 40000
	}
	exhaustive(htmlAlphabet, depth, func(x string) { s.add("exhaustive", x) })
	wrappedVectors(func(x string) { s.add("wrapped-vectors-with-tails", x) })
	doubleTerminators(func(x string) { s.add("double-terminators", x) })
	attrSoup(func(x string) { s.add("attr-soup", x) })
	for _, k := range []int{40, 257, 1100} {
		z := strings.Repeat("\x00", k)
		for _, v := range []string{"<img src=x on%serror=alert(1)>", "x on%sfocus=alert(1) autofocus", "x' o%snclick=alert(1)", "<sc%sript>", "<a hr%sef=javascript:alert(1)>", "<a st%syle=x>", "<ifr%same>", "x\" xml%sns=x"} {
			s.add("many-nuls-in-name", fmt.Sprintf(v, z))
		}
	}
	everyByteIn(htmlByteForms, func(x string) { s.add("every-byte-in-position", x) })
	for _, w := range nearMisses(c.logic) {
		for _, f := range []string{"<%s>", "<%s ", "<%s/", "<a %s=x>", "<a href=%s:x>", "<a href='%s:x'>", "<a href=\" %sscript:x\">", "<!%s x>", "<?%s x>", "<![%s", "<a on%s=x>", "<a %s:href=x>", "<!--[%s x]>", "%s"} {
			s.add("logic-words", fmt.Sprintf(f, w))
		}
	}
	gTags, gBlacks, gEvents := grammarLists()
	for _, w := range nearMisses(gTags) {
		s.add("near-miss-names", "<"+w+">")
		s.add("near-miss-names", "x><"+w+" ")
	}
	var bl, ev []string
	for _, a := range gBlacks {
		bl = append(bl, a.Name)
	}
	for _, e := range gEvents {
		ev = append(ev, e.Name)
	}
	for _, w := range nearMisses(bl) {
		s.add("near-miss-names", "<a "+w+"=x>")
		s.add("near-miss-names", "<a "+w+"=javascript:x>")
		s.add("near-miss-names", "<a "+w+"=onclick>")
	}
	for _, w := range nearMisses(ev) {
		s.add("near-miss-names", "<a on"+w+"=x>")
	}
	for i := 0; i < nrand; i++ {
		s.add("random", randomSeq(r, htmlAlphabet, 3, 10))
	}
	var truncs []string
	for _, x := range append(append([]string{}, c.html...), c.kept...) {
		if len(x) <= 64 {
			for i := 0; i <= len(x); i++ {
				truncs = append(truncs, x[:i])
			}
		}
	}
	for _, o := range htmlOpeners {
		for i := 0; i <= len(o); i++ {
			truncs = append(truncs, o[:i])
		}
		for _, a := range htmlAlphabet {
			truncs = append(truncs, o+a, "x"+o+a, o+a+a, o+"a"+a, o+a+">")
		}
	}
	if len(truncs) > ntrunc {
		for i := len(truncs) - 1; i > 0; i-- {
			j := r.intn(i + 1)
			truncs[i], truncs[j] = truncs[j], truncs[i]
		}
		truncs = truncs[:ntrunc]
	}
	for _, x := range truncs {
		s.add("truncation", x)
	}
	// tag / attribute fragments from the shipped lists
	tags := liBlackTags()
	events := liBlackEvents()
	attrs := liBlacks()
	seps := []string{" ", "/", "\t", "\n", "\x00", "", ">", "='", "=\"", "=", "=`"}
	vals := []string{"x", "javascript:alert(1)", "&#x6a;avascript:", " JaVa\x00script:", "data:,", "view-source:x", "vbscript:x", "onclick", "1", ""}
	for i := 0; i < nfrag; i++ {
		var b strings.Builder
		if r.coin(1, 3) {
			b.WriteString([]string{"", ">", "'>", "\">", "`>", "x ", "' ", "\" "}[r.intn(8)])
		}
		switch r.intn(5) {
		case 0:
			b.WriteString("<" + caseMix(r, tags[r.intn(len(tags))]) + seps[r.intn(len(seps))])
		case 1:
			b.WriteString("<a " + caseMix(r, "on"+events[r.intn(len(events))]) + seps[r.intn(len(seps))] + vals[r.intn(len(vals))])
		case 2:
			b.WriteString("<a " + caseMix(r, attrs[r.intn(len(attrs))]) + seps[r.intn(len(seps))] + vals[r.intn(len(vals))] + []string{"", "'", "\"", ">", " "}[r.intn(5)])
		case 3:
			b.WriteString(caseMix(r, attrs[r.intn(len(attrs))]) + "=" + vals[r.intn(len(vals))])
		case 4:
			b.WriteString(c.fragments(r, []string{"", " ", "<", ">", "="}, 5))
		}
		s.add("fragments", b.String())
	}
	base := append(append([]string{}, c.html...), c.kept...)
	for i := 0; i < nmut && len(base) > 0; i++ {
		x := base[r.intn(len(base))]
		for k := r.intn(3); k >= 0; k-- {
			x = mutate(r, x)
		}
		s.add("mutation", x)
	}
	// delimited constructs: every short body over the terminator alphabet (incl. NUL, decoys,
	// truncated terminators) behind every construct opener: end of input inside every construct
	cdepth := 3
	if tier == "thorough" {
		cdepth = 4
	}
	exhaustive(constructBodyAlphabet, cdepth, func(body string) {
		for _, o := range constructOpeners {
			s.add("construct-bodies", o+body)
		}
	})
	// sequences of whole tags: open / close / self-closing, with and without attributes, so that
	// state carried from one tag to the next (close-tag flag, attribute type) is exercised
	exhaustive(tagTemplates, 3, func(x string) { s.add("tag-sequences", x) })
	for i := 0; i < nrand/4; i++ {
		s.add("tag-sequences-random", randomSeq(r, tagTemplates, 2, 6))
	}
	return s
}

var constructBodyAlphabet = []string{"%", ">", "]", "-", "!", "\x00", "a", "\"", "'", "`", "<", " "}
var constructOpeners = []string{"<%", "<![CDATA[", "<!--", "<!", "<?", "<!doctype ", "<a b='", "<a b=\"", "<a b=`", "x<!--"}
var tagTemplates = []string{"<a>", "</a>", "</a b>", "</a b=c>", "<a b>", "<a b=c>", "<a/>", "<a b='c'/>", "<script>", "</script x>", "x", ">", "<c d=e f>", "</", "<a b=\"c\">"}

func caseMix(r *rng, s string) string {
	b := []byte(s)
	mode := r.intn(4)
	for i := range b {
		isL := (b[i] >= 'a' && b[i] <= 'z') || (b[i] >= 'A' && b[i] <= 'Z')
		if !isL {
			continue
		}
		switch mode {
		case 0:
			b[i] |= 0x20
		case 1:
			b[i] &^= 0x20
		case 2:
			if r.coin(1, 2) {
				b[i] ^= 0x20
			}
		}
	}
	return string(b)
}

// long structured inputs (Go side only): each unit repeated to about n bytes
func longInputs(units []string, n int) []string {
	var out []string
	for _, u := range units {
		if len(u) == 0 {
			continue
		}
		out = append(out, strings.Repeat(u, n/len(u)+1))
	}
	return out
}

func hexLines(xs []string) []byte {
	var b bytes.Buffer
	for _, x := range xs {
		b.WriteString(hx(x))
		b.WriteByte('\n')
	}
	return b.Bytes()
}
