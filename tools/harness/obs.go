package main

import (
	"encoding/hex"
	"fmt"
	"strings"

	li "github.com/corazawaf/libinjection-go"
)

var sqlModes = []int{9, 17, 10, 18, 12, 20}
var h5Ctxs = []int{0, 1, 2, 3, 4}

func hx(s string) string {
	if len(s) == 0 {
		return "-"
	}
	return hex.EncodeToString([]byte(s))
}

func unhx(s string) string {
	if s == "-" {
		return ""
	}
	b, err := hex.DecodeString(s)
	if err != nil {
		panic("bad hex input: " + s)
	}
	return string(b)
}

func b2i(b bool) int {
	if b {
		return 1
	}
	return 0
}

// guard runs f and maps a Go panic to the outcome word PANIC.
func guard(f func() string) (out string) {
	defer func() {
		if r := recover(); r != nil {
			out = "PANIC"
		}
	}()
	return f()
}

func tokFields(t li.VerifToken) string {
	return fmt.Sprintf("%d %d %d %s %d %d %d", t.Category, t.Pos, t.Len, hx(t.Val), t.StrOpen, t.StrClose, t.Count)
}

func lineT(in string, fl int) string {
	return fmt.Sprintf("SQ %d %s", fl, guard(func() string {
		toks, end, st := li.VerifTokenize(in, fl)
		parts := make([]string, len(toks))
		for i, t := range toks {
			parts[i] = fmt.Sprintf("%s %d %d", tokFields(t), t.Before, t.After)
		}
		return fmt.Sprintf("%d %s E %d %d %d %d", len(toks), strings.Join(parts, " "), end, st.DDX, st.Hash, st.Tokens)
	}))
}

func lineF(in string, fl int) string {
	return fmt.Sprintf("SF %d %s", fl, guard(func() string {
		toks, st := li.VerifFold(in, fl)
		parts := make([]string, len(toks))
		for i, t := range toks {
			parts[i] = tokFields(t)
		}
		return fmt.Sprintf("%d %s S %d %d %d %d", len(toks), strings.Join(parts, " "), st.Folds, st.Tokens, st.DDX, st.Hash)
	}))
}

func lineP(in string, fl int) string {
	return fmt.Sprintf("SP %d %s", fl, guard(func() string {
		fp, bl, v, st := li.VerifFingerprint(in, fl)
		return fmt.Sprintf("%s %d %d %d %d %d %d", hx(fp), b2i(bl), b2i(v), st.Tokens, st.DDX, st.Hash, st.Folds)
	}))
}

func lineV(in string) string {
	return "SV " + guard(func() string {
		b, fp := li.IsSQLi(in)
		return fmt.Sprintf("%d %s", b2i(b), hx(fp))
	})
}

func lineH(in string, ctx int) string {
	return fmt.Sprintf("HT %d %s", ctx, guard(func() string {
		toks, capped := li.VerifH5Tokens(in, ctx, 2*len(in)+4)
		if capped {
			return "OUTOFFUEL"
		}
		parts := make([]string, len(toks))
		for i, t := range toks {
			parts[i] = fmt.Sprintf("%d %d %d", t[0], t[1], t[2])
		}
		return fmt.Sprintf("%d %s", len(toks), strings.Join(parts, " "))
	}))
}

func lineX(in string, ctx int) string {
	return fmt.Sprintf("HV %d %s", ctx, guard(func() string { return fmt.Sprint(b2i(li.VerifIsXSSCtx(in, ctx))) }))
}

func lineHX(in string) string {
	return "HX " + guard(func() string { return fmt.Sprint(b2i(li.IsXSS(in))) })
}

func lineD(in string) string {
	return "HD " + guard(func() string { v, c := li.VerifHTMLDecode(in); return fmt.Sprintf("%d %d", v, c) })
}
func lineU(in string) string {
	return "HB url " + guard(func() string { return fmt.Sprint(b2i(li.VerifIsBlackURL(in))) })
}
func lineG(in string) string {
	return "HB tag " + guard(func() string { return fmt.Sprint(b2i(li.VerifIsBlackTag(in))) })
}
func lineA(in string) string {
	return "HB attr " + guard(func() string { return fmt.Sprint(li.VerifIsBlackAttr(in)) })
}
func lineK(in string) string {
	return "KW " + guard(func() string {
		v, ok := kwTable[strings.ToUpper(in)]
		if !ok {
			return "0"
		}
		return fmt.Sprint(int(v))
	})
}

var kwTable = li.VerifSQLKeywords()

// observe appends the canonical lines of one input for the selected kinds
// (same order as ocaml/driver.ml).
func observe(kinds string, in string, emit func(string)) {
	has := func(c byte) bool { return strings.IndexByte(kinds, c) >= 0 }
	if has('T') {
		for _, fl := range sqlModes {
			emit(lineT(in, fl))
		}
	}
	if has('F') {
		for _, fl := range sqlModes {
			emit(lineF(in, fl))
		}
	}
	if has('P') {
		for _, fl := range sqlModes {
			emit(lineP(in, fl))
		}
	}
	if has('V') {
		emit(lineV(in))
	}
	if has('H') {
		for _, c := range h5Ctxs {
			emit(lineH(in, c))
		}
	}
	if has('X') {
		for _, c := range h5Ctxs {
			emit(lineX(in, c))
		}
		emit(lineHX(in))
	}
	if has('D') {
		emit(lineD(in))
	}
	if has('U') {
		emit(lineU(in))
	}
	if has('G') {
		emit(lineG(in))
	}
	if has('A') {
		emit(lineA(in))
	}
	if has('K') {
		emit(lineK(in))
	}
}
