package main

import (
	"bytes"
	"fmt"
	"strings"

	li "github.com/corazawaf/libinjection-go"
)

func liBlackTags() []string { return li.VerifBlackTags() }
func liBlackEvents() []string {
	var out []string
	for _, e := range li.VerifBlackEvents() {
		out = append(out, e.Name)
	}
	return out
}
func liBlacks() []string {
	var out []string
	for _, e := range li.VerifBlacks() {
		out = append(out, e.Name)
	}
	return out
}

type failFn func(kind, input, detail string)

// safely runs f; a panic is reported as a failure of kind "panic".
func safely(prop, input string, fail failFn, f func()) {
	defer func() {
		if r := recover(); r != nil {
			fail("panic", input, fmt.Sprintf("%s oracle: implementation panicked: %v", prop, r))
		}
	}()
	f()
}

const classAlphabet = "kUBEtfn1vso&cA(){}.,:;T?XF\\"

func bstr(b byte) string { return string([]byte{b}) }

func isLetter(b byte) bool { return (b >= 'a' && b <= 'z') || (b >= 'A' && b <= 'Z') }

// runOracle evaluates the property statement itself on implementation values.
func runOracle(prop, in string, r *rng, fail failFn) (evals int) {
	safely(prop, in, fail, func() {
		switch prop {
		case "C01":
			li.IsSQLi(in)
			evals = 1
		case "C02":
			li.IsXSS(in)
			for _, c := range h5Ctxs {
				li.VerifIsXSSCtx(in, c)
			}
			evals = 6
		case "C03":
			evals = 1
			if b, _ := li.IsSQLi(in); !b {
				fail("grammar-member-not-detected", in, "IsSQLi = false for a member of the frozen attack grammar")
			}
		case "C04":
			evals = 1
			if !li.IsXSS(in) {
				fail("vector-not-detected", in, "IsXSS = false for a member of the vector grammar")
			}
		case "C08":
			evals = oracleC08(in, fail)
		case "C10":
			evals = oracleC10(in, r, fail)
		case "C11":
			evals = oracleC11(in, r, fail)
		case "C12":
			evals = oracleC12(in, fail)
		case "C13":
			evals = oracleC13(in, r, fail)
		case "C14":
			evals = 1
			if b, fp := li.IsSQLi(in); b || fp != "" {
				fail("benign-reported", in, fmt.Sprintf("IsSQLi = (%v,%q) for a member of the benign family", b, fp))
			}
		case "C15":
			evals = 6
			if strings.ContainsAny(in, "<=") {
				return
			}
			if li.IsXSS(in) {
				fail("xss-without-lt-eq", in, "IsXSS = true although the input has neither '<' nor '='")
			}
			for _, c := range h5Ctxs {
				if li.VerifIsXSSCtx(in, c) {
					fail("xss-without-lt-eq", in, fmt.Sprintf("context %d verdict true although the input has neither '<' nor '='", c))
				}
			}
		case "C16":
			evals = oracleC16(in, fail)
		case "C17":
			evals = oracleC17(in, fail)
		case "C18":
			evals = oracleC18(in, fail)
		case "C19":
			evals = oracleC19(in, fail)
		}
	})
	return evals
}

// ---------- C08 ----------

func oracleC08(in string, fail failFn) int {
	b, f := li.IsSQLi(in)
	if !b {
		if f != "" {
			fail("fingerprint-on-false", in, fmt.Sprintf("verdict false with fingerprint %q", f))
		}
		return 1
	}
	if len(f) < 1 || len(f) > 5 {
		fail("fingerprint-length", in, fmt.Sprintf("fingerprint %q has length %d", f, len(f)))
		return 1
	}
	for i := 0; i < len(f); i++ {
		if strings.IndexByte(classAlphabet, f[i]) < 0 {
			fail("fingerprint-alphabet", in, fmt.Sprintf("fingerprint %q has non-class byte at %d", f, i))
		}
		if f[i] == 'c' && i != len(f)-1 {
			fail("comment-not-last", in, fmt.Sprintf("fingerprint %q carries 'c' before the last position", f))
		}
	}
	if v, ok := kwTable["0"+strings.ToUpper(f)]; !ok || v != 'F' {
		fail("fingerprint-not-blacklisted", in, fmt.Sprintf("fingerprint %q is not a blacklist key", f))
	}
	found := false
	for _, fl := range []int{9, 17, 10, 18, 20} {
		fp, _, _, _ := li.VerifFingerprint(in, fl)
		if fp == f {
			found = true
		}
	}
	if !found {
		fail("fingerprint-of-no-context", in, fmt.Sprintf("fingerprint %q is not the fingerprint of the input in any parsing context", f))
	}
	return 6
}

// ---------- C10 ----------

// exemptC10 marks positions whose case the property exempts (conservatively).
func exemptC10(s string) []bool {
	ex := make([]bool, len(s))
	low := asciiLower(s)
	// letter right after a backslash (MySQL \N)
	for i := 1; i < len(s); i++ {
		if s[i-1] == '\\' {
			ex[i] = true
		}
	}
	// letter runs adjacent to '$' (dollar-quote tags, opening / closing / potential closing)
	for i := 0; i < len(s); i++ {
		if s[i] == '$' {
			for j := i + 1; j < len(s) && isLetter(s[j]); j++ {
				ex[j] = true
			}
			for j := i - 1; j >= 0 && isLetter(s[j]); j-- {
				ex[j] = true
			}
		}
	}
	// q-quote delimiter letters: after q' (also nq'), and any same letter directly before a quote
	for i := 0; i+2 < len(s); i++ {
		if (s[i] == 'q' || s[i] == 'Q') && s[i+1] == '\'' && isLetter(s[i+2]) {
			ex[i+2] = true
			d := s[i+2] | 0x20
			for j := 0; j+1 < len(s); j++ {
				if s[j]|0x20 == d && isLetter(s[j]) && s[j+1] == '\'' {
					ex[j] = true
				}
			}
		}
	}
	// sp_password in any case
	for off := 0; ; {
		k := strings.Index(low[off:], "sp_password")
		if k < 0 {
			break
		}
		for j := off + k; j < off+k+len("sp_password"); j++ {
			ex[j] = true
		}
		off += k + 1
	}
	return ex
}

func caseVariant(s string, ex []bool, mode int, r *rng) string {
	b := []byte(s)
	for i := range b {
		if ex[i] || !isLetter(b[i]) {
			continue
		}
		switch mode {
		case 0:
			b[i] &^= 0x20
		case 1:
			b[i] |= 0x20
		default:
			if r.coin(1, 2) {
				b[i] ^= 0x20
			}
		}
	}
	return string(b)
}

func oracleC10(in string, r *rng, fail failFn) int {
	b0, f0 := li.IsSQLi(in)
	ex := exemptC10(in)
	n := 1
	for mode := 0; mode < 6; mode++ {
		v := caseVariant(in, ex, mode, r)
		if v == in {
			continue
		}
		// a variant may itself create a new exempt site (e.g. Q' from q'); require the
		// exemption sets to agree so that both strings are variants of each other
		if !sameBools(exemptC10(v), ex) {
			continue
		}
		b1, f1 := li.IsSQLi(v)
		n++
		if b1 != b0 || f1 != f0 {
			fail("case-variant-differs", in, fmt.Sprintf("IsSQLi(%q)=(%v,%q) but IsSQLi(%q)=(%v,%q)", in, b0, f0, v, b1, f1))
		}
	}
	return n
}

func asciiLower(s string) string {
	b := []byte(s)
	for i := range b {
		if b[i] >= 'A' && b[i] <= 'Z' {
			b[i] |= 0x20
		}
	}
	return string(b)
}

func sameBools(a, b []bool) bool {
	if len(a) != len(b) {
		return false
	}
	for i := range a {
		if a[i] != b[i] {
			return false
		}
	}
	return true
}

// ---------- C11 ----------

func oracleC11(in string, r *rng, fail failFn) int {
	n := 0
	if !strings.Contains(asciiLower(in), "[cdata[") {
		x0 := li.IsXSS(in)
		none := make([]bool, len(in))
		for mode := 0; mode < 5; mode++ {
			v := caseVariant(in, none, mode, r)
			if v == in {
				continue
			}
			n++
			if x1 := li.IsXSS(v); x1 != x0 {
				fail("case-variant-differs", in, fmt.Sprintf("IsXSS(%q)=%v but IsXSS(%q)=%v", in, x0, v, x1))
			}
		}
	}
	// NUL inside a tag-name-open (1) or attribute-name (6) token, per context
	for _, c := range h5Ctxs {
		toks, _ := li.VerifH5Tokens(in, c, 2*len(in)+4)
		v0 := li.VerifIsXSSCtx(in, c)
		tried := 0
		for _, t := range toks {
			if (t[0] != 1 && t[0] != 6) || t[2] < 2 {
				continue
			}
			// positions strictly inside the token
			for k := 0; k < 2 && tried < 6; k++ {
				p := t[1] + 1 + r.intn(t[2]-1)
				// one NUL, or a long run of them (C11b holds for any number): a guard on the raw
				// length of a name shows only with hundreds
				nul := "\x00"
				if tried == 1 {
					nul = strings.Repeat("\x00", []int{2, 33, 257, 1100}[r.intn(4)])
				}
				v := in[:p] + nul + in[p:]
				n++
				tried++
				if v1 := li.VerifIsXSSCtx(v, c); v1 != v0 {
					fail("nul-in-name-differs", in, fmt.Sprintf("context %d: verdict %v, with NUL inserted at %d (inside token type %d at %d len %d): %v", c, v0, p, t[0], t[1], t[2], v1))
				}
			}
		}
	}
	return n
}

// ---------- C12 ----------

func oracleC12(in string, fail failFn) int {
	b, f := li.IsSQLi(in)
	// cascade recomputed from the per-context accessor on fresh states
	wantB, wantF := false, ""
	done := false
	try := func(fl int) (reparse bool) {
		fp, _, v, st := li.VerifFingerprint(in, fl)
		if v {
			wantB, wantF, done = true, fp, true
		}
		return st.DDX != 0 || st.Hash != 0
	}
	if in != "" {
		if rp := try(9); !done && rp {
			try(17)
		}
		if !done && strings.IndexByte(in, '\'') >= 0 {
			if rp := try(10); !done && rp {
				try(18)
			}
		}
		if !done && strings.IndexByte(in, '"') >= 0 {
			try(20)
		}
	}
	if b != wantB || f != wantF {
		fail("cascade-differs", in, fmt.Sprintf("IsSQLi=(%v,%q) but the gated cascade over fresh per-context results gives (%v,%q)", b, f, wantB, wantF))
	}
	n := 6
	// reading x inside a quote == reading quote+x as-is
	if in != "" && len(in) < 4096 {
		for _, q := range []struct {
			ch  string
			bit int
		}{{"'", 2}, {"\"", 4}} {
			for _, d := range []int{8, 16} {
				fp1, _, v1, _ := li.VerifFingerprint(in, q.bit|d)
				fp2, _, v2, _ := li.VerifFingerprint(q.ch+in, 1|d)
				n += 2
				if fp1 != fp2 {
					fail("quote-context-fingerprint", in, fmt.Sprintf("fingerprint inside %s (flags %d) = %q, of %s+input as-is = %q", q.ch, q.bit|d, fp1, q.ch, fp2))
				} else if v1 != v2 && fp1 != "sos" && fp1 != "s&s" {
					fail("quote-context-verdict", in, fmt.Sprintf("verdict inside %s (flags %d) = %v, of %s+input as-is = %v, fingerprint %q", q.ch, q.bit|d, v1, q.ch, v2, fp1))
				}
			}
		}
	}
	return n
}

// ---------- C13 ----------

var embeds = map[int]string{1: "<a ", 2: "<a b='", 3: "<a b=\"", 4: "<a b=`"}

func oracleC13(in string, r *rng, fail failFn) int {
	any := false
	var v [5]bool
	for _, c := range h5Ctxs {
		v[c] = li.VerifIsXSSCtx(in, c)
		any = any || v[c]
	}
	if x := li.IsXSS(in); x != any {
		fail("not-or-of-contexts", in, fmt.Sprintf("IsXSS=%v but contexts give %v", x, v))
	}
	n := 6
	for c := 1; c <= 4; c++ {
		e := li.VerifIsXSSCtx(embeds[c]+in, 0)
		n++
		if e != v[c] {
			fail("embed-differs", in, fmt.Sprintf("context %d verdict %v but verdict of %q+input as markup is %v", c, v[c], embeds[c], e))
		}
	}
	prefixes := []string{"x", "hello world ", ">", "'\"`", "a=b ", "\x00", "&#x3c;", "--!>",
		"\u0131", "\u0131\u0131", "\u017f", "\u0250", "\xff", "K\u0131z\u0131m ", "\u0130\u212a"}
	for k := 0; k < 3; k++ {
		p := prefixes[r.intn(len(prefixes))]
		if k == 2 {
			p = strings.ReplaceAll(randomSeq(r, htmlAlphabet, 1, 4), "<", "")
		}
		n++
		if got := li.VerifIsXSSCtx(p+in, 0); got != v[0] {
			fail("prefix-changes-verdict", in, fmt.Sprintf("data verdict %v but with '<'-free prefix %q: %v", v[0], p, got))
		}
	}
	// prefix / suffix pairs whose Unicode case mappings change the byte length in
	// opposite directions (U+0131, U+017F shrink; U+0250 and invalid bytes grow)
	for _, ps := range lengthPairs {
		s2 := in + ps[1]
		n += 2
		if want, got := li.VerifIsXSSCtx(s2, 0), li.VerifIsXSSCtx(ps[0]+s2, 0); got != want {
			fail("prefix-changes-verdict", s2, fmt.Sprintf("data verdict %v but with '<'-free prefix %q: %v", want, ps[0], got))
		}
	}
	return n
}

var lengthPairs = [][2]string{{"\u0131", "\u0250"}, {"\u0131\u0131", "\xff"}, {"\u017f", " \u0250"}, {"\u0250", "\u0131"}, {"\xff", "\u017f\u0131"}}

// ---------- C16 ----------

func oracleC16(in string, fail failFn) int {
	for _, fl := range sqlModes {
		toks, end, _ := li.VerifTokenize(in, fl)
		bad := func(i int, what string) {
			fail("token-"+what, in, fmt.Sprintf("flags %d token %d: %s (%+v)", fl, i, what, toks[i]))
		}
		if len(toks) > len(in) {
			fail("token-count", in, fmt.Sprintf("flags %d: %d tokens for %d bytes", fl, len(toks), len(in)))
		}
		if end != len(in) {
			fail("scan-end", in, fmt.Sprintf("flags %d: scan ended at %d, input length %d", fl, end, len(in)))
		}
		for i, t := range toks {
			if t.Len > 31 || t.Len < 0 || t.Len != len(t.Val) {
				bad(i, "length")
				continue
			}
			if t.Pos < 0 || t.Pos+t.Len > len(in) || in[t.Pos:t.Pos+t.Len] != t.Val {
				bad(i, "value-not-input-slice")
			}
			if t.Before > t.Pos {
				bad(i, "starts-before-scan-step")
			}
			if t.Pos+t.Len > t.After {
				bad(i, "ends-after-scan-step")
			}
			if t.After <= t.Before {
				bad(i, "no-progress")
			}
			if i+1 < len(toks) && toks[i+1].Pos < t.Pos+t.Len {
				bad(i, "overlaps-next")
			}
			if i+1 < len(toks) && toks[i+1].Before != t.After {
				bad(i, "scan-offsets-not-contiguous")
			}
			if strings.IndexByte(classAlphabet, t.Category) < 0 {
				bad(i, "class-not-in-alphabet")
			}
		}
		if len(toks) > 0 && toks[len(toks)-1].After > len(in) {
			bad(len(toks)-1, "after-beyond-input")
		}
	}
	return 6
}

// ---------- C17 ----------

type construct struct {
	opener string
	pre    string // fixed start of the body (part of the token)
	// find returns (index of terminator start in body, terminator length) or (-1,0)
	find func(body string) (int, int)
	typ  int
	// guard: the body must not be re-interpreted as another construct
	ok func(body string) bool
}

func findSub(term string) func(string) (int, int) {
	return func(b string) (int, int) {
		i := strings.Index(b, term)
		if i < 0 {
			return -1, 0
		}
		return i, len(term)
	}
}

func findCommentEnd(b string) (int, int) {
	for i := 0; i < len(b); i++ {
		if b[i] != '-' {
			continue
		}
		j := i + 1
		for j < len(b) && b[j] == 0 {
			j++
		}
		if j < len(b) && (b[j] == '-' || b[j] == '!') && j+1 < len(b) && b[j+1] == '>' {
			return i, j + 2 - i
		}
	}
	return -1, 0
}

var constructs = []construct{
	{"<%", "", findSub("%>"), 8, nil},
	{"<![CDATA[", "", findSub("]]>"), 0, nil},
	{"<!--", "", findCommentEnd, 8, nil},
	{"<!", "", findSub(">"), 8, func(b string) bool {
		return !strings.HasPrefix(b, "--") && !strings.HasPrefix(b, "[CDATA[") && !(len(b) >= 7 && strings.ToLower(b[:7]) == "doctype")
	}},
	{"<?", "", findSub(">"), 8, nil},
	{"<!", "doctype", findSub(">"), 9, nil},
	{"<!", "DocType", findSub(">"), 9, nil},
	{"<a b=\"", "", findSub("\""), 7, nil},
	{"<a b='", "", findSub("'"), 7, nil},
	{"<a b=`", "", findSub("`"), 7, nil},
}

func oracleC17(in string, fail failFn) int {
	n := 0
	// (a) bounds, order, count in every context
	for _, c := range h5Ctxs {
		toks, capped := li.VerifH5Tokens(in, c, len(in)+2)
		n++
		if capped || len(toks) > len(in)+1 {
			fail("token-count", in, fmt.Sprintf("context %d: more than |s|+1 = %d tokens", c, len(in)+1))
			continue
		}
		prevEnd := 0
		for i, t := range toks {
			if t[1] < 0 || t[2] < 0 || t[1]+t[2] > len(in) {
				fail("token-out-of-bounds", in, fmt.Sprintf("context %d token %d = %v, |s| = %d", c, i, t, len(in)))
			}
			if t[1] < prevEnd {
				fail("token-order", in, fmt.Sprintf("context %d token %d = %v starts before the end %d of the previous token", c, i, t, prevEnd))
			}
			prevEnd = t[1] + t[2]
		}
	}
	// (b) the input is used as a body behind every opener
	for _, k := range constructs {
		if k.ok != nil && !k.ok(in) {
			continue
		}
		body := k.pre + in
		full := k.opener + body
		toks, _ := li.VerifH5Tokens(full, 0, len(full)+2)
		n++
		first := -1
		for i, t := range toks {
			if t[1] >= len(k.opener) {
				first = i
				break
			}
		}
		idx, tl := k.find(body)
		wantLen := len(body)
		if idx >= 0 {
			wantLen = idx
		}
		if first < 0 {
			fail("construct-token-missing", in, fmt.Sprintf("opener %q: no token at offset %d; tokens %v", k.opener, len(k.opener), toks))
			continue
		}
		t := toks[first]
		if t[0] != k.typ || t[1] != len(k.opener) || t[2] != wantLen {
			fail("construct-wrong-span", in, fmt.Sprintf("opener %q body %q: token %v, want type %d offset %d length %d (first terminator at %d)", k.opener, body, t, k.typ, len(k.opener), wantLen, idx))
			continue
		}
		if idx >= 0 && !strings.HasPrefix(k.opener, "<a b=") {
			// tokenizing resumes in the data state right after the terminator
			resume := len(k.opener) + idx + tl
			rest, _ := li.VerifH5Tokens(full[resume:], 0, len(full)+2)
			got := toks[first+1:]
			if len(rest) != len(got) {
				fail("construct-resume", in, fmt.Sprintf("opener %q: %d tokens after the construct, %d when tokenizing the remainder %q alone", k.opener, len(got), len(rest), full[resume:]))
				continue
			}
			for i := range rest {
				if rest[i][0] != got[i][0] || rest[i][1]+resume != got[i][1] || rest[i][2] != got[i][2] {
					fail("construct-resume", in, fmt.Sprintf("opener %q: token %d after the construct is %v, remainder alone gives %v (+%d)", k.opener, i, got[i], rest[i], resume))
					break
				}
			}
		}
	}
	return n
}

// ---------- C18 ----------

// findClose: first delimiter with an even run of backslashes before it (counted
// inside the content) that is not immediately followed by the same delimiter.
func findClose(t string, d byte) int {
	i := 0
	for {
		j := strings.IndexByte(t[i:], d)
		if j < 0 {
			return -1
		}
		j += i
		bs := 0
		for k := j - 1; k >= 0 && t[k] == '\\'; k-- {
			bs++
		}
		if bs%2 == 1 {
			i = j + 1
			continue
		}
		if j+1 < len(t) && t[j+1] == d {
			i = j + 2
			continue
		}
		return j
	}
}

func clip31(n int) int {
	if n < 32 {
		return n
	}
	return 31
}

// the input is used as the text T behind every opening mode
func oracleC18(in string, fail failFn) int {
	n := 0
	T := in
	check := func(what, full string, flags int, tokIdx int, start int, wantLen int, wantClose byte, wantOpen byte, resume int) {
		toks, _, _ := li.VerifTokenize(full, flags)
		n++
		if tokIdx >= len(toks) {
			fail("string-token-missing", in, fmt.Sprintf("%s: input %q has %d tokens", what, full, len(toks)))
			return
		}
		t := toks[tokIdx]
		if t.Pos != start || t.Len != clip31(wantLen) || t.StrClose != wantClose || t.StrOpen != wantOpen || t.After != resume {
			fail("string-wrong-terminator", in, fmt.Sprintf("%s: input %q token %+v; want pos %d len %d open %q close %q resume %d", what, full, t, start, clip31(wantLen), wantOpen, wantClose, resume))
		}
	}
	for _, d := range []byte{'\'', '"', '`'} {
		j := findClose(T, d)
		clen, closeMark, res := len(T), byte(0), 0
		// real opening quote
		full := bstr(d) + T
		if j >= 0 {
			clen, closeMark, res = j, d, 1+j+1
		} else {
			res = len(full)
		}
		if d == '`' {
			check("back-tick", full, 9, 0, 1, clen, closeMark, d, res)
		} else {
			check("real quote", full, 9, 0, 1, clen, closeMark, d, res)
			// virtual quote
			if T != "" {
				fl := 10
				if d == '"' {
					fl = 12
				}
				r2 := len(T)
				if j >= 0 {
					r2 = j + 1
				}
				check("virtual quote", T, fl, 0, 0, clen, closeMark, 0, r2)
			}
			// @'var' / @"var"
			r3 := len(T) + 2
			if j >= 0 {
				r3 = 2 + j + 1
			}
			check("@ variable", "@"+full, 9, 0, 2, clen, closeMark, d, r3)
		}
	}
	// prefixed n' e' u&'
	if T != "" || true {
		j := findClose(T, '\'')
		clen := len(T)
		if j >= 0 {
			clen = j
		}
		for _, p := range []struct {
			pre         string
			open, close byte
		}{{"n'", '\'', '\''}, {"N'", '\'', '\''}, {"e'", '\'', '\''}, {"E'", '\'', '\''}, {"u&'", 'u', 'u'}, {"U&'", 'u', 'u'}} {
			full := p.pre + T
			// the prefixed forms need at least pos+2 < length, otherwise they lex as words
			if len(full) < len(p.pre)+1 {
				continue
			}
			cm, res := byte(0), len(full)
			if j >= 0 {
				cm, res = p.close, len(p.pre)+j+1
			}
			check("prefixed "+p.pre, full, 9, 0, len(p.pre), clen, cm, p.open, res)
		}
	}
	// q-quote: every delimiter byte >= 33, closing = mapped byte + quote
	delims := []byte{'(', '[', '{', '<', '!', 'x', 'q', '\'', '"', '-', 0x80, 0xe9, 0xff, 0x7f, '\\', '$'}
	for _, d := range delims {
		cl := d
		switch d {
		case '(':
			cl = ')'
		case '[':
			cl = ']'
		case '{':
			cl = '}'
		case '<':
			cl = '>'
		}
		for _, pre := range []string{"q'", "Q'", "nq'", "NQ'"} {
			full := pre + bstr(d) + T
			if len(full) < len(pre)+1 {
				continue
			}
			// nq' : n followed by q' — but n' takes precedence only when input[pos+1]=='\''
			k := bytes.Index([]byte(T), []byte{cl, '\''})
			start := len(pre) + 1
			if k < 0 {
				check("q-quote "+pre+bstr(d), full, 9, 0, start, len(T), 0, 'q', len(full))
			} else {
				check("q-quote "+pre+bstr(d), full, 9, 0, start, k, 'q', 'q', start+k+2)
			}
		}
	}
	// dollar quotes
	for _, tag := range []string{"$$", "$a$", "$tag$", "$T$"} {
		full := tag + T
		// the lexer needs the byte after the tag to exist only for `$$`; an empty T is fine
		k := strings.Index(T, tag)
		if tag == "$$" && strings.HasPrefix(T, "$") && false {
			continue
		}
		if k < 0 {
			check("dollar "+tag, full, 9, 0, len(tag), len(T), 0, '$', len(full))
		} else {
			check("dollar "+tag, full, 9, 0, len(tag), k, '$', '$', len(tag)+k+len(tag))
		}
	}
	return n
}

// ---------- C19 ----------

func hexDigit(b byte) int {
	switch {
	case b >= '0' && b <= '9':
		return int(b - '0')
	case b >= 'a' && b <= 'f':
		return int(b-'a') + 10
	case b >= 'A' && b <= 'F':
		return int(b-'A') + 10
	}
	return -1
}

// decodeRef: grammar-directed value of the character reference at the start of s.
func decodeRef(s string) (int, int) {
	if len(s) == 0 {
		return -1, 0
	}
	if s[0] != '&' || len(s) < 2 {
		return int(s[0]), 1
	}
	if s[1] != '#' || len(s) < 3 {
		return '&', 1
	}
	base, i := 10, 2
	if s[2] == 'x' || s[2] == 'X' {
		base, i = 16, 3
	}
	digits := 0
	val := 0
	for i < len(s) {
		d := hexDigit(s[i])
		if d < 0 || d >= base {
			break
		}
		val = val*base + d
		digits++
		i++
		if val > 0x1000FF {
			return '&', 1
		}
	}
	if digits == 0 {
		return '&', 1
	}
	if i < len(s) && s[i] == ';' {
		i++
	}
	return val, i
}

var schemes = []string{"javascript:", "vbscript:", "data:", "view-source:"}

func encodeByte(r *rng, b byte) string {
	switch r.intn(8) {
	case 0:
		return fmt.Sprintf("&#%d;", b)
	case 1:
		return fmt.Sprintf("&#%d", b) // must be followed by a non-digit
	case 2:
		return fmt.Sprintf("&#%s%d;", strings.Repeat("0", 1+r.intn(5)), b)
	case 3:
		return fmt.Sprintf("&#x%x;", b)
	case 4:
		return fmt.Sprintf("&#X%X;", b)
	case 5:
		return fmt.Sprintf("&#x%x", b) // must be followed by a non-hex byte
	default:
		if isLetter(b) && r.coin(1, 2) {
			return bstr(b ^ 0x20)
		}
		return bstr(b)
	}
}

func oracleC19(in string, fail failFn) int {
	n := 0
	// decoder against the reference on the input itself and on all its suffixes
	for off := 0; off <= len(in) && off < 24; off++ {
		s := in[off:]
		v, c := li.VerifHTMLDecode(s)
		rv, rc := decodeRef(s)
		n++
		if v != rv || c != rc {
			fail("decoder-differs", s, fmt.Sprintf("decode(%q) = (%d,%d), reference (%d,%d)", s, v, c, rv, rc))
		}
		if len(s) > 0 && (c < 1 || c > len(s)) {
			fail("decoder-consumed", s, fmt.Sprintf("decode(%q) consumed %d of %d bytes", s, c, len(s)))
		}
	}
	// the input seeds an encoding of every scheme
	r := newRng(uint64(len(in))*1315423911 + hash64(in))
	for _, sch := range schemes {
		var b strings.Builder
		for k := r.intn(3); k > 0; k-- {
			b.WriteByte([]byte{0x01, ' ', '\t', '\n', 0x7f, 0x80, 0xff, 0x00, 0x1f}[r.intn(9)])
		}
		for i := 0; i < len(sch); i++ {
			e := encodeByte(r, sch[i])
			b.WriteString(e)
			last := e[len(e)-1]
			if strings.HasPrefix(e, "&#") && last != ';' {
				// unterminated reference: the next byte must end the digit run
				if i+1 < len(sch) {
					nb := sch[i+1]
					if hexDigit(nb) >= 0 {
						// end the digit run: the semicolon, or a literal NUL / LF (ignored by the
						// matcher, but it is what terminates the reference)
						b.WriteString([]string{";", ";", "\x00", "\n", "\x00\x00"}[r.intn(5)])
					}
				} else {
					b.WriteString(";")
				}
			}
			if r.coin(1, 5) && i > 0 {
				b.WriteString([]string{"\x00", "\n", "&#0;", "&#10;", "&#x0;", "&#xA;"}[r.intn(6)])
			}
		}
		val := b.String() + "alert(1)"
		n++
		if !li.VerifIsBlackURL(val) {
			fail("encoded-scheme-missed", val, fmt.Sprintf("isBlackURL(%q) = false for an encoding of %q", val, sch))
			continue
		}
		for _, attr := range []string{"href", "src", "action", "formaction", "xlink:href", "background"} {
			for _, q := range []string{"\"", "'", ""} {
				if q == "" && strings.ContainsAny(val, " \t\n\x0b\x0c\r>") {
					continue
				}
				if q != "" && strings.Contains(val, q) {
					continue
				}
				doc := "<a " + attr + "=" + q + val + q + ">"
				n++
				if !li.IsXSS(doc) {
					fail("encoded-scheme-missed-in-attribute", doc, fmt.Sprintf("IsXSS(%q) = false", doc))
				}
			}
		}
	}
	return n
}

func hash64(s string) uint64 {
	h := uint64(1469598103934665603)
	for i := 0; i < len(s); i++ {
		h ^= uint64(s[i])
		h *= 1099511628211
	}
	return h
}
