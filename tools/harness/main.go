// Command harness: correspondence check (implementation with -tags verif
// versus the extracted Coq model) and direct property oracles for
// libinjection-go.  See /verif/DESIGN.md §4.3.
package main

import (
	"flag"
	"fmt"
	"os"
	"path/filepath"
	"sort"
	"strings"
	"time"
)

func usage() {
	fmt.Fprintln(os.Stderr, "usage: harness run|worker|replay|tables|calibrate|race|cost ...")
	os.Exit(2)
}

func main() {
	if len(os.Args) < 2 {
		usage()
	}
	switch os.Args[1] {
	case "worker":
		fs := flag.NewFlagSet("worker", flag.ExitOnError)
		kinds := fs.String("kinds", "", "")
		prop := fs.String("prop", "", "")
		seed := fs.Uint64("seed", 1, "")
		fs.Parse(os.Args[2:])
		workerMain(*kinds, *prop, *seed)
	case "run":
		runMain(os.Args[2:])
	case "replay":
		replayMain(os.Args[2:])
	case "tables":
		tablesMain(os.Args[2:])
	case "calibrate":
		calibrateMain(os.Args[2:])
	case "race":
		raceMain(os.Args[2:])
	case "cost":
		costMain(os.Args[2:])
	case "calibrate-xss":
		calibrateXSSMain(os.Args[2:])
	case "emit-grammar":
		emitGrammarMain(os.Args[2:])
	default:
		usage()
	}
}

type propCfg struct {
	kinds  string // observable kinds compared with the model
	oracle bool
	stream func(c *corpus, r *rng, tier string) *inputSet
	// nontrivial decides whether an input counts as non-trivial for the evidence
	rule string
}

func withoutBytes(s string, cut string) string {
	return strings.Map(func(r rune) rune {
		if strings.ContainsRune(cut, r) {
			return -1
		}
		return r
	}, s)
}

var props = map[string]propCfg{
	"C01": {kinds: "V", oracle: true, rule: "distinct input strings; non-trivial = length >= 2",
		stream: func(c *corpus, r *rng, t string) *inputSet { return sqlAll(c, r, t, 2) }},
	"C02": {kinds: "X", oracle: true, rule: "distinct input strings; non-trivial = length >= 2",
		stream: func(c *corpus, r *rng, t string) *inputSet { return htmlAll(c, r, t, 2) }},
	"C03": {kinds: "V", oracle: true, rule: "distinct members of the frozen grammar (triple x separator x case x whitespace-run); all are non-trivial attack strings",
		stream: func(c *corpus, r *rng, t string) *inputSet { return grammarSQLStream(r, t) }},
	"C04": {kinds: "X", oracle: true, rule: "distinct members of the vector grammar built from the shipped lists; all non-trivial",
		stream: func(c *corpus, r *rng, t string) *inputSet { return grammarXSSStream(r, t) }},
	"C06": {kinds: "TFPV", oracle: false, rule: "distinct input strings, each compared in 6 modes at full width; non-trivial = at least 2 tokens in as-is/ANSI mode",
		stream: func(c *corpus, r *rng, t string) *inputSet {
			// the full-width tie: the general streams plus a sample of every
			// property-specific stream of the SQL side
			return withSamples(sqlAll(c, r, t, 1), t, grammarSQLStream(r, t), verdictStream(c, r, t), cascadeStream(c, r, t), benignStream(c, r, t), literalStream(c, r, t))
		}},
	"C07": {kinds: "HXDUGA", oracle: false, rule: "distinct input strings, each compared in 5 contexts; non-trivial = contains '<' or '=' or '&'",
		stream: func(c *corpus, r *rng, t string) *inputSet {
			return withSamples(htmlAll(c, r, t, 1), t, grammarXSSStream(r, t), constructStream(c, r, t), decoderStream(c, r, t))
		}},
	"C08": {kinds: "PV", oracle: true, rule: "distinct inputs; non-trivial = IsSQLi verdict true (the consistency clauses bind)",
		stream: func(c *corpus, r *rng, t string) *inputSet { return verdictStream(c, r, t) }},
	"C10": {kinds: "V", oracle: true, rule: "distinct base inputs, each with up to 6 case variants; non-trivial = has an ASCII letter outside exempt positions",
		stream: func(c *corpus, r *rng, t string) *inputSet { return sqlAll(c, r, t, 1) }},
	"C11": {kinds: "X", oracle: true, rule: "distinct base inputs with case variants and NUL insertions; non-trivial = contains a letter and '<' or '='",
		stream: func(c *corpus, r *rng, t string) *inputSet { return htmlAll(c, r, t, 1) }},
	"C12": {kinds: "PV", oracle: true, rule: "distinct inputs; non-trivial = contains a quote, '#' or '--' (a later pass of the cascade runs)",
		stream: func(c *corpus, r *rng, t string) *inputSet { return cascadeStream(c, r, t) }},
	"C13": {kinds: "X", oracle: true, rule: "distinct inputs, each with 4 embeds and 3 prefixes; non-trivial = contains '<' or '=' ",
		stream: func(c *corpus, r *rng, t string) *inputSet { return htmlAll(c, r, t, 1) }},
	"C14": {kinds: "V", oracle: true, rule: "distinct members of the benign family; non-trivial = at least 2 items",
		stream: func(c *corpus, r *rng, t string) *inputSet { return benignStream(c, r, t) }},
	"C15": {kinds: "X", oracle: true, rule: "distinct strings without '<' and '='; non-trivial = contains a quote, '>', '/', '&' or a letter",
		stream: func(c *corpus, r *rng, t string) *inputSet {
			base := htmlAll(c, r, t, 1)
			s := newInputSet()
			for _, x := range base.list {
				s.add("html-all-minus-lt-eq", withoutBytes(x, "<="))
			}
			// the same inputs with '<' and '=' replaced by runes that have the same low byte
			// (U+013C / U+013D, U+043C / U+043D): still no '<' and no '=' byte in the string
			for i, x := range base.list {
				if i%3 != 0 || !strings.ContainsAny(x, "<=") {
					continue
				}
				tw := strings.NewReplacer("<", "\u013c", "=", "\u013d")
				if i%2 == 0 {
					tw = strings.NewReplacer("<", "\u043c", "=", "\u043d")
				}
				s.add("html-all-lt-eq-as-low-byte-twins", tw.Replace(x))
			}
			var alpha []string
			for _, a := range htmlAlphabet {
				if !strings.ContainsAny(a, "<=") {
					alpha = append(alpha, a)
				}
			}
			d := 3
			if t == "thorough" {
				d = 4
			}
			exhaustive(alpha, d, func(x string) { s.add("exhaustive-minus-lt-eq", x) })
			return s
		}},
	"C16": {kinds: "T", oracle: true, rule: "distinct inputs x 6 modes; non-trivial = at least 2 tokens",
		stream: func(c *corpus, r *rng, t string) *inputSet { return sqlAll(c, r, t, 1) }},
	"C17": {kinds: "H", oracle: true, rule: "distinct bodies (each behind 10 openers) and inputs (5 contexts); non-trivial = contains a terminator byte",
		stream: func(c *corpus, r *rng, t string) *inputSet { return constructStream(c, r, t) }},
	"C18": {kinds: "T", oracle: true, rule: "distinct literal bodies, each behind every opening mode; non-trivial = contains a delimiter or backslash",
		stream: func(c *corpus, r *rng, t string) *inputSet { return literalStream(c, r, t) }},
	"C19": {kinds: "DU", oracle: true, rule: "distinct decoder inputs / seeds of scheme encodings; non-trivial = contains '&#'",
		stream: func(c *corpus, r *rng, t string) *inputSet { return decoderStream(c, r, t) }},
}

// withSamples adds to base an evenly spread sample (quick: at most 20 000 inputs,
// thorough: 200 000) of each extra stream, keeping the stream names.
func withSamples(base *inputSet, tier string, extras ...*inputSet) *inputSet {
	max := 20000
	if tier == "thorough" {
		max = 200000
	}
	for _, e := range extras {
		step := 1
		if len(e.list) > max {
			step = (len(e.list) + max - 1) / max
		}
		for i := 0; i < len(e.list); i++ {
			// small hand-written streams (boundary values, overflow cases, ...) are taken whole
			if i%step == 0 || e.hist[e.src[i]] <= 600 {
				base.add("sample-of-property-streams", e.list[i])
			}
		}
	}
	return base
}

func nontrivial(prop, in string) bool {
	switch prop {
	case "C07", "C13":
		return strings.ContainsAny(in, "<=&")
	case "C11":
		return strings.ContainsAny(in, "<=") && strings.IndexFunc(in, func(r rune) bool { return r < 128 && isLetter(byte(r)) }) >= 0
	case "C12":
		return strings.ContainsAny(in, "'\"#") || strings.Contains(in, "--")
	case "C15":
		return strings.ContainsAny(in, "'\"`>/&") || strings.IndexFunc(in, func(r rune) bool { return r < 128 && isLetter(byte(r)) }) >= 0
	case "C17":
		return strings.ContainsAny(in, "%>]-\"'`")
	case "C18":
		return strings.ContainsAny(in, "'\"`\\$")
	case "C19":
		return strings.Contains(in, "&#")
	case "C10":
		ex := exemptC10(in)
		for i := 0; i < len(in); i++ {
			if isLetter(in[i]) && !ex[i] {
				return true
			}
		}
		return false
	case "C14":
		return strings.Contains(in, " ")
	}
	return len(in) >= 2
}

func runMain(args []string) {
	fs := flag.NewFlagSet("run", flag.ExitOnError)
	prop := fs.String("prop", "", "property id")
	tier := fs.String("tier", "quick", "quick|thorough")
	seed := fs.Uint64("seed", 1, "PRNG seed")
	out := fs.String("out", "", "report path (json)")
	driver := fs.String("driver", "/verif/build/driver", "extracted model driver")
	repo := fs.String("repo", "/repo", "")
	verif := fs.String("verif", "/verif", "")
	fs.Parse(args)
	cfg, ok := props[*prop]
	if !ok {
		fmt.Fprintln(os.Stderr, "harness run: unknown property", *prop)
		os.Exit(2)
	}
	t0 := time.Now()
	c := loadCorpus(*repo, *verif)
	r := newRng(*seed)
	set := cfg.stream(c, r, *tier)
	rep := &runReport{Prop: *prop, Tier: *tier, Seed: *seed, Inputs: len(set.list), Streams: set.hist, Kinds: cfg.kinds, LenHist: map[string]int{}, NontrivRule: cfg.rule}
	for _, x := range set.list {
		rep.LenHist[lenBucket(len(x))]++
		if nontrivial(*prop, x) {
			rep.Nontrivial++
		}
	}
	// samples: a spread over the input list
	for i := 0; i < 8 && len(set.list) > 0; i++ {
		rep.Samples = append(rep.Samples, hx(set.list[(i*len(set.list))/8]))
	}
	runCompare(*prop, cfg.kinds, set.list, *seed, *driver, true, cfg.oracle, rep)
	// long members, implementation side only: the theorems hold for every length (C03ws: any
	// whitespace run in a slot; C13c: any '<'-free text in front of a vector), the enumerated
	// families are short.  A size guard or a size-dependent path shows here.
	if *prop == "C03" || *prop == "C04" {
		var long []string
		pad := []int{70000, 300000, 1000000}
		if *prop == "C03" {
			g := loadGrammar(filepath.Join(*verif, "grammar", "sqli_grammar.txt"))
			for i := 0; i < 12 && len(g) > 0; i++ {
				t := g[r.intn(len(g))]
				n := pad[i%3]
				w := []string{" ", "\t", "\n", " \t"}[i%4]
				first := true
				long = append(long, instantiate(t, func() string {
					if first {
						first = false
						return strings.Repeat(w, n/len(w))
					}
					return " "
				}))
			}
			// many TOKENS in a slot (inline comments, harmless arithmetic): a budget on tokens
			// scanned or folded shows here, a budget on bytes above
			for _, k := range []int{9000, 70000} {
				c := strings.Repeat("/**/", k)
				long = append(long, "1' or"+c+"'a'='a", "1;"+c+"drop table users", "1 and"+c+"sleep(5)", "1) or"+c+"(1=1",
					"1 union"+c+"select 1", "1"+strings.Repeat("+0", k/2)+" union select 1,2", "1 or 1=1"+strings.Repeat(" ,1", k/3)+" --")
			}
		} else {
			// many NULs inside one name (C11b / C04c: any number), many attributes in front
			for _, k := range []int{300, 5000, 100000} {
				z := strings.Repeat("\x00", k)
				long = append(long, "<img src=x on"+z+"error=alert(1)>", "x on"+z+"focus=alert(1) autofocus", "x' o"+z+"nclick=alert(1)", "<sc"+z+"ript>", "<a hr"+z+"ef=javascript:alert(1)>",
					"<a "+strings.Repeat("b=c ", k/4)+"onclick=alert(1)>")
			}
			for i, v := range []string{"<script>alert(1)</script>", "<svg/onload=alert(1)>", "<a href=javascript:alert(1)>", "<iframe>"} {
				n := pad[i%3]
				long = append(long, strings.Repeat("x", n)+v, strings.Repeat("hello world ", n/12)+v, "x>"+v+strings.Repeat(" tail", n/5))
			}
		}
		lrep := &runReport{}
		runCompare(*prop, "", long, *seed, *driver, false, true, lrep)
		rep.OracleEvals += lrep.OracleEvals
		rep.NOracleFails += lrep.NOracleFails
		for _, f := range lrep.OracleFails {
			f.Input = clip(f.Input, 200)
			rep.OracleFails = append(rep.OracleFails, f)
		}
		rep.Extra = map[string]any{"long_members": len(long)}
	}
	// long structured inputs, implementation side only (C01/C02: outcome; the theorem covers all lengths)
	if *prop == "C01" || *prop == "C02" {
		n := 65536
		if *tier == "thorough" {
			n = 1 << 20
		}
		units := sqlAlphabet
		if *prop == "C02" {
			units = htmlAlphabet
		}
		var pairs []string
		for _, a := range units {
			pairs = append(pairs, a)
		}
		if *tier == "thorough" {
			for _, a := range units {
				for _, b := range units {
					pairs = append(pairs, a+b)
				}
			}
		} else {
			// every period-2 repetition of single-byte units, a sample of the rest
			for _, a := range units {
				for _, b := range units {
					if len(a) == 1 && len(b) == 1 && a != b {
						pairs = append(pairs, a+b)
					}
				}
			}
			for i := 0; i < 200; i++ {
				pairs = append(pairs, units[r.intn(len(units))]+units[r.intn(len(units))])
			}
		}
		long := longInputs(pairs, n)
		lrep := &runReport{}
		runCompare(*prop, "", long, *seed, *driver, false, true, lrep)
		rep.OracleEvals += lrep.OracleEvals
		rep.NOracleFails += lrep.NOracleFails
		for _, f := range lrep.OracleFails {
			f.Input = clip(f.Input, 200)
			rep.OracleFails = append(rep.OracleFails, f)
		}
		rep.Extra = map[string]any{"long_inputs": len(long), "long_input_bytes": n}
	}
	rep.WallS = time.Since(t0).Seconds()
	if *out != "" {
		writeJSON(*out, rep)
		writeKernelSample(strings.TrimSuffix(*out, ".json")+".kr.txt", set.list, c)
	}
	fmt.Printf("harness %s %s: inputs=%d lines_compared=%d disagreements=%d oracle_evals=%d oracle_failures=%d wall=%.1fs\n",
		*prop, *tier, rep.Inputs, rep.LinesCompared, rep.NDisagree, rep.OracleEvals, rep.NOracleFails, rep.WallS)
	ks := sortedKeys(set.hist)
	for _, k := range ks {
		fmt.Printf("  stream %-24s %d\n", k, set.hist[k])
	}
	if rep.NDisagree > 0 || rep.NOracleFails > 0 {
		os.Exit(1)
	}
}

// replay: evaluate one input (hex) for a property: observables, model, oracle
func replayMain(args []string) {
	fs := flag.NewFlagSet("replay", flag.ExitOnError)
	prop := fs.String("prop", "", "")
	input := fs.String("input", "", "hex")
	driver := fs.String("driver", "/verif/build/driver", "")
	fs.Parse(args)
	cfg, ok := props[*prop]
	kinds := "TFPVHX"
	if ok {
		kinds = cfg.kinds
	}
	rep := &runReport{}
	runCompare(*prop, kinds, []string{unhx(*input)}, 1, *driver, true, ok && cfg.oracle, rep)
	for _, d := range rep.Disagreements {
		fmt.Printf("DISAGREEMENT %s %s\n", d.Input, d.Detail)
	}
	for _, d := range rep.OracleFails {
		fmt.Printf("ORACLE-FAILURE %s %s %s\n", d.Kind, d.Input, d.Detail)
	}
	if rep.NDisagree > 0 || rep.NOracleFails > 0 {
		os.Exit(1)
	}
	fmt.Println("replay: no disagreement, no oracle failure")
}

func sortStrings(xs []string) []string { sort.Strings(xs); return xs }

// writeKernelSample writes up to 240 cases (kept corpus first, then a spread of the run's
// inputs) with the implementation's IsSQLi / IsXSS answers, for re-evaluation by vm_compute.
func writeKernelSample(path string, inputs []string, c *corpus) {
	var pick []string
	seen := map[string]bool{}
	add := func(x string) {
		if len(x) <= 200 && !seen[x] {
			seen[x] = true
			pick = append(pick, x)
		}
	}
	for _, x := range c.kept {
		if len(pick) < 80 {
			add(x)
		}
	}
	for i := 0; i < 160 && len(inputs) > 0; i++ {
		add(inputs[(i*len(inputs))/160])
	}
	var b strings.Builder
	for _, x := range pick {
		b.WriteString(strings.Replace(lineV(x), "SV ", "SV "+hx(x)+" ", 1) + "\n")
		b.WriteString(strings.Replace(lineHX(x), "HX ", "HX "+hx(x)+" ", 1) + "\n")
	}
	os.WriteFile(path, []byte(b.String()), 0o644)
}
