package main

import (
	"bufio"
	"encoding/hex"
	"fmt"
	"os"
	"path/filepath"
	"sort"
	"strconv"
	"strings"

	li "github.com/corazawaf/libinjection-go"
)

// ---------------- C12: inputs biased to reach the later passes of the cascade ----------------

func cascadeStream(c *corpus, r *rng, tier string) *inputSet {
	s := sqlAll(c, r, tier, 1)
	n := 8000
	if tier == "thorough" {
		n = 120000
	}
	heads := []string{"", "1", "x", "1 union", "1 ", "a'", "1\"", "'", "\"", "1' ", "x\" ", "1'#", "1 -- ", "1--x", "#", "--x\n", "1#\n", "'--x\n", "\"#\n"}
	for i := 0; i < n; i++ {
		var b strings.Builder
		b.WriteString(heads[r.intn(len(heads))])
		b.WriteString(randomLexemes(r, 1, 6))
		if r.coin(1, 3) {
			b.WriteString([]string{"#", "--x", "-- ", "'", "\"", "#\n1", "--x\n1", "/*"}[r.intn(8)])
		}
		s.add("cascade-biased", b.String())
	}
	return s
}

// ---------------- C14: benign family ----------------

var keywordComponents map[string]bool

func loadKeywordComponents() {
	keywordComponents = map[string]bool{}
	for k, v := range li.VerifSQLKeywords() {
		if v == 'F' {
			continue
		}
		for _, w := range strings.Fields(k) {
			keywordComponents[w] = true
		}
		keywordComponents[k] = true
	}
}

func isBenignWord(w string) bool {
	if w == "" || len(w) > 64 {
		return false
	}
	for i := 0; i < len(w); i++ {
		ch := w[i]
		ok := isLetter(ch) || ch == '_' || (i > 0 && ch >= '0' && ch <= '9')
		if !ok {
			return false
		}
	}
	return !keywordComponents[strings.ToUpper(w)]
}

func loadWords(verif string) []string {
	var out []string
	f, err := os.Open(verif + "/grammar/common_words.txt")
	if err != nil {
		return out
	}
	defer f.Close()
	sc := bufio.NewScanner(f)
	for sc.Scan() {
		w := strings.TrimSpace(sc.Text())
		if w != "" && !strings.HasPrefix(w, "#") {
			out = append(out, w)
		}
	}
	return out
}

func benignStream(c *corpus, r *rng, tier string) *inputSet {
	if keywordComponents == nil {
		loadKeywordComponents()
	}
	s := newInputSet()
	words := []string{}
	dropped := 0
	for _, w := range loadWords("/verif") {
		for _, v := range []string{w, strings.ToUpper(w), strings.Title(w)} {
			if isBenignWord(v) {
				words = append(words, v)
			} else {
				dropped++
			}
		}
	}
	// identifiers from the literal dictionary and random ones
	for _, d := range c.dict {
		for _, w := range strings.FieldsFunc(d, func(r rune) bool { return !(r < 128 && (isLetter(byte(r)) || r == '_' || (r >= '0' && r <= '9'))) }) {
			if isBenignWord(w + "x") {
				words = append(words, w+"x", "my"+w)
			}
		}
	}
	letters := "abcdefghijklmnopqrstuvwxyzABCDEFGHIJKLMNOPQRSTUVWXYZ_"
	for i := 0; i < 3000; i++ {
		n := 1 + r.intn(12)
		b := make([]byte, n)
		for j := range b {
			if j > 0 && r.coin(1, 5) {
				b[j] = byte('0' + r.intn(10))
			} else {
				b[j] = letters[r.intn(len(letters))]
			}
		}
		if isBenignWord(string(b)) {
			words = append(words, string(b))
		}
	}
	sort.Strings(words)
	number := func() string {
		n := 1 + r.intn(8)
		b := make([]byte, n)
		for j := range b {
			b[j] = byte('0' + r.intn(10))
		}
		return string(b)
	}
	item := func() string {
		if r.coin(1, 4) {
			return number()
		}
		return words[r.intn(len(words))]
	}
	// every single word and every pair shape
	for _, w := range words {
		s.add("single-word", w)
	}
	n := 40000
	if tier == "thorough" {
		n = 1500000
	}
	for i := 0; i < n; i++ {
		k := 1 + r.intn(8)
		parts := make([]string, k)
		for j := range parts {
			parts[j] = item()
		}
		s.add("words-and-numbers", strings.Join(parts, " "))
	}
	// over-long identifiers (33..64 bytes): parseWord clips them at 32 bytes and never looks them up;
	// the tail from byte 32 on spells a keyword, so a scan that resumes inside the word is exposed
	var kws []string
	for k, v := range li.VerifSQLKeywords() {
		if v != 'F' && !strings.ContainsAny(k, " .`") && len(k) >= 2 && len(k) <= 20 && isBenignWord("z"+k) {
			kws = append(kws, k)
		}
	}
	sort.Strings(kws)
	for i := 0; i < n/8 && len(kws) > 0; i++ {
		k := kws[r.intn(len(kws))]
		if r.coin(1, 2) {
			k = strings.ToLower(k)
		}
		padn := 32
		if r.coin(1, 3) {
			padn = 28 + r.intn(10)
		}
		pad := make([]byte, padn)
		for j := range pad {
			pad[j] = letters[r.intn(len(letters))]
		}
		w := string(pad) + k
		if !isBenignWord(w) {
			continue
		}
		switch r.intn(3) {
		case 0:
			s.add("long-word-keyword-tail", w+" "+number())
		case 1:
			s.add("long-word-keyword-tail", w)
		case 2:
			s.add("long-word-keyword-tail", item()+" "+w+" "+item())
		}
	}
	// all {word,number} class sequences up to 6 items with fixed representatives
	reps := []string{"hello", "42"}
	var rec func(cur []string, d int)
	rec = func(cur []string, d int) {
		if len(cur) > 0 {
			s.add("class-sequences", strings.Join(cur, " "))
		}
		if d == 0 {
			return
		}
		for _, x := range reps {
			rec(append(cur, x), d-1)
		}
	}
	rec(nil, 7)
	// the family of C14c: items separated by arbitrary non-empty runs of the eight whitespace
	// bytes, with optional leading and trailing runs
	wrun := func(min int) string {
		k := min + r.intn(3)
		b := make([]byte, k)
		for j := range b {
			b[j] = " \t\n\v\f\r\xa0\x00"[r.intn(8)]
		}
		return string(b)
	}
	for i := 0; i < n/4; i++ {
		k := 1 + r.intn(6)
		var b strings.Builder
		b.WriteString(wrun(0))
		for j := 0; j < k; j++ {
			if j > 0 {
				b.WriteString(wrun(1))
			}
			b.WriteString(item())
		}
		b.WriteString(wrun(0))
		s.add("words-and-numbers-any-whitespace", b.String())
	}
	// the e-mail / decimal / sentence shapes (tests of the statement's second clause)
	for i := 0; i < n/8; i++ {
		w := func() string { return words[r.intn(len(words))] }
		switch r.intn(3) {
		case 0:
			s.add("shape-email", w()+"@"+w()+"."+[]string{"com", "org", "net", "io", "example"}[r.intn(5)])
		case 1:
			s.add("shape-decimal", number()+"."+number())
		case 2:
			k := 2 + r.intn(5)
			parts := make([]string, k)
			for j := range parts {
				parts[j] = w()
				if j < k-1 && r.coin(1, 4) {
					parts[j] += ","
				}
			}
			s.add("shape-sentence", strings.Join(parts, " ")+[]string{".", "", "!", "?"}[r.intn(4)])
		}
	}
	return s
}

// ---------------- C17: construct bodies with decoy terminators ----------------

var bodyAlphabetHTML = []string{"%", ">", "]", "-", "!", "\x00", "a", "\"", "'", "`", "<", " ", "[", "/", "?", "]]", "--", "%>", "]]>", "-->", "--!>", "-\x00->"}

func constructStream(c *corpus, r *rng, tier string) *inputSet {
	s := newInputSet()
	depth, nrand := 3, 12000
	if tier == "thorough" {
		depth, nrand = 4, 200000
	}
	exhaustive(bodyAlphabetHTML[:15], depth, func(x string) { s.add("bodies-exhaustive", x) })
	for i := 0; i < nrand; i++ {
		s.add("bodies-random", randomSeq(r, bodyAlphabetHTML, 2, 9))
	}
	base := htmlAll(c, r, tier, 1)
	for i, x := range base.list {
		if tier == "thorough" || i%3 == 0 {
			s.add("html-all", x)
		}
	}
	return s
}

// ---------------- C18: literal bodies ----------------

var bodyAlphabetSQL = []string{"'", "\"", "`", "\\", "a", " ", "$", ")", "]", "}", ">", "x", "q", "\x80", "\xe9", "t", "T", "-", "''", "\\'", "\\\\", "$a$", "$$", "$tag$", ")'", "x'", "\xe9'", "\xc3\xa9'"}

func literalStream(c *corpus, r *rng, tier string) *inputSet {
	s := newInputSet()
	depth, nrand := 4, 20000
	if tier == "thorough" {
		depth, nrand = 5, 400000
	}
	exhaustive([]string{"'", "\"", "\\", "a", ")", "$"}, depth, func(x string) { s.add("bodies-exhaustive", x) })
	exhaustive(bodyAlphabetSQL, 2, func(x string) { s.add("bodies-exhaustive-2", x) })
	for i := 0; i < nrand; i++ {
		x := randomSeq(r, bodyAlphabetSQL, 1, 10)
		if r.coin(1, 8) {
			// long content: clipping at 31 bytes
			x = strings.Repeat("a", 25+r.intn(20)) + x
		}
		if r.coin(1, 6) && len(x) > 1 {
			// duplicate a tail after an escaped quote (the shape of the re-search defect)
			i := r.intn(len(x))
			x = x[:i] + "\\'" + x[i:] + "'" + x[i:]
		}
		s.add("bodies-random", x)
	}
	for _, x := range qDelimiterInputs() {
		s.add("q-delimiters", x)
	}
	// the fixture corpus too (whole inputs)
	for _, x := range c.sql {
		s.add("corpus", x)
	}
	return s
}

// qDelimiterInputs: all 223 q-quote delimiters (full inputs, as-is) with bodies containing the
// delimiter, its closing pair and quotes.
func qDelimiterInputs() []string {
	var out []string
	for d := 33; d < 256; d++ {
		cl := byte(d)
		switch d {
		case '(':
			cl = ')'
		case '[':
			cl = ']'
		case '{':
			cl = '}'
		case '<':
			cl = '>'
		}
		for _, body := range []string{"", "a", "a" + bstr(cl), bstr(cl) + "a" + bstr(cl) + "'", bstr(byte(d)) + "'" + bstr(cl) + "'b", "a'b" + bstr(cl) + "' or 1=1", bstr(cl) + bstr(cl) + "'"} {
			out = append(out, "q'"+bstr(byte(d))+body, "1 nQ'"+bstr(byte(d))+body)
		}
	}
	return out
}

// ---------------- C19: decoder inputs ----------------

var decoderAlphabet = []string{"&", "#", "x", "X", ";", "0", "1", "9", "a", "f", "g", "j", ":"}

func decoderStream(c *corpus, r *rng, tier string) *inputSet {
	s := newInputSet()
	depth, nrand := 4, 20000
	if tier == "thorough" {
		depth, nrand = 6, 500000
	}
	exhaustive(decoderAlphabet, depth, func(x string) { s.add("exhaustive", x) })
	big := []string{"&#1048831;", "&#1048832;", "&#x1000ff;", "&#x100100;", "&#x1000FF", "&#99999999999999999999;", "&#xffffffffffffffffffff;", "&#0000000000000000000000106;", "&#x000000000000000000006a;", "&#4294967402;", "&#x10000006a;", "&#18446744073709551722;"}
	for _, x := range big {
		s.add("overflow", x)
		s.add("overflow", x+"avascript:")
	}
	for i := 0; i < nrand; i++ {
		x := randomSeq(r, append(decoderAlphabet, "&#", "&#x", "&#106", "&#x6a", "00", " ", "\x00", "\n", "\x80", "javascript:", "data:"), 1, 9)
		s.add("random", x)
	}
	return s
}

// ---------------- C03: the frozen SQLi grammar ----------------

type triple struct{ prefix, template, tail string }

var sqlW = []string{" ", "\t", "\n", "\v", "\f", "\r", "\xa0", "\x00"}

func loadGrammar(path string) []triple {
	var out []triple
	f, err := os.Open(path)
	if err != nil {
		return out
	}
	defer f.Close()
	sc := bufio.NewScanner(f)
	for sc.Scan() {
		ln := sc.Text()
		if ln == "" || strings.HasPrefix(ln, "#") {
			continue
		}
		parts := strings.Split(ln, "\t")
		if len(parts) != 3 {
			continue
		}
		out = append(out, triple{unesc(parts[0]), unesc(parts[1]), unesc(parts[2])})
	}
	return out
}

func unesc(s string) string {
	if s == "~" {
		return ""
	}
	return s
}
func esc(s string) string {
	if s == "" {
		return "~"
	}
	return s
}

// instantiate fills every {S} slot using pick.
func instantiate(t triple, pick func() string) string {
	body := t.prefix + t.template + t.tail
	var b strings.Builder
	for {
		i := strings.Index(body, "{S}")
		if i < 0 {
			b.WriteString(body)
			break
		}
		b.WriteString(body[:i])
		b.WriteString(pick())
		body = body[i+3:]
	}
	return b.String()
}

func grammarSQLStream(r *rng, tier string) *inputSet {
	s := newInputSet()
	g := loadGrammar("/verif/grammar/sqli_grammar.txt")
	seps := append(append([]string{}, sqlW...), "/**/")
	// the core: every triple x every uniform separator, canonical upper case (also proved in Coq)
	for _, t := range g {
		for _, sp := range seps {
			sp := sp
			s.add("core", instantiate(t, func() string { return sp }))
		}
	}
	// beyond the core: mixed separators, whitespace runs, case assignments
	n := 20000
	if tier == "thorough" {
		n = 500000
	}
	none := []bool{}
	for i := 0; i < n && len(g) > 0; i++ {
		t := g[r.intn(len(g))]
		x := instantiate(t, func() string {
			if r.coin(1, 3) {
				// a run of whitespace bytes
				k := 1 + r.intn(4)
				var b strings.Builder
				for j := 0; j < k; j++ {
					b.WriteString(sqlW[r.intn(len(sqlW))])
				}
				return b.String()
			}
			return seps[r.intn(len(seps))]
		})
		if len(none) < len(x) {
			none = make([]bool, len(x))
		}
		x = caseVariant(x, none[:len(x)], r.intn(4), r)
		s.add("beyond-core", x)
	}
	return s
}

// ---------------- C08: inputs whose verdict is true, with extra tokens / comments behind them ----------------

// The consistency clauses bind only on a true verdict: attack strings of the frozen grammar, extended by
// further tokens and by every trailing comment style, so that fingerprints of every length 1..5 (and what
// follows the fifth token) occur.
func verdictStream(c *corpus, r *rng, tier string) *inputSet {
	s := sqlAll(c, r, tier, 1)
	g := loadGrammar("/verif/grammar/sqli_grammar.txt")
	n := 6000
	if tier == "thorough" {
		n = 200000
	}
	more := []string{"", " from", " from t", " 1", " , 2", " x", " union", " select", " ("}
	tails := []string{"", " --", " -- x", "--", " #", " /* x */", " /*", ";", " -- \n1"}
	for i := 0; i < n && len(g) > 0; i++ {
		t := g[r.intn(len(g))]
		x := instantiate(t, func() string { return " " })
		x = strings.TrimRight(x, "-#/* ;")
		s.add("attack-with-tail", x+more[r.intn(len(more))]+tails[r.intn(len(tails))])
	}
	return s
}

// ---------------- C04: the XSS vector grammar, built from the shipped lists ----------------

var breakouts = []string{"", "x>", "x'>", "x\">", "x`>"}
var attrBreakouts = []string{"<a ", "x ", "x' ", "x\" ", "x` "}

// the lists the vector grammar is built from: the lists of the running package and, when
// the translator's dump of the source literals is available (build/tables.txt), those as
// well, so that an entry lost between the source and the running table is still replayed
type nameType struct {
	Name string
	Type int
}

var srcTags []string
var srcBlacks, srcEvents []nameType

var frozenWrapped []string

func loadSourceLists(verif string) {
	if data, err := os.ReadFile(filepath.Join(verif, "grammar", "xss_wrapped.txt")); err == nil {
		for _, ln := range strings.Split(string(data), "\n") {
			ln = strings.TrimSpace(ln)
			if ln == "" || strings.HasPrefix(ln, "#") {
				continue
			}
			if b, err := hex.DecodeString(ln); err == nil {
				frozenWrapped = append(frozenWrapped, string(b))
			}
		}
	}
	data, err := os.ReadFile(filepath.Join(verif, "build", "tables.txt"))
	if err != nil {
		return
	}
	for _, ln := range strings.Split(string(data), "\n") {
		f := strings.Fields(ln)
		if len(f) < 2 {
			continue
		}
		b, err := hex.DecodeString(f[1])
		if err != nil {
			continue
		}
		switch f[0] {
		case "T":
			srcTags = append(srcTags, string(b))
		case "A", "E":
			if len(f) < 3 {
				continue
			}
			t, _ := strconv.Atoi(f[2])
			if f[0] == "A" {
				srcBlacks = append(srcBlacks, nameType{string(b), t})
			} else {
				srcEvents = append(srcEvents, nameType{string(b), t})
			}
		}
	}
}

func grammarLists() (tags []string, blacks, events []nameType) {
	tags = append(tags, li.VerifBlackTags()...)
	tags = append(tags, srcTags...)
	for _, a := range li.VerifBlacks() {
		blacks = append(blacks, nameType{a.Name, int(a.Type)})
	}
	blacks = append(blacks, srcBlacks...)
	for _, e := range li.VerifBlackEvents() {
		events = append(events, nameType{e.Name, int(e.Type)})
	}
	events = append(events, srcEvents...)
	return
}

func elemProductions(pre string, gTags []string, emit func(stream, v string)) {
	for _, tag := range gTags {
		for _, term := range []string{">", " ", "/", ""} {
			emit("black-tag", pre+"<"+tag+term)
		}
	}
	for _, tag := range []string{"SVT", "XSL"} {
		emit("black-tag", pre+"<"+tag+">")
	}
}

func attrEvents(apre string, gEvents []nameType, emit func(stream, v string)) {
	for _, e := range gEvents {
		if e.Type != 1 {
			continue
		}
		for _, q := range []string{"=x", "='x'", "=\"x\"", "=`x`", " = x"} {
			emit("event", apre+"ON"+e.Name+q)
		}
	}
}

func elemSeps(pre string, emit func(stream, v string)) {
	for _, sp := range []string{" ", "\t", "\n", "\v", "\f", "\r", "/"} {
		emit("event-separator", pre+"<a"+sp+"ONCLICK=x")
	}
}

func attrBlacks(apre string, gBlacks []nameType, emit func(stream, v string)) {
	for _, a := range gBlacks {
		switch a.Type {
		case 2: // URL attribute
			for _, sch := range []string{"JAVASCRIPT:", "VBSCRIPT:", "DATA:", "VIEW-SOURCE:"} {
				for _, q := range []string{"", "'", "\""} {
					emit("url-attribute", apre+a.Name+"="+q+sch+"x"+q)
				}
			}
		case 1, 3: // black / style
			for _, q := range []string{"", "'", "\""} {
				emit("black-attribute", apre+a.Name+"="+q+"x"+q)
			}
		case 4: // indirect
			emit("indirect-attribute", apre+a.Name+"=ONCLICK")
			emit("indirect-attribute", apre+a.Name+"=XMLNS")
		}
	}
	for _, a := range []string{"XMLNS", "XLINK"} {
		emit("black-attribute", apre+a+"=x")
	}
}

func elemMarkup(pre string, emit func(stream, v string)) {
	for _, m := range []string{"<!DOCTYPE html>", "<!DOCTYPE", "<!ENTITY x>", "<?IMPORT x>", "<?XML x>", "<![IF x]>", "<!--[IF x]>", "<!--[IF x]-->", "<!-- ` -->", "<% ` %>"} {
		emit("markup", pre+m)
	}
}

// the proved core (Spec/GrammarXss.v: five contexts), in its emission order
func xssCore(emit func(stream, v string)) {
	gTags, gBlacks, gEvents := grammarLists()
	for ci := range breakouts {
		pre := breakouts[ci]
		apre := attrBreakouts[ci]
		elemProductions(pre, gTags, emit)
		attrEvents(apre, gEvents, emit)
		elemSeps(pre, emit)
		attrBlacks(apre, gBlacks, emit)
		elemMarkup(pre, emit)
	}
}

// the extended family (Spec/GrammarXss2.v, Properties/C04d.v): 19 further attribute
// prefixes and 6 further element prefixes
var extAttrPrefixes = []string{"'", "\"", "`", "x'", "x\"", "x`", "' ", "'/", "x'/", "\"/", "'\t", "x\n", "x/", "<a/", "<a\t", "<a\n", "<a\x00 ", "x' \x00", "'\x00"}
var extElemPrefixes = []string{"'>", "\">", "`>", "x' >", "x'/>", "x\n>"}

func xssExt(emit func(stream, v string)) {
	gTags, gBlacks, gEvents := grammarLists()
	for _, apre := range extAttrPrefixes {
		attrEvents(apre, gEvents, emit)
		attrBlacks(apre, gBlacks, emit)
	}
	for _, pre := range extElemPrefixes {
		elemProductions(pre, gTags, emit)
		elemSeps(pre, emit)
		elemMarkup(pre, emit)
	}
}

func grammarXSSStream(r *rng, tier string) *inputSet {
	s := newInputSet()
	var core []string
	xssCore(func(stream, v string) { s.add("core-"+stream, v); core = append(core, v) })
	// the frozen wrapped-vector family of C04e (grammar/xss_wrapped.txt)
	for _, v := range frozenWrapped {
		s.add("frozen-wrapped", v)
	}
	// the extended family of C04d (further break-out prefixes), all of it
	xssExt(func(stream, v string) { s.add("ext-"+stream, v); core = append(core, v) })
	n := 20000
	if tier == "thorough" {
		n = 500000
	}
	// obfuscations beyond the core: case, NUL inside names, encodings of the scheme
	for i := 0; i < n && len(core) > 0; i++ {
		v := core[r.intn(len(core))]
		none := make([]bool, len(v))
		v = caseVariant(v, none, r.intn(4), r)
		if r.coin(1, 3) {
			v = nulInsideNames(r, v)
		}
		for _, sch := range []string{"javascript:", "vbscript:", "data:", "view-source:"} {
			k := strings.Index(asciiLower(v), sch)
			if k < 0 || !r.coin(1, 2) {
				continue
			}
			var b strings.Builder
			for j := 0; j < len(sch); j++ {
				e := encodeByte(r, v[k+j])
				b.WriteString(e)
				if strings.HasPrefix(e, "&#") && e[len(e)-1] != ';' {
					b.WriteString(";")
				}
				if r.coin(1, 6) { // NUL / LF inside the scheme, literal or encoded
					b.WriteString([]string{"\x00", "&#0;", "&#x0A;", "&#10;", "&#x000;"}[r.intn(5)])
				}
			}
			quoted := strings.ContainsAny(v[k-1:k], "'\"")
			lead := []string{"", " ", "\x01", "\t\n", "\x7f", "\x80", "\x00\x00", "\x1f\xff"}[r.intn(8)]
			if strings.ContainsAny(lead, " \t\n") && !quoted {
				lead = ""
			}
			enc := b.String()
			if !quoted {
				enc = strings.ReplaceAll(enc, "\x00", "&#0;") // a literal NUL is fine, keep some: only LF literal would end the value
			}
			v = v[:k] + lead + enc + v[k+len(sch):]
			break
		}
		s.add("beyond-core", v)
	}
	return s
}

// nulInsideNames inserts a NUL strictly inside the first tag or attribute name after '<' or a separator.
func nulInsideNames(r *rng, v string) string {
	// find a run of >= 2 letters that is a name: preceded by '<' or white/'/' and (for attributes) followed by '='
	for tries := 0; tries < 8; tries++ {
		i := r.intn(len(v))
		if !isLetter(v[i]) || i == 0 || !isLetter(v[i-1]) {
			continue
		}
		// the run must start after '<', white or '/' and must not be inside a value (no '=' before it in the tag)
		st := i
		for st > 0 && isLetter(v[st-1]) {
			st--
		}
		if st == 0 || !strings.ContainsAny(v[st-1:st], "< \t\n/") {
			continue
		}
		if k := strings.LastIndexAny(v[:st], "<="); k >= 0 && v[k] == '=' {
			continue
		}
		return v[:i] + "\x00" + v[i:]
	}
	return v
}

func emitGrammarMain(args []string) {
	// prints the XSS core (hex, one per line) — used to generate the Coq enumeration check
	xssCore(func(stream, v string) { fmt.Println(hx(v)) })
}
