package main

import (
	"bufio"
	"flag"
	"fmt"
	"os"
	"runtime"
	"sort"
	"strings"
	"sync"
	"syscall"
	"time"
	"unsafe"

	li "github.com/corazawaf/libinjection-go"
)

// ---------------- C20: dump of the tables of the running package ----------------

func tablesMain(args []string) {
	w := bufio.NewWriter(os.Stdout)
	defer w.Flush()
	kw := li.VerifSQLKeywords()
	keys := make([]string, 0, len(kw))
	for k := range kw {
		keys = append(keys, k)
	}
	sort.Strings(keys)
	for _, k := range keys {
		fmt.Fprintf(w, "K %s %d\n", hx(k), kw[k])
	}
	for _, t := range li.VerifBlackTags() {
		fmt.Fprintf(w, "T %s\n", hx(t))
	}
	for _, a := range li.VerifBlacks() {
		fmt.Fprintf(w, "A %s %d\n", hx(a.Name), a.Type)
	}
	for _, a := range li.VerifBlackEvents() {
		fmt.Fprintf(w, "E %s %d\n", hx(a.Name), a.Type)
	}
	for i, v := range li.VerifHexDecodeMap() {
		fmt.Fprintf(w, "H %d %d\n", i, v)
	}
	for i, n := range li.VerifDispatch() {
		fmt.Fprintf(w, "D %d %s\n", i, n)
	}
	// reachability: what the package's own look-ups answer for every listed name, as listed and in lower case
	for _, k := range keys {
		fmt.Fprintf(w, "LK %s %d %d\n", hx(k), li.VerifLookupKeyword(k), li.VerifLookupKeyword(strings.ToLower(k)))
	}
	for _, t := range li.VerifBlackTags() {
		fmt.Fprintf(w, "LT %s %d %d\n", hx(t), b2i(li.VerifIsBlackTag(t)), b2i(li.VerifIsBlackTag(strings.ToLower(t))))
	}
	for _, a := range li.VerifBlacks() {
		fmt.Fprintf(w, "LA %s %d %d\n", hx(a.Name), li.VerifIsBlackAttr(a.Name), li.VerifIsBlackAttr(strings.ToLower(a.Name)))
	}
	for _, a := range li.VerifBlackEvents() {
		fmt.Fprintf(w, "LE %s %d %d\n", hx(a.Name), li.VerifIsBlackAttr("ON"+a.Name), li.VerifIsBlackAttr("on"+strings.ToLower(a.Name)))
	}
}

// ---------------- C03: calibration of the attack grammar (run once, result committed) ----------------

var calPrefixes = []string{"1", "1)", "1))", "1'", "x'", "1')", "x')", "1\"", "x\"", "1\")", "-1", "1.0", "0x1", "@a", "''", "x' "}

var calTemplates = []string{
	// boolean tautologies
	"{S}OR{S}1=1", "{S}OR{S}1=1{S}", "{S}AND{S}1=1", "{S}OR{S}2>1", "{S}OR{S}1<2", "{S}OR{S}'1'='1'", "{S}OR{S}'1'='1", "{S}OR{S}'A'='A", "{S}OR{S}\"A\"=\"A", "{S}OR{S}\"1\"=\"1\"",
	"{S}OR{S}1", "{S}OR{S}TRUE", "{S}XOR{S}1", "{S}OR{S}1{S}LIKE{S}1", "{S}OR{S}A=A", "{S}||{S}1=1", "{S}&&{S}1=1", "{S}OR{S}NOT{S}0", "{S}OR{S}1{S}IS{S}NOT{S}NULL", "{S}OR{S}1{S}IN{S}(1)",
	"{S}OR{S}1{S}BETWEEN{S}0{S}AND{S}2", "{S}OR{S}USER{S}LIKE{S}'%'", "{S}AND{S}1=1{S}AND{S}'A'='A", "{S}HAVING{S}1=1", "{S}GROUP{S}BY{S}1{S}HAVING{S}1=1", "{S}ORDER{S}BY{S}1", "{S}ORDER{S}BY{S}1,2,3",
	// UNION SELECT
	"{S}UNION{S}SELECT{S}1", "{S}UNION{S}SELECT{S}1,2,3", "{S}UNION{S}ALL{S}SELECT{S}1", "{S}UNION{S}ALL{S}SELECT{S}1,2,3", "{S}UNION{S}SELECT{S}NULL", "{S}UNION{S}SELECT{S}NULL,NULL,NULL",
	"{S}UNION{S}SELECT{S}USER()", "{S}UNION{S}SELECT{S}@@VERSION", "{S}UNION{S}SELECT{S}VERSION()", "{S}UNION{S}SELECT{S}*{S}FROM{S}USERS", "{S}UNION{S}SELECT{S}PASSWORD{S}FROM{S}USERS",
	"{S}UNION{S}SELECT{S}1{S}FROM{S}DUAL", "{S}UNION{S}DISTINCT{S}SELECT{S}1", "{S}UNION{S}SELECT{S}'A','B'", "{S}UNION{S}(SELECT{S}1)", "{S}UNION{S}SELECT{S}LOAD_FILE('/ETC/PASSWD')",
	"{S}UNION{S}SELECT{S}CONCAT(USER,0x3A,PASSWORD){S}FROM{S}USERS", "{S}UNION{S}SELECT{S}TABLE_NAME{S}FROM{S}INFORMATION_SCHEMA.TABLES",
	// stacked statements
	";{S}DROP{S}TABLE{S}USERS", ";DROP{S}TABLE{S}USERS", ";{S}SELECT{S}1", ";{S}SELECT{S}*{S}FROM{S}USERS", ";{S}INSERT{S}INTO{S}X{S}VALUES(1)", ";{S}DELETE{S}FROM{S}X", ";{S}UPDATE{S}X{S}SET{S}A=1",
	";{S}EXEC{S}XP_CMDSHELL('X')", ";{S}EXEC{S}MASTER..XP_CMDSHELL{S}'X'", ";{S}SHUTDOWN", ";{S}WAITFOR{S}DELAY{S}'0:0:5'", ";{S}DECLARE{S}@A{S}INT", ";{S}IF{S}1=1{S}SELECT{S}1", ";{S}CREATE{S}TABLE{S}X(A{S}INT)", ";{S}TRUNCATE{S}TABLE{S}X", ";{S}ALTER{S}TABLE{S}X{S}DROP{S}A", ";{S}BEGIN{S}DECLARE{S}@A{S}INT{S}END",
	// time / error based
	"{S}AND{S}SLEEP(5)", "{S}OR{S}SLEEP(5)", "{S}AND{S}SLEEP(5)=0", "{S}AND{S}BENCHMARK(1000000,MD5(1))", "{S}OR{S}BENCHMARK(1000000,MD5(1))", "{S}OR{S}PG_SLEEP(5)", "{S}AND{S}PG_SLEEP(5){S}IS{S}NULL",
	"{S}AND{S}EXTRACTVALUE(1,CONCAT(0x7E,VERSION()))", "{S}AND{S}UPDATEXML(1,CONCAT(0x7E,USER()),1)", "{S}AND{S}(SELECT{S}1{S}FROM{S}(SELECT{S}SLEEP(5))A)", "{S}AND{S}1=(SELECT{S}COUNT(*){S}FROM{S}X)",
	"{S}AND{S}ASCII(SUBSTRING(USER(),1,1))>64", "{S}AND{S}IF(1=1,SLEEP(5),0)", "{S}AND{S}(SELECT{S}SLEEP(5))", "{S}OR{S}(SELECT{S}1)=1", "{S}AND{S}EXISTS(SELECT{S}1)", "{S}AND{S}1=CONVERT(INT,@@VERSION)",
	"{S}AND{S}1=CAST(VERSION(){S}AS{S}INT)", "{S}PROCEDURE{S}ANALYSE()", "{S}INTO{S}OUTFILE{S}'/TMP/X'", "{S}INTO{S}DUMPFILE{S}'/TMP/X'", "{S}WAITFOR{S}DELAY{S}'0:0:5'", "{S}AND{S}LENGTH(USER())>0", "{S}AND{S}DBMS_PIPE.RECEIVE_MESSAGE('A',5)=1", "{S}RLIKE{S}SLEEP(5)", "{S}OR{S}ROW(1,1)>(SELECT{S}COUNT(*),1{S}FROM{S}X)",
	// comment truncation (the tail does the work)
	"", "{S}", "{S}OR{S}1=1{S}LIMIT{S}1", "{S}AND{S}1=2",
}

// templates added after the first calibration (appended to the frozen file by
// `harness calibrate -append`; the existing triples are never re-judged)
var calTemplatesNew = []string{
	";{S}CREATE{S}OR{S}REPLACE{S}FUNCTION{S}X()", ";{S}CREATE{S}OR{S}REPLACE{S}FUNCTION{S}X(){S}RETURNS{S}INT", ";{S}CREATE{S}OR{S}REPLACE{S}PROCEDURE{S}X", ";{S}CREATE{S}OR{S}REPLACE{S}VIEW{S}X{S}AS{S}SELECT{S}1",
	";{S}CREATE{S}USER{S}X", ";{S}CREATE{S}FUNCTION{S}X()", ";{S}CREATE{S}PROCEDURE{S}X", ";{S}CREATE{S}DATABASE{S}X", ";{S}CREATE{S}TRIGGER{S}X",
	";{S}GRANT{S}ALL{S}ON{S}X{S}TO{S}Y", ";{S}MERGE{S}INTO{S}X", ";{S}CALL{S}X()", ";{S}COPY{S}X{S}FROM{S}'Y'", ";{S}LOAD{S}DATA{S}INFILE{S}'X'", ";{S}EXECUTE{S}IMMEDIATE{S}'X'",
	";{S}SET{S}@A=1", ";{S}KILL{S}1", ";{S}BACKUP{S}DATABASE{S}X", ";{S}PREPARE{S}X{S}FROM{S}'Y'", ";{S}REPLACE{S}INTO{S}X{S}VALUES(1)", ";{S}DROP{S}DATABASE{S}X", ";{S}DROP{S}USER{S}X",
	";{S}EXEC{S}SP_EXECUTESQL{S}'X'", ";{S}EXECUTE{S}XP_CMDSHELL{S}'X'", ";{S}RENAME{S}TABLE{S}X{S}TO{S}Y", ";{S}LOCK{S}TABLE{S}X", ";{S}SELECT{S}PG_SLEEP(5)", ";{S}SELECT{S}SLEEP(5)",
	"{S}UNION{S}SELECT{S}1{S}INTO{S}OUTFILE{S}'X'", "{S}UNION{S}SELECT{S}GROUP_CONCAT(TABLE_NAME){S}FROM{S}INFORMATION_SCHEMA.TABLES", "{S}UNION{S}ALL{S}SELECT{S}NULL,NULL", "{S}UNION{S}SELECT{S}CHAR(65)",
	"{S}OR{S}1=1{S}ORDER{S}BY{S}1", "{S}OR{S}EXISTS(SELECT{S}1)", "{S}OR{S}1{S}NOT{S}IN{S}(2)", "{S}OR{S}'A'{S}LIKE{S}'A'", "{S}OR{S}1{S}REGEXP{S}1", "{S}OR{S}ISNULL(1)", "{S}AND{S}(1)=(1)", "{S}OR{S}(1)=(1)",
	"{S}AND{S}SLEEP(5)#", "{S}OR{S}IF(1=1,SLEEP(5),0)", "{S}AND{S}MAKE_SET(1,SLEEP(5))", "{S}AND{S}ELT(1,SLEEP(5))", "{S}OR{S}GTID_SUBSET(VERSION(),1)", "{S}AND{S}JSON_KEYS((SELECT{S}1))",
	"{S}LIMIT{S}1{S}PROCEDURE{S}ANALYSE()", "{S}LIMIT{S}1{S}INTO{S}OUTFILE{S}'X'", "{S}AND{S}1{S}IN{S}(SELECT{S}1)", "{S}AND{S}(SELECT{S}COUNT(*){S}FROM{S}X)>0", "{S}OR{S}(SELECT{S}1{S}FROM{S}DUAL)=1",
}

var calTails = []string{"", "--", "--{S}", "--{S}-", "#", "/*", ";--", ";{S}--", "{S}--", "{S}#", "{S}/*", "--{S}x", "{S}--{S}-", ";", ";#", "-- -"}

func detectedAll(t triple, r *rng, mixed int) bool {
	seps := append(append([]string{}, sqlW...), "/**/")
	for _, sp := range seps {
		sp := sp
		x := instantiate(t, func() string { return sp })
		for _, v := range []string{x, asciiLower(x)} {
			if b, _ := li.IsSQLi(v); !b {
				return false
			}
		}
	}
	for i := 0; i < mixed; i++ {
		x := instantiate(t, func() string {
			if r.coin(1, 3) {
				k := 1 + r.intn(4)
				var b strings.Builder
				for j := 0; j < k; j++ {
					b.WriteString(sqlW[r.intn(len(sqlW))])
				}
				return b.String()
			}
			return seps[r.intn(len(seps))]
		})
		none := make([]bool, len(x))
		x = caseVariant(x, none, r.intn(4), r)
		if b, _ := li.IsSQLi(x); !b {
			return false
		}
	}
	return true
}

func calibrateMain(args []string) {
	fs := flag.NewFlagSet("calibrate", flag.ExitOnError)
	out := fs.String("out", "/verif/grammar/sqli_grammar.txt", "")
	appendNew := fs.Bool("append", false, "judge only the templates of calTemplatesNew and append the kept triples to the file")
	fs.Parse(args)
	r := newRng(20260926)
	if *appendNew {
		have := map[string]bool{}
		if data, err := os.ReadFile(*out); err == nil {
			for _, ln := range strings.Split(string(data), "\n") {
				have[ln] = true
			}
		}
		f, err := os.OpenFile(*out, os.O_APPEND|os.O_WRONLY, 0o644)
		if err != nil {
			fmt.Println(err)
			os.Exit(2)
		}
		defer f.Close()
		bw := bufio.NewWriter(f)
		defer bw.Flush()
		kept, total := 0, 0
		for _, p := range calPrefixes {
			for _, tm := range calTemplatesNew {
				for _, tl := range calTails {
					line := fmt.Sprintf("%s\t%s\t%s", esc(p), esc(tm), esc(tl))
					if have[line] {
						continue
					}
					total++
					if detectedAll(triple{p, tm, tl}, r, 200) {
						kept++
						fmt.Fprintln(bw, line)
					}
				}
			}
		}
		fmt.Printf("calibrate -append: kept %d of %d new candidate triples\n", kept, total)
		return
	}
	w, _ := os.Create(*out)
	defer w.Close()
	bw := bufio.NewWriter(w)
	defer bw.Flush()
	fmt.Fprintln(bw, "# Frozen SQLi attack grammar (C03): prefix <TAB> template <TAB> tail ; ~ = empty ; {S} = separator slot.")
	fmt.Fprintln(bw, "# Calibrated once on the repaired tree by `harness calibrate`; a triple is kept only if every")
	fmt.Fprintln(bw, "# uniform separator of W+{/**/} in upper and lower case and 200 random mixed derivations are detected.")
	kept, total := 0, 0
	dropped := map[string]int{}
	for _, p := range calPrefixes {
		for _, tm := range calTemplates {
			for _, tl := range calTails {
				if tm == "" && tl == "" {
					continue
				}
				t := triple{p, tm, tl}
				total++
				if detectedAll(t, r, 200) {
					kept++
					fmt.Fprintf(bw, "%s\t%s\t%s\n", esc(p), esc(tm), esc(tl))
				} else {
					dropped[tm]++
				}
			}
		}
	}
	fmt.Printf("calibrate: kept %d of %d candidate triples\n", kept, total)
	var ks []string
	for k := range dropped {
		ks = append(ks, k)
	}
	sort.Strings(ks)
	for _, k := range ks {
		fmt.Printf("  dropped %3d/%d combinations of template %q\n", dropped[k], len(calPrefixes)*len(calTails), k)
	}
}

// calibrateXSSMain: the wrapped-vector family of C04 (a black vector hidden inside a quoted
// attribute value of a decoy tag or behind a tag form that leaves tokenizer flags set, with an
// unfinished construct in front of or behind it), calibrated once on the repaired tree: a
// candidate is kept iff IsXSS reports it.  The frozen list (grammar/xss_wrapped.txt, hex) is
// swept by vm_compute against the model (gen/C04Wrapped*.v) and replayed on IsXSS on every run.
func calibrateXSSMain(args []string) {
	fs := flag.NewFlagSet("calibrate-xss", flag.ExitOnError)
	out := fs.String("out", "/verif/grammar/xss_wrapped.txt", "")
	fs.Parse(args)
	seen := map[string]bool{}
	var kept []string
	total := 0
	wrappedVectors(func(x string) {
		if seen[x] {
			return
		}
		seen[x] = true
		// members must carry a black vector: the harmless control "<b>" is not one
		if !strings.Contains(x, "script") && !strings.Contains(x, "iframe") && !strings.Contains(x, "style") && !strings.Contains(x, "on") &&
			!strings.Contains(x, "DOCTYPE") && !strings.Contains(x, "import") && !strings.Contains(x, "[if") {
			return
		}
		for i := 0; i < len(x); i++ {
			if x[i] < 0x20 || x[i] > 0x7e {
				return
			}
		}
		total++
		if li.IsXSS(x) {
			kept = append(kept, x)
		}
	})
	sort.Strings(kept)
	w, _ := os.Create(*out)
	defer w.Close()
	bw := bufio.NewWriter(w)
	defer bw.Flush()
	fmt.Fprintln(bw, "# Frozen wrapped-vector family (C04): one member per line, hex. Calibrated once on the repaired tree by")
	fmt.Fprintln(bw, "# `harness calibrate-xss`: a candidate of wrappedVectors() that carries a black vector is kept iff IsXSS reports it.")
	for _, x := range kept {
		fmt.Fprintln(bw, hx(x))
	}
	fmt.Printf("calibrate-xss: kept %d of %d candidates\n", len(kept), total)
}

// ---------------- C05: concurrent histories ----------------

type raceReport struct {
	Goroutines int      `json:"goroutines"`
	Inputs     int      `json:"inputs"`
	Calls      int      `json:"calls"`
	Histories  int      `json:"histories"`
	Mismatches []string `json:"mismatches"`
	NMismatch  int      `json:"n_mismatches"`
	Samples    []string `json:"samples"`
	WallS      float64  `json:"wall_s"`
	Race       bool     `json:"race_detector_build"`
}

func raceMain(args []string) {
	fs := flag.NewFlagSet("race", flag.ExitOnError)
	tier := fs.String("tier", "quick", "")
	seed := fs.Uint64("seed", 1, "")
	out := fs.String("out", "", "")
	refOut := fs.String("inputs-out", "", "write the input list (hex) for the model comparison")
	fs.Parse(args)
	t0 := time.Now()
	c := loadCorpus("/repo", "/verif")
	r := newRng(*seed)
	base := sqlAll(c, r, "quick", 1).list
	baseH := htmlAll(c, r, "quick", 1).list
	var inputs []string
	nIn := 1500
	G := 16
	rounds := 2
	if *tier == "thorough" {
		nIn, G, rounds = 12000, 64, 4
	}
	for i := 0; i < nIn; i++ {
		if i%2 == 0 {
			inputs = append(inputs, base[r.intn(len(base))])
		} else {
			inputs = append(inputs, baseH[r.intn(len(baseH))])
		}
	}
	type res struct {
		b  bool
		fp string
		x  bool
	}
	eval := func(s string) res {
		b, fp := li.IsSQLi(s)
		return res{b, fp, li.IsXSS(s)}
	}
	// reference pass (sequential)
	ref := make([]res, len(inputs))
	for i, s := range inputs {
		ref[i] = eval(s)
	}
	rep := raceReport{Goroutines: G, Inputs: len(inputs), Race: raceEnabled}
	var mu sync.Mutex
	mismatch := func(where string, i int, got res) {
		mu.Lock()
		defer mu.Unlock()
		rep.NMismatch++
		if len(rep.Mismatches) < 20 {
			rep.Mismatches = append(rep.Mismatches, fmt.Sprintf("%s input %s: reference (%v,%q,%v) got (%v,%q,%v)", where, hx(inputs[i]), ref[i].b, ref[i].fp, ref[i].x, got.b, got.fp, got.x))
		}
	}
	for round := 0; round < rounds; round++ {
		for _, procs := range []int{1, 4, runtime.NumCPU()} {
			old := runtime.GOMAXPROCS(procs)
			var wg sync.WaitGroup
			for g := 0; g < G; g++ {
				wg.Add(1)
				rg := newRng(*seed*1000003 + uint64(g) + uint64(round)*97 + uint64(procs)*131)
				go func(g int, rg *rng) {
					defer wg.Done()
					// every goroutine walks its own permutation (a call history), sharing the input strings
					perm := make([]int, len(inputs))
					for i := range perm {
						perm[i] = i
					}
					for i := len(perm) - 1; i > 0; i-- {
						j := rg.intn(i + 1)
						perm[i], perm[j] = perm[j], perm[i]
					}
					for k, i := range perm {
						got := eval(inputs[i])
						if got != ref[i] {
							mismatch(fmt.Sprintf("goroutine %d step %d GOMAXPROCS %d", g, k, procs), i, got)
						}
						if k%64 == 0 {
							runtime.Gosched()
						}
						if rg.coin(1, 16) {
							// ask again immediately: repetition must not matter
							if got2 := eval(inputs[i]); got2 != ref[i] {
								mismatch(fmt.Sprintf("goroutine %d repeat %d", g, k), i, got2)
							}
						}
					}
				}(g, rg)
			}
			wg.Wait()
			runtime.GOMAXPROCS(old)
			rep.Histories += G
			rep.Calls += G * len(inputs) * 2
		}
	}
	// after all that history, a sequential pass still gives the reference answers
	for i, s := range inputs {
		if got := eval(s); got != ref[i] {
			mismatch("final sequential pass", i, got)
		}
	}
	for i := 0; i < 5; i++ {
		rep.Samples = append(rep.Samples, hx(inputs[(i*len(inputs))/5]))
	}
	rep.WallS = time.Since(t0).Seconds()
	if *out != "" {
		writeJSON(*out, rep)
	}
	if *refOut != "" {
		os.WriteFile(*refOut, hexLines(inputs), 0o644)
		// and the implementation's answers in the canonical form, for comparison with the pure model
		var b strings.Builder
		for i, s := range inputs {
			fmt.Fprintf(&b, "I %s\nSV %d %s\nHX %d\n", hx(s), b2i(ref[i].b), hx(ref[i].fp), b2i(ref[i].x))
		}
		os.WriteFile(*refOut+".go", []byte(b.String()), 0o644)
	}
	fmt.Printf("harness race: goroutines=%d inputs=%d histories=%d calls=%d mismatches=%d race_build=%v wall=%.1fs\n", G, len(inputs), rep.Histories, rep.Calls, rep.NMismatch, raceEnabled, rep.WallS)
	if rep.NMismatch > 0 {
		os.Exit(1)
	}
}

// ---------------- C09: scaling of the running time ----------------

type costRow struct {
	Family string  `json:"family"` // hex of the repeated unit, with driver prefix
	Det    string  `json:"detector"`
	N1     int     `json:"n1"`
	N2     int     `json:"n2"`
	T1us   float64 `json:"t1_us"`
	T2us   float64 `json:"t2_us"`
	Ratio  float64 `json:"ratio"`
}

type costReport struct {
	Families  int       `json:"families"`
	Evals     int       `json:"evaluations"`
	Suspects  []costRow `json:"suspects"`
	Confirmed []costRow `json:"confirmed_superlinear"`
	Worst     []costRow `json:"worst_ratios"`
	Slowest   []costRow `json:"slowest_per_byte"`
	MaxNsByte float64   `json:"max_ns_per_byte"`
	Samples   []string  `json:"samples"`
	WallS     float64   `json:"wall_s"`
}

// threadCPU returns the CPU time consumed by the calling OS thread
// (clock_gettime(CLOCK_THREAD_CPUTIME_ID)): unlike wall-clock time it does not grow when
// the machine is busy with other work and the thread is descheduled.
func threadCPU() (int64, bool) {
	var ts syscall.Timespec
	const clockThreadCPUTimeID = 3
	if _, _, e := syscall.Syscall(syscall.SYS_CLOCK_GETTIME, clockThreadCPUTimeID, uintptr(unsafe.Pointer(&ts)), 0); e != 0 {
		return 0, false
	}
	return ts.Sec*1e9 + ts.Nsec, true
}

// timeIt: minimum over reps runs of the CPU time (microseconds) of one call, measured on
// a locked OS thread; falls back to wall-clock if the thread clock is unavailable.
func timeIt(det string, s string, reps int) float64 {
	runtime.LockOSThread()
	defer runtime.UnlockOSThread()
	best := 1e18
	for i := 0; i < reps; i++ {
		c0, ok := threadCPU()
		t0 := time.Now()
		if det == "sqli" {
			li.IsSQLi(s)
		} else {
			li.IsXSS(s)
		}
		d := float64(time.Since(t0).Nanoseconds()) / 1000
		if c1, ok1 := threadCPU(); ok && ok1 {
			d = float64(c1-c0) / 1000
		}
		if d < best {
			best = d
		}
	}
	return best
}

func build(prefix, unit string, n int) string {
	return prefix + strings.Repeat(unit, n/len(unit)+1)
}

func costMain(args []string) {
	fs := flag.NewFlagSet("cost", flag.ExitOnError)
	tier := fs.String("tier", "quick", "")
	seed := fs.Uint64("seed", 1, "")
	out := fs.String("out", "", "")
	famOut := fs.String("families-out", "", "write the family list (det hex-unit hex-prefix) and exit: input of the op-count stage")
	only := fs.String("only", "", "time only the families listed in this file (det hex-unit hex-prefix per line)")
	fs.Parse(args)
	t0 := time.Now()
	r := newRng(*seed)
	type fam struct{ det, prefix, unit string }
	var fams []fam
	curatedSQL := []string{"'", "\\'", "''", "\"", "`", "$t$", "$", "$a", "/*", "*/", "/* ", "@", "@@", "@`", "[", "]", "-", "--", "- ", "\\", "div.1", "mod`x`", "1.", ".1", "1e", "a.b", "a`b", "x'1", "q'(", "(", ")", "1,", "1 ", "a ", "a=", "1=", "+", "~", "!", "::", "{", "}", "{``", "select ", "union ", "1 union ", "or 1 ", "'a'", "'a' ", "0x", "0x1", ";", "#", "\n", "\x00", "\xa0", "\x80", "aaaaaaaaaaaaaaaaaaaaaaaaaaaaaaaaaaaa", "aaaaaaaaaaaaaaaaaaaaaaaaaaaaaaaa.", "a.", "a`", "SELECT.", "1 or ", "'\\"}
	curatedHTML := []string{"<", "-", "%", "]", "&#", "/", "<a ", "<a", "=", "a=", "a= ", "<!--", "<!---", "-\x00", "<%", "%%", "]]", "<![CDATA[", "<![CDATA[]", "'", "\"", "`", " ", "<a b=", "<a b='", "</", "<!", "<?", ">", "&#x6a", "&#1", "<a/", "//", "/ ", "a ", "\x00", "<a \x00", "< ", "<\x00"}
	for _, u := range curatedSQL {
		for _, p := range []string{"", "1", "x ", "1 ", "'", "1'"} {
			fams = append(fams, fam{"sqli", p, u})
		}
	}
	for _, u := range curatedHTML {
		for _, p := range []string{"", "<a ", "'", "<a b="} {
			fams = append(fams, fam{"xss", p, u})
		}
	}
	// structured units: construct opener + short body + closer, so that the scanner returns
	// to its start state and meets the same construct again (a per-construct cost that
	// grows with the REST of the input shows here and in no single-byte or pair family)
	htmlOpen := []string{"<", "</", "<!", "<?", "<%", "<!-", "<!--", "<![", "<![CDATA[", "<!DOCTYPE", "<a", "<a ", "<a b", "<a b=", "<a b='", "<a b=\"", "<a/", "&#", "&#x"}
	htmlBody := []string{"", "x", " ", "-", "\x00", "1"}
	htmlClose := []string{">", "->", "-->", "]]>", "%>", "'>", "\">", ";", " >", "/>"}
	for _, o := range htmlOpen {
		for _, b := range htmlBody {
			for _, c := range htmlClose {
				fams = append(fams, fam{"xss", "", o + b + c})
			}
		}
	}
	sqlOpen := map[string][]string{
		"'": {"'", "' ", "',"}, "\"": {"\"", "\" "}, "`": {"`", "` "}, "/*": {"*/", "*/ ", "*/1"}, "/*!": {"*/", "*/ "}, "--": {"\n", "\n1"}, "-- ": {"\n"}, "#": {"\n"},
		"$$": {"$$", "$$ "}, "$t$": {"$t$", "$t$ "}, "q'(": {")'", ")' "}, "n'": {"'", "' "}, "x'": {"'", "' "}, "e'": {"'", "' "}, "u&'": {"'", "' "},
		"@": {" ", ","}, "@@": {" "}, "@`": {"`", "` "}, "@'": {"'", "' "}, "[": {"]", "] "}, "{": {"}", "} "}, "(": {")", ") "}, "0x": {" ", ","}, "1e": {" ", ","}, "1.": {" ", ","},
		"a.": {" ", ","}, "a`": {"`", " "}, "select ": {" ", ","}, "1 or ": {" ", ","},
	}
	var sqlOpeners []string
	for o := range sqlOpen {
		sqlOpeners = append(sqlOpeners, o)
	}
	sort.Strings(sqlOpeners)
	for _, o := range sqlOpeners {
		for _, b := range []string{"", "a", " ", "\\", "1", "\x00"} {
			for _, c := range sqlOpen[o] {
				fams = append(fams, fam{"sqli", "", o + b + c})
			}
		}
	}
	// units that MIX two (thorough: three) kinds of constructs: every ordered pair of whole
	// attribute forms / token forms.  A cost that appears only when one construct is followed
	// by another one (a cache invalidated by the second, a rescan triggered by the first) needs
	// such a unit; no single-construct family contains it.
	htmlForms := []string{"a=b ", "a='b' ", "a=\"b\" ", "a=`b` ", "a ", "a= ", "a/", "a=b>c ", "<b ", "</b ", "<b>", "x "}
	sqlForms := []string{"1 ", "a ", "'s' ", "\"d\" ", "`t` ", "@v ", "+ ", ", ", "( ", ") ", "/**/", "-- x\n", "#x\n", "$$x$$ ", "x'1' ", "1.5e3 ", "a.b ", "; ", "or ", "select "}
	for _, a := range htmlForms {
		for _, b := range htmlForms {
			if a != b {
				fams = append(fams, fam{"xss", "", a + b}, fam{"xss", "<a ", a + b})
			}
		}
	}
	for _, a := range sqlForms {
		for _, b := range sqlForms {
			if a != b {
				fams = append(fams, fam{"sqli", "", a + b})
			}
		}
	}
	if *tier == "thorough" {
		for _, a := range htmlForms {
			for _, b := range htmlForms {
				for _, c := range htmlForms {
					if a != b && b != c {
						fams = append(fams, fam{"xss", "<a ", a + b + c})
					}
				}
			}
		}
	}
	nPairs := 400
	if *tier == "thorough" {
		nPairs = 6000
	}
	for i := 0; i < nPairs; i++ {
		u := sqlAlphabet[r.intn(len(sqlAlphabet))] + sqlAlphabet[r.intn(len(sqlAlphabet))]
		if r.coin(1, 3) {
			u += sqlAlphabet[r.intn(len(sqlAlphabet))]
		}
		fams = append(fams, fam{"sqli", []string{"", "1", "x "}[r.intn(3)], u})
		v := htmlAlphabet[r.intn(len(htmlAlphabet))] + htmlAlphabet[r.intn(len(htmlAlphabet))]
		if r.coin(1, 3) {
			v += htmlAlphabet[r.intn(len(htmlAlphabet))]
		}
		fams = append(fams, fam{"xss", []string{"", "<a ", "'"}[r.intn(3)], v})
	}
	if *famOut != "" {
		f, err := os.Create(*famOut)
		if err != nil {
			fmt.Println(err)
			os.Exit(2)
		}
		w := bufio.NewWriter(f)
		for _, x := range fams {
			fmt.Fprintf(w, "%s %s %s\n", x.det, hx(x.unit), hx(x.prefix))
		}
		w.Flush()
		f.Close()
		return
	}
	if *only != "" {
		data, err := os.ReadFile(*only)
		if err != nil {
			fmt.Println(err)
			os.Exit(2)
		}
		fams = fams[:0]
		for _, ln := range strings.Split(string(data), "\n") {
			f := strings.Fields(ln)
			if len(f) == 3 {
				fams = append(fams, fam{f[0], unhx(f[2]), unhx(f[1])})
			}
		}
	}
	rep := costReport{Families: len(fams)}
	n1, n2 := 16384, 65536
	var rows []costRow
	for _, f := range fams {
		s1, s2 := build(f.prefix, f.unit, n1), build(f.prefix, f.unit, n2)
		t1 := timeIt(f.det, s1, 2)
		t2 := timeIt(f.det, s2, 2)
		rep.Evals += 4
		row := costRow{Family: hx(f.prefix) + "+" + hx(f.unit) + "*n", Det: f.det, N1: len(s1), N2: len(s2), T1us: t1, T2us: t2, Ratio: t2 / (t1 + 0.5)}
		rows = append(rows, row)
		if nb := t2 * 1000 / float64(len(s2)); nb > rep.MaxNsByte {
			rep.MaxNsByte = nb
		}
		// suspect: more than 2.5x the linear ratio and not negligible, or very slow per byte
		if (row.Ratio > 10 && t2 > 2000) || t2*1000/float64(len(s2)) > 1000 {
			rep.Suspects = append(rep.Suspects, row)
			if len(rep.Confirmed) >= 3 {
				// three confirmed families are enough to report; do not spend minutes on
				// re-timing every further family of a super-linear implementation
				continue
			}
			// confirm at 4x again, min of 5 runs: a quadratic family shows ratio ~16 twice
			s3 := build(f.prefix, f.unit, 4*n2)
			t2b := timeIt(f.det, s2, 5)
			t3 := timeIt(f.det, s3, 3)
			rep.Evals += 8
			c := costRow{Family: row.Family, Det: f.det, N1: len(s2), N2: len(s3), T1us: t2b, T2us: t3, Ratio: t3 / (t2b + 0.5)}
			if (c.Ratio > 10 && t3 > 8000) || t3*1000/float64(len(s3)) > 1000 {
				rep.Confirmed = append(rep.Confirmed, c)
			}
		}
	}
	sort.Slice(rows, func(i, j int) bool { return rows[i].Ratio > rows[j].Ratio })
	for i := 0; i < 5 && i < len(rows); i++ {
		rep.Worst = append(rep.Worst, rows[i])
	}
	sort.Slice(rows, func(i, j int) bool { return rows[i].T2us/float64(rows[i].N2) > rows[j].T2us/float64(rows[j].N2) })
	for i := 0; i < 5 && i < len(rows); i++ {
		rep.Slowest = append(rep.Slowest, rows[i])
	}
	for i := 0; i < 6; i++ {
		f := fams[(i*len(fams))/6]
		rep.Samples = append(rep.Samples, f.det+":"+hx(f.prefix)+"+"+hx(f.unit)+"*n")
	}
	rep.WallS = time.Since(t0).Seconds()
	if *out != "" {
		writeJSON(*out, rep)
	}
	fmt.Printf("harness cost: families=%d suspects=%d confirmed=%d max_ns_per_byte=%.1f wall=%.1fs\n", len(fams), len(rep.Suspects), len(rep.Confirmed), rep.MaxNsByte, rep.WallS)
	for _, c := range rep.Confirmed {
		fmt.Printf("  SUPERLINEAR %s %s n=%d:%0.fus n=%d:%.0fus ratio %.1f\n", c.Det, c.Family, c.N1, c.T1us, c.N2, c.T2us, c.Ratio)
	}
	if len(rep.Confirmed) > 0 {
		os.Exit(1)
	}
}
