#!/bin/sh
# usage: coqshow.sh <file.v> [extra tactics]  -- compile up to the marker (*HERE*) and show the goals there
f=$1
d=$(mktemp -d /tmp/coqshow.XXXX)
python3 - "$f" "$d/Show_tmp.v" "$2" <<'PY'
import sys
s=open(sys.argv[1]).read()
i=s.index('(*HERE*)')
open(sys.argv[2],'w').write(s[:i]+"\n"+sys.argv[3]+" Show.\n")
PY
cd /verif/coq && timeout ${T:-300} coqc -Q theories LI -Q gen LIGen $d/Show_tmp.v 2>&1 | head -${H:-120}
rm -rf $d
