#!/usr/bin/env python3
"""Writes /verif/MANIFEST.json.  The per-property level is what is actually proved now
(see CLAIMS); keep in step with coq/theories/Properties/*.v."""
import json

PROOF, TV = "proof", "translation_validation"

# id: (category, technique, text, note)
CLAIMS = {
 "C01": (PROOF, "Coq theorem: is_sqli total (no panic, no stale slot, window <= 6 of 8 slots, linear fuel); + outcome correspondence",
         "C01_is_sqli_total: for every byte string the model's IsSQLi returns Ok: every Go index / slice (lexers, assign, the folder's val[0]/val[1]/val[:len], the whitelist's look-ups into the raw input) is a checked primitive that is shown never to fail; the 8-slot token vector is modelled by the live tokens only, so no stale slot is read and the window never exceeds 6; the tokenizer loop, the fetch loops and the main loop of fold finish within fuels linear in |s| (potential argument over all 2- and 3-token rules). Built from per-lexer specifications of all 22 lexers, the window invariant, every folding rule, fingerprint / blacklist / whitelist / cascade, with vm_compute sweeps over the regenerated keyword map for the table side conditions. Tied to the code by the outcome-class correspondence (returns / panics / hangs) over corpus, bounded-exhaustive, truncation, fragment, mutation and 64 KB-1 MB repetition streams.",
         "model hand-written, tied by correspondence"),
 "C02": (PROOF, "Coq theorem: is_xss total with constant call depth and linear fuel; + outcome correspondence (child processes)",
         "C02_is_xss_total: for every byte string the model's IsXSS returns Ok in all five contexts: no checked index/slice fails, every loop finishes within its fuel (tokens: 2|s|+4, state loops: |s|+2) and the call depth between HTML5 state functions never exceeds 4 (budget 8), for every input; proved by a per-state specification of all 22 state functions with a potential (|s|-pos)+credit(state) that every emitted token decreases, plus totality of the classifier, the character-reference decoder and the scheme matcher. Tied to the code by the outcome-class correspondence (Go side in watched child processes so a fatal stack overflow or a hang is attributed to one input) and the token-stream correspondence.",
         "model hand-written, tied by correspondence; Go runtime stack growth itself is observed, not modelled"),
 "C03": (PROOF, "Coq vm_compute over the frozen grammar (sharded) + replay on IsSQLi",
         "C03_core: every (prefix, template, tail) triple of the frozen attack grammar (19 215 triples) under each of the 9 uniform separators is reported by the model, decided in the Coq kernel by vm_compute against the tables regenerated from the source; the same enumeration and 20 000 (thorough 500 000) derivations beyond the bound (mixed separators, whitespace runs, letter case) are replayed on IsSQLi. The lifting of the infinite dimensions is not proved (core only).",
         "finite core proved, infinite dimensions sampled; grammar calibrated once on the repaired tree and frozen in grammar/sqli_grammar.txt"),
 "C04": (PROOF, "Coq vm_compute over the vector grammar built from the regenerated lists (sharded) + replay on IsXSS",
         "C04_core: every member of the vector grammar (9 450 vectors: every shipped black tag x 4 terminators, SVT/XSL, every event x 5 value quotings, 7 attribute separators, every URL attribute x 4 schemes x 3 quotings, black/style/indirect attributes, XMLNS/XLINK, 10 markup forms; each behind the break-out prefix of each of the five contexts) is reported by the model, decided in the Coq kernel by vm_compute over the lists regenerated from the source; the Coq family is byte-identical to the family the harness replays on IsXSS (checked: `harness emit-grammar` == Eval of xss_core). Infinite dimensions (letter case, NULs in names, encodings) are sampled (20 000 obfuscations per run), not proved here; C19 proves the encoding dimension of the URL schemes.",
         "finite core proved, infinite dimensions sampled; a dropped list entry shrinks the family and is caught by the C20 baseline theorem"),
 "C05": (PROOF, "Coq theorem over generated effect summary + interleaving theorem; -race histories",
         "Partial by nature: proved are (1) the generated fact that no package-level variable is written, address-taken or handed to an external pointer method after initialisation and that the package uses no go/chan/sync/unsafe/reflect (gen/Effects.v, regenerated from the type-checked source on every run) and (2) the interleaving theorem: threads that share only immutable data return, under every schedule, what the pure function returns. Observed, not proved: the Go memory model and runtime (race-detector runs of 16-64 goroutines over shared inputs, permuted histories compared with a reference pass and with the pure model).",
         "runtime behaviour (data races of the compiled binary) cannot be exhibited by any executable Gallina model"),
 "C06": (TV, "full-width correspondence Go vs extracted Coq model, 6 modes",
         "Token streams with scan offsets, folded tokens, fingerprints, blacklist/whitelist verdicts and statistics in all six modes plus the IsSQLi pair, compared line by line between the implementation and the Go-mirroring Coq model over ~49 000 inputs (thorough: depth-3 exhaustive, ~700 000). The independently written declarative Ref and M = Ref are not finished: the reference is the model itself.",
         "Ref not independent yet"),
 "C07": (TV, "full-width correspondence Go vs extracted Coq model, 5 contexts",
         "HTML token (type, offset, length) streams and verdicts in five contexts, IsXSS, and the decoder / URL / tag / attribute predicates compared between implementation and model.",
         "Ref not independent yet"),
 "C08": (PROOF, "Coq theorem: verdict/fingerprint consistency for all inputs; + direct oracle on IsSQLi + correspondence",
         "C08_consistent: for every input, if the model's IsSQLi returns (b, fp) then b = false implies fp empty, and b = true implies 1 <= |fp| <= 5, every character is a documented class character, the comment class occurs only in last position, '0' + upper(fp) is a fingerprint key of the keyword table regenerated from the source, and fp is the fingerprint of the input in at least one of the five parsing contexts evaluated on a fresh state, with a true verdict there. Derived from the cascade theorem (C12a), the fingerprint specification (classes of the window tokens) and a vm_compute sweep over the table for the shape of every fingerprint key. The same clauses are evaluated on the implementation's return values (including attack strings extended by further tokens and every trailing comment style), and the pair and the per-context fingerprints are compared with the model.",
         "model hand-written, tied by correspondence"),
 "C09": (TV, "wall-clock scaling of input families (16K/64K/256K), min-of-k",
         "Partial by nature (wall-clock). ~1 300 input families unit^n alone and behind fold-driving prefixes; a family is reported only when the 4x ratio exceeds 10 twice (at 64K and again at 256K, min of 3-5 runs) or the cost exceeds 1 us/byte. No cost theorem yet.",
         "cost semantics of the model not built"),
 "C10": (PROOF, "Coq lock-step theorem: case variants give equal IsSQLi results outside the case-sensitive neighbourhoods; + case-variant pairs on IsSQLi",
         "C10_partial2: for all s, s' that are equal up to ASCII letter case, if s contains no backslash followed by N/n, no `$` followed by a letter and no q'L / Q'L with L a letter (plain2, a computed boolean; symmetric under case change and closed under suffixes) and `sp_password` occurs in both or in neither, then is_sqli s' = is_sqli s (verdict and fingerprint, including failure modes). Proved by a relational (lock-step) argument through all 22 lexers, the tokenizer loop, every folding rule, merge, the fingerprint, blacklist, whitelist and the cascade, with byte sweeps over the regenerated dispatch table and accept sets; the vm_compute examples show each excluded neighbourhood really flips the verdict. The clause for case changes elsewhere in inputs that do contain such a neighbourhood is left to the tie: all-upper / all-lower / random case assignments outside the exempt positions on IsSQLi, compared pairwise and with the model.",
         "partial in the statement: inputs containing \\N, $letter or a letter q-quote delimiter are covered by sampling only; model hand-written, tied by correspondence"),
 "C11": (PROOF, "Coq lock-step theorem: case variants give equal IsXSS results (no <![CDATA[ look-alike); + case / NUL-in-name variant pairs on IsXSS",
         "C11a_case_insensitive: for all s, s' equal up to ASCII letter case, if s contains no occurrence of the 9 bytes <![CDATA[ in any letter case, then is_xss s' = is_xss s and likewise per context (lock-step over all 22 tokenizer states, the construct loops, the classifier, the decoder and the scheme matcher; byte sweeps for every predicate; Go's ToUpper / ToLower non-ASCII special cases are unaffected by ASCII case changes). The exclusion is necessary (examples in C11.v). Clause (b), NUL bytes inside element / attribute names, is checked on the implementation and against the model by variant pairs (a NUL inserted strictly inside a tag-name-open or attribute-name token leaves that context's verdict unchanged) and is not yet a theorem.",
         "clause (b) tested only; model hand-written, tied by correspondence"),
 "C12": (PROOF, "Coq theorem: IsSQLi = gated cascade of per-context readings on fresh states; + cascade recomputed on the implementation",
         "C12a_cascade: for every input is_sqli = cascade, where cascade (Spec/CascadeSpec.v) is written only in terms of the per-context accessor on fresh states: none|ansi; none|mysql if the previous reading counted `#` or `--x`; single|ansi if the input contains '; single|mysql under the same gate; double|mysql if it contains \"; first firing reading wins; also given as a 5-row table with an interpreter (C12a_cascade_list). Each pass depends on the input only (the state is re-initialised) and keeps the input. Clause (b) (reading x inside a quote = reading quote+x as-is) is checked on the implementation (tokens shifted by one, equal fingerprints) and, when Properties/C12b.v is present, proved there. Tie: IsSQLi against the cascade recomputed from the per-context accessor, inputs biased to reach passes 2-5.",
         "clause (b): see C12b.v if present, otherwise tested only; model hand-written, tied by correspondence"),
 "C13": (PROOF, "Coq theorems: IsXSS = OR of contexts; attribute context = embedding in a harmless tag; '<'-free prefixes irrelevant; + oracles on the implementation",
         "All three clauses are theorems about the model for all inputs: (a) is_xss = OR of the five context verdicts; (b) C13b_embed: the verdict of context 1/2/3/4 on s equals the data-state verdict on `<a ` ++ s, `<a b='` ++ s, `<a b=\"` ++ s, `<a b=\x60` ++ s (shift simulation of the tokenizer: a state over pre ++ s at offset >= |pre| and its twin over s take related steps; the two one-byte-back emissions and the offset-0 tests are handled by a position side condition that is shown to be self-maintaining); (c) C13c_prefix: prepending any '<'-free text does not change the data-state verdict. Tied to the code by per-context verdict correspondence and the same embeds / prefixes evaluated on the implementation.",
         "model hand-written, tied by correspondence"),
 "C14": (PROOF, "Coq theorem: Benign s -> is_sqli s = Ok (false, []) for all s; family computed from the regenerated table; + sampling on IsSQLi",
         "C14_benign_never_sqli: every input that is a single-space join of unsigned integers and identifiers [A-Za-z_][A-Za-z0-9_]* whose upper case is neither a non-fingerprint key of the keyword table nor a space-separated component of one (a boolean computed from the table regenerated from the source) is reported (false, \"\") by the model: exact lexing lemma (each item is one token n or 1), no folding rule fires on an {n,1} stream and merge finds no pair, no {n,1} string of length 1-5 is blacklisted (sweep), only the first pass runs. No length bound on items or input. The harness samples the same family (plus the e-mail / decimal / sentence shapes of the second clause, which are tests) on IsSQLi and compares with the model.",
         "second clause (e-mail, decimal, sentence shapes) tested only; model hand-written, tied by correspondence"),
 "C15": (PROOF, "Coq theorem: no '<' and no '=' in s -> is_xss s = Ok false, all contexts; + exhaustive short strings on IsXSS",
         "C15_no_lt_no_eq_not_xss: for every byte string without '<' and '=' the model answers false in each of the five contexts: the reachable tokenizer states stay inside {data, eof, attribute-side states}, the emitted token types inside {text, attribute name, tag close, self close} plus one attribute value as the first token of a quoted context, judged with attribute type none; classify never fires on those. Tied to the code by exhaustive short strings (depth 3, thorough 4) over the HTML alphabet minus the two bytes and the html streams with the two bytes removed.",
         "model hand-written, tied by correspondence"),
 "C16": (PROOF, "Coq theorem over the tokenizer model (all 22 lexers) + token record oracle + correspondence",
         "C16_tokens_faithful_ordered_progress: for every byte string and every flag value the model's scan returns (no panic, no fuel exhaustion), the records tile the input from 0, every step consumes at least one byte, each token lies inside its step, its value is exactly the input slice at its offset (length <= 31), its class is a documented class character, and the scan ends at |input|; proved by induction over the tokenizer loop from a per-lexer specification of all 22 lexers plus parseStringCore, with byte sweeps over the regenerated dispatch table and keyword map. The model is tied to the code by the full-width token-record correspondence (six modes) and the same clauses are evaluated directly on the implementation's records.",
         "model hand-written, tied by correspondence"),
 "C17": (PROOF, "Coq theorems: token bounds/order/count for all inputs and contexts; every construct = first-terminator oracle; + oracles on the implementation + correspondence",
         "C17a: for every input and each of the five contexts the model's token run returns, every token lies inside the input, consecutive tokens do not overlap and are in order, and there are at most |s|+1 tokens (sharp). C17b: for each delimited construct (<% %>, CDATA, <!-- --> with NULs after the first dash and -!> , <! >, <? >, doctype, the three quoted values both at offset 0 and inside a tag) one step from the construct's state emits exactly the bytes up to the first terminator given by a declarative oracle (first_match / comment_end, with iff characterisations: a terminator there and none earlier), resumes right after it in the data state (quoted values: after-attribute-value state), or runs to end of input and stops; plus the dispatch after <! . Tied to the code by the token-stream correspondence in five contexts and Go-side oracles with decoy terminators.",
         "model hand-written, tied by correspondence"),
 "C18": (PROOF, "Coq theorems: every literal form = declarative first-real-terminator oracle; + oracle on the implementation + correspondence",
         "Spec/StringSpec.v defines the oracle structurally (find_close: first delimiter not preceded by an odd backslash run counted inside the literal and not doubled; first_match: first occurrence of a byte sequence). Properties/C18.v proves, as equations `model call = Ok (oracle value)` for all inputs: parseStringCore's loop and result (token offset, clipped length, value, open/close marks, resume offset, unterminated case) for every delimiter other than backslash; strings.Index = first_match; and the callers: real quote, virtual quote of a quoted context, back-tick, @'..', e'..'/n'..', u&'..', q'X..Y' and nq'X..Y' for every delimiter byte >= 33 including 0x80-0xFF, $$..$$ and $tag$..$tag$. The model is tied to the code by the token-record correspondence and the same oracle evaluated in Go on the implementation's tokens (all 223 q-delimiters, decoy terminators, tail duplication).",
         "not stated: @@'..' / @`..` (same code path), fall-backs to parseWord when an opener is not recognised; model hand-written, tied by correspondence"),
 "C19": (PROOF, "Coq theorems: decoder = declarative reference, every encoding decodes, every obfuscated spelling of every scheme is black; + decoder / URL predicate correspondence",
         "Properties/C19.v proves for all inputs: htmlDecodeByteAt is total, consumes 1..|s| bytes, never exceeds 0x1000FF and equals the declarative reference decode_ref (Spec/DecodeSpec.v); every encoding of a value (literal, &#D with leading zeros and optional ';', &#xH / &#XH likewise) followed by a compatible byte decodes to that value and its own length; a reference whose value exceeds 0x1000FF yields ('&',1); htmlEncodeStartsWith / isBlackURL are total; and for every scheme of the regenerated scheme list and every dangerous full name (javascript:, vbscript:, data:, view-source:), every junk prefix (bytes <= 0x20 or >= 0x7F) and every obfuscated spelling (each character in either case, in any encoding, with encoded or literal NUL / LF interleaved and leading decoded bytes <= 0x20) isBlackURL is true; classify turns that into a positive verdict for a URL-typed attribute value. Tied to the code by decoder / URL-predicate / verdict correspondence on exhaustive short strings and random encodings.",
         "which attribute names are URL-bearing is data (regenerated list); that the tokenizer hands the value over as one attr-value token is C07/C17; model hand-written, tied by correspondence"),
 "C20": (PROOF, "Coq vm_compute sweeps over the tables regenerated from source (exhaustive)",
         "Every clause (upper-case keys of 1-31 bytes, fingerprint key shape, class alphabet, function names >= 2 bytes, XSS names upper-case and NUL-free, keys distinct, every pinned baseline entry present with the same class) is a boolean sweep over the tables translated from /repo on this run, decided by vm_compute in the Coq kernel and lifted with forallb_forall. Finite and exhaustive. Offending entries are named by an entry-wise evaluation; the translator's view is compared with the tables of the running package.",
         "translator is the tie"),
}

def main():
    checks = []
    for pid in sorted(CLAIMS):
        cat, tech, text, note = CLAIMS[pid]
        checks.append({
            "property_id": pid,
            "quick_cmd": "bin/check %s --tier quick" % pid,
            "thorough_cmd": "bin/check %s --tier thorough" % pid,
            "evidence_file": "/verif/evidence/%s.json" % pid,
            "replay_cmd_template": "bin/check %s --replay {path}" % pid,
            "engine": "coq+harness",
            "level_claimed": {"category": cat, "text": text, "design_ref": "DESIGN.md 7.%d" % int(pid[1:])},
            "level_note": note + "; trusted base: Coq 8.16.1 kernel + vm_compute, translator tools/gen, hand model tied by correspondence, ExtrOcamlBasic extraction, harness and hooks (DESIGN.md 8)",
            "technique": tech,
        })
    m = {
        "version": 1,
        "setup_cmd": "bin/setup",
        "hooks": {"guard": "verif", "enable": "go build -tags verif (harness module replaces the package by /repo)",
                  "baseline_off_cmd": "cd /repo && GOFLAGS=-mod=mod GOPROXY=off go test -json -vet=off -count=1 -timeout 25m ./...",
                  "source_commits": ["69076a3", "b12c98b"], "add_only": True},
        "engines": [
            {"name": "coq", "path": "/verif/coq", "serves_properties": sorted(CLAIMS), "kind_free_text": "Coq 8.16.1 development: generated tables/dispatch/constants/effects, Go-mirroring executable model, property theorems"},
            {"name": "harness", "path": "/verif/tools/harness", "serves_properties": sorted(CLAIMS), "kind_free_text": "Go correspondence harness (-tags verif) against the extracted OCaml model; direct property oracles; race and cost modes"},
            {"name": "translator", "path": "/verif/tools/gen", "serves_properties": ["C20", "C05", "C03", "C04", "C06", "C07"], "kind_free_text": "Go source -> Coq translator for data, dispatch, constants and the package-variable effect summary"},
        ],
        "checks": checks,
        "notes": "All 20 properties are claimed. C05 and C09 are partial by nature (runtime / wall-clock). See DESIGN.md.",
        "not_applicable": [],
    }
    json.dump(m, open("/verif/MANIFEST.json", "w"), indent=1)
    print("MANIFEST.json written:", len(checks), "checks")

if __name__ == "__main__":
    main()
