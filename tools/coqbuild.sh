#!/bin/sh
# regenerate _CoqProject/Makefile when the file set changed, then make (full .vo)
cd /verif && python3 - <<'PY'
import sys; sys.path.insert(0,'/verif/bin')
import common
ok, log, failed = common.coq_make()
print(log[-3000:] if not ok else "coq: ok")
if failed: print("FAILED:", failed)
PY
