module verif/instr

go 1.22
