#!/bin/sh
# Self-test of verif/instr: builds everything under a temp dir in /tmp, checks that the
# instrumented copy gives the same verdicts as the original package, prints operation
# counts for four input families at two sizes, and removes the temp dir.
# Usage: selftest.sh [repo-dir]   (default /repo)
set -eu
export GOFLAGS=-mod=mod GOPROXY=off GOSUMDB=off GOTOOLCHAIN=local
REPO=${1:-/repo}
HERE=$(cd "$(dirname "$0")" && pwd)
T=$(mktemp -d /tmp/instr-selftest.XXXXXX)
trap 'rm -rf "$T"' EXIT

echo "== build"
(cd "$HERE" && go vet . && go build -o "$T/instr" .)
"$T/instr" -repo "$REPO" -out "$T/w" 2>"$T/instr.log"
grep -c . "$T/instr.log" | sed 's/^/instr log lines: /'
grep 'NOT CHARGED' "$T/instr.log" || echo "no NOT CHARGED warnings"
(cd "$T/w/lib" && go build ./... && go vet ./...)
(cd "$T/w/run" && go build -o "$T/run" .)
(cd "$T/w/ref" && go build -o "$T/ref" .)
if [ -n "$(cd "$REPO" && git status --porcelain 2>/dev/null | grep -v '^??' || true)" ]; then
	echo "note: $REPO has local modifications (not caused by this script unless listed below)"
fi

echo "== verdict equality (one-line --INPUT-- sections of $REPO/tests/*.txt + 200 generated strings)"
for f in "$REPO"/tests/*.txt; do
	awk '/^--INPUT--/{f=1;next} /^--EXPECTED--/{f=0} f{n++;l=$0} END{if(n==1)print l}' "$f"
done | while IFS= read -r line; do
	h=$(printf '%s' "$line" | od -An -v -tx1 | tr -d ' \n')
	echo "${h:--}"
done >"$T/inputs.hex"
# 200 deterministic pseudo-random strings over an alphabet of SQL/HTML punctuation
awk 'BEGIN{split("27 22 60 2d 2d 2f 2a 20 31 61 3c 3e 3d 26 23 78 3b 25 5c 28 29 40 24 5b 5d 6f 6e 00 0a 53 45 4c 2c 7c 2b",a," ");
	s=12345; for(i=0;i<200;i++){n=1+(i%40);o="";for(j=0;j<n;j++){s=(s*1103515245+12345)%2147483648;o=o a[1+int(s/65536)%35]};print o}}' >>"$T/inputs.hex"
"$T/run" <"$T/inputs.hex" >"$T/out.run"
"$T/run" <"$T/inputs.hex" >"$T/out.run2"
"$T/ref" <"$T/inputs.hex" >"$T/out.ref"
cmp "$T/out.run" "$T/out.run2" && echo "ops are deterministic (two runs identical)"
awk '{print $1,$4,$5,$6}' "$T/out.run" >"$T/v.run"
awk '{print $1,$4,$5,$6}' "$T/out.ref" >"$T/v.ref"
N=$(wc -l <"$T/inputs.hex")
if cmp -s "$T/v.run" "$T/v.ref"; then
	echo "OK: $N inputs, verdicts and fingerprints identical;" \
		"$(awk '$4==1' "$T/v.run" | wc -l) sqli-positive, $(awk '$6==1' "$T/out.run" | wc -l) xss-positive"
else
	echo "FAIL: verdicts differ"; diff "$T/v.run" "$T/v.ref" | head -20; exit 1
fi

echo "== families (prefix + unit repeated to about n1=1000 and n2=4000 bytes; linear => ratio about 4)"
hex() { if [ -z "$1" ]; then printf -; else printf '%s' "$1" | od -An -v -tx1 | tr -d ' \n'; fi; }
fam() { printf '%s 1000 4000 %s\n' "$(hex "$2")" "$(hex "$1")"; }
{
	fam "" "'"
	fam "1" "div.1"
	fam "<!--" "-"
	fam "<a b='" "x"
} >"$T/fam.in"
printf '%-10s %-8s | %6s %9s %9s | %6s %9s %9s | %8s %8s\n' prefix unit len1 sqli_ops1 xss_ops1 len2 sqli_ops2 xss_ops2 sqli_x xss_x
"$T/run" -family <"$T/fam.in" | while read -r u p l1 s1 x1 sv1 xv1 l2 s2 x2 sv2 xv2 rs rx; do
	pu=$(printf '%s' "$p" | sed 's/^-$//' | xxd -r -p); uu=$(printf '%s' "$u" | xxd -r -p)
	printf '%-10s %-8s | %6s %9s %9s | %6s %9s %9s | %8s %8s\n' "$pu" "$uu" "$l1" "$s1" "$x1" "$l2" "$s2" "$x2" "$rs" "$rx"
	awk -v a="$rs" -v b="$rx" 'BEGIN{ if (a>4.5||b>4.5) { print "  WARNING: ratio above 4.5: super-linear growth?"} }'
done
echo "== done (temp dir removed)"
