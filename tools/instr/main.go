// Command instr copies a Go package to a scratch directory and rewrites it so
// that a package-level counter VerifOps counts elementary steps (function
// entries, loop iterations, bytes examined by string primitives).  See README.md.
package main

import (
	"bytes"
	"flag"
	"fmt"
	"go/ast"
	"go/build"
	"go/format"
	"go/importer"
	"go/parser"
	"go/token"
	"go/types"
	"os"
	"path/filepath"
	"reflect"
	"regexp"
	"sort"
	"strings"
)

func die(f string, a ...interface{}) {
	fmt.Fprintf(os.Stderr, "instr: FATAL: "+f+"\n", a...)
	os.Exit(1)
}

func must(err error) {
	if err != nil {
		die("%v", err)
	}
}

type rw struct {
	fset     *token.FileSet
	info     *types.Info
	pkg      *types.Package
	wrappers map[string]string // wrapper name -> source text
	imports  map[string]bool   // imports needed by ops_verif.go
	warns    []string
	counts   map[string]int
}

func main() {
	repo := flag.String("repo", "", "directory of the package to instrument")
	out := flag.String("out", "", "scratch directory (lib/, run/, ref/ are created inside)")
	flag.Parse()
	if *repo == "" || *out == "" {
		die("usage: instr -repo <pkgdir> -out <scratchdir>")
	}
	absRepo, err := filepath.Abs(*repo)
	must(err)
	ents, err := os.ReadDir(absRepo)
	must(err)
	fset := token.NewFileSet()
	var files []*ast.File
	var names []string
	for _, e := range ents {
		n := e.Name()
		if e.IsDir() || !strings.HasSuffix(n, ".go") || strings.HasSuffix(n, "_test.go") || n == "verif_hooks.go" || n == "ops_verif.go" {
			continue
		}
		if ok, err := build.Default.MatchFile(absRepo, n); err != nil || !ok {
			fmt.Fprintf(os.Stderr, "instr: warning: %s skipped (excluded by build constraints)\n", n)
			continue
		}
		f, err := parser.ParseFile(fset, filepath.Join(absRepo, n), nil, parser.ParseComments|parser.SkipObjectResolution)
		if err != nil {
			die("cannot parse %s: %v", n, err)
		}
		files, names = append(files, f), append(names, n)
	}
	if len(files) == 0 {
		die("no Go files in %s", absRepo)
	}
	modData, err := os.ReadFile(filepath.Join(absRepo, "go.mod"))
	must(err)
	m := regexp.MustCompile(`(?m)^module\s+(\S+)`).FindSubmatch(modData)
	if m == nil {
		die("no module line in go.mod")
	}
	modPath := string(m[1])

	info := &types.Info{Types: map[ast.Expr]types.TypeAndValue{}, Uses: map[*ast.Ident]types.Object{}, Selections: map[*ast.SelectorExpr]*types.Selection{}}
	var terrs []string
	conf := types.Config{Importer: importer.ForCompiler(fset, "source", nil), Error: func(err error) { terrs = append(terrs, err.Error()) }}
	pkg, _ := conf.Check(modPath, fset, files, info)
	if len(terrs) > 0 {
		die("type-check failed:\n  %s", strings.Join(terrs, "\n  "))
	}
	r := &rw{fset: fset, info: info, pkg: pkg, wrappers: map[string]string{}, imports: map[string]bool{}, counts: map[string]int{}}

	lib := filepath.Join(*out, "lib")
	must(os.MkdirAll(lib, 0o755))
	for i, f := range files {
		r.node(f)
		used := map[string]bool{} // imports that lost their last use are made blank
		ast.Inspect(f, func(n ast.Node) bool {
			if s, ok := n.(*ast.SelectorExpr); ok {
				if x, ok := s.X.(*ast.Ident); ok {
					used[x.Name] = true
				}
			}
			return true
		})
		for _, im := range f.Imports {
			base := strings.Trim(im.Path.Value, `"`)
			base = base[strings.LastIndex(base, "/")+1:]
			if im.Name == nil && !used[base] {
				im.Name = ast.NewIdent("_")
			}
		}
		var keep []*ast.CommentGroup // comments are dropped (new nodes have no positions) except the file header
		for _, c := range f.Comments {
			if c.End() < f.Package {
				keep = append(keep, c)
			}
		}
		f.Comments, f.Doc = keep, nil
		var buf bytes.Buffer
		must(format.Node(&buf, fset, f))
		src, err := format.Source(buf.Bytes())
		if err != nil {
			die("gofmt of rewritten %s failed: %v", names[i], err)
		}
		must(os.WriteFile(filepath.Join(lib, names[i]), src, 0o644))
	}
	must(os.WriteFile(filepath.Join(lib, "go.mod"), modData, 0o644))
	sum, sumErr := os.ReadFile(filepath.Join(absRepo, "go.sum"))
	if sumErr == nil {
		must(os.WriteFile(filepath.Join(lib, "go.sum"), sum, 0o644))
	}
	must(os.WriteFile(filepath.Join(lib, "ops_verif.go"), r.opsFile(files[0].Name.Name), 0o644))

	for _, d := range []struct{ dir, target, reset, get string }{
		{"run", "../lib", "lib.VerifResetOps()", "lib.VerifGetOps()"},
		{"ref", absRepo, "", "0"}, // same driver on the untouched package: ops are printed as 0
	} {
		dir := filepath.Join(*out, d.dir)
		must(os.MkdirAll(dir, 0o755))
		gomod := fmt.Sprintf("module verifrun\n\ngo 1.17\n\nrequire %s v0.0.0\n\nreplace %s => %s\n", modPath, modPath, d.target)
		must(os.WriteFile(filepath.Join(dir, "go.mod"), []byte(gomod), 0o644))
		if sumErr == nil {
			must(os.WriteFile(filepath.Join(dir, "go.sum"), sum, 0o644))
		}
		src := strings.NewReplacer("MODPATH", modPath, "RESET", d.reset, "GET", d.get).Replace(driverSrc)
		fsrc, err := format.Source([]byte(src))
		must(err)
		must(os.WriteFile(filepath.Join(dir, "main.go"), fsrc, 0o644))
	}

	var ks []string
	for k := range r.counts {
		ks = append(ks, k)
	}
	sort.Strings(ks)
	for _, k := range ks {
		fmt.Fprintf(os.Stderr, "instr: %-28s %d\n", k, r.counts[k])
	}
	for _, w := range r.warns {
		fmt.Fprintf(os.Stderr, "instr: NOT CHARGED: %s\n", w)
	}
}

// ---------------------------------------------------------------- traversal

var (
	exprT = reflect.TypeOf((*ast.Expr)(nil)).Elem()
	nodeT = reflect.TypeOf((*ast.Node)(nil)).Elem()
)

func tick() ast.Stmt { return &ast.IncDecStmt{X: ast.NewIdent("VerifOps"), Tok: token.INC} }

func (r *rw) warn(n ast.Node, f string, a ...interface{}) {
	p := r.fset.Position(n.Pos())
	r.warns = append(r.warns, fmt.Sprintf("%s:%d: %s", filepath.Base(p.Filename), p.Line, fmt.Sprintf(f, a...)))
}

// node rewrites everything below n in place (n itself is not an expression to replace).
func (r *rw) node(n ast.Node) {
	var post func()
	switch n := n.(type) {
	case *ast.FuncDecl:
		if n.Body != nil {
			n.Body.List = append([]ast.Stmt{tick()}, n.Body.List...)
			r.counts["function entries"]++
		}
	case *ast.ForStmt:
		n.Body.List = append([]ast.Stmt{tick()}, n.Body.List...)
		r.counts["loops"]++
	case *ast.RangeStmt:
		n.Body.List = append([]ast.Stmt{tick()}, n.Body.List...)
		r.counts["loops"]++
	case *ast.SwitchStmt:
		if t := r.typ(n.Tag); n.Tag != nil && isStr(t) {
			cases := 0
			for _, c := range n.Body.List {
				cases += len(c.(*ast.CaseClause).List)
			}
			post = func() {
				n.Tag = r.conv(call("verifSwitchStr", r.str(n.Tag, t), lit(cases)), t, types.Typ[types.String])
				r.counts["string switches"]++
			}
		}
	case *ast.AssignStmt:
		if t := r.typ(n.Lhs[0]); n.Tok == token.ADD_ASSIGN && isStr(t) {
			tr := r.typ(n.Rhs[0])
			post = func() {
				if pure(n.Lhs[0]) {
					n.Tok = token.ASSIGN
					n.Rhs[0] = r.conv(call("verifConcat", r.str(n.Lhs[0], t), r.str(n.Rhs[0], tr)), t, types.Typ[types.String])
				} else {
					r.warn(n, "string += with impure left side: only the right operand is charged")
					n.Rhs[0] = r.conv(call("verifStr", r.str(n.Rhs[0], tr)), tr, types.Typ[types.String])
				}
				r.counts["string concatenations"]++
			}
		}
	}
	v := reflect.ValueOf(n).Elem()
	for i := 0; i < v.NumField(); i++ {
		r.field(v.Field(i))
	}
	if post != nil {
		post()
	}
}

func (r *rw) field(f reflect.Value) {
	switch f.Kind() {
	case reflect.Slice:
		if f.Type().Elem().Kind() == reflect.Interface || f.Type().Elem().Kind() == reflect.Ptr {
			for i := 0; i < f.Len(); i++ {
				r.field(f.Index(i))
			}
		}
	case reflect.Interface, reflect.Ptr:
		if f.IsNil() || !f.Type().Implements(nodeT) {
			return // *ast.Object, *ast.Scope, interface{} ...
		}
		switch x := f.Interface().(type) {
		case *ast.Ident, *ast.BasicLit, *ast.CommentGroup, *ast.Comment:
			if f.Type() != exprT {
				return // names, labels, tags
			}
		case *ast.CallExpr:
			if f.Type() != exprT { // go/defer: the call must stay a call
				c, ok := r.expr(x).(*ast.CallExpr)
				if !ok {
					die("%s: rewritten go/defer operand is not a call", r.fset.Position(x.Pos()))
				}
				f.Set(reflect.ValueOf(c))
				return
			}
		}
		if f.Type() == exprT {
			f.Set(reflect.ValueOf(r.expr(f.Interface().(ast.Expr))))
		} else {
			r.node(f.Interface().(ast.Node))
		}
	}
}

// expr rewrites e bottom-up and returns its replacement.  The decision is taken on the
// original node (which has type information), the replacement is built after the children.
func (r *rw) expr(e ast.Expr) ast.Expr {
	if fl, ok := e.(*ast.FuncLit); ok {
		fl.Body.List = append([]ast.Stmt{tick()}, fl.Body.List...)
		r.counts["function entries"]++
	}
	post := r.plan(e)
	r.node(e)
	if post != nil {
		return post()
	}
	return e
}

// ---------------------------------------------------------------- helpers

func (r *rw) typ(e ast.Expr) types.Type {
	if e == nil {
		return nil
	}
	return r.info.Types[e].Type
}

func basic(t types.Type, flag types.BasicInfo) bool {
	if t == nil {
		return false
	}
	b, ok := t.Underlying().(*types.Basic)
	return ok && b.Info()&flag != 0
}

func isStr(t types.Type) bool { return basic(t, types.IsString) }

// sliceOf reports whether t is a slice whose element type has underlying basic kind k.
func sliceOf(t types.Type, k types.BasicKind) bool {
	if t == nil {
		return false
	}
	s, ok := t.Underlying().(*types.Slice)
	if !ok {
		return false
	}
	b, ok := s.Elem().Underlying().(*types.Basic)
	return ok && b.Kind() == k
}

func call(fn string, args ...ast.Expr) ast.Expr {
	return &ast.CallExpr{Fun: ast.NewIdent(fn), Args: args}
}
func lit(n int) ast.Expr        { return &ast.BasicLit{Kind: token.INT, Value: fmt.Sprint(n)} }
func paren(e ast.Expr) ast.Expr { return &ast.ParenExpr{X: e} }

func (r *rw) qual(p *types.Package) string {
	if p == r.pkg {
		return ""
	}
	return p.Name()
}

// conv converts e (of type from) to type to; nothing is emitted when the types are identical
// or e is an untyped constant.
func (r *rw) conv(e ast.Expr, to, from types.Type) ast.Expr {
	if basic(to, types.IsUntyped) || basic(from, types.IsUntyped) || types.Identical(to, from) {
		return e
	}
	te, err := parser.ParseExpr(types.TypeString(to, r.qual))
	must(err)
	if _, ok := te.(*ast.Ident); !ok {
		te = paren(te)
	}
	return &ast.CallExpr{Fun: te, Args: []ast.Expr{e}}
}

func (r *rw) str(e ast.Expr, t types.Type) ast.Expr { return r.conv(e, types.Typ[types.String], t) }

func pure(e ast.Expr) bool {
	switch e := e.(type) {
	case *ast.Ident, *ast.BasicLit:
		return true
	case *ast.SelectorExpr:
		return pure(e.X)
	case *ast.ParenExpr:
		return pure(e.X)
	case *ast.StarExpr:
		return pure(e.X)
	case *ast.IndexExpr:
		return pure(e.X) && pure(e.Index)
	}
	return false
}

// ---------------------------------------------------------------- rewriting rules

func (r *rw) plan(e ast.Expr) func() ast.Expr {
	if tv, ok := r.info.Types[e]; ok && tv.Value != nil {
		return nil // constant expression: evaluated by the compiler
	}
	S := types.Typ[types.String]
	switch e := e.(type) {
	case *ast.BinaryExpr:
		tx, ty := r.typ(e.X), r.typ(e.Y)
		if isStr(tx) && isStr(ty) {
			args := func() (ast.Expr, ast.Expr) { return r.str(e.X, tx), r.str(e.Y, ty) }
			switch e.Op {
			case token.EQL, token.NEQ:
				return func() ast.Expr {
					r.counts["string comparisons"]++
					x, y := args()
					if e.Op == token.NEQ {
						return paren(&ast.UnaryExpr{Op: token.NOT, X: call("verifStrEq", x, y)})
					}
					return call("verifStrEq", x, y)
				}
			case token.LSS, token.LEQ, token.GTR, token.GEQ:
				return func() ast.Expr {
					r.counts["string comparisons"]++
					x, y := args()
					return paren(&ast.BinaryExpr{X: call("verifStrCmp", x, y), Op: e.Op, Y: lit(0)})
				}
			case token.ADD:
				te := r.typ(e)
				return func() ast.Expr {
					r.counts["string concatenations"]++
					x, y := args()
					return r.conv(call("verifConcat", x, y), te, S)
				}
			}
		} else if (e.Op == token.EQL || e.Op == token.NEQ) && tx != nil && ty != nil {
			for _, t := range []types.Type{tx, ty} {
				switch t.Underlying().(type) {
				case *types.Struct, *types.Array, *types.Interface:
					r.warn(e, "comparison of composite/interface values (%s)", t)
					return nil
				}
			}
		}
	case *ast.IndexExpr:
		if r.typ(e.X) == nil {
			return nil
		}
		if mt, ok := r.typ(e.X).Underlying().(*types.Map); ok && isStr(mt.Key()) {
			tk := r.typ(e.Index)
			return func() ast.Expr {
				r.counts["string-keyed map look-ups"]++
				e.Index = r.conv(call("verifStr", r.str(e.Index, tk)), mt.Key(), S)
				return e
			}
		}
	case *ast.CallExpr:
		return r.planCall(e)
	}
	return nil
}

func (r *rw) planCall(e *ast.CallExpr) func() ast.Expr {
	fun := ast.Unparen(e.Fun)
	// conversions string <-> []byte / []rune copy their operand
	if tv := r.info.Types[e.Fun]; tv.IsType() && len(e.Args) == 1 {
		to, from := tv.Type, r.typ(e.Args[0])
		byteish := func(t types.Type) bool { return sliceOf(t, types.Byte) || sliceOf(t, types.Rune) }
		if r.info.Types[e.Args[0]].Value == nil && (isStr(to) && byteish(from) || byteish(to) && isStr(from)) {
			return func() ast.Expr {
				r.counts["string/slice conversions"]++
				e.Args[0] = r.chargeArg(e.Args[0], from)
				return e
			}
		}
		return nil
	}
	if id, ok := fun.(*ast.Ident); ok {
		if _, ok := r.info.Uses[id].(*types.Builtin); ok {
			switch id.Name {
			case "copy":
				return func() ast.Expr { r.counts["copy"]++; return call("verifN", e) }
			case "append":
				if e.Ellipsis.IsValid() {
					last := len(e.Args) - 1
					t := r.typ(e.Args[last])
					if !isStr(t) && !sliceOf(t, types.Byte) {
						r.warn(e, "append(x, y...) with y of type %s", t)
						return nil
					}
					return func() ast.Expr { r.counts["append spread"]++; e.Args[last] = r.chargeArg(e.Args[last], t); return e }
				}
			case "delete":
				if t := r.typ(e.Args[1]); isStr(t) {
					return func() ast.Expr { e.Args[1] = r.chargeArg(e.Args[1], t); return e }
				}
			case "make":
				last := len(e.Args) - 1
				if last >= 1 && r.info.Types[e.Args[last]].Value == nil {
					if !types.Identical(r.typ(e.Args[last]), types.Typ[types.Int]) {
						r.warn(e, "make with non-constant size of type %s", r.typ(e.Args[last]))
						return nil
					}
					return func() ast.Expr { r.counts["make"]++; e.Args[last] = call("verifN", e.Args[last]); return e }
				}
			}
		}
		return nil
	}
	sel, ok := fun.(*ast.SelectorExpr)
	if !ok {
		return nil
	}
	// pkg.Func(...) of another package
	if x, ok := sel.X.(*ast.Ident); ok {
		if _, ok := r.info.Uses[x].(*types.PkgName); ok {
			fn, ok := r.info.Uses[sel.Sel].(*types.Func)
			if !ok {
				return nil
			}
			name := r.wrapper(e, fn)
			if name == "" {
				return nil
			}
			return func() ast.Expr {
				r.counts["library calls ("+fn.Pkg().Name()+"."+fn.Name()+")"]++
				e.Fun = ast.NewIdent(name)
				return e
			}
		}
	}
	// method of a type of another package (strings.Builder, bytes.Buffer, ...)
	if s := r.info.Selections[sel]; s != nil && s.Kind() == types.MethodVal && s.Obj().Pkg() != nil && s.Obj().Pkg() != r.pkg {
		var ts []types.Type
		for _, a := range e.Args {
			ts = append(ts, r.typ(a))
		}
		full := s.Obj().(*types.Func).FullName()
		return func() ast.Expr {
			charged := false
			for i, t := range ts {
				if !e.Ellipsis.IsValid() && (isStr(t) || sliceOf(t, types.Byte)) {
					e.Args[i], charged = r.chargeArg(e.Args[i], t), true
				}
			}
			if !charged && len(ts) > 0 && (types.Identical(ts[0], types.Typ[types.Byte]) || types.Identical(ts[0], types.Typ[types.Rune])) {
				e.Args[0], charged = r.conv(call("verifUnit", r.conv(e.Args[0], types.Typ[types.Rune], ts[0])), ts[0], types.Typ[types.Rune]), true
			}
			if !charged && len(ts) > 0 && types.Identical(ts[0], types.Typ[types.Int]) { // Grow(n), Truncate(n), ...
				e.Args[0], charged = call("verifN", e.Args[0]), true
			}
			if charged {
				r.counts["library method calls"]++
			} else if full != "(*strings.Builder).String" && full != "(*strings.Builder).Len" {
				r.warn(e, "method call %s assumed O(1)", full)
			}
			return e
		}
	}
	return nil
}

// chargeArg wraps a string / []byte / []rune valued expression by an identity function
// that charges len+1.
func (r *rw) chargeArg(a ast.Expr, t types.Type) ast.Expr {
	fn, base := "verifStr", types.Type(types.Typ[types.String])
	if sliceOf(t, types.Byte) {
		fn, base = "verifBytes", types.NewSlice(types.Typ[types.Byte])
	} else if sliceOf(t, types.Rune) {
		fn, base = "verifRunes", types.NewSlice(types.Typ[types.Rune])
	}
	return r.conv(call(fn, r.conv(a, base, t)), t, base)
}

// wrapper returns the name of a generated function with the signature of fn that charges
// for the bytes fn examines and then calls fn ("" if fn needs no wrapper).
func (r *rw) wrapper(at ast.Node, fn *types.Func) string {
	sig := fn.Type().(*types.Signature)
	pk := fn.Pkg().Name()
	name := "verif_" + pk + "_" + fn.Name()
	if _, ok := r.wrappers[name]; ok {
		return name
	}
	if tmpl, ok := special[fn.Name()]; ok && (fn.Pkg().Path() == "strings" || fn.Pkg().Path() == "bytes") {
		T := map[string]string{"strings": "string", "bytes": "[]byte"}[pk]
		r.imports[fn.Pkg().Path()] = true
		r.wrappers[name] = strings.NewReplacer("NAME", name, "PKG", pk, "T", T).Replace(tmpl)
		return name
	}
	if sig.TypeParams() != nil {
		r.warn(at, "call of generic function %s", fn.FullName())
		return ""
	}
	q := func(p *types.Package) string { r.imports[p.Path()] = true; return p.Name() }
	ts := func(t types.Type) string { // "any" needs go1.18 in the copied go.mod
		return regexp.MustCompile(`\bany\b`).ReplaceAllString(types.TypeString(t, q), "interface{}")
	}
	var params, args, charge, results, rets []string
	lenOf := func(v string, t types.Type, isParam bool) {
		switch {
		case isStr(t), sliceOf(t, types.Byte):
			charge = append(charge, "VerifOps += int64(len("+v+"))")
		case sliceOf(t, types.String):
			charge = append(charge, "for _, x := range "+v+" { VerifOps += int64(len(x)) + 1 }")
		default:
			switch t.Underlying().(type) {
			case *types.Slice, *types.Map, *types.Interface, *types.Chan:
				if isParam {
					r.warn(at, "%s: argument of type %s is not charged", fn.FullName(), t)
				}
			}
		}
	}
	for i := 0; i < sig.Results().Len(); i++ {
		results = append(results, ts(sig.Results().At(i).Type()))
		rets = append(rets, fmt.Sprintf("r%d", i))
	}
	for i := 0; i < sig.Params().Len(); i++ {
		t, v := sig.Params().At(i).Type(), fmt.Sprintf("p%d", i)
		if sig.Variadic() && i == sig.Params().Len()-1 {
			params = append(params, v+" ..."+ts(t.(*types.Slice).Elem()))
			args = append(args, v+"...")
		} else {
			params = append(params, v+" "+ts(t))
			args = append(args, v)
		}
		lenOf(v, t, true)
	}
	for i := range results {
		lenOf(rets[i], sig.Results().At(i).Type(), false)
	}
	if len(charge) == 0 {
		return "" // no string-like argument or result: assumed O(1)
	}
	r.imports[fn.Pkg().Path()] = true
	body := fmt.Sprintf("%s.%s(%s)", pk, fn.Name(), strings.Join(args, ", "))
	if len(rets) > 0 {
		body = strings.Join(rets, ", ") + " := " + body
	}
	r.wrappers[name] = fmt.Sprintf("func %s(%s) (%s) {\n%s\nVerifOps++\n%s\nreturn %s\n}\n", name, strings.Join(params, ", "),
		strings.Join(results, ", "), body, strings.Join(charge, "\n"), strings.Join(rets, ", "))
	return name
}

// Exact charges for the searching primitives (T is string or []byte).
var special = map[string]string{
	"IndexByte": "func NAME(s T, c byte) int {\nr := PKG.IndexByte(s, c)\nif r < 0 { VerifOps += int64(len(s)) + 1 } else { VerifOps += int64(r) + 1 }\nreturn r\n}\n",
	"Index":     "func NAME(s, sep T) int {\nr := PKG.Index(s, sep)\nif r < 0 { VerifOps += int64(len(s)+len(sep)) + 1 } else { VerifOps += int64(r+len(sep)) + 1 }\nreturn r\n}\n",
	"Contains":  "func NAME(s, sep T) bool {\nr := PKG.Index(s, sep)\nif r < 0 { VerifOps += int64(len(s)+len(sep)) + 1 } else { VerifOps += int64(r+len(sep)) + 1 }\nreturn r >= 0\n}\n",
	"HasPrefix": "func NAME(s, p T) bool {\nVerifOps += int64(len(p)) + 1\nreturn PKG.HasPrefix(s, p)\n}\n",
	"HasSuffix": "func NAME(s, p T) bool {\nVerifOps += int64(len(p)) + 1\nreturn PKG.HasSuffix(s, p)\n}\n",
}

func (r *rw) opsFile(pkgName string) []byte {
	var b strings.Builder
	b.WriteString("// Code generated by verif/instr. DO NOT EDIT.\n\npackage " + pkgName + "\n\n")
	var imps, names []string
	for p := range r.imports {
		imps = append(imps, p)
	}
	sort.Strings(imps)
	for _, p := range imps {
		fmt.Fprintf(&b, "import %q\n", p)
	}
	b.WriteString(opsFixed)
	for n := range r.wrappers {
		names = append(names, n)
	}
	sort.Strings(names)
	for _, n := range names {
		b.WriteString("\n" + r.wrappers[n])
	}
	src, err := format.Source([]byte(b.String()))
	if err != nil {
		die("generated ops_verif.go does not parse: %v\n%s", err, b.String())
	}
	return src
}

const opsFixed = `
// VerifOps counts elementary steps; see tools/instr/README.md for what is charged.
var VerifOps int64

func VerifResetOps()      { VerifOps = 0 }
func VerifGetOps() int64 { return VerifOps }

func verifMin(a, b int) int { if a < b { return a }; return b }

// verifStrEq charges the bytes a string comparison may have to look at.
func verifStrEq(a, b string) bool { VerifOps += int64(verifMin(len(a), len(b))) + 1; return a == b }

func verifStrCmp(a, b string) int {
	VerifOps += int64(verifMin(len(a), len(b))) + 1
	if a < b { return -1 }
	if a > b { return 1 }
	return 0
}

func verifConcat(a, b string) string { VerifOps += int64(len(a)+len(b)) + 1; return a + b }

// verifSwitchStr charges a switch on a string with n case expressions as n comparisons.
func verifSwitchStr(s string, n int) string { VerifOps += int64(n) * (int64(len(s)) + 1); return s }

func verifStr(s string) string   { VerifOps += int64(len(s)) + 1; return s }
func verifBytes(s []byte) []byte { VerifOps += int64(len(s)) + 1; return s }
func verifRunes(s []rune) []rune { VerifOps += int64(len(s)) + 1; return s }
func verifUnit(c rune) rune      { VerifOps++; return c }
func verifN(n int) int           { if n > 0 { VerifOps += int64(n) }; VerifOps++; return n }
`

// driverSrc is run/main.go (and ref/main.go with RESET/GET stubbed out).
const driverSrc = `// Code generated by verif/instr. DO NOT EDIT.
package main

import (
	"bufio"
	"encoding/hex"
	"flag"
	"fmt"
	"os"
	"strconv"
	"strings"

	lib "MODPATH"
)

func b2i(b bool) int { if b { return 1 }; return 0 }

func unhex(s string) string {
	if s == "-" { return "" }
	b, err := hex.DecodeString(s)
	if err != nil { fmt.Fprintln(os.Stderr, "bad hex:", s, err); os.Exit(2) }
	return string(b)
}

func enhex(s string) string { if s == "" { return "-" }; return hex.EncodeToString([]byte(s)) }

func measure(s string) (so, xo int64, sv bool, fp string, xv bool) {
	RESET
	sv, fp = lib.IsSQLi(s)
	so = GET
	RESET
	xv = lib.IsXSS(s)
	xo = GET
	return
}

func main() {
	family := flag.Bool("family", false, "lines are: <hex-unit> <n1> <n2> <hex-prefix or ->")
	flag.Parse()
	in := bufio.NewScanner(os.Stdin)
	in.Buffer(make([]byte, 1<<20), 1<<28)
	out := bufio.NewWriter(os.Stdout)
	defer out.Flush()
	for in.Scan() {
		f := strings.Fields(in.Text())
		if len(f) == 0 { continue }
		if !*family {
			so, xo, sv, fp, xv := measure(unhex(f[0]))
			fmt.Fprintf(out, "%s %d %d %d %s %d\n", f[0], so, xo, b2i(sv), enhex(fp), b2i(xv))
			continue
		}
		if len(f) != 4 { fmt.Fprintln(os.Stderr, "bad family line:", in.Text()); os.Exit(2) }
		unit, prefix := unhex(f[0]), unhex(f[3])
		if unit == "" { fmt.Fprintln(os.Stderr, "empty unit"); os.Exit(2) }
		fmt.Fprintf(out, "%s %s", f[0], f[3])
		var ops [2][2]int64
		for i := 0; i < 2; i++ {
			n, err := strconv.Atoi(f[1+i])
			if err != nil { fmt.Fprintln(os.Stderr, "bad size:", f[1+i]); os.Exit(2) }
			reps := (n - len(prefix)) / len(unit)
			if reps < 0 { reps = 0 }
			s := prefix + strings.Repeat(unit, reps)
			so, xo, sv, _, xv := measure(s)
			ops[i] = [2]int64{so, xo}
			fmt.Fprintf(out, " %d %d %d %d %d", len(s), so, xo, b2i(sv), b2i(xv))
		}
		fmt.Fprintf(out, " %.3f %.3f\n", float64(ops[1][0])/float64(ops[0][0]), float64(ops[1][1])/float64(ops[0][1]))
	}
	if err := in.Err(); err != nil { fmt.Fprintln(os.Stderr, err); os.Exit(2) }
}
`
