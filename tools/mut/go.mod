module verif/mut

go 1.23
