// mut: enumerate single-site source mutations of the library's non-test Go files.
// Output: one JSON object per line {id, file, start, end, repl, desc}; the driver
// (tools/mutcampaign.py) splices repl over bytes [start,end) of file in a scratch copy.
package main

import (
	"encoding/json"
	"fmt"
	"go/ast"
	"go/parser"
	"go/token"
	"os"
	"path/filepath"
	"strconv"
	"strings"
)

type mutation struct {
	ID    int    `json:"id"`
	File  string `json:"file"`
	Start int    `json:"start"`
	End   int    `json:"end"`
	Repl  string `json:"repl"`
	Desc  string `json:"desc"`
	Line  int    `json:"line"`
	Func  string `json:"func"`
}

var swaps = map[token.Token][]token.Token{
	token.LSS: {token.LEQ, token.GEQ}, token.LEQ: {token.LSS, token.GTR}, token.GTR: {token.GEQ, token.LEQ}, token.GEQ: {token.GTR, token.LSS},
	token.EQL: {token.NEQ}, token.NEQ: {token.EQL}, token.LAND: {token.LOR}, token.LOR: {token.LAND},
	token.ADD: {token.SUB}, token.SUB: {token.ADD}, token.AND: {token.OR}, token.OR: {token.AND},
}

func main() {
	repo := os.Args[1]
	files := os.Args[2:]
	id := 0
	enc := json.NewEncoder(os.Stdout)
	for _, name := range files {
		path := filepath.Join(repo, name)
		src, err := os.ReadFile(path)
		if err != nil {
			fmt.Fprintln(os.Stderr, err)
			os.Exit(2)
		}
		fset := token.NewFileSet()
		f, err := parser.ParseFile(fset, path, src, 0)
		if err != nil {
			fmt.Fprintln(os.Stderr, err)
			os.Exit(2)
		}
		off := func(p token.Pos) int { return fset.Position(p).Offset }
		emit := func(fn string, start, end token.Pos, repl, desc string) {
			id++
			enc.Encode(mutation{ID: id, File: name, Start: off(start), End: off(end), Repl: repl, Desc: desc, Line: fset.Position(start).Line, Func: fn})
		}
		for _, d := range f.Decls {
			fn := "(decl)"
			if fd, ok := d.(*ast.FuncDecl); ok {
				fn = fd.Name.Name
			}
			ast.Inspect(d, func(n ast.Node) bool {
				switch x := n.(type) {
				case *ast.BinaryExpr:
					for _, t := range swaps[x.Op] {
						emit(fn, x.OpPos, x.OpPos+token.Pos(len(x.Op.String())), t.String(), fmt.Sprintf("%s -> %s", x.Op, t))
					}
				case *ast.BasicLit:
					switch x.Kind {
					case token.INT:
						if v, err := strconv.ParseInt(x.Value, 0, 64); err == nil {
							emit(fn, x.Pos(), x.End(), strconv.FormatInt(v+1, 10), fmt.Sprintf("%s -> %d", x.Value, v+1))
							if v > 0 {
								emit(fn, x.Pos(), x.End(), strconv.FormatInt(v-1, 10), fmt.Sprintf("%s -> %d", x.Value, v-1))
							}
						}
					case token.CHAR:
						if c, _, _, err := strconv.UnquoteChar(x.Value[1:len(x.Value)-1], '\''); err == nil && c < 0x7f {
							emit(fn, x.Pos(), x.End(), strconv.QuoteRune(c+1), fmt.Sprintf("%s -> %q", x.Value, c+1))
						}
					case token.STRING:
						if s, err := strconv.Unquote(x.Value); err == nil && len(s) > 0 && len(s) < 40 {
							emit(fn, x.Pos(), x.End(), strconv.Quote(s[:len(s)-1]), fmt.Sprintf("%s -> drop last byte", x.Value))
						}
					}
				case *ast.IfStmt:
					emit(fn, x.Cond.Pos(), x.Cond.End(), "!("+string(src[off(x.Cond.Pos()):off(x.Cond.End())])+")", "negate if condition")
				case *ast.ForStmt:
					if x.Cond != nil {
						emit(fn, x.Cond.Pos(), x.Cond.End(), "("+string(src[off(x.Cond.Pos()):off(x.Cond.End())])+") && false", "loop never entered")
					}
				case *ast.ReturnStmt:
					for _, r := range x.Results {
						if idt, ok := r.(*ast.Ident); ok && (idt.Name == "true" || idt.Name == "false") {
							nv := "true"
							if idt.Name == "true" {
								nv = "false"
							}
							emit(fn, idt.Pos(), idt.End(), nv, "return "+idt.Name+" -> "+nv)
						}
					}
				case *ast.BlockStmt:
					for _, st := range x.List {
						switch st.(type) {
						case *ast.AssignStmt, *ast.IncDecStmt, *ast.ExprStmt, *ast.BranchStmt:
							text := string(src[off(st.Pos()):off(st.End())])
							if strings.Contains(text, "\n") && len(text) > 300 {
								continue
							}
							emit(fn, st.Pos(), st.End(), "{}", "delete statement: "+strings.SplitN(text, "\n", 2)[0])
						}
					}
				case *ast.CaseClause:
					for _, st := range x.Body {
						switch st.(type) {
						case *ast.AssignStmt, *ast.IncDecStmt, *ast.ExprStmt, *ast.BranchStmt:
							text := string(src[off(st.Pos()):off(st.End())])
							emit(fn, st.Pos(), st.End(), "{}", "delete statement: "+strings.SplitN(text, "\n", 2)[0])
						}
					}
					if len(x.List) > 1 {
						// drop one alternative of a multi-value case
						for i, e := range x.List {
							if i == 0 {
								emit(fn, e.Pos(), x.List[1].Pos(), "", "drop case alternative "+string(src[off(e.Pos()):off(e.End())]))
							} else {
								emit(fn, x.List[i-1].End(), e.End(), "", "drop case alternative "+string(src[off(e.Pos()):off(e.End())]))
							}
						}
					}
				}
				return true
			})
		}
	}
}
