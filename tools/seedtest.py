#!/usr/bin/env python3
"""tools/seedtest.py <seed-id> [props...] — confirm a seeded change and run checks against it.

Takes /verif/seeded/<seed-id>/{patch.diff,demo_test.go}.
 1. In a scratch worktree of /repo: confirms that the change compiles (with and without -tags verif),
    the pinned suite still passes, and the demo fails with / passes without the change.
 2. Runs the quick checks of the given properties against the change.  By default this is done on an
    isolated copy (VERIF_ROOT=/tmp/vseed_<id>, REPO_ROOT=/tmp/rseed_<id>: a copy of /verif with its build
    output and a worktree of /repo with the patch applied), so that /repo and the shared Coq build are
    not disturbed while proofs are being developed; with --in-place the patch is applied to /repo itself
    (git -C /repo apply), the registered commands are run from /verif, and /repo is restored afterwards.
Results are written to /verif/seeded/<seed-id>/meta.json ("confirmed", "checks")."""
import json, os, subprocess, sys, time, shutil

ENV = dict(os.environ, GOFLAGS="-mod=mod", GOPROXY="off", GOSUMDB="off", GOTOOLCHAIN="local")


def sh(cmd, cwd=None, timeout=3600, env=None):
    p = subprocess.run(cmd, shell=True, cwd=cwd, env=env or ENV, stdout=subprocess.PIPE, stderr=subprocess.STDOUT, text=True, errors="replace", timeout=timeout)
    return p.returncode, p.stdout


def confirm(sid, d, meta):
    wt = "/tmp/seedconfirm_" + sid
    sh("git -C /repo worktree remove --force %s" % wt)
    rc, out = sh("git -C /repo worktree add -q --detach %s HEAD" % wt)
    assert rc == 0, out
    try:
        shutil.copy(d + "/demo_test.go", wt + "/seeded_demo_test.go")
        rc0, o0 = sh("go test -count=1 -run 'TestSeededDemo$' .", cwd=wt)
        rc, out = sh("git apply %s/patch.diff" % d, cwd=wt)
        assert rc == 0, "patch does not apply: " + out
        rcb, ob = sh("go build ./... && go build -tags verif ./...", cwd=wt)
        rc1, o1 = sh("go test -count=1 -run 'TestSeededDemo$' .", cwd=wt)
        os.remove(wt + "/seeded_demo_test.go")
        rcs, os_ = sh("go test -count=1 ./... 2>&1 | tail -3", cwd=wt)
        suite_ok = rcs == 0 and "ok" in os_ and "FAIL" not in os_
        meta["confirmed"] = {"demo_passes_without_change": rc0 == 0, "builds_with_change": rcb == 0, "demo_fails_with_change": rc1 != 0,
                             "pinned_suite_passes_with_change": suite_ok, "at": time.strftime("%Y-%m-%dT%H:%M:%SZ", time.gmtime())}
        print("confirm:", meta["confirmed"])
    finally:
        sh("git -C /repo worktree remove --force %s" % wt)
    c = meta["confirmed"]
    return c["demo_passes_without_change"] and c["builds_with_change"] and c["demo_fails_with_change"] and c["pinned_suite_passes_with_change"]


def run_checks(root, props, env):
    results = {}
    for p in props:
        t0 = time.time()
        rc, out = sh("cd %s && bin/check %s --tier quick" % (root, p), timeout=7200, env=env)
        vio = [l for l in out.splitlines() if l.startswith("VIOLATION")]
        results[p] = {"exit": rc, "violation_lines": vio[:3], "wall_s": round(time.time() - t0, 1)}
        if rc not in (0, 1) or (rc == 1 and not vio):
            results[p]["output_tail"] = out[-600:]
        print(p, "exit", rc, vio[:2])
        for l in vio[:1]:
            path = l.split("replay=")[1].split()[0]
            if os.path.exists(path):
                r = json.load(open(path))
                results[p]["replay"] = {k: r.get(k) for k in ("kind", "input", "detail", "theorems", "files_that_failed") if r.get(k) is not None}
    return results


def main():
    args = [a for a in sys.argv[1:] if not a.startswith("--")]
    in_place = "--in-place" in sys.argv
    sid = args[0]
    props = args[1:]
    d = "/verif/seeded/" + sid
    meta_path = d + "/meta.json"
    meta = json.load(open(meta_path)) if os.path.exists(meta_path) else {}
    ok = confirm(sid, d, meta)
    json.dump(meta, open(meta_path, "w"), indent=1)
    if not props or not ok:
        return
    results = meta.get("checks", {})
    if in_place:
        rc, out = sh("git -C /repo status --porcelain")
        assert out.strip() == "", "/repo is not clean: " + out
        rc, out = sh("git -C /repo apply %s/patch.diff" % d)
        assert rc == 0, out
        try:
            results.update(run_checks("/verif", props, ENV))
        finally:
            sh("git -C /repo checkout -- . && git -C /repo clean -fdq")
        for p in props:   # restore the evidence of the clean tree
            sh("cd /verif && bin/check %s --tier quick" % p, timeout=7200)
    else:
        vroot, rroot = "/tmp/vseed_" + sid, "/tmp/rseed_" + sid
        sh("git -C /repo worktree remove --force %s; rm -rf %s" % (rroot, vroot))
        try:
            rc, out = sh("git -C /repo worktree add -q --detach %s HEAD && git -C %s apply %s/patch.diff" % (rroot, rroot, d))
            assert rc == 0, out
            rc, out = sh("rsync -a --exclude .git --exclude evidence/replay --exclude 'build/.lock' /verif/ %s/" % vroot)
            assert rc == 0, out
            sh("sed -i 's#=> /repo#=> %s#' %s/tools/harness/go.mod" % (rroot, vroot))
            # work in progress that is not committed (untracked sources) is not part of the machinery under test
            # tracked proof / tool files that are being edited (uncommitted) are taken from HEAD, with a
            # time stamp older than their compiled file so that nothing is rebuilt because of them
            rc, out = sh("git -C /verif diff --name-only HEAD -- coq tools bin ocaml grammar corpus")
            for f in out.split():
                q = vroot + "/" + f
                rc2, _ = sh("git -C /verif show HEAD:%s > %s" % (f, q))
                vo = q[:-2] + ".vo" if q.endswith(".v") else None
                if rc2 == 0 and vo and os.path.exists(vo):
                    t = os.path.getmtime(vo) - 2
                    os.utime(q, (t, t))
            rc, out = sh("git -C /verif ls-files --others --exclude-standard")
            for f in out.split():
                for ext in ("", "o", "ok", "os"):   # X.v, X.vo, X.vok, X.vos
                    q = vroot + "/" + f + ext
                    if f.endswith(".v") and os.path.exists(q):
                        os.remove(q)
                if not f.endswith(".v") and os.path.exists(vroot + "/" + f):
                    os.remove(vroot + "/" + f)
            env = dict(ENV, VERIF_ROOT=vroot, REPO_ROOT=rroot)
            results.update(run_checks(vroot, props, env))
            for p in results:
                results[p]["mode"] = "isolated copy (VERIF_ROOT/REPO_ROOT)"
        finally:
            sh("git -C /repo worktree remove --force %s; rm -rf %s" % (rroot, vroot))
    meta["checks"] = results
    json.dump(meta, open(meta_path, "w"), indent=1)


if __name__ == "__main__":
    main()
