#!/usr/bin/env python3
"""tools/seedtest.py <seed-id> [props...] — confirm a seeded change and run checks against it.

Takes /verif/seeded/<seed-id>/{patch.diff,demo_test.go}; in a scratch worktree confirms that the
change compiles, the pinned suite still passes and the demo fails with / passes without the change;
then applies the patch to /repo, runs the quick checks of the given properties, and restores /repo.
Results are appended to /verif/seeded/<seed-id>/meta.json."""
import json, os, subprocess, sys, time, shutil

ENV = dict(os.environ, GOFLAGS="-mod=mod", GOPROXY="off", GOSUMDB="off", GOTOOLCHAIN="local")


def sh(cmd, cwd=None, timeout=3600):
    p = subprocess.run(cmd, shell=True, cwd=cwd, env=ENV, stdout=subprocess.PIPE, stderr=subprocess.STDOUT, text=True, errors="replace", timeout=timeout)
    return p.returncode, p.stdout


def main():
    sid = sys.argv[1]
    props = sys.argv[2:]
    d = "/verif/seeded/" + sid
    meta_path = d + "/meta.json"
    meta = json.load(open(meta_path)) if os.path.exists(meta_path) else {}
    wt = "/tmp/seedconfirm_" + sid
    sh("git -C /repo worktree remove --force %s" % wt)
    rc, out = sh("git -C /repo worktree add -q --detach %s HEAD" % wt)
    assert rc == 0, out
    try:
        shutil.copy(d + "/demo_test.go", wt + "/seeded_demo_test.go")
        rc0, o0 = sh("go test -count=1 -run 'TestSeededDemo$' .", cwd=wt)
        rc, out = sh("git apply %s/patch.diff" % d, cwd=wt)
        assert rc == 0, "patch does not apply: " + out
        rcb, ob = sh("go build ./... && go build -tags verif ./...", cwd=wt)
        rc1, o1 = sh("go test -count=1 -run 'TestSeededDemo$' .", cwd=wt)
        os.remove(wt + "/seeded_demo_test.go")
        rcs, os_ = sh("go test -count=1 ./... 2>&1 | tail -3", cwd=wt)
        suite_ok = rcs == 0 and "ok" in os_ and "FAIL" not in os_
        meta["confirmed"] = {"demo_passes_without_change": rc0 == 0, "builds_with_change": rcb == 0, "demo_fails_with_change": rc1 != 0,
                             "pinned_suite_passes_with_change": suite_ok, "at": time.strftime("%Y-%m-%dT%H:%M:%SZ", time.gmtime())}
        print("confirm:", meta["confirmed"])
    finally:
        sh("git -C /repo worktree remove --force %s" % wt)
    if not props:
        json.dump(meta, open(meta_path, "w"), indent=1)
        return
    # run the checks against /repo with the change applied, then restore
    rc, out = sh("git -C /repo status --porcelain")
    assert out.strip() == "", "/repo is not clean: " + out
    rc, out = sh("git -C /repo apply %s/patch.diff" % d)
    assert rc == 0, out
    results = meta.get("checks", {})
    try:
        for p in props:
            t0 = time.time()
            rc, out = sh("cd /verif && bin/check %s --tier quick" % p, timeout=7200)
            vio = [l for l in out.splitlines() if l.startswith("VIOLATION")]
            results[p] = {"exit": rc, "violation_lines": vio[:3], "wall_s": round(time.time() - t0, 1)}
            print(p, "exit", rc, vio[:2])
            for l in vio[:1]:
                path = l.split("replay=")[1].split()[0]
                if os.path.exists(path):
                    r = json.load(open(path))
                    results[p]["replay"] = {k: r.get(k) for k in ("kind", "input", "detail")}
    finally:
        sh("git -C /repo checkout -- . && git -C /repo clean -fdq")
    meta["checks"] = results
    json.dump(meta, open(meta_path, "w"), indent=1)
    # restore evidence of the clean tree for the touched properties
    for p in props:
        sh("cd /verif && bin/check %s --tier quick" % p, timeout=7200)


if __name__ == "__main__":
    main()
