#!/usr/bin/env python3
"""Shared build steps for /verif/bin/check and /verif/bin/setup."""
import fcntl, hashlib, json, os, re, subprocess, sys, time

VERIF = os.environ.get("VERIF_ROOT", "/verif")   # overridable for self-tests on a scratch copy
REPO = os.environ.get("REPO_ROOT", "/repo")
BUILD = VERIF + "/build"
COQ = VERIF + "/coq"
GOENV = dict(os.environ, GOFLAGS="-mod=mod", GOPROXY="off", GOSUMDB="off", GOTOOLCHAIN="local",
             CGO_ENABLED=os.environ.get("CGO_ENABLED", "1"))
NPROC = str(os.cpu_count() or 4)


def sh(cmd, cwd=None, env=None, timeout=None, check=False):
    p = subprocess.run(cmd, cwd=cwd, env=env, shell=isinstance(cmd, str), stdout=subprocess.PIPE,
                       stderr=subprocess.STDOUT, timeout=timeout, text=True, errors="replace")
    if check and p.returncode != 0:
        sys.stderr.write(p.stdout)
        raise SystemExit("command failed: %s" % (cmd,))
    return p.returncode, p.stdout


class Lock:
    def __enter__(self):
        os.makedirs(BUILD, exist_ok=True)
        self.f = open(BUILD + "/.lock", "w")
        fcntl.flock(self.f, fcntl.LOCK_EX)
        return self

    def __exit__(self, *a):
        fcntl.flock(self.f, fcntl.LOCK_UN)
        self.f.close()


def newer(src_paths, target):
    if not os.path.exists(target):
        return True
    t = os.path.getmtime(target)
    for p in src_paths:
        if os.path.isdir(p):
            for root, _, files in os.walk(p):
                for fn in files:
                    if os.path.getmtime(os.path.join(root, fn)) > t:
                        return True
        elif os.path.exists(p) and os.path.getmtime(p) > t:
            return True
    return False


def build_gen():
    if newer([VERIF + "/tools/gen"], BUILD + "/gen"):
        rc, out = sh(["go", "build", "-o", BUILD + "/gen", "."], cwd=VERIF + "/tools/gen", env=GOENV, timeout=600)
        if rc != 0:
            return False, out
    return True, ""


def run_gen():
    """Regenerate coq/gen/*.v, build/dict.txt from /repo's working tree."""
    ok, out = build_gen()
    if not ok:
        return False, "translator build failed:\n" + out
    st = BUILD + "/gen_status.json"
    if os.path.exists(st):
        os.remove(st)
    # the running package's own tables (through the read-only accessors): the translator
    # reads the source literals and falls back on these, section by section, where the
    # package assembles a table in a way it cannot follow
    rt = BUILD + "/runtime_tables.txt"
    if os.path.exists(rt):
        os.remove(rt)
    hok, _ = build_harness()
    if hok:
        rc, dump = sh([BUILD + "/harness", "tables"], timeout=300)
        if rc == 0 and dump.strip():
            open(rt, "w").write(dump)
    rc, out = sh([BUILD + "/gen", "-repo", REPO, "-out", COQ + "/gen", "-dict", BUILD + "/dict.txt", "-dump", BUILD + "/tables.txt", "-status", st]
                 + (["-runtime", rt] if os.path.exists(rt) else []), timeout=300)
    return rc == 0, out


def gen_fallbacks():
    try:
        return json.load(open(BUILD + "/gen_status.json")).get("fallback", {})
    except Exception:
        return {}


# which properties rest on which generated item (an item the translator cannot produce leaves
# the previous file in place: only the properties that rest on it are affected)
GEN_ITEM_SERVES = {
    "effects": {"C05"},
    "dispatch": {"C01", "C03", "C06", "C08", "C09", "C10", "C12", "C14", "C16", "C18", "C20"},
    "dump": {"C20", "C04"},
    "dict": set(),
}


def gen_failure_affects(pid):
    """After a failed run_gen: does the failure concern property pid?  (Unknown items, or no status
    file: every property.)"""
    try:
        failed = json.load(open(BUILD + "/gen_status.json")).get("failed", {})
    except Exception:
        return True
    if not failed:
        return True
    for item in failed:
        if item not in GEN_ITEM_SERVES or pid in GEN_ITEM_SERVES[item]:
            return True
    return False


def coq_files():
    """_CoqProject order: every .v under coq/theories (topologically sorted by coq_makefile itself)."""
    files = []
    # proof files that are not yet committed (work in progress, possibly looping) are
    # not part of the development: leave them out of the build
    wip = set()
    try:
        out = subprocess.run(["git", "-C", VERIF, "ls-files", "--others", "--exclude-standard", "--", "coq/theories"],
                             stdout=subprocess.PIPE, stderr=subprocess.DEVNULL, timeout=30).stdout.decode()
        wip = set(os.path.normpath(os.path.join(VERIF, l)) for l in out.splitlines() if l.endswith(".v"))
    except Exception:
        pass
    for root, _, fns in os.walk(COQ + "/theories"):
        for fn in sorted(fns):
            if fn.endswith(".v") and os.path.normpath(os.path.join(root, fn)) not in wip:
                files.append(os.path.relpath(os.path.join(root, fn), COQ))
    for root, _, fns in os.walk(COQ + "/gen"):
        for fn in sorted(fns):
            if fn.endswith(".v"):
                files.append(os.path.relpath(os.path.join(root, fn), COQ))
    return sorted(files)


def write_coqproject():
    lines = ["-Q theories LI", "-Q gen LIGen", "-arg -w", "-arg -notation-overridden,-deprecated"] + coq_files()
    content = "\n".join(lines) + "\n"
    p = COQ + "/_CoqProject"
    old = open(p).read() if os.path.exists(p) else ""
    if old != content:
        open(p, "w").write(content)
        return True
    return False


def coq_make(timeout=5400):
    """Full .vo build (make -k so that one broken proof does not hide the others).
    Returns (ok, log, failed_files)."""
    changed = write_coqproject()
    if changed or not os.path.exists(COQ + "/Makefile"):
        sh("coq_makefile -f _CoqProject -o Makefile", cwd=COQ, timeout=120)
    rc, out = sh("timeout %d make -k -j%s 2>&1" % (timeout, NPROC), cwd=COQ, timeout=timeout + 60)
    failed = sorted(set(re.findall(r"^File \"\./([^\"]+\.v)\", line \d+.*?\n(?:.*\n)*?Error", out, re.M)))
    # robust: any .v whose .vo is missing or older than the .v
    missing = []
    for f in coq_files():
        vo = COQ + "/" + f[:-2] + ".vo"
        if not os.path.exists(vo) or os.path.getmtime(vo) < os.path.getmtime(COQ + "/" + f):
            missing.append(f)
    return rc == 0 and not missing, out, sorted(set(failed) | set(missing))


MODEL_VS = ["Prelude", "Base", "SqliLex", "SqliFold", "Html5", "Xss"]


def model_ok():
    return all(os.path.exists("%s/theories/%s.vo" % (COQ, m)) for m in MODEL_VS)


def build_driver():
    """Re-extract and rebuild the OCaml driver when the model's .vo files changed."""
    os.makedirs(BUILD + "/extract", exist_ok=True)
    deps = ["%s/theories/%s.vo" % (COQ, m) for m in MODEL_VS] + [COQ + "/gen/Tables.vo", COQ + "/extract/Extract.v", VERIF + "/ocaml/driver.ml"]
    deps += [COQ + "/theories/Cost/%s.vo" % m for m in ("CostBase", "CostHtml5", "CostXss", "CostSqliLex", "CostSqliFold")]
    if not newer(deps, BUILD + "/driver"):
        return True, ""
    rc, out = sh("timeout 1200 coqc -Q %s/theories LI -Q %s/gen LIGen %s/extract/Extract.v" % (COQ, COQ, COQ), cwd=BUILD + "/extract", timeout=1300)
    if rc != 0:
        return False, "extraction failed:\n" + out
    sh("cp %s/ocaml/driver.ml %s/extract/driver.ml" % (VERIF, BUILD))
    rc, out = sh("timeout 1200 ocamlfind ocamlopt -O2 -w -a model.mli model.ml driver.ml -o %s/driver.new && mv %s/driver.new %s/driver" % (BUILD, BUILD, BUILD), cwd=BUILD + "/extract", timeout=1300)
    if rc != 0:
        return False, "driver build failed:\n" + out
    return True, ""


def build_harness(race=False):
    # the harness links /repo with -tags verif: always rebuilt from the current working tree (go's cache makes it cheap)
    if not os.path.exists(VERIF + "/tools/harness/go.sum") and os.path.exists(REPO + "/go.sum"):
        sh("cp %s/go.sum %s/tools/harness/go.sum" % (REPO, VERIF))
    target = BUILD + ("/harness-race" if race else "/harness")
    cmd = ["go", "build", "-tags", "verif"] + (["-race"] if race else []) + ["-o", target, "."]
    rc, out = sh(cmd, cwd=VERIF + "/tools/harness", env=GOENV, timeout=900)
    return rc == 0, out


def gen_grammar_coq():
    """coq/theories/Grammar/C03Core_*.v and C04Core_*.v from the frozen grammar and the hook-free lists."""
    rc, out = sh([sys.executable, VERIF + "/tools/mkgrammar.py"], timeout=300)
    return rc == 0, out
