(* Html5: Go-mirroring model of html5.go (the HTML5 tokenizer state machine).
   Definitions only.

   h.tokenStart is always a suffix h.s[off:]; the model stores `off` and
   performs the same checked slice.  Function-valued h.state is an
   enumeration.  Direct calls between state functions consume one unit of a
   call-depth budget (StackOverflow when exhausted). *)
From Coq Require Import List ZArith String Bool.
From Coq.Strings Require Import Byte.
From LI Require Import Prelude Base.
From LIGen Require Import Consts.
Import ListNotations.
Local Open Scope Z_scope.
Local Open Scope res_scope.

Inductive h5fn : Set :=
| SEOF | SData | STagOpen | SEndTagOpen | SMarkupDeclarationOpen
| SBogusComment | SBogusComment2 | SComment | SCData | SDoctype
| STagName | STagNameClose | SSelfClosingStartTag
| SBeforeAttributeName | SAttributeName | SAfterAttributeName
| SBeforeAttributeValue | SAttributeValueNoQuote
| SAttributeValueSingleQuote | SAttributeValueDoubleQuote | SAttributeValueBackQuote
| SAfterAttributeValueQuoted.

Record h5 := mkH5 {
  hs : bytes; hpos : Z; is_close : bool; hstate : h5fn;
  tok_off : Z; tok_len : Z; tok_type : Z }.

Definition hlen (h : h5) : Z := len (hs h).

Definition is_h5_white (ch : byte) : bool :=
  beq ch x0a || beq ch x09 || beq ch x0b || beq ch x0c || beq ch x0d || beq ch x20.

Definition is_skip_white (ch : byte) : bool :=
  beq ch x00 || beq ch x20 || beq ch x09 || beq ch x0a || beq ch x0b || beq ch x0c || beq ch x0d.

(* h.tokenStart = h.s[off:]; tokenLen; tokenType; pos; state *)
Definition emit (site : string) (h : h5) (off tlen ttype npos : Z) (nstate : h5fn) (close : bool)
  : res (bool * h5) :=
  _ <- drop site (hs h) off ;;
  Ok (true, mkH5 (hs h) npos close nstate off tlen ttype).

Definition with_pos (h : h5) (p : Z) : h5 :=
  mkH5 (hs h) p (is_close h) (hstate h) (tok_off h) (tok_len h) (tok_type h).
Definition with_state (h : h5) (f : h5fn) : h5 :=
  mkH5 (hs h) (hpos h) (is_close h) f (tok_off h) (tok_len h) (tok_type h).
Definition with_close (h : h5) (c : bool) : h5 :=
  mkH5 (hs h) (hpos h) c (hstate h) (tok_off h) (tok_len h) (tok_type h).

(* func (h *h5State) skipWhite() int : (character or byteEOF, state with advanced pos) *)
Definition skip_white (h : h5) : res (Z * h5) :=
  rest <- drop "skipWhite" (hs h) (hpos h) ;;
  let p := hpos h + span is_skip_white rest in
  if p <? hlen h then (ch <- get "skipWhite" (hs h) p ;; Ok (code ch, with_pos h p))
  else Ok (c_byte_eof, with_pos h p).

(* stateBogusComment2 loop; p is the running `pos` *)
Fixpoint bogus2_loop (fuel : nat) (h : h5) (p : Z) : res (bool * h5) :=
  match fuel with
  | O => OutOfFuel
  | S fuel' =>
      rest <- drop "stateBogusComment2:s[pos:]" (hs h) p ;;
      let idx := index_byte rest b_byte_percent in
      if (idx =? -1) || (hlen h <=? p + idx + 1) then
        emit "stateBogusComment2" h (hpos h) (hlen h - hpos h) c_html5_type_tag_comment (hlen h) SEOF (is_close h)
      else
        c <- get "stateBogusComment2:s[pos+index+1]" (hs h) (p + idx + 1) ;;
        if negb (beq c b_byte_gt) then bogus2_loop fuel' h (p + idx + 1)
        else
          emit "stateBogusComment2" h (hpos h) (p + idx - hpos h) c_html5_type_tag_comment
               (p + idx + 2) SData (is_close h)
  end.

(* stateComment loop *)
Fixpoint comment_loop (fuel : nat) (h : h5) (p : Z) : res (bool * h5) :=
  let eof := emit "stateComment" h (hpos h) (hlen h - hpos h) c_html5_type_tag_comment (hpos h) SEOF (is_close h) in
  match fuel with
  | O => OutOfFuel
  | S fuel' =>
      rest <- drop "stateComment:s[pos:]" (hs h) p ;;
      let idx := index_byte rest b_byte_dash in
      if (idx =? -1) || (hlen h <? p + idx + 3) then eof
      else
        (* offset := 1; for pos+index+offset < len && s[..] == 0 { offset++ } *)
        nulls <- drop "stateComment:nulls" (hs h) (p + idx + 1) ;;
        let offset := 1 + span (fun b => beq b x00) nulls in
        if p + idx + offset =? hlen h then eof
        else
          ch <- get "stateComment:s[pos+index+offset]" (hs h) (p + idx + offset) ;;
          if negb (beq ch b_byte_dash) && negb (beq ch b_byte_bang) then comment_loop fuel' h (p + idx + 1)
          else
            let offset := offset + 1 in
            if p + idx + offset =? hlen h then eof
            else
              c2 <- get "stateComment:s[pos+index+offset]" (hs h) (p + idx + offset) ;;
              if negb (beq c2 b_byte_gt) then comment_loop fuel' h (p + idx + 1)
              else
                let offset := offset + 1 in
                emit "stateComment" h (hpos h) (idx + p - hpos h) c_html5_type_tag_comment
                     (p + idx + offset) SData (is_close h)
  end.

(* stateCData loop *)
Fixpoint cdata_loop (fuel : nat) (h : h5) (p : Z) : res (bool * h5) :=
  match fuel with
  | O => OutOfFuel
  | S fuel' =>
      rest <- drop "stateCData:s[pos:]" (hs h) p ;;
      let idx := index_byte rest b_byte_right_b in
      if (idx =? -1) || (hlen h <? p + idx + 3) then
        emit "stateCData" h (hpos h) (hlen h - hpos h) c_html5_type_data_text (hpos h) SEOF (is_close h)
      else
        c1 <- get "stateCData:s[pos+index+1]" (hs h) (p + idx + 1) ;;
        c2 <- (if beq c1 b_byte_right_b then get "stateCData:s[pos+index+2]" (hs h) (p + idx + 2) else Ok x00) ;;
        if beq c1 b_byte_right_b && beq c2 b_byte_gt then
          emit "stateCData" h (hpos h) (p + idx - hpos h) c_html5_type_data_text (p + idx + 3) SData (is_close h)
        else cdata_loop fuel' h (p + idx + 1)
  end.

Definition is_letter (ch : byte) : bool :=
  ((97 <=? code ch) && (code ch <=? 122)) || ((65 <=? code ch) && (code ch <=? 90)).

(* the loop of stateBeforeAttributeName: returns either a final answer or the
   next function to call *)
Inductive ban_out := BanDone (r : bool * h5) | BanCall (f : h5fn) (h : h5).

Fixpoint before_attr_name_loop (fuel : nat) (h : h5) : res ban_out :=
  match fuel with
  | O => OutOfFuel
  | S fuel' =>
      if hpos h <? hlen h then
        '(ch, h) <- skip_white h ;;
        if ch =? c_byte_eof then Ok (BanDone (false, h))
        else if ch =? c_byte_slash then
          let h := with_pos h (hpos h + 1) in
          cont <- (if hpos h <? hlen h then
                     (c <- get "stateBeforeAttributeName" (hs h) (hpos h) ;; Ok (negb (beq c b_byte_gt)))
                   else Ok false) ;;
          if (cont : bool) then before_attr_name_loop fuel' h
          else Ok (BanCall SSelfClosingStartTag h)
        else if ch =? c_byte_gt then
          r <- emit "stateBeforeAttributeName" h (hpos h) 1 c_html5_type_tag_name_close (hpos h + 1) SData (is_close h) ;;
          Ok (BanDone r)
        else Ok (BanCall SAttributeName h)
      else Ok (BanDone (false, h))
  end.

Definition loop_fuel (h : h5) : nat := S (S (List.length (hs h))).

(* one call of the state function f.  depth bounds the nesting of direct calls. *)
Fixpoint h5_call (depth : nat) (f : h5fn) (h : h5) : res (bool * h5) :=
  match depth with
  | O => StackOverflow
  | S d =>
      let call := h5_call d in
      match f with
      | SEOF => Ok (false, h)

      | SBogusComment =>
          rest <- drop "stateBogusComment:s[pos:]" (hs h) (hpos h) ;;
          let idx := index_byte rest b_byte_gt in
          if idx =? -1 then
            emit "stateBogusComment" h (hpos h) (hlen h - hpos h) c_html5_type_tag_comment (hlen h) SEOF (is_close h)
          else
            emit "stateBogusComment" h (hpos h) idx c_html5_type_tag_comment (hpos h + idx + 1) SData (is_close h)

      | SBogusComment2 => bogus2_loop (loop_fuel h) h (hpos h)
      | SComment => comment_loop (loop_fuel h) h (hpos h)
      | SCData => cdata_loop (loop_fuel h) h (hpos h)

      | SDoctype =>
          rest <- drop "stateDoctype:s[pos:]" (hs h) (hpos h) ;;
          let idx := index_byte rest b_byte_gt in
          if idx =? -1 then
            emit "stateDoctype" h (hpos h) (hlen h - hpos h) c_html5_type_doc_type (hpos h) SEOF (is_close h)
          else
            emit "stateDoctype" h (hpos h) idx c_html5_type_doc_type (hpos h + idx + 1) SData (is_close h)

      | SMarkupDeclarationOpen =>
          let remaining := hlen h - hpos h in
          dt <- (if 7 <=? remaining then
                   (w <- slice "stateMarkupDeclarationOpen:doctype" (hs h) (hpos h) (hpos h + 7) ;;
                    Ok (to_lower_cmp (bs "doctype") w))
                 else Ok false) ;;
          if (dt : bool) then call SDoctype h
          else
            cd <- (if 7 <=? remaining then
                     (w <- slice "stateMarkupDeclarationOpen:cdata" (hs h) (hpos h) (hpos h + 7) ;;
                      Ok (bytes_eqb w (bs "[CDATA[")))
                   else Ok false) ;;
            if (cd : bool) then call SCData (with_pos h (hpos h + 7))
            else
              cm <- (if 2 <=? remaining then
                       (w <- slice "stateMarkupDeclarationOpen:--" (hs h) (hpos h) (hpos h + 2) ;;
                        Ok (bytes_eqb w (bs "--")))
                     else Ok false) ;;
              if (cm : bool) then call SComment (with_pos h (hpos h + 2))
              else call SBogusComment h

      | SSelfClosingStartTag =>
          if hlen h <=? hpos h then Ok (false, h)
          else
            ch <- get "stateSelfClosingStartTag" (hs h) (hpos h) ;;
            if beq ch b_byte_gt then
              emit "stateSelfClosingStartTag:s[pos-1:]" h (hpos h - 1) 2 c_html5_type_tag_name_self_close
                   (hpos h + 1) SData (is_close h)
            else call SBeforeAttributeName h

      | STagNameClose =>
          let np := hpos h + 1 in
          emit "stateTagNameClose" h (hpos h) 1 c_html5_type_tag_name_close np
               (if np <? hlen h then SData else SEOF) false

      | STagName =>
          rest <- drop "stateTagName" (hs h) (hpos h) ;;
          let p := hpos h + span (fun ch => negb (is_h5_white ch || beq ch b_byte_slash || beq ch b_byte_gt)) rest in
          if p <? hlen h then
            ch <- get "stateTagName" (hs h) p ;;
            if is_h5_white ch then
              emit "stateTagName" h (hpos h) (p - hpos h) c_html5_type_tag_name_open (p + 1) SBeforeAttributeName (is_close h)
            else if beq ch b_byte_slash then
              emit "stateTagName" h (hpos h) (p - hpos h) c_html5_type_tag_name_open (p + 1) SSelfClosingStartTag (is_close h)
            else (* '>' *)
              if is_close h then
                emit "stateTagName" h (hpos h) (p - hpos h) c_html5_type_tag_close (p + 1) SData false
              else
                emit "stateTagName" h (hpos h) (p - hpos h) c_html5_type_tag_name_open p STagNameClose false
          else
            emit "stateTagName" h (hpos h) (hlen h - hpos h) c_html5_type_tag_name_open (hpos h) SEOF (is_close h)

      | SEndTagOpen =>
          if hlen h <=? hpos h then Ok (false, h)
          else
            ch <- get "stateEndTagOpen" (hs h) (hpos h) ;;
            if beq ch b_byte_gt then call SData h
            else if is_letter ch then call STagName h
            else call SBogusComment (with_close h false)

      | STagOpen =>
          if hlen h <=? hpos h then Ok (false, h)
          else
            ch <- get "stateTagOpen" (hs h) (hpos h) ;;
            if beq ch b_byte_bang then call SMarkupDeclarationOpen (with_pos h (hpos h + 1))
            else if beq ch b_byte_slash then call SEndTagOpen (with_close (with_pos h (hpos h + 1)) true)
            else if beq ch b_byte_question then call SBogusComment (with_pos h (hpos h + 1))
            else if beq ch b_byte_percent then call SBogusComment2 (with_pos h (hpos h + 1))
            else if is_letter ch then call STagName h
            else if beq ch b_byte_null then call STagName h
            else if hpos h =? 0 then call SData h
            else
              emit "stateTagOpen:s[pos-1:]" h (hpos h - 1) 1 c_html5_type_data_text (hpos h) SData (is_close h)

      | SData =>
          rest <- drop "stateData:s[pos:]" (hs h) (hpos h) ;;
          let idx := index_byte rest b_byte_lt in
          if idx =? -1 then
            r <- emit "stateData" h (hpos h) (hlen h - hpos h) c_html5_type_data_text (hpos h) SEOF (is_close h) ;;
            if hlen h - hpos h =? 0 then Ok (false, snd r) else Ok r
          else
            r <- emit "stateData" h (hpos h) idx c_html5_type_data_text (hpos h + idx + 1) STagOpen (is_close h) ;;
            if idx =? 0 then call STagOpen (snd r) else Ok r

      | SAttributeValueNoQuote =>
          rest <- drop "stateAttributeValueNoQuote" (hs h) (hpos h) ;;
          let p := hpos h + span (fun ch => negb (is_h5_white ch || beq ch b_byte_gt)) rest in
          if p <? hlen h then
            ch <- get "stateAttributeValueNoQuote" (hs h) p ;;
            if is_h5_white ch then
              emit "stateAttributeValueNoQuote" h (hpos h) (p - hpos h) c_html5_type_attr_value (p + 1) SBeforeAttributeName (is_close h)
            else
              emit "stateAttributeValueNoQuote" h (hpos h) (p - hpos h) c_html5_type_attr_value p STagNameClose (is_close h)
          else
            emit "stateAttributeValueNoQuote" h (hpos h) (hlen h - hpos h) c_html5_type_attr_value (hpos h) SEOF (is_close h)

      | SBeforeAttributeValue =>
          '(ch, h) <- skip_white h ;;
          if ch =? c_byte_eof then Ok (false, with_state h SEOF)
          else if ch =? c_byte_double then call SAttributeValueDoubleQuote h
          else if ch =? c_byte_single then call SAttributeValueSingleQuote h
          else if ch =? c_byte_tick then call SAttributeValueBackQuote h
          else call SAttributeValueNoQuote h

      | SAfterAttributeName =>
          '(ch, h) <- skip_white h ;;
          if ch =? c_byte_eof then Ok (false, h)
          else if ch =? c_byte_slash then call SSelfClosingStartTag (with_pos h (hpos h + 1))
          else if ch =? c_byte_equals then call SBeforeAttributeValue (with_pos h (hpos h + 1))
          else if ch =? c_byte_gt then call STagNameClose h
          else call SAttributeName h

      | SAttributeName =>
          (* pos := h.pos+1; the loop `for pos < h.len` does not run when pos >= len *)
          rest <- (if hpos h + 1 <=? hlen h then drop "stateAttributeName:pos+1" (hs h) (hpos h + 1) else Ok []) ;;
          let p := hpos h + 1 + span (fun ch => negb (is_h5_white ch || beq ch b_byte_slash
                                                       || beq ch b_byte_equals || beq ch b_byte_gt)) rest in
          if p <? hlen h then
            ch <- get "stateAttributeName" (hs h) p ;;
            if is_h5_white ch then
              emit "stateAttributeName" h (hpos h) (p - hpos h) c_html5_type_attr_name (p + 1) SAfterAttributeName (is_close h)
            else if beq ch b_byte_slash then
              emit "stateAttributeName" h (hpos h) (p - hpos h) c_html5_type_attr_name (p + 1) SSelfClosingStartTag (is_close h)
            else if beq ch b_byte_equals then
              emit "stateAttributeName" h (hpos h) (p - hpos h) c_html5_type_attr_name (p + 1) SBeforeAttributeValue (is_close h)
            else
              emit "stateAttributeName" h (hpos h) (p - hpos h) c_html5_type_attr_name p STagNameClose (is_close h)
          else
            emit "stateAttributeName" h (hpos h) (hlen h - hpos h) c_html5_type_attr_name (hlen h) SEOF (is_close h)

      | SBeforeAttributeName =>
          r <- before_attr_name_loop (loop_fuel h) h ;;
          match r with
          | BanDone r => Ok r
          | BanCall f h => call f h
          end

      | SAfterAttributeValueQuoted =>
          if hlen h <=? hpos h then Ok (false, h)
          else
            ch <- get "stateAfterAttributeValueQuotedState" (hs h) (hpos h) ;;
            if is_h5_white ch then call SBeforeAttributeName (with_pos h (hpos h + 1))
            else if beq ch b_byte_slash then call SSelfClosingStartTag (with_pos h (hpos h + 1))
            else if beq ch b_byte_gt then
              emit "stateAfterAttributeValueQuotedState" h (hpos h) 1 c_html5_type_tag_name_close (hpos h + 1) SData (is_close h)
            else call SBeforeAttributeName h

      | SAttributeValueSingleQuote | SAttributeValueDoubleQuote | SAttributeValueBackQuote =>
          let q := match f with
                   | SAttributeValueSingleQuote => b_byte_single
                   | SAttributeValueDoubleQuote => b_byte_double
                   | _ => b_byte_tick
                   end in
          let h := if 0 <? hpos h then with_pos h (hpos h + 1) else h in
          rest <- drop "stateAttributeValueQuote:s[pos:]" (hs h) (hpos h) ;;
          let idx := index_byte rest q in
          if idx =? -1 then
            emit "stateAttributeValueQuote" h (hpos h) (hlen h - hpos h) c_html5_type_attr_value (hpos h) SEOF (is_close h)
          else
            emit "stateAttributeValueQuote" h (hpos h) idx c_html5_type_attr_value (hpos h + idx + 1)
                 SAfterAttributeValueQuoted (is_close h)
      end
  end.

Definition h5_depth : nat := 8.

(* h.init(input, flags) *)
Definition h5_init (s : bytes) (fl : Z) : h5 :=
  let st := if fl =? c_html5_flags_data_state then SData
            else if fl =? c_html5_flags_value_no_quote then SBeforeAttributeName
            else if fl =? c_html5_flags_value_single_quote then SAttributeValueSingleQuote
            else if fl =? c_html5_flags_value_double_quote then SAttributeValueDoubleQuote
            else if fl =? c_html5_flags_value_back_quote then SAttributeValueBackQuote
            else SEOF (* nil func in Go: never used with other flags *) in
  mkH5 s 0 false st 0 0 0.

(* h.next() *)
Definition h5_next (h : h5) : res (bool * h5) := h5_call h5_depth (hstate h) h.

Fixpoint h5_tokens_loop (fuel : nat) (h : h5) (acc : list (Z * Z * Z)) : res (list (Z * Z * Z)) :=
  match fuel with
  | O => OutOfFuel
  | S fuel' =>
      '(more, h) <- h5_next h ;;
      if (more : bool) then h5_tokens_loop fuel' h ((tok_type h, tok_off h, tok_len h) :: acc)
      else Ok (rev acc)
  end.

Definition h5_fuel (s : bytes) : nat := (2 * List.length s + 4)%nat.

Definition h5_tokens (s : bytes) (fl : Z) : res (list (Z * Z * Z)) :=
  h5_tokens_loop (h5_fuel s) (h5_init s fl) [].
