(* CiLex2: the two lexers that compare letters exactly next to a backslash or a
   dollar sign (parseBackSlash, parseMoney), in lock-step under the weaker
   exclusion plain2 of Spec/CiSpec.v (property C10, theorem C10_partial2). *)
From Coq Require Import List ZArith String Bool Lia ZifyBool.
From Coq.Strings Require Import Byte.
From LI Require Import Prelude Base SqliLex Proofs.BaseFacts Proofs.Wp Proofs.LexBase Proofs.LexSpec
  Spec.CiSpec Proofs.CiBase Proofs.CiLex.
From LIGen Require Import Tables Dispatch Consts.
Import ListNotations.
Local Open Scope Z_scope.

(* ---------- nowhere ---------- *)

Lemma no_qlit_nowhere s : no_qlit s = nowhere qlit_at s.
Proof. induction s as [|a s IH]; [reflexivity|]. cbn [no_qlit nowhere]. rewrite IH. reflexivity. Qed.

Lemma nowhere_nth2 (p : bytes -> bool) s : forall n a b, nowhere p s = true ->
  nth_error s n = Some a -> nth_error s (S n) = Some b -> exists tl, p (a :: b :: tl) = false.
Proof.
  induction s as [|x s IH]; intros n a b H Na Nb; [destruct n; discriminate|].
  cbn [nowhere] in H. apply andb_true_iff in H. destruct H as [H1 H2].
  destruct n as [|n].
  - cbn [nth_error] in Na, Nb. inversion Na; subst x.
    destruct s as [|y s]; [discriminate|]. cbn [nth_error] in Nb. inversion Nb; subst y.
    exists s. apply negb_true_iff. exact H1.
  - cbn [nth_error] in Na, Nb. eapply IH; eassumption.
Qed.

Lemma plain2_parts i : plain2 i = true ->
  nowhere bsn_at i = true /\ nowhere dollar_alpha_at i = true /\ no_qlit i = true.
Proof.
  unfold plain2. intros H. apply andb_true_iff in H. destruct H as [H H3].
  apply andb_true_iff in H. destruct H as [H1 H2]. rewrite no_qlit_nowhere. auto.
Qed.

Lemma nowhere_of_mem (p : bytes -> bool) c s :
  (forall l, p l = true -> exists tl, l = c :: tl) -> mem c s = false -> nowhere p s = true.
Proof.
  intros Hp. induction s as [|a s IH]; intros H; [reflexivity|].
  cbn [mem existsb] in H. apply orb_false_iff in H. destruct H as [H1 H2].
  cbn [nowhere]. rewrite (IH H2). destruct (p (a :: s)) eqn:E; [|reflexivity].
  destruct (Hp _ E) as [tl Etl]. inversion Etl; subst. rewrite beq_refl in H1. discriminate.
Qed.

(* the exclusion of C10_partial implies that of C10_partial2 *)
Lemma plain_plain2 s : plain s = true -> plain2 s = true.
Proof.
  intros H. destruct (plain_parts _ H) as (H1 & H2 & H3). unfold plain2.
  rewrite <- no_qlit_nowhere, H3.
  rewrite (nowhere_of_mem bsn_at x5c), (nowhere_of_mem dollar_alpha_at x24); try assumption; try reflexivity.
  - intros [|a [|b l]] E; cbn [dollar_alpha_at] in E; try discriminate.
    apply andb_true_iff in E. destruct E as [E _]. apply beq_eq in E. subst. eauto.
  - intros [|a [|b l]] E; cbn [bsn_at] in E; try discriminate.
    apply andb_true_iff in E. destruct E as [E _]. apply beq_eq in E. subst. eauto.
Qed.

(* ---------- parseBackSlash ---------- *)

Lemma parse_backslash_ci s s' t t' : st_ci s s' -> tok_ci t t' ->
  (forall c, nth_error (input s) (Z.to_nat (pos s + 1)) = Some c -> (beq c x4e || beq c x6e) = false) ->
  rel_res lex_ci (parse_backslash s t) (parse_backslash s' t').
Proof.
  revert s s' t t'. lex_start parse_backslash. intros HN. simp_rec. cbv beta zeta.
  apply rel_bind_if; [reflexivity| |]; intros C.
  - rel_hoist. rel_step.
    match goal with
    | K : nth_error _ _ = Some ?a, Hc : ceq ?a ?a' |- _ =>
        pose proof (HN _ K) as N1;
        pose proof N1 as N2;
        rewrite (ci_fun_ceq (fun b => beq b x4e || beq b x6e) a a' ltac:(ci_sweep) Hc) in N2;
        apply orb_false_iff in N1; apply orb_false_iff in N2;
        destruct N1 as [N1 _]; destruct N2 as [N2 _]
    end.
    cbn [bind]. rewrite N1, N2. rel_go.
  - cbn [bind]. rel_go.
Qed.

(* ---------- parseMoney ---------- *)

Lemma letters_nonalpha b :
  is_alpha b = false -> mem b (bs "abcdefghjiklmnopqrstuvwxyzABCDEFGHIJKLMNOPQRSTUVWXYZ") = false.
Proof.
  intros H.
  pose proof (byte_sweep (fun b => is_alpha b || negb (mem b (bs "abcdefghjiklmnopqrstuvwxyzABCDEFGHIJKLMNOPQRSTUVWXYZ")))
                         ltac:(vm_compute; reflexivity) b) as K.
  cbv beta in K. rewrite H in K. apply negb_true_iff. exact K.
Qed.

Lemma span_len_head_fails site (p : byte -> bool) l n c r :
  0 <= n -> nth_error l 0 = Some c -> p c = false -> span_len site p l n = Ok r -> r = 0.
Proof.
  intros Hn N Hc. unfold span_len. destruct (n <? 0) eqn:E; [lia|].
  destruct l as [|x l]; [discriminate|]. cbn in N. inversion N; subst x.
  destruct (Z.to_nat n); cbn [span_n]; [congruence|]. rewrite Hc. congruence.
Qed.

Lemma parse_money_ci s s' t t' : st_ci s s' -> tok_ci t t' -> 0 <= pos s ->
  (forall c, nth_error (input s) (Z.to_nat (pos s + 1)) = Some c -> is_alpha c = false) ->
  rel_res lex_ci (parse_money s t) (parse_money s' t').
Proof.
  revert s s' t t'. lex_start parse_money. intros Hp HN. simp_rec. cbv beta zeta.
  rel_step; [rel_go|].
  eapply rel_bind; [apply rel_drop_s; exact Hi|]. intros rest1 rest1' (Hr & Er & Rr). cv_norm Hr.
  destruct (str_len_spn rest1 (len i - p - 1) (bs "0123456789.,")) as [length| | |] eqn:EL; cbn [bind]; try reflexivity.
  rel_step; [|rel_go].
  rel_step.
  match goal with
  | K : nth_error _ _ = Some ?a |- _ => pose proof (HN _ K) as NA; pose proof K as NK
  end.
  same_byte.
  rel_step; [rel_go|].
  match goal with |- rel_res _ (bind ?m _) _ => destruct m as [xlen| | |] eqn:EX end; cbn [bind]; try reflexivity.
  assert (X0 : xlen = 0).
  { unfold str_len_spn in EX. eapply (span_len_head_fails _ _ _ _ a); [| | |exact EX].
    - lia.
    - rewrite nth_error_skipn. rewrite <- NK. f_equal. lia.
    - apply letters_nonalpha. exact NA. }
  subst xlen. cbn [Z.eqb]. rel_go.
Qed.

(* ---------- dispatch under plain2 ---------- *)

Lemma parser_ok_plain2 : parser_ok (fun i _ => plain2 i = true).
Proof.
  intros id s s' t t' ch Hs Ht G Hp N D. destruct (plain2_parts _ G) as (G1 & G2 & G3).
  pose proof (disp_ok_all ch) as K. unfold disp_ok in K. rewrite D in K.
  assert (HN : is_alpha ch = false -> head_nonalpha s).
  { intros A c Hc. rewrite N in Hc. inversion Hc; subst c. exact A. }
  assert (NX : forall c, nth_error (input s) (Z.to_nat (pos s + 1)) = Some c ->
                         nth_error (input s) (S (Z.to_nat (pos s))) = Some c).
  { intros c Hc. rewrite <- Hc. f_equal. lia. }
  destruct id; cbn [run_parser].
  - apply parse_white_ci; assumption.
  - apply parse_operator1_ci; assumption.
  - apply parse_operator2_ci; assumption.
  - apply parse_string_ci; try assumption. apply HN. apply negb_true_iff. exact K.
  - apply parse_hash_ci; assumption.
  - apply beq_eq in K. subst ch. apply parse_money_ci; try assumption.
    intros c Hc. destruct (nowhere_nth2 _ _ _ _ _ G2 N (NX _ Hc)) as [tl E].
    cbn [dollar_alpha_at] in E. rewrite beq_refl in E. exact E.
  - apply parse_byte_ci; try assumption. apply HN. apply negb_true_iff. exact K.
  - apply parse_dash_ci; assumption.
  - apply parse_number_ci; assumption.
  - apply parse_slash_ci; assumption.
  - apply parse_other_ci; assumption.
  - apply parse_var_ci; assumption.
  - apply parse_word_ci; assumption.
  - apply parse_bstring_ci; assumption.
  - apply parse_estring_ci; assumption.
  - apply parse_nqstring_ci; assumption.
  - apply parse_qstring_core_ci; try assumption. lia.
  - apply parse_ustring_ci; assumption.
  - apply parse_xstring_ci; assumption.
  - apply parse_bword_ci; assumption.
  - apply beq_eq in K. subst ch. apply parse_backslash_ci; try assumption.
    intros c Hc. destruct (nowhere_nth2 _ _ _ _ _ G1 N (NX _ Hc)) as [tl E].
    cbn [bsn_at] in E. rewrite beq_refl in E. exact E.
  - apply parse_tick_ci; assumption.
Qed.

(* ---------- plain2 is symmetric between the two inputs and closed under suffixes ---------- *)

Lemma nowhere_cv (p : bytes -> bool) :
  (forall l l', cv l l' -> p l' = p l) -> forall s s', cv s s' -> nowhere p s' = nowhere p s.
Proof.
  intros Hp s s' H. induction H as [|a a' s s' Ha H IH]; [reflexivity|].
  cbn [nowhere]. rewrite IH, (Hp (a :: s) (a' :: s')) by (constructor; assumption). reflexivity.
Qed.

Lemma bsn_at_cv l l' : cv l l' -> bsn_at l' = bsn_at l.
Proof.
  intros H. destruct H as [|a a' ? ? Ha H]; [reflexivity|].
  destruct H as [|b b' ? ? Hb H]; [reflexivity|]. cbn [bsn_at].
  rewrite (ceq_beq _ _ x5c Ha eq_refl).
  rewrite (ci_fun_ceq (fun b => beq b x4e || beq b x6e) _ _ ltac:(ci_sweep) Hb). reflexivity.
Qed.

Lemma dollar_alpha_at_cv l l' : cv l l' -> dollar_alpha_at l' = dollar_alpha_at l.
Proof.
  intros H. destruct H as [|a a' ? ? Ha H]; [reflexivity|].
  destruct H as [|b b' ? ? Hb H]; [reflexivity|]. cbn [dollar_alpha_at].
  rewrite (ceq_beq _ _ x24 Ha eq_refl), (ci_fun_ceq _ _ _ is_alpha_ci Hb). reflexivity.
Qed.

Lemma plain2_cv s s' : cv s s' -> plain2 s' = plain2 s.
Proof.
  intros H. unfold plain2.
  rewrite (nowhere_cv _ bsn_at_cv _ _ H), (nowhere_cv _ dollar_alpha_at_cv _ _ H), (nowhere_cv _ qlit_at_cv _ _ H).
  reflexivity.
Qed.

Lemma nowhere_skipn (p : bytes -> bool) n : forall s, nowhere p s = true -> nowhere p (skipn n s) = true.
Proof.
  induction n as [|n IH]; intros s H; [exact H|]. destruct s as [|a s]; [exact H|].
  cbn [skipn]. apply IH. cbn [nowhere] in H. apply andb_true_iff in H. tauto.
Qed.

Lemma plain2_skipn n s : plain2 s = true -> plain2 (skipn n s) = true.
Proof.
  unfold plain2. intros H. apply andb_true_iff in H. destruct H as [H H3].
  apply andb_true_iff in H. destruct H as [H1 H2].
  rewrite !nowhere_skipn by assumption. reflexivity.
Qed.
