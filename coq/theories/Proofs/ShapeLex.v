(* ShapeLex: how the SQL tokenizer lexes the pieces of the shaped inputs of
   C14b.  One call of `scan` (the model's tokenize seen as a token source) on a
   state whose unread input starts with a non-blank byte, or with one space and
   then a non-blank byte, delivers the token of Ref's lexeme
   (Proofs/RefSqlLexProofs.v, step_ref); the lexemes of a benign word with an
   optional full stop, of "@" + domain, of digits "." digits and of the
   punctuation marks , ! ? are computed on the Ref side, and their tokens are
   plain-text tokens (`gtok`, Proofs/ShapeRules.v). *)
From Coq Require Import List ZArith String Bool Lia ZifyBool.
From Coq.Strings Require Import Byte.
From Coq.FSets Require Import FMapPositive.
From LI Require Import Prelude Base SqliLex Proofs.BaseFacts Proofs.LexBase
  Spec.BenignSpec Proofs.BenignLex Spec.RefSqlLex Proofs.RefSqlLexProofs Spec.RefSqlFold
  Proofs.ShapeRules Proofs.ShapeCheck.
From LIGen Require Import Tables Dispatch Consts.
Import ListNotations.
Local Open Scope Z_scope.

(* ---------- one call of the scanner ---------- *)

(* scanner states of the as-is / ANSI reading whose comment counters are zero *)
Definition sst (s : sqlst) (inp : bytes) (k : Z) : Prop :=
  input s = inp /\ flags s = fl_none_ansi /\ pos s = k /\ statz s.

Lemma tokenize_loop_tok fuel s pre b r :
  input s = pre ++ b :: r -> pos s = len pre -> flags s = fl_none_ansi -> statz s ->
  dispatch b <> PWhite ->
  let x := ref_lex fl_none_ansi (b :: r) in
  lx_ddx x = 0 -> lx_hash x = 0 ->
  exists s', tokenize_loop (S fuel) s tok0 = Ok (true, tok_of (len pre) (b :: r) x, s') /\
             sst s' (input s) (len pre + lx_adv x).
Proof.
  intros Hi Hp Hf [Z1 Z2] Hw x Hd Hh.
  pose proof (len_nonneg pre) as Lpre. pose proof (len_nonneg r) as Lr.
  rewrite tokenize_loop_unfold. unfold slen, at_. rewrite Hp, Hi, len_app, len_cons.
  replace (len pre <? len pre + (1 + len r)) with true by lia. rewrite get_pre0, get_0. cbn [bind].
  destruct (step_ref s pre b r Hi Hp Hw) as (s' & R & A & B & C & Adv & Cat).
  rewrite Hf in R, C, Adv, Cat. fold x in R, C, Adv, Cat.
  rewrite R. cbn [bind t_cat tok_of].
  assert (Ec : beq (lx_cat x) x00 = false) by (apply beq_neq; exact Cat).
  rewrite Ec. cbn [negb]. cbv iota.
  eexists. split; [reflexivity|].
  unfold sst, statz. cbn [input flags pos st bump_tokens set_stats set_pos n_ddx n_hash].
  rewrite A, B, C, Hi, Hf. cbn [add_stats n_ddx n_hash]. repeat split; lia.
Qed.

Lemma noquote_ansi : Z.land fl_none_ansi (Z.lor c_sqli_flag_quote_single c_sqli_flag_quote_double) = 0.
Proof. reflexivity. Qed.

(* the unread input starts with a non-blank byte *)
Lemma scan_tok s pre b r :
  sst s (pre ++ b :: r) (len pre) -> dispatch b <> PWhite ->
  let x := ref_lex fl_none_ansi (b :: r) in
  lx_ddx x = 0 -> lx_hash x = 0 ->
  exists s', scan s = (Some (tok_of (len pre) (b :: r) x), s') /\
             sst s' (pre ++ b :: r) (len pre + lx_adv x).
Proof.
  intros (Hi & Hf & Hp & Hz) Hw x Hd Hh. unfold scan.
  rewrite tokenize_inner;
    [|rewrite Hi; intros Q; apply app_eq_nil in Q; destruct Q; discriminate
     |right; rewrite Hf; exact noquote_ansi].
  destruct (tokenize_loop_tok (List.length (input s)) s pre b r Hi Hp Hf Hz Hw Hd Hh) as (s' & -> & S').
  exists s'. rewrite Hi in S'. auto.
Qed.

(* the unread input starts with one space and then a non-blank byte *)
Lemma scan_sp_tok s pre b r :
  sst s (pre ++ x20 :: b :: r) (len pre) -> dispatch b <> PWhite ->
  let x := ref_lex fl_none_ansi (b :: r) in
  lx_ddx x = 0 -> lx_hash x = 0 ->
  exists s', scan s = (Some (tok_of (len pre + 1) (b :: r) x), s') /\
             sst s' (pre ++ x20 :: b :: r) (len pre + 1 + lx_adv x).
Proof.
  intros (Hi & Hf & Hp & Hz) Hw x Hd Hh. unfold scan.
  pose proof (len_nonneg pre) as Lpre. pose proof (len_nonneg r) as Lr.
  rewrite tokenize_inner;
    [|rewrite Hi; intros Q; apply app_eq_nil in Q; destruct Q; discriminate
     |right; rewrite Hf; exact noquote_ansi].
  destruct (List.length (input s)) as [|n] eqn:En.
  { rewrite Hi, app_length in En. cbn [List.length] in En. lia. }
  rewrite tokenize_loop_unfold. unfold slen, at_. rewrite Hp, Hi, len_app, !len_cons.
  replace (len pre <? len pre + (1 + (1 + len r))) with true by lia. rewrite get_pre0, get_0. cbn [bind].
  change (dispatch x20) with PWhite. cbn [run_parser parse_white bind].
  change (negb (beq (t_cat tok0) x00)) with false. cbv iota.
  set (s2 := set_pos s (pos s + 1)).
  assert (L : len (pre ++ [x20]) = len pre + 1) by (rewrite len_app; reflexivity).
  destruct (tokenize_loop_tok n s2 (pre ++ [x20]) b r) as (s' & E & S'); try assumption.
  - unfold s2. cbn [input set_pos]. rewrite Hi, <- app_assoc. reflexivity.
  - unfold s2. cbn [pos set_pos]. rewrite L. lia.
  - rewrite L in E, S'. rewrite E. exists s'. split; [reflexivity|].
    unfold s2 in S'. cbn [input set_pos] in S'. rewrite Hi in S'. exact S'.
Qed.

(* nothing is left *)
Lemma scan_end s inp : sst s inp (len inp) -> inp <> [] -> scan s = (None, s).
Proof.
  intros (Hi & Hf & Hp & Hz) Hne. unfold scan.
  rewrite tokenize_inner; [|rewrite Hi; exact Hne|right; rewrite Hf; exact noquote_ansi].
  rewrite tokenize_loop_unfold. unfold slen. rewrite Hp, Hi.
  replace (len inp <? len inp) with false by lia. reflexivity.
Qed.

Lemma sst_init inp : sst (sqli_init inp fl_none_ansi) inp 0.
Proof. unfold sst, statz. repeat split. Qed.

(* ---------- the bytes of the shaped inputs ---------- *)

(* bytes that end a word: space , @ ! ? *)
Definition stopb (b : byte) : bool := beq b x20 || beq b x2c || beq b x40 || beq b x21 || beq b x3f.
(* bytes of a domain: word bytes and the dot *)
Definition domb (b : byte) : bool := is_word_byte b || beq b x2e.
(* any byte of a shaped input *)
Definition sbyte (b : byte) : bool := domb b || stopb b.

Definition sbyte_ok (b : byte) : bool :=
  negb (sbyte b) || (negb (beq b x27) && negb (beq b x22) && negb (beq b x26) && is_ascii b).
Lemma sbyte_sweep b : sbyte_ok b = true.
Proof. apply byte_sweep. vm_compute. reflexivity. Qed.

Lemma sbyte_facts b : sbyte b = true ->
  beq b x27 = false /\ beq b x22 = false /\ beq b x26 = false /\ is_ascii b = true.
Proof.
  intros H. pose proof (sbyte_sweep b) as K. unfold sbyte_ok in K. rewrite H in K. cbn [negb orb] in K.
  repeat (apply andb_true_iff in K; destruct K as [K ?]).
  repeat match goal with H0 : negb _ = true |- _ => apply negb_true_iff in H0 end. auto.
Qed.

Definition stopb_ok (b : byte) : bool := negb (stopb b) || (negb (word_byte b) && negb (is_dec b)).
Lemma stopb_sweep b : stopb_ok b = true.
Proof. apply byte_sweep. vm_compute. reflexivity. Qed.
Lemma stopb_facts b : stopb b = true -> word_byte b = false /\ is_dec b = false.
Proof.
  intros H. pose proof (stopb_sweep b) as K. unfold stopb_ok in K. rewrite H in K. cbn [negb orb] in K.
  apply andb_true_iff in K. destruct K as [K1 K2]. apply negb_true_iff in K1, K2. auto.
Qed.

Definition domb_ok (b : byte) : bool :=
  negb (domb b)
  || (word_byte b && var_byte b && negb (beq b x40) && negb (beq b x60) && negb (beq b x27) && negb (beq b x22)).
Lemma domb_sweep b : domb_ok b = true.
Proof. apply byte_sweep. vm_compute. reflexivity. Qed.
Lemma domb_facts b : domb b = true ->
  word_byte b = true /\ var_byte b = true /\ beq b x40 = false /\ beq b x60 = false /\
  beq b x27 = false /\ beq b x22 = false.
Proof.
  intros H. pose proof (domb_sweep b) as K. unfold domb_ok in K. rewrite H in K. cbn [negb orb] in K.
  repeat (apply andb_true_iff in K; destruct K as [K ?]).
  repeat match goal with H0 : negb _ = true |- _ => apply negb_true_iff in H0 end. repeat split; assumption.
Qed.

(* a digit or the dot: what follows the first digit of a decimal number *)
Definition ddb (b : byte) : bool := is_ascii_digit b || beq b x2e.
Definition ddb_ok (b : byte) : bool :=
  negb (ddb b) || (negb (either x58 x78 b) && negb (either x42 x62 b) && domb b).
Lemma ddb_sweep b : ddb_ok b = true.
Proof. apply byte_sweep. vm_compute. reflexivity. Qed.
Lemma ddb_facts b : ddb b = true -> either x58 x78 b = false /\ either x42 x62 b = false /\ domb b = true.
Proof.
  intros H. pose proof (ddb_sweep b) as K. unfold ddb_ok in K. rewrite H in K. cbn [negb orb] in K.
  repeat (apply andb_true_iff in K; destruct K as [K ?]).
  repeat match goal with H0 : negb _ = true |- _ => apply negb_true_iff in H0 end. auto.
Qed.

Lemma word_domb b : is_word_byte b = true -> domb b = true.
Proof. unfold domb. intros ->. reflexivity. Qed.
Lemma domb_sbyte b : domb b = true -> sbyte b = true.
Proof. unfold sbyte. intros ->. reflexivity. Qed.
Lemma stopb_sbyte b : stopb b = true -> sbyte b = true.
Proof. unfold sbyte. intros ->. apply orb_true_r. Qed.

Lemma sbytes_ascii l : forallb sbyte l = true -> forallb is_ascii l = true.
Proof. apply forallb_impl. intros b H. apply sbyte_facts in H. tauto. Qed.

(* a tail that is empty or begins with a byte that ends a word *)
Definition stop_tail (tl : bytes) : Prop := tl = [] \/ exists b tl', tl = b :: tl' /\ stopb b = true.

(* ---------- prefixes and suffixes ---------- *)

Lemma after_len_app (a tl : bytes) : after (len a) (a ++ tl) = tl.
Proof. unfold after, len. rewrite Nat2Z.id. apply skipn_len_app. Qed.

Lemma upto_len_app (a tl : bytes) : upto (len a) (a ++ tl) = a.
Proof. unfold upto, len. rewrite Nat2Z.id. apply firstn_len_app. Qed.

Lemma upto_app_le n (a tl : bytes) : 0 <= n <= len a -> upto n (a ++ tl) = upto n a.
Proof.
  intros H. unfold upto. rewrite firstn_app.
  replace (Z.to_nat n - List.length a)%nat with 0%nat by (unfold len in H; lia).
  cbn [firstn]. apply app_nil_r.
Qed.

(* ---------- the keyword table and words with a full stop ---------- *)

Definition ends_dot (k : bytes) : bool := match rev k with b :: _ => beq b x2e | [] => false end.

Lemma comps_no_dot : forallb (fun k => negb (ends_dot k)) kw_components = true.
Proof. vm_compute. reflexivity. Qed.

(* no key of the table, and no component of a key, ends with a dot *)
Lemma comp_no_dot_end u : is_kw_component (u ++ [x2e]) = false.
Proof.
  destruct (is_kw_component (u ++ [x2e])) eqn:E; [|reflexivity].
  unfold is_kw_component in E. apply existsb_exists in E. destruct E as (k & Hin & Hk).
  apply bytes_eqb_eq in Hk. subst k. pose proof comps_no_dot as S. rewrite forallb_forall in S.
  specialize (S _ Hin). unfold ends_dot in S. rewrite rev_app_distr in S. cbn in S. discriminate.
Qed.

(* an optional full stop *)
Definition dot_opt (d : bytes) : Prop := d = [] \/ d = [x2e].

Lemma dotted_ascii w d : forallb is_word_byte w = true -> dot_opt d -> forallb is_ascii (w ++ d) = true.
Proof.
  intros Hw Hd. rewrite forallb_app, word_bytes_ascii by exact Hw. destruct Hd as [->| ->]; reflexivity.
Qed.

Lemma dotted_comp w d : benign_word w = true -> dot_opt d ->
  is_kw_component (map upper_ascii w ++ map upper_ascii d) = false.
Proof.
  intros Hw [->| ->]; cbn [map].
  - rewrite app_nil_r. apply benign_word_inv in Hw. tauto.
  - apply comp_no_dot_end.
Qed.

Lemma search_keyword_dotted w d : benign_word w = true -> dot_opt d -> search_keyword (w ++ d) = x00.
Proof.
  intros Hw Hd. pose proof (benign_word_inv w Hw) as [Hs Hc]. pose proof Hs as [_ Hb].
  unfold search_keyword. rewrite go_upper_view_ascii by (apply dotted_ascii; assumption). rewrite map_app.
  destruct (beq (kw_find sql_kwmap (map upper_ascii w ++ map upper_ascii d)) x00) eqn:E; [apply beq_eq in E; exact E|].
  apply beq_neq in E. apply kw_find_hit in E. destruct E as [E|E].
  - rewrite first_is_upper_word in E by exact Hs. discriminate.
  - cbn [forallb] in E. apply andb_true_iff in E. destruct E as [E _].
    rewrite dotted_comp in E by assumption. discriminate.
Qed.

(* no phrase of the table starts with a benign word (with or without a full stop) and a space *)
Lemma headsafe_dotted w d : benign_word w = true -> dot_opt d -> headsafe (w ++ d).
Proof.
  intros Hw Hd u Hu. pose proof (benign_word_inv w Hw) as [Hs Hc]. pose proof Hs as [_ Hb].
  unfold search_keyword.
  assert (A : forallb is_ascii ((w ++ d) ++ x20 :: u) = true).
  { rewrite forallb_app, dotted_ascii by assumption. cbn [forallb]. rewrite Hu. reflexivity. }
  rewrite go_upper_view_ascii by exact A. rewrite !map_app. cbn [map]. change (upper_ascii x20) with x20.
  set (W := map upper_ascii w ++ map upper_ascii d).
  destruct (beq (kw_find sql_kwmap (W ++ x20 :: map upper_ascii u)) x00) eqn:E; [apply beq_eq in E; exact E|].
  apply beq_neq in E. apply kw_find_hit in E. destruct E as [E|E].
  - unfold W in E. rewrite <- app_assoc in E. rewrite first_is_upper_word in E by exact Hs. discriminate.
  - cbn [forallb] in E. apply andb_true_iff in E. destruct E as [_ E].
    rewrite split_sp_app in E.
    + cbn [forallb] in E. apply andb_true_iff in E. destruct E as [E _].
      unfold W in E. rewrite dotted_comp in E by assumption. discriminate.
    + unfold W. rewrite forallb_app, upper_nosp by exact Hb. destruct Hd as [->| ->]; reflexivity.
Qed.

(* ---------- the token of a lexeme is a plain-text token ---------- *)

Lemma gtok_tok_of k rest x :
  lx_open x = x00 -> anyc (lx_cat x) = true -> forallb is_ascii rest = true ->
  1 <= lx_len x -> 0 <= lx_off x ->
  (lx_cat x = cWord -> 31 <= lx_len x \/ headsafe (upto (lx_len x) (after (lx_off x) rest))) ->
  gtok (tok_of k rest x).
Proof.
  intros Ho Hc Ha Hl Hoff Hw. unfold gtok, tok_of. cbn [t_open t_cat t_val t_len].
  split; [exact Ho|]. split; [exact Hc|]. split.
  { unfold lx_text, upto, after. apply forallb_firstn, forallb_skipn. exact Ha. }
  split; [lia|]. intros C. destruct (Hw C) as [L|S]; [left; lia|].
  destruct (Z.le_gt_cases 31 (lx_len x)); [left; lia|right].
  unfold lx_text. replace (Z.min (lx_len x) 31) with (lx_len x) by lia. exact S.
Qed.

(* ---------- words ---------- *)

Lemma kw_split_none : forall u pre e,
  forallb (fun b => negb (beq b x2e || beq b x60)) u = true ->
  (e = [] \/ (e = [x2e] /\ search_keyword (pre ++ u) = x00)) ->
  kw_split pre (u ++ e) = None.
Proof.
  induction u as [|b u IH]; intros pre e Hu He; cbn [app].
  - destruct He as [->|[-> Hk]]; [reflexivity|]. cbn [kw_split]. rewrite app_nil_r in Hk. rewrite Hk.
    reflexivity.
  - cbn [forallb] in Hu. apply andb_true_iff in Hu. destruct Hu as [Hb Hu]. apply negb_true_iff in Hb.
    cbn [kw_split]. rewrite Hb. cbn [andb]. apply IH; [exact Hu|].
    destruct He as [He|[He Hk]]; [left; exact He|right]. split; [exact He|].
    rewrite <- app_assoc. exact Hk.
Qed.

Lemma word_no_split w : forallb is_word_byte w = true ->
  forallb (fun b => negb (beq b x2e || beq b x60)) w = true.
Proof.
  apply forallb_impl. intros b Hb. apply word_byte_facts in Hb. destruct Hb as (_ & -> & _). reflexivity.
Qed.

Lemma word_bytes_word_byte w : forallb is_word_byte w = true -> forallb word_byte w = true.
Proof. apply forallb_impl. intros b Hb. apply word_domb, domb_facts in Hb. tauto. Qed.

Lemma lex_word_shape w d tl :
  benign_word w = true -> dot_opt d -> stop_tail tl ->
  lex_word ((w ++ d) ++ tl) = RefSqlLex.plain x6e (len (w ++ d)) (len (w ++ d)).
Proof.
  intros Hw Hd Ht. pose proof (benign_word_inv w Hw) as [[_ Hb] _].
  pose proof (len_nonneg w) as Lw.
  assert (Hwb : forallb word_byte (w ++ d) = true).
  { rewrite forallb_app, word_bytes_word_byte by exact Hb. destruct Hd as [->| ->]; reflexivity. }
  assert (Hsp : span word_byte ((w ++ d) ++ tl) = len (w ++ d)).
  { apply span_app_all; [exact Hwb|]. destruct Ht as [->|(b & tl' & -> & Sb)]; [left; reflexivity|right].
    exists b, tl'. split; [reflexivity|]. apply stopb_facts in Sb. tauto. }
  unfold lex_word. rewrite Hsp.
  assert (K : kw_split [] (upto (Z.min (len (w ++ d)) 31) ((w ++ d) ++ tl)) = None).
  { rewrite upto_app_le by (pose proof (len_nonneg (w ++ d)); lia).
    destruct Hd as [->| ->].
    - rewrite app_nil_r. rewrite <- (app_nil_r (upto _ w)). apply kw_split_none; [|left; reflexivity].
      unfold upto. apply forallb_firstn, word_no_split, Hb.
    - rewrite len_app. change (len [x2e]) with 1.
      destruct (Z.le_gt_cases (Z.min (len w + 1) 31) (len w)) as [G|G].
      + rewrite upto_app_le by lia. rewrite <- (app_nil_r (upto _ w)). apply kw_split_none; [|left; reflexivity].
        unfold upto. apply forallb_firstn, word_no_split, Hb.
      + replace (Z.min (len w + 1) 31) with (len (w ++ [x2e])) by (rewrite len_app; change (len [x2e]) with 1; lia).
        rewrite <- (app_nil_r (w ++ [x2e])) at 2. rewrite upto_len_app.
        apply kw_split_none; [apply word_no_split, Hb|right]. split; [reflexivity|].
        cbn [app]. apply search_keyword_benign. exact Hw. }
  rewrite K, upto_len_app, search_keyword_dotted by assumption.
  change (beq x00 x00) with true. cbn [negb]. rewrite andb_false_r. reflexivity.
Qed.

(* the letter-prefixed lexers fall back to the word lexer *)
Lemma ref_lex_wordlike fl b r :
  wordlike (dispatch b) = true -> forallb sbyte r = true -> ref_lex fl (b :: r) = lex_word (b :: r).
Proof.
  intros W Hr. unfold ref_lex.
  assert (H1 : forall f, (forall c, sbyte c = true -> f c = false) -> head_is f (after 1 (b :: r)) = false).
  { intros f Hf. change (after 1 (b :: r)) with r. destruct r as [|c r']; [reflexivity|].
    cbn [forallb] in Hr. apply andb_true_iff in Hr. destruct Hr as [Hc _]. cbn [head_is]. apply Hf. exact Hc. }
  assert (Q : forall c, sbyte c = true -> beq c x27 = false) by (intros c Hc; apply sbyte_facts in Hc; tauto).
  destruct (dispatch b); try discriminate W.
  - reflexivity.
  - unfold lex_radix_string. rewrite (H1 _ Q). reflexivity.
  - unfold lex_estring. rewrite (H1 _ Q). reflexivity.
  - unfold lex_nqstring. rewrite (H1 _ Q). cbn [andb]. unfold lex_qstring. change (after 1 (b :: r)) with r.
    destruct r as [|q [|a [|ch body]]]; try reflexivity.
    cbn [forallb] in Hr. apply andb_true_iff in Hr. destruct Hr as [_ Hr]. apply andb_true_iff in Hr.
    destruct Hr as [Ha _]. rewrite (Q a Ha). rewrite andb_false_r. reflexivity.
  - unfold lex_qstring. change (after 0 (b :: r)) with (b :: r).
    destruct r as [|a [|ch body]]; try reflexivity.
    cbn [forallb] in Hr. apply andb_true_iff in Hr. destruct Hr as [Ha _]. rewrite (Q a Ha).
    rewrite andb_false_r. reflexivity.
  - unfold lex_ustring. change (after 1 (b :: r)) with r. destruct r as [|c r']; [reflexivity|].
    cbn [forallb] in Hr. apply andb_true_iff in Hr. destruct Hr as [Hc _]. apply sbyte_facts in Hc.
    destruct Hc as (_ & _ & Hc & _). cbn [starts]. rewrite Hc. reflexivity.
  - unfold lex_radix_string. rewrite (H1 _ Q). reflexivity.
Qed.

Lemma wordlike_not_white id : wordlike id = true -> id <> PWhite.
Proof. intros H ->. discriminate. Qed.

(* the lexeme of a benign word, with or without a full stop, before a stop byte or the end *)
Lemma ref_lex_word fl w d tl :
  benign_word w = true -> dot_opt d -> stop_tail tl -> forallb sbyte tl = true ->
  exists b r, (w ++ d) ++ tl = b :: r /\ dispatch b <> PWhite /\
    ref_lex fl (b :: r) = RefSqlLex.plain x6e (len (w ++ d)) (len (w ++ d)).
Proof.
  intros Hw Hd Ht Hs. pose proof (benign_word_inv w Hw) as [[(b & w0 & Ew & Hb0) Hb] _].
  exists b, ((w0 ++ d) ++ tl). split; [rewrite Ew; reflexivity|].
  apply word_start_facts in Hb0. destruct Hb0 as (Wl & _). split; [apply wordlike_not_white; exact Wl|].
  rewrite ref_lex_wordlike; [| exact Wl|].
  - replace (b :: (w0 ++ d) ++ tl) with ((w ++ d) ++ tl) by (rewrite Ew; reflexivity).
    apply lex_word_shape; assumption.
  - rewrite !forallb_app, Hs. rewrite Ew in Hb. cbn [forallb] in Hb. apply andb_true_iff in Hb. destruct Hb as [_ Hb].
    rewrite (forallb_impl is_word_byte sbyte w0); [|intros c Hc; apply domb_sbyte, word_domb, Hc|exact Hb].
    destruct Hd as [->| ->]; reflexivity.
Qed.

Lemma len_dotted w d : benign_word w = true -> dot_opt d -> 1 <= len (w ++ d).
Proof.
  intros Hw Hd. apply benign_word_inv in Hw. destruct Hw as [[(b & w0 & -> & _) _] _].
  rewrite len_app, len_cons. pose proof (len_nonneg w0). pose proof (len_nonneg d). lia.
Qed.

(* ... and its token *)
Lemma gtok_word k w d tl :
  benign_word w = true -> dot_opt d -> forallb sbyte tl = true ->
  gtok (tok_of k ((w ++ d) ++ tl) (RefSqlLex.plain x6e (len (w ++ d)) (len (w ++ d)))).
Proof.
  intros Hw Hd Hs. pose proof (benign_word_inv w Hw) as [[_ Hb] _].
  apply gtok_tok_of; cbn [lx_open lx_cat lx_len lx_off RefSqlLex.plain]; try reflexivity; try lia.
  - rewrite forallb_app, dotted_ascii, sbytes_ascii by assumption. reflexivity.
  - apply len_dotted; assumption.
  - intros _. right. rewrite after_0, upto_len_app. apply headsafe_dotted; assumption.
Qed.

(* ---------- punctuation ---------- *)

Lemma ref_lex_comma fl r : ref_lex fl (x2c :: r) = RefSqlLex.plain x2c 1 1.
Proof. reflexivity. Qed.

Lemma ref_lex_question fl r : ref_lex fl (x3f :: r) = RefSqlLex.plain x3f 1 1.
Proof. reflexivity. Qed.

(* "!" as the last byte *)
Lemma ref_lex_bang fl : ref_lex fl [x21] = RefSqlLex.plain x6f 1 1.
Proof. reflexivity. Qed.

Lemma gtok_punct k c b r :
  anyc c = true -> c <> cWord -> forallb is_ascii (b :: r) = true ->
  gtok (tok_of k (b :: r) (RefSqlLex.plain c 1 1)).
Proof.
  intros Hc Hn Ha. apply gtok_tok_of; cbn [lx_open lx_cat lx_len lx_off RefSqlLex.plain]; try reflexivity; try lia; try assumption.
  intros E. congruence.
Qed.

(* ---------- "@" and a domain ---------- *)

Lemma doms_var_byte l : forallb domb l = true -> forallb var_byte l = true.
Proof. apply forallb_impl. intros b H. apply domb_facts in H. tauto. Qed.

Lemma ref_lex_at fl dom :
  forallb domb dom = true ->
  ref_lex fl (x40 :: dom) = mkLx x76 1 (len dom) x00 x00 1 (1 + len dom) 0 0.
Proof.
  intros Hd. change (ref_lex fl (x40 :: dom)) with (lex_var (x40 :: dom)). unfold lex_var.
  change (after 1 (x40 :: dom)) with dom.
  assert (H1 : head_is (fun b => beq b x40) dom = false).
  { destruct dom as [|c dom']; [reflexivity|]. cbn [forallb] in Hd. apply andb_true_iff in Hd. destruct Hd as [Hc _].
    apply domb_facts in Hc. cbn [head_is]. tauto. }
  rewrite H1. change (after 1 (x40 :: dom)) with dom.
  assert (Sp : span var_byte dom = len dom).
  { rewrite <- (app_nil_r dom) at 1. apply span_app_all; [apply doms_var_byte; exact Hd|left; reflexivity]. }
  rewrite Sp. destruct dom as [|c dom']; [reflexivity|].
  cbn [forallb] in Hd. apply andb_true_iff in Hd. destruct Hd as [Hc _]. apply domb_facts in Hc.
  destruct Hc as (_ & _ & _ & -> & -> & ->). reflexivity.
Qed.

Lemma gtok_at k dom :
  forallb domb dom = true -> 1 <= len dom ->
  gtok (tok_of k (x40 :: dom) (mkLx x76 1 (len dom) x00 x00 1 (1 + len dom) 0 0)).
Proof.
  intros Hd Hl. apply gtok_tok_of; cbn [lx_open lx_cat lx_len lx_off]; try reflexivity; try lia.
  - cbn [forallb]. rewrite sbytes_ascii; [reflexivity|]. eapply forallb_impl; [|exact Hd]. apply domb_sbyte.
  - intros E. discriminate E.
Qed.

(* ---------- digits "." digits ---------- *)

Lemma digits_is_dec w : forallb is_ascii_digit w = true -> forallb is_dec w = true.
Proof. intros H. exact H. Qed.

Lemma ref_lex_decimal fl a b :
  benign_number a = true -> benign_number b = true ->
  exists d0 r, a ++ x2e :: b = d0 :: r /\ dispatch d0 <> PWhite /\
    ref_lex fl (d0 :: r) = RefSqlLex.plain x31 (len (a ++ x2e :: b)) (len (a ++ x2e :: b)).
Proof.
  intros Ha Hb. pose proof (benign_number_inv a Ha) as [(d0 & a' & Ea & Hd0) Hda].
  pose proof (benign_number_inv b Hb) as [_ Hdb].
  exists d0, (a' ++ x2e :: b). split; [rewrite Ea; reflexivity|].
  pose proof (digit_facts d0 Hd0) as (Dd & _). split; [rewrite Dd; discriminate|].
  replace (d0 :: a' ++ x2e :: b) with (a ++ x2e :: b) by (rewrite Ea; reflexivity).
  set (rest := a ++ x2e :: b).
  assert (Er : ref_lex fl rest = lex_number rest).
  { unfold rest. rewrite Ea. cbn [app]. unfold ref_lex. rewrite Dd. reflexivity. }
  rewrite Er. unfold lex_number.
  (* no 0x / 0b *)
  assert (Rx : radix rest = None).
  { unfold rest. rewrite Ea. cbn [app]. unfold radix.
    destruct (a' ++ x2e :: b) as [|c r'] eqn:Ec; [reflexivity|].
    assert (Dc : ddb c = true).
    { rewrite Ea in Hda. cbn [forallb] in Hda. apply andb_true_iff in Hda. destruct Hda as [_ Hda'].
      unfold ddb. destruct a' as [|c' a'']; cbn [app] in Ec; inversion Ec; subst.
      - rewrite beq_refl. apply orb_true_r.
      - cbn [forallb] in Hda'. apply andb_true_iff in Hda'. destruct Hda' as [-> _]. reflexivity. }
    apply ddb_facts in Dc. destruct Dc as (-> & -> & _). destruct (beq d0 x30); reflexivity. }
  rewrite Rx.
  pose proof (len_nonneg a) as La. pose proof (len_nonneg b) as Lb.
  assert (Sa : span is_dec rest = len a).
  { unfold rest. apply span_app_all; [exact Hda|right]. exists x2e, b. split; reflexivity. }
  rewrite Sa.
  assert (Ad : after (len a) rest = x2e :: b) by (unfold rest; apply after_len_app).
  rewrite Ad. cbn [head_is]. change (beq x2e x2e) with true. cbv iota.
  assert (Ab : after (len a + 1) rest = b).
  { unfold rest. replace (a ++ x2e :: b) with ((a ++ [x2e]) ++ b) by (rewrite <- app_assoc; reflexivity).
    replace (len a + 1) with (len (a ++ [x2e])) by (rewrite len_app; reflexivity). apply after_len_app. }
  rewrite Ab.
  assert (Sb : span is_dec b = len b).
  { rewrite <- (app_nil_r b) at 1. apply span_app_all; [exact Hdb|left; reflexivity]. }
  rewrite Sb.
  assert (Lr : len rest = len a + 1 + len b) by (unfold rest; rewrite len_app, len_cons; lia).
  rewrite <- Lr.
  assert (Lb1 : 1 <= len b).
  { apply benign_number_inv in Hb. destruct Hb as [(c & b' & -> & _) _]. rewrite len_cons. pose proof (len_nonneg b'). lia. }
  replace (len rest =? 1) with false by lia. cbn [andb].
  assert (An : after (len rest) rest = []).
  { rewrite <- (app_nil_r rest) at 2. apply after_len_app. }
  rewrite An. cbn [head_is andb]. rewrite An. cbn [num_suffix b2z]. rewrite Z.add_0_r. reflexivity.
Qed.

Lemma gtok_decimal k a b :
  benign_number a = true -> benign_number b = true ->
  gtok (tok_of k (a ++ x2e :: b) (RefSqlLex.plain x31 (len (a ++ x2e :: b)) (len (a ++ x2e :: b)))).
Proof.
  intros Ha Hb. apply benign_number_inv in Ha, Hb. destruct Ha as [_ Ha]. destruct Hb as [_ Hb].
  apply gtok_tok_of; cbn [lx_open lx_cat lx_len lx_off RefSqlLex.plain]; try reflexivity; try lia.
  - rewrite forallb_app. cbn [forallb]. rewrite !word_bytes_ascii by (apply digits_word_bytes; assumption). reflexivity.
  - rewrite len_app, len_cons. pose proof (len_nonneg a). pose proof (len_nonneg b). lia.
  - intros E. discriminate E.
Qed.

(* ---------- no quote in a shaped input ---------- *)

Lemma no_quote l : forallb sbyte l = true -> mem x27 l = false /\ mem x22 l = false.
Proof.
  induction l as [|b l IH]; cbn [forallb]; intros H; [split; reflexivity|].
  apply andb_true_iff in H. destruct H as [Hb Hl]. destruct (IH Hl) as [I1 I2].
  apply sbyte_facts in Hb. destruct Hb as (Q1 & Q2 & _).
  unfold mem in *. cbn [existsb]. rewrite I1, I2.
  assert (E1 : beq x27 b = false) by (apply beq_neq; apply beq_neq in Q1; congruence).
  assert (E2 : beq x22 b = false) by (apply beq_neq; apply beq_neq in Q2; congruence).
  rewrite E1, E2. split; reflexivity.
Qed.

Lemma digits_sbyte w : forallb is_ascii_digit w = true -> forallb sbyte w = true.
Proof.
  intros H. apply digits_word_bytes in H. eapply forallb_impl; [|exact H].
  intros b Hb. apply domb_sbyte, word_domb, Hb.
Qed.

Lemma words_sbyte w : forallb is_word_byte w = true -> forallb sbyte w = true.
Proof. apply forallb_impl. intros b Hb. apply domb_sbyte, word_domb, Hb. Qed.
