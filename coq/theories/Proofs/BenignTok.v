(* BenignTok: the lexing lemma of C14.  On a benign input, started at an item,
   `tokenize` returns exactly one token — bare word 'n' or number '1', value =
   the item clipped to 31 bytes — and stops right after the item; the single
   separating space is consumed by the next call without producing a token; at
   the end of the input `tokenize` returns false.  No comment counter moves. *)
From Coq Require Import List ZArith String Bool Lia ZifyBool.
From Coq.Strings Require Import Byte.
From LI Require Import Prelude Base SqliLex Proofs.BaseFacts Proofs.Wp Proofs.LexBase
  Spec.BenignSpec Proofs.BenignLex.
From LIGen Require Import Tables Dispatch Consts.
Import ListNotations.
Local Open Scope Z_scope.

(* the token of an item w lexed at offset p into the slot t *)
Definition item_tok (p : Z) (w : bytes) (c : byte) (t : token) : token :=
  mkTok p (Z.min (len w) 31) (t_count t) c (t_open t) (t_close t)
        (firstn (Z.to_nat (Z.min (len w) 31)) w).

Lemma firstn_app_le {A} n (w tl : list A) : (n <= List.length w)%nat -> firstn n (w ++ tl) = firstn n w.
Proof.
  intros H. rewrite firstn_app. replace (n - List.length w)%nat with 0%nat by lia.
  cbn [firstn]. apply app_nil_r.
Qed.

Lemma firstn_Z_app_le n (w tl : bytes) : 0 <= n <= len w -> firstn (Z.to_nat n) (w ++ tl) = firstn (Z.to_nat n) w.
Proof. intros H. apply firstn_app_le. unfold len in H. lia. Qed.

Lemma firstn_skipn_split {A} n (w : list A) : w = firstn n w ++ skipn n w.
Proof. symmetry. apply firstn_skipn. Qed.

(* a look-ahead at the position right after an item sees the separator or the end *)
Lemma peek_sep site s pre tl p (f : byte -> bool) :
  input s = pre ++ tl -> p = len pre -> sep_tail tl -> f x20 = false ->
  (if p <? slen s then (a <- at_ site s p ;; Ok (f a)) else Ok false) = Ok false.
Proof.
  intros Hi -> Ht Hf. unfold slen, at_. rewrite Hi, len_app.
  destruct Ht as [->|[tl' ->]].
  - rewrite len_nil. destruct (len pre <? len pre + 0) eqn:E; [lia|reflexivity].
  - destruct (_ <? _); [|reflexivity]. rewrite get_app by reflexivity. cbn [bind]. rewrite Hf. reflexivity.
Qed.

Lemma word_split_none fuel : forall val i n,
  forallb (fun d => negb (beq d x2e || beq d x60)) val = true ->
  0 <= i -> n <= len val -> n - i <= Z.of_nat fuel ->
  word_split_loop fuel val i n = Ok None.
Proof.
  induction fuel as [|fuel IH]; intros val i n Hv Hi Hn Hf; cbn [word_split_loop].
  - destruct (i <? n) eqn:E; [lia|reflexivity].
  - destruct (i <? n) eqn:E; [|reflexivity].
    destruct (get_ok "parseWord:val[i]" val i ltac:(lia)) as [d [G N]]. rewrite G. cbn [bind].
    pose proof (forallb_nth _ _ _ _ Hv N) as K. apply negb_true_iff in K. rewrite K.
    apply IH; try assumption; lia.
Qed.

Lemma sep_tail_span (f : byte -> bool) w tl :
  forallb f w = true -> sep_tail tl -> f x20 = false -> span f (w ++ tl) = len w.
Proof.
  intros Hw Ht Hf. apply span_app_all; [exact Hw|]. destruct Ht as [->|[tl' ->]]; [left; reflexivity|].
  right. exists x20, tl'. auto.
Qed.

(* ---------- parseWord on a word-shaped item ---------- *)

Lemma parse_word_benign s t pre w tl :
  input s = pre ++ w ++ tl -> pos s = len pre -> sep_tail tl ->
  forallb is_word_byte w = true -> 1 <= len w ->
  (len w < 32 -> search_keyword w = x00) ->
  parse_word s t = Ok (s, item_tok (len pre) w b_sqli_token_type_bare_word t, len pre + len w).
Proof.
  intros Hi Hp Ht Hw Hl Hk.
  pose proof (len_nonneg pre) as Lpre. pose proof (len_nonneg tl) as Ltl.
  unfold parse_word, input_from, str_len_cspn, slen. rewrite Hp, Hi.
  change c_token_size with 32.
  rewrite drop_app by reflexivity. cbn [bind].
  rewrite len_app3.
  replace (len pre + len w + len tl - len pre) with (len w + len tl) by lia.
  set (f := fun b => negb (mem b word_accept)).
  assert (Hf : forallb f w = true).
  { eapply forallb_impl; [|exact Hw]. intros b Hb. apply word_byte_facts in Hb. unfold f.
    destruct Hb as (-> & _). reflexivity. }
  assert (Hsp : span f (w ++ tl) = len w) by (apply sep_tail_span; [exact Hf|exact Ht|vm_compute; reflexivity]).
  rewrite span_len_exact by (rewrite len_app; destruct (32 <? len w + len tl) eqn:?; lia).
  rewrite Hsp. cbn [bind].
  set (L := Z.min (if 32 <? len w + len tl then 32 else len w + len tl) (len w)).
  assert (HL : L = Z.min 32 (len w)) by (unfold L; destruct (32 <? len w + len tl) eqn:?; lia).
  clearbody L. subst L.
  rewrite assign_ok by (rewrite ?len_app; lia). cbn [bind t_val t_len].
  replace (Z.min (Z.min 32 (len w)) 31) with (Z.min (len w) 31) by lia.
  rewrite firstn_Z_app_le by lia.
  set (m := Z.min (len w) 31).
  assert (Hm : 1 <= m <= 31 /\ m <= len w) by (unfold m; lia).
  rewrite word_split_none.
  2:{ apply forallb_firstn. eapply forallb_impl; [|exact Hw]. intros b Hb. apply word_byte_facts in Hb.
      destruct Hb as (_ & -> & _). reflexivity. }
  2:lia. 2:{ rewrite len_firstn_le; lia. } 2:{ change (Z.to_nat 32) with 32%nat. lia. }
  cbn [bind].
  destruct (Z.min 32 (len w) =? 32) eqn:E32.
  - (* 32 bytes or more: the scan is extended, no look-up *)
    replace (Z.min 32 (len w)) with 32 by lia.
    set (w1 := firstn 32 w). set (w2 := skipn 32 w).
    assert (Ew : w = w1 ++ w2) by apply firstn_skipn_split.
    assert (L1 : len w1 = 32) by (unfold w1; change 32%nat with (Z.to_nat 32); rewrite len_firstn_le; lia).
    assert (L2 : len w2 = len w - 32).
    { assert (len w = len w1 + len w2) by (rewrite Ew at 1; apply len_app). lia. }
    assert (E : pre ++ w ++ tl = (pre ++ w1) ++ (w2 ++ tl)) by (rewrite Ew at 1; rewrite <- !app_assoc; reflexivity).
    rewrite E. rewrite drop_app by (rewrite len_app; lia). cbn [bind].
    rewrite span_len_exact by (rewrite len_app; lia).
    rewrite sep_tail_span; [|apply forallb_skipn; exact Hf|exact Ht|vm_compute; reflexivity].
    cbn [bind]. replace (32 + Z.min (len w + len tl - 32) (len w2)) with (len w) by lia.
    destruct (len w <? 32) eqn:E2; [lia|]. reflexivity.
  - replace (Z.min 32 (len w)) with (len w) by lia. cbn [bind].
    destruct (len w <? 32) eqn:E2; [|lia].
    assert (m = len w) by lia. 
    replace (firstn (Z.to_nat m) w) with w.
    2:{ rewrite H. unfold len. rewrite Nat2Z.id, firstn_all. reflexivity. }
    rewrite take_all. cbn [bind]. rewrite Hk by lia. rewrite beq_refl.
    unfold set_cat, item_tok. cbn [t_pos t_len t_count t_cat t_open t_close t_val]. fold m.
    rewrite H. unfold len. rewrite Nat2Z.id, firstn_all. reflexivity.
Qed.

(* ---------- the letter-prefixed lexers fall back to parseWord ---------- *)

Lemma at_plain site s i : forallb plain (input s) = true -> 0 <= i < slen s ->
  exists a, at_ site s i = Ok a /\ plain a = true.
Proof.
  intros Hpl Hi. unfold at_. destruct (get_ok site (input s) i Hi) as [a [G N]]. exists a. split; [exact G|].
  eapply forallb_nth; eassumption.
Qed.

Ltac rd Hpl :=
  match goal with
  | |- context [at_ ?site ?s ?i] =>
      let a := fresh "a" in let Pa := fresh "Pa" in let E := fresh "E" in
      destruct (at_plain site s i Hpl ltac:(unfold slen in *; lia)) as [a [E Pa]]; rewrite E; clear E; cbn [bind];
      let Q1 := fresh "Q" in let Q2 := fresh "Q" in let Q3 := fresh "Q" in
      destruct (plain_facts a Pa) as (Q1 & Q2 & Q3); rewrite ?Q1, ?Q2, ?Q3; cbn [negb bind]
  end.

Lemma parse_xb_string_plain digits s t :
  forallb plain (input s) = true -> 0 <= pos s -> parse_xb_string digits s t = parse_word s t.
Proof.
  intros Hpl Hp. unfold parse_xb_string. change b_byte_single with x27.
  destruct (slen s <=? pos s + 2) eqn:E; cbn [bind]; [reflexivity|]. rd Hpl. reflexivity.
Qed.

Lemma parse_estring_plain s t :
  forallb plain (input s) = true -> 0 <= pos s -> parse_estring s t = parse_word s t.
Proof.
  intros Hpl Hp. unfold parse_estring. change b_byte_single with x27.
  destruct (slen s <=? pos s + 2) eqn:E; cbn [bind]; [reflexivity|]. rd Hpl. reflexivity.
Qed.

Lemma parse_ustring_plain s t :
  forallb plain (input s) = true -> 0 <= pos s -> parse_ustring s t = parse_word s t.
Proof.
  intros Hpl Hp. unfold parse_ustring. change b_byte_single with x27.
  destruct (pos s + 2 <? slen s) eqn:E; cbn [bind]; [|reflexivity]. rd Hpl. reflexivity.
Qed.

Lemma parse_qstring_core_plain offset s t :
  forallb plain (input s) = true -> 0 <= pos s -> 0 <= offset ->
  parse_qstring_core offset s t = parse_word s t.
Proof.
  intros Hpl Hp Ho. unfold parse_qstring_core. change b_byte_single with x27.
  destruct (slen s <=? pos s + offset) eqn:E; cbn [bind]; [reflexivity|]. rd Hpl.
  destruct (negb (beq a x71) && negb (beq a x51)); cbn [bind]; [reflexivity|].
  destruct (slen s <=? pos s + offset + 2) eqn:E2; cbn [bind]; [reflexivity|]. rd Hpl. reflexivity.
Qed.

Lemma parse_nqstring_plain s t :
  forallb plain (input s) = true -> 0 <= pos s -> parse_nqstring s t = parse_word s t.
Proof.
  intros Hpl Hp. unfold parse_nqstring. change b_byte_single with x27.
  destruct (pos s + 2 <? slen s) eqn:E; cbn [bind].
  - rd Hpl. apply parse_qstring_core_plain; try assumption; lia.
  - apply parse_qstring_core_plain; try assumption; lia.
Qed.

Lemma run_wordlike id s t :
  wordlike id = true -> forallb plain (input s) = true -> 0 <= pos s ->
  run_parser id s t = parse_word s t.
Proof.
  intros W Hpl Hp. destruct id; try discriminate W; cbn [run_parser].
  - reflexivity.
  - apply parse_xb_string_plain; assumption.
  - apply parse_estring_plain; assumption.
  - apply parse_nqstring_plain; assumption.
  - apply parse_qstring_core_plain; try assumption; lia.
  - apply parse_ustring_plain; assumption.
  - apply parse_xb_string_plain; assumption.
Qed.

(* ---------- parseNumber on an all-digit item ---------- *)

Lemma head_digit_or_sp w' tl c1 r' :
  forallb is_ascii_digit w' = true -> sep_tail tl -> w' ++ tl = c1 :: r' -> digit_or_sp c1 = true.
Proof.
  intros Hw Ht E. unfold digit_or_sp. destruct w' as [|c w'']; cbn [app] in E.
  - destruct Ht as [->|[tl' ->]]; [discriminate|]. inversion E; subst. rewrite beq_refl. apply orb_true_r.
  - inversion E; subst. cbn [forallb] in Hw. apply andb_true_iff in Hw. destruct Hw as [-> _]. reflexivity.
Qed.

Lemma parse_number_benign s t pre w tl :
  input s = pre ++ w ++ tl -> pos s = len pre -> sep_tail tl -> benign_number w = true ->
  parse_number s t = Ok (s, item_tok (len pre) w b_sqli_token_type_number t, len pre + len w).
Proof.
  intros Hi Hp Ht Hn. apply benign_number_inv in Hn. destruct Hn as [(d0 & w' & Ew & Hd0) Hw].
  pose proof (len_nonneg pre) as Lpre. pose proof (len_nonneg tl) as Ltl. pose proof (len_nonneg w') as Lw'.
  assert (Lw : len w = 1 + len w') by (rewrite Ew; apply len_cons).
  assert (Hw' : forallb is_ascii_digit w' = true).
  { rewrite Ew in Hw. cbn [forallb] in Hw. apply andb_true_iff in Hw. tauto. }
  unfold parse_number. unfold at_ at 1. rewrite Hp. rewrite Hi at 1. rewrite Ew at 1. cbn [app].
  rewrite get_app by reflexivity. cbn [bind].
  (* the 0x / 0b test *)
  assert (D : (if beq d0 x30 && (len pre + 1 <? slen s)
               then c1 <- at_ "parseNumber" s (len pre + 1);;
                    Ok (if beq c1 x58 || beq c1 x78 then bs "0123456789ABCDEFabcdef"
                        else if beq c1 x42 || beq c1 x62 then bs "01" else [])
               else Ok []) = Ok []).
  { destruct (beq d0 x30 && (len pre + 1 <? slen s)) eqn:E; [|reflexivity].
    apply andb_true_iff in E. destruct E as [_ E]. unfold slen in E. rewrite Hi, len_app3 in E.
    destruct (w' ++ tl) as [|c1 r'] eqn:Er.
    - apply (f_equal len) in Er. rewrite len_app, len_nil in Er. lia.
    - unfold at_. rewrite Hi, Ew. cbn [app]. rewrite Er.
      replace (pre ++ d0 :: c1 :: r') with ((pre ++ [d0]) ++ c1 :: r') by (rewrite <- app_assoc; reflexivity).
      rewrite get_app by (rewrite len_app; reflexivity). cbn [bind].
      destruct (after_zero_facts c1 (head_digit_or_sp _ _ _ _ Hw' Ht Er)) as [-> ->]. reflexivity. }
  rewrite D. cbn [bind]. clear D.
  unfold input_from. rewrite Hi. rewrite drop_app by reflexivity. cbn [bind].
  assert (Hdig : forallb is_digit w = true).
  { eapply forallb_impl; [|exact Hw]. intros b Hb. apply digit_facts in Hb. tauto. }
  rewrite sep_tail_span; [|exact Hdig|exact Ht|vm_compute; reflexivity].
  assert (Hi2 : input s = (pre ++ w) ++ tl) by (rewrite Hi, app_assoc; reflexivity).
  assert (Lpw : len pre + len w = len (pre ++ w)) by (rewrite len_app; reflexivity).
  rewrite (peek_sep _ s (pre ++ w) tl) by (try assumption; reflexivity). cbn [bind andb].
  rewrite (peek_sep _ s (pre ++ w) tl) by (try assumption; reflexivity). cbn [bind andb].
  rewrite (peek_sep _ s (pre ++ w) tl) by (try assumption; reflexivity). cbn [bind andb].
  rewrite drop_app by reflexivity. cbn [bind].
  replace (len pre + len w - len pre) with (len w) by lia.
  rewrite assign_ok by (rewrite ?len_app; lia). cbn [bind].
  rewrite firstn_Z_app_le by lia. reflexivity.
Qed.

(* ---------- the dispatched lexer on an item ---------- *)

Definition item_class (w : bytes) : byte :=
  if benign_number w then b_sqli_token_type_number else b_sqli_token_type_bare_word.

Lemma item_class_cases w : item_class w = b_sqli_token_type_number \/ item_class w = b_sqli_token_type_bare_word.
Proof. unfold item_class. destruct (benign_number w); auto. Qed.

Lemma lex_item s t pre w tl :
  input s = pre ++ w ++ tl -> pos s = len pre -> sep_tail tl -> benign_item w = true ->
  forallb plain (input s) = true ->
  exists b w', w = b :: w' /\
    run_parser (dispatch b) s t = Ok (s, item_tok (len pre) w (item_class w) t, len pre + len w).
Proof.
  intros Hi Hp Ht Hw Hpl. unfold item_class. unfold benign_item in Hw.
  destruct (benign_number w) eqn:En.
  - pose proof (benign_number_inv w En) as [(b & w' & Ew & Hb) _]. exists b, w'. split; [exact Ew|].
    apply digit_facts in Hb. destruct Hb as (-> & _). cbn [run_parser].
    apply (parse_number_benign s t pre w tl); assumption.
  - cbn [orb] in Hw. pose proof (benign_word_inv w Hw) as [[(b & w' & Ew & Hb) Hwb] _].
    exists b, w'. split; [exact Ew|].
    apply word_start_facts in Hb. destruct Hb as (Hb & _).
    rewrite run_wordlike; [|exact Hb|exact Hpl|rewrite Hp; apply len_nonneg].
    apply (parse_word_benign s t pre w tl); try assumption.
    + rewrite Ew, len_cons. pose proof (len_nonneg w'). lia.
    + intros _. apply search_keyword_benign. exact Hw.
Qed.

(* ---------- tokenize ---------- *)

(* the scanner state after one more token that ends at np *)
Definition after (s : sqlst) (np : Z) : sqlst :=
  mkSt (input s) (flags s) np
       (mkStats (n_ddx (st s)) (n_hash (st s)) (n_folds (st s)) (n_tokens (st s) + 1)).

Lemma tokenize_loop_step fuel s t :
  tokenize_loop (S fuel) s t =
  if pos s <? slen s then
    ch <- at_ "tokenize:input[pos]" s (pos s) ;;
    '(s, t, np) <- run_parser (dispatch ch) s t ;;
    let s := set_pos s np in
    if negb (beq (t_cat t) x00) then Ok (true, t, bump_tokens s)
    else tokenize_loop fuel s t
  else Ok (false, t, s).
Proof. reflexivity. Qed.

Lemma tokenize_loop_item fuel s t pre w tl :
  input s = pre ++ w ++ tl -> pos s = len pre -> sep_tail tl -> benign_item w = true ->
  forallb plain (input s) = true ->
  tokenize_loop (S fuel) s t =
  Ok (true, item_tok (len pre) w (item_class w) t, after s (len pre + len w)).
Proof.
  intros Hi Hp Ht Hw Hpl. rewrite tokenize_loop_step.
  destruct (lex_item s t pre w tl Hi Hp Ht Hw Hpl) as (b & w' & Ew & R).
  pose proof (len_nonneg pre). pose proof (len_nonneg w'). pose proof (len_nonneg tl).
  assert (Hlt : pos s <? slen s = true).
  { unfold slen. rewrite Hi, Hp, Ew, len_app3, len_cons. lia. }
  rewrite Hlt. unfold at_. rewrite Hp. rewrite Hi at 1. rewrite Ew at 1. cbn [app].
  rewrite get_app by reflexivity. cbn [bind]. rewrite R. cbn [bind].
  unfold item_tok at 1. cbn [t_cat].
  assert (Hc : negb (beq (item_class w) x00) = true) by (destruct (item_class_cases w) as [->| ->]; reflexivity).
  rewrite Hc. reflexivity.
Qed.

Lemma tokenize_loop_sep fuel s t pre w tl :
  input s = pre ++ x20 :: w ++ tl -> pos s = len pre -> sep_tail tl -> benign_item w = true ->
  forallb plain (input s) = true -> t_cat t = x00 ->
  tokenize_loop (S (S fuel)) s t =
  Ok (true, item_tok (len pre + 1) w (item_class w) t, after s (len pre + 1 + len w)).
Proof.
  intros Hi Hp Ht Hw Hpl Hc. rewrite tokenize_loop_step.
  pose proof (len_nonneg pre). pose proof (len_nonneg w). pose proof (len_nonneg tl).
  assert (Hlt : pos s <? slen s = true).
  { unfold slen. rewrite Hi, Hp, len_app, len_cons, len_app. lia. }
  rewrite Hlt. unfold at_. rewrite Hp. rewrite Hi at 1. rewrite get_app by reflexivity. cbn [bind].
  change (dispatch x20) with PWhite. cbn [run_parser parse_white bind]. rewrite Hc.
  change (negb (beq x00 x00)) with false. cbv iota.
  assert (L : len (pre ++ [x20]) = len pre + 1) by (rewrite len_app; reflexivity).
  rewrite (tokenize_loop_item fuel (set_pos s (pos s + 1)) t (pre ++ [x20]) w tl).
  - rewrite L. reflexivity.
  - cbn [set_pos input]. rewrite Hi, <- app_assoc. reflexivity.
  - cbn [set_pos pos]. rewrite L. lia.
  - exact Ht.
  - exact Hw.
  - exact Hpl.
Qed.

(* what the folder needs to know about a scanner state on a benign input:
   the unread part is r *)
Definition lex_inv (s : sqlst) (r : bytes) : Prop :=
  (exists pre, input s = pre ++ r /\ pos s = len pre) /\
  forallb plain (input s) = true /\
  Z.land (flags s) (Z.lor c_sqli_flag_quote_single c_sqli_flag_quote_double) = 0.

(* THE LEXING LEMMA.  The unread part is the join of the items l (scan start)
   or the items l each preceded by its separator (after a token). *)
Theorem tokenize_benign s cur r l :
  lex_inv s r -> Items l -> (r = join_sp l \/ r = sp_tail l) ->
  match l with
  | [] => exists t', tokenize s cur = Ok (false, t', s)
  | w :: l' =>
      exists p, pos s <= p <= pos s + 1 /\
        tokenize s cur = Ok (true, item_tok p w (item_class w) tok0, after s (p + len w)) /\
        lex_inv (after s (p + len w)) (sp_tail l')
  end.
Proof.
  intros ((pre & Hi & Hp) & Hpl & Hfl) Hl Hr.
  pose proof (len_nonneg pre) as Lpre.
  assert (Hq : forall b, b && negb (Z.land (flags s) (Z.lor c_sqli_flag_quote_single c_sqli_flag_quote_double) =? 0) = false).
  { intros b. rewrite Hfl. apply andb_false_r. }
  destruct l as [|w l'].
  - assert (r = []) by (destruct Hr as [->| ->]; reflexivity). subst r. rewrite app_nil_r in Hi.
    unfold tokenize. destruct (slen s =? 0); [eexists; reflexivity|]. rewrite Hq.
    rewrite tokenize_loop_step. unfold slen. rewrite Hp, Hi.
    destruct (len pre <? len pre) eqn:E; [lia|]. eexists; reflexivity.
  - inversion Hl as [|w0 l0 Hw Hl']; subst w0 l0.
    destruct (item_word_bytes w Hw) as [_ Lw]. pose proof (sp_tail_sep l') as Ht.
    pose proof (len_nonneg (sp_tail l')) as Ltl.
    unfold tokenize.
    destruct Hr as [->| ->].
    + rewrite join_sp_cons in Hi. exists (len pre). split; [lia|].
      assert (E0 : slen s =? 0 = false) by (unfold slen; rewrite Hi, len_app3; lia).
      rewrite E0, Hq. split.
      * apply (tokenize_loop_item _ s tok0 pre w (sp_tail l')); assumption.
      * unfold lex_inv, after. cbn [input flags pos]. refine (conj _ (conj Hpl Hfl)).
        exists (pre ++ w). rewrite Hi, len_app, app_assoc. auto.
    + cbn [sp_tail] in Hi. exists (len pre + 1). split; [lia|].
      assert (E0 : slen s =? 0 = false) by (unfold slen; rewrite Hi, len_app, len_cons, len_app; lia).
      rewrite E0, Hq. split.
      * destruct (List.length (input s)) as [|n] eqn:En.
        { rewrite Hi, app_length in En. cbn [List.length] in En. lia. }
        apply (tokenize_loop_sep _ s tok0 pre w (sp_tail l')); try assumption. reflexivity.
      * unfold lex_inv, after. cbn [input flags pos]. refine (conj _ (conj Hpl Hfl)).
        exists (pre ++ x20 :: w). rewrite Hi, len_app, len_cons. split; [|lia].
        rewrite <- app_assoc. reflexivity.
Qed.

(* the initial state of a pass over a benign input *)
Lemma lex_inv_init inp fl :
  forallb plain inp = true ->
  Z.land fl (Z.lor c_sqli_flag_quote_single c_sqli_flag_quote_double) = 0 -> fl <> 0 ->
  lex_inv (sqli_init inp fl) inp.
Proof.
  intros Hpl Hfl H0. unfold lex_inv, sqli_init. destruct (fl =? 0) eqn:E; [lia|]. cbn [input flags pos].
  refine (conj _ (conj Hpl Hfl)). exists []. split; reflexivity.
Qed.


(* ---------- the whole scan (the hook `tokens`) ---------- *)

Definition rec_cat (x : token * Z * Z) : byte := t_cat (fst (fst x)).
Definition rec_val (x : token * Z * Z) : bytes := t_val (fst (fst x)).
Definition clip31 (w : bytes) : bytes := firstn (Z.to_nat (Z.min (len w) 31)) w.

Lemma tokens_loop_benign : forall l fuel s acc r,
  lex_inv s r -> Items l -> (r = join_sp l \/ r = sp_tail l) -> (List.length l < fuel)%nat ->
  exists toks s', tokens_loop fuel s acc = Ok (rev acc ++ toks, s') /\
    map rec_cat toks = map item_class l /\ map rec_val toks = map clip31 l /\
    input s' = input s /\ flags s' = flags s /\
    n_ddx (st s') = n_ddx (st s) /\ n_hash (st s') = n_hash (st s) /\ n_folds (st s') = n_folds (st s) /\
    n_tokens (st s') = n_tokens (st s) + Z.of_nat (List.length l).
Proof.
  induction l as [|w l' IH]; intros fuel s acc r Hlex Hl Hr Hfuel;
    (destruct fuel as [|fuel]; [cbn [List.length] in Hfuel; lia|]); cbn [tokens_loop];
    pose proof (tokenize_benign s tok0 r _ Hlex Hl Hr) as T.
  - destruct T as [t' ->]. cbn [bind]. exists [], s. rewrite app_nil_r. cbn [map List.length].
    splits; try reflexivity. lia.
  - destruct T as (p & Hp & -> & Hlex'). cbn [bind]. inversion Hl as [|w0 l0 Hw Hl']; subst w0 l0.
    destruct (IH fuel (after s (p + len w)) ((item_tok p w (item_class w) tok0, pos s, pos (after s (p + len w))) :: acc)
                 (sp_tail l') Hlex' Hl' (or_intror eq_refl) ltac:(cbn [List.length] in Hfuel; lia))
      as (toks & s' & E & A1 & A2 & A3 & A4 & A5 & A6 & A7 & A8).
    exists ((item_tok p w (item_class w) tok0, pos s, pos (after s (p + len w))) :: toks), s'.
    rewrite E. cbn [rev]. rewrite <- app_assoc. cbn [app map List.length].
    unfold after in A3, A4, A5, A6, A7, A8. cbn [input flags st n_ddx n_hash n_folds n_tokens] in *.
    splits; try assumption; try reflexivity.
    + f_equal. exact A1.
    + f_equal. exact A2.
    + lia.
Qed.

Lemma sp_tail_length l : (List.length l <= List.length (sp_tail l))%nat.
Proof. induction l as [|w l IH]; cbn [sp_tail List.length]; [lia|]. rewrite app_length. lia. Qed.

(* every item is one token: its class, its clipped value, and the statistics *)
Theorem tokens_benign items fl :
  items <> [] -> Items items ->
  Z.land fl (Z.lor c_sqli_flag_quote_single c_sqli_flag_quote_double) = 0 -> fl <> 0 ->
  exists toks s', tokens (join_sp items) fl = Ok (toks, s') /\
    map rec_cat toks = map item_class items /\ map rec_val toks = map clip31 items /\
    n_tokens (st s') = Z.of_nat (List.length items) /\
    n_ddx (st s') = 0 /\ n_hash (st s') = 0 /\ n_folds (st s') = 0.
Proof.
  intros Hne Hit Hfl H0. unfold tokens.
  destruct (tokens_loop_benign items (S (S (List.length (join_sp items)))) (sqli_init (join_sp items) fl) []
              (join_sp items)) as (toks & s' & E & A1 & A2 & A3 & A4 & A5 & A6 & A7 & A8).
  - apply lex_inv_init; try assumption. apply join_sp_plain. exact Hit.
  - exact Hit.
  - left. reflexivity.
  - destruct items as [|w l]; [congruence|]. rewrite join_sp_cons, app_length. cbn [List.length].
    pose proof (sp_tail_length l). lia.
  - exists toks, s'. cbn [rev app] in E. unfold sqli_init in A5, A6, A7, A8.
    cbn [st stats0 n_ddx n_hash n_folds n_tokens] in *. splits; try assumption; try lia.
Qed.
