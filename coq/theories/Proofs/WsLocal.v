(* WsLocal: locality of the SQL lexers (C03, whitespace runs).

   u = a ++ [w0]  is the reference prefix followed by one whitespace byte and
   nothing else;  i = a ++ w :: y  is the same prefix followed by another
   whitespace byte and an arbitrary tail.  A lexer started inside a that, on u,
   returns a token ending at or before  len a  returns the same token, the same
   resume offset and the same statistics on i: it never looked beyond the
   whitespace byte, and every question it asked about that byte has the same
   answer for all bytes of W. *)
From Coq Require Import List ZArith String Bool Lia ZifyBool.
From Coq.Strings Require Import Byte.
From LI Require Import Prelude Base SqliLex SqliFold Proofs.BaseFacts Proofs.Wp Proofs.LexBase Proofs.LexSpec
  Spec.WsSpec.
From LIGen Require Import Tables Dispatch Consts.
Import ListNotations.
Local Open Scope Z_scope.

(* lia, after turning the comparisons among the hypotheses into arithmetic facts and dropping
   every other boolean equation (lia is very slow when it has to case-split on them) *)
Ltac zlia :=
  repeat match goal with
         | H : (_ =? _) = true |- _ => apply Z.eqb_eq in H
         | H : (_ =? _) = false |- _ => apply Z.eqb_neq in H
         | H : (_ <? _) = true |- _ => apply Z.ltb_lt in H
         | H : (_ <? _) = false |- _ => apply Z.ltb_ge in H
         | H : (_ <=? _) = true |- _ => apply Z.leb_le in H
         | H : (_ <=? _) = false |- _ => apply Z.leb_gt in H
         end;
  repeat match goal with H : @eq bool _ _ |- _ => clear H end;
  lia.

(* ---------- whitespace bytes ---------- *)

Lemma isW_cases b : isW b = true ->
  b = x20 \/ b = x09 \/ b = x0a \/ b = x0b \/ b = x0c \/ b = x0d \/ b = xa0 \/ b = x00.
Proof.
  intros H. apply isW_inW in H. cbn in H.
  repeat (destruct H as [H|H]; [inversion H; auto 10|]). contradiction.
Qed.

(* a whitespace byte differs from every byte that is not whitespace *)
Lemma isW_beq w c : isW w = true -> isW c = false -> beq w c = false.
Proof.
  intros Hw Hc. apply beq_neq. intros ->. congruence.
Qed.

Lemma isW_beq' w c : isW w = true -> isW c = false -> beq c w = false.
Proof. intros. rewrite beq_sym. apply isW_beq; assumption. Qed.

(* ---------- lists: a prefix followed by something ---------- *)

Lemma get_app_l site (a t : bytes) j : j < len a -> get site (a ++ t) j = get site a j.
Proof.
  intros H. unfold get. destruct (0 <=? j) eqn:E; [|reflexivity].
  rewrite nth_error_app1 by (unfold len in H; lia). reflexivity.
Qed.

Lemma get_app_n site (a : bytes) f t : get site (a ++ f :: t) (len a) = Ok f.
Proof.
  unfold get. pose proof (len_nonneg a). destruct (0 <=? len a) eqn:E; [|lia].
  rewrite nth_error_app2 by (unfold len; lia). unfold len. rewrite Nat2Z.id, Nat.sub_diag. reflexivity.
Qed.

Lemma drop_app_l site (a t : bytes) j : 0 <= j <= len a ->
  drop site (a ++ t) j = Ok (skipn (Z.to_nat j) a ++ t).
Proof.
  intros H. rewrite drop_ok by (rewrite len_app; pose proof (len_nonneg t); lia).
  rewrite skipn_app. replace (Z.to_nat j - List.length a)%nat with 0%nat by (unfold len in H; lia).
  reflexivity.
Qed.

Lemma get_a_Ok site (a : bytes) j c : get site a j = Ok c ->
  exists a1 a2, a = a1 ++ c :: a2 /\ len a1 = j.
Proof.
  intros H. apply get_Ok_inv in H. destruct H as [R N].
  apply nth_error_split in N. destruct N as (a1 & a2 & -> & L). exists a1, a2. split; [reflexivity|].
  unfold len. lia.
Qed.

Lemma bind_ret {A B} (a : A) (f : A -> res B) : bind (Ok a) f = f a.
Proof. reflexivity. Qed.

Lemma index_byte_app x t c :
  index_byte (x ++ t) c =
  if 0 <=? index_byte x c then index_byte x c
  else if index_byte t c <? 0 then -1 else len x + index_byte t c.
Proof.
  induction x as [|b x IH]; cbn [app index_byte].
  - pose proof (index_byte_range t c). rewrite len_nil. change (0 <=? -1) with false. cbv iota.
    destruct (index_byte t c <? 0) eqn:E; lia.
  - destruct (beq b c); [reflexivity|]. rewrite IH, len_cons.
    pose proof (index_byte_range x c). pose proof (index_byte_range t c). pose proof (len_nonneg x).
    destruct H as [H|H].
    + rewrite H. change (-1 <? 0) with true. change (0 <=? -1) with false. cbv iota.
      change (-1 <? 0) with true. cbv iota. change (0 <=? -1) with false. cbv iota.
      destruct (index_byte t c <? 0) eqn:E3; [reflexivity|].
      replace (len x + index_byte t c <? 0) with false by lia. cbv iota. lia.
    + replace (index_byte x c <? 0) with false by lia. replace (0 <=? index_byte x c) with true by lia. cbv iota.
      replace (index_byte x c <? 0) with false by lia. cbv iota.
      replace (0 <=? index_byte x c + 1) with true by lia. reflexivity.
Qed.

Lemma assign_app t ty p l (x t1 : bytes) :
  (if l <? c_token_size then l else c_token_size - 1) <= len x ->
  assign t ty p l (x ++ t1) = assign t ty p l x.
Proof.
  intros H. unfold assign. set (last := if l <? c_token_size then l else c_token_size - 1) in *.
  unfold take. rewrite len_app. pose proof (len_nonneg t1).
  destruct (0 <=? last) eqn:E; cbn [andb]; [|reflexivity].
  replace (last <=? len x + len t1) with true by lia. replace (last <=? len x) with true by lia.
  rewrite firstn_app. replace (Z.to_nat last - List.length x)%nat with 0%nat by (unfold len in H; lia).
  cbn [firstn]. rewrite app_nil_r. reflexivity.
Qed.

Lemma span_app_stop (P : byte -> bool) x f t1 : P f = false -> span P (x ++ f :: t1) = span P x.
Proof.
  intros H. induction x as [|b x IH]; cbn [app span]; [rewrite H; reflexivity|].
  destruct (P b); [rewrite IH; reflexivity|reflexivity].
Qed.

Lemma span_len_exact site P s l : 0 <= l <= len s -> span_len site P s l = Ok (Z.min l (span P s)).
Proof.
  intros H. unfold span_len. destruct (l <? 0) eqn:E; [lia|].
  rewrite span_n_exact by (unfold len in H; lia). replace (Z.of_nat (Z.to_nat l)) with l by lia. reflexivity.
Qed.

Lemma len_skipn_a (a : bytes) p : 0 <= p <= len a -> len (skipn (Z.to_nat p) a) = len a - p.
Proof. apply len_skipn_le. Qed.

(* ---------- the letter lexers fall through to parseWord ---------- *)

Lemma get_site site1 site2 s j c : get site1 s j = Ok c -> get site2 s j = Ok c.
Proof. unfold get. destruct (0 <=? j); [|discriminate]. destruct (nth_error s (Z.to_nat j)); [auto|discriminate]. Qed.

Lemma nquote_get site s j c : nquote s j = true -> get site s j = Ok c ->
  beq c b_byte_single = false /\ beq c b_byte_double = false /\ beq c b_byte_tick = false.
Proof.
  intros N G. unfold nquote in N. rewrite (get_site site "" s j c G) in N.
  destruct (beq c b_byte_single); [discriminate N|]. destruct (beq c b_byte_double); [discriminate N|].
  destruct (beq c b_byte_tick); [discriminate N|]. auto.
Qed.

Lemma whiteat_get site s j c : get site s j = Ok c -> whiteat s j = isW c.
Proof. intros G. unfold whiteat. rewrite (get_site site "" s j c G). reflexivity. Qed.

Section Plain.
Context (s : sqlst) (t : token) (H0 : 0 <= pos s) (HP : plain_after (input s) (pos s) = true).

Lemma plain1 site c : get site (input s) (pos s + 1) = Ok c -> beq c b_byte_single = false.
Proof.
  intros G. unfold plain_after in HP. apply andb_true_iff in HP. destruct HP as [N _].
  exact (proj1 (nquote_get site _ _ _ N G)).
Qed.

Lemma plain2 site1 site2 c1 c2 :
  get site1 (input s) (pos s + 1) = Ok c1 -> get site2 (input s) (pos s + 2) = Ok c2 ->
  isW c1 = true \/ beq c2 b_byte_single = false.
Proof.
  intros G1 G2. unfold plain_after in HP. apply andb_true_iff in HP. destruct HP as [_ N].
  apply orb_true_iff in N. destruct N as [N|N].
  - left. rewrite (whiteat_get site1 _ _ _ G1) in N. exact N.
  - right. exact (proj1 (nquote_get site2 _ _ _ N G2)).
Qed.

Lemma get_lt site j : 0 <= j < slen s -> exists c, get site (input s) j = Ok c.
Proof. intros H. destruct (get_ok site (input s) j H) as [c [G _]]. eauto. Qed.

Lemma parse_xb_string_word digits : parse_xb_string digits s t = parse_word s t.
Proof.
  unfold parse_xb_string, at_. destruct (slen s <=? pos s + 2) eqn:E; [reflexivity|].
  destruct (get_lt "parseXString" (pos s + 1) ltac:(lia)) as [c G]. rewrite G. cbn [bind].
  rewrite (plain1 _ _ G). reflexivity.
Qed.

Lemma parse_estring_word : parse_estring s t = parse_word s t.
Proof.
  unfold parse_estring, at_. destruct (slen s <=? pos s + 2) eqn:E; [reflexivity|].
  destruct (get_lt "parseEString" (pos s + 1) ltac:(lia)) as [c G]. rewrite G. cbn [bind].
  rewrite (plain1 _ _ G). reflexivity.
Qed.

Lemma parse_ustring_word : parse_ustring s t = parse_word s t.
Proof.
  unfold parse_ustring, at_. destruct (pos s + 2 <? slen s) eqn:E; [|reflexivity].
  destruct (get_lt "parseUString" (pos s + 1) ltac:(lia)) as [c1 G1].
  destruct (get_lt "parseUString" (pos s + 2) ltac:(lia)) as [c2 G2]. rewrite G1. cbn [bind].
  destruct (beq c1 x26) eqn:B; [|reflexivity]. rewrite G2. cbn [bind].
  destruct (plain2 _ _ _ _ G1 G2) as [W|Q].
  - apply beq_eq in B. subst c1. discriminate W.
  - rewrite Q. reflexivity.
Qed.

Lemma parse_qstring_core1_word : parse_qstring_core 1 s t = parse_word s t.
Proof.
  unfold parse_qstring_core, at_. destruct (slen s <=? pos s + 1) eqn:E; [reflexivity|].
  destruct (get_lt "parseQStringCore" (pos s + 1) ltac:(lia)) as [c1 G1]. rewrite G1. cbn [bind].
  destruct (negb (beq c1 x71) && negb (beq c1 x51)) eqn:B; [reflexivity|].
  destruct (slen s <=? pos s + 1 + 2) eqn:E2; [reflexivity|].
  destruct (get_lt "parseQStringCore" (pos s + 2) ltac:(lia)) as [c2 G2].
  replace (pos s + 1 + 1) with (pos s + 2) by lia. rewrite G2. cbn [bind].
  destruct (plain2 _ _ _ _ G1 G2) as [W|Q].
  - exfalso. destruct (beq c1 x71) eqn:B1; [apply beq_eq in B1; subst c1; discriminate W|].
    destruct (beq c1 x51) eqn:B2; [apply beq_eq in B2; subst c1; discriminate W|]. discriminate B.
  - rewrite Q. reflexivity.
Qed.

Lemma parse_nqstring_word : parse_nqstring s t = parse_word s t.
Proof.
  unfold parse_nqstring, at_. destruct (pos s + 2 <? slen s) eqn:E.
  - destruct (get_lt "parseNqString" (pos s + 1) ltac:(lia)) as [c G]. rewrite G. cbn [bind].
    rewrite (plain1 _ _ G). apply parse_qstring_core1_word.
  - apply parse_qstring_core1_word.
Qed.

End Plain.

(* parse_number cut in two: the prefixed (0x / 0b) form and the decimal form *)
Local Open Scope res_scope.
Definition number_suffix (start : Z) (isE have_exp : bool) (p : Z) : lexer := fun s t =>
        suffix <- (if p <? slen s then
                     (a <- at_ "parseNumber" s p ;;
                      Ok (beq a x64 || beq a x44 || beq a x66 || beq a x46))
                   else Ok false) ;;
        p <- (if (suffix : bool) then
                if p + 1 =? slen s then Ok (p + 1)
                else
                  (b <- at_ "parseNumber:suffix" s (p + 1) ;;
                   if is_byte_white b || beq b x3b then Ok (p + 1)
                   else if beq b x75 || beq b x55 then Ok (p + 1)
                   else Ok p)
              else Ok p) ;;
        rest <- input_from "parseNumber:input[start:]" s start ;;
        if (isE : bool) && negb have_exp then
          t <- assign t b_sqli_token_type_bare_word start (p - start) rest ;; Ok (s, t, p)
        else
          t <- assign t b_sqli_token_type_number start (p - start) rest ;; Ok (s, t, p).

Definition number_tail (start : Z) (frac : Z) : lexer := fun s t =>
        let p := frac in
        isE <- (if p <? slen s then (a <- at_ "parseNumber" s p ;; Ok (beq a x45 || beq a x65)) else Ok false) ;;
        '(p, have_exp) <-
          (if (isE : bool) then
             let p := p + 1 in
             sign <- (if p <? slen s then (a <- at_ "parseNumber" s p ;; Ok (beq a x2b || beq a x2d)) else Ok false) ;;
             let p := if (sign : bool) then p + 1 else p in
             r <- input_from "parseNumber:exp" s p ;;
             let n := span is_digit r in
             Ok (p + n, 0 <? n)
           else Ok (p, false)) ;;
        number_suffix start isE have_exp p s t.

Definition number_dec : lexer := fun s t =>
  let p0 := pos s in
      let start := p0 in
      r <- input_from "parseNumber:digits" s p0 ;;
      let p := p0 + span is_digit r in
      dot <- (if p <? slen s then (a <- at_ "parseNumber" s p ;; Ok (beq a x2e)) else Ok false) ;;
      frac <- (if (dot : bool) then
                 (r <- input_from "parseNumber:frac" s (p + 1) ;; Ok (p + 1 + span is_digit r))
               else Ok p) ;;
      if (dot : bool) && (frac - start =? 1) then
        t <- assign t b_sqli_token_type_dot start 1 (bs ".") ;; Ok (s, t, frac)
      else number_tail start frac s t.

Definition number_pre (digits : bytes) : lexer := fun s t =>
  let p0 := pos s in
      rest2 <- input_from "parseNumber:input[pos+2:]" s (p0 + 2) ;;
      length <- str_len_spn rest2 (slen s - p0 - 2) digits ;;
      rest <- input_from "parseNumber" s p0 ;;
      if length =? 0 then
        t <- assign t b_sqli_token_type_bare_word p0 2 rest ;; Ok (s, t, p0 + 2)
      else
        t <- assign t b_sqli_token_type_number p0 (2 + length) rest ;; Ok (s, t, p0 + 2 + length).

Lemma parse_number_eq s t :
  parse_number s t =
  (let p0 := pos s in
   c0 <- at_ "parseNumber" s p0 ;;
   digits <- (if beq c0 x30 && (p0 + 1 <? slen s) then
               (c1 <- at_ "parseNumber" s (p0 + 1) ;;
                Ok (if beq c1 x58 || beq c1 x78 then bs "0123456789ABCDEFabcdef"
                    else if beq c1 x42 || beq c1 x62 then bs "01" else []))
             else Ok []) ;;
   match digits with
   | _ :: _ => number_pre digits s t
   | [] => number_dec s t
   end).
Proof. reflexivity. Qed.
Local Close Scope res_scope.

Section Local.

Context (a : bytes) (w0 w : byte) (y : bytes) (Hw0 : isW w0 = true) (Hw : isW w = true).

Notation n := (len a).
Notation U := (a ++ [w0]).
Notation I := (a ++ w :: y).

Lemma lenU : len U = n + 1.
Proof. rewrite len_app. reflexivity. Qed.
Lemma lenI : len I = n + 1 + len y.
Proof. rewrite len_app, len_cons. lia. Qed.

(* the result of a lexer on U is reproduced on I *)
Definition loc (L : lexer) : Prop :=
  forall fl p stt t0 s' t np,
    0 <= p < n ->
    L (mkSt U fl p stt) t0 = Ok (s', t, np) -> np <= n ->
    exists s'', L (mkSt I fl p stt) t0 = Ok (s'', t, np) /\ st s'' = st s'.


(* ---------- tactics ---------- *)

(* byte j of a *)
Definition ab (j : Z) : byte := nth (Z.to_nat j) a x00.

Lemma get_a site j : 0 <= j < n -> get site a j = Ok (ab j).
Proof.
  intros H. unfold get, ab. destruct (0 <=? j) eqn:E; [|lia].
  destruct (nth_error a (Z.to_nat j)) eqn:N.
  - rewrite (nth_error_nth _ _ _ N). reflexivity.
  - apply nth_error_None in N. unfold len in H. lia.
Qed.
Lemma getU_lt site j : 0 <= j < n -> get site U j = Ok (ab j).
Proof. intros H. rewrite get_app_l by zlia. apply get_a. exact H. Qed.
Lemma getI_lt site j : 0 <= j < n -> get site I j = Ok (ab j).
Proof. intros H. rewrite get_app_l by zlia. apply get_a. exact H. Qed.
Lemma getU_n site j : j = n -> get site U j = Ok w0.
Proof. intros ->. apply get_app_n. Qed.
Lemma getI_n site j : j = n -> get site I j = Ok w.
Proof. intros ->. apply get_app_n. Qed.
Lemma getU_gt site j : n < j -> get site U j = Panic site.
Proof.
  intros H. unfold get. destruct (0 <=? j) eqn:E; [|reflexivity].
  destruct (nth_error U (Z.to_nat j)) eqn:N; [|reflexivity].
  apply nth_error_len in N. rewrite app_length in N. cbn [List.length] in N. unfold len in H. lia.
Qed.

(* byte j of U / of I, for j <= n: the tests of the lexers cannot tell them apart *)
Definition cU (j : Z) : byte := if j =? n then w0 else ab j.
Definition cI (j : Z) : byte := if j =? n then w else ab j.

Lemma getU_le site j : 0 <= j <= n -> get site U j = Ok (cU j).
Proof.
  intros H. unfold cU. destruct (j =? n) eqn:E; [apply getU_n; lia|apply getU_lt; lia].
Qed.
Lemma getI_le site j : 0 <= j <= n -> get site I j = Ok (cI j).
Proof.
  intros H. unfold cI. destruct (j =? n) eqn:E; [apply getI_n; lia|apply getI_lt; lia].
Qed.

Lemma beq_cU j c : isW c = false -> beq (cU j) c = negb (j =? n) && beq (ab j) c.
Proof. intros H. unfold cU. destruct (j =? n); [apply isW_beq; assumption|reflexivity]. Qed.
Lemma beq_cI j c : isW c = false -> beq (cI j) c = negb (j =? n) && beq (ab j) c.
Proof. intros H. unfold cI. destruct (j =? n); [apply isW_beq; assumption|reflexivity]. Qed.
Lemma white_cU j : is_byte_white (cU j) = (j =? n) || is_byte_white (ab j).
Proof. unfold cU. destruct (j =? n); [exact Hw0|reflexivity]. Qed.
Lemma white_cI j : is_byte_white (cI j) = (j =? n) || is_byte_white (ab j).
Proof. unfold cI. destruct (j =? n); [exact Hw|reflexivity]. Qed.

Lemma wb0 : is_byte_white w0 = true. Proof. exact Hw0. Qed.
Lemma wb : is_byte_white w = true. Proof. exact Hw. Qed.

(* decide comparisons by zlia, in E and in the goal (the other hypotheses keep their facts) *)
Ltac dec1 E c :=
  first [ let H := fresh in assert (H : c = true) by zlia; rewrite ?H in E; rewrite ?H; clear H
        | let H := fresh in assert (H : c = false) by zlia; rewrite ?H in E; rewrite ?H; clear H ].

Ltac dec_guards E :=
  repeat match goal with
         | |- context [?x <? ?y] => dec1 E (x <? y)
         | |- context [?x <=? ?y] => dec1 E (x <=? y)
         | |- context [?x =? ?y] => dec1 E (x =? y)
         end;
  repeat match type of E with
         | context [?x <? ?y] => dec1 E (x <? y)
         | context [?x <=? ?y] => dec1 E (x <=? y)
         | context [?x =? ?y] => dec1 E (x =? y)
         end.

(* reads of the two inputs, by position *)
Ltac norm_gets :=
  repeat match goal with
         | H : context [get ?s U ?j] |- _ =>
             first [ rewrite (getU_lt s j) in H by zlia | rewrite (getU_n s j) in H by zlia
                   | rewrite (getU_gt s j) in H by zlia ]
         | |- context [get ?s I ?j] =>
             first [ rewrite (getI_lt s j) by zlia | rewrite (getI_n s j) by zlia ]
         end.

(* tests on the whitespace bytes *)
Ltac wtests :=
  repeat match goal with
         | H : context [is_byte_white w0] |- _ => rewrite wb0 in H
         | H : context [is_byte_white w] |- _ => rewrite wb in H
         | |- context [is_byte_white w] => rewrite wb
         | |- context [is_byte_white w0] => rewrite wb0
         | H : context [beq w0 ?c] |- _ => rewrite (isW_beq w0 c Hw0 eq_refl) in H
         | H : context [beq w ?c] |- _ => rewrite (isW_beq w c Hw eq_refl) in H
         | |- context [beq w ?c] => rewrite (isW_beq w c Hw eq_refl)
         | |- context [beq w0 ?c] => rewrite (isW_beq w0 c Hw0 eq_refl)
         end.

(* canonical form of the tests on a byte read at an offset <= n *)
Ltac ctests :=
  repeat match goal with
         | H : context [beq (cU ?j) ?c] |- _ => rewrite (beq_cU j c eq_refl) in H
         | |- context [beq (cI ?j) ?c] => rewrite (beq_cI j c eq_refl)
         | H : context [is_byte_white (cU ?j)] |- _ => rewrite (white_cU j) in H
         | |- context [is_byte_white (cI ?j)] => rewrite (white_cI j)
         end.

Ltac simp_all := cbn [bind andb orb negb] in *.

(* the same by rewriting at the head: after a big continuation has been exposed, the
   kernel's re-check of a cbn conversion step can be exponentially slow *)
Ltac rsimp :=
  cbv beta iota in *; repeat (progress (rewrite ?bind_ret in *; cbv beta iota in *)); cbn [andb orb negb] in *.

Lemma dropU site j : 0 <= j <= n -> drop site U j = Ok (skipn (Z.to_nat j) a ++ [w0]).
Proof. apply drop_app_l. Qed.
Lemma dropI site j : 0 <= j <= n -> drop site I j = Ok (skipn (Z.to_nat j) a ++ w :: y).
Proof. apply drop_app_l. Qed.

Lemma slice_app_l site (x t1 : bytes) i j : 0 <= i <= j -> j <= len x ->
  slice site (x ++ t1) i j = Ok (firstn (Z.to_nat (j - i)) (skipn (Z.to_nat i) x)).
Proof.
  intros H1 H2. rewrite slice_ok by (try rewrite len_app; pose proof (len_nonneg t1); lia).
  rewrite skipn_app. replace (Z.to_nat i - List.length x)%nat with 0%nat by (unfold len in *; lia).
  cbn [skipn]. rewrite firstn_app.
  replace (Z.to_nat (j - i) - List.length (skipn (Z.to_nat i) x))%nat with 0%nat.
  - cbn [firstn]. rewrite app_nil_r. reflexivity.
  - rewrite skipn_length. unfold len in *. lia.
Qed.

Lemma slice_app_n site (x : bytes) f t1 i : 0 <= i <= len x ->
  slice site (x ++ f :: t1) i (len x + 1) = Ok (skipn (Z.to_nat i) x ++ [f]).
Proof.
  intros H. rewrite slice_ok by (try rewrite len_app, len_cons; pose proof (len_nonneg t1); lia).
  rewrite skipn_app. replace (Z.to_nat i - List.length x)%nat with 0%nat by (unfold len in *; lia).
  cbn [skipn]. rewrite firstn_app.
  replace (Z.to_nat (len x + 1 - i) - List.length (skipn (Z.to_nat i) x))%nat with 1%nat
    by (rewrite skipn_length; unfold len in *; lia).
  rewrite firstn_all2 by (rewrite skipn_length; unfold len in *; lia). reflexivity.
Qed.

Lemma sliceU_lt site i j : 0 <= i <= j -> j <= n -> slice site U i j = Ok (firstn (Z.to_nat (j - i)) (skipn (Z.to_nat i) a)).
Proof. apply slice_app_l. Qed.
Lemma sliceI_lt site i j : 0 <= i <= j -> j <= n -> slice site I i j = Ok (firstn (Z.to_nat (j - i)) (skipn (Z.to_nat i) a)).
Proof. apply slice_app_l. Qed.
Lemma sliceU_n site i j : 0 <= i <= n -> j = n + 1 -> slice site U i j = Ok (skipn (Z.to_nat i) a ++ [w0]).
Proof. intros H ->. apply slice_app_n. exact H. Qed.
Lemma sliceI_n site i j : 0 <= i <= n -> j = n + 1 -> slice site I i j = Ok (skipn (Z.to_nat i) a ++ [w]).
Proof. intros H ->. apply slice_app_n. exact H. Qed.

Lemma skipn_last j : 0 <= j -> j + 1 = n -> skipn (Z.to_nat j) a = [ab j].
Proof.
  intros H0 H. unfold ab. pose proof (len_nonneg a).
  assert (L : List.length (skipn (Z.to_nat j) a) = 1%nat) by (rewrite skipn_length; unfold len in *; lia).
  destruct (skipn (Z.to_nat j) a) as [|b [|c r]] eqn:S; cbn [List.length] in L; try lia.
  f_equal. rewrite <- (firstn_skipn (Z.to_nat j) a) at 1. rewrite S.
  rewrite app_nth2 by (rewrite firstn_length; lia).
  rewrite firstn_length. replace (Z.to_nat j - Nat.min (Z.to_nat j) (List.length a))%nat with 0%nat by (unfold len in *; lia).
  reflexivity.
Qed.

Ltac norm_slices :=
  repeat match goal with
         | H : context [slice ?s U ?i ?j] |- _ =>
             first [ rewrite (sliceU_lt s i j) in H by zlia | rewrite (sliceU_n s i j) in H by zlia ]
         | |- context [slice ?s I ?i ?j] =>
             first [ rewrite (sliceI_lt s i j) by zlia | rewrite (sliceI_n s i j) by zlia ]
         end.

Ltac norm_drops :=
  repeat match goal with
         | H : context [drop ?s U ?j] |- _ => rewrite (dropU s j) in H by zlia
         | |- context [drop ?s I ?j] => rewrite (dropI s j) by zlia
         end.

(* identical branches *)
Ltac same_ifs :=
  repeat match goal with
         | |- context [if ?c then ?x else ?x] => replace (if c then x else x) with x by (destruct c; reflexivity)
         | H : context [if ?c then ?x else ?x] |- _ => replace (if c then x else x) with x in H by (destruct c; reflexivity)
         end.

Ltac norm E :=
  unfold has_flag in *; cbn [flags input pos st] in *;
  dec_guards E; norm_gets; norm_drops; norm_slices; simp_all; wtests; simp_all; same_ifs; simp_all.

(* decide guards and reduce, until nothing moves *)
Ltac dg E := repeat (progress (dec_guards E; same_ifs; simp_all)).

(* a call of another lexer at the end of E *)
Ltac sub E G L :=
  let s2 := fresh "s2" in let E2 := fresh "E2" in let S2 := fresh "S2" in
  edestruct L as [s2 [E2 S2]]; [ | exact E | exact G | ]; [lia | ];
  rewrite E2; eexists; split; [reflexivity|exact S2].

(* split on the next shared condition / read of E *)
Ltac estep E :=
  lazymatch type of E with
  | Ok _ = Ok _ => fail
  | Panic _ = Ok _ => discriminate E
  | OutOfFuel = Ok _ => discriminate E
  | StackOverflow = Ok _ => discriminate E
  | _ =>
    match type of E with
    | context [bind (get ?s a ?j) _] => destruct (get s a j) eqn:?; simp_all
    | context [if ?c then _ else _] => destruct c eqn:?; simp_all
    end
  end.

Ltac estep2 E :=
  lazymatch type of E with
  | Ok _ = Ok _ => fail
  | Panic _ = Ok _ => discriminate E
  | OutOfFuel = Ok _ => discriminate E
  | StackOverflow = Ok _ => discriminate E
  | bind (Panic _) _ = Ok _ => discriminate E
  | bind OutOfFuel _ = Ok _ => discriminate E
  | bind StackOverflow _ = Ok _ => discriminate E
  | _ =>
    once (match type of E with
    | context [bind (get ?s a ?j) _] => destruct (get s a j) eqn:?; rsimp
    | context [if ?c then _ else _] => destruct c eqn:?; rsimp
    | context [bind (assign ?x1 ?x2 ?x3 ?x4 ?x5) _] => destruct (assign x1 x2 x3 x4 x5) eqn:?; rsimp
    | context [bind (take ?x1 ?x2 ?x3) _] => destruct (take x1 x2 x3) eqn:?; rsimp
    end)
  end.

(* the next read of U in E, at an offset not known to be < n or = n *)
Ltac rd E :=
  once match type of E with
  | context [get ?s U ?j] =>
      first [ assert (0 <= j <= n) by zlia
            | destruct (Z_le_gt_dec j n);
              [ assert (0 <= j <= n) by zlia
              | exfalso; rewrite (getU_gt s j) in E by zlia; simp_all; repeat estep2 E; discriminate E ] ];
      rewrite (getU_le s j) in E by zlia; rewrite ?(getI_le s j) by zlia; unfold cU, cI in *;
      first [ dec1 E (j =? n) | destruct (j =? n) eqn:? ]; simp_all; wtests; simp_all
  end.

Ltac estep2if E :=
  once (match type of E with
        | context [if ?c then _ else _] => destruct c eqn:?; rsimp
        end).

Ltac done E := inversion E; subst; clear E; eexists; split; reflexivity.
Ltac fin E := rsimp; repeat estep2 E; done E.

Ltac start0 L :=
  unfold L in *; simp_st; unfold at_, input_from, slen in *;
  cbn [input pos] in *; rewrite ?lenU; rewrite ?lenI; pose proof (len_nonneg y) as Ly.

Ltac start L :=
  intros fl p stt t0 s' t np Hp E G; unfold L in *; simp_st; unfold at_, input_from, slen in *;
  cbn [input pos] in *; rewrite ?lenU in E; rewrite ?lenI; pose proof (len_nonneg y) as Ly.

Ltac asz :=
  unfold c_token_size in *;
  repeat match goal with |- context [if ?c then _ else _] => destruct c eqn:? end; zlia.

Ltac norm_assign :=
  repeat match goal with
         | H : context [assign ?t ?ty ?p ?l (?x ++ ?t1)] |- _ => rewrite (assign_app t ty p l x t1) in H by asz
         | |- context [assign ?t ?ty ?p ?l (?x ++ ?t1)] => rewrite (assign_app t ty p l x t1) by asz
         end.

(* name the rest of a from offset j *)
Ltac name_rest j x Lx :=
  let Hx := fresh "Hx" in
  remember (skipn (Z.to_nat j) a) as x eqn:Hx;
  assert (Lx : len x = n - j) by (rewrite Hx; apply len_skipn_a; lia).

Lemma parse_eol_comment_loc : loc parse_eol_comment.
Proof.
  intros fl p stt t0 s' t np Hp E G. unfold parse_eol_comment, input_from in *. simp_st. unfold slen in *. cbn [input] in *.
  rewrite lenU in E. rewrite lenI. norm E.
  set (x := skipn (Z.to_nat p) a) in *.
  assert (Lx : len x = n - p) by (apply len_skipn_a; lia).
  rewrite index_byte_app in E |- *.
  pose proof (index_byte_range x x0a) as R.
  destruct (0 <=? index_byte x x0a) eqn:F.
  - replace (index_byte x x0a =? -1) with false in * by lia.
    rewrite assign_app in E |- * by (destruct (index_byte x x0a <? c_token_size) eqn:?; unfold c_token_size in *; lia).
    fin E.
  - exfalso. cbn [index_byte] in E. change (-1 <? 0) with true in E. cbv iota in E.
    destruct (beq w0 x0a); cbv iota in E.
    + change (0 <? 0) with false in E. cbv iota in E. repeat estep2 E; inversion E; subst; lia.
    + change (-1 <? 0) with true in E. cbv iota in E. change (-1 =? -1) with true in E. cbv iota in E.
      repeat estep2 E; inversion E; subst; lia.
Qed.

Lemma parse_dash_loc : loc parse_dash.
Proof.
  intros fl p stt t0 s' t np Hp E G. unfold parse_dash in *. simp_st. unfold at_, slen in *. cbn [input] in *.
  rewrite lenU in E. rewrite lenI. pose proof (len_nonneg y) as Ly.
  assert (D : p + 1 = n \/ p + 2 = n \/ p + 3 <= n) by lia.
  destruct D as [D|[D|D]].
  - norm E. fin E.
  - norm E. repeat estep2 E; first [done E | sub E G parse_eol_comment_loc].

  - norm E. repeat estep2 E; first [done E | sub E G parse_eol_comment_loc].
Qed.

Lemma parse_operator1_loc : loc parse_operator1.
Proof. start parse_operator1. norm E. name_rest p x Lx. norm_assign. fin E. Qed.

Lemma parse_byte_loc : loc parse_byte.
Proof. start parse_byte. norm E. name_rest p x Lx. norm_assign. fin E. Qed.

Lemma parse_other_loc : loc parse_other.
Proof. start parse_other. norm E. name_rest p x Lx. norm_assign. fin E. Qed.

Lemma parse_operator2_loc : loc parse_operator2.
Proof.
  start parse_operator2.
  assert (D : p + 1 = n \/ p + 2 = n \/ p + 3 <= n) by lia.
  destruct D as [D|[D|D]]; norm E; name_rest p x Lx; norm_assign.
  - assert (Hx1 : x = [ab p]) by (rewrite Hx; apply skipn_last; lia). rewrite Hx1 in *. cbn [app] in *.
    rewrite !kw2_W in * by assumption.
    change (negb (beq x00 x00)) with false in *. cbv iota in *.
    repeat estep2 E; first [done E | sub E G parse_operator1_loc].

  - repeat estep2 E; first [done E | sub E G parse_operator1_loc].
  - repeat estep2 E; first [done E | sub E G parse_operator1_loc].
Qed.

Definition notdelim (b : byte) : bool := negb (mem b word_accept).

Lemma notdelim_W b : isW b = true -> notdelim b = false.
Proof.
  intros H. apply isW_facts in H. unfold w_facts in H.
  destruct (mem b word_accept) eqn:M; [unfold notdelim; rewrite M; reflexivity|].
  rewrite andb_false_r in H. discriminate H.
Qed.

Lemma parse_word_loc : loc parse_word.
Proof.
  start parse_word.
  (* keep the kernel from unfolding the keyword-split loop when it re-checks the proof *)
  set (ws := word_split_loop) in *.
  assert (WSS : forall fuel val i n, 0 <= i -> n <= len val -> n - i <= Z.of_nat fuel ->
            wp (ws fuel val i n)
               (fun r => match r with
                         | Some (j, ch) => i <= j < n /\ ch = search_keyword (firstn (Z.to_nat j) val)
                                           /\ ch <> x00 /\ ch <> b_sqli_token_type_bare_word
                         | None => True
                         end)) by (exact word_split_loop_spec).
  clearbody ws.
  unfold str_len_cspn in *. norm E. name_rest p x Lx.
  fold notdelim in *.
  rewrite span_len_exact in E by (rewrite len_app; change (len [w0]) with 1; unfold c_token_size; split_ifs; lia).
  rewrite span_len_exact by (rewrite len_app, len_cons; unfold c_token_size; split_ifs; lia).
  rewrite !span_app_stop in * by (apply notdelim_W; assumption).
  pose proof (span_range notdelim x) as Rs.
  remember (Z.min c_token_size (span notdelim x)) as L eqn:HL0.
  replace (Z.min (if c_token_size <? n + 1 - p then c_token_size else n + 1 - p) (span notdelim x)) with L in E
    by (unfold c_token_size in *; split_ifs; lia).
  replace (Z.min (if c_token_size <? n + 1 + len y - p then c_token_size else n + 1 + len y - p) (span notdelim x)) with L
    by (unfold c_token_size in *; split_ifs; lia).
  assert (HL : 0 <= L <= len x /\ L <= c_token_size) by (unfold c_token_size in *; lia).
  simp_all. norm_assign.
  (* the token is kept abstract (a big record copied into every branch makes the
     kernel's re-check of the conversion steps very slow) *)
  pose proof (assign_ok t0 b_sqli_token_type_bare_word p L x ltac:(lia) ltac:(unfold c_token_size in *; lia)) as A.
  destruct (assign t0 b_sqli_token_type_bare_word p L x) as [tk| | |] eqn:A0; try discriminate A.
  rsimp.
  remember (firstn (Z.to_nat (Z.min L 31)) x) as v eqn:Hv.
  assert (Lv : len v = Z.min L 31) by (rewrite Hv; apply len_firstn_le; unfold c_token_size in *; lia).
  assert (Tv : t_val tk = v) by (inversion A; reflexivity).
  assert (Tl : t_len tk = Z.min L 31) by (inversion A; reflexivity).
  clear A. rewrite Tv, Tl in *.
  destruct (wp_inv _ _ (WSS (Z.to_nat c_token_size) v 0 (Z.min L 31) ltac:(lia) ltac:(lia)
                ltac:(unfold c_token_size in *; lia))) as [r [W WS]].
  rewrite W in E |- *. rsimp. destruct r as [[i ch]|]; rsimp.
  - destruct WS as (Hi & _). norm_assign. fin E.
  - destruct (L =? c_token_size) eqn:EL.
    + norm_drops. name_rest (p + L) x2 Lx2. rsimp.
      rewrite span_len_exact in E by (rewrite len_app; change (len [w0]) with 1; lia).
      rewrite span_len_exact by (rewrite len_app, len_cons; lia).
      rewrite !span_app_stop in * by (apply notdelim_W; assumption).
      pose proof (span_range notdelim x2) as Rs2.
      replace (Z.min (n + 1 - p - L) (span notdelim x2)) with (span notdelim x2) in E by lia.
      replace (Z.min (n + 1 + len y - p - L) (span notdelim x2)) with (span notdelim x2) by lia.
      fin E.
    + fin E.
Qed.


(* ---------- strings ---------- *)

Lemma drop_cons1 site (c : byte) l : drop site (c :: l) 1 = Ok l.
Proof. rewrite drop_ok by (rewrite len_cons; pose proof (len_nonneg l); lia). reflexivity. Qed.

Lemma drop_cons2 site (c1 c2 : byte) l : drop site (c1 :: c2 :: l) 2 = Ok l.
Proof. rewrite drop_ok by (rewrite !len_cons; pose proof (len_nonneg l); lia). reflexivity. Qed.

Lemma is_dd_app x t1 t2 d :
  (exists r, x = d :: r) -> isW d = false ->
  (forall f r, t1 = f :: r -> isW f = true) -> (forall f r, t2 = f :: r -> isW f = true) ->
  t1 <> [] -> t2 <> [] ->
  is_double_delimiter_escaped (x ++ t1) = is_double_delimiter_escaped (x ++ t2).
Proof.
  intros [r ->] Hd H1 H2 N1 N2. destruct r as [|c r]; cbn [app is_double_delimiter_escaped]; [|reflexivity].
  destruct t1 as [|f1 r1]; [congruence|]. destruct t2 as [|f2 r2]; [congruence|].
  rewrite (isW_beq' f1 d (H1 _ _ eq_refl) Hd), (isW_beq' f2 d (H2 _ _ eq_refl) Hd). reflexivity.
Qed.

Lemma string_core_loop_loc d : isW d = false ->
  forall fuelU fuelI start k q, (fuelU <= fuelI)%nat -> 0 <= start <= k -> k <= n ->
  string_core_loop fuelU U start k d = Ok (Some q) -> q < n ->
  string_core_loop fuelI I start k d = Ok (Some q).
Proof.
  intros Hd. induction fuelU as [|fuelU IH]; intros fuelI start k q F Hs Hk E Q; [discriminate E|].
  destruct fuelI as [|fuelI]; [lia|]. cbn [string_core_loop] in *.
  norm_drops. name_rest k x Lx. simp_all.
  rewrite index_byte_app in E |- *.
  pose proof (index_byte_range x d) as R.
  destruct (0 <=? index_byte x d) eqn:Fd.
  - remember (index_byte x d) as idx eqn:Hidx.
    replace (idx =? -1) with false in * by lia.
    assert (Nd : nth_error a (Z.to_nat (k + idx)) = Some d).
    { pose proof (index_byte_found x d idx (eq_sym Hidx) ltac:(lia)) as N. rewrite Hx, nth_error_skipn in N.
      replace (Z.to_nat (k + idx)) with (Z.to_nat k + Z.to_nat idx)%nat by lia. exact N. }
    norm_drops. norm_slices. simp_all.
    rewrite (skipn_nth_cons _ _ _ Nd) in *. cbn [app] in *.
    assert (Lr : len (skipn (S (Z.to_nat (k + idx))) a) = n - (k + idx) - 1).
    { rewrite len_skipn. unfold len in *. lia. }
    remember (skipn (S (Z.to_nat (k + idx))) a) as r eqn:Hr.
    destruct (is_backslash_escaped (firstn (Z.to_nat (k + idx - start)) (skipn (Z.to_nat start) a))).
    + rewrite drop_cons1 in *. simp_all. apply (IH fuelI start (k + idx + 1) q); try lia. exact E.
    + destruct r as [|c r']; cbn [app is_double_delimiter_escaped] in *.
      * rewrite (isW_beq' w0 d Hw0 Hd) in E. rewrite (isW_beq' w d Hw Hd). exact E.
      * destruct (beq d c).
        -- rewrite drop_cons2 in *. simp_all. rewrite len_cons in Lr. pose proof (len_nonneg r').
           apply (IH fuelI start (k + idx + 2) q); try lia. exact E.
        -- exact E.
  - exfalso. cbn [index_byte] in E. rewrite (isW_beq w0 d Hw0 Hd) in E.
    change (-1 <? 0) with true in E. cbv iota in E. change (-1 <? 0) with true in E. cbv iota in E.
    change (-1 =? -1) with true in E. cbv iota in E. discriminate E.
Qed.

Lemma parse_string_core_loc t0 p off d tk np : isW d = false -> 0 <= p + off <= n ->
  parse_string_core t0 U (n + 1) p off d = Ok (tk, np) -> np <= n ->
  parse_string_core t0 I (n + 1 + len y) p off d = Ok (tk, np).
Proof.
  intros Hd Hp E G. unfold parse_string_core in *. pose proof (len_nonneg y) as Ly.
  norm_drops. name_rest (p + off) x Lx. simp_all.
  destruct (string_core_loop (S (List.length U)) U (p + off) (p + off) d) as [[q|]| | |] eqn:SL; simp_all;
    try discriminate E.
  - assert (Q : q < n).
    { match type of E with context [bind ?m _] => destruct m end; simp_all; try discriminate E.
      inversion E; subst. lia. }
    assert (Fu : (S (List.length U) <= S (List.length I))%nat) by (rewrite !app_length; cbn [List.length]; lia).
    rewrite (string_core_loop_loc d Hd (S (List.length U)) (S (List.length I)) (p + off) (p + off) q Fu
               ltac:(lia) ltac:(lia) SL Q).
    simp_all. norm_assign. exact E.
  - exfalso. match type of E with context [bind ?m _] => destruct m end; simp_all; try discriminate E.
    inversion E; subst. lia.
Qed.

Lemma quote_notW d : beq d b_byte_single || beq d b_byte_double || beq d b_byte_tick = true -> isW d = false.
Proof.
  intros H. repeat (apply orb_true_iff in H; destruct H as [H|H]); apply beq_eq in H; subst; reflexivity.
Qed.

(* a lexer whose locality needs a fact about the byte it is started at *)
Definition locp (P : byte -> Prop) (L : lexer) : Prop :=
  forall fl p stt t0 s' t np,
    0 <= p < n -> P (ab p) ->
    L (mkSt U fl p stt) t0 = Ok (s', t, np) -> np <= n ->
    exists s'', L (mkSt I fl p stt) t0 = Ok (s'', t, np) /\ st s'' = st s'.

Lemma parse_string_loc : locp (fun b => isW b = false) parse_string.
Proof.
  intros fl p stt t0 s' t np Hp Hb E G. revert E. start0 parse_string. intros E. norm E.
  destruct (parse_string_core t0 U (n + 1) p 1 (ab p)) as [[tk np1]| | |] eqn:C; simp_all; try discriminate E.
  inversion E; subst. clear E.
  rewrite (parse_string_core_loc t0 p 1 (ab p) t np Hb ltac:(lia) C G). simp_all.
  eexists; split; reflexivity.
Qed.


(* ---------- numbers ---------- *)

Lemma is_digit_W b : isW b = true -> is_digit b = false.
Proof.
  intros H. apply isW_facts in H. unfold w_facts in H.
  destruct (is_digit b); [|reflexivity]. cbn [negb] in H. rewrite !andb_false_r in H. cbn in H. discriminate H.
Qed.

(* a guarded read whose test fails on whitespace: the same boolean on U and on I *)
Lemma gread_U site j (test : byte -> bool) : 0 <= j <= n -> test w0 = false ->
  (if j <? n + 1 then bind (get site U j) (fun c => Ok (test c)) else Ok false)
  = Ok (negb (j =? n) && test (ab j)).
Proof.
  intros H T. replace (j <? n + 1) with true by lia. rewrite getU_le by lia. cbn [bind]. unfold cU.
  destruct (j =? n); [rewrite T; reflexivity|reflexivity].
Qed.

Lemma gread_I site j (test : byte -> bool) : 0 <= j <= n -> test w = false ->
  (if j <? n + 1 + len y then bind (get site I j) (fun c => Ok (test c)) else Ok false)
  = Ok (negb (j =? n) && test (ab j)).
Proof.
  intros H T. pose proof (len_nonneg y). replace (j <? n + 1 + len y) with true by lia.
  rewrite getI_le by lia. cbn [bind]. unfold cI.
  destruct (j =? n); [rewrite T; reflexivity|reflexivity].
Qed.

Ltac wfalse := cbv beta; wtests; reflexivity.

(* rewrite the next guarded read of E and of the goal *)
Ltac gread E :=
  once match type of E with
  | context [if ?j <? n + 1 then bind (get ?s U ?j) (fun c => Ok (@?t c)) else Ok false] =>
      rewrite (gread_U s j t) in E by first [zlia | wfalse];
      rewrite (gread_I s j t) by first [zlia | wfalse]
  end.

(* facts hidden in the canonical booleans *)
Ltac bfacts :=
  repeat match goal with
         | H : negb (?j =? n) && _ = true |- _ =>
             let H1 := fresh in apply andb_true_iff in H; destruct H as [H1 H]; apply negb_true_iff in H1
         end.

Lemma number_suffix_loc isE he p0 : forall fl p stt t0 s' t np,
  0 <= p < n -> p <= p0 <= n ->
  number_suffix p isE he p0 (mkSt U fl p stt) t0 = Ok (s', t, np) ->
  exists s'', number_suffix p isE he p0 (mkSt I fl p stt) t0 = Ok (s'', t, np) /\ st s'' = st s'.
Proof.
  intros fl p stt t0 s' t np Hp Hp0 E. revert E. start0 number_suffix. intros E.
  gread E. simp_all. norm_drops. name_rest p x Lx. simp_all.
  estep2 E; bfacts.
  - dg E. rd E.
    + norm_assign. fin E.
    + repeat estep2if E; norm_assign; fin E.
  - norm_assign. fin E.
Qed.

Ltac digits_at j x Lx Rs sx Hsx :=
  norm_drops; simp_all; rewrite !(span_app_stop is_digit) in * by (apply is_digit_W; assumption);
  name_rest j x Lx; pose proof (span_range is_digit x) as Rs; remember (span is_digit x) as sx eqn:Hsx.

Ltac use_suffix E :=
  let s2 := fresh "s2" in let E2 := fresh "E2" in let S2 := fresh "S2" in
  edestruct number_suffix_loc as [s2 [E2 S2]]; [ | | exact E | ]; [zlia | zlia | ];
  rewrite E2; eexists; split; [reflexivity|exact S2].

Lemma number_tail_loc frac : forall fl p stt t0 s' t np,
  0 <= p < n -> p <= frac <= n ->
  number_tail p frac (mkSt U fl p stt) t0 = Ok (s', t, np) ->
  exists s'', number_tail p frac (mkSt I fl p stt) t0 = Ok (s'', t, np) /\ st s'' = st s'.
Proof.
  intros fl p stt t0 s' t np Hp Hf E. revert E. start0 number_tail. intros E.
  gread E. simp_all. estep2 E; bfacts.
  - gread E. simp_all. estep2 E; bfacts.
    + digits_at (frac + 1 + 1) x Lx Rs sx Hsx. use_suffix E.
    + digits_at (frac + 1) x Lx Rs sx Hsx. use_suffix E.
  - use_suffix E.
Qed.

Ltac use_tail E :=
  let s2 := fresh "s2" in let E2 := fresh "E2" in let S2 := fresh "S2" in
  edestruct number_tail_loc as [s2 [E2 S2]]; [ | | exact E | ]; [zlia | zlia | ];
  rewrite E2; eexists; split; [reflexivity|exact S2].

Lemma number_dec_loc : forall fl p stt t0 s' t np,
  0 <= p < n ->
  number_dec (mkSt U fl p stt) t0 = Ok (s', t, np) ->
  exists s'', number_dec (mkSt I fl p stt) t0 = Ok (s'', t, np) /\ st s'' = st s'.
Proof.
  intros fl p stt t0 s' t np Hp E. revert E. start0 number_dec. intros E.
  digits_at p x Lx Rs sx Hsx.
  gread E. simp_all. estep2 E; bfacts.
  - digits_at (p + sx + 1) x3 Lx3 Rs3 s3 Hs3. simp_all.
    estep2 E; [fin E|]. use_tail E.
  - use_tail E.
Qed.

Lemma mem_hex_W b : isW b = true -> mem b (bs "0123456789ABCDEFabcdef") = false.
Proof. intros H. destruct (isW_cases b H) as [->|[->|[->|[->|[->|[->|[->| ->]]]]]]]; reflexivity. Qed.
Lemma mem_bin_W b : isW b = true -> mem b (bs "01") = false.
Proof. intros H. destruct (isW_cases b H) as [->|[->|[->|[->|[->|[->|[->| ->]]]]]]]; reflexivity. Qed.

Lemma number_pre_loc digits : (forall b, isW b = true -> mem b digits = false) ->
  forall fl p stt t0 s' t np,
  0 <= p -> p + 2 <= n ->
  number_pre digits (mkSt U fl p stt) t0 = Ok (s', t, np) ->
  exists s'', number_pre digits (mkSt I fl p stt) t0 = Ok (s'', t, np) /\ st s'' = st s'.
Proof.
  intros Hd fl p stt t0 s' t np Hp Hp2 E. revert E. start0 number_pre. unfold str_len_spn. intros E.
  norm_drops. simp_all. name_rest (p + 2) x2 Lx2. name_rest p x Lx.
  rewrite span_len_exact in E by (rewrite len_app; change (len [w0]) with 1; zlia).
  rewrite span_len_exact by (rewrite len_app, len_cons; zlia).
  rewrite !span_app_stop in * by (apply Hd; assumption).
  pose proof (span_range (fun b => mem b digits) x2) as Rs.
  replace (Z.min (n + 1 - p - 2) (span (fun b => mem b digits) x2)) with (span (fun b => mem b digits) x2) in E by zlia.
  replace (Z.min (n + 1 + len y - p - 2) (span (fun b => mem b digits) x2)) with (span (fun b => mem b digits) x2) by zlia.
  simp_all. estep2 E; norm_assign; fin E.
Qed.

Lemma parse_number_loc : loc parse_number.
Proof.
  intros fl p stt t0 s' t np Hp E G. rewrite parse_number_eq in *. cbv zeta in *.
  revert E. unfold at_, slen. cbn [input pos]. rewrite lenU, lenI. pose proof (len_nonneg y) as Ly. intros E.
  norm E.
  assert (UD : forall E0 : number_dec {| input := U; flags := fl; pos := p; st := stt |} t0 = Ok (s', t, np),
            exists s'', number_dec {| input := I; flags := fl; pos := p; st := stt |} t0 = Ok (s'', t, np) /\ st s'' = st s')
    by (intros E0; exact (number_dec_loc _ _ _ _ _ _ _ Hp E0)).
  estep2 E; [|exact (UD E)].
  rd E; [exact (UD E)|].
  destruct (beq (ab (p + 1)) x58 || beq (ab (p + 1)) x78);
    [|destruct (beq (ab (p + 1)) x42 || beq (ab (p + 1)) x62); [|exact (UD E)]]; eval_lits; cbv iota in *.
  - refine (number_pre_loc _ mem_hex_W _ _ _ _ _ _ _ _ _ E); zlia.
  - refine (number_pre_loc _ mem_bin_W _ _ _ _ _ _ _ _ _ E); zlia.
Qed.


(* ---------- variables ---------- *)

Lemma span_app (P : byte -> bool) x t1 :
  span P (x ++ t1) = if span P x <? len x then span P x else len x + span P t1.
Proof.
  induction x as [|b x IH]; cbn [app span].
  - rewrite len_nil. change (0 <? 0) with false. cbv iota. lia.
  - rewrite len_cons. pose proof (span_range P x). pose proof (len_nonneg x). destruct (P b).
    + rewrite IH. destruct (span P x <? len x) eqn:E.
      * replace (1 + span P x <? 1 + len x) with true by lia. reflexivity.
      * replace (1 + span P x <? 1 + len x) with false by lia. lia.
    + replace (0 <? 1 + len x) with true by lia. reflexivity.
Qed.

Lemma nquote_ab j : 0 <= j < n -> nquote U j = true ->
  beq (ab j) b_byte_single = false /\ beq (ab j) b_byte_double = false /\ beq (ab j) b_byte_tick = false.
Proof.
  intros H N. unfold nquote in N. rewrite getU_lt in N by lia.
  destruct (beq (ab j) b_byte_single); [discriminate N|]. destruct (beq (ab j) b_byte_double); [discriminate N|].
  destruct (beq (ab j) b_byte_tick); [discriminate N|]. auto.
Qed.

Definition notvdelim (b : byte) : bool := negb (mem b var_accept).

Lemma notvdelim_w : mem w var_accept = true -> notvdelim w = false.
Proof. unfold notvdelim. intros ->. reflexivity. Qed.

(* the name of a variable from offset p2 on *)
Ltac var_rest E Hv p2 :=
  let x2 := fresh "x2" in let Lx2 := fresh "Lx2" in let Rs := fresh "Rs" in let S := fresh "S" in
  norm_drops; simp_all; name_rest p2 x2 Lx2;
  rewrite span_len_exact in E by (rewrite len_app; change (len [w0]) with 1; zlia);
  rewrite span_len_exact by (rewrite len_app, len_cons; zlia);
  rewrite span_app in E |- *; cbn [span] in E |- *;
  pose proof (span_range notvdelim x2) as Rs;
  destruct (span notvdelim x2 <? len x2) eqn:S;
  [ replace (Z.min (n + 1 - p2) (span notvdelim x2)) with (span notvdelim x2) in E by zlia;
    replace (Z.min (n + 1 + len y - p2) (span notvdelim x2)) with (span notvdelim x2) by zlia;
    simp_all; estep2 E; norm_assign; fin E
  | destruct (notvdelim w0) eqn:Pw0;
    [ exfalso; replace (Z.min (n + 1 - p2) (len x2 + (1 + 0))) with (len x2 + 1) in E by zlia;
      simp_all; repeat estep2 E; inversion E; subst; zlia
    | replace (Z.min (n + 1 - p2) (len x2 + 0)) with (len x2) in E by zlia;
      assert (Pw : notvdelim w = false);
      [ apply notvdelim_w; destruct Hv as [Hv|Hv]; [exfalso; simp_all; repeat estep2 E; inversion E; subst; zlia|exact Hv]
      | rewrite Pw; replace (Z.min (n + 1 + len y - p2) (len x2 + 0)) with (len x2) by zlia;
        simp_all; estep2 E; norm_assign; fin E ] ] ].

Lemma parse_var_loc : forall fl p stt t0 s' t np,
  0 <= p < n -> nquote U (p + 1) && nquote U (p + 2) = true ->
  parse_var (mkSt U fl p stt) t0 = Ok (s', t, np) -> np <= n ->
  (np < n \/ mem w var_accept = true) ->
  exists s'', parse_var (mkSt I fl p stt) t0 = Ok (s'', t, np) /\ st s'' = st s'.
Proof.
  intros fl p stt t0 s' t np Hp Hs E G Hv. apply andb_true_iff in Hs. destruct Hs as [Q1 Q2].
  revert E. start0 parse_var. unfold str_len_cspn. fold notvdelim. intros E.
  gread E. simp_all.
  assert (TAIL : forall p2 cnt, p < p2 <= n ->
            (p2 < n -> beq (ab p2) b_byte_single = false /\ beq (ab p2) b_byte_double = false /\ beq (ab p2) b_byte_tick = false) ->
            forall E0 : (special <-
       (if p2 <? n + 1
        then
         a <- get "parseVar" U p2;;
         Ok (if beq a "`" then 1 else if beq a b_byte_single || beq a b_byte_double then 2 else 0)
        else Ok 0);;
       (if special =? 1
        then
         x <- parse_tick {| input := U; flags := fl; pos := p2; st := stt |} (set_count t0 cnt);;
         (let (p0, np) := x in let (s, t) := p0 in Ok (s, set_cat t b_sqli_token_type_variable, np))
        else
         if special =? 2
         then
          x <- parse_string {| input := U; flags := fl; pos := p2; st := stt |} (set_count t0 cnt);;
          (let (p0, np) := x in let (s, t) := p0 in Ok (s, set_cat t b_sqli_token_type_variable, np))
         else
          rest <- drop "parseVar" U p2;;
          length <- span_len "strLenCSpn" notvdelim rest (n + 1 - p2);;
          (if length =? 0
           then t <- assign (set_count t0 cnt) b_sqli_token_type_variable p2 0 rest;;
                Ok ({| input := U; flags := fl; pos := p; st := stt |}, t, p2)
           else t <- assign (set_count t0 cnt) b_sqli_token_type_variable p2 length rest;;
                Ok ({| input := U; flags := fl; pos := p; st := stt |}, t, p2 + length))))%res = Ok (s', t, np),
            exists s'' : sqlst, (special <-
       (if p2 <? n + 1 + len y
        then
         a <- get "parseVar" I p2;;
         Ok (if beq a "`" then 1 else if beq a b_byte_single || beq a b_byte_double then 2 else 0)
        else Ok 0);;
       (if special =? 1
        then
         x <- parse_tick {| input := I; flags := fl; pos := p2; st := stt |} (set_count t0 cnt);;
         (let (p0, np) := x in let (s, t) := p0 in Ok (s, set_cat t b_sqli_token_type_variable, np))
        else
         if special =? 2
         then
          x <- parse_string {| input := I; flags := fl; pos := p2; st := stt |} (set_count t0 cnt);;
          (let (p0, np) := x in let (s, t) := p0 in Ok (s, set_cat t b_sqli_token_type_variable, np))
         else
          rest <- drop "parseVar" I p2;;
          length <- span_len "strLenCSpn" notvdelim rest (n + 1 + len y - p2);;
          (if length =? 0
           then t <- assign (set_count t0 cnt) b_sqli_token_type_variable p2 0 rest;;
                Ok ({| input := I; flags := fl; pos := p; st := stt |}, t, p2)
           else t <- assign (set_count t0 cnt) b_sqli_token_type_variable p2 length rest;;
                Ok ({| input := I; flags := fl; pos := p; st := stt |}, t, p2 + length))))%res = Ok (s'', t, np) /\ st s'' = st s').
  { clear E. intros p2 cnt Hp2 Q E. dg E. rd E.
    - (* the name is empty: the whitespace follows @ *)
      change (0 =? 1) with false in *. change (0 =? 2) with false in *. cbv iota in *.
      var_rest E Hv p2.
    - destruct (Q ltac:(zlia)) as (Q3 & Q4 & Q5). unfold b_byte_single, b_byte_double, b_byte_tick in *.
      rewrite Q3, Q4, Q5 in *. simp_all.
      change (0 =? 1) with false in *. change (0 =? 2) with false in *. cbv iota in *.
      var_rest E Hv p2. }
  destruct (negb (p + 1 =? n) && beq (ab (p + 1)) x40) eqn:T2; bfacts.
  - apply (TAIL (p + 1 + 1) 2 ltac:(zlia)); [|exact E].
    intros Hlt. apply nquote_ab; [zlia|]. replace (p + 1 + 1) with (p + 2) by lia. exact Q2.
  - apply (TAIL (p + 1) 1 ltac:(zlia)); [|exact E].
    intros Hlt. apply nquote_ab; [zlia|exact Q1].
Qed.


(* ---------- the dispatched lexer ---------- *)

Lemma nquote_UI j : 0 <= j <= n -> nquote U j = true -> nquote I j = true.
Proof.
  intros H N. unfold nquote in *. rewrite getU_le in N by lia. rewrite getI_le by lia. unfold cU, cI in *.
  destruct (j =? n); [|exact N].
  destruct (isW_cases w Hw) as [->|[->|[->|[->|[->|[->|[->| ->]]]]]]]; reflexivity.
Qed.

Lemma whiteat_UI j : 0 <= j <= n -> whiteat U j = whiteat I j.
Proof.
  intros H. unfold whiteat. rewrite getU_le, getI_le by lia. unfold cU, cI.
  destruct (j =? n); [congruence|reflexivity].
Qed.

Lemma plain_after_UI p : 0 <= p < n -> plain_after U p = true -> plain_after I p = true.
Proof.
  intros H P. unfold plain_after in *. apply andb_true_iff in P. destruct P as [P1 P2].
  rewrite (nquote_UI (p + 1)) by (try lia; exact P1). cbn [andb].
  rewrite <- (whiteat_UI (p + 1)) by lia.
  destruct (whiteat U (p + 1)) eqn:Wt; [reflexivity|]. cbn [orb] in *.
  assert (p + 1 <> n).
  { intros Hn. unfold whiteat in Wt. rewrite getU_n in Wt by lia. congruence. }
  apply nquote_UI; [lia|exact P2].
Qed.

Lemma dispatch_notW b : is_white_id (dispatch b) = false -> isW b = false.
Proof.
  intros H. destruct (isW b) eqn:E; [|reflexivity]. apply isW_facts in E. unfold w_facts in E.
  rewrite H in E. discriminate E.
Qed.

Theorem run_parser_loc id : supported id = true ->
  forall fl p stt t0 s' t np,
    0 <= p < n -> dispatch (ab p) = id -> side U p id = true ->
    run_parser id (mkSt U fl p stt) t0 = Ok (s', t, np) -> np <= n ->
    (negb (is_var_id id) || (np <? n) || isWv w = true) ->
    exists s'', run_parser id (mkSt I fl p stt) t0 = Ok (s'', t, np) /\ st s'' = st s'.
Proof.
  intros Hs fl p stt t0 s' t np Hp Hd Sd E G V.
  assert (PW : forall L, L (mkSt U fl p stt) t0 = parse_word (mkSt U fl p stt) t0 ->
                         L (mkSt I fl p stt) t0 = parse_word (mkSt I fl p stt) t0 ->
                         L (mkSt U fl p stt) t0 = Ok (s', t, np) ->
                         exists s'', L (mkSt I fl p stt) t0 = Ok (s'', t, np) /\ st s'' = st s').
  { intros L EU EI E0. rewrite EI. rewrite EU in E0. exact (parse_word_loc _ _ _ _ _ _ _ Hp E0 G). }
  destruct id; try discriminate Hs; cbn [run_parser side] in *.
  - exact (parse_operator1_loc _ _ _ _ _ _ _ Hp E G).
  - exact (parse_operator2_loc _ _ _ _ _ _ _ Hp E G).
  - refine (parse_string_loc _ _ _ _ _ _ _ Hp _ E G). apply dispatch_notW. rewrite Hd. reflexivity.
  - exact (parse_byte_loc _ _ _ _ _ _ _ Hp E G).
  - exact (parse_dash_loc _ _ _ _ _ _ _ Hp E G).
  - exact (parse_number_loc _ _ _ _ _ _ _ Hp E G).
  - refine (parse_var_loc _ _ _ _ _ _ _ Hp Sd E G _). cbn [is_var_id negb orb] in V.
    apply orb_true_iff in V. destruct V as [V|V]; [left; lia|right].
    unfold isWv in V. apply andb_true_iff in V. exact (proj2 V).
  - exact (parse_word_loc _ _ _ _ _ _ _ Hp E G).
  - apply (PW parse_bstring); [| |exact E]; unfold parse_bstring; apply parse_xb_string_word; cbn [pos input]; try lia;
      first [exact Sd|apply plain_after_UI; [exact Hp|exact Sd]].
  - apply (PW parse_estring); [| |exact E]; apply parse_estring_word; cbn [pos input]; try lia;
      first [exact Sd|apply plain_after_UI; [exact Hp|exact Sd]].
  - apply (PW parse_nqstring); [| |exact E]; apply parse_nqstring_word; cbn [pos input]; try lia;
      first [exact Sd|apply plain_after_UI; [exact Hp|exact Sd]].
  - apply (PW parse_ustring); [| |exact E]; apply parse_ustring_word; cbn [pos input]; try lia;
      first [exact Sd|apply plain_after_UI; [exact Hp|exact Sd]].
  - apply (PW parse_xstring); [| |exact E]; unfold parse_xstring; apply parse_xb_string_word; cbn [pos input]; try lia;
      first [exact Sd|apply plain_after_UI; [exact Hp|exact Sd]].
Qed.

End Local.

Print Assumptions run_parser_loc.
Print Assumptions parse_string_core_loc.
