(* WsCase: the whitespace lifting of the attack grammar (WsCheck.member_detect)
   composed with the letter-case lifting (C10_partial2).

   C10_partial2 needs of the input s whose case is changed: no case-sensitive
   neighbourhood (CiSpec.plain2: no backslash followed by N/n, no dollar
   followed by a letter, no q'L / Q'L) and no "sp_password" in any case.  Both
   are of the form "pattern P starts nowhere in s", for patterns made of bytes
   that are not whitespace.  Such a condition does not depend on WHICH
   non-empty whitespace runs fill the slots: a window that starts inside a
   segment either stays inside it or meets the first byte of the run behind it,
   which is whitespace whatever the run is; a window that starts inside a run
   starts with a whitespace byte.  So the condition for the filled string
   follows from the condition for the reference instance with a single blank
   in every slot -- which GrammarLift.all_cases_liftable has already swept for
   the whole frozen grammar. *)
From Coq Require Import List ZArith String Bool Lia.
From Coq.Strings Require Import Byte.
From LI Require Import Prelude Base SqliLex SqliFold GrammarSqli Proofs.BaseFacts Proofs.LexBase
  Spec.CiSpec Properties.C10 Proofs.GrammarLift Spec.WsSpec Proofs.WsCheck.
From LIGen Require Import C03CoreAll.
Import ListNotations.
Local Open Scope Z_scope.

(* ---------- whitespace bytes occur in none of the patterns ---------- *)

Definition SP : bytes := upper_all (bs "sp_password").

Definition w_byte_ok (b : byte) : bool :=
  negb (isW b)
  || (negb (is_alpha b) && negb (beq b x27) && negb (beq b x4e) && negb (beq b x6e)
      && beq (upper_ascii b) b && forallb (fun x => negb (beq x b)) SP).

Lemma w_byte_sweep b : w_byte_ok b = true.
Proof. apply byte_sweep. vm_compute. reflexivity. Qed.

Lemma w_byte b : isW b = true ->
  is_alpha b = false /\ beq b x27 = false /\ beq b x4e = false /\ beq b x6e = false /\
  upper_ascii b = b /\ (forall x, In x SP -> beq x b = false).
Proof.
  intros H. pose proof (w_byte_sweep b) as S. unfold w_byte_ok in S. rewrite H in S. cbn [negb orb] in S.
  repeat (apply andb_true_iff in S; destruct S as [S ?]).
  repeat match goal with X : negb _ = true |- _ => apply negb_true_iff in X end.
  repeat split; try assumption.
  - apply beq_eq. assumption.
  - intros x Hx. rewrite forallb_forall in H0. apply negb_true_iff. exact (H0 x Hx).
Qed.

(* ---------- "the pattern starts nowhere" does not depend on the runs ---------- *)

Section Nowhere.
Variable p : bytes -> bool.
(* behind a non-empty piece of a segment, p does not tell one whitespace byte (and what follows it) from another *)
Variable Hloc : forall a c c' z z', a <> [] -> isW c = true -> isW c' = true -> p (a ++ c :: z) = p (a ++ c' :: z').
(* p does not start at a whitespace byte *)
Variable HW : forall c z, isW c = true -> p (c :: z) = false.

Lemma nowhere_cons x tl : nowhere p (x :: tl) = negb (p (x :: tl)) && nowhere p tl.
Proof. reflexivity. Qed.

Lemma nowhere_app_inv a y : nowhere p (a ++ y) = true -> nowhere p y = true.
Proof.
  induction a as [|x a IH]; [trivial|]. rewrite <- app_comm_cons, nowhere_cons. intros H.
  apply andb_true_iff in H. apply IH. exact (proj2 H).
Qed.

Lemma nowhere_white r y : forallb isW r = true -> nowhere p y = true -> nowhere p (r ++ y) = true.
Proof.
  induction r as [|c r IH]; [trivial|]. cbn [forallb]. intros H Hy. apply andb_true_iff in H. destruct H as [Hc Hr].
  rewrite <- app_comm_cons, nowhere_cons, (HW c _ Hc). cbn [negb andb]. exact (IH Hr Hy).
Qed.

Lemma nowhere_seg a c c' z z' : isW c = true -> isW c' = true ->
  nowhere p (a ++ c :: z) = true -> nowhere p (c' :: z') = true -> nowhere p (a ++ c' :: z') = true.
Proof.
  intros Hc Hc'. induction a as [|x a IH]; [intros _ H; exact H|].
  rewrite <- !app_comm_cons, !nowhere_cons. intros H H'. apply andb_true_iff in H. destruct H as [H1 H2].
  apply andb_true_iff. split; [|exact (IH H2 H')].
  rewrite !app_comm_cons. rewrite <- (Hloc (x :: a) c c' z z' ltac:(discriminate) Hc Hc'). exact H1.
Qed.

Lemma nowhere_instw : forall segs ws1 ws2,
  Forall wrun ws1 -> Forall wrun ws2 -> List.length ws1 = List.length ws2 ->
  nowhere p (instw ws1 segs) = true -> nowhere p (instw ws2 segs) = true.
Proof.
  induction segs as [|s rest IH]; intros ws1 ws2 F1 F2 L H; [exact H|].
  destruct rest as [|s2 rest']; [exact H|].
  destruct ws1 as [|r1 ws1']; destruct ws2 as [|r2 ws2']; try (cbn [List.length] in L; discriminate L); [exact H|].
  inversion F1 as [|? ? R1 F1']; subst. inversion F2 as [|? ? R2 F2']; subst.
  change (instw (r1 :: ws1') (s :: s2 :: rest')) with (s ++ r1 ++ instw ws1' (s2 :: rest')) in H.
  change (instw (r2 :: ws2') (s :: s2 :: rest')) with (s ++ r2 ++ instw ws2' (s2 :: rest')).
  unfold wrun, wrunb in R1, R2.
  destruct r1 as [|c1 r1']; [discriminate R1|]. destruct r2 as [|c2 r2']; [discriminate R2|].
  pose proof R1 as R1c. pose proof R2 as R2c. cbn [forallb] in R1c, R2c.
  apply andb_true_iff in R1c. apply andb_true_iff in R2c.
  assert (T : nowhere p (instw ws2' (s2 :: rest')) = true).
  { apply (IH ws1' ws2' F1' F2'); [cbn [List.length] in L; lia|].
    apply (nowhere_app_inv (c1 :: r1')). apply (nowhere_app_inv s). exact H. }
  rewrite <- app_comm_cons in H |- *.
  apply (nowhere_seg s c1 c2 (r1' ++ instw ws1' (s2 :: rest'))); [exact (proj1 R1c)|exact (proj1 R2c)|exact H|].
  rewrite app_comm_cons. apply nowhere_white; assumption.
Qed.

(* the reference instance with the single blank in every slot decides it *)
Lemma nowhere_fill segs ws :
  S (List.length ws) = List.length segs -> Forall wrun ws ->
  nowhere p (inst [x20] segs) = true -> nowhere p (instw ws segs) = true.
Proof.
  intros L F H. rewrite <- instw_repeat in H. revert H. apply nowhere_instw; [|exact F|].
  - apply Forall_forall. intros r Hr. apply repeat_spec in Hr. subst r. reflexivity.
  - rewrite repeat_length. lia.
Qed.
End Nowhere.

(* ---------- the three neighbourhoods of plain2 ---------- *)

Lemma bsn_loc a c c' z z' : a <> [] -> isW c = true -> isW c' = true -> bsn_at (a ++ c :: z) = bsn_at (a ++ c' :: z').
Proof.
  intros Ha Hc Hc'. destruct (w_byte c Hc) as (_ & _ & A1 & A2 & _). destruct (w_byte c' Hc') as (_ & _ & B1 & B2 & _).
  destruct a as [|x [|y a]]; [congruence| |reflexivity].
  cbn [app bsn_at]. rewrite A1, A2, B1, B2. reflexivity.
Qed.
Lemma bsn_W c z : isW c = true -> bsn_at (c :: z) = false.
Proof. intros Hc. destruct z as [|y z]; [reflexivity|]. cbn [bsn_at]. destruct c; try discriminate Hc; reflexivity. Qed.

Lemma dollar_loc a c c' z z' : a <> [] -> isW c = true -> isW c' = true ->
  dollar_alpha_at (a ++ c :: z) = dollar_alpha_at (a ++ c' :: z').
Proof.
  intros Ha Hc Hc'. destruct (w_byte c Hc) as (A & _). destruct (w_byte c' Hc') as (B & _).
  destruct a as [|x [|y a]]; [congruence| |reflexivity].
  cbn [app dollar_alpha_at]. rewrite A, B. reflexivity.
Qed.
Lemma dollar_W c z : isW c = true -> dollar_alpha_at (c :: z) = false.
Proof. intros Hc. destruct z as [|y z]; [reflexivity|]. cbn [dollar_alpha_at]. destruct c; try discriminate Hc; reflexivity. Qed.

Lemma qlit_loc a c c' z z' : a <> [] -> isW c = true -> isW c' = true -> qlit_at (a ++ c :: z) = qlit_at (a ++ c' :: z').
Proof.
  intros Ha Hc Hc'. destruct (w_byte c Hc) as (A1 & A2 & _). destruct (w_byte c' Hc') as (B1 & B2 & _).
  destruct a as [|x [|y [|y2 a]]]; [congruence| | |reflexivity].
  - cbn [app]. transitivity false; [|symmetry].
    + destruct z; cbn [qlit_at]; [reflexivity|]. rewrite A2, andb_false_r. reflexivity.
    + destruct z'; cbn [qlit_at]; [reflexivity|]. rewrite B2, andb_false_r. reflexivity.
  - cbn [app qlit_at]. rewrite A1, B1, !andb_false_r. reflexivity.
Qed.
Lemma qlit_W c z : isW c = true -> qlit_at (c :: z) = false.
Proof.
  intros Hc. destruct z as [|y [|y2 z]]; [reflexivity|reflexivity|]. cbn [qlit_at].
  destruct c; try discriminate Hc; reflexivity.
Qed.

Lemma plain2_fill segs ws :
  S (List.length ws) = List.length segs -> Forall wrun ws ->
  plain2 (inst [x20] segs) = true -> plain2 (instw ws segs) = true.
Proof.
  intros L F H. unfold plain2 in *.
  apply andb_true_iff in H. destruct H as [H H3]. apply andb_true_iff in H. destruct H as [H1 H2].
  rewrite (nowhere_fill bsn_at bsn_loc bsn_W segs ws L F H1),
          (nowhere_fill dollar_alpha_at dollar_loc dollar_W segs ws L F H2),
          (nowhere_fill qlit_at qlit_loc qlit_W segs ws L F H3). reflexivity.
Qed.

(* ---------- the marker sp_password, in any case ---------- *)

Lemma contains_nowhere lit s : lit <> [] ->
  (contains s lit = false <-> nowhere (fun t => has_prefix t lit) s = true).
Proof.
  intros Hl. unfold contains. induction s as [|y s IH].
  - destruct lit as [|x lit]; [congruence|]. cbn. split; reflexivity.
  - cbn [index nowhere]. destruct (has_prefix (y :: s) lit) eqn:E.
    + cbn. split; discriminate.
    + cbn [negb andb]. cbv zeta. rewrite <- IH.
      destruct (index s lit <? 0) eqn:E2.
      * split; intros _; [apply Z.leb_gt; lia|reflexivity].
      * split; intros H; apply Z.leb_gt in H; apply Z.leb_gt; lia.
Qed.

Lemma nowhere_map (f : byte -> byte) q s : nowhere q (map f s) = nowhere (fun t => q (map f t)) s.
Proof. induction s as [|y s IH]; [reflexivity|]. cbn [map nowhere]. rewrite IH. reflexivity. Qed.

Lemma has_prefix_loc : forall lit a c c' z z',
  (forall x, In x lit -> beq x c = false /\ beq x c' = false) ->
  has_prefix (a ++ c :: z) lit = has_prefix (a ++ c' :: z') lit.
Proof.
  intros lit a. revert lit. induction a as [|y a IH]; intros [|x lit] c c' z z' H; try reflexivity.
  - cbn [app has_prefix]. destruct (H x (or_introl eq_refl)) as [A B]. rewrite A, B. reflexivity.
  - cbn [app has_prefix]. f_equal. apply IH. intros x0 Hx0. apply H. right. exact Hx0.
Qed.

Definition sp_at (t : bytes) : bool := has_prefix (upper_all t) SP.

Lemma sp_loc a c c' z z' : a <> [] -> isW c = true -> isW c' = true -> sp_at (a ++ c :: z) = sp_at (a ++ c' :: z').
Proof.
  intros _ Hc Hc'. destruct (w_byte c Hc) as (_ & _ & _ & _ & U & A). destruct (w_byte c' Hc') as (_ & _ & _ & _ & U' & A').
  unfold sp_at, upper_all. rewrite !map_app. cbn [map]. rewrite U, U'. apply has_prefix_loc.
  intros x Hx. split; [exact (A x Hx)|exact (A' x Hx)].
Qed.
Lemma sp_W c z : isW c = true -> sp_at (c :: z) = false.
Proof.
  intros Hc. destruct (w_byte c Hc) as (_ & _ & _ & _ & U & A). unfold sp_at, upper_all. cbn [map]. rewrite U.
  change SP with (x53 :: tl SP). cbn [has_prefix]. rewrite (A x53 (or_introl eq_refl)). reflexivity.
Qed.

Lemma sp_fill segs ws :
  S (List.length ws) = List.length segs -> Forall wrun ws ->
  contains (upper_all (inst [x20] segs)) SP = false -> contains (upper_all (instw ws segs)) SP = false.
Proof.
  intros L F H. assert (N : SP <> []) by discriminate.
  apply (contains_nowhere SP _ N) in H. apply (contains_nowhere SP _ N).
  unfold upper_all in *. rewrite nowhere_map in H |- *.
  exact (nowhere_fill sp_at sp_loc sp_W segs ws L F H).
Qed.

(* ---------- liftable is inherited by every filling ---------- *)

Theorem liftable_fill segs ws s :
  wsfill segs ws s -> liftable (inst [x20] segs) = true -> liftable s = true.
Proof.
  intros (L & F & ->) H. unfold liftable in *. apply andb_true_iff in H. destruct H as [H1 H2].
  apply negb_true_iff in H2. fold SP in H2 |- *.
  rewrite (plain2_fill segs ws L F H1), (sp_fill segs ws L F H2). reflexivity.
Qed.

(* a case variant of a liftable string has the verdict of the string *)
Lemma liftable_case s s' : liftable s = true -> cv s s' -> is_sqli s' = is_sqli s.
Proof.
  intros L C. unfold liftable in L. apply andb_true_iff in L. destruct L as [L1 L2]. apply negb_true_iff in L2.
  destruct (ci_absent _ _ _ C L2) as [A1 A2]. apply (C10_partial2 _ _ C L1). rewrite A1, A2. reflexivity.
Qed.

(* ---------- whitespace and case together ---------- *)

(* for any list of segments: the computed conditions are member_chk (WsSpec) and liftable of the blank instance *)
Theorem member_detect_case segs ws s s' :
  liftable (inst [x20] segs) = true ->
  wsfill segs ws s ->
  (member_chk x20 segs = true /\ runs_okw x20 (need x20 segs) (last_empty segs) ws)
  \/ (member_chk x0a segs = true /\ runs_okw x0a (need x0a segs) (last_empty segs) ws) ->
  cv s s' ->
  exists fp, is_sqli s' = Ok (true, fp).
Proof.
  intros Hl F Side C. destruct (member_detect segs ws s F Side) as [fp E].
  exists fp. rewrite (liftable_case s s' (liftable_fill segs ws s F Hl) C). exact E.
Qed.

(* for the frozen grammar the second condition is known (GrammarLift.all_cases_liftable) *)
Lemma all_cases_blank_liftable segs : In segs all_cases -> liftable (inst [x20] segs) = true.
Proof.
  intros Hs. apply (core_liftable_spec all_cases all_cases_liftable segs [x20] Hs).
  unfold separators, GrammarSqli.W. cbn [app]. left. reflexivity.
Qed.

Theorem core_ws_case_lift segs ws s s' :
  In segs all_cases -> wsfill segs ws s ->
  (member_chk x20 segs = true /\ runs_okw x20 (need x20 segs) (last_empty segs) ws)
  \/ (member_chk x0a segs = true /\ runs_okw x0a (need x0a segs) (last_empty segs) ws) ->
  cv s s' ->
  exists fp, is_sqli s' = Ok (true, fp).
Proof. intros Hs. apply member_detect_case. exact (all_cases_blank_liftable segs Hs). Qed.


(* ---------- membership in the frozen grammar, computed (for closed examples) ---------- *)

Fixpoint leqb {A} (e : A -> A -> bool) (l1 l2 : list A) : bool :=
  match l1, l2 with
  | [], [] => true
  | x :: l1', y :: l2' => e x y && leqb e l1' l2'
  | _, _ => false
  end.

Lemma leqb_eq {A} (e : A -> A -> bool) (He : forall x y, e x y = true -> x = y) :
  forall l1 l2, leqb e l1 l2 = true -> l1 = l2.
Proof.
  induction l1 as [|x l1 IH]; intros [|y l2] H; try discriminate H; [reflexivity|].
  cbn [leqb] in H. apply andb_true_iff in H. destruct H as [H1 H2]. rewrite (He x y H1), (IH l2 H2). reflexivity.
Qed.

Definition in_cases (segs : list bytes) : bool := existsb (leqb (leqb beq) segs) all_cases.

Lemma in_cases_sound segs : in_cases segs = true -> In segs all_cases.
Proof.
  unfold in_cases. intros H. apply existsb_exists in H. destruct H as (c & Hc & E).
  apply (leqb_eq (leqb beq) (leqb_eq beq (fun x y => proj1 (beq_eq x y)))) in E. subst c. exact Hc.
Qed.

Print Assumptions core_ws_case_lift.
