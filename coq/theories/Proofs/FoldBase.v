(* FoldBase: the invariant of the folder's token window and the potential
   function that bounds the number of iterations of the main loop of fold. *)
From Coq Require Import List ZArith String Bool Lia ZifyBool.
From Coq.Strings Require Import Byte.
From LI Require Import Prelude Base SqliLex SqliFold Proofs.BaseFacts Proofs.Wp Proofs.LexBase Proofs.LexSpec.
From LIGen Require Import Tables Dispatch Consts.
Import ListNotations.
Local Open Scope Z_scope.

Notation cN := b_sqli_token_type_number.
Notation cBS := b_sqli_token_type_backslash.
Notation cC := b_sqli_token_type_comment.
Notation cF := b_sqli_token_type_function.

(* ---------- window tokens ---------- *)

(* a token held in the window: its value has exactly t_len bytes (so every
   val[:len], val[0], val[1] of the folder is in range), its class is a
   documented non-comment class, function-class tokens have >= 2 bytes, and
   number / backslash tokens still carry the position the scanner gave them,
   ending at or before the mark `hi` *)
Definition wtok (hi : Z) (t : token) : Prop :=
  len (t_val t) = t_len t /\ 0 <= t_len t < 32 /\
  is_class (t_cat t) = true /\ t_cat t <> cC /\
  (t_cat t = cF -> 2 <= t_len t) /\
  (t_cat t = cN \/ t_cat t = cBS -> 0 <= t_pos t /\ t_pos t + t_len t <= hi).

Lemma wtok_mono hi hi' t : hi <= hi' -> wtok hi t -> wtok hi' t.
Proof. unfold wtok. intros H (A & B & C & D & E & F). splits; try assumption; try lia. intros G. specialize (F G). lia. Qed.

Lemma class_ok_fun c n v : class_ok c n v = true -> c = cF -> 2 <= n.
Proof.
  unfold class_ok. intros H ->. apply andb_true_iff in H. destruct H as [H _]. apply andb_true_iff in H.
  destruct H as [_ H]. rewrite beq_refl in H. cbn in H. lia.
Qed.

(* a scanned token that is not a comment is a window token *)
Lemma tok_at_wtok inp lo hi t :
  0 <= lo -> hi <= len inp -> tok_at inp lo hi t -> t_cat t <> cC -> wtok hi t.
Proof.
  intros Hlo Hhi T Hc. pose proof (tok_at_len _ _ _ _ Hlo Hhi T) as L.
  pose proof (tok_at_class _ _ _ _ T) as K.
  destruct T as (A & B & C & D & E & F). change c_token_size with 32 in D.
  unfold wtok. splits; try assumption; try lia.
  intros G. eapply class_ok_fun; eassumption.
Qed.

(* ---------- window primitives ---------- *)

Lemma wlen_nonneg w : 0 <= wlen w.
Proof. unfold wlen. lia. Qed.

Lemma wp_wget (P : token -> Prop) site w i (Q : token -> Prop) :
  Forall P w -> 0 <= i < wlen w ->
  (forall t, P t -> nth_error w (Z.to_nat i) = Some t -> Q t) ->
  wp (wget site w i) Q.
Proof.
  intros HP Hi HQ. unfold wget, wlen in *. destruct (0 <=? i) eqn:E; [|lia].
  destruct (nth_error w (Z.to_nat i)) as [t|] eqn:N.
  - cbn. apply HQ; [|reflexivity]. rewrite Forall_forall in HP. apply HP. eapply nth_error_In; exact N.
  - apply nth_error_None in N. lia.
Qed.

Lemma replace_nth_length {A} (l : list A) n x : List.length (replace_nth l n x) = List.length l.
Proof. revert n. induction l as [|y l IH]; intros [|n]; cbn; auto. Qed.

Lemma Forall_replace_nth {A} (P : A -> Prop) l n x : Forall P l -> P x -> Forall P (replace_nth l n x).
Proof.
  intros H Hx. revert n. induction H as [|y l Hy Hl IH]; intros [|n]; cbn; auto.
Qed.

Lemma wp_wset (P : token -> Prop) site w i t (Q : list token -> Prop) :
  0 <= i < wlen w ->
  Q (replace_nth w (Z.to_nat i) t) ->
  wp (wset site w i t) Q.
Proof.
  intros Hi HQ. unfold wset, wlen in *.
  destruct ((0 <=? i) && (i <? Z.of_nat (List.length w))) eqn:E; [exact HQ|lia].
Qed.

Lemma wp_wtrunc site w n (Q : list token -> Prop) :
  0 <= n <= wlen w -> Q (firstn (Z.to_nat n) w) -> wp (wtrunc site w n) Q.
Proof.
  intros Hn HQ. unfold wtrunc, wlen in *.
  destruct ((0 <=? n) && (n <=? Z.of_nat (List.length w))) eqn:E; [exact HQ|lia].
Qed.

Lemma wlen_replace_nth w n t : wlen (replace_nth w n t) = wlen w.
Proof. unfold wlen. rewrite replace_nth_length. reflexivity. Qed.

Lemma wlen_firstn w n : 0 <= n <= wlen w -> wlen (firstn (Z.to_nat n) w) = n.
Proof. unfold wlen. intros H. rewrite firstn_length. lia. Qed.

Lemma wlen_app w t : wlen (w ++ [t]) = wlen w + 1.
Proof. unfold wlen. rewrite app_length. cbn. lia. Qed.

(* ---------- the potential ---------- *)

(* one-way category changes made by the folder carry a rank that decreases.  The
   weights are chosen so that: a rule that shortens the window pays for resetting
   `left` and for any new class (100 > 2*6 + 14*6); the USER rule (function ->
   bareword, left+1) pays its rank increase of 1 with the weight 2 of `left`;
   the collate and backslash rules (left := 0 without shortening) pay for the
   reset with a rank drop of 13 > 2*6. *)
Definition rank (c : byte) : Z :=
  if beq c b_sqli_token_type_keyword then 14
  else if beq c b_sqli_token_type_operator then 13
  else if beq c b_sqli_token_type_bare_word then 13
  else if beq c b_sqli_token_type_variable then 13
  else if beq c b_sqli_token_type_backslash then 13
  else if beq c b_sqli_token_type_function then 12
  else 0.

Lemma rank_range c : 0 <= rank c <= 14.
Proof. unfold rank. repeat match goal with |- context [if ?b then _ else _] => destruct b end; lia. Qed.

Fixpoint rank_sum (w : list token) : Z :=
  match w with [] => 0 | t :: w' => rank (t_cat t) + rank_sum w' end.

Lemma rank_sum_range w : 0 <= rank_sum w <= 14 * wlen w.
Proof.
  unfold wlen. induction w as [|t w IH]; cbn [rank_sum List.length]; [lia|].
  pose proof (rank_range (t_cat t)). lia.
Qed.

Lemma rank_sum_app w t : rank_sum (w ++ [t]) = rank_sum w + rank (t_cat t).
Proof. induction w as [|x w IH]; cbn [rank_sum app]; lia. Qed.

Lemma rank_sum_replace w : forall n t t',
  nth_error w n = Some t -> rank_sum (replace_nth w n t') = rank_sum w - rank (t_cat t) + rank (t_cat t').
Proof.
  induction w as [|x w IH]; intros [|n] t t' H; cbn in H; try discriminate.
  - inversion H; subst. cbn [replace_nth rank_sum]. lia.
  - cbn [replace_nth rank_sum]. rewrite (IH n t t' H). lia.
Qed.

Definition b2z (b : bool) : Z := if b then 1 else 0.

Definition phi (f : fstate) : Z :=
  120 * (slen (f_s f) - pos (f_s f)) + b2z (f_more f) + 100 * wlen (f_win f)
  + 2 * (6 - f_left f) + rank_sum (f_win f).

(* the mark below which every number / backslash token of the window ends *)
Definition mark (f : fstate) : Z :=
  if cat_is (f_last f) cC then t_pos (f_last f) else pos (f_s f).

(* the invariant of the main loop of fold *)
Definition finv (inp : bytes) (fl : Z) (f : fstate) : Prop :=
  input (f_s f) = inp /\ flags (f_s f) = fl /\ st_wf (f_s f) /\
  Forall (wtok (mark f)) (f_win f) /\
  0 <= f_left f <= wlen (f_win f) /\ wlen (f_win f) <= 6 /\
  mark f <= pos (f_s f) /\
  (cat_is (f_last f) cC = true -> tok_at inp 0 (pos (f_s f)) (f_last f)).
