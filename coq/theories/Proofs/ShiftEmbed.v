(* ShiftEmbed: C13 (b).  Analysing s in an attribute context gives the same
   verdict as analysing, in the data state, s placed after a harmless tag
   prefix. *)
From Coq Require Import List ZArith String Bool Lia ZifyBool.
From Coq.Strings Require Import Byte.
From LI Require Import Prelude Base Html5 Xss Proofs.BaseFacts Proofs.Wp Proofs.H5Spec
  Proofs.XssTotal Proofs.ShiftBase.
From LIGen Require Import Consts.
Import ListNotations.
Local Open Scope Z_scope.

(* ---------- symbolic evaluation over an input with a concrete head ---------- *)

Ltac ev_side := repeat rewrite len_cons; lia.

Ltac is_bool_lit v := lazymatch v with true => idtac | false => idtac end.

Ltac ev_if :=
  match goal with
  | |- context [if ?c then _ else _] =>
      first [ let v := eval vm_compute in c in is_bool_lit v; change c with v
            | replace c with true by ev_side
            | replace c with false by ev_side ]
  end; cbv beta iota.

Ltac ev_get :=
  match goal with
  | |- context [get ?a ?l ?i] =>
      let v := eval vm_compute in (get a l i) in
      lazymatch v with Ok _ => change (get a l i) with v end
  end.

Ltac ev_skipn :=
  match goal with
  | |- context [skipn (Z.to_nat ?i) ?l] =>
      let v := eval vm_compute in (skipn (Z.to_nat i) l) in
      lazymatch v with
      | context [skipn] => fail
      | _ => change (skipn (Z.to_nat i) l) with v
      end
  end.

Ltac ev_firstn :=
  match goal with
  | |- context [firstn (Z.to_nat ?i) ?l] =>
      let v := eval vm_compute in (firstn (Z.to_nat i) l) in
      lazymatch v with
      | context [firstn] => fail
      | _ => change (firstn (Z.to_nat i) l) with v
      end
  end.

Ltac ev_code :=
  match goal with
  | |- context [code ?b] =>
      let v := eval vm_compute in (code b) in
      lazymatch v with Zpos _ => idtac | Z0 => idtac end; change (code b) with v
  end.

Ltac ev_call :=
  lazymatch goal with
  | |- h5_call (S ?d) _ _ = _ =>
      let dd := fresh "dd" in let E := fresh "Edd" in
      remember d as dd eqn:E; cbn [h5_call]; subst dd
  end.

Ltac ev_ban :=
  lazymatch goal with
  | |- context [before_attr_name_loop (loop_fuel ?h) _] =>
      unfold loop_fuel;
      let fu := fresh "fu" in let E := fresh "Efu" in
      remember (S (List.length (hs h))) as fu eqn:E; cbn [before_attr_name_loop]; subst fu
  end.

Ltac ev_step :=
  first
  [ rewrite drop_ok by ev_side
  | rewrite take_ok by ev_side
  | progress unfold hlen, with_pos, with_state, with_close
  | progress cbn [bind fst snd hs hpos is_close hstate tok_off tok_len tok_type index_byte span]
  | ev_call | ev_ban
  | ev_get | ev_skipn | ev_firstn | ev_code | ev_if
  | progress unfold emit, skip_white ].

Ltac ev := repeat ev_step.

Lemma step_a s :
  h5_next (h5_init (bs "<a " ++ s) 0) =
  Ok (true, mkH5 (bs "<a " ++ s) 3 false SBeforeAttributeName 1 1 c_html5_type_tag_name_open).
Proof.
  pose proof (len_nonneg s) as Ls.
  change (bs "<a " ++ s) with (x3c :: x61 :: x20 :: s).
  change (h5_init (x3c :: x61 :: x20 :: s) 0) with (mkH5 (x3c :: x61 :: x20 :: s) 0 false SData 0 0 0).
  unfold h5_next, h5_depth. cbn [hstate]. ev.
  reflexivity.
Qed.

Lemma classify_a s attr :
  classify (mkH5 (bs "<a " ++ s) 3 false SBeforeAttributeName 1 1 c_html5_type_tag_name_open) attr =
  Ok (None, c_attribute_type_none).
Proof.
  pose proof (len_nonneg s) as Ls.
  change (bs "<a " ++ s) with (x3c :: x61 :: x20 :: s).
  unfold classify. cbv zeta. ev.
  reflexivity.
Qed.

(* ---------- context 1: unquoted value ---------- *)

Theorem xss_embed_noquote : forall s, xss_ctx s 1 = xss_ctx (bs "<a " ++ s) 0.
Proof.
  intros s. destruct (xss_ctx_total s 1 ltac:(lia)) as [b Eb]. rewrite Eb. symmetry.
  unfold xss_ctx in *.
  assert (F : exists f1, h5_fuel (bs "<a " ++ s) = S f1 /\ (h5_fuel s <= f1)%nat).
  { unfold h5_fuel. rewrite app_length. exists (2 * List.length s + 9)%nat.
    change (List.length (bs "<a ")) with 3%nat. lia. }
  destruct F as [f1 [F1 F2]]. rewrite F1.
  rewrite xss_loop_S, step_a. cbn [bind xss_body]. rewrite classify_a. cbn [bind].
  eapply (xss_loop_shift (bs "<a ") _ _ F2); [| |exact Eb].
  - unfold twin. cbn [hs hpos is_close hstate]. splits; reflexivity.
  - cbn. lia.
Qed.

(* ---------- contexts 2-4: quoted values ---------- *)

(* b=Q s in the unquoted context: the attribute name b, then the value state
   for the quote Q entered with the position on the quote *)
Lemma step_b q s :
  h5_next (h5_init (x62 :: x3d :: q :: s) 1) =
  Ok (true, mkH5 (x62 :: x3d :: q :: s) 2 false SBeforeAttributeValue 0 1 c_html5_type_attr_name).
Proof.
  pose proof (len_nonneg s) as Ls.
  change (h5_init (x62 :: x3d :: q :: s) 1) with (mkH5 (x62 :: x3d :: q :: s) 0 false SBeforeAttributeName 0 0 0).
  unfold h5_next, h5_depth. cbn [hstate]. ev.
  reflexivity.
Qed.

Lemma classify_b q s attr :
  classify (mkH5 (x62 :: x3d :: q :: s) 2 false SBeforeAttributeValue 0 1 c_html5_type_attr_name) attr =
  Ok (None, c_attribute_type_none).
Proof.
  pose proof (len_nonneg s) as Ls.
  unfold classify. cbv zeta. ev. reflexivity.
Qed.

Definition qpair (f : h5fn) (q : byte) : Prop :=
  (f = SAttributeValueSingleQuote /\ q = x27) \/
  (f = SAttributeValueDoubleQuote /\ q = x22) \/
  (f = SAttributeValueBackQuote /\ q = x60).

(* the step that produces the attribute value: SBeforeAttributeValue standing
   on the quote skips it; the quoted-value state at offset 0 skips nothing *)
Lemma step_q f q s : qpair f q -> exists r1 r2,
  h5_next (mkH5 (x62 :: x3d :: q :: s) 2 false SBeforeAttributeValue 0 1 c_html5_type_attr_name) = Ok r1 /\
  h5_next (mkH5 s 0 false f 0 0 0) = Ok r2 /\
  relR [x62; x3d; q] r1 r2.
Proof.
  intros Q. pose proof (len_nonneg s) as Ls.
  assert (L3 : len [x62; x3d; q] = 3) by reflexivity.
  unfold h5_next, h5_depth. cbn [hstate].
  destruct Q as [[-> ->]|[[-> ->]|[-> ->]]].
  all: match goal with |- context [h5_call _ _ (mkH5 (_ :: _ :: ?q :: _) _ _ _ _ _ _)] =>
         destruct (index_byte s q =? -1) eqn:I end.
  all: eexists; eexists; (split; [ev; reflexivity|split; [ev; reflexivity|]]).
  all: unfold relR, twin; cbn [fst snd hs hpos is_close hstate tok_off tok_len tok_type pre_ok];
       rewrite ?len_cons, ?len_nil; unfold b_byte_single, b_byte_double, b_byte_tick; note_facts;
       (split; [reflexivity|intros _; splits; try reflexivity; lia]).
Qed.

(* s in a quoted-value context = b=Q s in the unquoted context *)
Lemma xss_attr_quoted f q fl s : qpair f q -> 0 <= fl <= 4 ->
  h5_init s fl = mkH5 s 0 false f 0 0 0 ->
  xss_ctx s fl = xss_ctx (x62 :: x3d :: q :: s) 1.
Proof.
  intros Q Hfl HI. destruct (xss_ctx_total s fl Hfl) as [b Eb]. rewrite Eb. symmetry.
  unfold xss_ctx in *. rewrite HI in Eb.
  assert (F : exists f1 f2, h5_fuel (x62 :: x3d :: q :: s) = S (S f1) /\ h5_fuel s = S f2 /\ (f2 <= f1)%nat).
  { unfold h5_fuel. cbn [List.length]. exists (2 * List.length s + 8)%nat, (2 * List.length s + 3)%nat. lia. }
  destruct F as (f1 & f2 & F1 & F2 & F). rewrite F1. rewrite F2 in Eb.
  rewrite xss_loop_S, step_b. cbn [bind xss_body]. rewrite classify_b. cbn [bind].
  destruct (step_q f q s Q) as (r1 & r2 & E1 & E2 & R).
  rewrite xss_loop_S, E1. cbn [bind].
  rewrite xss_loop_S, E2 in Eb. cbn [bind] in Eb.
  exact (xss_body_shift [x62; x3d; q] f2 f1 r1 r2 _ _ F R Eb).
Qed.

Theorem xss_embed_single : forall s, xss_ctx s 2 = xss_ctx (bs "<a b='" ++ s) 0.
Proof.
  intros s.
  rewrite (xss_attr_quoted SAttributeValueSingleQuote x27 2 s); [|left; split; reflexivity|lia|reflexivity].
  change (bs "<a b='" ++ s) with (bs "<a " ++ (x62 :: x3d :: x27 :: s)). apply xss_embed_noquote.
Qed.

Theorem xss_embed_double : forall s, xss_ctx s 3 = xss_ctx (bs "<a b=""" ++ s) 0.
Proof.
  intros s.
  rewrite (xss_attr_quoted SAttributeValueDoubleQuote x22 3 s); [|right; left; split; reflexivity|lia|reflexivity].
  change (bs "<a b=""" ++ s) with (bs "<a " ++ (x62 :: x3d :: x22 :: s)). apply xss_embed_noquote.
Qed.

Theorem xss_embed_back : forall s, xss_ctx s 4 = xss_ctx (bs "<a b=`" ++ s) 0.
Proof.
  intros s.
  rewrite (xss_attr_quoted SAttributeValueBackQuote x60 4 s); [|right; right; split; reflexivity|lia|reflexivity].
  change (bs "<a b=`" ++ s) with (bs "<a " ++ (x62 :: x3d :: x60 :: s)). apply xss_embed_noquote.
Qed.

Theorem xss_embed_all : forall s,
  xss_ctx s 1 = xss_ctx (bs "<a " ++ s) 0 /\
  xss_ctx s 2 = xss_ctx (bs "<a b='" ++ s) 0 /\
  xss_ctx s 3 = xss_ctx (bs "<a b=""" ++ s) 0 /\
  xss_ctx s 4 = xss_ctx (bs "<a b=`" ++ s) 0.
Proof.
  intros s. splits; [apply xss_embed_noquote|apply xss_embed_single|apply xss_embed_double|apply xss_embed_back].
Qed.

Theorem xss_quoted_as_unquoted : forall s,
  xss_ctx s 2 = xss_ctx (bs "b='" ++ s) 1 /\
  xss_ctx s 3 = xss_ctx (bs "b=""" ++ s) 1 /\
  xss_ctx s 4 = xss_ctx (bs "b=`" ++ s) 1.
Proof.
  intros s. splits.
  - apply (xss_attr_quoted SAttributeValueSingleQuote x27 2 s); [left; split; reflexivity|lia|reflexivity].
  - apply (xss_attr_quoted SAttributeValueDoubleQuote x22 3 s); [right; left; split; reflexivity|lia|reflexivity].
  - apply (xss_attr_quoted SAttributeValueBackQuote x60 4 s); [right; right; split; reflexivity|lia|reflexivity].
Qed.

Print Assumptions xss_embed_all.
