(* StringProofs: the executable string lexers of the model compute the
   declarative oracle of Spec/StringSpec.v (C18). *)
From Coq Require Import List ZArith String Bool Lia ZifyBool.
From Coq.Strings Require Import Byte.
From LI Require Import Prelude Base SqliLex Proofs.BaseFacts Proofs.Wp Proofs.LexBase
  Spec.StringSpec.
From LIGen Require Import Tables Dispatch Consts.
Import ListNotations.
Local Open Scope Z_scope.

(* ---------- list decompositions ---------- *)

Lemma skipn_len_app (a b : bytes) k : k = len a -> skipn (Z.to_nat k) (a ++ b) = b.
Proof.
  intros ->. unfold len. rewrite Nat2Z.id. rewrite skipn_app, skipn_all, Nat.sub_diag. reflexivity.
Qed.

Lemma firstn_len_app (a b : bytes) k : k = len a -> firstn (Z.to_nat k) (a ++ b) = a.
Proof.
  intros ->. unfold len. rewrite Nat2Z.id. rewrite firstn_app, firstn_all, Nat.sub_diag.
  cbn [firstn]. apply app_nil_r.
Qed.

Lemma drop_app site (a b : bytes) k : k = len a -> drop site (a ++ b) k = Ok b.
Proof.
  intros E. rewrite drop_ok.
  - rewrite skipn_len_app by exact E. reflexivity.
  - rewrite len_app. pose proof (len_nonneg a). pose proof (len_nonneg b). lia.
Qed.

Lemma slice_app site (a b c : bytes) i j :
  i = len a -> j = len a + len b -> slice site (a ++ b ++ c) i j = Ok b.
Proof.
  intros Ei Ej. pose proof (len_nonneg a). pose proof (len_nonneg b). pose proof (len_nonneg c).
  rewrite slice_ok.
  - rewrite skipn_len_app by exact Ei. rewrite firstn_len_app by lia. reflexivity.
  - lia.
  - rewrite !len_app. lia.
Qed.

Lemma skipn_add {A} (l : list A) n m : skipn n (skipn m l) = skipn (m + n) l.
Proof.
  revert l. induction m as [|m IH]; intros l; [reflexivity|].
  destruct l as [|x l]; [cbn; destruct n; reflexivity|]. cbn [skipn Nat.add]. apply IH.
Qed.

(* a byte list cut at two offsets *)
Lemma split3 (s : bytes) i j : 0 <= i <= j -> j <= len s ->
  exists a b c, s = a ++ b ++ c /\ len a = i /\ len b = j - i /\
                a = firstn (Z.to_nat i) s /\
                b = firstn (Z.to_nat (j - i)) (skipn (Z.to_nat i) s) /\
                c = skipn (Z.to_nat j) s.
Proof.
  intros H1 H2.
  exists (firstn (Z.to_nat i) s), (firstn (Z.to_nat (j - i)) (skipn (Z.to_nat i) s)), (skipn (Z.to_nat j) s).
  assert (E : skipn (Z.to_nat j) s = skipn (Z.to_nat (j - i)) (skipn (Z.to_nat i) s)).
  { rewrite skipn_add. f_equal. lia. }
  splits; try reflexivity.
  - rewrite E, firstn_skipn, firstn_skipn. reflexivity.
  - rewrite len_firstn_le; lia.
  - rewrite len_firstn_le; [lia|]. rewrite len_skipn_le; lia.
Qed.

Lemma index_byte_split l c :
  (index_byte l c = -1 /\ ~ In c l) \/
  (exists pre post, l = pre ++ c :: post /\ ~ In c pre /\ index_byte l c = len pre).
Proof.
  induction l as [|b l IH]; cbn [index_byte].
  - left. split; [reflexivity|intros []].
  - destruct (beq b c) eqn:E.
    + apply beq_eq in E. subst b. right. exists [], l. splits; [reflexivity|intros []|reflexivity].
    + apply beq_neq in E. destruct IH as [[I N]|(pre & post & L & N & I)].
      * left. rewrite I. cbn. split; [reflexivity|]. intros [H|H]; [congruence|contradiction].
      * right. exists (b :: pre), post. rewrite I. pose proof (len_nonneg pre).
        destruct (len pre <? 0) eqn:E2; [lia|]. splits.
        -- rewrite L. reflexivity.
        -- intros [H0|H0]; [congruence|contradiction].
        -- rewrite len_cons. lia.
Qed.

(* ---------- the backslash parity ---------- *)

Lemma trailing_bs_nonneg l : 0 <= trailing_bs_count l.
Proof. induction l as [|b l IH]; cbn [trailing_bs_count]; [lia|]. destruct (beq b x5c); lia. Qed.

Lemma escaped_nil : is_backslash_escaped [] = false.
Proof. reflexivity. Qed.

(* appending one byte: a backslash flips the parity, any other byte resets it *)
Lemma escaped_snoc a b :
  is_backslash_escaped (a ++ [b]) = if beq b x5c then negb (is_backslash_escaped a) else false.
Proof.
  unfold is_backslash_escaped. rewrite rev_app_distr. cbn [rev app trailing_bs_count].
  destruct (beq b x5c); [|reflexivity].
  pose proof (trailing_bs_nonneg (rev a)). Z.quot_rem_to_equations. lia.
Qed.

Lemma option_map_add a b (x : option Z) :
  option_map (Z.add a) (option_map (Z.add b) x) = option_map (Z.add (a + b)) x.
Proof. destruct x; cbn [option_map]; [f_equal; lia|reflexivity]. Qed.

Lemma option_map_add_ext (f : Z -> Z) a (x : option Z) :
  (forall i, f i = a + i) -> option_map f x = option_map (Z.add a) x.
Proof. intros H. destruct x; cbn [option_map]; [rewrite H|]; reflexivity. Qed.

(* ---------- find_close over delimiter-free stretches ---------- *)

Lemma find_close_absent d odd l : ~ In d l -> find_close d odd l = None.
Proof.
  revert odd. induction l as [|b l IH]; intros odd N; cbn [find_close]; [reflexivity|].
  assert (E : beq b d = false) by (apply beq_neq; intros ->; apply N; left; reflexivity).
  rewrite E. assert (N' : ~ In d l) by (intros H; apply N; right; exact H).
  destruct (beq b x5c); rewrite IH by exact N'; reflexivity.
Qed.

(* over a stretch without delimiter, find_close only updates its parity: the new
   parity is that of the backslash run at the end of (what came before ++ stretch) *)
Lemma find_close_stretch d pre : forall a l, ~ In d pre ->
  find_close d (is_backslash_escaped a) (pre ++ l)
  = option_map (Z.add (len pre)) (find_close d (is_backslash_escaped (a ++ pre)) l).
Proof.
  induction pre as [|b pre IH]; intros a l N.
  - rewrite app_nil_r. cbn [app]. change (len []) with 0.
    destruct (find_close d _ l); reflexivity.
  - assert (E : beq b d = false) by (apply beq_neq; intros ->; apply N; left; reflexivity).
    assert (N' : ~ In d pre) by (intros H; apply N; right; exact H).
    cbn [app find_close]. rewrite E.
    assert (S : (if beq b x5c
                 then option_map (Z.add 1) (find_close d (negb (is_backslash_escaped a)) (pre ++ l))
                 else option_map (Z.add 1) (find_close d false (pre ++ l)))
                = option_map (Z.add 1) (find_close d (is_backslash_escaped (a ++ [b])) (pre ++ l))).
    { rewrite escaped_snoc. destruct (beq b x5c); reflexivity. }
    rewrite S. rewrite (IH (a ++ [b]) l N'). rewrite option_map_add.
    rewrite <- app_assoc. cbn [app]. rewrite len_cons. reflexivity.
Qed.

Lemma option_map_add_Some a (x : option Z) j :
  option_map (Z.add a) x = Some j -> exists m, x = Some m /\ j = a + m.
Proof. destruct x as [m|]; cbn [option_map]; intros H; [|discriminate]. exists m. split; congruence. Qed.

Lemma find_close_range_n d n : forall l odd i, (List.length l <= n)%nat ->
  find_close d odd l = Some i -> 0 <= i < len l.
Proof.
  induction n as [|n IH]; intros l odd i Hn.
  - destruct l; [cbn [find_close]; discriminate|cbn in Hn; lia].
  - destruct l as [|b l]; cbn [find_close]; [discriminate|]. cbn [List.length] in Hn.
    rewrite len_cons. pose proof (len_nonneg l).
    assert (R1 : forall o j, option_map (Z.add 1) (find_close d o l) = Some j -> 0 <= j < 1 + len l).
    { intros o j Hj. apply option_map_add_Some in Hj. destruct Hj as (m & F & ->).
      apply IH in F; lia. }
    destruct (beq b d).
    + destruct odd; [apply R1|].
      destruct l as [|b' l']; [intros [= <-]; rewrite len_nil; lia|].
      rewrite len_cons in *. pose proof (len_nonneg l'). cbn [List.length] in Hn.
      destruct (beq b' d); [|intros [= <-]; lia].
      intros Hj. apply option_map_add_Some in Hj. destruct Hj as (m & F & ->).
      apply IH in F; lia.
    + destruct (beq b x5c); apply R1.
Qed.

Lemma find_close_range d l odd i : find_close d odd l = Some i -> 0 <= i < len l.
Proof. apply (find_close_range_n d (List.length l)). lia. Qed.

(* ---------- 1. string_core_loop computes find_close ---------- *)

Lemma loop_find_close_split fuel : forall hd lit rest d,
  d <> x5c -> len rest < Z.of_nat fuel ->
  string_core_loop fuel (hd ++ lit ++ rest) (len hd) (len hd + len lit) d
  = Ok (option_map (Z.add (len hd + len lit)) (find_close d (is_backslash_escaped lit) rest)).
Proof.
  induction fuel as [|fuel IH]; intros hd lit rest d Hd Hf; [pose proof (len_nonneg rest); lia|].
  cbn [string_core_loop].
  assert (S0 : hd ++ lit ++ rest = (hd ++ lit) ++ rest) by apply app_assoc.
  rewrite S0 at 1. rewrite drop_app by (rewrite len_app; reflexivity). cbn [bind].
  destruct (index_byte_split rest d) as [[I N]|(pre & post & L & N & I)].
  - rewrite I. cbn [Z.eqb]. change (-1 =? -1) with true. cbn iota.
    rewrite find_close_absent by exact N. reflexivity.
  - rewrite I. pose proof (len_nonneg pre) as Hpre.
    destruct (len pre =? -1) eqn:E1; [lia|]. subst rest.
    rewrite len_app, len_cons in Hf. pose proof (len_nonneg post) as Hpost.
    (* the delimiter found *)
    assert (S1 : hd ++ lit ++ pre ++ d :: post = (hd ++ lit ++ pre) ++ d :: post)
      by (rewrite <- !app_assoc; reflexivity).
    rewrite S1 at 1. rewrite drop_app by (rewrite !len_app; lia). cbn [bind].
    assert (S2 : hd ++ lit ++ pre ++ d :: post = hd ++ (lit ++ pre) ++ d :: post)
      by (rewrite <- !app_assoc; reflexivity).
    rewrite S2 at 1. rewrite slice_app by (rewrite ?len_app; lia). cbn [bind].
    rewrite (find_close_stretch d pre lit (d :: post) N).
    set (odd := is_backslash_escaped (lit ++ pre)).
    cbn [find_close]. rewrite beq_refl.
    assert (Hnb : beq d x5c = false) by (apply beq_neq; exact Hd).
    destruct odd eqn:Eodd.
    + (* escaped delimiter: skip one byte *)
      rewrite drop_ok by (rewrite len_cons; lia). cbn [bind].
      assert (S3 : hd ++ lit ++ pre ++ d :: post = hd ++ (lit ++ pre ++ [d]) ++ post)
        by (rewrite <- !app_assoc; reflexivity).
      rewrite S3.
      replace (len hd + len lit + len pre + 1) with (len hd + len (lit ++ pre ++ [d]))
        by (rewrite !len_app, len_cons, len_nil; lia).
      rewrite IH by (assumption || lia).
      assert (P : is_backslash_escaped (lit ++ pre ++ [d]) = false).
      { rewrite app_assoc, escaped_snoc, Hnb. reflexivity. }
      rewrite P. f_equal. rewrite !option_map_add. f_equal. f_equal.
      rewrite !len_app, len_cons, len_nil. lia.
    + destruct post as [|b' post'].
      * cbn [is_double_delimiter_escaped option_map]. f_equal. f_equal. lia.
      * cbn [is_double_delimiter_escaped]. rewrite (beq_sym d b').
        destruct (beq b' d) eqn:Eb.
        -- (* doubled delimiter: skip two bytes *)
           apply beq_eq in Eb. subst b'.
           rewrite !len_cons in Hf. pose proof (len_nonneg post') as Hpost'.
           rewrite drop_ok by (rewrite !len_cons; lia). cbn [bind].
           assert (S3 : hd ++ lit ++ pre ++ d :: d :: post' = hd ++ (lit ++ pre ++ [d; d]) ++ post')
             by (rewrite <- !app_assoc; reflexivity).
           rewrite S3.
           replace (len hd + len lit + len pre + 2) with (len hd + len (lit ++ pre ++ [d; d]))
             by (rewrite !len_app, !len_cons, len_nil; lia).
           rewrite IH by (assumption || lia).
           assert (P : is_backslash_escaped (lit ++ pre ++ [d; d]) = false).
           { change [d; d] with ([d] ++ [d]). rewrite !app_assoc, escaped_snoc, Hnb. reflexivity. }
           rewrite P. f_equal. rewrite !option_map_add. f_equal. f_equal.
           rewrite !len_app, !len_cons, len_nil. lia.
        -- cbn [option_map]. f_equal. f_equal. lia.
Qed.



(* the general form: any start <= k inside s, enough fuel *)
Theorem string_core_loop_find_close fuel s start k d :
  d <> x5c -> 0 <= start <= k -> k <= len s -> len s - k < Z.of_nat fuel ->
  string_core_loop fuel s start k d
  = Ok (option_map (fun i => k + i)
         (find_close d
            (is_backslash_escaped (firstn (Z.to_nat (k - start)) (skipn (Z.to_nat start) s)))
            (skipn (Z.to_nat k) s))).
Proof.
  intros Hd H1 H2 Hf.
  destruct (split3 s start k H1 H2) as (hd & lit & rest & Es & L1 & L2 & _ & E2 & E3).
  rewrite <- E2, <- E3.
  assert (Lr : len rest = len s - k).
  { rewrite Es. rewrite !len_app. lia. }
  rewrite Es. replace start with (len hd) by lia. replace k with (len hd + len lit) at 1 by lia.
  rewrite loop_find_close_split by (assumption || lia).
  f_equal. symmetry. apply option_map_add_ext. intros i. lia.
Qed.

(* the instance used by parse_string_core: the scan starts at the beginning of the literal *)
Corollary string_core_loop_find_close_start fuel s start d :
  d <> x5c -> 0 <= start <= len s -> len s - start < Z.of_nat fuel ->
  string_core_loop fuel s start start d
  = Ok (option_map (fun i => start + i) (find_close d false (skipn (Z.to_nat start) s))).
Proof.
  intros Hd H1 Hf. rewrite string_core_loop_find_close by (assumption || lia).
  rewrite Z.sub_diag. reflexivity.
Qed.

(* ---------- 2. parse_string_core in full ---------- *)

Theorem parse_string_core_full t s p offset d :
  d <> x5c -> 0 <= p -> 0 <= offset -> p + offset <= len s ->
  parse_string_core t s (len s) p offset d
  = Ok (lit_result (t_count t) s (p + offset) (if 0 <? offset then d else x00) d 1
          (find_close d false (skipn (Z.to_nat (p + offset)) s))).
Proof.
  intros Hd Hp Ho Hl. unfold parse_string_core.
  rewrite drop_ok by lia. cbn [bind].
  rewrite string_core_loop_find_close_start by (try assumption; unfold len in *; lia).
  cbn [bind].
  set (content := skipn (Z.to_nat (p + offset)) s).
  assert (Lc : len content = len s - (p + offset)) by (unfold content; rewrite len_skipn_le; lia).
  unfold lit_result, lit_token. fold content.
  destruct (find_close d false content) as [i|] eqn:F; cbn [option_map].
  - apply find_close_range in F.
    rewrite assign_ok by lia. cbn [bind]. unfold set_close, set_open.
    cbn [t_pos t_len t_val t_cat t_open t_close t_count].
    replace (p + offset + i - (p + offset)) with i by lia. reflexivity.
  - rewrite assign_ok by lia. cbn [bind]. unfold set_close, set_open.
    cbn [t_pos t_len t_val t_cat t_open t_close t_count].
    replace (len s - p - offset) with (len s - (p + offset)) by lia. reflexivity.
Qed.



(* ---------- 3. strings.Index is the first match ---------- *)

Lemma first_match_nonneg pat l i : first_match pat l = Some i -> 0 <= i.
Proof.
  revert i. induction l as [|b l IH]; intros i; cbn [first_match].
  - destruct (has_prefix [] pat); [intros [= <-]; lia|discriminate].
  - destruct (has_prefix (b :: l) pat); [intros [= <-]; lia|].
    intros H. apply option_map_add_Some in H. destruct H as (m & F & ->). apply IH in F. lia.
Qed.

Theorem index_first_match l pat :
  index l pat = match first_match pat l with Some i => i | None => -1 end.
Proof.
  induction l as [|b l IH]; cbn [index first_match].
  - destruct (has_prefix [] pat); reflexivity.
  - destruct (has_prefix (b :: l) pat); [reflexivity|]. rewrite IH.
    destruct (first_match pat l) as [m|] eqn:F; cbn [option_map].
    + apply first_match_nonneg in F. destruct (m <? 0) eqn:E; lia.
    + reflexivity.
Qed.

(* has_prefix l p: l = p ++ something *)
Lemma has_prefix_iff l p : has_prefix l p = true <-> exists post, l = p ++ post.
Proof.
  revert l. induction p as [|x p IH]; intros l; cbn [has_prefix].
  - split; [intros _; exists l; reflexivity|destruct l; reflexivity].
  - destruct l as [|y l].
    + cbn [has_prefix]. split; [discriminate|intros [post H]; discriminate].
    + cbn [has_prefix]. rewrite andb_true_iff, beq_eq, IH. split.
      * intros [-> [post ->]]. exists post. reflexivity.
      * intros [post H]. cbn [app] in H. inversion H; subst. split; [reflexivity|exists post; reflexivity].
Qed.

Lemma occurs_at_0 pat l : occurs_at pat l 0 <-> has_prefix l pat = true.
Proof.
  rewrite has_prefix_iff. unfold occurs_at. split.
  - intros (pre & post & E & L). destruct pre; [|rewrite len_cons in L; pose proof (len_nonneg pre); lia].
    exists post. exact E.
  - intros [post E]. exists [], post. split; [exact E|reflexivity].
Qed.

Lemma occurs_at_nonneg pat l i : occurs_at pat l i -> 0 <= i.
Proof. intros (pre & post & _ & <-). apply len_nonneg. Qed.

Lemma occurs_at_cons pat b l i : 0 <= i -> (occurs_at pat (b :: l) (1 + i) <-> occurs_at pat l i).
Proof.
  intros Hi. unfold occurs_at. split.
  - intros (pre & post & E & L). destruct pre as [|x pre]; [rewrite len_nil in L; lia|].
    cbn [app] in E. inversion E; subst. exists pre, post. split; [reflexivity|]. rewrite len_cons in L. lia.
  - intros (pre & post & E & L). exists (b :: pre), post. split; [rewrite E; reflexivity|]. rewrite len_cons. lia.
Qed.

Lemma occurs_at_tail pat b l j : j <> 0 -> occurs_at pat (b :: l) j -> occurs_at pat l (j - 1).
Proof.
  intros Hj O. pose proof (occurs_at_nonneg _ _ _ O). replace j with (1 + (j - 1)) in O by lia.
  apply (proj1 (occurs_at_cons pat b l (j - 1) ltac:(lia))) in O. exact O.
Qed.

Lemma occurs_at_skip pat b l i : occurs_at pat l i -> occurs_at pat (b :: l) (1 + i).
Proof. intros O. pose proof (occurs_at_nonneg _ _ _ O). apply occurs_at_cons; assumption. Qed.

Lemma occurs_at_nil pat i : occurs_at pat [] i -> i = 0.
Proof.
  intros (pre & post & E & <-). destruct pre; [reflexivity|discriminate].
Qed.

(* first_match returns an occurrence, and there is none before it *)
Theorem first_match_Some pat l i :
  first_match pat l = Some i <-> (occurs_at pat l i /\ forall j, j < i -> ~ occurs_at pat l j).
Proof.
  revert i. induction l as [|b l IH]; intros i; cbn [first_match].
  - destruct (has_prefix [] pat) eqn:P.
    + apply occurs_at_0 in P. split.
      * intros [= <-]. split; [exact P|]. intros j Hj O. apply occurs_at_nonneg in O. lia.
      * intros [O _]. apply occurs_at_nil in O. congruence.
    + split; [discriminate|]. intros [O _]. pose proof (occurs_at_nil _ _ O). subst i.
      apply occurs_at_0 in O. congruence.
  - destruct (has_prefix (b :: l) pat) eqn:P.
    + pose proof P as P0. apply occurs_at_0 in P0. split.
      * intros [= <-]. split; [exact P0|]. intros j Hj O. apply occurs_at_nonneg in O. lia.
      * intros [O M]. pose proof (occurs_at_nonneg _ _ _ O).
        destruct (Z.eq_dec i 0) as [->|Ne]; [reflexivity|]. exfalso. apply (M 0); [lia|exact P0].
    + assert (N0 : ~ occurs_at pat (b :: l) 0) by (rewrite occurs_at_0; congruence).
      split.
      * intros H. apply option_map_add_Some in H. destruct H as (m & F & ->).
        pose proof (first_match_nonneg _ _ _ F) as Hm. apply IH in F. destruct F as [O M].
        split; [apply occurs_at_skip; assumption|].
        intros j Hj Oj.
        destruct (Z.eq_dec j 0) as [->|Ne]; [exact (N0 Oj)|].
        apply occurs_at_tail in Oj; [|exact Ne].
        apply (M (j - 1)); [lia|exact Oj].
      * intros [O M]. pose proof (occurs_at_nonneg _ _ _ O).
        destruct (Z.eq_dec i 0) as [->|Ne]; [contradiction|].
        apply occurs_at_tail in O; [|exact Ne].
        assert (F : first_match pat l = Some (i - 1)).
        { apply IH. split; [exact O|]. intros j Hj Oj.
          apply (M (1 + j)); [lia|]. apply occurs_at_skip; assumption. }
        rewrite F. cbn [option_map]. f_equal. lia.
Qed.

Theorem first_match_None pat l : first_match pat l = None <-> forall j, ~ occurs_at pat l j.
Proof.
  split.
  - intros H j O.
    (* take the least occurrence: by induction on l *)
    revert j H O. induction l as [|b l IH]; intros j; cbn [first_match].
    + destruct (has_prefix [] pat) eqn:P; [discriminate|]. intros _ O.
      pose proof (occurs_at_nil _ _ O). subst j. apply occurs_at_0 in O. congruence.
    + destruct (has_prefix (b :: l) pat) eqn:P; [discriminate|].
      destruct (first_match pat l) eqn:F; [discriminate|]. intros _ O.
      pose proof (occurs_at_nonneg _ _ _ O).
      destruct (Z.eq_dec j 0) as [->|Ne]; [apply occurs_at_0 in O; congruence|].
      apply occurs_at_tail in O; [|exact Ne].
      exact (IH (j - 1) eq_refl O).
  - intros H. destruct (first_match pat l) as [i|] eqn:F; [|reflexivity].
    apply first_match_Some in F. destruct F as [O _]. exfalso. exact (H i O).
Qed.



(* ---------- 6. the callers of parse_string_core ---------- *)

Lemma get_nth site (s : bytes) i b :
  0 <= i -> nth_error s (Z.to_nat i) = Some b -> get site s i = Ok b.
Proof. intros H N. unfold get. destruct (0 <=? i) eqn:E; [|lia]. rewrite N. reflexivity. Qed.

Lemma nth_lt (s : bytes) i b : 0 <= i -> nth_error s (Z.to_nat i) = Some b -> i < len s.
Proof. intros H N. apply nth_error_len in N. unfold len. lia. Qed.

(* a real quote: '..' or ".." dispatched on the opening quote at pos *)
Theorem parse_string_full s t d :
  0 <= pos s -> nth_error (input s) (Z.to_nat (pos s)) = Some d -> d <> x5c ->
  parse_string s t
  = Ok (let '(tk, np) := lit_result (t_count t) (input s) (pos s + 1) d d 1
                           (find_close d false (skipn (Z.to_nat (pos s + 1)) (input s)))
        in (s, tk, np)).
Proof.
  intros Hp N Hd. pose proof (nth_lt _ _ _ Hp N) as Hl.
  unfold parse_string, at_, slen. rewrite (get_nth _ _ _ _ Hp N). cbn [bind].
  rewrite parse_string_core_full by (assumption || lia).
  change (0 <? 1) with true. cbv iota.
  destruct (lit_result _ _ _ _ _ _ _) as [tk np]. reflexivity.
Qed.

Lemma flag2delimiter_not_bs fl : flag2delimiter fl <> x5c.
Proof.
  unfold flag2delimiter. destruct (negb _); [discriminate|]. destruct (negb _); discriminate.
Qed.

(* the virtual quote: the first call of tokenize in a quoted context *)
Theorem tokenize_virtual_quote_full s cur :
  input s <> [] -> pos s = 0 ->
  Z.land (flags s) (Z.lor c_sqli_flag_quote_single c_sqli_flag_quote_double) <> 0 ->
  tokenize s cur
  = Ok (let d := flag2delimiter (flags s) in
        let '(tk, np) := lit_result 0 (input s) 0 x00 d 1 (find_close d false (input s))
        in (true, tk, bump_tokens (set_pos s np))).
Proof.
  intros Hne Hp Hf. unfold tokenize, slen.
  assert (L : len (input s) <> 0).
  { destruct (input s) as [|b0 r0]; [congruence|]. rewrite len_cons. pose proof (len_nonneg r0). lia. }
  destruct (len (input s) =? 0) eqn:E0; [lia|].
  destruct (pos s =? 0) eqn:E1; [|lia]. cbn [andb].
  destruct (Z.land (flags s) (Z.lor c_sqli_flag_quote_single c_sqli_flag_quote_double) =? 0) eqn:E2; [lia|].
  cbn [negb]. cbv iota.
  pose proof (len_nonneg (input s)).
  rewrite parse_string_core_full by (try apply flag2delimiter_not_bs; lia).
  cbn [bind]. change (0 + 0) with 0. change (0 <? 0) with false. cbv iota.
  change (Z.to_nat 0) with 0%nat. cbn [skipn]. cbn [t_count tok0].
  destruct (lit_result _ _ _ _ _ _ _) as [tk np]. reflexivity.
Qed.


(* ---------- 4. Oracle q-quotes ---------- *)

Lemma first_match_range pat l i : first_match pat l = Some i -> 0 <= i /\ i + len pat <= len l.
Proof.
  intros F. apply first_match_Some in F. destruct F as [(pre & post & E & L) _].
  rewrite E, !len_app. pose proof (len_nonneg pre). pose proof (len_nonneg post). lia.
Qed.

(* the common tail of parse_qstring_core and parse_money: search the terminator
   with strings.Index, write the token *)
Lemma index_tail (s : sqlst) (t : token) cpos pat w o c :
  0 <= cpos <= len (input s) -> w = len pat ->
  (let body := skipn (Z.to_nat cpos) (input s) in
   let idx := index body pat in
   if idx =? -1
   then t' <- assign t b_sqli_token_type_string cpos (len (input s) - cpos) body ;;
        Ok (s, set_close (set_open t' o) x00, len (input s))
   else t' <- assign t b_sqli_token_type_string cpos idx body ;;
        Ok (s, set_close (set_open t' o) c, cpos + idx + w))
  = Ok (let '(tk, np) := lit_result (t_count t) (input s) cpos o c w
                           (first_match pat (skipn (Z.to_nat cpos) (input s)))
        in (s, tk, np)).
Proof.
  intros Hc Hw. cbv zeta. set (body := skipn (Z.to_nat cpos) (input s)).
  assert (Lb : len body = len (input s) - cpos) by (unfold body; rewrite len_skipn_le; lia).
  rewrite index_first_match. unfold lit_result, lit_token. fold body.
  destruct (first_match pat body) as [i|] eqn:F.
  - apply first_match_range in F. pose proof (len_nonneg pat).
    destruct (i =? -1) eqn:E; [lia|].
    rewrite assign_ok by lia. cbn [bind]. unfold set_close, set_open.
    cbn [t_pos t_len t_val t_cat t_open t_close t_count]. reflexivity.
  - change (-1 =? -1) with true. cbv iota.
    rewrite assign_ok by lia. cbn [bind]. unfold set_close, set_open.
    cbn [t_pos t_len t_val t_cat t_open t_close t_count]. reflexivity.
Qed.

Theorem parse_qstring_core_full offset s t a ch :
  let p := pos s + offset in
  0 <= p ->
  nth_error (input s) (Z.to_nat p) = Some a -> a = x71 \/ a = x51 ->
  nth_error (input s) (Z.to_nat (p + 1)) = Some x27 ->
  nth_error (input s) (Z.to_nat (p + 2)) = Some ch -> 33 <= code ch ->
  parse_qstring_core offset s t
  = Ok (let '(tk, np) := lit_result (t_count t) (input s) (p + 3) x71 x71 2
                           (first_match [q_close ch; x27] (skipn (Z.to_nat (p + 3)) (input s)))
        in (s, tk, np)).
Proof.
  intros p Hp Na Ha N1 N2 Hch.
  assert (L2 : p + 2 < len (input s)) by (apply (nth_lt _ _ ch); [lia|exact N2]).
  unfold parse_qstring_core, at_, input_from, slen. fold p.
  destruct (len (input s) <=? p) eqn:E0; [lia|].
  rewrite (get_nth _ _ _ _ Hp Na). cbn [bind].
  assert (Eq : negb (beq a x71) && negb (beq a x51) = false) by (destruct Ha; subst a; reflexivity).
  rewrite Eq. destruct (len (input s) <=? p + 2) eqn:E2; [lia|].
  rewrite (get_nth _ _ (p + 1) _ ltac:(lia) N1). cbn [bind].
  change (negb (beq x27 b_byte_single)) with false. cbv iota.
  rewrite (get_nth _ _ (p + 2) _ ltac:(lia) N2). cbn [bind].
  destruct (code ch <? 33) eqn:E3; [lia|].
  rewrite drop_ok by lia. cbn [bind]. fold (q_close ch).
  replace (len (input s) - p - 3) with (len (input s) - (p + 3)) by lia.
  apply (index_tail s t (p + 3) [q_close ch; b_byte_single] 2 x71 x71); [lia|reflexivity].
Qed.


(* ---------- 5. PostgreSQL dollar quoting ---------- *)

Lemma span_len_exact site f (l : bytes) n :
  0 <= n <= len l -> span_len site f l n = Ok (Z.min n (span f l)).
Proof.
  intros H. unfold span_len. destruct (n <? 0) eqn:E; [lia|].
  rewrite span_n_exact by (unfold len in H; lia).
  replace (Z.of_nat (Z.to_nat n)) with n by lia. reflexivity.
Qed.

Lemma span_ext f g (l : bytes) : (forall b, f b = g b) -> span f l = span g l.
Proof. intros H. induction l as [|b l IH]; cbn [span]; [reflexivity|]. rewrite H, IH. reflexivity. Qed.

Definition money_digits : bytes := bs "0123456789.,".
Definition money_letters : bytes := bs "abcdefghjiklmnopqrstuvwxyzABCDEFGHIJKLMNOPQRSTUVWXYZ".

(* the accept set of the tag scan is exactly the ASCII letters *)
Lemma money_letters_alpha b : mem b money_letters = is_alpha b.
Proof.
  apply eqb_prop. revert b. apply byte_sweep. vm_compute. reflexivity.
Qed.

Lemma alpha_not_digit b : is_alpha b = true -> mem b money_digits = false.
Proof.
  intros H. assert (K : implb (is_alpha b) (negb (mem b money_digits)) = true).
  { revert b H. intros b _. revert b. apply byte_sweep. vm_compute. reflexivity. }
  rewrite H in K. cbn [implb] in K. apply negb_true_iff in K. exact K.
Qed.

Lemma alpha_not_dollar b : is_alpha b = true -> beq b x24 = false.
Proof. intros H. apply beq_neq. intros ->. vm_compute in H. discriminate. Qed.

Lemma firstn_snoc_nth {A} (l : list A) n b : nth_error l n = Some b -> firstn (S n) l = firstn n l ++ [b].
Proof.
  revert l. induction n as [|n IH]; intros [|x l] H; cbn [nth_error] in H; try discriminate.
  - inversion H; subst. reflexivity.
  - cbn [firstn app]. f_equal. apply IH. exact H.
Qed.

(* $$ ... $$ *)
Theorem parse_money_dollar_dollar_full s t :
  0 <= pos s ->
  nth_error (input s) (Z.to_nat (pos s + 1)) = Some x24 ->
  parse_money s t
  = Ok (let '(tk, np) := lit_result (t_count t) (input s) (pos s + 2) x24 x24 2
                           (first_match [x24; x24] (skipn (Z.to_nat (pos s + 2)) (input s)))
        in (s, tk, np)).
Proof.
  intros Hp N1.
  assert (L1 : pos s + 1 < len (input s)) by (apply (nth_lt _ _ x24); [lia|exact N1]).
  unfold parse_money, at_, input_from, slen, str_len_spn.
  destruct (pos s + 1 =? len (input s)) eqn:E0; [lia|].
  rewrite drop_ok by lia. cbn [bind].
  rewrite span_len_exact by (rewrite len_skipn_le; lia).
  rewrite (skipn_nth_cons _ _ _ N1).
  cbn [span]. change (mem x24 (bs "0123456789.,")) with false. cbv iota.
  replace (Z.min (len (input s) - pos s - 1) 0) with 0 by lia. cbn [bind].
  change (0 =? 0) with true. cbv iota.
  rewrite (get_nth _ _ (pos s + 1) _ ltac:(lia) N1). cbn [bind].
  change (beq x24 x24) with true. cbv iota.
  rewrite drop_ok by lia. cbn [bind].
  apply (index_tail s t (pos s + 2) [x24; x24] 2 x24 x24); [lia|reflexivity].
Qed.

(* $tag$ ... $tag$ : n is the length of the maximal run of ASCII letters after the first '$' *)
Theorem parse_money_tag_full s t :
  let p := pos s in
  let rest1 := skipn (Z.to_nat (p + 1)) (input s) in
  let n := span is_alpha rest1 in
  0 <= p ->
  nth_error (input s) (Z.to_nat p) = Some x24 ->
  1 <= n ->
  nth_error (input s) (Z.to_nat (p + n + 1)) = Some x24 ->
  parse_money s t
  = Ok (let pat := x24 :: firstn (Z.to_nat n) rest1 ++ [x24] in
        let '(tk, np) := lit_result (t_count t) (input s) (p + n + 2) x24 x24 (n + 2)
                           (first_match pat (skipn (Z.to_nat (p + n + 2)) (input s)))
        in (s, tk, np)).
Proof.
  intros p rest1 n Hp N0 Hn N2.
  assert (L2 : p + n + 1 < len (input s)) by (apply (nth_lt _ _ x24); [lia|exact N2]).
  assert (Lr : len rest1 = len (input s) - (p + 1)) by (unfold rest1; rewrite len_skipn_le; lia).
  (* the first byte of the tag is a letter *)
  assert (Hc : exists c r, rest1 = c :: r /\ is_alpha c = true).
  { destruct rest1 as [|c r] eqn:R; [rewrite len_nil in Lr; lia|]. exists c, r. split; [reflexivity|].
    unfold n in Hn. cbn [span] in Hn. destruct (is_alpha c); [reflexivity|lia]. }
  destruct Hc as (c & r & Rc & Ac).
  assert (N1 : nth_error (input s) (Z.to_nat (p + 1)) = Some c).
  { rewrite <- (Nat.add_0_r (Z.to_nat (p + 1))), <- nth_error_skipn. fold rest1. rewrite Rc. reflexivity. }
  unfold parse_money, at_, input_from, slen, str_len_spn. fold p.
  destruct (p + 1 =? len (input s)) eqn:E0; [lia|].
  rewrite drop_ok by lia. cbn [bind]. fold rest1.
  rewrite !span_len_exact by lia.
  fold money_digits. fold money_letters.
  assert (S0 : span (fun b => mem b money_digits) rest1 = 0).
  { rewrite Rc. cbn [span]. rewrite (alpha_not_digit c Ac). reflexivity. }
  rewrite S0. replace (Z.min (len (input s) - p - 1) 0) with 0 by lia. cbn [bind].
  change (0 =? 0) with true. cbv iota.
  rewrite (get_nth _ _ (p + 1) _ ltac:(lia) N1). cbn [bind].
  rewrite (alpha_not_dollar c Ac).
  rewrite (span_ext _ is_alpha rest1 money_letters_alpha). fold n.
  pose proof (span_range is_alpha rest1) as Hsr. fold n in Hsr.
  replace (Z.min (len (input s) - p - 1) n) with n by lia. cbn [bind].
  destruct (n =? 0) eqn:E1; [lia|].
  destruct (p + n + 1 =? len (input s)) eqn:E2; [lia|].
  rewrite (get_nth _ _ (p + n + 1) _ ltac:(lia) N2). cbn [bind].
  change (negb (beq x24 x24)) with false. cbv iota.
  rewrite drop_ok by lia. cbn [bind].
  rewrite slice_ok by lia. cbn [bind].
  (* the tag text *)
  assert (T : firstn (Z.to_nat (p + n + 2 - p)) (skipn (Z.to_nat p) (input s))
              = x24 :: firstn (Z.to_nat n) rest1 ++ [x24]).
  { rewrite (skipn_nth_cons _ _ _ N0).
    replace (Z.to_nat (p + n + 2 - p)) with (S (S (Z.to_nat n))) by lia.
    replace (S (Z.to_nat p)) with (Z.to_nat (p + 1)) by lia. fold rest1.
    cbn [firstn]. f_equal. apply firstn_snoc_nth.
    unfold rest1. rewrite nth_error_skipn. rewrite <- N2. f_equal. lia. }
  rewrite T. cbv zeta.
  replace (len (input s) - p - n - 2) with (len (input s) - (p + n + 2)) by lia.
  replace (p + n + 2 + index (skipn (Z.to_nat (p + n + 2)) (input s)) (x24 :: firstn (Z.to_nat n) rest1 ++ [x24]) + n + 2)
    with (p + n + 2 + index (skipn (Z.to_nat (p + n + 2)) (input s)) (x24 :: firstn (Z.to_nat n) rest1 ++ [x24]) + (n + 2)) by lia.
  apply (index_tail s t (p + n + 2) (x24 :: firstn (Z.to_nat n) rest1 ++ [x24]) (n + 2) x24 x24); [lia|].
  rewrite len_cons, len_app, len_cons, len_nil, len_firstn_le; lia.
Qed.


(* ---------- 6 (continued). the other callers of parse_string_core ---------- *)

(* e'..' / E'..' (also reached from n'..' via parse_nqstring): at least one byte must follow the quote *)
Theorem parse_estring_full s t :
  0 <= pos s -> pos s + 2 < len (input s) ->
  nth_error (input s) (Z.to_nat (pos s + 1)) = Some x27 ->
  parse_estring s t
  = Ok (let '(tk, np) := lit_result (t_count t) (input s) (pos s + 2) x27 x27 1
                           (find_close x27 false (skipn (Z.to_nat (pos s + 2)) (input s)))
        in (s, tk, np)).
Proof.
  intros Hp Hl N1. unfold parse_estring, at_, slen.
  destruct (len (input s) <=? pos s + 2) eqn:E0; [lia|].
  rewrite (get_nth _ _ (pos s + 1) _ ltac:(lia) N1). cbn [bind].
  change (negb (beq x27 b_byte_single)) with false. cbv iota.
  rewrite parse_string_core_full by (try discriminate; lia).
  change (0 <? 2) with true. cbv iota. cbn [bind]. change b_byte_single with x27.
  destruct (lit_result _ _ _ _ _ _ _) as [tk np]. reflexivity.
Qed.

(* u&'..' : the token is marked 'u' on both sides when terminated *)
Theorem parse_ustring_full s t :
  0 <= pos s ->
  nth_error (input s) (Z.to_nat (pos s + 1)) = Some x26 ->
  nth_error (input s) (Z.to_nat (pos s + 2)) = Some x27 ->
  parse_ustring s t
  = Ok (let '(tk, np) := lit_result (t_count t) (input s) (pos s + 3) x75 x75 1
                           (find_close x27 false (skipn (Z.to_nat (pos s + 3)) (input s)))
        in (set_pos s (pos s + 2), tk, np)).
Proof.
  intros Hp N1 N2.
  assert (L2 : pos s + 2 < len (input s)) by (apply (nth_lt _ _ x27); [lia|exact N2]).
  unfold parse_ustring, at_, slen.
  destruct (pos s + 2 <? len (input s)) eqn:E0; [|lia].
  rewrite (get_nth _ _ (pos s + 1) _ ltac:(lia) N1). cbn [bind].
  change (beq x26 x26) with true. cbv iota.
  rewrite (get_nth _ _ (pos s + 2) _ ltac:(lia) N2). cbn [bind].
  change (beq x27 b_byte_single) with true. cbv iota.
  rewrite (parse_string_full (set_pos s (pos s + 2)) t x27);
    [|cbn [pos set_pos]; lia|cbn [pos input set_pos]; exact N2|discriminate].
  cbn [pos input set_pos].
  replace (pos s + 2 + 1) with (pos s + 3) by lia.
  unfold lit_result, lit_token.
  destruct (find_close x27 false (skipn (Z.to_nat (pos s + 3)) (input s))) as [i|];
    cbn [bind]; unfold set_close, set_open; cbn [t_pos t_len t_val t_cat t_open t_close t_count];
    reflexivity.
Qed.

Lemma lit_token_take site cnt cpos content o c n :
  0 <= n -> Z.min n 31 <= len content ->
  let tk := lit_token cnt cpos content o c n in
  take site (t_val tk) (t_len tk) = Ok (t_val tk).
Proof.
  intros Hn Hl. unfold lit_token. cbn [t_val t_len]. cbv zeta.
  rewrite take_ok by (rewrite len_firstn_le; lia).
  rewrite firstn_firstn, Nat.min_id. reflexivity.
Qed.

(* `..` : same scan with the backtick as delimiter; the class is 'f' when the
   (clipped) content is a function keyword and 'n' (bare word) otherwise *)
Theorem parse_tick_full s t :
  0 <= pos s < len (input s) ->
  parse_tick s t
  = Ok (let '(tk, np) := lit_result (t_count t) (input s) (pos s + 1) x60 x60 1
                           (find_close x60 false (skipn (Z.to_nat (pos s + 1)) (input s)))
        in (s, set_cat tk (if beq (search_keyword (t_val tk)) b_sqli_token_type_function
                           then b_sqli_token_type_function else b_sqli_token_type_bare_word), np)).
Proof.
  intros Hp. unfold parse_tick, slen.
  rewrite parse_string_core_full by (try discriminate; lia).
  change (0 <? 1) with true. cbv iota. cbn [bind]. change b_byte_tick with x60.
  set (content := skipn (Z.to_nat (pos s + 1)) (input s)).
  assert (Lc : len content = len (input s) - (pos s + 1)) by (unfold content; rewrite len_skipn_le; lia).
  unfold lit_result. fold content.
  destruct (find_close x60 false content) as [i|] eqn:F.
  - apply find_close_range in F.
    rewrite lit_token_take by lia. cbn [bind].
    destruct (beq _ _); reflexivity.
  - rewrite lit_token_take by lia. cbn [bind].
    destruct (beq _ _); reflexivity.
Qed.

(* @'..' and @".." : a quoted variable name; the token is a string scan re-classified 'v' *)
Theorem parse_var_quoted_full s t d :
  0 <= pos s ->
  nth_error (input s) (Z.to_nat (pos s + 1)) = Some d -> d = x27 \/ d = x22 ->
  parse_var s t
  = Ok (let '(tk, np) := lit_result 1 (input s) (pos s + 2) d d 1
                           (find_close d false (skipn (Z.to_nat (pos s + 2)) (input s)))
        in (set_pos s (pos s + 1), set_cat tk b_sqli_token_type_variable, np)).
Proof.
  intros Hp N1 Hd.
  assert (L1 : pos s + 1 < len (input s)) by (apply (nth_lt _ _ d); [lia|exact N1]).
  unfold parse_var, at_, slen. cbv zeta.
  destruct (pos s + 1 <? len (input s)) eqn:E0; [|lia].
  rewrite (get_nth _ _ (pos s + 1) _ ltac:(lia) N1). cbn [bind].
  assert (B1 : beq d x40 = false) by (destruct Hd; subst d; reflexivity).
  assert (B2 : beq d x60 = false) by (destruct Hd; subst d; reflexivity).
  assert (B3 : beq d b_byte_single || beq d b_byte_double = true) by (destruct Hd; subst d; reflexivity).
  rewrite B1. cbv iota. rewrite E0.
  rewrite (get_nth _ _ (pos s + 1) _ ltac:(lia) N1). cbn [bind].
  rewrite B2, B3. change (2 =? 1) with false. change (2 =? 2) with true. cbv iota.
  rewrite (parse_string_full (set_pos s (pos s + 1)) (set_count t 1) d);
    [|cbn [pos set_pos]; lia|cbn [pos input set_pos]; exact N1|destruct Hd; subst d; discriminate].
  cbn [pos input set_pos t_count set_count].
  replace (pos s + 1 + 1) with (pos s + 2) by lia.
  destruct (lit_result _ _ _ _ _ _ _) as [tk np]. reflexivity.
Qed.

(* ---------- sanity of the oracle: what find_close returns is a delimiter ---------- *)

Lemma find_close_is_delim d n : forall l odd i, (List.length l <= n)%nat ->
  find_close d odd l = Some i -> nth_error l (Z.to_nat i) = Some d.
Proof.
  induction n as [|n IH]; intros l odd i Hn.
  - destruct l; [cbn [find_close]; discriminate|cbn in Hn; lia].
  - destruct l as [|b l]; cbn [find_close]; [discriminate|]. cbn [List.length] in Hn.
    assert (R1 : forall o j, option_map (Z.add 1) (find_close d o l) = Some j ->
                             nth_error (b :: l) (Z.to_nat j) = Some d).
    { intros o j Hj. apply option_map_add_Some in Hj. destruct Hj as (m & F & ->).
      pose proof (find_close_range _ _ _ _ F). apply IH in F; [|lia].
      replace (Z.to_nat (1 + m)) with (S (Z.to_nat m)) by lia. exact F. }
    destruct (beq b d) eqn:Eb.
    + apply beq_eq in Eb. subst b. destruct odd; [apply R1|].
      destruct l as [|b' l']; [intros [= <-]; reflexivity|]. cbn [List.length] in Hn.
      destruct (beq b' d); [|intros [= <-]; reflexivity].
      intros Hj. apply option_map_add_Some in Hj. destruct Hj as (m & F & ->).
      pose proof (find_close_range _ _ _ _ F). apply IH in F; [|lia].
      replace (Z.to_nat (2 + m)) with (S (S (Z.to_nat m))) by lia. exact F.
    + destruct (beq b x5c); apply R1.
Qed.

Lemma find_close_delim d l odd i : find_close d odd l = Some i -> nth_error l (Z.to_nat i) = Some d.
Proof. apply (find_close_is_delim d (List.length l)). lia. Qed.


(* ---------- n'..' and nq'[..]' (parse_nqstring) ---------- *)

Theorem parse_nqstring_quote_full s t :
  0 <= pos s -> pos s + 2 < len (input s) ->
  nth_error (input s) (Z.to_nat (pos s + 1)) = Some x27 ->
  parse_nqstring s t
  = Ok (let '(tk, np) := lit_result (t_count t) (input s) (pos s + 2) x27 x27 1
                           (find_close x27 false (skipn (Z.to_nat (pos s + 2)) (input s)))
        in (s, tk, np)).
Proof.
  intros Hp Hl N1. unfold parse_nqstring, at_, slen.
  destruct (pos s + 2 <? len (input s)) eqn:E0; [|lia].
  rewrite (get_nth _ _ (pos s + 1) _ ltac:(lia) N1). cbn [bind].
  change (beq x27 b_byte_single) with true. cbv iota.
  apply parse_estring_full; assumption.
Qed.

Theorem parse_nqstring_q_full s t a ch :
  0 <= pos s ->
  nth_error (input s) (Z.to_nat (pos s + 1)) = Some a -> a = x71 \/ a = x51 ->
  nth_error (input s) (Z.to_nat (pos s + 2)) = Some x27 ->
  nth_error (input s) (Z.to_nat (pos s + 3)) = Some ch -> 33 <= code ch ->
  parse_nqstring s t
  = Ok (let '(tk, np) := lit_result (t_count t) (input s) (pos s + 4) x71 x71 2
                           (first_match [q_close ch; x27] (skipn (Z.to_nat (pos s + 4)) (input s)))
        in (s, tk, np)).
Proof.
  intros Hp Na Ha N1 N2 Hch.
  assert (L : pos s + 3 < len (input s)) by (apply (nth_lt _ _ ch); [lia|exact N2]).
  unfold parse_nqstring, at_, slen.
  destruct (pos s + 2 <? len (input s)) eqn:E0; [|lia].
  rewrite (get_nth _ _ (pos s + 1) _ ltac:(lia) Na). cbn [bind].
  assert (B : beq a b_byte_single = false) by (destruct Ha; subst a; reflexivity).
  rewrite B. cbv iota.
  pose proof (parse_qstring_core_full 1 s t a ch) as Q. cbv zeta in Q.
  replace (pos s + 1 + 1) with (pos s + 2) in Q by lia.
  replace (pos s + 1 + 2) with (pos s + 3) in Q by lia.
  replace (pos s + 1 + 3) with (pos s + 4) in Q by lia.
  apply Q; (assumption || lia).
Qed.
