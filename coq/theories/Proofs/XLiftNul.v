(* XLiftNul: C04, NUL bytes (and letter case) inside tag names and event
   attribute names, for the productions p_black_tags and p_events of the
   vector grammar, in every break-out context. *)
From Coq Require Import List ZArith String Bool Lia ZifyBool.
From Coq.Strings Require Import Byte.
From LI Require Import Prelude Base Html5 Xss Proofs.BaseFacts Spec.XCiSpec
  Spec.RefHtml Proofs.RefHtmlProofs Spec.GrammarXss
  Proofs.XLiftSpec Proofs.XLiftRef Proofs.XLiftNames Proofs.XLiftUrl.
From LIGen Require Import Consts.
Import ListNotations.
Local Open Scope Z_scope.

(* ---------- element content of break-out context ci ---------- *)

Lemma tag_ctx_fires ci n c l : (ci < 5)%nat -> (n <= 3 + List.length l)%nat ->
  (forall a, fires n MText (c :: l) false a) ->
  is_xss (pre_of ci ++ c :: l) = Ok true.
Proof.
  intros Hci Hn H.
  destruct ci as [|[|[|[|[|ci]]]]]; [| | | | |lia].
  - change (pre_of 0 ++ c :: l) with (c :: l).
    apply (is_xss_of_verdict 0); [cbn; auto|].
    apply (fires_verdict n); [cbn [List.length]; lia|]. apply H.
  - change (pre_of 1 ++ c :: l) with (x78 :: x3e :: c :: l).
    apply (is_xss_of_verdict 1); [cbn; auto|].
    apply (fires_verdict (S (S n))); [cbn [List.length]; lia|]. apply pre1. exact H.
  - change (pre_of 2 ++ c :: l) with (x78 :: x27 :: x3e :: c :: l).
    apply (is_xss_of_verdict 2); [cbn; auto 6|].
    apply (fires_verdict (S (S n))); [cbn [List.length]; lia|]. apply (preq n x27 _ eq_refl). exact H.
  - change (pre_of 3 ++ c :: l) with (x78 :: x22 :: x3e :: c :: l).
    apply (is_xss_of_verdict 3); [cbn; auto 6|].
    apply (fires_verdict (S (S n))); [cbn [List.length]; lia|]. apply (preq n x22 _ eq_refl). exact H.
  - change (pre_of 4 ++ c :: l) with (x78 :: x60 :: x3e :: c :: l).
    apply (is_xss_of_verdict 4); [cbn; auto 7|].
    apply (fires_verdict (S (S n))); [cbn [List.length]; lia|]. apply (preq n x60 _ eq_refl). exact H.
Qed.

(* <TAG' rest : TAG' a variant of a blacklisted element name; rest is empty or
   begins with a byte that ends a tag name (white space, '/', '>') *)
Theorem tag_variant ci T T' rest : (ci < 5)%nat ->
  In T all_black_tags -> name_variant T T' -> stops_at ends_tag_name rest ->
  is_xss (pre_of ci ++ x3c :: T' ++ rest) = Ok true.
Proof.
  intros Hci HT HV Hr. destruct (tags_sweep T HT) as [Ok1 Bl].
  apply (tag_ctx_fires ci 1); [exact Hci|lia|].
  intros a. apply fires_tag; [exact (variant_tag_ok T T' HV Ok1)|exact Hr|exact (variant_black_tag T T' HV Bl)].
Qed.

Lemma tag_terms_stop term : In term tag_terms -> stops_at ends_tag_name term.
Proof.
  intros H. cbn in H. destruct H as [<-|[<-|[<-|[<-|[]]]]]; reflexivity.
Qed.

Lemma p_black_tags_inv pre v : In v (p_black_tags pre) ->
  exists tag term, In tag black_tags /\ In term tag_terms /\ v = pre ++ bs "<" ++ tag ++ term.
Proof.
  unfold p_black_tags. intros H. apply in_flat_map in H. destruct H as (tag & Ht & H).
  apply in_map_iff in H. destruct H as (term & <- & Hm). exists tag, term. auto.
Qed.

(* every vector of the black-tag production, with its tag name replaced by any variant *)
Theorem p_black_tags_variant ci v : (ci < 5)%nat -> In v (p_black_tags (pre_of ci)) ->
  exists tag term, v = pre_of ci ++ bs "<" ++ tag ++ term /\ In tag black_tags /\ In term tag_terms /\
    forall tag', name_variant tag tag' -> is_xss (pre_of ci ++ bs "<" ++ tag' ++ term) = Ok true.
Proof.
  intros Hci Hv. destruct (p_black_tags_inv _ _ Hv) as (tag & term & Ht & Hm & ->).
  exists tag, term. split; [reflexivity|]. split; [exact Ht|]. split; [exact Hm|].
  intros tag' HV. apply (tag_variant ci tag tag' term Hci); [|exact HV|exact (tag_terms_stop term Hm)].
  unfold all_black_tags. apply in_or_app. left. exact Ht.
Qed.

(* the same for SVT / XSL (production p_svt_xsl) *)
Theorem p_svt_xsl_variant ci tag tag' : (ci < 5)%nat -> In tag [bs "SVT"; bs "XSL"] ->
  name_variant tag tag' -> is_xss (pre_of ci ++ bs "<" ++ tag' ++ bs ">") = Ok true.
Proof.
  intros Hci Ht HV. apply (tag_variant ci tag tag' (bs ">") Hci); [|exact HV|reflexivity].
  unfold all_black_tags. apply in_or_app. right. exact Ht.
Qed.

(* ---------- event handlers ---------- *)

Lemma event_post_fires q : In q event_quotings ->
  (exists post, q = x3d :: post /\ fires 1 MBeforeValue post false c_attribute_type_black) \/
  (exists post, q = x20 :: post /\ fires 1 MAfterName post false c_attribute_type_black).
Proof.
  intros H. cbn in H. destruct H as [<-|[<-|[<-|[<-|[<-|[]]]]]].
  - left. eexists. split; [reflexivity|]. eapply fires_now_black. reflexivity.
  - left. eexists. split; [reflexivity|]. eapply fires_now_black. reflexivity.
  - left. eexists. split; [reflexivity|]. eapply fires_now_black. reflexivity.
  - left. eexists. split; [reflexivity|]. eapply fires_now_black. reflexivity.
  - right. eexists. split; [reflexivity|]. eapply fires_now_black. reflexivity.
Qed.

Theorem event_variant ci ev N' q : (ci < 5)%nat ->
  In (ev, 1) black_events -> In q event_quotings -> name_variant (bs "ON" ++ ev) N' ->
  is_xss (apre_of ci ++ N' ++ q) = Ok true.
Proof.
  intros Hci He Hq HV. destruct (events_sweep (ev, 1) He) as [Ok1 Ty]. cbn [fst snd] in *.
  pose proof (variant_name_ok _ _ HV Ok1) as Ok2.
  pose proof (variant_attr_type _ _ HV) as Ty2. rewrite Ty in Ty2.
  apply (attr_ctx_fires ci 2); [exact Hci|lia|].
  intros m w a M.
  destruct (event_post_fires q Hq) as [(post & -> & F)|(post & -> & F)].
  - apply fires_name_eq; [exact M|exact Ok2|]. rewrite Ty2. exact F.
  - apply fires_name_sp; [exact M|exact Ok2|reflexivity|]. rewrite Ty2. exact F.
Qed.

Lemma p_events_inv apre v : In v (p_events apre) ->
  exists ev q, In (ev, 1) black_events /\ In q event_quotings /\ v = apre ++ bs "ON" ++ ev ++ q.
Proof.
  unfold p_events. intros H. apply in_flat_map in H. destruct H as ([ev ty] & He & H).
  cbn [fst snd] in H. destruct (ty =? 1) eqn:T; [|contradiction].
  apply Z.eqb_eq in T. subst ty.
  apply in_map_iff in H. destruct H as (q & <- & Hq). exists ev, q. auto.
Qed.

(* every vector of the event production, with its attribute name replaced by any variant *)
Theorem p_events_variant ci v : (ci < 5)%nat -> In v (p_events (apre_of ci)) ->
  exists ev q, v = apre_of ci ++ bs "ON" ++ ev ++ q /\ In (ev, 1) black_events /\ In q event_quotings /\
    forall N', name_variant (bs "ON" ++ ev) N' -> is_xss (apre_of ci ++ N' ++ q) = Ok true.
Proof.
  intros Hci Hv. destruct (p_events_inv _ _ Hv) as (ev & q & He & Hq & ->).
  exists ev, q. split; [reflexivity|]. split; [exact He|]. split; [exact Hq|].
  intros N' HV. exact (event_variant ci ev N' q Hci He Hq HV).
Qed.

Print Assumptions p_black_tags_variant.
Print Assumptions p_events_variant.
