(* BenignWsLex: the lexing lemma of C14c.  On an input made of benign items
   separated (and surrounded) by runs of whitespace, `tokenize` skips the run in
   front of the next item without writing a token, returns exactly one token
   for the item -- the same token, up to its position, as on the single-space
   join of the items (Proofs/BenignTok.v) -- and returns false when only
   whitespace is left.

   An item followed by a whitespace byte is lexed as the same item followed by a
   blank (locality of the lexers, Proofs/WsLocal.v; parseQString, for which no
   locality lemma was needed there, is reduced to parseWord here), and a scan
   that starts behind a prefix is the scan of the rest, shifted (WsShift.v). *)
From Coq Require Import List ZArith String Bool Lia ZifyBool.
From Coq.Strings Require Import Byte.
From LI Require Import Prelude Base SqliLex SqliFold Proofs.BaseFacts Proofs.Wp Proofs.LexBase Proofs.LexSpec
  Proofs.QuoteBase Spec.BenignSpec Proofs.BenignLex Proofs.BenignTok
  Spec.WsSpec Proofs.WsBase Proofs.WsShift Proofs.WsLocal Proofs.WsTokens.
From LIGen Require Import Tables Dispatch Consts.
Import ListNotations.
Local Open Scope Z_scope.

(* ---------- bytes ---------- *)

Definition plain_nq_ok (b : byte) : bool :=
  negb (plain b || isW b)
  || (negb (beq b b_byte_single) && negb (beq b b_byte_double) && negb (beq b b_byte_tick)).

Lemma plain_nq_sweep b : plain_nq_ok b = true.
Proof. apply byte_sweep. vm_compute. reflexivity. Qed.

(* a word byte or a whitespace byte is no quote *)
Lemma pw_noquote b : plain b || isW b = true ->
  beq b b_byte_single = false /\ beq b b_byte_double = false /\ beq b b_byte_tick = false.
Proof.
  intros H. pose proof (plain_nq_sweep b) as K. unfold plain_nq_ok in K. rewrite H in K. cbn [negb orb] in K.
  repeat (apply andb_true_iff in K; destruct K as [K ?]).
  repeat match goal with H0 : negb _ = true |- _ => apply negb_true_iff in H0 end. auto.
Qed.

Definition pw (b : byte) : bool := plain b || isW b.

Lemma nquote_pw s j : forallb pw s = true -> nquote s j = true.
Proof.
  intros H. unfold nquote. destruct (get "" s j) as [c| | |] eqn:G; try reflexivity.
  apply get_Ok_inv in G. destruct G as [_ N]. pose proof (forallb_nth _ _ _ _ H N) as P.
  destruct (pw_noquote c P) as (A & B & C). rewrite A, B, C. reflexivity.
Qed.

(* ---------- parseQString on a word ---------- *)

Lemma parse_qstring_word s t : 0 <= pos s -> nquote (input s) (pos s + 1) = true ->
  parse_qstring s t = parse_word s t.
Proof.
  intros H0 N. unfold parse_qstring, parse_qstring_core, at_. rewrite Z.add_0_r.
  destruct (slen s <=? pos s) eqn:E; [reflexivity|].
  destruct (get_ok "parseQStringCore" (input s) (pos s) ltac:(unfold slen in *; lia)) as [c0 [G0 _]].
  rewrite G0. cbn [bind].
  destruct (negb (beq c0 x71) && negb (beq c0 x51)); [reflexivity|].
  destruct (slen s <=? pos s + 2) eqn:E2; [reflexivity|].
  destruct (get_ok "parseQStringCore" (input s) (pos s + 1) ltac:(unfold slen in *; lia)) as [c1 [G1 _]].
  rewrite G1. cbn [bind].
  rewrite (proj1 (nquote_get _ _ _ _ N G1)). reflexivity.
Qed.


Lemma nquote_prefix pre y j : forallb pw pre = true -> j < len pre -> nquote (pre ++ y) j = true.
Proof.
  intros H L. unfold nquote. rewrite get_app_l by exact L. apply (nquote_pw pre j H).
Qed.

Lemma side_pw s p id : forallb pw s = true -> side s p id = true.
Proof.
  intros H. destruct id; cbn [side]; try reflexivity; unfold plain_after; rewrite !nquote_pw by exact H;
    try reflexivity; apply orb_true_r.
Qed.

Lemma item_pw w : benign_item w = true -> forallb pw w = true.
Proof.
  intros H. destruct (item_word_bytes w H) as [Hb _]. eapply forallb_impl; [|exact Hb].
  intros b Hw. unfold pw, plain. rewrite Hw. reflexivity.
Qed.

(* ---------- an item followed by a whitespace byte ---------- *)

Lemma lex_item_W w c y fl stt : benign_item w = true -> isW c = true ->
  exists b w' s'', w = b :: w' /\ 
    run_parser (dispatch b) (mkSt (w ++ c :: y) fl 0 stt) tok0
    = Ok (s'', item_tok 0 w (item_class w) tok0, len w) /\ st s'' = stt.
Proof.
  intros Hw Hc. destruct (item_word_bytes w Hw) as [Hwb Lw].
  assert (HplU : forallb plain (w ++ [x20]) = true).
  { rewrite forallb_app. apply andb_true_iff. split; [|reflexivity].
    eapply forallb_impl; [|exact Hwb]. intros b Hb. unfold plain. rewrite Hb. reflexivity. }
  assert (HpwU : forallb pw (w ++ [x20]) = true).
  { eapply forallb_impl; [|exact HplU]. intros b Hb. unfold pw. rewrite Hb. reflexivity. }
  destruct (lex_item (mkSt (w ++ [x20]) fl 0 stt) tok0 [] w [x20] eq_refl eq_refl
              (or_intror (ex_intro _ [] eq_refl)) Hw HplU) as (b & w' & Ew & R).
  cbn [len List.length] in R. change (Z.of_nat 0) with 0 in R. rewrite Z.add_0_l in R.
  exists b, w'.
  assert (Hab : ab w 0 = b) by (rewrite Ew; reflexivity).
  assert (Hp : 0 <= 0 < len w) by lia.
  assert (Hid : dispatch b = PNumber \/ wordlike (dispatch b) = true).
  { unfold benign_item in Hw. apply orb_true_iff in Hw. destruct Hw as [Hn|Hwd].
    - left. destruct (benign_number_inv w Hn) as [(b0 & w0 & E0 & Hd) _]. rewrite Ew in E0. inversion E0; subst.
      exact (proj1 (digit_facts _ Hd)).
    - right. destruct (benign_word_inv w Hwd) as [[(b0 & w0 & E0 & Hs) _] _]. rewrite Ew in E0. inversion E0; subst.
      exact (proj1 (word_start_facts _ Hs)). }
  destruct (supported (dispatch b)) eqn:Hs.
  - assert (V : negb (is_var_id (dispatch b)) || (len w <? len w) || isWv c = true).
    { destruct Hid as [-> | Hwl]; [reflexivity|]. destruct (dispatch b); try discriminate Hwl; reflexivity. }
    destruct (run_parser_loc w x20 c y eq_refl Hc (dispatch b) Hs fl 0 stt tok0 _ _ _ Hp
                ltac:(rewrite Hab; reflexivity) (side_pw _ 0 _ HpwU) R ltac:(lia) V) as [s'' [R2 S2]].
    exists s''. split; [exact Ew|]. split; [exact R2|exact S2].
  - assert (Eq : dispatch b = PQString).
    { destruct Hid as [E|Hwl]; [rewrite E in Hs; discriminate Hs|].
      destruct (dispatch b); try discriminate Hwl; try discriminate Hs. reflexivity. }
    rewrite Eq in *. cbn [run_parser] in *.
    rewrite parse_qstring_word in R by first [cbn [pos]; lia | cbn [pos input]; apply nquote_pw; exact HpwU].
    destruct (parse_word_loc w x20 c y eq_refl Hc fl 0 stt tok0 _ _ _ Hp R ltac:(lia)) as [s'' [R2 S2]].
    exists s''. split; [exact Ew|]. split; [|exact S2].
    rewrite parse_qstring_word; [exact R2|cbn [pos]; lia|]. cbn [pos input].
    change (w ++ c :: y) with (w ++ [c] ++ y). rewrite app_assoc. apply nquote_prefix.
    + rewrite forallb_app. rewrite (item_pw w Hw). cbn [forallb pw]. unfold pw. rewrite Hc, orb_true_r. reflexivity.
    + rewrite len_app. change (len [c]) with 1. lia.
Qed.


(* ---------- one item at the head of the unread part ---------- *)

(* what follows an item: nothing, or a whitespace byte *)
Definition sepW (u : bytes) : Prop := u = [] \/ exists c u', u = c :: u' /\ isW c = true.

Lemma loop_item0 w u2 fl stt fuel : benign_item w = true -> sepW u2 ->
  tokenize_loop (S fuel) (mkSt (w ++ u2) fl 0 stt) tok0
  = Ok (true, item_tok 0 w (item_class w) tok0, after (mkSt (w ++ u2) fl 0 stt) (len w)).
Proof.
  intros Hw [->|(c & y & -> & Hc)].
  - destruct (item_word_bytes w Hw) as [Hwb _].
    rewrite (tokenize_loop_item fuel (mkSt (w ++ []) fl 0 stt) tok0 [] w []); try reflexivity.
    + left. reflexivity.
    + exact Hw.
    + cbn [input]. rewrite app_nil_r. eapply forallb_impl; [|exact Hwb]. intros b Hb. unfold plain. rewrite Hb. reflexivity.
  - destruct (lex_item_W w c y fl stt Hw Hc) as (b & w' & s'' & Ew & R & S2).
    destruct (item_word_bytes w Hw) as [_ Lw]. pose proof (len_nonneg y) as Ly.
    rewrite tokenize_loop_step. unfold slen, at_. cbn [pos input].
    replace (0 <? len (w ++ c :: y)) with true by (rewrite len_app, len_cons; lia).
    assert (G : get "tokenize:input[pos]" (w ++ c :: y) 0 = Ok b) by (rewrite Ew; reflexivity).
    rewrite G. cbn [bind]. rewrite R. cbn [bind].
    assert (N : nth_error (w ++ c :: y) (Z.to_nat 0) = Some b) by (rewrite Ew; reflexivity).
    pose proof (run_parser_spec (mkSt (w ++ c :: y) fl 0 stt) tok0 b
                  ltac:(unfold lex_pre, slen; cbn [pos input]; rewrite len_app, len_cons; lia) N) as SP.
    rewrite R in SP. cbn [wp] in SP. destruct SP as (A & B & _). cbn [input flags] in A, B.
    unfold item_tok at 1. cbn [t_cat].
    assert (Hcl : negb (beq (item_class w) x00) = true) by (destruct (item_class_cases w) as [->| ->]; reflexivity).
    rewrite Hcl. destruct s'' as [i2 f2 p2 x2]. cbn [input flags st] in *. subst i2 f2 x2. reflexivity.
Qed.

(* the same behind a prefix and a (possibly empty) run of whitespace *)
Lemma loop_item pre ws w u2 fl stt fuel :
  forallb isW ws = true -> benign_item w = true -> sepW u2 -> (1 <= fuel)%nat ->
  tokenize_loop (List.length ws + fuel) (mkSt (pre ++ ws ++ w ++ u2) fl (len pre) stt) tok0
  = Ok (true, item_tok (len pre + len ws) w (item_class w) tok0,
        after (mkSt (pre ++ ws ++ w ++ u2) fl (len pre) stt) (len pre + len ws + len w)).
Proof.
  intros Hws Hw Hu Hf.
  rewrite (skip_white (pre ++ ws ++ w ++ u2) fl stt tok0 ws pre (w ++ u2) fuel eq_refl Hws eq_refl).
  destruct fuel as [|f]; [lia|].
  pose proof (loop_item0 w u2 fl stt 0 Hw Hu) as M.
  destruct (tokenize_loop_simK (pre ++ ws) fl fl (conj eq_refl eq_refl) 1 (S f) ltac:(lia) (w ++ u2)
              (0 + len (pre ++ ws)) 0 stt tok0 tok0 eq_refl (trelK_refl _ tok0 eq_refl) _ M)
    as [[[mq tq0] sq] [Eq (R1 & R2 & R3 & _)]].
  cbn [fst snd] in *. subst mq. specialize (R3 eq_refl). subst tq0.
  rewrite app_assoc. rewrite len_app in Eq. replace (len pre + len ws) with (0 + (len pre + len ws)) at 1 by lia.
  rewrite Eq. f_equal.
  destruct sq as [iq fq pq stq]. destruct R2 as (A & B & C & D & G). unfold after in *. cbn [input flags pos st] in *.
  subst iq fq pq stq.
  assert (T : shiftk (len pre + len ws) (item_tok 0 w (item_class w) tok0)
              = item_tok (len pre + len ws) w (item_class w) tok0).
  { unfold shiftk, item_tok. cbn [t_pos t_len t_count t_cat t_open t_close t_val]. f_equal. }
  rewrite T, len_app. rewrite <- app_assoc.
  replace (len w + (len pre + len ws)) with (len pre + len ws + len w) by lia. reflexivity.
Qed.

(* only whitespace is left *)
Lemma loop_end pre ws fl stt fuel : forallb isW ws = true ->
  tokenize_loop (List.length ws + fuel) (mkSt (pre ++ ws) fl (len pre) stt) tok0
  = Ok (false, tok0, mkSt (pre ++ ws) fl (len pre + len ws) stt).
Proof.
  intros Hws.
  rewrite (skip_white (pre ++ ws) fl stt tok0 ws pre [] fuel ltac:(rewrite app_nil_r; reflexivity) Hws eq_refl).
  destruct fuel as [|f]; cbn [tokenize_loop]; unfold slen; cbn [pos input]; rewrite len_app;
    replace (len pre + len ws <? len pre + len ws) with false by lia; reflexivity.
Qed.


(* ---------- the unread part of the input ---------- *)

(* behind an item: for every item left, a non-empty run and the item; then whitespace *)
Fixpoint vt (l : list bytes) (u : bytes) : Prop :=
  match l with
  | [] => forallb isW u = true
  | w :: l' => exists ws u2, ws <> [] /\ forallb isW ws = true /\ u = ws ++ w ++ u2 /\ vt l' u2
  end.

(* the same, but the run in front of the first item may be empty (start of the scan) *)
Definition vt0 (l : list bytes) (u : bytes) : Prop :=
  match l with
  | [] => forallb isW u = true
  | w :: l' => exists ws u2, forallb isW ws = true /\ u = ws ++ w ++ u2 /\ vt l' u2
  end.

Lemma vt_vt0 l u : vt l u -> vt0 l u.
Proof. destruct l as [|w l']; [auto|]. intros (ws & u2 & _ & A & B & C). exists ws, u2. auto. Qed.

Lemma vt_sep l u : vt l u -> sepW u.
Proof.
  destruct l as [|w l']; cbn [vt].
  - intros H. destruct u as [|c u']; [left; reflexivity|right]. cbn [forallb] in H. apply andb_true_iff in H.
    exists c, u'. tauto.
  - intros (ws & u2 & N & A & -> & _). right. destruct ws as [|c ws']; [congruence|].
    cbn [forallb] in A. apply andb_true_iff in A. exists c, (ws' ++ w ++ u2). tauto.
Qed.

Lemma vt_instw : forall l w runs trail,
  S (List.length runs) = List.length (w :: l) -> Forall wrun runs -> forallb isW trail = true ->
  exists u2, instw runs (w :: l) ++ trail = w ++ u2 /\ vt l u2.
Proof.
  induction l as [|w2 l IH]; intros w runs trail Hl Hr Ht.
  - destruct runs; [|cbn in Hl; lia]. exists trail. split; [reflexivity|exact Ht].
  - destruct runs as [|r runs']; [cbn in Hl; lia|]. inversion Hr as [|? ? Hr1 Hr2]; subst.
    destruct (IH w2 runs' trail ltac:(cbn [List.length] in *; lia) Hr2 Ht) as (u3 & E & V).
    exists (r ++ w2 ++ u3). split.
    + change (instw (r :: runs') (w :: w2 :: l)) with (w ++ r ++ instw runs' (w2 :: l)).
      rewrite <- !app_assoc. rewrite E. reflexivity.
    + cbn [vt]. exists r, u3. unfold wrun, wrunb in Hr1. destruct r as [|c r']; [discriminate|].
      splits; try reflexivity; [discriminate|exact Hr1|exact V].
Qed.

(* ---------- the two scanners: V with arbitrary whitespace, R the single-space join ---------- *)

Section Two.

Variables (V R : bytes) (fl : Z).
Variable Hfl : Z.land fl (Z.lor c_sqli_flag_quote_single c_sqli_flag_quote_double) = 0.
Variable HV : V <> [].
Variable HR : R <> [].
Variable HL : (List.length R <= List.length V)%nat.

Definition srelB (s1 s2 : sqlst) : Prop :=
  input s1 = V /\ input s2 = R /\ flags s1 = fl /\ flags s2 = fl /\ st s1 = st s2 /\
  exists l pre u r2, Items l /\ V = pre ++ u /\ pos s1 = len pre /\ vt0 l u /\
                     lex_inv s2 r2 /\ (r2 = join_sp l \/ r2 = sp_tail l).

Lemma tokenize_unfold inp p stt c : inp <> [] ->
  tokenize (mkSt inp fl p stt) c = tokenize_loop (S (List.length inp)) (mkSt inp fl p stt) tok0.
Proof.
  intros Hne. unfold tokenize, slen. cbn [input flags pos].
  replace (len inp =? 0) with false by (destruct inp; [congruence|rewrite len_cons; pose proof (len_nonneg inp); lia]).
  rewrite Hfl. rewrite andb_false_r. reflexivity.
Qed.

Theorem benign_step s1 s2 c1 c2 : srelB s1 s2 ->
  exists (m : bool) t1 t2 s1' s2',
    tokenize s1 c1 = Ok (m, t1, s1') /\ tokenize s2 c2 = Ok (m, t2, s2') /\
    srelB s1' s2' /\ (m = true -> teq t1 t2) /\ (m = false -> t1 = t2).
Proof.
  destruct s1 as [i1 f1 p1 x1]. unfold srelB at 1. cbn [input flags pos st].
  intros (-> & Hi2 & -> & Hf2 & Hst & l & pre & u & r2 & Hl & EV & -> & Hv & Hlex & Hr).
  pose proof (tokenize_benign s2 c2 r2 l Hlex Hl Hr) as T.
  rewrite (tokenize_unfold V (len pre) x1 c1 HV).
  destruct l as [|w l'].
  - (* only whitespace is left *)
    destruct T as [t' T]. cbn [vt0] in Hv.
    assert (t' = tok0).
    { destruct s2 as [i2 f2 p2 x2]. cbn [input flags] in Hi2, Hf2. subst i2 f2.
      rewrite (tokenize_unfold R p2 x2 c2 HR) in T.
      eapply tokenize_loop_false_tok; [|reflexivity|exact T].
      destruct Hlex as ((pre2 & E2 & P2) & _). cbn [input pos] in *. unfold st_wf, slen. cbn [pos input].
      rewrite P2, E2, len_app. pose proof (len_nonneg pre2). pose proof (len_nonneg r2). lia. }
    subst t'.
    exists false, tok0, tok0, (mkSt V fl (len pre + len u) x1), s2.
    split.
    { rewrite EV. replace (S (List.length (pre ++ u))) with (List.length u + S (List.length pre))%nat
        by (rewrite app_length; lia).
      apply loop_end. exact Hv. }
    split; [exact T|]. split; [|split; [discriminate|reflexivity]].
    unfold srelB. cbn [input flags pos st]. splits; try assumption; try reflexivity.
    exists [], (pre ++ u), [], r2. splits; try assumption.
    + rewrite app_nil_r. exact EV.
    + rewrite len_app. reflexivity.
    + reflexivity.
  - (* the next item *)
    destruct T as (p & Hp & T & Hlex'). cbn [vt0] in Hv. destruct Hv as (ws & u2 & Hws & -> & Hv2).
    inversion Hl as [|w0 l0 Hw Hl']; subst w0 l0.
    exists true, (item_tok (len pre + len ws) w (item_class w) tok0), (item_tok p w (item_class w) tok0).
    exists (after (mkSt V fl (len pre) x1) (len pre + len ws + len w)), (after s2 (p + len w)).
    split.
    { rewrite EV.
      replace (S (List.length (pre ++ ws ++ w ++ u2)))
        with (List.length ws + (S (List.length (pre ++ ws ++ w ++ u2)) - List.length ws))%nat
        by (rewrite !app_length; lia).
      apply loop_item; [exact Hws|exact Hw|exact (vt_sep _ _ Hv2)|].
      rewrite !app_length. lia. }
    split; [exact T|]. split; [|split; [|discriminate]].
    + unfold srelB, after. cbn [input flags pos st]. rewrite Hst. splits; try assumption; try reflexivity.
      exists l', (pre ++ ws ++ w), u2, (sp_tail l'). splits; try assumption.
      * rewrite EV, <- !app_assoc. reflexivity.
      * rewrite !len_app. lia.
      * apply vt_vt0. exact Hv2.
      * right. reflexivity.
    + intros _. unfold teq, item_tok. cbn [t_pos t_len t_count t_cat t_open t_close t_val]. splits; reflexivity.
Qed.

(* the hypotheses of the generic folder simulation (WsFold) *)
Lemma srelB_tok s1 s2 c1 c2 : srelB s1 s2 -> simR (WsFold.relTk srelB) (tokenize s1 c1) (tokenize s2 c2).
Proof.
  intros Rl r2 E2. destruct (benign_step s1 s2 c1 c2 Rl) as (m & t1 & t2 & s1' & s2' & E1 & E2' & R' & T & T').
  rewrite E2' in E2. inversion E2; subst r2. clear E2. exists (m, t1, s1'). split; [exact E1|].
  unfold WsFold.relTk. cbn [fst snd]. splits; auto. intros ->. left. auto.
Qed.

Lemma srelB_st s1 s2 : srelB s1 s2 -> st s1 = st s2.
Proof. intros (_ & _ & _ & _ & S & _). exact S. Qed.

Lemma srelB_bump s1 s2 k : srelB s1 s2 -> srelB (bump_folds s1 k) (bump_folds s2 k).
Proof.
  unfold srelB, bump_folds, set_stats, lex_inv. cbn [input flags pos st].
  intros (A & B & C & D & E & l & pre & u & r2 & F). rewrite E. splits; auto. exists l, pre, u, r2. exact F.
Qed.

Lemma srelB_len s1 s2 : srelB s1 s2 -> (List.length (input s2) <= List.length (input s1))%nat.
Proof. intros (-> & -> & _). exact HL. Qed.

End Two.

Print Assumptions benign_step.
