(* WsBase: shared definitions of the whitespace-invariance proofs (C03, whitespace
   runs and separator mixing).

   Two runs of the SQL pipeline are compared: run 1 over the variant input
   (a ++ run ++ b), run 2 over the reference input (a ++ [w0] ++ b).  Tokens of
   the two runs are related by `tq`: equal up to the position (`teq`, from
   QuoteBase), or -- for a string, comment or evil token only -- `loose`: same
   class, marks and count, and the same answers to the only questions the
   pipeline ever asks about the text of such a token (the three tests of
   notWhitelist on val[0] and on "len > 2"). *)
From Coq Require Import List ZArith String Bool Lia ZifyBool.
From Coq.Strings Require Import Byte.
From LI Require Import Prelude Base SqliLex SqliFold Proofs.BaseFacts Proofs.Wp Proofs.LexBase Proofs.LexSpec
  Proofs.QuoteBase.
From LIGen Require Import Tables Dispatch Consts.
Import ListNotations.
Local Open Scope Z_scope.

(* what notWhitelist reads of tokenVec[1]: val[0] == '#', val[0] == '/',
   len > 2 && val[0] == '-' ; None when val is empty (the read panics) *)
Definition hdsig (t : token) : option (bool * bool * bool) :=
  match t_val t with
  | [] => None
  | c :: _ => Some (beq c x23, beq c x2f, (2 <? t_len t) && beq c x2d)
  end.

Definition loose_cat (c : byte) : Prop :=
  c = b_sqli_token_type_string \/ c = b_sqli_token_type_comment \/ c = b_sqli_token_type_evil.

Definition loose (t1 t2 : token) : Prop :=
  t_cat t1 = t_cat t2 /\ loose_cat (t_cat t2) /\
  t_count t1 = t_count t2 /\ t_open t1 = t_open t2 /\ t_close t1 = t_close t2 /\
  hdsig t1 = hdsig t2.

Definition tq (t1 t2 : token) : Prop := teq t1 t2 \/ loose t1 t2.

Lemma teq_refl t : teq t t.
Proof. unfold teq. splits; reflexivity. Qed.

Lemma teq_sym t1 t2 : teq t1 t2 -> teq t2 t1.
Proof. unfold teq. intros (A & B & C & D & E & F). splits; congruence. Qed.

Lemma teq_trans t1 t2 t3 : teq t1 t2 -> teq t2 t3 -> teq t1 t3.
Proof. unfold teq. intros (A & B & C & D & E & F) (A' & B' & C' & D' & E' & F'). splits; congruence. Qed.

Lemma teq_hdsig t1 t2 : teq t1 t2 -> hdsig t1 = hdsig t2.
Proof. unfold teq, hdsig. intros (A & _ & _ & _ & _ & F). rewrite A, F. reflexivity. Qed.

Lemma tq_refl t : tq t t.
Proof. left. apply teq_refl. Qed.

Lemma tq_cat t1 t2 : tq t1 t2 -> t_cat t1 = t_cat t2.
Proof. intros [(_ & _ & C & _)|(C & _)]; exact C. Qed.

Lemma tq_count t1 t2 : tq t1 t2 -> t_count t1 = t_count t2.
Proof. intros [(_ & C & _)|(_ & _ & C & _)]; exact C. Qed.

Lemma tq_open t1 t2 : tq t1 t2 -> t_open t1 = t_open t2.
Proof. intros [(_ & _ & _ & C & _)|(_ & _ & _ & C & _)]; exact C. Qed.

Lemma tq_close t1 t2 : tq t1 t2 -> t_close t1 = t_close t2.
Proof. intros [(_ & _ & _ & _ & C & _)|(_ & _ & _ & _ & C & _)]; exact C. Qed.

Lemma tq_hdsig t1 t2 : tq t1 t2 -> hdsig t1 = hdsig t2.
Proof. intros [T|(_ & _ & _ & _ & _ & C)]; [apply teq_hdsig; exact T|exact C]. Qed.

(* a token whose class is not one of the three loose classes is related exactly *)
Lemma tq_exact t1 t2 : tq t1 t2 -> ~ loose_cat (t_cat t2) -> teq t1 t2.
Proof. intros [T|(_ & L & _)] N; [exact T|contradiction]. Qed.

Lemma tq_trans t1 t2 t3 : tq t1 t2 -> tq t2 t3 -> tq t1 t3.
Proof.
  intros [T|L] [T'|L'].
  - left. eapply teq_trans; eassumption.
  - right. pose proof (teq_hdsig _ _ T) as H.
    destruct T as (A & B & C & D & E & F), L' as (A' & B' & C' & D' & E' & F').
    unfold loose. split; [congruence|]. split; [exact B'|]. splits; congruence.
  - right. pose proof (teq_hdsig _ _ T') as H.
    destruct L as (A & B & C & D & E & F), T' as (A' & B' & C' & D' & E' & F').
    unfold loose. split; [congruence|]. split; [rewrite <- C'; exact B|]. splits; congruence.
  - right. destruct L as (A & B & C & D & E & F), L' as (A' & B' & C' & D' & E' & F').
    unfold loose. split; [congruence|]. split; [exact B'|]. splits; congruence.
Qed.

(* the same token, k bytes further to the right *)
Definition shiftk (k : Z) (t : token) : token :=
  mkTok (t_pos t + k) (t_len t) (t_count t) (t_cat t) (t_open t) (t_close t) (t_val t).

Lemma teq_shiftk k t : teq (shiftk k t) t.
Proof. unfold teq, shiftk. cbn [t_pos t_len t_count t_cat t_open t_close t_val]. splits; reflexivity. Qed.

Lemma teq_shiftk2 k1 k2 t : teq (shiftk k1 t) (shiftk k2 t).
Proof. unfold teq, shiftk. cbn [t_pos t_len t_count t_cat t_open t_close t_val]. splits; reflexivity. Qed.
