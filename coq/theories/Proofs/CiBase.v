(* CiBase: the primitives of Base.v under the relation cv (equality up to ASCII
   case), the relational result monad rel_res, and the lock-step tactics used
   by CiLex.v / CiFold.v / CiCheck.v (property C10). *)
From Coq Require Import List ZArith String Bool Lia ZifyBool.
From Coq.Strings Require Import Byte.
From LI Require Import Prelude Base SqliLex Proofs.BaseFacts Proofs.Wp Proofs.LexBase Spec.CiSpec.
From LIGen Require Import Tables Dispatch Consts.
Import ListNotations.
Local Open Scope Z_scope.

(* ---------- functions of one byte that do not look at the case ---------- *)

Definition ci_fun {B} (g : byte -> B) : Prop := forall b, g (upper_ascii b) = g b.

Lemma ci_fun_bool (g : byte -> bool) :
  forallb (fun b => Bool.eqb (g (upper_ascii b)) (g b)) all_bytes = true -> ci_fun g.
Proof. intros H b. apply Bool.eqb_prop. exact (byte_sweep _ H b). Qed.

Lemma ci_fun_Z (g : byte -> Z) :
  forallb (fun b => g (upper_ascii b) =? g b) all_bytes = true -> ci_fun g.
Proof. intros H b. apply Z.eqb_eq. exact (byte_sweep _ H b). Qed.

Lemma ci_fun_ceq {B} (g : byte -> B) a a' : ci_fun g -> ceq a a' -> g a = g a'.
Proof. intros G H. rewrite <- (G a), <- (G a'). unfold ceq in H. rewrite H. reflexivity. Qed.

Ltac ci_sweep :=
  first [ apply ci_fun_bool; vm_compute; reflexivity
        | apply ci_fun_Z; vm_compute; reflexivity ].

Lemma ceq_refl a : ceq a a.
Proof. reflexivity. Qed.
Lemma ceq_sym a b : ceq a b -> ceq b a.
Proof. unfold ceq. congruence. Qed.
Lemma ceq_trans a b c : ceq a b -> ceq b c -> ceq a c.
Proof. unfold ceq. congruence. Qed.

Lemma upper_nonalpha b : is_alpha b = false -> upper_ascii b = b.
Proof.
  intros H. pose proof (byte_sweep (fun b => is_alpha b || beq (upper_ascii b) b) ltac:(vm_compute; reflexivity) b) as K.
  cbv beta in K. rewrite H in K. apply beq_eq. exact K.
Qed.

Lemma upper_fix b : is_alpha (upper_ascii b) = false -> upper_ascii b = b.
Proof.
  intros H. pose proof (byte_sweep (fun b => is_alpha (upper_ascii b) || beq (upper_ascii b) b) ltac:(vm_compute; reflexivity) b) as K.
  cbv beta in K. rewrite H in K. apply beq_eq. exact K.
Qed.

Lemma ceq_nonalpha a a' : ceq a a' -> is_alpha a = false -> a' = a.
Proof.
  unfold ceq. intros H N. rewrite (upper_nonalpha a N) in H.
  assert (K : is_alpha (upper_ascii a') = false) by (rewrite <- H; exact N).
  apply upper_fix in K. congruence.
Qed.

Lemma ceq_nonalpha' a a' : ceq a a' -> is_alpha a' = false -> a' = a.
Proof. intros H N. symmetry. apply ceq_nonalpha; [apply ceq_sym; exact H|exact N]. Qed.

Lemma is_alpha_ci : ci_fun is_alpha.
Proof. ci_sweep. Qed.
Lemma is_ascii_ci : ci_fun is_ascii.
Proof. ci_sweep. Qed.
Lemma ascii_nonalpha b : is_ascii b = false -> is_alpha b = false.
Proof.
  intros H. pose proof (byte_sweep (fun b => is_ascii b || negb (is_alpha b)) ltac:(vm_compute; reflexivity) b) as K.
  cbv beta in K. rewrite H in K. apply negb_true_iff. exact K.
Qed.

Lemma ceq_beq a a' c : ceq a a' -> is_alpha c = false -> beq a' c = beq a c.
Proof.
  intros H N. destruct (beq a c) eqn:E.
  - apply beq_eq in E. subst c. rewrite (ceq_nonalpha _ _ H N). apply beq_refl.
  - destruct (beq a' c) eqn:E'; [|reflexivity]. apply beq_eq in E'. subst c.
    rewrite (ceq_nonalpha' _ _ H N) in E. rewrite beq_refl in E. discriminate.
Qed.

(* ---------- cv ---------- *)

Lemma cv_nil : cv [] [].
Proof. constructor. Qed.

Lemma cv_cons a a' s s' : ceq a a' -> cv s s' -> cv (a :: s) (a' :: s').
Proof. intros H1 H2. constructor; assumption. Qed.

Lemma cv_refl s : cv s s.
Proof. induction s; constructor; auto. Qed.

Lemma cv_sym s s' : cv s s' -> cv s' s.
Proof. intros H. induction H; constructor; auto. Qed.

Lemma cv_trans s1 s2 s3 : cv s1 s2 -> cv s2 s3 -> cv s1 s3.
Proof.
  intros H. revert s3. induction H as [|a b s s' Hab H IH]; intros s3 H3; inversion H3; subst; constructor.
  - congruence.
  - apply IH. assumption.
Qed.

Lemma cv_length s s' : cv s s' -> List.length s' = List.length s.
Proof. intros H. induction H; cbn; congruence. Qed.

Lemma cv_len s s' : cv s s' -> len s' = len s.
Proof. intros H. unfold len. rewrite (cv_length _ _ H). reflexivity. Qed.

Lemma cv_app a a' b b' : cv a a' -> cv b b' -> cv (a ++ b) (a' ++ b').
Proof. intros H1 H2. apply Forall2_app; assumption. Qed.

Lemma cv_skipn n : forall s s', cv s s' -> cv (skipn n s) (skipn n s').
Proof.
  induction n as [|n IH]; intros s s' H; [exact H|].
  destruct H; cbn [skipn]; [constructor|]. apply IH. assumption.
Qed.

Lemma cv_firstn n : forall s s', cv s s' -> cv (firstn n s) (firstn n s').
Proof.
  induction n as [|n IH]; intros s s' H; [constructor|].
  destruct H; cbn [firstn]; constructor; [assumption|]. apply IH. assumption.
Qed.

Lemma cv_rev s s' : cv s s' -> cv (rev s) (rev s').
Proof.
  intros H. induction H; cbn [rev]; [constructor|]. apply cv_app; [assumption|].
  constructor; [assumption|constructor].
Qed.

Lemma cv_nth_error s s' : cv s s' -> forall n,
  match nth_error s n, nth_error s' n with
  | Some a, Some a' => ceq a a'
  | None, None => True
  | _, _ => False
  end.
Proof.
  intros H. induction H as [|a a' s s' Ha H IH]; intros n; [destruct n; exact I|].
  destruct n as [|n]; cbn [nth_error]; [exact Ha|apply IH].
Qed.

Lemma cv_alpha_free s s' : cv s s' -> forallb (fun b => negb (is_alpha b)) s = true -> s' = s.
Proof.
  intros H. induction H as [|a a' s s' Ha H IH]; cbn [forallb]; intros K; [reflexivity|].
  apply andb_true_iff in K. destruct K as [K1 K2]. apply negb_true_iff in K1.
  rewrite (ceq_nonalpha _ _ Ha K1), (IH K2). reflexivity.
Qed.

(* ---------- the relational result monad ---------- *)

Lemma rel_Ok {A A'} (R : A -> A' -> Prop) a a' : R a a' -> rel_res R (Ok a) (Ok a').
Proof. exact (fun H => H). Qed.

Lemma rel_bind {A A' B B'} (R : A -> A' -> Prop) (Q : B -> B' -> Prop) m m' f f' :
  rel_res R m m' -> (forall a a', R a a' -> rel_res Q (f a) (f' a')) ->
  rel_res Q (bind m f) (bind m' f').
Proof. destruct m, m'; cbn; intros H K; try contradiction; auto. Qed.

Lemma rel_mono {A A'} (R Q : A -> A' -> Prop) m m' :
  rel_res R m m' -> (forall a a', R a a' -> Q a a') -> rel_res Q m m'.
Proof. destruct m, m'; cbn; auto. Qed.

Lemma rel_eq {A} (m m' : res A) : rel_res eq m m' -> m = m'.
Proof. destruct m, m'; cbn; intros H; try contradiction; congruence. Qed.

Lemma rel_of_eq {A} (m m' : res A) : m = m' -> rel_res eq m m'.
Proof. intros <-. destruct m; cbn; auto. Qed.

Lemma rel_if {A A'} (R : A -> A' -> Prop) (c c' : bool) x y x' y' :
  c' = c -> (c = true -> rel_res R x x') -> (c = false -> rel_res R y y') ->
  rel_res R (if c then x else y) (if c' then x' else y').
Proof. intros -> H1 H2. destruct c; auto. Qed.

Lemma rel_Panic {A A'} (R : A -> A' -> Prop) x : rel_res R (Panic x) (Panic x).
Proof. reflexivity. Qed.

(* ---------- the checked primitives ---------- *)

Lemma rel_get site s s' i : cv s s' ->
  rel_res (fun a a' => ceq a a' /\ nth_error s (Z.to_nat i) = Some a) (get site s i) (get site s' i).
Proof.
  intros H. unfold get. destruct (0 <=? i); [|reflexivity].
  pose proof (cv_nth_error _ _ H (Z.to_nat i)) as K.
  destruct (nth_error s (Z.to_nat i)), (nth_error s' (Z.to_nat i)); cbn; try contradiction; auto.
Qed.

(* drop, remembering what was returned *)
Lemma rel_drop_s site s s' i : cv s s' ->
  rel_res (fun a a' => cv a a' /\ a = skipn (Z.to_nat i) s /\ 0 <= i <= len s) (drop site s i) (drop site s' i).
Proof.
  intros H. unfold drop. rewrite (cv_len _ _ H).
  destruct ((0 <=? i) && (i <=? len s)) eqn:E; cbn; [|reflexivity].
  split; [apply cv_skipn; exact H|]. split; [reflexivity|lia].
Qed.

Lemma rel_refl_eq {A} (m : res A) : rel_res eq m m.
Proof. destruct m; cbn; auto. Qed.

Lemma rel_drop site s s' i : cv s s' -> rel_res cv (drop site s i) (drop site s' i).
Proof.
  intros H. unfold drop. rewrite (cv_len _ _ H).
  destruct ((0 <=? i) && (i <=? len s)); cbn; [apply cv_skipn; exact H|reflexivity].
Qed.

Lemma rel_take site s s' i : cv s s' -> rel_res cv (take site s i) (take site s' i).
Proof.
  intros H. unfold take. rewrite (cv_len _ _ H).
  destruct ((0 <=? i) && (i <=? len s)); cbn; [apply cv_firstn; exact H|reflexivity].
Qed.

Lemma rel_slice site s s' i j : cv s s' -> rel_res cv (slice site s i j) (slice site s' i j).
Proof.
  intros H. unfold slice. rewrite (cv_len _ _ H).
  destruct ((0 <=? i) && (i <=? j) && (j <=? len s)); cbn; [apply cv_firstn, cv_skipn; exact H|reflexivity].
Qed.

(* ---------- searches ---------- *)

Lemma cv_index_byte s s' c : cv s s' -> is_alpha c = false -> index_byte s' c = index_byte s c.
Proof.
  intros H N. induction H as [|a a' s s' Ha H IH]; cbn [index_byte]; [reflexivity|].
  rewrite (ceq_beq _ _ _ Ha N), IH. reflexivity.
Qed.

Definition alpha_free (p : bytes) : bool := forallb (fun b => negb (is_alpha b)) p.

Lemma cv_has_prefix p : alpha_free p = true -> forall s s', cv s s' -> has_prefix s' p = has_prefix s p.
Proof.
  induction p as [|x p IH]; intros N s s' H; [destruct s, s'; reflexivity|].
  cbn [alpha_free forallb] in N. apply andb_true_iff in N. destruct N as [N1 N2]. apply negb_true_iff in N1.
  destruct H as [|a a' s s' Ha H]; cbn [has_prefix]; [reflexivity|].
  rewrite (IH N2 _ _ H). f_equal.
  rewrite (beq_sym x a'), (beq_sym x a). apply ceq_beq; assumption.
Qed.

Lemma cv_index p s s' : alpha_free p = true -> cv s s' -> index s' p = index s p.
Proof.
  intros N H. induction H as [|a a' s s' Ha H IH].
  - reflexivity.
  - cbn [index]. rewrite (cv_has_prefix p N (a :: s) (a' :: s')) by (constructor; assumption).
    rewrite IH. reflexivity.
Qed.

Lemma cv_contains p s s' : alpha_free p = true -> cv s s' -> contains s' p = contains s p.
Proof. intros N H. unfold contains. rewrite (cv_index p _ _ N H). reflexivity. Qed.

Lemma cv_span p s s' : ci_fun p -> cv s s' -> span p s' = span p s.
Proof.
  intros P H. induction H as [|a a' s s' Ha H IH]; cbn [span]; [reflexivity|].
  rewrite (ci_fun_ceq p _ _ P Ha), IH. reflexivity.
Qed.

Lemma cv_span_n site p n : ci_fun p -> forall s s', cv s s' -> span_n site p s' n = span_n site p s n.
Proof.
  intros P. induction n as [|n IH]; intros s s' H; cbn [span_n]; [reflexivity|].
  destruct H as [|a a' s s' Ha H]; [reflexivity|].
  rewrite (ci_fun_ceq p _ _ P Ha), (IH _ _ H). reflexivity.
Qed.

Lemma cv_span_len site p s s' n : ci_fun p -> cv s s' -> span_len site p s' n = span_len site p s n.
Proof. intros P H. unfold span_len. rewrite (cv_span_n site p _ P _ _ H). reflexivity. Qed.

Lemma cv_str_len_spn s s' n acc : ci_fun (fun b => mem b acc) -> cv s s' ->
  str_len_spn s' n acc = str_len_spn s n acc.
Proof. intros P H. unfold str_len_spn. apply cv_span_len; assumption. Qed.

Lemma cv_str_len_cspn s s' n acc : ci_fun (fun b => negb (mem b acc)) -> cv s s' ->
  str_len_cspn s' n acc = str_len_cspn s n acc.
Proof. intros P H. unfold str_len_cspn. apply cv_span_len; assumption. Qed.

Lemma word_accept_ci : ci_fun (fun b => negb (mem b word_accept)).
Proof. ci_sweep. Qed.
Lemma var_accept_ci : ci_fun (fun b => negb (mem b var_accept)).
Proof. ci_sweep. Qed.
Lemma is_digit_ci : ci_fun is_digit.
Proof. ci_sweep. Qed.
Lemma is_byte_white_ci : ci_fun is_byte_white.
Proof. ci_sweep. Qed.
Lemma hex1_ci : ci_fun (fun b => mem b (bs "0123456789ABCDEFabcdef")).
Proof. ci_sweep. Qed.
Lemma hex2_ci : ci_fun (fun b => mem b (bs "0123456789abcdefABCDEF")).
Proof. ci_sweep. Qed.
Lemma bin_ci : ci_fun (fun b => mem b (bs "01")).
Proof. ci_sweep. Qed.
Lemma money_digits_ci : ci_fun (fun b => mem b (bs "0123456789.,")).
Proof. ci_sweep. Qed.
Lemma money_letters_ci : ci_fun (fun b => mem b (bs "abcdefghjiklmnopqrstuvwxyzABCDEFGHIJKLMNOPQRSTUVWXYZ")).
Proof. ci_sweep. Qed.

(* ---------- strings.ToUpper ---------- *)

Lemma cv_go_upper_view s s' : cv s s' -> go_upper_view s' = go_upper_view s.
Proof.
  assert (G : forall n s s', (List.length s <= n)%nat -> cv s s' -> go_upper_view s' = go_upper_view s).
  { induction n as [|n IH]; intros s0 s0' Hn H.
    - destruct H; [reflexivity|cbn in Hn; lia].
    - destruct H as [|a a' s1 s1' Ha H]; [reflexivity|]. cbn [List.length] in Hn.
      cbn [go_upper_view]. rewrite <- (ci_fun_ceq _ _ _ is_ascii_ci Ha).
      destruct (is_ascii a) eqn:EA.
      + rewrite (IH s1 s1') by (assumption || lia). unfold ceq in Ha. rewrite Ha. reflexivity.
      + pose proof (ceq_nonalpha _ _ Ha (ascii_nonalpha _ EA)) as ->.
        destruct H as [|b b' s2 s2' Hb H]; [reflexivity|]. cbn [List.length] in Hn.
        rewrite (ceq_beq _ _ xbf Hb eq_refl), (ceq_beq _ _ xb1 Hb eq_refl).
        rewrite (IH s2 s2') by (assumption || lia). reflexivity. }
  intros H. apply (G (List.length s)); [lia|exact H].
Qed.

Lemma cv_search_keyword s s' : cv s s' -> search_keyword s' = search_keyword s.
Proof. intros H. unfold search_keyword. rewrite (cv_go_upper_view _ _ H). reflexivity. Qed.

Lemma cv_to_upper_cmp k s s' : cv s s' -> to_upper_cmp k s' = to_upper_cmp k s.
Proof. intros H. unfold to_upper_cmp. rewrite (cv_go_upper_view _ _ H). reflexivity. Qed.

(* ---------- comparisons with a letter-free literal ---------- *)

Lemma cv_bytes_eqb_lit s s' p : alpha_free p = true -> cv s s' -> bytes_eqb s' p = bytes_eqb s p.
Proof.
  intros N H. revert p N. induction H as [|a a' s s' Ha H IH]; intros [|x p] N; cbn [bytes_eqb]; try reflexivity.
  cbn [alpha_free forallb] in N. apply andb_true_iff in N. destruct N as [N1 N2]. apply negb_true_iff in N1.
  rewrite (IH p N2), (ceq_beq _ _ _ Ha N1). reflexivity.
Qed.

(* ---------- escapes of parseStringCore ---------- *)

Lemma cv_trailing_bs_count s s' : cv s s' -> trailing_bs_count s' = trailing_bs_count s.
Proof.
  intros H. induction H as [|a a' s s' Ha H IH]; cbn [trailing_bs_count]; [reflexivity|].
  rewrite (ceq_beq _ _ x5c Ha eq_refl), IH. reflexivity.
Qed.

Lemma cv_is_backslash_escaped s s' : cv s s' -> is_backslash_escaped s' = is_backslash_escaped s.
Proof.
  intros H. unfold is_backslash_escaped. rewrite (cv_trailing_bs_count _ _ (cv_rev _ _ H)). reflexivity.
Qed.

(* the two leading bytes are compared with each other: fine when the first is not a letter *)
Lemma cv_is_dde s s' d : cv s s' -> nth_error s 0 = Some d -> is_alpha d = false ->
  is_double_delimiter_escaped s' = is_double_delimiter_escaped s.
Proof.
  intros H N A. destruct H as [|a a' s s' Ha H]; [reflexivity|]. cbn in N. inversion N; subst a.
  destruct H as [|b b' s2 s2' Hb H]; [reflexivity|]. cbn [is_double_delimiter_escaped].
  rewrite (ceq_nonalpha _ _ Ha A). rewrite (beq_sym d b'), (beq_sym d b). apply ceq_beq; assumption.
Qed.

(* ---------- tokens and states ---------- *)

Lemma tok_ci_refl t : tok_ci t t.
Proof. unfold tok_ci. repeat split. apply cv_refl. Qed.

Lemma st_ci_refl s : st_ci s s.
Proof. unfold st_ci. repeat split. apply cv_refl. Qed.

Lemma tok_ci_mk p l c ty o cl v v' : cv v v' -> tok_ci (mkTok p l c ty o cl v) (mkTok p l c ty o cl v').
Proof. intros H. unfold tok_ci. cbn. repeat split. exact H. Qed.

Lemma st_ci_mk i i' f p x : cv i i' -> st_ci (mkSt i f p x) (mkSt i' f p x).
Proof. intros H. unfold st_ci. cbn. repeat split. exact H. Qed.

(* expose the shared components of two related tokens / states *)
Lemma tok_ci_inv t t' : tok_ci t t' ->
  exists p l c ty o cl v v', t = mkTok p l c ty o cl v /\ t' = mkTok p l c ty o cl v' /\ cv v v'.
Proof.
  destruct t, t'. unfold tok_ci. cbn. intros (-> & -> & -> & -> & -> & -> & H).
  do 8 eexists. split; [reflexivity|]. split; [reflexivity|exact H].
Qed.

Lemma st_ci_inv s s' : st_ci s s' ->
  exists i i' f p x, s = mkSt i f p x /\ s' = mkSt i' f p x /\ cv i i'.
Proof.
  destruct s, s'. unfold st_ci. cbn. intros (H & -> & -> & ->).
  do 5 eexists. split; [reflexivity|]. split; [reflexivity|exact H].
Qed.

Lemma rel_assign t t' ty p l v v' :
  tok_ci t t' -> cv v v' -> rel_res tok_ci (assign t ty p l v) (assign t' ty p l v').
Proof.
  intros Ht Hv. unfold assign. eapply rel_bind; [apply rel_take; exact Hv|].
  intros a a' Ha. destruct Ht as (T1 & T2 & T3 & T4 & T5 & T6 & T7).
  cbn. unfold tok_ci. cbn. rewrite T3, T5, T6. repeat split. exact Ha.
Qed.

(* ---------- the excluded neighbourhoods ---------- *)

Lemma mem_cv_nonalpha c s s' : cv s s' -> is_alpha c = false -> mem c s' = mem c s.
Proof.
  intros H N. induction H as [|a a' s s' Ha H IH]; cbn [mem existsb]; [reflexivity|].
  unfold mem in IH. rewrite IH. f_equal. rewrite (beq_sym c a'), (beq_sym c a). apply ceq_beq; assumption.
Qed.

Lemma qlit_at_cv s s' : cv s s' -> qlit_at s' = qlit_at s.
Proof.
  intros H. destruct H as [|a a' ? ? Ha H]; [reflexivity|].
  destruct H as [|b b' ? ? Hb H]; [reflexivity|].
  destruct H as [|c c' ? ? Hc H]; [reflexivity|]. cbn [qlit_at].
  rewrite (ci_fun_ceq (fun a => beq a x71 || beq a x51) _ _ ltac:(ci_sweep) Ha).
  rewrite (ceq_beq _ _ x27 Hb eq_refl). rewrite (ci_fun_ceq _ _ _ is_alpha_ci Hc). reflexivity.
Qed.

Lemma no_qlit_cv s s' : cv s s' -> no_qlit s' = no_qlit s.
Proof.
  intros H. induction H as [|a a' s s' Ha H IH]; [reflexivity|].
  cbn [no_qlit]. rewrite IH. rewrite (qlit_at_cv (a :: s) (a' :: s')) by (constructor; assumption). reflexivity.
Qed.

(* plain is symmetric between the two inputs *)
Lemma plain_cv s s' : cv s s' -> plain s' = plain s.
Proof.
  intros H. unfold plain.
  rewrite (mem_cv_nonalpha x5c _ _ H eq_refl), (mem_cv_nonalpha x24 _ _ H eq_refl), (no_qlit_cv _ _ H).
  reflexivity.
Qed.

Lemma no_qlit_skipn n : forall s, no_qlit s = true -> no_qlit (skipn n s) = true.
Proof.
  induction n as [|n IH]; intros s H; [exact H|]. destruct s as [|a s]; [exact H|].
  cbn [skipn]. apply IH. cbn [no_qlit] in H. apply andb_true_iff in H. tauto.
Qed.

Lemma mem_skipn c n : forall s, mem c s = false -> mem c (skipn n s) = false.
Proof.
  induction n as [|n IH]; intros s H; [exact H|]. destruct s as [|a s]; [exact H|].
  cbn [skipn]. apply IH. cbn [mem existsb] in H. apply orb_false_iff in H. tauto.
Qed.

(* plain is closed under taking suffixes *)
Lemma plain_skipn n s : plain s = true -> plain (skipn n s) = true.
Proof.
  unfold plain. intros H. apply andb_true_iff in H. destruct H as [H H3].
  apply andb_true_iff in H. destruct H as [H1 H2]. apply negb_true_iff in H1, H2.
  rewrite (mem_skipn _ n _ H1), (mem_skipn _ n _ H2), (no_qlit_skipn n _ H3). reflexivity.
Qed.

Lemma mem_nth c s n b : mem c s = false -> nth_error s n = Some b -> beq b c = false.
Proof.
  revert n. induction s as [|a s IH]; intros n H N; [destruct n; discriminate|].
  cbn [mem existsb] in H. apply orb_false_iff in H. destruct H as [H1 H2].
  destruct n as [|n]; cbn [nth_error] in N.
  - inversion N; subst. rewrite beq_sym. exact H1.
  - eapply IH; eassumption.
Qed.

Lemma no_qlit_nth s n a b c : no_qlit s = true ->
  nth_error s n = Some a -> nth_error s (S n) = Some b -> nth_error s (S (S n)) = Some c ->
  (beq a x71 || beq a x51) = true -> beq b x27 = true -> is_alpha c = false.
Proof.
  revert n. induction s as [|x s IH]; intros n H Na Nb Nc Ha Hb; [destruct n; discriminate|].
  cbn [no_qlit] in H. apply andb_true_iff in H. destruct H as [H1 H2].
  destruct n as [|n].
  - cbn [nth_error] in Na. inversion Na; subst x.
    destruct s as [|y s]; [discriminate|]. cbn [nth_error] in Nb. inversion Nb; subst y.
    destruct s as [|z s]; [discriminate|]. cbn [nth_error] in Nc. inversion Nc; subst z.
    cbn [qlit_at] in H1. rewrite Ha, Hb in H1. cbn in H1. apply negb_true_iff in H1. exact H1.
  - cbn [nth_error] in Na, Nb, Nc. eapply IH; eassumption.
Qed.

(* ---------- lock-step tactics ---------- *)

(* c' = c for two conditions that differ only in bytes related by ceq *)
Ltac ci_cond :=
  first
    [ reflexivity
    | match goal with
      | H : ceq ?a ?a' |- ?L = ?R =>
          match R with context [a] => idtac end;
          let f := (eval pattern a in R) in
          match f with
          | ?g _ => change (g a' = g a); symmetry; apply (ci_fun_ceq g a a'); [ci_sweep | exact H]
          end
      | H : ceq ?a ?a' |- ?L = ?R =>
          match L with context [a] => idtac end;
          let f := (eval pattern a in L) in
          match f with
          | ?g _ => change (g a = g a'); apply (ci_fun_ceq g a a'); [ci_sweep | exact H]
          end
      end
    | match goal with
      | |- andb _ _ = andb _ _ => apply f_equal2; ci_cond
      | |- orb _ _ = orb _ _ => apply f_equal2; ci_cond
      | |- negb _ = negb _ => apply f_equal; ci_cond
      | |- (if ?c' then _ else _) = (if ?c then _ else _) =>
          let E := fresh in
          assert (E : c' = c) by ci_cond; rewrite E; clear E; destruct c; ci_cond
      end ].

Ltac simp_rec :=
  cbn [input flags pos st n_ddx n_hash n_folds n_tokens
       t_pos t_len t_val t_cat t_open t_close t_count fst snd] in *.

(* rewriting forms: the cv hypothesis first, the side condition last *)
Lemma cvr_index_byte s s' c : cv s s' -> is_alpha c = false -> index_byte s' c = index_byte s c.
Proof. apply cv_index_byte. Qed.
Lemma cvr_index s s' p : cv s s' -> alpha_free p = true -> index s' p = index s p.
Proof. intros. apply cv_index; assumption. Qed.
Lemma cvr_contains s s' p : cv s s' -> alpha_free p = true -> contains s' p = contains s p.
Proof. intros. apply cv_contains; assumption. Qed.
Lemma cvr_span s s' p : cv s s' -> ci_fun p -> span p s' = span p s.
Proof. intros. apply cv_span; assumption. Qed.
Lemma cvr_spn s s' n acc : cv s s' -> ci_fun (fun b => mem b acc) -> str_len_spn s' n acc = str_len_spn s n acc.
Proof. intros. apply cv_str_len_spn; assumption. Qed.
Lemma cvr_cspn s s' n acc : cv s s' -> ci_fun (fun b => negb (mem b acc)) -> str_len_cspn s' n acc = str_len_cspn s n acc.
Proof. intros. apply cv_str_len_cspn; assumption. Qed.
Lemma cvr_bytes_eqb s s' p : cv s s' -> alpha_free p = true -> bytes_eqb s' p = bytes_eqb s p.
Proof. intros. apply cv_bytes_eqb_lit; assumption. Qed.

(* replace every case-blind observation of the primed value by that of the unprimed one *)
Ltac cv_norm H :=
  rewrite ?(cv_len _ _ H), ?(cv_length _ _ H), ?(cv_search_keyword _ _ H), ?(cv_to_upper_cmp _ _ _ H),
          ?(cv_is_backslash_escaped _ _ H);
  rewrite ?(cvr_index_byte _ _ _ H) by (reflexivity || assumption);
  rewrite ?(cvr_index _ _ _ H) by reflexivity;
  rewrite ?(cvr_contains _ _ _ H) by reflexivity;
  rewrite ?(cvr_bytes_eqb _ _ _ H) by reflexivity;
  rewrite ?(cvr_span _ _ _ H) by (ci_sweep || assumption);
  rewrite ?(cvr_spn _ _ _ _ H) by (ci_sweep || assumption);
  rewrite ?(cvr_cspn _ _ _ _ H) by (ci_sweep || assumption).

Ltac cv_norm_all :=
  repeat match goal with
         | H : cv ?x ?y |- _ => progress cv_norm H
         end.

(* unpack a relation hypothesis into shared syntax *)
Ltac unpack H :=
  lazymatch type of H with
  | tok_ci ?t ?t' =>
      let p := fresh "p" in let l := fresh "l" in let c := fresh "c" in let ty := fresh "ty" in
      let o := fresh "o" in let cl := fresh "cl" in let v := fresh "v" in let v' := fresh "v'" in
      let E1 := fresh in let E2 := fresh in let Hv := fresh "Hv" in
      destruct (tok_ci_inv _ _ H) as (p & l & c & ty & o & cl & v & v' & E1 & E2 & Hv);
      clear H; try subst t; try subst t'; cv_norm Hv
  | st_ci ?s ?s' =>
      let i := fresh "i" in let i' := fresh "i'" in let f := fresh "fl" in let p := fresh "p" in
      let x := fresh "x" in let E1 := fresh in let E2 := fresh in let Hi := fresh "Hi" in
      destruct (st_ci_inv _ _ H) as (i & i' & f & p & x & E1 & E2 & Hi);
      clear H; try subst s; try subst s'; cv_norm Hi
  | cv _ _ => cv_norm H
  | (_, _) = (_, _) =>
      injection H; clear H; intros; subst
  | _ = _ => first [subst | idtac]
  | _ /\ _ => let H1 := fresh in let H2 := fresh in destruct H as [H1 H2]; unpack H1; unpack H2
  | _ => idtac
  end.

Ltac unfold_sets :=
  unfold slen, set_cat, set_open, set_close, set_count, set_pos, set_stats, has_flag, at_, input_from, bump_tokens in *;
  simp_rec.

Create HintDb cidb.
#[export] Hint Resolve cv_refl tok_ci_refl st_ci_refl tok_ci_mk st_ci_mk cv_nil : cidb.

(* further goals, extended with ::= *)
Ltac solve_hook := fail.

Ltac unfold_sets_goal :=
  unfold slen, set_cat, set_open, set_close, set_count, set_pos, set_stats, has_flag, at_, input_from, bump_tokens;
  cbn [input flags pos st n_ddx n_hash n_folds n_tokens
       t_pos t_len t_val t_cat t_open t_close t_count fst snd].

Ltac solve_ci :=
  unfold_sets_goal;
  first [ assumption
        | exact I
        | solve [eauto 4 with cidb]
        | solve_hook
        | match goal with
          | |- lex_ci _ _ => unfold lex_ci; simp_rec; split; [solve_ci | split; [solve_ci | solve_ci]]
          | |- tkz_ci _ _ => unfold tkz_ci; simp_rec; split; [solve_ci | split; [solve_ci | solve_ci]]
          | |- tz_ci _ _ => unfold tz_ci; simp_rec; split; [solve_ci | solve_ci]
          | |- _ /\ _ => split; solve_ci
          | |- _ = _ => first [reflexivity | ci_cond | lia]
          | |- tok_ci (if ?c then _ else _) (if ?c then _ else _) => destruct c; solve_ci
          end ].

(* further normalisations, extended with ::= *)
Ltac norm_hook := idtac.

(* introduce a pair of related values and bring it into shared syntax *)
Ltac rel_intro :=
  let a := fresh "a" in let a' := fresh "a'" in let H := fresh "R" in
  intros a a' H;
  repeat match goal with x : (_ * _)%type |- _ => destruct x end;
  unfold lex_ci, tkz_ci, tz_ci in H; simp_rec;
  unpack H; simp_rec; norm_hook.

Ltac intro_cond :=
  let H := fresh "C" in intros H; try (exfalso; clear - H; lia).

(* calls of already treated functions: extended with ::= as the development grows *)
Ltac rel_hook := fail.
Ltac rel_call :=
  first [ rel_hook
        | eassumption
        | match goal with IH : forall _, _ |- _ => solve [apply IH; solve_ci] end ].

Ltac rel_step :=
  lazymatch goal with
  | |- rel_res _ (Ok _) (Ok _) => apply rel_Ok; solve_ci
  | |- rel_res _ (Panic _) (Panic _) => reflexivity
  | |- rel_res _ (bind (get _ _ _) _) (bind (get _ _ _) _) =>
      eapply rel_bind; [apply rel_get; solve_ci | rel_intro]
  | |- rel_res _ (bind (drop _ _ _) _) (bind (drop _ _ _) _) =>
      eapply rel_bind; [apply rel_drop; solve_ci | rel_intro]
  | |- rel_res _ (bind (take _ _ _) _) (bind (take _ _ _) _) =>
      eapply rel_bind; [apply rel_take; solve_ci | rel_intro]
  | |- rel_res _ (bind (slice _ _ _ _) _) (bind (slice _ _ _ _) _) =>
      eapply rel_bind; [apply rel_slice; solve_ci | rel_intro]
  | |- rel_res _ (bind (assign _ _ _ _ _) _) (bind (assign _ _ _ _ _) _) =>
      eapply rel_bind; [apply rel_assign; solve_ci | rel_intro]
  | |- rel_res _ (bind (if _ then ?m else _) _) (bind (if _ then _ else _) _) =>
      lazymatch type of m with
      | res (list token) => eapply rel_bind with (R := Forall2 tok_ci); [ | rel_intro]
      | _ => eapply rel_bind with (R := eq); [ | rel_intro]
      end
  | |- rel_res _ (bind (Ok _) _) (bind (Ok _) _) => cbn [bind]
  | |- rel_res _ (bind ?m _) (bind ?m' _) =>
      first [ constr_eq m m'; eapply rel_bind; [apply rel_refl_eq | rel_intro]
            | eapply rel_bind; [rel_call | rel_intro] ]
  | |- rel_res _ (if ?c then _ else _) (if ?c' then _ else _) =>
      apply rel_if; [ci_cond | intro_cond | intro_cond]
  | |- rel_res _ (match ?x with Some _ => _ | None => _ end) (match ?x with Some _ => _ | None => _ end) =>
      destruct x
  | |- rel_res _ (match ?x with [] => _ | _ :: _ => _ end) (match ?x with [] => _ | _ :: _ => _ end) =>
      destruct x
  | |- rel_res _ (let '(_, _) := ?x in _) (let '(_, _) := ?x in _) => destruct x
  | |- rel_res _ ?m ?m' => first [ constr_eq m m'; apply rel_refl_eq | rel_call ]
  end.

Ltac rel_go := unfold_sets; cbv beta zeta; repeat (rel_step; cbv beta zeta).

(* start the lock-step proof of a lexer *)
Ltac lex_start L :=
  let s := fresh "s" in let s' := fresh "s'" in let t := fresh "t" in let t' := fresh "t'" in
  let Hs := fresh "Hs" in let Ht := fresh "Ht" in
  intros s s' t t' Hs Ht; unpack Hs; unpack Ht; unfold L; unfold_sets; cv_norm_all.

(* path-sensitive variant: instead of abstracting a composite first computation
   by a relation, split on its conditions and keep the continuation *)
Lemma bind_assoc {A B C} (m : res A) (g : A -> res B) (f : B -> res C) :
  bind (bind m g) f = bind m (fun x => bind (g x) f).
Proof. destruct m; reflexivity. Qed.

Lemma rel_bind_if {A A' B B'} (Q : B -> B' -> Prop) (c c' : bool)
      (m1 m2 : res A) (m1' m2' : res A') f f' :
  c' = c -> (c = true -> rel_res Q (bind m1 f) (bind m1' f')) ->
  (c = false -> rel_res Q (bind m2 f) (bind m2' f')) ->
  rel_res Q (bind (if c then m1 else m2) f) (bind (if c' then m1' else m2') f').
Proof. intros -> H1 H2. destruct c; auto. Qed.

Lemma rel_bind_Ok {A B B'} (Q : B -> B' -> Prop) (v v' : A) f f' :
  v' = v -> rel_res Q (f v) (f' v) -> rel_res Q (bind (Ok v) f) (bind (Ok v') f').
Proof. intros ->. exact (fun H => H). Qed.

Ltac rel_hoist :=
  lazymatch goal with
  | |- rel_res _ (bind (if _ then _ else _) _) (bind (if _ then _ else _) _) =>
      apply rel_bind_if; [ci_cond | intro_cond | intro_cond]
  | |- rel_res _ (bind (bind _ _) _) (bind (bind _ _) _) => rewrite !bind_assoc
  | |- rel_res _ (bind (Ok _) _) (bind (Ok _) _) =>
      first [ apply rel_bind_Ok; [ci_cond | cbv beta] | cbn [bind] ]
  end.

Ltac rel_goH := unfold_sets; cbv beta zeta; repeat (first [rel_hoist | rel_step]; cbv beta zeta).
