(* C04Ext3: the attribute productions (events, attribute list, XMLNS / XLINK) behind
   the extended attribute prefixes number 12..15 of GrammarXss2.ext_attr_prefixes
   (x/ <a/ <aTAB <aLF; D = double quote) are reported by the model, and none of
   these vectors contains a CDATA look-alike.  Decided by vm_compute.  No vector
   is excluded. *)
From Coq Require Import List ZArith String Bool.
From Coq.Strings Require Import Byte.
From LI Require Import Prelude Base Html5 Xss Spec.GrammarXss Spec.GrammarXss2 Spec.XCiSpec.
Import ListNotations.

(* the prefixes of this shard *)
Definition ext_attr_shard3 : list bytes := firstn 4 (skipn 12 ext_attr_prefixes).

Lemma ext_attr_shard3_ok :
  forallb (fun p => forallb detected_xss (xss_ext_attr p)) ext_attr_shard3 = true.
Proof. vm_compute; reflexivity. Qed.

Lemma ext_attr_shard3_no_cdata :
  forallb (fun p => forallb no_cdata_like (xss_ext_attr p)) ext_attr_shard3 = true.
Proof. vm_compute; reflexivity. Qed.
