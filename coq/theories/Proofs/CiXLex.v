(* CiXLex: the three case-sensitive lexers (parseBackSlash, parseMoney,
   parseQStringCore / parseNqString) in lock-step on two inputs related by cvx
   (Spec/CiXSpec.v), and the dispatch under cvx (property C10, theorem C10_full). *)
From Coq Require Import List ZArith String Bool Lia ZifyBool.
From Coq.Strings Require Import Byte.
From LI Require Import Prelude Base SqliLex Proofs.BaseFacts Proofs.Wp Proofs.LexBase Proofs.LexSpec
  Spec.CiSpec Proofs.CiBase Proofs.CiLex Proofs.CiLex2 Spec.CiXSpec Proofs.CiXBase.
From LIGen Require Import Tables Dispatch Consts.
Import ListNotations.
Local Open Scope Z_scope.

(* get, remembering both bytes read *)
Lemma rel_get2 site s s' i : cv s s' ->
  rel_res (fun a a' => ceq a a' /\ nth_error s (Z.to_nat i) = Some a /\ nth_error s' (Z.to_nat i) = Some a')
          (get site s i) (get site s' i).
Proof.
  intros H. unfold get. destruct (0 <=? i); [|reflexivity].
  pose proof (cv_nth_error _ _ H (Z.to_nat i)) as K.
  destruct (nth_error s (Z.to_nat i)), (nth_error s' (Z.to_nat i)); cbn; try contradiction; auto.
Qed.

(* ---------- parseBackSlash ---------- *)

Lemma parse_backslash_x s s' t t' : st_ci s s' -> tok_ci t t' ->
  (forall c c', nth_error (input s) (Z.to_nat (pos s + 1)) = Some c ->
                nth_error (input s') (Z.to_nat (pos s + 1)) = Some c' -> beq c' x4e = beq c x4e) ->
  rel_res lex_ci (parse_backslash s t) (parse_backslash s' t').
Proof.
  revert s s' t t'. lex_start parse_backslash. intros HN. simp_rec. cbv beta zeta.
  apply rel_bind_if; [reflexivity| |]; intros C.
  - rel_hoist. eapply rel_bind; [apply rel_get2; exact Hi|]. intros a a' (Ha & K & K').
    cbn [bind]. rewrite (HN _ _ K K'). rel_go.
  - cbn [bind]. rel_go.
Qed.

(* ---------- parseQStringCore / parseNqString ---------- *)

(* an equation that the unpacking tactics leave alone *)
Definition eqw {A} (x y : A) : Prop := x = y.

Lemma rel_get3 site s s' i : cv s s' ->
  rel_res (fun a a' => ceq a a' /\ eqw (nth_error s (Z.to_nat i)) (Some a) /\ eqw (nth_error s' (Z.to_nat i)) (Some a'))
          (get site s i) (get site s' i).
Proof. exact (rel_get2 site s s' i). Qed.

Lemma rel_drop3 site s s' i : cv s s' ->
  rel_res (fun a a' => cv a a' /\ eqw a (skipn (Z.to_nat i) s) /\ eqw a' (skipn (Z.to_nat i) s') /\ 0 <= i <= len s)
          (drop site s i) (drop site s' i).
Proof.
  intros H. unfold drop. rewrite (cv_len _ _ H).
  destruct ((0 <=? i) && (i <=? len s)) eqn:E; cbn; [|reflexivity].
  split; [apply cv_skipn; exact H|]. unfold eqw. repeat split; lia.
Qed.

Ltac rel_stepX :=
  lazymatch goal with
  | |- rel_res _ (bind (get _ _ _) _) (bind (get _ _ _) _) =>
      eapply rel_bind; [apply rel_get3; solve_ci | rel_intro]
  | |- rel_res _ (bind (drop _ _ _) _) (bind (drop _ _ _) _) =>
      eapply rel_bind; [apply rel_drop3; solve_ci | rel_intro]
  | _ => first [rel_hoist | rel_step]
  end.
Ltac rel_goX := unfold_sets; cbv beta zeta; repeat (rel_stepX; cbv beta zeta).

Lemma skipn3 {A} (l : list A) n a b c :
  nth_error l n = Some a -> nth_error l (S n) = Some b -> nth_error l (S (S n)) = Some c ->
  skipn n l = a :: b :: c :: skipn (S (S (S n))) l.
Proof.
  intros Ha Hb Hc. rewrite (skipn_nth _ _ _ Ha), (skipn_nth _ _ _ Hb), (skipn_nth _ _ _ Hc). reflexivity.
Qed.

Lemma close_alpha b : is_alpha b = true ->
  (if beq b x28 then x29 else if beq b x5b then x5d else if beq b x7b then x7d else if beq b x3c then x3e else b) = b.
Proof.
  intros H.
  pose proof (byte_sweep (fun b => negb (is_alpha b) || beq
     (if beq b x28 then x29 else if beq b x5b then x5d else if beq b x7b then x7d else if beq b x3c then x3e else b) b)
     ltac:(vm_compute; reflexivity) b) as K.
  cbv beta in K. rewrite H in K. apply beq_eq. exact K.
Qed.

Lemma parse_qstring_core_x offset s s' t t' :
  st_ci s s' -> tok_ci t t' -> every2 q_ok (input s) (input s') = true -> 0 <= pos s + offset ->
  rel_res lex_ci (parse_qstring_core offset s t) (parse_qstring_core offset s' t').
Proof.
  revert s s' t t'. lex_start parse_qstring_core. intros Q Hp. rel_goX.
  unfold eqw in *.
  match goal with
  | Ha : nth_error i (Z.to_nat (p + offset)) = Some ?a, Ha' : nth_error i' (Z.to_nat (p + offset)) = Some ?a',
    Ca : negb (beq ?a _) && _ = false,
    Hb : nth_error i (Z.to_nat (p + offset + 1)) = Some ?b, Hb' : nth_error i' (Z.to_nat (p + offset + 1)) = Some ?b',
    Cb : negb (beq ?b _) = false,
    Hc : nth_error i (Z.to_nat (p + offset + 2)) = Some ?c, Hc' : nth_error i' (Z.to_nat (p + offset + 2)) = Some ?c',
    Hcc : ceq ?c ?c',
    Eb : ?body = skipn _ i, Eb' : ?body' = skipn _ i', Rb : cv ?body ?body' |- _ =>
      rename Ha into Ha_, Ha' into Ha'_, Ca into Ca_, Hb into Hb_, Hb' into Hb'_, Cb into Cb_, Hc into Hc_, Hc' into Hc'_,
        Hcc into Hcc_, Eb into Eb_, Eb' into Eb'_, Rb into Rb_
  end.
  destruct (is_alpha a1) eqn:N.
  - pose proof (every2_skipn _ (Z.to_nat (p + offset)) _ _ Q) as Q1.
    replace (Z.to_nat (p + offset + 1)) with (S (Z.to_nat (p + offset))) in Hb_, Hb'_ by lia.
    replace (Z.to_nat (p + offset + 2)) with (S (S (Z.to_nat (p + offset)))) in Hc_, Hc'_ by lia.
    rewrite (skipn3 _ _ _ _ _ Ha_ Hb_ Hc_), (skipn3 _ _ _ _ _ Ha'_ Hb'_ Hc'_) in Q1.
    apply every2_head in Q1. cbn [q_ok qlit_at] in Q1.
    replace (S (S (S (Z.to_nat (p + offset))))) with (Z.to_nat (p + offset + 3)) in Q1 by lia.
    rewrite <- Eb_, <- Eb'_, N in Q1.
    assert (Ga : (beq a x71 || beq a x51) = true)
      by (destruct (beq a x71), (beq a x51); cbn in Ca_ |- *; congruence).
    assert (Gb : beq a0 x27 = true) by (apply negb_false_iff; exact Cb_).
    rewrite Ga, Gb in Q1. cbn [andb] in Q1.
    apply andb_true_iff in Q1. destruct Q1 as [Q1 Q2]. apply beq_eq in Q1. subst a'1.
    rewrite !(close_alpha _ N). change b_byte_single with x27. rewrite !(index_qb _ _ _ Rb_ Q2). rel_go.
  - same_byte.
    pose proof (byte_sweep (fun b => is_alpha b || alpha_free
                 [if beq b x28 then x29 else if beq b x5b then x5d
                  else if beq b x7b then x7d else if beq b x3c then x3e else b; b_byte_single])
                 ltac:(vm_compute; reflexivity) a1) as AF.
    cbv beta in AF. rewrite N in AF. cbn [orb] in AF.
    rewrite !(cvr_index _ _ _ Rb_ AF). rel_go.
Qed.

Lemma parse_nqstring_x s s' t t' :
  st_ci s s' -> tok_ci t t' -> every2 q_ok (input s) (input s') = true -> 0 <= pos s ->
  rel_res lex_ci (parse_nqstring s t) (parse_nqstring s' t').
Proof.
  intros Hs Ht Q Hp. unfold parse_nqstring.
  assert (K : rel_res lex_ci (parse_qstring_core 1 s t) (parse_qstring_core 1 s' t'))
    by (apply parse_qstring_core_x; try assumption; lia).
  revert K. unpack Hs. unpack Ht. unfold_sets. cv_norm_all. intros K. rel_go.
Qed.

(* ---------- parseMoney ---------- *)

Lemma letters_alpha b : mem b (bs "abcdefghjiklmnopqrstuvwxyzABCDEFGHIJKLMNOPQRSTUVWXYZ") = is_alpha b.
Proof.
  apply Bool.eqb_prop.
  exact (byte_sweep (fun b => Bool.eqb (mem b (bs "abcdefghjiklmnopqrstuvwxyzABCDEFGHIJKLMNOPQRSTUVWXYZ")) (is_alpha b))
                    ltac:(vm_compute; reflexivity) b).
Qed.

Lemma parse_money_x s s' t t' : st_ci s s' -> tok_ci t t' -> 0 <= pos s ->
  nth_error (input s) (Z.to_nat (pos s)) = Some x24 ->
  every2 tag_ok (input s) (input s') = true ->
  rel_res lex_ci (parse_money s t) (parse_money s' t').
Proof.
  revert s s' t t'. lex_start parse_money. intros Hp HD HT. simp_rec. cbv beta zeta.
  rel_step; [rel_go|].
  eapply rel_bind; [apply rel_drop3; exact Hi|]. intros rest1 rest1' (Hr & Er & Er' & Rr). cv_norm Hr.
  destruct (str_len_spn rest1 (len i - p - 1) (bs "0123456789.,")) as [length| | |] eqn:EL; cbn [bind]; try reflexivity.
  rel_step; [|rel_go].
  rel_step.
  rel_step; [rel_go|].
  unfold eqw in Er, Er'.
  assert (EX : str_len_spn rest1 (len i - p - 1) (bs "abcdefghjiklmnopqrstuvwxyzABCDEFGHIJKLMNOPQRSTUVWXYZ")
               = Ok (span is_alpha rest1)).
  { unfold str_len_spn. replace (len i - p - 1) with (len rest1) by (rewrite Er, len_skipn_le; lia).
    rewrite span_len_full. f_equal. apply span_ext. intros b. apply letters_alpha. }
  rewrite EX. cbn [bind]. clear EX. pose proof (span_range is_alpha rest1) as Rx.
  set (xlen := span is_alpha rest1) in *.
  rel_step; [rel_go|].
  rel_hoist; [rel_go|]. rel_hoist.
  eapply rel_bind; [apply rel_get2; exact Hi|]. intros d d' (Hd & Kd & Kd'). cbn [bind].
  rewrite (ceq_beq _ _ x24 Hd eq_refl). destruct (beq d x24) eqn:D; cbn [negb]; [|rel_go].
  apply beq_eq in D. subst d. pose proof (ceq_nonalpha _ _ Hd eq_refl) as ->. clear Hd.
  eapply rel_bind; [apply rel_drop3; exact Hi|]. intros body body' (Hb & Eb & Eb' & Rb). unfold eqw in Eb, Eb'.
  rewrite !slice_ok by (rewrite ?(cv_len _ _ Hi); lia). cbn [bind].
  assert (HD' : nth_error i' (Z.to_nat p) = Some x24).
  { pose proof (cv_nth_error _ _ Hi (Z.to_nat p)) as K. rewrite HD in K.
    destruct (nth_error i' (Z.to_nat p)) as [d'|]; [|contradiction]. rewrite (ceq_nonalpha _ _ K eq_refl). reflexivity. }
  assert (S1 : skipn (Z.to_nat p) i = x24 :: rest1).
  { rewrite (skipn_nth _ _ _ HD), Er. do 2 f_equal. lia. }
  assert (S1' : skipn (Z.to_nat p) i' = x24 :: rest1').
  { rewrite (skipn_nth _ _ _ HD'), Er'. do 2 f_equal. lia. }
  assert (N1 : nth_error rest1 (Z.to_nat xlen) = Some x24).
  { rewrite Er, nth_error_skipn, <- Kd. f_equal. lia. }
  assert (RS : run_same rest1 rest1' = true).
  { pose proof (every2_skipn _ (Z.to_nat p) _ _ HT) as T. rewrite S1, S1' in T. apply every2_head in T.
    cbn [tag_ok] in T. rewrite (run_term_of_nth _ N1) in T. exact T. }
  pose proof (run_same_firstn _ _ Hr RS) as F. fold xlen in F.
  replace (Z.to_nat (p + xlen + 2 - p)) with (S (S (Z.to_nat xlen))) by lia.
  rewrite S1, S1', !firstn_cons, F, (firstn_S_nth _ _ _ N1).
  assert (IX : index body' (x24 :: firstn (Z.to_nat xlen) rest1 ++ [x24]) =
               index body (x24 :: firstn (Z.to_nat xlen) rest1 ++ [x24])).
  { apply index_tag; [apply span_firstn_all|exact Hb|]. rewrite Eb, Eb'. apply every2_skipn. exact HT. }
  rewrite IX. rel_go.
Qed.

(* ---------- dispatch under cvx ---------- *)

Lemma parser_ok_fixed : parser_ok (fun i i' => fixed i i' = true).
Proof.
  intros id s s' t t' ch Hs Ht G Hp N D. apply fixed_parts in G. destruct G as (G1 & G2 & G3).
  pose proof (disp_ok_all ch) as K. unfold disp_ok in K. rewrite D in K.
  assert (HN : is_alpha ch = false -> head_nonalpha s).
  { intros A c Hc. rewrite N in Hc. inversion Hc; subst c. exact A. }
  destruct id; cbn [run_parser].
  - apply parse_white_ci; assumption.
  - apply parse_operator1_ci; assumption.
  - apply parse_operator2_ci; assumption.
  - apply parse_string_ci; try assumption. apply HN. apply negb_true_iff. exact K.
  - apply parse_hash_ci; assumption.
  - apply beq_eq in K. subst ch. apply parse_money_x; assumption.
  - apply parse_byte_ci; try assumption. apply HN. apply negb_true_iff. exact K.
  - apply parse_dash_ci; assumption.
  - apply parse_number_ci; assumption.
  - apply parse_slash_ci; assumption.
  - apply parse_other_ci; assumption.
  - apply parse_var_ci; assumption.
  - apply parse_word_ci; assumption.
  - apply parse_bstring_ci; assumption.
  - apply parse_estring_ci; assumption.
  - apply parse_nqstring_x; assumption.
  - apply parse_qstring_core_x; try assumption. lia.
  - apply parse_ustring_ci; assumption.
  - apply parse_xstring_ci; assumption.
  - apply parse_bword_ci; assumption.
  - apply beq_eq in K. subst ch. apply parse_backslash_x; try assumption.
    intros c c' Hc Hc'.
    replace (Z.to_nat (pos s + 1)) with (S (Z.to_nat (pos s))) in Hc, Hc' by lia.
    pose proof Hs as (Hi & _ & _ & _).
    assert (N' : nth_error (input s') (Z.to_nat (pos s)) = Some x5c).
    { pose proof (cv_nth_error _ _ Hi (Z.to_nat (pos s))) as Q. rewrite N in Q.
      destruct (nth_error (input s') (Z.to_nat (pos s))) as [d'|]; [|contradiction].
      rewrite (ceq_nonalpha _ _ Q eq_refl). reflexivity. }
    pose proof (every2_skipn _ (Z.to_nat (pos s)) _ _ G1) as T.
    rewrite (skipn_nth _ _ _ N), (skipn_nth _ _ _ Hc), (skipn_nth _ _ _ N'), (skipn_nth _ _ _ Hc') in T.
    apply every2_head in T. cbn [bs_ok] in T. rewrite beq_refl in T. cbn [andb] in T.
    assert (Hcc : ceq c c').
    { pose proof (cv_nth_error _ _ Hi (S (Z.to_nat (pos s)))) as Q. rewrite Hc, Hc' in Q. exact Q. }
    destruct (beq c x4e || beq c x6e) eqn:E.
    + apply beq_eq in T. subst c'. reflexivity.
    + pose proof E as E'.
      rewrite (ci_fun_ceq (fun b => beq b x4e || beq b x6e) _ _ ltac:(ci_sweep) Hcc) in E'.
      apply orb_false_iff in E, E'. destruct E as [-> _], E' as [-> _]. reflexivity.
  - apply parse_tick_ci; assumption.
Qed.
