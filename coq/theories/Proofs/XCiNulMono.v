(* XCiNulMono: one step of the HTML5 tokenizer never moves backwards, and an
   element / attribute name token never starts before the position the step
   started from (used by C11 b). *)
From Coq Require Import List ZArith String Bool Lia ZifyBool.
From Coq.Strings Require Import Byte.
From LI Require Import Prelude Base Html5 Proofs.BaseFacts Proofs.Wp Proofs.H5Spec.
From LIGen Require Import Consts.
Import ListNotations.
Local Open Scope Z_scope.

Definition isname (ty : Z) : bool := (ty =? c_html5_type_tag_name_open) || (ty =? c_html5_type_attr_name).

Definition MonoP (h : h5) (r : bool * h5) : Prop :=
  fst r = true ->
  hpos h <= hpos (snd r) /\ (isname (tok_type (snd r)) = true -> hpos h <= tok_off (snd r)).

Ltac simp_h :=
  unfold hlen, with_pos, with_state, with_close in *;
  cbn [hs hpos is_close hstate tok_off tok_len tok_type fst snd] in *.

Ltac note_facts :=
  repeat match goal with
         | |- context [index_byte ?l ?c] => learn (index_byte_range l c)
         | |- context [span ?p ?l] => learn (span_range p l)
         | H : context [index_byte ?l ?c] |- _ => learn (index_byte_range l c)
         | H : context [span ?p ?l] |- _ => learn (span_range p l)
         end.

Ltac norm_len :=
  repeat match goal with
         | |- context [len (skipn (Z.to_nat ?i) ?s)] => rewrite (len_skipn_le s i) by lia
         | H : context [len (skipn (Z.to_nat ?i) ?s)] |- _ => rewrite (len_skipn_le s i) in H by lia
         end.

Ltac mono_leaf :=
  solve [ unfold MonoP, isname; simp_h; consts; note_facts; norm_len;
          intros; first [discriminate | split; [lia | intros; first [discriminate | lia]]] ].

Ltac wlp_step :=
  lazymatch goal with
  | |- context [if 0 <? hpos ?h then _ else ?h] => destruct (0 <? hpos h) eqn:?
  | |- wlp (Ok _) _ => apply wlp_Ok
  | |- wlp (bind _ _) _ => apply wlp_bind
  | |- wlp (get _ _ _) _ => apply wlp_get; intros ? ? ?
  | |- wlp (drop _ _ _) _ => apply wlp_drop; intros ?
  | |- wlp (slice _ _ _ _) _ => apply wlp_slice; intros ? ?
  | |- wlp (emit _ _ _ _ _ _ _ _) _ => unfold emit
  | |- wlp (if ?c then _ else _) _ => destruct c eqn:?
  end.

Ltac wlp_go := simp_h; repeat (wlp_step; simp_h).

Lemma mono_trans h h2 r : hpos h <= hpos h2 -> MonoP h2 r -> MonoP h r.
Proof. unfold MonoP. intros H M T. destruct (M T) as [M1 M2]. split; [lia|]. intros N. specialize (M2 N). lia. Qed.

Lemma skip_white_mono h :
  wlp (skip_white h) (fun r => exists p, snd r = with_pos h p /\ hpos h <= p).
Proof.
  unfold skip_white. wlp_go; (eexists; split; [reflexivity|]; note_facts; lia).
Qed.

Lemma bogus2_mono fuel : forall h p, hpos h <= p -> wlp (bogus2_loop fuel h p) (MonoP h).
Proof.
  induction fuel as [|fuel IH]; intros h p H; cbn [bogus2_loop]; [apply wlp_fail_Fuel|].
  wlp_go; try mono_leaf. apply IH. note_facts. lia.
Qed.

Lemma comment_mono fuel : forall h p, hpos h <= p -> wlp (comment_loop fuel h p) (MonoP h).
Proof.
  induction fuel as [|fuel IH]; intros h p H; cbn [comment_loop]; [apply wlp_fail_Fuel|].
  wlp_go; try mono_leaf; apply IH; note_facts; lia.
Qed.

Lemma cdata_mono fuel : forall h p, hpos h <= p -> wlp (cdata_loop fuel h p) (MonoP h).
Proof.
  induction fuel as [|fuel IH]; intros h p H; cbn [cdata_loop]; [apply wlp_fail_Fuel|].
  wlp_go; try mono_leaf; apply IH; note_facts; lia.
Qed.

Definition ban_mono (h : h5) (o : ban_out) : Prop :=
  match o with
  | BanDone r => MonoP h r
  | BanCall f h2 => hpos h <= hpos h2
  end.

Lemma ban_loop_mono fuel : forall h, wlp (before_attr_name_loop fuel h) (ban_mono h).
Proof.
  induction fuel as [|fuel IH]; intros h; cbn [before_attr_name_loop]; [apply wlp_fail_Fuel|].
  destruct (hpos h <? hlen h) eqn:E; [|apply wlp_Ok; cbn [ban_mono]; mono_leaf].
  apply wlp_bind. eapply wlp_conseq; [apply skip_white_mono|].
  intros [ch h2] (p & E2 & Hp). cbn [fst snd] in E2. subst h2.
  wlp_go; cbn [ban_mono]; try mono_leaf; try (simp_h; lia).
  all: eapply wlp_conseq; [apply IH|]; intros [r|f h3]; cbn [ban_mono]; simp_h;
    [apply mono_trans; simp_h; lia | lia].
Qed.

Lemma call_mono d : forall f h, wlp (h5_call d f h) (MonoP h).
Proof.
  induction d as [|d IH]; intros f h; [apply wlp_fail_Stack|].
  assert (CALL : forall g h2, hpos h <= hpos h2 -> wlp (h5_call d g h2) (MonoP h)).
  { intros g h2 H. eapply wlp_conseq; [apply IH|]. intros r. apply mono_trans. exact H. }
  destruct f; cbn [h5_call].
  all: try (wlp_go; try mono_leaf; try (apply CALL; simp_h; note_facts; lia)).
  - apply bogus2_mono. lia.
  - apply comment_mono. lia.
  - apply cdata_mono. lia.
  - eapply wlp_conseq; [apply ban_loop_mono|]. intros [r|g h2]; cbn [ban_mono]; intros M.
    + apply wlp_Ok. exact M.
    + apply CALL. exact M.
  - eapply wlp_conseq; [apply skip_white_mono|]. intros [ch h2] (p & E & Hp). cbn [fst snd] in E. subst h2.
    wlp_go; try mono_leaf; apply CALL; simp_h; lia.
  - eapply wlp_conseq; [apply skip_white_mono|]. intros [ch h2] (p & E & Hp). cbn [fst snd] in E. subst h2.
    wlp_go; try mono_leaf; apply CALL; simp_h; lia.
Qed.

Lemma next_mono h : wlp (h5_next h) (MonoP h).
Proof. apply call_mono. Qed.

