(* C04ExtLift: supporting lemmas of Properties/C04d.v.

   Part 1.  The sharded sweeps C04Ext0..5 assembled into statements about the
   whole extended family xss_ext (Spec/GrammarXss2.v), and the lift to every
   ASCII case assignment.  The two lifting lemmas are first proved for an
   arbitrary list (so that no large constant is unfolded at Qed time) and then
   instantiated.

   Part 2.  The lifting lemmas of Proofs/XLift*.v (name variants, URL schemes
   through any encoding) are stated there for the five prefixes `apre_of ci`
   only, through XLiftUrl.attr_ctx_fires, which is proved prefix by prefix.
   Here the same is proved for ANY prefix that satisfies the decidable
   condition attr_prefix_ok, which all 5 + 19 attribute prefixes meet
   (all_attr_prefixes_ok).  The proofs go through Ref (Spec/RefHtml.v) as in
   XLiftRef.v: `reads_name m w` generalises XLiftRef.name_mode (the places from
   which an attribute name is read next), `land` describes the one token that
   the prefix makes up.

   Part 3.  The same for element prefixes (XLiftNul.tag_ctx_fires is proved
   for the five `pre_of ci`): any prefix that satisfies the decidable condition
   elem_prefix_ok, which all 5 + 6 element prefixes meet (all_elem_prefixes_ok).
   `closes m w` says that w ends the tag; `land_e` adds names ended by '>'. *)
From Coq Require Import List ZArith String Bool Lia ZifyBool.
From Coq.Strings Require Import Byte.
From LI Require Import Prelude Base Html5 Xss Proofs.BaseFacts Spec.XCiSpec
  Spec.StringSpec Spec.H5TermSpec Spec.DecodeSpec Proofs.DecodeProofs Spec.RefHtml Proofs.RefHtmlProofs
  Spec.GrammarXss Spec.GrammarXss2
  Proofs.XLiftSpec Proofs.XLiftRef Proofs.XLiftNames Proofs.XLiftUrl Proofs.XLiftNul Proofs.XLiftAttrs.
From LI Require Import Proofs.C04Ext0 Proofs.C04Ext1 Proofs.C04Ext2 Proofs.C04Ext3 Proofs.C04Ext4 Proofs.C04Ext5.
From LI Require Properties.C11 Properties.C04.
From LIGen Require Import Consts.
Import ListNotations.
Local Open Scope Z_scope.

(* ================================================================== *)
(* Part 1: the sweeps, assembled                                       *)
(* ================================================================== *)

(* ---------- generic: a list that passes the sweeps ---------- *)

Lemma forallb_flat_map {A B} (p : B -> bool) (f : A -> list B) (l : list A) :
  forallb p (flat_map f l) = forallb (fun a => forallb p (f a)) l.
Proof.
  induction l as [|a l IH]; cbn [flat_map forallb]; [reflexivity|].
  rewrite forallb_app, IH. reflexivity.
Qed.

(* every member of a list that passes the detection sweep is reported *)
Lemma detected_list_sound (l : list bytes) :
  forallb detected_xss l = true -> forall v, In v l -> is_xss v = Ok true.
Proof.
  intros H v Hv. apply Properties.C04.detected_xss_spec.
  exact (proj1 (forallb_forall detected_xss l) H v Hv).
Qed.

(* ... and so is every case variant of it, if the list also passes the
   no_cdata_like sweep (C11a) *)
Lemma detected_list_case_lift (l : list bytes) :
  forallb detected_xss l = true -> forallb XCiSpec.no_cdata_like l = true ->
  forall v s', In v l -> XCiSpec.cv v s' -> is_xss s' = Ok true.
Proof.
  intros Hd Hn v s' Hv C.
  pose proof (proj1 (forallb_forall XCiSpec.no_cdata_like l) Hn v Hv) as N.
  rewrite (Properties.C11.C11a_case_insensitive v s' C N).
  exact (detected_list_sound l Hd v Hv).
Qed.

(* ---------- the shards cover the prefix lists ---------- *)

Lemma ext_attr_prefixes_shards :
  ext_attr_prefixes = ext_attr_shard0 ++ ext_attr_shard1 ++ ext_attr_shard2 ++ ext_attr_shard3 ++ ext_attr_shard4.
Proof. reflexivity. Qed.

Lemma xss_ext_attr_all_ok :
  forallb (fun p => forallb detected_xss (xss_ext_attr p)) ext_attr_prefixes = true.
Proof.
  rewrite ext_attr_prefixes_shards, !forallb_app.
  rewrite ext_attr_shard0_ok, ext_attr_shard1_ok, ext_attr_shard2_ok, ext_attr_shard3_ok, ext_attr_shard4_ok.
  reflexivity.
Qed.

Lemma xss_ext_attr_all_no_cdata :
  forallb (fun p => forallb XCiSpec.no_cdata_like (xss_ext_attr p)) ext_attr_prefixes = true.
Proof.
  rewrite ext_attr_prefixes_shards, !forallb_app.
  rewrite ext_attr_shard0_no_cdata, ext_attr_shard1_no_cdata, ext_attr_shard2_no_cdata,
    ext_attr_shard3_no_cdata, ext_attr_shard4_no_cdata.
  reflexivity.
Qed.

Lemma xss_ext_ok : forallb detected_xss xss_ext = true.
Proof.
  unfold xss_ext. rewrite forallb_app, !forallb_flat_map.
  rewrite xss_ext_attr_all_ok, ext_elem_ok. reflexivity.
Qed.

Lemma xss_ext_no_cdata : forallb XCiSpec.no_cdata_like xss_ext = true.
Proof.
  unfold xss_ext. rewrite forallb_app, !forallb_flat_map.
  rewrite xss_ext_attr_all_no_cdata, ext_elem_no_cdata. reflexivity.
Qed.

(* ---------- the two statements of Properties/C04d.v ---------- *)

Lemma xss_ext_sound : forall v, In v xss_ext -> is_xss v = Ok true.
Proof. exact (detected_list_sound xss_ext xss_ext_ok). Qed.

Lemma xss_ext_case_lift :
  forall v s', In v xss_ext -> XCiSpec.cv v s' -> is_xss s' = Ok true.
Proof. exact (detected_list_case_lift xss_ext xss_ext_ok xss_ext_no_cdata). Qed.

(* membership in the family, by prefix *)
Lemma in_xss_ext_attr apre v : In apre ext_attr_prefixes -> In v (xss_ext_attr apre) -> In v xss_ext.
Proof.
  intros Hp Hv. unfold xss_ext. apply in_or_app. left. apply in_flat_map. exists apre. split; assumption.
Qed.

Lemma in_xss_ext_elem pre v : In pre ext_elem_prefixes -> In v (xss_ext_elem pre) -> In v xss_ext.
Proof.
  intros Hp Hv. unfold xss_ext. apply in_or_app. right. apply in_flat_map. exists pre. split; assumption.
Qed.

(* the case lift, stated per prefix *)
Lemma xss_ext_attr_case_lift apre v s' :
  In apre ext_attr_prefixes -> In v (xss_ext_attr apre) -> XCiSpec.cv v s' -> is_xss s' = Ok true.
Proof. intros Hp Hv C. exact (xss_ext_case_lift v s' (in_xss_ext_attr apre v Hp Hv) C). Qed.

Lemma xss_ext_elem_case_lift pre v s' :
  In pre ext_elem_prefixes -> In v (xss_ext_elem pre) -> XCiSpec.cv v s' -> is_xss s' = Ok true.
Proof. intros Hp Hv C. exact (xss_ext_case_lift v s' (in_xss_ext_elem pre v Hp Hv) C). Qed.

(* ================================================================== *)
(* Part 2: name variants and URL encodings behind any good prefix      *)
(* ================================================================== *)

(* ---------- where an attribute name is read next ---------- *)

(* standing in mode m in front of w ++ NAME ..., the next step reads NAME as an
   attribute name (w is skipped) *)
Definition reads_name (m : mode) (w : bytes) : Prop :=
  forall N t cl, name_ok N = true -> ref_step m (w ++ N ++ t) cl = attr_name (len w) (N ++ t) cl.

Lemma name_mode_reads m w : name_mode m w -> reads_name m w.
Proof. intros M N t cl H. exact (name_mode_step m w N t cl M H). Qed.

Lemma attrs_blanks k bl N t cl : forallb is_blank bl = true -> name_ok N = true ->
  attrs k (bl ++ N ++ t) cl = attr_name (k + len bl) (N ++ t) cl.
Proof.
  revert k. induction bl as [|b bl IH]; intros k Hb H.
  - cbn [app]. rewrite len_nil, Z.add_0_r.
    destruct (name_ok_inv N H) as (b & N' & -> & Bl & B1 & B2 & B3 & Hn).
    cbn [app attrs]. rewrite Bl, B1, B3. reflexivity.
  - cbn [forallb] in Hb. apply andb_true_iff in Hb. destruct Hb as [H1 H2].
    cbn [app attrs]. rewrite H1. rewrite (IH (k + 1) H2 H). rewrite len_cons. f_equal. lia.
Qed.

Lemma blank_not_gt b : is_blank b = true -> beq b x3e = false.
Proof.
  intros H. destruct (beq b x3e) eqn:E; [|reflexivity]. apply beq_eq in E. subst b. discriminate H.
Qed.

Lemma after_slash_gap k bl N t cl : forallb is_blank bl = true -> name_ok N = true ->
  after_slash k (bl ++ N ++ t) cl = attr_name (k + 1 + len bl) (N ++ t) cl.
Proof.
  intros Hb H. rewrite <- (attrs_blanks (k + 1) bl N t cl Hb H). unfold after_slash.
  destruct bl as [|c bl].
  - destruct (name_ok_inv N H) as (b & N' & -> & Bl & B1 & B2 & B3 & Hn).
    cbn [app]. rewrite B3. reflexivity.
  - cbn [forallb] in Hb. apply andb_true_iff in Hb. destruct Hb as [H1 _].
    cbn [app]. rewrite (blank_not_gt c H1). reflexivity.
Qed.

(* the bytes w that may stand between the place reached in mode m and the name *)
Definition name_gap (m : mode) (w : bytes) : bool :=
  match m with
  | MAttrs | MAfterName => forallb is_blank w
  | MAfterQuoted =>
      match w with [] => true | c :: bl => (is_blank c || beq c x2f) && forallb is_blank bl end
  | MSlash =>
      match w with [] => false | c :: bl => beq c x2f && forallb is_blank bl end
  | _ => false
  end.

Lemma name_gap_reads m w : name_gap m w = true -> reads_name m w.
Proof.
  intros G N t cl H. destruct m; cbn [name_gap] in G; try discriminate G.
  - (* MSlash *)
    destruct w as [|c bl]; [discriminate G|]. apply andb_true_iff in G. destruct G as [G1 G2].
    cbn [app ref_step]. rewrite (after_slash_gap 0 bl N t cl G2 H). rewrite len_cons. reflexivity.
  - (* MAttrs *)
    cbn [ref_step]. rewrite (attrs_blanks 0 w N t cl G H). reflexivity.
  - (* MAfterName *)
    destruct (name_ok_inv N H) as (b & N' & -> & Bl & B1 & B2 & B3 & Hn).
    cbn [ref_step]. unfold after_name. cbn [app].
    rewrite (break_blanks w b (N' ++ t) G Bl). rewrite B1, B2, B3. reflexivity.
  - (* MAfterQuoted *)
    cbn [ref_step]. destruct w as [|c bl].
    + pose proof (attrs_blanks 0 [] N t cl eq_refl H) as E0. rewrite len_nil in E0. cbn [app Z.add] in E0.
      rewrite len_nil. cbn [app]. rewrite <- E0.
      destruct (name_ok_inv N H) as (b & N' & E & Bl & B1 & B2 & B3 & Hn). subst N.
      cbn [app after_quoted].
      unfold is_blank in Bl. apply orb_false_iff in Bl. destruct Bl as [Sp _].
      rewrite Sp, B1, B3. reflexivity.
    + apply andb_true_iff in G. destruct G as [G1 G2]. cbn [app after_quoted].
      rewrite len_cons.
      destruct (is_space c) eqn:Sp.
      * rewrite (attrs_blanks 1 bl N t cl G2 H). reflexivity.
      * destruct (beq c x2f) eqn:Sl.
        -- rewrite (after_slash_gap 0 bl N t cl G2 H). reflexivity.
        -- unfold is_blank in G1. rewrite Sp, orb_false_r in G1. cbn [orb] in G1.
           assert (Bc : is_blank c = true) by (unfold is_blank; rewrite G1; apply orb_true_r).
           rewrite (blank_not_gt c Bc).
           change (c :: bl ++ N ++ t) with ((c :: bl) ++ N ++ t).
           rewrite (attrs_blanks 0 (c :: bl) N t cl); [rewrite len_cons; reflexivity| |exact H].
           cbn [forallb]. rewrite Bc, G2. reflexivity.
Qed.

(* fires_name / fires_name_eq / fires_name_sp of XLiftRef.v for reads_name *)
Lemma fires_name_g n m w N e post cl attr next : reads_name m w -> name_ok N = true ->
  attr_name (len w) (N ++ e :: post) cl = Emit KAttrName (len w) (len N) (len w + len N + 1) next cl ->
  fires n next post cl (ref_attr_type N) ->
  fires (S n) m (w ++ N ++ e :: post) cl attr.
Proof.
  intros M H E F. pose proof (len_nonneg N). pose proof (len_nonneg post). pose proof (len_nonneg w).
  eapply fires_next with (off := len w) (ln := len N) (adv := len w + len N + 1).
  - rewrite (M N _ cl H). exact E.
  - lia.
  - rewrite len_app, len_app3. lia.
  - rewrite skipn_len_app, firstn_len_app. cbn [attr_text].
    replace (len w + len N + 1) with (len (w ++ N) + 1) by (rewrite len_app; lia).
    rewrite app_assoc. rewrite skipn_name by reflexivity. exact F.
Qed.

Lemma fires_name_eq_g n m w N post cl attr : reads_name m w -> name_ok N = true ->
  fires n MBeforeValue post cl (ref_attr_type N) ->
  fires (S n) m (w ++ N ++ x3d :: post) cl attr.
Proof.
  intros M H F.
  apply (fires_name_g n m w N x3d post cl attr MBeforeValue M H); [apply attr_name_eq; exact H|exact F].
Qed.

Lemma fires_name_sp_g n m w N sp post cl attr : reads_name m w -> name_ok N = true -> is_space sp = true ->
  fires n MAfterName post cl (ref_attr_type N) ->
  fires (S n) m (w ++ N ++ sp :: post) cl attr.
Proof.
  intros M H S F.
  apply (fires_name_g n m w N sp post cl attr MAfterName M H); [apply attr_name_sp; assumption|exact F].
Qed.


(* ---------- one token that ends a prefix ---------- *)

Lemma text_tag_sep T e r : tag_ok T = true -> ends_tag_name e = true ->
  ref_step MText (x3c :: T ++ e :: r) false = tag_name 1 (T ++ e :: r) false /\
  break ends_tag_name (T ++ e :: r) = (T, e :: r).
Proof.
  unfold tag_ok. destruct T as [|t0 T']; [discriminate|]. intros H He.
  apply andb_true_iff in H. destruct H as [Hl Hf].
  destruct (letter_not_markup t0 Hl) as (B1 & B2 & B3 & B4). split.
  - cbn [ref_step]. change (beq x3c x3c) with true. cbv iota. cbn [tag_open app].
    rewrite B1, B2, B3, B4, Hl. reflexivity.
  - apply (break_app ends_tag_name (t0 :: T') (e :: r) Hf). exact He.
Qed.

Lemma text_tag_sp T e r : tag_ok T = true -> is_space e = true ->
  ref_step MText (x3c :: T ++ e :: r) false = Emit KTagOpen 1 (len T) (1 + len T + 1) MAttrs false.
Proof.
  intros HT He.
  destruct (text_tag_sep T e r HT) as [E1 E2]; [unfold ends_tag_name; rewrite He; reflexivity|].
  rewrite E1. unfold tag_name. rewrite E2, He. reflexivity.
Qed.

Lemma text_tag_slash T r : tag_ok T = true ->
  ref_step MText (x3c :: T ++ x2f :: r) false = Emit KTagOpen 1 (len T) (1 + len T) MSlash false.
Proof.
  intros HT. destruct (text_tag_sep T x2f r HT eq_refl) as [E1 E2].
  rewrite E1. unfold tag_name. rewrite E2. reflexivity.
Qed.

Lemma attrs_name_slash k N post cl : name_ok N = true ->
  attrs k (N ++ x2f :: post) cl = Emit KAttrName k (len N) (k + len N) MSlash cl.
Proof.
  intros H. destruct (name_ok_inv N H) as (b & N' & -> & Bl & B1 & B2 & B3 & Hn).
  cbn [app attrs]. rewrite Bl, B1, B3. cbn [attr_name].
  rewrite (break_app ends_attr_name N' (x2f :: post) Hn) by reflexivity.
  change (is_space x2f) with false. change (beq x2f x2f) with true.
  cbv iota. rewrite len_cons. reflexivity.
Qed.

Lemma quoted_step q V r cl : forallb (fun b => negb (beq q b)) V = true ->
  ref_step (MQuoted q) (V ++ q :: r) cl = Emit KAttrValue 0 (len V) (0 + len V + 1) MAfterQuoted cl.
Proof.
  intros H. cbn [ref_step]. unfold quoted_value. rewrite (first_byte_app q V r H). reflexivity.
Qed.

Lemma skipn_body (B : bytes) c post k : k = len B -> skipn (Z.to_nat k) (B ++ c :: post) = c :: post.
Proof. intros ->. apply skipn_len_app. Qed.

Lemma land_tag_sp n T e r : tag_ok T = true -> is_space e = true ->
  (forall a, fires n MAttrs r false a) ->
  fires (S n) MText ((x3c :: T) ++ e :: r) false c_attribute_type_none.
Proof.
  intros HT He F. pose proof (len_nonneg T). pose proof (len_nonneg r).
  eapply (fires_next _ _ _ _ _ KTagOpen 1 (len T) (1 + len T + 1) MAttrs false).
  - apply text_tag_sp; assumption.
  - lia.
  - rewrite len_app, !len_cons. lia.
  - rewrite skipn_name by (rewrite len_cons; lia). apply F.
Qed.

Lemma land_tag_slash n T r : tag_ok T = true ->
  (forall a, fires n MSlash (x2f :: r) false a) ->
  fires (S n) MText ((x3c :: T) ++ x2f :: r) false c_attribute_type_none.
Proof.
  intros HT F. pose proof (len_nonneg T). pose proof (len_nonneg r).
  eapply (fires_next _ _ _ _ _ KTagOpen 1 (len T) (1 + len T) MSlash false).
  - apply text_tag_slash; assumption.
  - lia.
  - rewrite len_app, !len_cons. lia.
  - rewrite skipn_body by (rewrite len_cons; lia). apply F.
Qed.

Lemma land_name_sp n N e r : name_ok N = true -> is_space e = true ->
  (forall a, fires n MAfterName r false a) ->
  fires (S n) MAttrs (N ++ e :: r) false c_attribute_type_none.
Proof.
  intros HN He F. pose proof (len_nonneg N). pose proof (len_nonneg r).
  eapply (fires_next _ _ _ _ _ KAttrName 0 (len N) (0 + len N + 1) MAfterName false).
  - cbn [ref_step]. apply attrs_name_sp; assumption.
  - lia.
  - rewrite len_app, !len_cons. lia.
  - rewrite skipn_name by lia. apply F.
Qed.

Lemma land_name_slash n N r : name_ok N = true ->
  (forall a, fires n MSlash (x2f :: r) false a) ->
  fires (S n) MAttrs (N ++ x2f :: r) false c_attribute_type_none.
Proof.
  intros HN F. pose proof (len_nonneg N). pose proof (len_nonneg r).
  eapply (fires_next _ _ _ _ _ KAttrName 0 (len N) (0 + len N) MSlash false).
  - cbn [ref_step]. apply attrs_name_slash; assumption.
  - lia.
  - rewrite len_app, !len_cons. lia.
  - rewrite skipn_body by lia. apply F.
Qed.

Lemma land_quoted n q V r : forallb (fun b => negb (beq q b)) V = true ->
  (forall a, fires n MAfterQuoted r false a) ->
  fires (S n) (MQuoted q) (V ++ q :: r) false c_attribute_type_none.
Proof.
  intros HV F. pose proof (len_nonneg V). pose proof (len_nonneg r).
  eapply (fires_next _ _ _ _ _ KAttrValue 0 (len V) (0 + len V + 1) MAfterQuoted false).
  - apply quoted_step; assumption.
  - lia.
  - rewrite len_app, !len_cons. lia.
  - rewrite skipn_name by lia. apply F.
Qed.

(* ---------- the shape of an attribute prefix ---------- *)

Definition quote_of (fl : Z) : option byte :=
  if fl =? 2 then Some x27 else if fl =? 3 then Some x22 else if fl =? 4 then Some x60 else None.

(* behind a tag name / an attribute name: a white-space byte, or a slash (which stays) *)
Definition sep_land (m_sp : mode) (e : byte) (w' : bytes) : option (mode * bytes) :=
  if is_space e then Some (m_sp, w') else if beq e x2f then Some (MSlash, e :: w') else None.

(* A prefix body ++ e :: w' read in context fl.  One token is read: in element
   content, body is '<' and a tag name and e ends the name; inside a tag (the
   context of an unquoted value), body is an attribute name (the end of the
   unquoted value) and e ends it; inside a quoted value, body is the rest of
   the value and e the closing quote.  The result is the mode reached and the
   bytes of the prefix that are left in front of the attribute name. *)
Definition land (fl : Z) (body : bytes) (e : byte) (w' : bytes) : option (mode * bytes) :=
  if fl =? 0 then
    match body with
    | c :: T => if beq c x3c && tag_ok T then sep_land MAttrs e w' else None
    | [] => None
    end
  else if fl =? 1 then (if name_ok body then sep_land MAfterName e w' else None)
  else match quote_of fl with
       | Some q => if beq e q && forallb (fun b => negb (beq q b)) body
                   then Some (MAfterQuoted, w') else None
       | None => None
       end.

Lemma land_quoted_fires fl q body e w' m w n l :
  start_mode fl = MQuoted q ->
  (if beq e q && forallb (fun b => negb (beq q b)) body then Some (MAfterQuoted, w') else None) = Some (m, w) ->
  (forall a, fires n m (w ++ l) false a) ->
  fires (S n) (start_mode fl) (body ++ e :: w' ++ l) false c_attribute_type_none.
Proof.
  intros St L F. rewrite St.
  destruct (beq e q && forallb (fun b => negb (beq q b)) body) eqn:C; [|discriminate L].
  apply andb_true_iff in C. destruct C as [C1 C2]. apply beq_eq in C1. subst e.
  inversion L. subst m w. apply land_quoted; assumption.
Qed.

Lemma land_fires fl body e w' m w n l :
  In fl [0; 1; 2; 3; 4] -> land fl body e w' = Some (m, w) ->
  (forall a, fires n m (w ++ l) false a) ->
  fires (S n) (start_mode fl) (body ++ e :: w' ++ l) false c_attribute_type_none.
Proof.
  intros Hfl L F. cbn [In] in Hfl.
  destruct Hfl as [<-|[<-|[<-|[<-|[<-|[]]]]]].
  - (* element content *)
    change (start_mode 0) with MText. unfold land in L. change (0 =? 0) with true in L. cbv iota in L.
    destruct body as [|c T]; [discriminate L|].
    destruct (beq c x3c && tag_ok T) eqn:C; [|discriminate L].
    apply andb_true_iff in C. destruct C as [C1 C2]. apply beq_eq in C1. subst c.
    unfold sep_land in L. destruct (is_space e) eqn:Sp.
    + inversion L. subst m w. apply land_tag_sp; assumption.
    + destruct (beq e x2f) eqn:Sl; [|discriminate L]. apply beq_eq in Sl. subst e.
      inversion L. subst m w. apply land_tag_slash; [exact C2|]. exact F.
  - (* inside a tag *)
    change (start_mode 1) with MAttrs. unfold land in L.
    change (1 =? 0) with false in L. change (1 =? 1) with true in L. cbv iota in L.
    destruct (name_ok body) eqn:C; [|discriminate L].
    unfold sep_land in L. destruct (is_space e) eqn:Sp.
    + inversion L. subst m w. apply land_name_sp; assumption.
    + destruct (beq e x2f) eqn:Sl; [|discriminate L]. apply beq_eq in Sl. subst e.
      inversion L. subst m w. apply land_name_slash; [exact C|]. exact F.
  - apply (land_quoted_fires 2 x27 body e w' m w n l eq_refl L F).
  - apply (land_quoted_fires 3 x22 body e w' m w n l eq_refl L F).
  - apply (land_quoted_fires 4 x60 body e w' m w n l eq_refl L F).
Qed.

(* the decidable side condition: some context and some split of the prefix work *)
Definition split_ok (fl : Z) (apre : bytes) (i : nat) : bool :=
  match skipn i apre with
  | e :: w' => match land fl (firstn i apre) e w' with
               | Some (m, w) => name_gap m w
               | None => false
               end
  | [] => false
  end.

Definition attr_prefix_ok (apre : bytes) : bool :=
  existsb (fun fl => existsb (split_ok fl apre) (seq 0 (List.length apre))) [0; 1; 2; 3; 4].

(* the analogue of XLiftUrl.attr_ctx_fires *)
Lemma attr_prefix_fires apre n l : attr_prefix_ok apre = true -> (n <= 2 + List.length l)%nat ->
  (forall m w a, reads_name m w -> fires n m (w ++ l) false a) ->
  is_xss (apre ++ l) = Ok true.
Proof.
  intros Hok Hn H. unfold attr_prefix_ok in Hok.
  apply existsb_exists in Hok. destruct Hok as (fl & Hfl & Hok).
  apply existsb_exists in Hok. destruct Hok as (i & _ & Hok).
  unfold split_ok in Hok.
  destruct (skipn i apre) as [|e w'] eqn:Sk; [discriminate Hok|].
  destruct (land fl (firstn i apre) e w') as [[m w]|] eqn:L; [|discriminate Hok].
  assert (E : apre = firstn i apre ++ e :: w') by (rewrite <- Sk; symmetry; apply firstn_skipn).
  apply (is_xss_of_verdict fl); [exact Hfl|].
  apply (fires_verdict (S n)).
  - rewrite E, !app_length. cbn [List.length]. lia.
  - rewrite E, <- app_assoc. cbn [app].
    apply (land_fires fl (firstn i apre) e w' m w n l Hfl L).
    intros a. apply H. apply name_gap_reads. exact Hok.
Qed.

(* all prefixes of the core grammar and of the extension satisfy it *)
Lemma all_attr_prefixes_ok : forallb attr_prefix_ok (attr_breakouts ++ ext_attr_prefixes) = true.
Proof. vm_compute. reflexivity. Qed.


Lemma attr_prefix_in_ok apre : In apre (attr_breakouts ++ ext_attr_prefixes) -> attr_prefix_ok apre = true.
Proof. exact (proj1 (forallb_forall attr_prefix_ok _) all_attr_prefixes_ok apre). Qed.

(* ---------- NAME= value and NAME SPACE ... behind such a prefix ---------- *)

Lemma attr_prefix_name_eq apre N post : attr_prefix_ok apre = true -> name_ok N = true ->
  fires 1 MBeforeValue post false (ref_attr_type N) ->
  is_xss (apre ++ N ++ x3d :: post) = Ok true.
Proof.
  intros Hp HN F. apply (attr_prefix_fires apre 2); [exact Hp|lia|].
  intros m w a M. apply fires_name_eq_g; assumption.
Qed.

Lemma attr_prefix_name_sp apre N sp post : attr_prefix_ok apre = true -> name_ok N = true ->
  is_space sp = true -> fires 1 MAfterName post false (ref_attr_type N) ->
  is_xss (apre ++ N ++ sp :: post) = Ok true.
Proof.
  intros Hp HN Hs F. apply (attr_prefix_fires apre 2); [exact Hp|lia|].
  intros m w a M. apply fires_name_sp_g; assumption.
Qed.

(* ---------- A. URL schemes through any encoding ---------- *)

Lemma url_attr_g apre A A' post : attr_prefix_ok apre = true ->
  In (A, 2) blacks -> name_variant A A' ->
  fires 1 MBeforeValue post false c_attribute_type_attr_url ->
  is_xss (apre ++ A' ++ x3d :: post) = Ok true.
Proof.
  intros Hp HA HV F. destruct (blacks_sweep (A, 2) HA) as [Ok1 Ty]. cbn [fst snd] in *.
  apply attr_prefix_name_eq; [exact Hp|exact (variant_name_ok A A' HV Ok1)|].
  rewrite (variant_attr_type A A' HV), Ty. exact F.
Qed.

Theorem url_quoted_g apre A A' bl q junk name enc tail rest :
  attr_prefix_ok apre = true -> In (A, 2) blacks -> name_variant A A' ->
  forallb is_blank bl = true -> is_quote_byte q = true ->
  forallb is_junk junk = true -> In name dangerous_schemes ->
  Spells true name enc (hd_error tail) ->
  forallb (fun b => negb (beq q b)) (junk ++ enc ++ tail) = true ->
  is_xss (apre ++ A' ++ x3d :: bl ++ q :: (junk ++ enc ++ tail) ++ q :: rest) = Ok true.
Proof.
  intros Hp HA HV Hb Hq Hj Hn Hs Hnq.
  apply (url_attr_g apre A A'); [exact Hp|exact HA|exact HV|].
  apply fires_quoted_url; [exact Hb|exact Hq|exact Hnq|].
  apply (ref_black_url_dangerous name); assumption.
Qed.

Theorem url_quoted_open_g apre A A' bl q junk name enc tail :
  attr_prefix_ok apre = true -> In (A, 2) blacks -> name_variant A A' ->
  forallb is_blank bl = true -> is_quote_byte q = true ->
  forallb is_junk junk = true -> In name dangerous_schemes ->
  Spells true name enc (hd_error tail) ->
  forallb (fun b => negb (beq q b)) (junk ++ enc ++ tail) = true ->
  is_xss (apre ++ A' ++ x3d :: bl ++ q :: junk ++ enc ++ tail) = Ok true.
Proof.
  intros Hp HA HV Hb Hq Hj Hn Hs Hnq.
  apply (url_attr_g apre A A'); [exact Hp|exact HA|exact HV|].
  apply fires_open_url; [exact Hb|exact Hq|exact Hnq|].
  apply (ref_black_url_dangerous name); assumption.
Qed.

Theorem url_unquoted_g apre A A' junk name enc rest :
  attr_prefix_ok apre = true -> In (A, 2) blacks -> name_variant A A' ->
  forallb is_junk junk = true -> In name dangerous_schemes ->
  Spells true name enc (hd_error rest) ->
  forallb (fun b => negb (ends_unquoted b)) (junk ++ enc) = true ->
  is_xss (apre ++ A' ++ x3d :: junk ++ enc ++ rest) = Ok true.
Proof.
  intros Hp HA HV Hj Hn Hs Hno.
  destruct (break ends_unquoted rest) as [r1 r2] eqn:Br.
  destruct (break_eq _ _ _ _ Br) as (Er & _ & Hr1 & Hr2).
  assert (Hs1 : Spells true name enc (hd_error r1)).
  { destruct (break_hd _ _ _ _ Br) as [E| ->]; [rewrite E; exact Hs|].
    apply spells_none with (next := hd_error rest). exact Hs. }
  pose proof (ref_black_url_dangerous name junk enc r1 Hn Hj Hs1) as Hu.
  destruct (dangerous_okc name Hn) as [Ne Okc].
  destruct (fnb_junk junk enc Hj (spells_fnb _ _ _ _ Hs Ne Okc)) as (bl & c & t & Ej & Hbl & Hc & Hq).
  assert (E1 : junk ++ enc ++ rest = bl ++ (c :: (t ++ r1)) ++ r2).
  { rewrite Er. rewrite app_assoc, Ej. cbn [app]. rewrite <- !app_assoc. cbn [app]. rewrite <- ?app_assoc. reflexivity. }
  assert (E2 : junk ++ enc ++ r1 = bl ++ c :: t ++ r1).
  { rewrite app_assoc, Ej. rewrite <- !app_assoc. reflexivity. }
  rewrite E1.
  apply (url_attr_g apre A A'); [exact Hp|exact HA|exact HV|].
  apply fires_unquoted_url; [exact Hbl|exact Hc|exact Hq| |exact Hr2|].
  - rewrite Ej in Hno. rewrite forallb_app in Hno. apply andb_true_iff in Hno. destruct Hno as [_ Hno].
    change (c :: t ++ r1) with ((c :: t) ++ r1). rewrite forallb_app, Hno, Hr1. reflexivity.
  - rewrite <- (ref_black_url_blanks bl) by exact Hbl. rewrite <- E2. exact Hu.
Qed.

Theorem url_any_quoting_g apre A A' q junk name enc tail rest :
  attr_prefix_ok apre = true -> In (A, 2) blacks -> name_variant A A' -> In q quotes3 ->
  forallb is_junk junk = true -> In name dangerous_schemes ->
  Spells true name enc (hd_error (tail ++ q ++ rest)) ->
  value_kept q junk enc tail ->
  is_xss (apre ++ A' ++ bs "=" ++ q ++ junk ++ enc ++ tail ++ q ++ rest) = Ok true.
Proof.
  intros Hp HA HV Hq Hj Hn Hs Hk. cbn in Hq. destruct Hq as [<-|[<-|[<-|[]]]]; cbn [value_kept] in Hk.
  - cbn [app] in *. exact (url_unquoted_g apre A A' junk name enc (tail ++ rest) Hp HA HV Hj Hn Hs Hk).
  - pose proof (url_quoted_g apre A A' [] x27 junk name enc tail rest Hp HA HV eq_refl eq_refl Hj Hn
                  (spells_tail _ _ _ _ _ Hs) (not_in_forallb _ _ Hk)) as H.
    cbn [app] in H. rewrite <- !app_assoc in H. exact H.
  - pose proof (url_quoted_g apre A A' [] x22 junk name enc tail rest Hp HA HV eq_refl eq_refl Hj Hn
                  (spells_tail _ _ _ _ _ Hs) (not_in_forallb _ _ Hk)) as H.
    cbn [app] in H. rewrite <- !app_assoc in H. exact H.
Qed.

(* ---------- B. name variants of the attribute productions ---------- *)

Theorem event_variant_g apre ev N' q : attr_prefix_ok apre = true ->
  In (ev, 1) black_events -> In q event_quotings -> name_variant (bs "ON" ++ ev) N' ->
  is_xss (apre ++ N' ++ q) = Ok true.
Proof.
  intros Hp He Hq HV. destruct (events_sweep (ev, 1) He) as [Ok1 Ty]. cbn [fst snd] in *.
  pose proof (variant_name_ok _ _ HV Ok1) as Ok2.
  pose proof (variant_attr_type _ _ HV) as Ty2. rewrite Ty in Ty2.
  destruct (event_post_fires q Hq) as [(post & -> & F)|(post & -> & F)].
  - apply attr_prefix_name_eq; [exact Hp|exact Ok2|]. rewrite Ty2. exact F.
  - apply attr_prefix_name_sp; [exact Hp|exact Ok2|reflexivity|]. rewrite Ty2. exact F.
Qed.

Theorem blacks_variant_g apre A ty post A' : attr_prefix_ok apre = true ->
  In (A, ty) blacks -> In post (posts_of ty) -> name_variant A A' ->
  is_xss (apre ++ A' ++ post) = Ok true.
Proof.
  intros Hp HA Hpo HV. destruct (blacks_sweep (A, ty) HA) as [Ok1 Ty]. cbn [fst snd] in *.
  destruct (posts_fire ty post Hpo) as (post' & -> & F).
  apply attr_prefix_name_eq; [exact Hp|exact (variant_name_ok A A' HV Ok1)|].
  rewrite (variant_attr_type A A' HV), Ty. exact F.
Qed.

Theorem xmlns_xlink_variant_g apre A A' : attr_prefix_ok apre = true -> In A [bs "XMLNS"; bs "XLINK"] ->
  name_variant A A' -> is_xss (apre ++ A' ++ bs "=x") = Ok true.
Proof.
  intros Hp HA HV.
  assert (S : name_ok A = true /\ ref_attr_type A = 1).
  { cbn in HA. destruct HA as [<-|[<-|[]]]; split; vm_compute; reflexivity. }
  destruct S as [Ok1 Ty]. change (bs "=x") with (x3d :: bs "x").
  apply attr_prefix_name_eq; [exact Hp|exact (variant_name_ok A A' HV Ok1)|].
  rewrite (variant_attr_type A A' HV), Ty. eapply fires_now_black. reflexivity.
Qed.

(* every vector of the attribute productions behind the prefix, with its
   attribute name replaced by any variant *)
Theorem ext_attr_vectors_variant apre v : attr_prefix_ok apre = true -> In v (xss_ext_attr apre) ->
  exists name post, v = apre ++ name ++ post /\
    forall name', name_variant name name' -> is_xss (apre ++ name' ++ post) = Ok true.
Proof.
  intros Hp Hv. unfold xss_ext_attr in Hv. rewrite !in_app_iff in Hv. destruct Hv as [Hv|[Hv|Hv]].
  - destruct (p_events_inv _ _ Hv) as (ev & q & He & Hq & ->).
    exists (bs "ON" ++ ev), q. split; [rewrite <- app_assoc; reflexivity|].
    intros N' HV. exact (event_variant_g apre ev N' q Hp He Hq HV).
  - destruct (p_blacks_inv _ _ Hv) as (A & ty & post & HA & Hpo & ->).
    exists A, post. split; [reflexivity|].
    intros A' HV. exact (blacks_variant_g apre A ty post A' Hp HA Hpo HV).
  - unfold p_xmlns_xlink in Hv. apply in_map_iff in Hv. destruct Hv as (A & <- & HA).
    exists A, (bs "=x"). split; [reflexivity|].
    intros A' HV. exact (xmlns_xlink_variant_g apre A A' Hp HA HV).
Qed.

(* ---------- C. a black attribute fires whatever its value is ---------- *)

Lemma break_some stop l : existsb stop l = true -> exists a c r, break stop l = (a, c :: r).
Proof.
  induction l as [|b l IH]; cbn [existsb break]; [discriminate|].
  destruct (stop b) eqn:S.
  - intros _. exists [], b, l. reflexivity.
  - cbn [orb]. intros H. destruct (IH H) as (a & c & r & E). rewrite E. exists (b :: a), c, r. reflexivity.
Qed.

(* a value token is read behind the '=' as soon as some byte is not a blank *)
Lemma black_value_fires post cl : existsb (fun b => negb (is_blank b)) post = true ->
  fires 1 MBeforeValue post cl c_attribute_type_black.
Proof.
  intros H. destruct (break_some _ _ H) as (bl & c & r & E).
  assert (S : exists off ln adv next cl', ref_step MBeforeValue post cl = Some (KAttrValue, off, ln, adv, next, cl')).
  { cbn [ref_step]. unfold before_value. rewrite E. destruct (is_quote_byte c).
    - unfold quoted_value, delimited_tok. destruct (first_byte c r); do 5 eexists; reflexivity.
    - unfold unquoted_value. destruct (break ends_unquoted (c :: r)) as [v tail].
      destruct tail as [|b tail]; [do 5 eexists; reflexivity|].
      destruct (is_space b); do 5 eexists; reflexivity. }
  destruct S as (off & ln & adv & next & cl' & S). exact (fires_now_black _ _ _ _ _ _ _ _ S).
Qed.

(* ONEVENT'=value : any variant of a listed event handler, any value with a non-blank byte *)
Theorem event_any_value_g apre ev N' post : attr_prefix_ok apre = true ->
  In (ev, 1) black_events -> name_variant (bs "ON" ++ ev) N' ->
  existsb (fun b => negb (is_blank b)) post = true ->
  is_xss (apre ++ N' ++ x3d :: post) = Ok true.
Proof.
  intros Hp He HV Hpo. destruct (events_sweep (ev, 1) He) as [Ok1 Ty]. cbn [fst snd] in *.
  apply attr_prefix_name_eq; [exact Hp|exact (variant_name_ok _ _ HV Ok1)|].
  rewrite (variant_attr_type _ _ HV), Ty. apply black_value_fires. exact Hpo.
Qed.

Ltac emit_eq :=
  unfold Emit; apply f_equal; repeat (apply pair_equal_spec; split); try reflexivity; lia.

(* ================================================================== *)
(* Part 3: element names behind any good element prefix                *)
(* ================================================================== *)

(* standing in mode m in front of w ++ c :: l, the next step reads w as the end
   of the tag and leaves the tokenizer in element content in front of c :: l *)
Definition closes (m : mode) (w : bytes) : Prop :=
  forall c l, exists kd off ln,
    0 <= off /\ (kd = KTagEnd \/ kd = KSelfClose) /\
    ref_step m (w ++ c :: l) false = Some (kd, off, ln, len w, MText, false).

(* blanks and then '>' *)
Fixpoint blanks_gt (w : bytes) : bool :=
  match w with
  | [] => false
  | b :: w' => match w' with [] => beq b x3e | _ :: _ => is_blank b && blanks_gt w' end
  end.

Lemma attrs_blanks_gt k w c l cl : 0 <= k -> blanks_gt w = true ->
  attrs k (w ++ c :: l) cl = Emit KTagEnd (k + len w - 1) 1 (k + len w) MText cl.
Proof.
  revert k. induction w as [|b w IH]; intros k Hk H; [discriminate H|].
  cbn [blanks_gt] in H. destruct w as [|b' w'].
  - apply beq_eq in H. subst b. cbn [app attrs].
    change (is_blank x3e) with false. change (beq x3e x2f) with false. change (beq x3e x3e) with true.
    cbv iota. rewrite len_cons, len_nil. emit_eq.
  - apply andb_true_iff in H. destruct H as [H1 H2].
    change ((b :: b' :: w') ++ c :: l) with (b :: (b' :: w') ++ c :: l). cbn [attrs]. rewrite H1.
    rewrite (IH (k + 1) ltac:(lia) H2). rewrite (len_cons b). emit_eq.
Qed.

Lemma blanks_gt_split w : blanks_gt w = true -> exists bl, w = bl ++ [x3e] /\ forallb is_blank bl = true.
Proof.
  induction w as [|b w IH]; [discriminate|]. cbn [blanks_gt]. destruct w as [|b' w'].
  - intros H. apply beq_eq in H. subst b. exists []. split; reflexivity.
  - intros H. apply andb_true_iff in H. destruct H as [H1 H2]. destruct (IH H2) as (bl & E & Hb).
    exists (b :: bl). split; [rewrite E; reflexivity|]. cbn [forallb]. rewrite H1, Hb. reflexivity.
Qed.

Lemma after_slash_gt k w c l cl : 0 <= k -> blanks_gt w = true ->
  exists kd off ln, 0 <= off /\ (kd = KTagEnd \/ kd = KSelfClose) /\
    after_slash k (w ++ c :: l) cl = Some (kd, off, ln, k + 1 + len w, MText, cl).
Proof.
  intros Hk H. destruct w as [|b w]; [discriminate H|]. cbn [blanks_gt] in H. destruct w as [|b' w'].
  - apply beq_eq in H. subst b. exists KSelfClose, k, 2. split; [exact Hk|]. split; [right; reflexivity|].
    cbn [app after_slash]. change (beq x3e x3e) with true. cbv iota.
    rewrite len_cons, len_nil. emit_eq.
  - pose proof H as H'. apply andb_true_iff in H. destruct H as [H1 H2].
    exists KTagEnd, (k + 1 + len (b :: b' :: w') - 1), 1.
    pose proof (len_nonneg (b :: b' :: w')).
    split; [lia|]. split; [left; reflexivity|].
    change ((b :: b' :: w') ++ c :: l) with (b :: (b' :: w') ++ c :: l). cbn [after_slash].
    rewrite (blank_not_gt b H1).
    change (b :: (b' :: w') ++ c :: l) with ((b :: b' :: w') ++ c :: l).
    apply attrs_blanks_gt; [lia|]. exact H'.
Qed.

(* the bytes w that close the tag from the place reached in mode m *)
Definition tag_gap (m : mode) (w : bytes) : bool :=
  match m with
  | MAttrs | MAfterName => blanks_gt w
  | MAfterQuoted =>
      match w with [] => false | c :: w' => if beq c x2f then blanks_gt w' else blanks_gt w end
  | MSlash => match w with [] => false | c :: w' => beq c x2f && blanks_gt w' end
  | MGt => match w with [g] => beq g x3e | _ => false end
  | _ => false
  end.

Lemma tag_gap_closes m w : tag_gap m w = true -> closes m w.
Proof.
  intros G c l. destruct m; cbn [tag_gap] in G; try discriminate G.
  - (* MGt *)
    destruct w as [|g [|g' w']]; try discriminate G. exists KTagEnd, 0, 1.
    split; [lia|]. split; [left; reflexivity|]. reflexivity.
  - (* MSlash *)
    destruct w as [|s w']; [discriminate G|]. apply andb_true_iff in G. destruct G as [_ G2].
    destruct (after_slash_gt 0 w' c l false ltac:(lia) G2) as (kd & off & ln & Ho & Hk & E).
    exists kd, off, ln. split; [exact Ho|]. split; [exact Hk|].
    cbn [app ref_step]. rewrite E, len_cons. reflexivity.
  - (* MAttrs *)
    exists KTagEnd, (0 + len w - 1), 1. pose proof (len_nonneg w).
    assert (1 <= len w) by (destruct w; [discriminate G|rewrite len_cons; pose proof (len_nonneg w); lia]).
    split; [lia|]. split; [left; reflexivity|].
    cbn [ref_step]. rewrite (attrs_blanks_gt 0 w c l false ltac:(lia) G). reflexivity.
  - (* MAfterName *)
    destruct (blanks_gt_split w G) as (bl & -> & Hb).
    exists KTagEnd, (len bl), 1. pose proof (len_nonneg bl).
    split; [lia|]. split; [left; reflexivity|].
    cbn [ref_step]. unfold after_name. rewrite <- app_assoc. cbn [app].
    rewrite (break_blanks bl x3e (c :: l) Hb eq_refl).
    change (beq x3e x2f) with false. change (beq x3e x3d) with false. change (beq x3e x3e) with true.
    cbv iota. cbn [tag_end]. rewrite len_app, len_cons, len_nil. emit_eq.
  - (* MAfterQuoted *)
    destruct w as [|b w']; [discriminate G|]. cbn [app ref_step after_quoted].
    destruct (beq b x2f) eqn:Sl.
    + apply beq_eq in Sl. subst b. change (is_space x2f) with false. cbv iota.
      destruct (after_slash_gt 0 w' c l false ltac:(lia) G) as (kd & off & ln & Ho & Hk & E).
      exists kd, off, ln. split; [exact Ho|]. split; [exact Hk|]. rewrite E, len_cons. reflexivity.
    + pose proof G as G'. cbn [blanks_gt] in G. destruct w' as [|b' w''].
      * apply beq_eq in G. subst b. exists KTagEnd, 0, 1. split; [lia|]. split; [left; reflexivity|].
        reflexivity.
      * apply andb_true_iff in G. destruct G as [G1 G2].
        pose proof (len_nonneg (b' :: w'')).
        destruct (is_space b) eqn:Sp.
        -- exists KTagEnd, (1 + len (b' :: w'') - 1), 1. split; [lia|]. split; [left; reflexivity|].
           rewrite (attrs_blanks_gt 1 (b' :: w'') c l false ltac:(lia) G2). rewrite (len_cons b). reflexivity.
        -- rewrite (blank_not_gt b G1).
           exists KTagEnd, (0 + len (b :: b' :: w'') - 1), 1. rewrite (len_cons b). split; [lia|].
           split; [left; reflexivity|].
           change (b :: (b' :: w'') ++ c :: l) with ((b :: b' :: w'') ++ c :: l).
           rewrite (attrs_blanks_gt 0 (b :: b' :: w'') c l false ltac:(lia) G'). rewrite (len_cons b). reflexivity.
Qed.

Lemma closes_fires n m w c l attr : closes m w ->
  (forall a, fires n MText (c :: l) false a) -> fires (S n) m (w ++ c :: l) false attr.
Proof.
  intros C F. destruct (C c l) as (kd & off & ln & Ho & Hk & E).
  pose proof (len_nonneg w). pose proof (len_nonneg l).
  eapply fires_next; [exact E|exact Ho| |].
  - rewrite len_app, len_cons. lia.
  - rewrite skipn_len_app. apply F.
Qed.

(* a name ended by '>' : the '>' stays for the next step *)
Lemma text_tag_gt T r : tag_ok T = true ->
  ref_step MText (x3c :: T ++ x3e :: r) false = Emit KTagOpen 1 (len T) (1 + len T) MGt false.
Proof.
  intros HT. destruct (text_tag_sep T x3e r HT eq_refl) as [E1 E2].
  rewrite E1. unfold tag_name. rewrite E2. reflexivity.
Qed.

Lemma attrs_name_gt k N post cl : name_ok N = true ->
  attrs k (N ++ x3e :: post) cl = Emit KAttrName k (len N) (k + len N) MGt cl.
Proof.
  intros H. destruct (name_ok_inv N H) as (b & N' & -> & Bl & B1 & B2 & B3 & Hn).
  cbn [app attrs]. rewrite Bl, B1, B3. cbn [attr_name].
  rewrite (break_app ends_attr_name N' (x3e :: post) Hn) by reflexivity.
  change (is_space x3e) with false. change (beq x3e x2f) with false. change (beq x3e x3d) with false.
  cbv iota. rewrite len_cons. reflexivity.
Qed.

Lemma land_tag_gt n T r : tag_ok T = true ->
  (forall a, fires n MGt (x3e :: r) false a) ->
  fires (S n) MText ((x3c :: T) ++ x3e :: r) false c_attribute_type_none.
Proof.
  intros HT F. pose proof (len_nonneg T). pose proof (len_nonneg r).
  eapply (fires_next _ _ _ _ _ KTagOpen 1 (len T) (1 + len T) MGt false).
  - apply text_tag_gt; assumption.
  - lia.
  - rewrite len_app, !len_cons. lia.
  - rewrite skipn_body by (rewrite len_cons; lia). apply F.
Qed.

Lemma land_name_gt n N r : name_ok N = true ->
  (forall a, fires n MGt (x3e :: r) false a) ->
  fires (S n) MAttrs (N ++ x3e :: r) false c_attribute_type_none.
Proof.
  intros HN F. pose proof (len_nonneg N). pose proof (len_nonneg r).
  eapply (fires_next _ _ _ _ _ KAttrName 0 (len N) (0 + len N) MGt false).
  - cbn [ref_step]. apply attrs_name_gt; assumption.
  - lia.
  - rewrite len_app, !len_cons. lia.
  - rewrite skipn_body by lia. apply F.
Qed.

(* `land`, and in addition a tag name or an attribute name ended by '>' *)
Definition land_e (fl : Z) (body : bytes) (e : byte) (w' : bytes) : option (mode * bytes) :=
  match land fl body e w' with
  | Some r => Some r
  | None =>
      if beq e x3e then
        if fl =? 0 then
          match body with
          | c :: T => if beq c x3c && tag_ok T then Some (MGt, e :: w') else None
          | [] => None
          end
        else if fl =? 1 then (if name_ok body then Some (MGt, e :: w') else None)
        else None
      else None
  end.

Lemma land_e_fires fl body e w' m w n l :
  In fl [0; 1; 2; 3; 4] -> land_e fl body e w' = Some (m, w) ->
  (forall a, fires n m (w ++ l) false a) ->
  fires (S n) (start_mode fl) (body ++ e :: w' ++ l) false c_attribute_type_none.
Proof.
  intros Hfl L F. unfold land_e in L.
  destruct (land fl body e w') as [r|] eqn:L0.
  - inversion L. subst r. exact (land_fires fl body e w' m w n l Hfl L0 F).
  - destruct (beq e x3e) eqn:Gt; [|discriminate L]. apply beq_eq in Gt. subst e.
    destruct (fl =? 0) eqn:F0.
    + apply Z.eqb_eq in F0. subst fl. change (start_mode 0) with MText.
      destruct body as [|c T]; [discriminate L|].
      destruct (beq c x3c && tag_ok T) eqn:C; [|discriminate L].
      apply andb_true_iff in C. destruct C as [C1 C2]. apply beq_eq in C1. subst c.
      inversion L. subst m w. apply land_tag_gt; [exact C2|exact F].
    + destruct (fl =? 1) eqn:F1; [|discriminate L].
      apply Z.eqb_eq in F1. subst fl. change (start_mode 1) with MAttrs.
      destruct (name_ok body) eqn:C; [|discriminate L].
      inversion L. subst m w. apply land_name_gt; [exact C|exact F].
Qed.

Definition split_ok_e (fl : Z) (pre : bytes) (i : nat) : bool :=
  match skipn i pre with
  | e :: w' => match land_e fl (firstn i pre) e w' with
               | Some (m, w) => tag_gap m w
               | None => false
               end
  | [] => false
  end.

(* the decidable side condition for element prefixes: the empty prefix
   (element content), or one token and then the end of the tag *)
Definition elem_prefix_ok (pre : bytes) : bool :=
  match pre with [] => true | _ :: _ => false end
  || existsb (fun fl => existsb (split_ok_e fl pre) (seq 0 (List.length pre))) [0; 1; 2; 3; 4].

(* the analogue of XLiftNul.tag_ctx_fires *)
Lemma elem_prefix_fires pre n c l : elem_prefix_ok pre = true -> (n <= 1 + List.length l)%nat ->
  (forall a, fires n MText (c :: l) false a) ->
  is_xss (pre ++ c :: l) = Ok true.
Proof.
  intros Hok Hn H. unfold elem_prefix_ok in Hok. apply orb_true_iff in Hok. destruct Hok as [Hok|Hok].
  - destruct pre; [|discriminate Hok]. cbn [app].
    apply (is_xss_of_verdict 0); [cbn; auto|].
    apply (fires_verdict n); [cbn [List.length]; lia|]. apply H.
  - apply existsb_exists in Hok. destruct Hok as (fl & Hfl & Hok).
    apply existsb_exists in Hok. destruct Hok as (i & _ & Hok).
    unfold split_ok_e in Hok.
    destruct (skipn i pre) as [|e w'] eqn:Sk; [discriminate Hok|].
    destruct (land_e fl (firstn i pre) e w') as [[m w]|] eqn:L; [|discriminate Hok].
    assert (E : pre = firstn i pre ++ e :: w') by (rewrite <- Sk; symmetry; apply firstn_skipn).
    apply (is_xss_of_verdict fl); [exact Hfl|].
    apply (fires_verdict (S (S n))).
    + rewrite E, !app_length. cbn [List.length]. lia.
    + rewrite E, <- app_assoc. cbn [app].
      apply (land_e_fires fl (firstn i pre) e w' m w (S n) (c :: l) Hfl L).
      intros a. apply closes_fires; [apply tag_gap_closes; exact Hok|exact H].
Qed.

Lemma all_elem_prefixes_ok : forallb elem_prefix_ok (breakouts ++ ext_elem_prefixes) = true.
Proof. vm_compute. reflexivity. Qed.


Lemma elem_prefix_in_ok pre : In pre (breakouts ++ ext_elem_prefixes) -> elem_prefix_ok pre = true.
Proof. exact (proj1 (forallb_forall elem_prefix_ok _) all_elem_prefixes_ok pre). Qed.

(* <TAG' rest behind such a prefix *)
Theorem tag_variant_g pre T T' rest : elem_prefix_ok pre = true ->
  In T all_black_tags -> name_variant T T' -> stops_at ends_tag_name rest ->
  is_xss (pre ++ x3c :: T' ++ rest) = Ok true.
Proof.
  intros Hp HT HV Hr. destruct (tags_sweep T HT) as [Ok1 Bl].
  apply (elem_prefix_fires pre 1); [exact Hp|lia|].
  intros a. apply fires_tag; [exact (variant_tag_ok T T' HV Ok1)|exact Hr|exact (variant_black_tag T T' HV Bl)].
Qed.

(* <a SEP ONCLICK'=x behind such a prefix *)
Theorem event_seps_variant_g pre sp N' : elem_prefix_ok pre = true -> In sp event_seps ->
  name_variant (bs "ONCLICK") N' ->
  is_xss (pre ++ bs "<a" ++ sp ++ N' ++ bs "=x") = Ok true.
Proof.
  intros Hp Hsp HV.
  assert (S : name_ok (bs "ONCLICK") = true /\ ref_attr_type (bs "ONCLICK") = 1)
    by (split; vm_compute; reflexivity).
  destruct S as [Ok1 Ty].
  pose proof (variant_name_ok _ _ HV Ok1) as Ok2.
  pose proof (variant_attr_type _ _ HV) as Ty2. rewrite Ty in Ty2.
  assert (F : forall m w a, name_mode m w -> fires 2 m (w ++ N' ++ x3d :: bs "x") false a).
  { intros m w a M. apply fires_name_eq; [exact M|exact Ok2|].
    rewrite Ty2. eapply fires_now_black. reflexivity. }
  assert (G : exists w l, bs "<a" ++ sp ++ N' ++ bs "=x" = x3c :: x61 :: w :: l /\
                          forall a, fires 3 MText (x3c :: x61 :: w :: l) false a).
  { cbn in Hsp. destruct Hsp as [<-|[<-|[<-|[<-|[<-|[<-|[<-|[]]]]]]]].
    1-6: eexists; eexists; (split; [reflexivity|]);
         apply a_sep_step; [reflexivity|intros a; exact (F MAttrs [] a NM_attrs)].
    eexists; eexists; (split; [reflexivity|]).
    apply a_slash_step. intros a. exact (F MSlash [x2f] a NM_slash). }
  destruct G as (w & l & -> & G).
  apply (elem_prefix_fires pre 3); [exact Hp|cbn [List.length]; lia|exact G].
Qed.

(* every vector of the element productions that contains a name (all but the
   markup vectors), with its element name resp. attribute name replaced by any variant *)
Theorem ext_elem_vectors_variant pre v : elem_prefix_ok pre = true ->
  In v (p_black_tags pre ++ p_svt_xsl pre ++ p_event_seps pre) ->
  exists pre' name post, v = pre' ++ name ++ post /\
    forall name', name_variant name name' -> is_xss (pre' ++ name' ++ post) = Ok true.
Proof.
  intros Hp Hv. rewrite !in_app_iff in Hv. destruct Hv as [Hv|[Hv|Hv]].
  - destruct (p_black_tags_inv _ _ Hv) as (tag & term & Ht & Hm & ->).
    exists (pre ++ bs "<"), tag, term. split; [rewrite <- app_assoc; reflexivity|].
    intros tag' HV. rewrite <- app_assoc.
    apply (tag_variant_g pre tag tag' term Hp); [|exact HV|exact (tag_terms_stop term Hm)].
    unfold all_black_tags. apply in_or_app. left. exact Ht.
  - unfold p_svt_xsl in Hv. apply in_map_iff in Hv. destruct Hv as (tag & <- & Ht).
    exists (pre ++ bs "<"), tag, (bs ">"). split; [rewrite <- app_assoc; reflexivity|].
    intros tag' HV. rewrite <- app_assoc.
    apply (tag_variant_g pre tag tag' (bs ">") Hp); [|exact HV|reflexivity].
    unfold all_black_tags. apply in_or_app. right. exact Ht.
  - unfold p_event_seps in Hv. apply in_map_iff in Hv. destruct Hv as (sp & <- & Hs).
    exists (pre ++ bs "<a" ++ sp), (bs "ONCLICK"), (bs "=x").
    split; [rewrite <- !app_assoc; reflexivity|].
    intros N' HV. rewrite <- !app_assoc. exact (event_seps_variant_g pre sp N' Hp Hs HV).
Qed.
