(* ShapeEmail: benign word "@" label ("." label)* lexes as a bare word and a
   variable (the variable name runs over the dots to the end of the input, so
   the labels need not be benign); no rule folds n v; IsSQLi answers (false, ""). *)
From Coq Require Import List ZArith String Bool Lia ZifyBool.
From Coq.Strings Require Import Byte.
From LI Require Import Prelude Base SqliLex SqliFold Proofs.BaseFacts
  Spec.BenignSpec Proofs.BenignLex Spec.RefSqlLex Spec.RefSqlFold Spec.ShapeSpec
  Proofs.ShapeRules Proofs.ShapeCheck Proofs.ShapeLex.
From LIGen Require Import Tables Dispatch Consts.
Import ListNotations.
Local Open Scope Z_scope.

Definition Labels (ls : list bytes) : Prop := Forall (fun l => label l = true) ls.

Lemma label_inv l : label l = true -> forallb is_word_byte l = true /\ 1 <= len l.
Proof.
  unfold label. destruct l as [|b l]; [discriminate|]. intros H. split; [exact H|].
  rewrite len_cons. pose proof (len_nonneg l). lia.
Qed.

Lemma join_dot_cons l ls : join_dot (l :: ls) = l ++ match ls with [] => [] | _ => x2e :: join_dot ls end.
Proof. destruct ls; cbn [join_dot]; [rewrite app_nil_r|]; reflexivity. Qed.

Lemma join_dot_domb ls : Labels ls -> forallb domb (join_dot ls) = true.
Proof.
  induction 1 as [|l ls Hl Hls IH]; [reflexivity|]. rewrite join_dot_cons, forallb_app.
  apply label_inv in Hl. destruct Hl as [Hl _].
  rewrite (forallb_impl is_word_byte domb l); [|exact word_domb|exact Hl].
  destruct ls; [reflexivity|]. cbn [forallb]. rewrite IH. reflexivity.
Qed.

Lemma join_dot_len ls : ls <> [] -> Labels ls -> 1 <= len (join_dot ls).
Proof.
  intros Hne H. destruct H as [|l ls Hl Hls]; [congruence|]. rewrite join_dot_cons, len_app.
  apply label_inv in Hl. destruct Hl as [_ Hl].
  generalize (match ls with [] => [] | _ :: _ => x2e :: join_dot ls end). intros tl.
  pose proof (len_nonneg tl). lia.
Qed.

(* the token stream: bare word, variable *)
Lemma email_stream u dom :
  benign_word u = true -> forallb domb dom = true -> 1 <= len dom ->
  RemS [cWord; cVar] (sqli_init (u ++ x40 :: dom) fl_none_ansi).
Proof.
  intros Hu Hd Ld. set (inp := u ++ x40 :: dom).
  assert (Sd : forallb sbyte (x40 :: dom) = true).
  { cbn [forallb]. rewrite (forallb_impl domb sbyte dom); [reflexivity|exact domb_sbyte|exact Hd]. }
  assert (St : stop_tail (x40 :: dom)) by (right; exists x40, dom; split; reflexivity).
  destruct (ref_lex_word fl_none_ansi u [] (x40 :: dom) Hu (or_introl eq_refl) St Sd) as (b & r & Er & Dw & Lx).
  rewrite app_nil_r in Er, Lx. fold inp in Er.
  pose proof (sst_init inp) as S0.
  assert (S0' : sst (sqli_init inp fl_none_ansi) ([] ++ b :: r) (len [])) by (cbn [app]; rewrite <- Er; exact S0).
  destruct (scan_tok _ [] b r S0' Dw) as (s1 & Sc1 & S1); try (rewrite Lx; reflexivity).
  rewrite Lx in Sc1, S1. cbn [app lx_adv RefSqlLex.plain] in S1. rewrite <- Er in Sc1, S1.
  change (len []) with 0 in S1. rewrite Z.add_0_l in S1.
  (* the variable *)
  assert (Dv : dispatch x40 <> PWhite) by discriminate.
  destruct (scan_tok s1 u x40 dom S1 Dv) as (s2 & Sc2 & S2); try (rewrite ref_lex_at by exact Hd; reflexivity).
  rewrite ref_lex_at in Sc2, S2 by exact Hd. cbn [lx_adv] in S2.
  cbn [RemS]. split; [apply S0|]. eexists. exists s1. split; [exact Sc1|]. split.
  { pose proof (gtok_word 0 u [] (x40 :: dom) Hu (or_introl eq_refl) Sd) as G. rewrite app_nil_r in G. exact G. }
  split; [reflexivity|]. split; [apply S1|].
  eexists. exists s2. split; [exact Sc2|]. split; [apply gtok_at; assumption|].
  split; [reflexivity|]. split; [apply S2|]. apply (scan_end s2 inp).
  - replace (len inp) with (len u + (1 + len dom)) by (unfold inp; rewrite len_app, len_cons; lia). exact S2.
  - rewrite Er. discriminate.
Qed.

Theorem email_not_sqli s : Email s -> is_sqli s = Ok (false, []).
Proof.
  intros (u & labels & Hu & Hne & Hl & ->).
  pose proof (join_dot_domb labels Hl) as Hd. pose proof (join_dot_len labels Hne Hl) as Ld.
  assert (Sb : forallb sbyte (u ++ x40 :: join_dot labels) = true).
  { pose proof (benign_word_inv u Hu) as [[_ Hb] _].
    rewrite forallb_app. cbn [forallb]. rewrite words_sbyte by exact Hb.
    rewrite (forallb_impl domb sbyte (join_dot labels)); [reflexivity|exact domb_sbyte|exact Hd]. }
  destruct (no_quote _ Sb) as [Q1 Q2].
  apply (shape_not_sqli _ cWord [cVar]); try assumption; try reflexivity.
  - apply email_stream; assumption.
  - cbn [List.length]. lia.
Qed.
