(* QuoteTokens: scanning x in a quote context gives the scan of quote + x read
   as-is, one byte to the left (C12, clause b, part 1). *)
From Coq Require Import List ZArith String Bool Lia ZifyBool.
From Coq.Strings Require Import Byte.
From LI Require Import Prelude Base SqliLex Proofs.BaseFacts Proofs.Wp Proofs.LexBase Proofs.LexSpec
  Proofs.TokensSpec Proofs.QuoteBase.
From LIGen Require Import Tables Dispatch Consts.
Import ListNotations.
Local Open Scope Z_scope.

(* the quote byte and the flag that announces it *)
Definition quote_case (q : byte) (qf : Z) : Prop :=
  (q = b_byte_single /\ qf = c_sqli_flag_quote_single) \/
  (q = b_byte_double /\ qf = c_sqli_flag_quote_double).

Definition dialect (d : Z) : Prop := d = c_sqli_flag_sqlansi \/ d = c_sqli_flag_sqlmysql.

(* the state over q :: x that corresponds to a state over x *)
Definition shift_st (q : byte) (fl : Z) (s : sqlst) : sqlst :=
  mkSt (q :: input s) fl (pos s + 1) (st s).

(* the records of the scan of q :: x, from those of the scan of x in the quote
   context: the first token gets the opening mark q and its scan starts at 0 in
   both runs; everything else moves one byte to the right *)
Definition shift_recs (q : byte) (l : list (token * Z * Z)) : list (token * Z * Z) :=
  match l with
  | (t, b, a) :: l' => (set_open (shift_tok t) q, b, a + 1) :: map shift_rec l'
  | [] => []
  end.

Lemma twin_shift_st q f1 f2 sq sx : twin q f1 f2 sq sx -> sq = shift_st q f1 sx.
Proof.
  destruct sq as [iq fq pq stq]. unfold twin, shift_st. cbn [input flags pos st].
  intros (-> & -> & _ & -> & ->). reflexivity.
Qed.

(* the arithmetic of the four flag combinations *)
Lemma quote_flags q qf d : quote_case q qf -> dialect d ->
  dial (c_sqli_flag_quote_none + d) (qf + d) /\
  Z.land (qf + d) (Z.lor c_sqli_flag_quote_single c_sqli_flag_quote_double) <> 0 /\
  flag2delimiter (qf + d) = q /\
  Z.land (c_sqli_flag_quote_none + d) (Z.lor c_sqli_flag_quote_single c_sqli_flag_quote_double) = 0 /\
  dispatch q = PString /\ (qf + d =? 0) = false /\ (c_sqli_flag_quote_none + d =? 0) = false.
Proof.
  intros [[-> ->]|[-> ->]] [->| ->]; unfold dial; splits; try reflexivity; vm_compute; discriminate.
Qed.

Lemma tokens_loop_S fuel s acc :
  tokens_loop (S fuel) s acc =
  bind (tokenize s tok0) (fun r => let '(more, t, s') := r in
    if (more : bool) then tokens_loop fuel s' ((t, pos s, pos s') :: acc) else Ok (rev acc, s')).
Proof. reflexivity. Qed.

Theorem quote_tokens q qf d x : quote_case q qf -> dialect d -> x <> [] ->
  exists l s,
    tokens x (qf + d) = Ok (l, s) /\
    tokens (q :: x) (c_sqli_flag_quote_none + d) = Ok (shift_recs q l, shift_st q (c_sqli_flag_quote_none + d) s) /\
    (exists t a l', l = (t, 0, a) :: l' /\ t_cat t = b_sqli_token_type_string /\ t_open t = x00).
Proof.
  intros Hq Hd Hx.
  destruct (quote_flags q qf d Hq Hd) as (D & F2 & Fq & F1 & Dq & Z2 & Z1).
  set (f1 := c_sqli_flag_quote_none + d) in *. set (f2 := qf + d) in *.
  destruct (tokens_spec x f2) as (l & s & E & _).
  exists l, s. split; [exact E|].
  unfold tokens in *. unfold sqli_init in *. rewrite Z1. rewrite Z2 in E.
  cbn [List.length]. rewrite tokens_loop_S in E |- *. cbn [pos] in E |- *.
  inv_bind E. destruct a as [[mx tx] sx1].
  destruct (tokenize_first q f1 f2 x stats0 tok0 tok0 Hx F2 Fq F1 Dq _ E0) as [[[mq tq] sq1] [Eq R]].
  rewrite Eq. cbn [bind].
  destruct R as (R1 & R2 & R3 & R4 & R5 & R6 & R7). cbn [fst snd] in *. subst mq mx.
  assert (W0 : st_wf (mkSt x f2 0 stats0)).
  { unfold st_wf, slen. cbn [pos input]. pose proof (len_nonneg x). lia. }
  pose proof (wp_to_wlp _ _ (tokenize_spec (mkSt x f2 0 stats0) tok0 W0) _ E0) as P.
  destruct P as (P1 & P2 & P3 & P4 & P5 & P6).
  assert (W1 : 1 <= pos sx1 <= slen sx1).
  { unfold slen in *. rewrite P1. cbn [input pos] in P4 |- *. lia. }
  destruct (tokens_loop_sim q f1 f2 D (S (List.length x)) (S (S (List.length x))) ltac:(lia)
              sq1 sx1 [(tq, 0, pos sq1)] [(tx, 0, pos sx1)] R3
              W1 _ E)
    as [[lq sq2] [Eq2 (l' & L1 & L2 & L3)]].
  rewrite Eq2. cbn [fst snd rev app] in *. subst l lq tq.
  split.
  - f_equal. f_equal; [|apply (twin_shift_st _ _ _ _ _ L3)].
    cbn [shift_recs]. destruct R3 as (_ & _ & _ & T4 & _). rewrite T4. reflexivity.
  - exists tx, (pos sx1), l'. auto.
Qed.

Print Assumptions quote_tokens.

(* the same statement, element-wise *)
Lemma shift_recs_length q l : List.length (shift_recs q l) = List.length l.
Proof. destruct l as [|[[t b] a] l']; cbn [shift_recs List.length]; [reflexivity|]. rewrite map_length. reflexivity. Qed.

Lemma shift_recs_nth q l i t b a :
  nth_error l i = Some (t, b, a) ->
  nth_error (shift_recs q l) i =
  Some (match i with
        | O => (set_open (shift_tok t) q, b, a + 1)
        | S _ => (shift_tok t, b + 1, a + 1)
        end).
Proof.
  destruct l as [|[[t0 b0] a0] l']; [destruct i; discriminate|].
  destruct i as [|i]; cbn [nth_error shift_recs].
  - intros [= -> -> ->]. reflexivity.
  - intros H. rewrite nth_error_map, H. reflexivity.
Qed.

Corollary quote_tokens_summary q qf d x : quote_case q qf -> dialect d -> x <> [] ->
  exists lx sx lq sq,
    tokens x (qf + d) = Ok (lx, sx) /\
    tokens (q :: x) (c_sqli_flag_quote_none + d) = Ok (lq, sq) /\
    List.length lq = List.length lx /\
    st sq = st sx /\ input sq = q :: input sx /\ pos sq = pos sx + 1 /\
    (forall i t b a, nth_error lx i = Some (t, b, a) ->
       exists t', nth_error lq i = Some (t', (if Nat.eqb i 0 then b else b + 1), a + 1) /\
                  t_pos t' = t_pos t + 1 /\ t_len t' = t_len t /\ t_count t' = t_count t /\
                  t_cat t' = t_cat t /\ t_close t' = t_close t /\ t_val t' = t_val t /\
                  (if Nat.eqb i 0
                   then b = 0 /\ t_cat t = b_sqli_token_type_string /\ t_open t = x00 /\ t_open t' = q
                   else t_open t' = t_open t)).
Proof.
  intros Hq Hd Hx. destruct (quote_tokens q qf d x Hq Hd Hx) as (l & s & E1 & E2 & (t0 & a0 & l' & L & C & O)).
  exists l, s, (shift_recs q l), (shift_st q (c_sqli_flag_quote_none + d) s).
  splits; try assumption; try reflexivity; [apply shift_recs_length|].
  intros i t b a N. rewrite (shift_recs_nth q l i t b a N).
  destruct i as [|i]; cbn [Nat.eqb].
  - eexists. split; [reflexivity|]. rewrite L in N. cbn [nth_error] in N. inversion N; subst.
    unfold set_open, shift_tok. cbn [t_pos t_len t_count t_cat t_open t_close t_val]. splits; auto.
  - eexists. split; [reflexivity|]. unfold shift_tok. cbn [t_pos t_len t_count t_cat t_open t_close t_val].
    splits; auto.
Qed.

Print Assumptions quote_tokens_summary.
