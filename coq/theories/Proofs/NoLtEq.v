(* NoLtEq: an input without '<' and without '=' is never reported as XSS.

   Partial-correctness invariant over the token loop (wlp), combined with the
   totality results of XssTotal:
     - the tokenizer stays inside a closed set of states (`allowed`), which
       excludes STagOpen (entered only after SData found a '<') and
       SBeforeAttributeValue / SAttributeValueNoQuote (entered only after '=');
     - the only token types it emits there are data_text, attr_name,
       tag_name_close, tag_name_self_close (`okty`);
     - the three quoted contexts start in a quote state, whose single step
       emits one attr_value token, judged with attribute type none;
     - `classify` answers None on all of these. *)
From Coq Require Import List ZArith String Bool Lia ZifyBool.
From Coq.Strings Require Import Byte.
From LI Require Import Prelude Base Html5 Xss Proofs.BaseFacts Proofs.Wp Proofs.H5Spec Proofs.XssTotal.
From LIGen Require Import Consts.
Import ListNotations.
Local Open Scope Z_scope.

(* ---------- the hypothesis on the input ---------- *)

Definition clean (s : bytes) : Prop := forall b, In b s -> b <> x3c /\ b <> x3d.

Lemma In_skipn_in {A} (x : A) n l : In x (skipn n l) -> In x l.
Proof. intros H. rewrite <- (firstn_skipn n l). apply in_or_app. right. exact H. Qed.

Lemma clean_nth s i b : clean s -> nth_error s i = Some b -> b <> x3c /\ b <> x3d.
Proof. intros C N. apply C. eapply nth_error_In; exact N. Qed.

Lemma clean_not_eq s i b : clean s -> nth_error s i = Some b -> beq b b_byte_equals = true -> False.
Proof.
  intros C N E. apply beq_eq in E. destruct (clean_nth s i b C N) as [_ H]. apply H. exact E.
Qed.

Lemma clean_code_not_eq s i b : clean s -> nth_error s i = Some b -> code b = c_byte_equals -> False.
Proof.
  intros C N E. destruct (clean_nth s i b C N) as [_ H]. apply H. apply code_inj. rewrite E. reflexivity.
Qed.

Lemma clean_no_lt s n : clean s -> index_byte (skipn n s) b_byte_lt = -1.
Proof.
  intros C. destruct (index_byte_cases (skipn n s) b_byte_lt) as [[I _]|[_ N]]; [exact I|].
  exfalso. apply nth_error_In, In_skipn_in in N. destruct (C _ N) as [H _]. apply H. reflexivity.
Qed.

(* ---------- the closed set of states and token types ---------- *)

Definition allowed (f : h5fn) : bool :=
  match f with
  | SData | SEOF | SBeforeAttributeName | SAttributeName | SAfterAttributeName
  | SSelfClosingStartTag | STagNameClose | SAfterAttributeValueQuoted => true
  | _ => false
  end.

Definition okty (t : Z) : Prop :=
  t = c_html5_type_data_text \/ t = c_html5_type_attr_name \/
  t = c_html5_type_tag_name_close \/ t = c_html5_type_tag_name_self_close.

(* result of a state function of the closed set *)
Definition R (h0 : h5) (r : bool * h5) : Prop :=
  hs (snd r) = hs h0 /\ allowed (hstate (snd r)) = true /\
  (fst r = true -> okty (tok_type (snd r))).

(* result of a quote state *)
Definition Rq (h0 : h5) (r : bool * h5) : Prop :=
  hs (snd r) = hs h0 /\ allowed (hstate (snd r)) = true /\
  fst r = true /\ tok_type (snd r) = c_html5_type_attr_value.

(* ---------- symbolic execution for wlp ---------- *)

Ltac wl_step :=
  lazymatch goal with
  | |- wlp (Ok _) _ => apply wlp_Ok
  | |- wlp (bind _ _) _ => apply wlp_bind
  | |- wlp (get _ _ _) _ => apply wlp_get; intros ? ? ?
  | |- wlp (drop _ _ _) _ => apply wlp_drop; intros ?
  | |- wlp (emit _ _ _ _ _ _ _ _) _ => unfold emit
  | |- wlp (if ?c then _ else _) _ => destruct c eqn:?
  end.

Ltac wl_go := simp_h; repeat (wl_step; simp_h).

(* kill branches that need a '<' or a '=' in the input *)
Ltac absurd_byte :=
  match goal with
  | C : clean ?s, N : nth_error ?s _ = Some ?b, E : beq ?b b_byte_equals = true |- _ =>
      exfalso; exact (clean_not_eq _ _ _ C N E)
  | C : clean ?s, E : (index_byte (skipn ?n ?s) b_byte_lt =? -1) = false |- _ =>
      exfalso; rewrite (clean_no_lt s n C) in E; discriminate E
  end.

Ltac leafR :=
  solve [unfold R, okty; simp_h; splits;
         [reflexivity | first [reflexivity | assumption] | intros _; tauto || (intros; discriminate)]].

Lemma R_stay h : allowed (hstate h) = true -> R h (false, h).
Proof. intros A. unfold R. cbn [fst snd]. splits; [reflexivity|exact A|discriminate]. Qed.

Lemma R_mono h h2 r : hs h2 = hs h -> R h2 r -> R h r.
Proof. unfold R. intros E (A & B & C). rewrite <- E. auto. Qed.

(* ---------- skip_white ---------- *)

Lemma skip_white_wlp h :
  wlp (skip_white h)
      (fun r => exists p, snd r = with_pos h p /\
                (fst r = c_byte_eof \/ exists i b, nth_error (hs h) i = Some b /\ fst r = code b)).
Proof.
  unfold skip_white. wl_go.
  - eexists. split; [reflexivity|]. right. eauto.
  - eexists. split; [reflexivity|]. left. reflexivity.
Qed.

Ltac after_skip :=
  apply wlp_bind; eapply wlp_conseq; [apply skip_white_wlp|];
  let ch := fresh "ch" in let h2 := fresh "h2" in let p := fresh "p" in
  let E := fresh "E" in let Hch := fresh "Hch" in
  intros [ch h2] (p & E & Hch); cbn [fst snd] in E, Hch; subst h2.

Ltac absurd_code :=
  match goal with
  | C : clean _, Hch : _ \/ _, E : (?ch =? c_byte_equals) = true |- _ =>
      exfalso; destruct Hch as [Hch|(? & ? & Hn & Hc)];
      [ unfold c_byte_eof, c_byte_equals in *; lia
      | apply (clean_code_not_eq _ _ _ C Hn); rewrite <- Hc; lia ]
  end.

(* ---------- stateBeforeAttributeName loop ---------- *)

Definition ban_R (h0 : h5) (o : ban_out) : Prop :=
  match o with
  | BanDone r => R h0 r
  | BanCall f h2 =>
      hs h2 = hs h0 /\ hstate h2 = hstate h0 /\ (f = SAttributeName \/ f = SSelfClosingStartTag)
  end.

Lemma ban_R_mono h h2 o : hs h2 = hs h -> hstate h2 = hstate h -> ban_R h2 o -> ban_R h o.
Proof.
  intros E1 E2. destruct o as [r|f h3]; cbn [ban_R].
  - apply R_mono. exact E1.
  - rewrite E1, E2. tauto.
Qed.

Lemma ban_loop_wlp fuel : forall h,
  allowed (hstate h) = true -> wlp (before_attr_name_loop fuel h) (ban_R h).
Proof.
  induction fuel as [|fuel IH]; intros h A; cbn [before_attr_name_loop]; [apply wlp_fail_Fuel|].
  destruct (hpos h <? hlen h) eqn:E0.
  2:{ apply wlp_Ok. cbn [ban_R]. apply R_stay. exact A. }
  after_skip. wl_go.
  - cbn [ban_R]. apply (R_mono _ (with_pos h p)); [reflexivity|]. apply R_stay. exact A.
  - eapply wlp_conseq; [apply IH; simp_h; exact A|]. intros o.
    apply ban_R_mono; reflexivity.
  - cbn [ban_R]. simp_h. splits; try reflexivity. right. reflexivity.
  - cbn [ban_R]. simp_h. splits; try reflexivity. right. reflexivity.
  - cbn [ban_R]. leafR.
  - cbn [ban_R]. simp_h. splits; try reflexivity. left. reflexivity.
Qed.

(* ---------- the states of the closed set ---------- *)

Ltac open_wlp :=
  match goal with
  | |- wlp (h5_call (S ?d) _ _) _ =>
      let d2 := fresh "dd" in let E := fresh "Edd" in
      remember d as d2 eqn:E; cbn [h5_call]; subst d2
  end.

Ltac callIH IH :=
  eapply wlp_conseq;
  [ apply IH; simp_h; first [reflexivity | assumption]
  | let r := fresh "r" in intros r; apply R_mono; simp_h; reflexivity ].

Lemma h5_call_closed d : forall f h,
  clean (hs h) -> allowed f = true -> allowed (hstate h) = true ->
  wlp (h5_call d f h) (R h).
Proof.
  induction d as [|d IH]; intros f h C Af Ah; [apply wlp_fail_Stack|].
  destruct f; try discriminate Af; open_wlp.
  - (* SEOF *) apply wlp_Ok. apply R_stay. exact Ah.
  - (* SData *) wl_go; try absurd_byte; leafR.
  - (* STagNameClose *) wl_go. unfold R, okty; simp_h. splits; [reflexivity| |intros _; tauto].
    destruct (_ <? _); reflexivity.
  - (* SSelfClosingStartTag *)
    wl_go.
    + apply R_stay. exact Ah.
    + leafR.
    + callIH IH.
  - (* SBeforeAttributeName *)
    apply wlp_bind. eapply wlp_conseq; [apply ban_loop_wlp; exact Ah|].
    intros [r|f h2]; cbn [ban_R].
    + intros P. apply wlp_Ok. exact P.
    + intros (E1 & E2 & F). eapply wlp_conseq.
      * apply IH; [rewrite E1; exact C|destruct F as [-> | ->]; reflexivity|rewrite E2; exact Ah].
      * intros r. apply R_mono. exact E1.
  - (* SAttributeName *)
    wl_go; try absurd_byte; leafR.
  - (* SAfterAttributeName *)
    after_skip. wl_go.
    + apply (R_mono _ (with_pos h p)); [reflexivity|]. apply R_stay. exact Ah.
    + callIH IH.
    + absurd_code.
    + callIH IH.
    + callIH IH.
  - (* SAfterAttributeValueQuoted *)
    wl_go.
    + apply R_stay. exact Ah.
    + callIH IH.
    + callIH IH.
    + leafR.
    + callIH IH.
Qed.

(* ---------- the quote states ---------- *)

Lemma h5_call_quote d f h : is_quote f = true -> wlp (h5_call d f h) (Rq h).
Proof.
  intros Q. destruct d as [|d]; [apply wlp_fail_Stack|].
  destruct f; try discriminate Q; cbn [h5_call]; destruct (0 <? hpos h); wl_go;
    unfold Rq; simp_h; splits; reflexivity.
Qed.

(* ---------- one step of the tokenizer ---------- *)

Lemma h5_next_closed h : clean (hs h) -> allowed (hstate h) = true -> wlp (h5_next h) (R h).
Proof. intros C A. unfold h5_next. apply h5_call_closed; assumption. Qed.

Lemma h5_next_quote h : is_quote (hstate h) = true -> wlp (h5_next h) (Rq h).
Proof. intros Q. unfold h5_next. apply h5_call_quote. exact Q. Qed.

(* ---------- classify ---------- *)

Ltac tyconsts :=
  unfold c_html5_type_data_text, c_html5_type_attr_name, c_html5_type_tag_name_close,
         c_html5_type_tag_name_self_close, c_html5_type_attr_value, c_html5_type_doc_type,
         c_html5_type_tag_name_open, c_html5_type_tag_comment, c_attribute_type_none in *.

Lemma classify_okty h attr : okty (tok_type h) -> wlp (classify h attr) (fun r => fst r = None).
Proof.
  intros T. unfold classify. apply wlp_bind. apply wlp_drop. intros _.
  unfold okty in T.
  destruct (tok_type h =? c_html5_type_doc_type) eqn:E1; [exfalso; tyconsts; lia|].
  destruct (tok_type h =? c_html5_type_tag_name_open) eqn:E2; [exfalso; tyconsts; lia|].
  destruct (tok_type h =? c_html5_type_attr_name) eqn:E3.
  { apply wlp_bind. apply wlp_take. intros _. apply wlp_Ok. reflexivity. }
  destruct (tok_type h =? c_html5_type_attr_value) eqn:E4; [exfalso; tyconsts; lia|].
  destruct (tok_type h =? c_html5_type_tag_comment) eqn:E5; [exfalso; tyconsts; lia|].
  apply wlp_Ok. reflexivity.
Qed.

Lemma classify_first_value h :
  tok_type h = c_html5_type_attr_value ->
  wlp (classify h c_attribute_type_none) (fun r => fst r = None).
Proof.
  intros T. unfold classify. rewrite T. apply wlp_bind. apply wlp_drop. intros _.
  apply wlp_Ok. reflexivity.
Qed.

(* ---------- the loop of isXSS ---------- *)

Lemma wlp_pair {A B C} (m : res (A * B)) (k : A -> B -> res C) (Q : C -> Prop) :
  wlp m (fun r => wlp (k (fst r) (snd r)) Q) ->
  wlp (bind m (fun x => let '(a, b) := x in k a b)) Q.
Proof. intros H. apply wlp_bind. eapply wlp_conseq; [exact H|]. intros [a b] W. exact W. Qed.

Lemma xss_loop_closed fuel : forall h attr,
  clean (hs h) -> allowed (hstate h) = true ->
  wlp (xss_loop fuel h attr) (fun b => b = false).
Proof.
  induction fuel as [|fuel IH]; intros h attr C A; cbn [xss_loop]; [apply wlp_fail_Fuel|].
  apply wlp_bind. eapply wlp_conseq; [apply h5_next_closed; assumption|].
  intros [more h'] (P1 & P2 & P3). cbn [fst snd] in *.
  destruct more; [|apply wlp_Ok; reflexivity].
  apply wlp_bind. eapply wlp_conseq; [apply classify_okty; apply P3; reflexivity|].
  intros [[b|] attr'] E; cbn [fst] in E; [discriminate E|].
  apply IH; [rewrite P1; exact C|exact P2].
Qed.

Lemma xss_loop_quote fuel h :
  clean (hs h) -> is_quote (hstate h) = true ->
  wlp (xss_loop fuel h c_attribute_type_none) (fun b => b = false).
Proof.
  intros C Q. destruct fuel as [|fuel]; cbn [xss_loop]; [apply wlp_fail_Fuel|].
  apply wlp_bind. eapply wlp_conseq; [apply h5_next_quote; exact Q|].
  intros [more h'] (P1 & P2 & P3 & P4). cbn [fst snd] in *. subst more.
  apply wlp_bind. eapply wlp_conseq; [apply classify_first_value; exact P4|].
  intros [[b|] attr'] E; cbn [fst] in E; [discriminate E|].
  apply xss_loop_closed; [rewrite P1; exact C|exact P2].
Qed.

(* ---------- the five contexts ---------- *)

Lemma xss_ctx_wlp s fl : clean s -> 0 <= fl <= 4 -> wlp (xss_ctx s fl) (fun b => b = false).
Proof.
  intros C H. unfold xss_ctx.
  assert (F : fl = 0 \/ fl = 1 \/ fl = 2 \/ fl = 3 \/ fl = 4) by lia.
  destruct F as [->|[->|[->|[->| ->]]]].
  - apply xss_loop_closed; [exact C|reflexivity].
  - apply xss_loop_closed; [exact C|reflexivity].
  - apply xss_loop_quote; [exact C|reflexivity].
  - apply xss_loop_quote; [exact C|reflexivity].
  - apply xss_loop_quote; [exact C|reflexivity].
Qed.

Theorem xss_ctx_no_lt_no_eq : forall s fl,
  (forall b, In b s -> b <> x3c /\ b <> x3d) -> 0 <= fl <= 4 -> xss_ctx s fl = Ok false.
Proof.
  intros s fl C H. destruct (xss_ctx_total s fl H) as [b E].
  rewrite E. f_equal. exact (xss_ctx_wlp s fl C H b E).
Qed.

Theorem is_xss_no_lt_no_eq : forall s,
  (forall b, In b s -> b <> x3c /\ b <> x3d) -> is_xss s = Ok false.
Proof.
  intros s C. unfold is_xss.
  rewrite (xss_ctx_no_lt_no_eq s c_html5_flags_data_state C) by (vm_compute; split; discriminate).
  cbn [bind].
  rewrite (xss_ctx_no_lt_no_eq s c_html5_flags_value_no_quote C) by (vm_compute; split; discriminate).
  cbn [bind].
  rewrite (xss_ctx_no_lt_no_eq s c_html5_flags_value_single_quote C) by (vm_compute; split; discriminate).
  cbn [bind].
  rewrite (xss_ctx_no_lt_no_eq s c_html5_flags_value_double_quote C) by (vm_compute; split; discriminate).
  cbn [bind].
  exact (xss_ctx_no_lt_no_eq s c_html5_flags_value_back_quote C ltac:(vm_compute; split; discriminate)).
Qed.

(* the hypothesis as a boolean test, for use on concrete inputs *)
Definition no_lt_eq_b (s : bytes) : bool :=
  forallb (fun b => negb (beq b x3c) && negb (beq b x3d)) s.

Lemma no_lt_eq_b_spec s :
  no_lt_eq_b s = true <-> (forall b, In b s -> b <> x3c /\ b <> x3d).
Proof.
  unfold no_lt_eq_b. rewrite forallb_forall. split; intros H b Hb.
  - apply H in Hb. apply andb_true_iff in Hb. destruct Hb as [H1 H2].
    apply negb_true_iff, beq_neq in H1. apply negb_true_iff, beq_neq in H2. tauto.
  - destruct (H b Hb) as [H1 H2]. apply andb_true_iff.
    split; apply negb_true_iff, beq_neq; assumption.
Qed.

Theorem is_xss_no_lt_no_eq_b : forall s, no_lt_eq_b s = true -> is_xss s = Ok false.
Proof. intros s H. apply is_xss_no_lt_no_eq, no_lt_eq_b_spec, H. Qed.

Print Assumptions xss_ctx_no_lt_no_eq.
Print Assumptions is_xss_no_lt_no_eq.
