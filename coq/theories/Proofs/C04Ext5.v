(* C04Ext5: the element productions (blacklisted elements x terminators, SVT / XSL,
   <a SEP ONCLICK=x, markup) behind all six extended element prefixes of
   GrammarXss2.ext_elem_prefixes are reported by the model, and none of these
   vectors contains a CDATA look-alike.  Decided by vm_compute.  No vector is
   excluded. *)
From Coq Require Import List ZArith String Bool.
From Coq.Strings Require Import Byte.
From LI Require Import Prelude Base Html5 Xss Spec.GrammarXss Spec.GrammarXss2 Spec.XCiSpec.
Import ListNotations.

Lemma ext_elem_ok :
  forallb (fun p => forallb detected_xss (xss_ext_elem p)) ext_elem_prefixes = true.
Proof. vm_compute; reflexivity. Qed.

Lemma ext_elem_no_cdata :
  forallb (fun p => forallb no_cdata_like (xss_ext_elem p)) ext_elem_prefixes = true.
Proof. vm_compute; reflexivity. Qed.
