(* LexBase: the specification every SQL lexer is proved against (C16, C01, C08,
   C12), the helper lemmas for `assign`, keyword look-ups and the byte sweeps
   over the generated dispatch table. *)
From Coq Require Import List ZArith String Bool Lia ZifyBool.
From Coq.Strings Require Import Byte.
From Coq.FSets Require Import FMapPositive.
From LI Require Import Prelude Base SqliLex Proofs.BaseFacts Proofs.Wp.
From LIGen Require Import Tables Dispatch Consts.
Import ListNotations.
Local Open Scope Z_scope.

(* ---------- all bytes ---------- *)

Lemma byte_of_Z_code b : byte_of_Z (code b) = b.
Proof. destruct b; reflexivity. Qed.

Lemma in_all_bytes b : In b all_bytes.
Proof.
  assert (E : all_bytes = map (fun n => byte_of_Z (Z.of_nat n)) (seq 0 256)) by (vm_compute; reflexivity).
  rewrite E. apply in_map_iff. exists (Z.to_nat (code b)). pose proof (code_range b). split.
  - rewrite Z2Nat.id by lia. apply byte_of_Z_code.
  - apply in_seq. lia.
Qed.

Lemma byte_sweep (P : byte -> bool) : forallb P all_bytes = true -> forall b, P b = true.
Proof. intros H b. rewrite forallb_forall in H. apply H, in_all_bytes. Qed.

(* ---------- token classes ---------- *)

(* the documented token-class characters (sqli_const.go) *)
Definition class_alphabet : bytes := bs "kUBEtfn1vso&cA(){}.,:;T?XF\".
Definition is_class (b : byte) : bool := mem b class_alphabet.

Lemma is_class_nonzero b : is_class b = true -> b <> x00.
Proof. intros H E. subst. vm_compute in H. discriminate. Qed.

(* classes a keyword-table look-up can yield *)
Definition kw_class (v : byte) : bool :=
  is_class v && negb (beq v b_sqli_token_type_comment) && negb (beq v b_sqli_token_type_evil).

Lemma kw_find_value_ok key :
  kw_find sql_kwmap key = x00 \/ kw_class (kw_find sql_kwmap key) = true.
Proof.
  assert (S : forallb (fun e => kw_class (snd (snd e))) (PositiveMap.elements sql_kwmap) = true)
    by (vm_compute; reflexivity).
  unfold kw_find. destruct (PositiveMap.find (encode key) sql_kwmap) as [[k v]|] eqn:F; [|left; reflexivity].
  destruct (bytes_eqb k key); [|left; reflexivity]. right.
  apply PositiveMap.elements_correct in F. rewrite forallb_forall in S. exact (S _ F).
Qed.

Lemma search_keyword_ok key :
  search_keyword key = x00 \/ kw_class (search_keyword key) = true.
Proof. unfold search_keyword. destruct (go_upper_view key); [apply kw_find_value_ok|left; reflexivity]. Qed.

Lemma kw_class_is_class v : kw_class v = true -> is_class v = true.
Proof. unfold kw_class. intros H. apply andb_true_iff in H. destruct H as [H _]. apply andb_true_iff in H. tauto. Qed.

(* function names in the table have at least two bytes *)
Lemma kw_find_function_len key :
  kw_find sql_kwmap key = b_sqli_token_type_function -> 2 <= len key.
Proof.
  assert (S : forallb (fun e => negb (beq (snd (snd e)) b_sqli_token_type_function) || (2 <=? len (fst (snd e))))
                      (PositiveMap.elements sql_kwmap) = true) by (vm_compute; reflexivity).
  unfold kw_find. destruct (PositiveMap.find (encode key) sql_kwmap) as [[k v]|] eqn:F; [|discriminate].
  destruct (bytes_eqb k key) eqn:E; [|discriminate]. intros ->.
  apply PositiveMap.elements_correct in F. rewrite forallb_forall in S. specialize (S _ F). cbn [fst snd] in S.
  apply bytes_eqb_eq in E. subst k. rewrite beq_refl in S. cbn in S. lia.
Qed.

Lemma go_upper_view_len s : forall u, go_upper_view s = Some u -> len u <= len s.
Proof.
  assert (G : forall n s, (List.length s <= n)%nat -> forall u, go_upper_view s = Some u -> len u <= len s).
  { induction n as [|n IH]; intros s0 Hn u H.
    - destruct s0; [|cbn in Hn; lia]. cbn in H. inversion H. lia.
    - destruct s0 as [|b s']; [cbn in H; inversion H; lia|].
      cbn [go_upper_view] in H. cbn [List.length] in Hn.
      destruct (is_ascii b).
      + destruct (go_upper_view s') as [u'|] eqn:E; [|discriminate]. cbn in H. inversion H; subst.
        rewrite !len_cons. specialize (IH s' ltac:(lia) u' E). lia.
      + destruct s' as [|b2 s'']; [discriminate|]. cbn [List.length] in Hn.
        assert (J : forall c, option_map (cons c) (go_upper_view s'') = Some u -> len u <= len (b :: b2 :: s'')).
        { intros c Hc. destruct (go_upper_view s'') as [u'|] eqn:E; [|discriminate]. cbn in Hc. inversion Hc; subst.
          rewrite !len_cons. specialize (IH s'' ltac:(lia) u' E). lia. }
        destruct (beq b xc5 && beq b2 xbf); [eapply J; exact H|].
        destruct (beq b xc4 && beq b2 xb1); [eapply J; exact H|]. discriminate. }
  intros u. apply (G (List.length s) s). lia.
Qed.

Lemma search_keyword_function_len key :
  search_keyword key = b_sqli_token_type_function -> 2 <= len key.
Proof.
  unfold search_keyword. destruct (go_upper_view key) as [u|] eqn:E; [|discriminate].
  intros H. apply kw_find_function_len in H. apply go_upper_view_len in E. lia.
Qed.

(* ---------- the token specification ---------- *)

(* a token that lies inside [lo, hi) of the input and whose value is exactly the
   input bytes at its recorded offset *)
Definition first_is (v : bytes) (c : byte) : bool :=
  match v with b :: _ => beq b c | [] => false end.

(* class character documented; function names have >= 2 bytes; comments are
   non-empty, and a comment that does not start with '#' (that is: `--...` or
   `/*...`) has >= 2 bytes *)
Definition class_ok (c : byte) (n : Z) (v : bytes) : bool :=
  is_class c
  && (negb (beq c b_sqli_token_type_function) || (2 <=? n))
  && (negb (beq c b_sqli_token_type_comment) || ((1 <=? n) && (first_is v x23 || (2 <=? n)))).

Definition tok_at (inp : bytes) (lo hi : Z) (t : token) : Prop :=
  lo <= t_pos t /\ 0 <= t_len t /\ t_pos t + t_len t <= hi /\ t_len t < c_token_size /\
  t_val t = firstn (Z.to_nat (t_len t)) (skipn (Z.to_nat (t_pos t)) inp) /\
  class_ok (t_cat t) (t_len t) (t_val t) = true.

Lemma class_ok_is_class c n v : class_ok c n v = true -> is_class c = true.
Proof. unfold class_ok. intros H. apply andb_true_iff in H. destruct H as [H _]. apply andb_true_iff in H. tauto. Qed.

Lemma tok_at_class inp lo hi t : tok_at inp lo hi t -> is_class (t_cat t) = true.
Proof. intros (_ & _ & _ & _ & _ & H). eapply class_ok_is_class. exact H. Qed.

Lemma class_ok_plain c n v :
  is_class c = true -> beq c b_sqli_token_type_function = false -> beq c b_sqli_token_type_comment = false ->
  class_ok c n v = true.
Proof. unfold class_ok. intros -> -> ->. reflexivity. Qed.

Lemma tok_at_len inp lo hi t : 0 <= lo -> hi <= len inp -> tok_at inp lo hi t -> len (t_val t) = t_len t.
Proof.
  intros Hlo Hhi (H1 & H2 & H3 & H4 & H5 & H6). rewrite H5, len_firstn, len_skipn. lia.
Qed.

Lemma tok_at_weaken inp lo hi lo' hi' t : lo' <= lo -> hi <= hi' -> tok_at inp lo hi t -> tok_at inp lo' hi' t.
Proof. unfold tok_at. intros. intuition lia. Qed.

Definition lex_pre (s : sqlst) : Prop := 0 <= pos s < slen s.

(* post-condition of a lexer that writes a token *)
Definition lex_post (s : sqlst) (r : sqlst * token * Z) : Prop :=
  let '(s', t, np) := r in
  input s' = input s /\ flags s' = flags s /\
  n_tokens (st s') = n_tokens (st s) /\ n_folds (st s') = n_folds (st s) /\
  pos s < np <= slen s /\
  tok_at (input s) (pos s) np t.

(* post-condition of any dispatched lexer: parseWhite leaves the token alone *)
Definition lex_post_w (s : sqlst) (t0 : token) (r : sqlst * token * Z) : Prop :=
  let '(s', t, np) := r in
  input s' = input s /\ flags s' = flags s /\
  n_tokens (st s') = n_tokens (st s) /\ n_folds (st s') = n_folds (st s) /\
  pos s < np <= slen s /\
  (t = t0 \/ tok_at (input s) (pos s) np t).

Lemma lex_post_weaken s t0 r : lex_post s r -> lex_post_w s t0 r.
Proof. destruct r as [[s' t] np]. unfold lex_post, lex_post_w. intuition. Qed.

(* a lexer run on a state that differs only in statistics / a later position *)
Lemma lex_post_from s s' r :
  input s' = input s -> flags s' = flags s -> pos s <= pos s' ->
  n_tokens (st s') = n_tokens (st s) -> n_folds (st s') = n_folds (st s) ->
  lex_post s' r -> lex_post s r.
Proof.
  destruct r as [[s2 t] np]. unfold lex_post, slen. intros E1 E2 E3 E4 E5 (A & B & C & D & E & F).
  rewrite E1 in *. refine (conj _ (conj _ (conj _ (conj _ (conj _ _))))); try congruence; try lia.
  eapply tok_at_weaken; [| |exact F]; lia.
Qed.

Lemma class_ok_kw c n v :
  kw_class c = true -> (c = b_sqli_token_type_function -> 2 <= n) -> class_ok c n v = true.
Proof.
  unfold kw_class, class_ok. intros H Hf.
  apply andb_true_iff in H. destruct H as [H H3]. apply andb_true_iff in H. destruct H as [H1 H2].
  rewrite H1. apply negb_true_iff in H2. rewrite H2. cbn [negb orb andb].
  destruct (beq c b_sqli_token_type_function) eqn:E; [|reflexivity].
  apply beq_eq in E. specialize (Hf E). cbn [negb orb]. replace (2 <=? n) with true by lia. reflexivity.
Qed.

(* ---------- assign ---------- *)

Lemma assign_ok t ty p length value :
  0 <= length -> Z.min length 31 <= len value ->
  assign t ty p length value =
  Ok (mkTok p (Z.min length 31) (t_count t) ty (t_open t) (t_close t)
            (firstn (Z.to_nat (Z.min length 31)) value)).
Proof.
  intros H1 H2. unfold assign. change c_token_size with 32. change (32 - 1) with 31.
  destruct (length <? 32) eqn:E.
  - replace (Z.min length 31) with length by lia. rewrite take_ok by lia. reflexivity.
  - replace (Z.min length 31) with 31 by lia. rewrite take_ok by lia. reflexivity.
Qed.

Lemma firstn_firstn_min {A} (l : list A) a b : firstn a (firstn b l) = firstn (Nat.min a b) l.
Proof. apply firstn_firstn. Qed.

(* the token written by assign from a suffix of the input *)
Lemma tok_at_assign inp lo hi p length ty cnt o c :
  0 <= lo <= p -> 0 <= length -> p + length <= hi -> hi <= len inp ->
  class_ok ty (Z.min length 31) (firstn (Z.to_nat (Z.min length 31)) (skipn (Z.to_nat p) inp)) = true ->
  tok_at inp lo hi (mkTok p (Z.min length 31) cnt ty o c
                          (firstn (Z.to_nat (Z.min length 31)) (skipn (Z.to_nat p) inp))).
Proof.
  intros H1 H2 H3 H4 H5. unfold tok_at. cbn [t_pos t_len t_val t_cat].
  change c_token_size with 32. splits; try lia; try assumption; reflexivity.
Qed.

Lemma skipn_nth_cons {A} (l : list A) n b : nth_error l n = Some b -> skipn n l = b :: skipn (S n) l.
Proof.
  revert l. induction n as [|n IH]; intros [|x l] H; cbn in *; try discriminate.
  - inversion H; reflexivity.
  - apply IH. exact H.
Qed.

(* a one-byte literal value equals the input byte it was dispatched on *)
Lemma tok_at_assign_lit inp lo hi p ty cnt o c b :
  0 <= lo <= p -> p + 1 <= hi -> hi <= len inp -> class_ok ty 1 [b] = true ->
  nth_error inp (Z.to_nat p) = Some b ->
  tok_at inp lo hi (mkTok p (Z.min 1 31) cnt ty o c (firstn (Z.to_nat (Z.min 1 31)) [b])).
Proof.
  intros H1 H3 H4 H5 N. unfold tok_at. cbn [t_pos t_len t_val t_cat].
  change c_token_size with 32. change (Z.min 1 31) with 1. repeat split; try lia; try assumption.
  rewrite (skipn_nth_cons _ _ _ N). reflexivity.
Qed.

(* ---------- sweeps over the generated dispatch table ---------- *)

Definition dispatch_char_ok (b : byte) : bool :=
  match dispatch b with
  | PHash => beq b x23
  | PDash => beq b x2d
  | PMoney => beq b x24
  | PByte => is_class b && negb (beq b b_sqli_token_type_comment) && negb (beq b b_sqli_token_type_function)
  | PTick => beq b x60
  | PString => beq b x27 || beq b x22
  | PNumber => is_digit b || beq b x2e
  | PWord | PBString | PEString | PNqString | PQString | PUString | PXString => negb (mem b word_accept)
  | _ => true
  end.

Lemma dispatch_char b : dispatch_char_ok b = true.
Proof. apply byte_sweep. vm_compute. reflexivity. Qed.
