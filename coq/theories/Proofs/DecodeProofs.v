(* DecodeProofs: the model of htmlDecodeByteAt / htmlEncodeStartsWith / isBlackURL
   (theories/Xss.v) against the declarative reference of Spec/DecodeSpec.v (C19). *)
From Coq Require Import List ZArith String Bool Lia ZifyBool.
From Coq.Strings Require Import Byte.
From LI Require Import Prelude Base Xss Proofs.BaseFacts Proofs.Wp Proofs.LexBase Spec.DecodeSpec.
From LIGen Require Import Tables Consts.
Import ListNotations.
Local Open Scope Z_scope.

(* ================================================================== *)
(* 1. the generated table gsHexDecodeMap against hex_digit             *)
(* ================================================================== *)

Definition hexv (c : byte) : Z := match hex_digit c with Some d => d | None => 256 end.

Lemma hex_decode_map_length : List.length hex_decode_map = 256%nat.
Proof. vm_compute. reflexivity. Qed.

Definition hex_entry_ok (b : byte) : bool :=
  match nth_error hex_decode_map (Z.to_nat (code b)) with
  | Some v => v =? hexv b
  | None => false
  end.

Lemma hex_table_sweep b : hex_entry_ok b = true.
Proof. apply byte_sweep. vm_compute. reflexivity. Qed.

Lemma hex_val_eq site c : hex_val site c = Ok (hexv c).
Proof.
  pose proof (hex_table_sweep c) as S. unfold hex_entry_ok in S. unfold hex_val.
  destruct (nth_error hex_decode_map (Z.to_nat (code c))); [|discriminate].
  f_equal. lia.
Qed.

Lemma hex_digit_range c d : hex_digit c = Some d -> 0 <= d < 16.
Proof.
  unfold hex_digit. pose proof (code_range c) as R.
  destruct ((48 <=? code c) && (code c <=? 57)) eqn:E1; [intros H; inversion H; lia|].
  destruct ((65 <=? code c) && (code c <=? 70)) eqn:E2; [intros H; inversion H; lia|].
  destruct ((97 <=? code c) && (code c <=? 102)) eqn:E3; [intros H; inversion H; lia|].
  discriminate.
Qed.

Lemma dec_digit_range c d : dec_digit c = Some d -> 0 <= d < 10.
Proof.
  unfold dec_digit.
  destruct ((48 <=? code c) && (code c <=? 57)) eqn:E1; [intros H; inversion H; lia|discriminate].
Qed.

Lemma hex_digit_semi : hex_digit x3b = None.
Proof. reflexivity. Qed.

Lemma dec_digit_semi : dec_digit x3b = None.
Proof. reflexivity. Qed.

(* ================================================================== *)
(* 2. the two accumulation loops are `accum`                           *)
(* ================================================================== *)

Lemma get_app_mid site pre c rest : get site (pre ++ c :: rest) (len pre) = Ok c.
Proof.
  unfold get. pose proof (len_nonneg pre). destruct (0 <=? len pre) eqn:E; [|lia].
  unfold len. rewrite Nat2Z.id. rewrite nth_error_app2 by lia. rewrite Nat.sub_diag. reflexivity.
Qed.

Lemma snoc_app {A} (pre : list A) c rest : pre ++ c :: rest = (pre ++ [c]) ++ rest.
Proof. rewrite <- app_assoc. reflexivity. Qed.

Lemma len_snoc pre (c : byte) : len (pre ++ [c]) = len pre + 1.
Proof. rewrite len_app. reflexivity. Qed.

Lemma dec_loop_eq rest : forall pre fuel val, (List.length rest <= fuel)%nat ->
  decode_dec_loop fuel (pre ++ rest) (len pre) val = Ok (accum dec_digit 10 rest val (len pre)).
Proof.
  induction rest as [|c rest IH]; intros pre fuel val Hf.
  - rewrite app_nil_r. destruct fuel; cbn [decode_dec_loop accum]; rewrite Z.ltb_irrefl; reflexivity.
  - destruct fuel as [|fuel]; [cbn in Hf; lia|]. cbn [decode_dec_loop accum].
    assert (L : len pre <? len (pre ++ c :: rest) = true)
      by (rewrite len_app, len_cons; pose proof (len_nonneg rest); lia).
    rewrite L, get_app_mid. cbn [bind]. destruct (beq c x3b); [reflexivity|].
    unfold dec_digit. destruct ((48 <=? code c) && (code c <=? 57)) eqn:D.
    + replace ((code c <? 48) || (57 <? code c)) with false by lia.
      unfold max_ref. destruct (1048831 <? val * 10 + (code c - 48)); [reflexivity|].
      rewrite snoc_app, <- (len_snoc pre c). apply IH. cbn [List.length] in Hf. lia.
    + replace ((code c <? 48) || (57 <? code c)) with true by lia. reflexivity.
Qed.

Lemma hex_loop_eq rest : forall pre fuel val, (List.length rest <= fuel)%nat ->
  decode_hex_loop fuel (pre ++ rest) (len pre) val = Ok (accum hex_digit 16 rest val (len pre)).
Proof.
  induction rest as [|c rest IH]; intros pre fuel val Hf.
  - rewrite app_nil_r. destruct fuel; cbn [decode_hex_loop accum]; rewrite Z.ltb_irrefl; reflexivity.
  - destruct fuel as [|fuel]; [cbn in Hf; lia|]. cbn [decode_hex_loop accum].
    assert (L : len pre <? len (pre ++ c :: rest) = true)
      by (rewrite len_app, len_cons; pose proof (len_nonneg rest); lia).
    rewrite L, get_app_mid. cbn [bind]. destruct (beq c x3b); [reflexivity|].
    rewrite hex_val_eq. cbn [bind]. unfold hexv.
    destruct (hex_digit c) as [d|] eqn:D.
    + apply hex_digit_range in D. replace (d =? 256) with false by lia.
      unfold max_ref. destruct (1048831 <? val * 16 + d); [reflexivity|].
      rewrite snoc_app, <- (len_snoc pre c). apply IH. cbn [List.length] in Hf. lia.
    + reflexivity.
Qed.

(* ================================================================== *)
(* 3. (b) htmlDecodeByteAt is the reference decoder                    *)
(* ================================================================== *)

Lemma get_0 site a l : get site (a :: l) 0 = Ok a.
Proof. reflexivity. Qed.
Lemma get_1 site a b l : get site (a :: b :: l) 1 = Ok b.
Proof. reflexivity. Qed.
Lemma get_2 site a b c l : get site (a :: b :: c :: l) 2 = Ok c.
Proof. reflexivity. Qed.
Lemma get_3 site a b c d l : get site (a :: b :: c :: d :: l) 3 = Ok d.
Proof. reflexivity. Qed.

Lemma beq_true_code a b : beq a b = true -> code a = code b.
Proof. intros H. apply beq_eq in H. subst. reflexivity. Qed.

Theorem html_decode_byte_at_ref s : html_decode_byte_at s = Ok (decode_ref s).
Proof.
  unfold html_decode_byte_at. cbv zeta.
  destruct s as [|c0 s1]; [reflexivity|].
  assert (N0 : len (c0 :: s1) =? 0 = false) by (rewrite len_cons; pose proof (len_nonneg s1); lia).
  rewrite N0, get_0. cbn [bind decode_ref].
  destruct (beq c0 x26) eqn:B0; cbn [negb orb]; [|reflexivity].
  apply beq_true_code in B0. change (code x26) with 38 in B0.
  destruct s1 as [|c1 s2].
  { replace (len [c0] <? 2) with true by reflexivity. rewrite B0. reflexivity. }
  replace (len (c0 :: c1 :: s2) <? 2) with false
    by (rewrite !len_cons; pose proof (len_nonneg s2); lia).
  rewrite get_1. cbn [bind].
  destruct s2 as [|c2 s3].
  { replace (len [c0; c1] <? 3) with true by reflexivity. rewrite orb_true_r. reflexivity. }
  replace (len (c0 :: c1 :: c2 :: s3) <? 3) with false
    by (rewrite !len_cons; pose proof (len_nonneg s3); lia).
  rewrite orb_false_r. destruct (beq c1 x23) eqn:B1; cbn [negb]; [|reflexivity].
  rewrite get_2. cbn [bind].
  destruct (beq c2 x78 || beq c2 x58) eqn:BX.
  - destruct s3 as [|c3 s4]; [reflexivity|].
    replace (len (c0 :: c1 :: c2 :: c3 :: s4) <? 4) with false
      by (rewrite !len_cons; pose proof (len_nonneg s4); lia).
    rewrite get_3. cbn [bind]. rewrite hex_val_eq. cbn [bind]. unfold hexv.
    destruct (hex_digit c3) as [d|] eqn:D; [|reflexivity].
    apply hex_digit_range in D. replace (d =? 256) with false by lia.
    apply (hex_loop_eq s4 [c0; c1; c2; c3]). cbn [List.length]. lia.
  - unfold dec_digit. destruct ((48 <=? code c2) && (code c2 <=? 57)) eqn:D.
    + replace ((code c2 <? 48) || (57 <? code c2)) with false by lia.
      apply (dec_loop_eq s3 [c0; c1; c2]). cbn [List.length]. lia.
    + replace ((code c2 <? 48) || (57 <? code c2)) with true by lia. reflexivity.
Qed.


(* ================================================================== *)
(* 4. facts about the reference accumulator                            *)
(* ================================================================== *)

Section Accum.
  Variable digit : byte -> option Z.
  Variable base : Z.
  Variable digit_nonneg : forall c d, digit c = Some d -> 0 <= d.
  Variable base_pos : 1 <= base.
  Variable digit_semi : digit x3b = None.

  Lemma step_nonneg val d : 0 <= val -> 0 <= d -> val <= val * base + d.
  Proof. intros. nia. Qed.

  Lemma digit_not_semi c d : digit c = Some d -> beq c x3b = false.
  Proof.
    intros H. destruct (beq c x3b) eqn:E; [|reflexivity].
    apply beq_eq in E. subst c. rewrite digit_semi in H. discriminate.
  Qed.

  Lemma accum_bounds s : forall val n, 0 <= val <= max_ref ->
    accum digit base s val n = amp \/
    (0 <= fst (accum digit base s val n) <= max_ref /\
     n <= snd (accum digit base s val n) <= n + len s).
  Proof.
    induction s as [|c s IH]; intros val n Hv; cbn [accum].
    - right. rewrite len_nil. cbn [fst snd]. lia.
    - rewrite len_cons. pose proof (len_nonneg s) as Ls.
      destruct (beq c x3b); [right; cbn [fst snd]; lia|].
      destruct (digit c) as [d|] eqn:D; [|right; cbn [fst snd]; lia].
      destruct (max_ref <? val * base + d) eqn:O; [left; reflexivity|].
      pose proof (step_nonneg val d (proj1 Hv) (digit_nonneg c d D)) as Sn.
      destruct (IH (val * base + d) (n + 1)) as [E|[E1 E2]]; [lia|left; exact E|right; lia].
  Qed.

  Lemma digits_from_mono ds : forall val v, 0 <= val -> digits_from digit base ds val = Some v -> val <= v.
  Proof.
    induction ds as [|c ds IH]; intros val v Hv; cbn [digits_from].
    - intros H. inversion H. lia.
    - destruct (digit c) as [d|] eqn:D; [|discriminate]. intros H.
      pose proof (step_nonneg val d Hv (digit_nonneg c d D)) as Sn.
      apply IH in H; lia.
  Qed.

  (* a numeral within range is read completely *)
  Lemma accum_numeral ds : forall val v tail n, 0 <= val ->
    digits_from digit base ds val = Some v -> v <= max_ref ->
    accum digit base (ds ++ tail) val n = accum digit base tail v (n + len ds).
  Proof.
    induction ds as [|c ds IH]; intros val v tail n Hv; cbn [digits_from app].
    - intros H _. inversion H. rewrite len_nil, Z.add_0_r. reflexivity.
    - destruct (digit c) as [d|] eqn:D; [|discriminate]. intros H Hm.
      pose proof (step_nonneg val d Hv (digit_nonneg c d D)) as Sn.
      assert (M : val * base + d <= v) by (apply (digits_from_mono ds); [lia|exact H]).
      cbn [accum]. rewrite (digit_not_semi c d D), D.
      replace (max_ref <? val * base + d) with false by lia.
      rewrite (IH _ v tail (n + 1)) by (assumption || lia).
      rewrite len_cons. f_equal. lia.
  Qed.

  (* a numeral beyond max_ref is abandoned, whatever follows *)
  Lemma accum_overflow ds : forall val v tail n, 0 <= val <= max_ref ->
    digits_from digit base ds val = Some v -> max_ref < v ->
    accum digit base (ds ++ tail) val n = amp.
  Proof.
    induction ds as [|c ds IH]; intros val v tail n Hv; cbn [digits_from app].
    - intros H Hm. inversion H. lia.
    - destruct (digit c) as [d|] eqn:D; [|discriminate]. intros H Hm.
      pose proof (step_nonneg val d (proj1 Hv) (digit_nonneg c d D)) as Sn.
      cbn [accum]. rewrite (digit_not_semi c d D), D.
      destruct (max_ref <? val * base + d) eqn:O; [reflexivity|].
      apply (IH _ v); [lia|assumption|assumption].
  Qed.

  Lemma accum_stop v n rest : stops digit (hd_error rest) -> accum digit base rest v n = (v, n).
  Proof.
    destruct rest as [|c rest]; cbn [hd_error stops accum]; [reflexivity|].
    intros [H1 H2]. apply beq_neq in H2. rewrite H2, H1. reflexivity.
  Qed.

  Lemma accum_semi v n rest : accum digit base (x3b :: rest) v n = (v, n + 1).
  Proof. reflexivity. Qed.

  (* the first digit of a numeral, which the decoder reads before its loop *)
  Lemma numeral_first ds v : numeral digit base ds v ->
    exists c d ds', ds = c :: ds' /\ digit c = Some d /\ 0 <= d /\
                    digits_from digit base ds' d = Some v.
  Proof.
    intros [Hne H]. destruct ds as [|c ds']; [contradiction|]. cbn [digits_from] in H.
    destruct (digit c) as [d|] eqn:D; [|discriminate].
    exists c, d, ds'. change (0 * base + d) with d in H. repeat split; try assumption.
    eapply digit_nonneg; eassumption.
  Qed.
End Accum.

Lemma dec_nonneg c d : dec_digit c = Some d -> 0 <= d.
Proof. intros H. apply dec_digit_range in H. lia. Qed.

Lemma hex_nonneg c d : hex_digit c = Some d -> 0 <= d.
Proof. intros H. apply hex_digit_range in H. lia. Qed.

Lemma ten_pos : 1 <= 10. Proof. lia. Qed.
Lemma sixteen_pos : 1 <= 16. Proof. lia. Qed.

(* ================================================================== *)
(* 5. (a) totality and bounds                                          *)
(* ================================================================== *)

Lemma decode_ref_bounds s :
  (s = [] -> decode_ref s = (-1, 0)) /\
  (s <> [] -> 1 <= snd (decode_ref s) <= len s) /\
  -1 <= fst (decode_ref s) <= max_ref.
Proof.
  destruct s as [|c0 s1].
  { split; [reflexivity|]. split; [congruence|]. cbn. unfold max_ref. lia. }
  split; [discriminate|].
  assert (A : forall r, r = amp \/ (0 <= fst r <= max_ref /\ 1 <= snd r <= len (c0 :: s1)) ->
              (c0 :: s1 <> [] -> 1 <= snd r <= len (c0 :: s1)) /\ -1 <= fst r <= max_ref).
  { intros r [->|H]; unfold amp, max_ref in *; cbn [fst snd]; rewrite len_cons in *;
      pose proof (len_nonneg s1); split; try intros _; lia. }
  apply A. clear A. cbn [decode_ref].
  destruct (negb (beq c0 x26)).
  { right. cbn [fst snd]. pose proof (code_range c0). rewrite len_cons. pose proof (len_nonneg s1).
    unfold max_ref. lia. }
  destruct s1 as [|c1 [|c2 s3]]; try (left; reflexivity).
  destruct (negb (beq c1 x23)); [left; reflexivity|].
  destruct (beq c2 x78 || beq c2 x58).
  - destruct s3 as [|c3 s4]; [left; reflexivity|].
    destruct (hex_digit c3) as [d|] eqn:D; [|left; reflexivity].
    apply hex_digit_range in D.
    destruct (accum_bounds hex_digit 16 hex_nonneg sixteen_pos s4 d 4) as [E|[E1 E2]].
    + unfold max_ref. lia.
    + left. exact E.
    + right. rewrite !len_cons. lia.
  - destruct (dec_digit c2) as [d|] eqn:D; [|left; reflexivity].
    apply dec_digit_range in D.
    destruct (accum_bounds dec_digit 10 dec_nonneg ten_pos s3 d 3) as [E|[E1 E2]].
    + unfold max_ref. lia.
    + left. exact E.
    + right. rewrite !len_cons. lia.
Qed.

Theorem html_decode_byte_at_total s :
  exists v c, html_decode_byte_at s = Ok (v, c) /\
              (s = [] -> c = 0 /\ v = -1) /\
              (s <> [] -> 1 <= c <= len s) /\
              -1 <= v <= 1048831.
Proof.
  rewrite html_decode_byte_at_ref. destruct (decode_ref_bounds s) as (A & B & C).
  destruct (decode_ref s) as [v c]. cbn [fst snd] in *. exists v, c.
  split; [reflexivity|]. split; [|split; [exact B|exact C]].
  intros E. specialize (A E). inversion A. split; reflexivity.
Qed.

(* the form used by the loop of htmlEncodeStartsWith *)
Lemma html_decode_byte_at_step s : s <> [] ->
  exists v c, html_decode_byte_at s = Ok (v, c) /\ 1 <= c <= len s /\ 0 <= v <= max_ref.
Proof.
  intros Hs. rewrite html_decode_byte_at_ref. destruct (decode_ref_bounds s) as (_ & B & C).
  specialize (B Hs). destruct (decode_ref s) as [v c] eqn:E. cbn [fst snd] in *.
  exists v, c. split; [reflexivity|]. split; [exact B|]. split; [|lia].
  (* v = -1 only for the empty input *)
  destruct s as [|c0 s1]; [contradiction|].
  assert (A : forall r, r = amp \/ 0 <= fst r -> r = (v, c) -> 0 <= v).
  { intros r [->|H] R; [inversion R; lia|subst r; exact H]. }
  refine (A _ _ E). clear A E. cbn [decode_ref].
  destruct (negb (beq c0 x26)); [right; cbn [fst]; pose proof (code_range c0); lia|].
  destruct s1 as [|c1 [|c2 s3]]; try (left; reflexivity).
  destruct (negb (beq c1 x23)); [left; reflexivity|].
  destruct (beq c2 x78 || beq c2 x58).
  - destruct s3 as [|c3 s4]; [left; reflexivity|].
    destruct (hex_digit c3) as [d|] eqn:D; [|left; reflexivity].
    apply hex_digit_range in D.
    destruct (accum_bounds hex_digit 16 hex_nonneg sixteen_pos s4 d 4) as [E|[E1 E2]];
      [unfold max_ref; lia|left; exact E|right; lia].
  - destruct (dec_digit c2) as [d|] eqn:D; [|left; reflexivity].
    apply dec_digit_range in D.
    destruct (accum_bounds dec_digit 10 dec_nonneg ten_pos s3 d 3) as [E|[E1 E2]];
      [unfold max_ref; lia|left; exact E|right; lia].
Qed.

(* ================================================================== *)
(* 6. (c) every encoding decodes to its value, consuming exactly it    *)
(* ================================================================== *)

Lemma dec_digit_not_x c d : dec_digit c = Some d -> beq c x78 || beq c x58 = false.
Proof.
  unfold dec_digit, beq. change (code x78) with 120. change (code x58) with 88.
  destruct ((48 <=? code c) && (code c <=? 57)) eqn:E; [|discriminate]. intros _. lia.
Qed.

Lemma is_x_true x : x = x78 \/ x = x58 -> beq x x78 || beq x x58 = true.
Proof. intros [->| ->]; reflexivity. Qed.

Lemma decode_ref_dec c d ds tail :
  dec_digit c = Some d ->
  decode_ref (x26 :: x23 :: c :: ds ++ tail) = accum dec_digit 10 (ds ++ tail) d 3.
Proof.
  intros D. cbn [decode_ref]. rewrite !beq_refl. cbn [negb].
  rewrite (dec_digit_not_x c d D), D. reflexivity.
Qed.

Lemma decode_ref_hex x c d ds tail :
  x = x78 \/ x = x58 -> hex_digit c = Some d ->
  decode_ref (x26 :: x23 :: x :: c :: ds ++ tail) = accum hex_digit 16 (ds ++ tail) d 4.
Proof.
  intros X D. cbn [decode_ref]. rewrite !beq_refl. cbn [negb].
  rewrite (is_x_true x X), D. reflexivity.
Qed.

Theorem encodes_decode_ref w v rest :
  Encodes w v (hd_error rest) -> decode_ref (w ++ rest) = (v, len w).
Proof.
  intros H. inversion H; subst; clear H.
  - cbn [app decode_ref]. match goal with H : _ <> x26 |- _ => apply beq_neq in H; rewrite H end.
    reflexivity.
  - destruct (numeral_first dec_digit 10 dec_nonneg ds v H0) as (c & d & ds' & -> & D & Hd & F).
    cbn [app]. rewrite (decode_ref_dec c d ds' rest D).
    rewrite (accum_numeral dec_digit 10 dec_nonneg ten_pos dec_digit_semi ds' d v rest 3 Hd F H1).
    rewrite (accum_stop dec_digit 10 v _ rest H2). rewrite !len_cons. f_equal. lia.
  - destruct (numeral_first dec_digit 10 dec_nonneg ds v H0) as (c & d & ds' & -> & D & Hd & F).
    cbn [app]. rewrite <- app_assoc. rewrite (decode_ref_dec c d ds' _ D).
    rewrite (accum_numeral dec_digit 10 dec_nonneg ten_pos dec_digit_semi ds' d v _ 3 Hd F H1).
    cbn [app]. rewrite accum_semi. rewrite !len_cons, len_app, len_cons, len_nil. f_equal. lia.
  - destruct (numeral_first hex_digit 16 hex_nonneg ds v H1) as (c & d & ds' & -> & D & Hd & F).
    cbn [app]. rewrite (decode_ref_hex x c d ds' rest H0 D).
    rewrite (accum_numeral hex_digit 16 hex_nonneg sixteen_pos hex_digit_semi ds' d v rest 4 Hd F H2).
    rewrite (accum_stop hex_digit 16 v _ rest H3). rewrite !len_cons. f_equal. lia.
  - destruct (numeral_first hex_digit 16 hex_nonneg ds v H1) as (c & d & ds' & -> & D & Hd & F).
    cbn [app]. rewrite <- app_assoc. rewrite (decode_ref_hex x c d ds' _ H0 D).
    rewrite (accum_numeral hex_digit 16 hex_nonneg sixteen_pos hex_digit_semi ds' d v _ 4 Hd F H2).
    cbn [app]. rewrite accum_semi. rewrite !len_cons, len_app, len_cons, len_nil. f_equal. lia.
Qed.

Theorem encodes_decode w v rest :
  Encodes w v (hd_error rest) -> html_decode_byte_at (w ++ rest) = Ok (v, len w).
Proof. intros H. rewrite html_decode_byte_at_ref, (encodes_decode_ref w v rest H). reflexivity. Qed.

(* encodings are non-empty and denote a value within range *)
Lemma numeral_nonneg digit base ds v :
  (forall c d, digit c = Some d -> 0 <= d) -> 1 <= base -> numeral digit base ds v -> 0 <= v.
Proof. intros Hd Hb [_ H]. apply (digits_from_mono digit base Hd Hb ds 0 v); [lia|exact H]. Qed.

Lemma encodes_range w v next : Encodes w v next -> 1 <= len w /\ 0 <= v <= max_ref.
Proof.
  intros H. inversion H; subst; clear H; rewrite ?len_cons;
    try (pose proof (len_nonneg ds)); try (pose proof (len_nonneg (ds ++ [x3b]))).
  - rewrite len_nil. pose proof (code_range b). unfold max_ref. lia.
  - pose proof (numeral_nonneg _ _ _ _ dec_nonneg ten_pos H0). lia.
  - pose proof (numeral_nonneg _ _ _ _ dec_nonneg ten_pos H0). lia.
  - pose proof (numeral_nonneg _ _ _ _ hex_nonneg sixteen_pos H1). lia.
  - pose proof (numeral_nonneg _ _ _ _ hex_nonneg sixteen_pos H1). lia.
Qed.

(* ================================================================== *)
(* 7. (d) the overflow clause                                          *)
(* ================================================================== *)

Theorem decode_overflow_dec ds rest :
  overflows dec_digit 10 ds ->
  html_decode_byte_at (x26 :: x23 :: ds ++ rest) = Ok (38, 1).
Proof.
  intros (v & N & O). rewrite html_decode_byte_at_ref. f_equal.
  destruct (numeral_first dec_digit 10 dec_nonneg ds v N) as (c & d & ds' & -> & D & Hd & F).
  cbn [app]. rewrite (decode_ref_dec c d ds' rest D). apply dec_digit_range in D.
  apply (accum_overflow dec_digit 10 dec_nonneg ten_pos dec_digit_semi ds' d v rest 3); try assumption.
  unfold max_ref. lia.
Qed.

Theorem decode_overflow_hex x ds rest :
  x = x78 \/ x = x58 -> overflows hex_digit 16 ds ->
  html_decode_byte_at (x26 :: x23 :: x :: ds ++ rest) = Ok (38, 1).
Proof.
  intros X (v & N & O). rewrite html_decode_byte_at_ref. f_equal.
  destruct (numeral_first hex_digit 16 hex_nonneg ds v N) as (c & d & ds' & -> & D & Hd & F).
  cbn [app]. rewrite (decode_ref_hex x c d ds' rest X D). apply hex_digit_range in D.
  apply (accum_overflow hex_digit 16 hex_nonneg sixteen_pos hex_digit_semi ds' d v rest 4); try assumption.
  unfold max_ref. lia.
Qed.

(* the decoded value never exceeds 0x1000FF, whatever the input: part of (a) *)

Example overflow_dec_long :
  html_decode_byte_at (bs "&#00000000099999999999999999999999999999999999999999999999999999;alert(1)") = Ok (38, 1).
Proof. vm_compute. reflexivity. Qed.

Example overflow_hex_boundary :
  html_decode_byte_at (bs "&#x1000FF;") = Ok (1048831, 10) /\
  html_decode_byte_at (bs "&#x100100;") = Ok (38, 1) /\
  html_decode_byte_at (bs "&#1048831;") = Ok (1048831, 10) /\
  html_decode_byte_at (bs "&#1048832;") = Ok (38, 1) /\
  html_decode_byte_at (bs "&#xFFFFFFFFFFFFFFFFFFFFFFFFFFFFFFFFFFFFFFFFFFFFFFFF6A;") = Ok (38, 1).
Proof. vm_compute. repeat split. Qed.

(* ================================================================== *)
(* 8. (e) the matcher is total                                         *)
(* ================================================================== *)

Lemma drop_app site w rest : drop site (w ++ rest) (len w) = Ok rest.
Proof.
  rewrite drop_ok by (rewrite len_app; pose proof (len_nonneg w); pose proof (len_nonneg rest); lia).
  unfold len. rewrite Nat2Z.id, skipn_app, skipn_all, Nat.sub_diag. reflexivity.
Qed.

(* each iteration consumes at least one byte, so fuel = remaining length suffices;
   the output extends the accumulator *)
Lemma starts_with_loop_total fuel : forall rest first acc, (List.length rest <= fuel)%nat ->
  exists out, starts_with_loop fuel rest first acc = Ok (rev acc ++ out).
Proof.
  induction fuel as [|fuel IH]; intros rest first acc Hf.
  - destruct rest; [|cbn in Hf; lia]. exists []. rewrite app_nil_r. reflexivity.
  - cbn [starts_with_loop]. destruct rest as [|c0 r0].
    { exists []. rewrite app_nil_r. reflexivity. }
    remember (c0 :: r0) as rest eqn:Er.
    assert (Hne : rest <> []) by (subst rest; discriminate).
    assert (L : 0 <? len rest = true) by (subst rest; rewrite len_cons; pose proof (len_nonneg r0); lia).
    rewrite L. destruct (html_decode_byte_at_step rest Hne) as (v & c & E & Hc & Hv).
    rewrite E. cbn [bind]. rewrite drop_ok by lia. cbn [bind].
    assert (Hl : (List.length (skipn (Z.to_nat c) rest) <= fuel)%nat).
    { rewrite skipn_length. unfold len in Hc. lia. }
    destruct (first && (v <=? 32)); [apply IH; exact Hl|].
    destruct ((v =? 0) || (v =? 10)); [apply IH; exact Hl|].
    match goal with |- context [?b :: acc] =>
      destruct (IH (skipn (Z.to_nat c) rest) false (b :: acc) Hl) as [out Eo]; exists (b :: out) end.
    rewrite Eo. cbn [rev]. rewrite <- app_assoc. reflexivity.
Qed.

Theorem html_encode_starts_with_total a b : exists r, html_encode_starts_with a b = Ok r.
Proof.
  unfold html_encode_starts_with.
  destruct (starts_with_loop_total (S (List.length b)) b true []) as [out E]; [lia|].
  rewrite E. cbn [bind]. eexists. reflexivity.
Qed.

Theorem any_scheme_total urls str : exists r, any_scheme urls str = Ok r.
Proof.
  induction urls as [|u urls IH]; cbn [any_scheme]; [eexists; reflexivity|].
  destruct (html_encode_starts_with_total u str) as [r E]. rewrite E. cbn [bind].
  destruct r; [eexists; reflexivity|exact IH].
Qed.

Theorem is_black_url_total s : exists b, is_black_url s = Ok b.
Proof. apply any_scheme_total. Qed.

(* trim_left_junk is a plain function: it returns a suffix of its argument whose
   first byte, if any, is not junk *)
Lemma trim_left_junk_spec s :
  exists junk, s = junk ++ trim_left_junk s /\ forallb is_junk junk = true /\
               match trim_left_junk s with [] => True | b :: _ => is_junk b = false end.
Proof.
  induction s as [|b s IH]; cbn [trim_left_junk].
  - exists []. repeat split.
  - fold (is_junk b). destruct (is_junk b) eqn:J.
    + destruct IH as (junk & E & F & G). exists (b :: junk). cbn [app forallb].
      rewrite J, F, <- E. repeat split. exact G.
    + exists []. repeat split. exact J.
Qed.

(* ================================================================== *)
(* 9. (f) obfuscated spellings of a scheme are matched                 *)
(* ================================================================== *)

(* Spells, restated over the whole remaining input *)
Inductive Obf : bool -> bytes -> bytes -> Prop :=
| Obf_done first inp :
    Obf first [] inp
| Obf_lead w v scheme rest :
    Encodes w v (hd_error rest) -> 0 <= v <= 32 ->
    Obf true scheme rest -> Obf true scheme (w ++ rest)
| Obf_skip first w v scheme rest :
    Encodes w v (hd_error rest) -> v = 0 \/ v = 10 ->
    Obf first scheme rest -> Obf first scheme (w ++ rest)
| Obf_char first w v c scheme rest :
    Encodes w v (hd_error rest) -> spells_char v c ->
    Obf false scheme rest -> Obf first (c :: scheme) (w ++ rest).

Lemma hd_first_of enc rest : hd_error (enc ++ rest) = first_of enc (hd_error rest).
Proof. destruct enc; reflexivity. Qed.

Lemma spells_obf first scheme enc next :
  Spells first scheme enc next -> forall rest, hd_error rest = next -> Obf first scheme (enc ++ rest).
Proof.
  induction 1 as [first next|w v scheme enc next He Hv _ IH|first w v scheme enc next He Hv _ IH
                 |first w v c scheme enc next He Hc _ IH]; intros rest Hr.
  - apply Obf_done.
  - rewrite <- app_assoc. apply (Obf_lead w v); [rewrite hd_first_of, Hr; exact He|exact Hv|apply IH, Hr].
  - rewrite <- app_assoc. apply (Obf_skip first w v); [rewrite hd_first_of, Hr; exact He|exact Hv|apply IH, Hr].
  - rewrite <- app_assoc. apply (Obf_char first w v); [rewrite hd_first_of, Hr; exact He|exact Hc|apply IH, Hr].
Qed.

Lemma obf_prefix first s1 s2 inp : Obf first (s1 ++ s2) inp -> Obf first s1 inp.
Proof.
  intros H. remember (s1 ++ s2) as s eqn:Es. revert s1 Es.
  induction H as [first inp|w v scheme rest He Hv _ IH|first w v scheme rest He Hv _ IH
                 |first w v c scheme rest He Hc _ IH]; intros s1 Es.
  - destruct s1; [apply Obf_done|discriminate].
  - apply (Obf_lead w v); [exact He|exact Hv|apply IH, Es].
  - apply (Obf_skip first w v); [exact He|exact Hv|apply IH, Es].
  - destruct s1 as [|c1 s1]; [apply Obf_done|]. cbn [app] in Es. inversion Es; subst.
    apply (Obf_char first w v); [exact He|exact Hc|apply IH; reflexivity].
Qed.

(* what the proof needs of a scheme character: printable ASCII, not lower case *)
Definition scheme_char_ok (c : byte) : bool :=
  (32 <? code c) && (code c <? 127) && negb (is_lower c).

Definition lower_code_ok (c : byte) : bool :=
  code (lower_ascii c) =? (if is_upper c then code c + 32 else code c).

Lemma lower_code c : code (lower_ascii c) = if is_upper c then code c + 32 else code c.
Proof.
  assert (S : lower_code_ok c = true) by (revert c; apply byte_sweep; vm_compute; reflexivity).
  unfold lower_code_ok in S. lia.
Qed.

Definition upper_code (v : Z) : Z := if (97 <=? v) && (v <=? 122) then v - 32 else v.

Lemma spells_char_facts v c : scheme_char_ok c = true -> spells_char v c ->
  32 < v < 127 /\ byte_of_Z (upper_code v) = c.
Proof.
  unfold scheme_char_ok, spells_char, upper_code. rewrite lower_code. unfold is_lower, is_upper.
  intros Hc Hv. split.
  - destruct ((65 <=? code c) && (code c <=? 90)) eqn:U; lia.
  - transitivity (byte_of_Z (code c)); [f_equal|apply byte_of_Z_code].
    destruct ((65 <=? code c) && (code c <=? 90)) eqn:U;
      destruct ((97 <=? v) && (v <=? 122)) eqn:L; lia.
Qed.

(* one iteration of the loop of htmlEncodeStartsWith on an encoded piece *)
Lemma loop_step fuel w v rest first acc : Encodes w v (hd_error rest) ->
  starts_with_loop (S fuel) (w ++ rest) first acc =
  if first && (v <=? 32) then starts_with_loop fuel rest true acc
  else if (v =? 0) || (v =? 10) then starts_with_loop fuel rest false acc
  else starts_with_loop fuel rest false (byte_of_Z (upper_code v) :: acc).
Proof.
  intros He. cbn [starts_with_loop]. pose proof (encodes_range _ _ _ He) as [Hw _].
  replace (0 <? len (w ++ rest)) with true by (rewrite len_app; pose proof (len_nonneg rest); lia).
  rewrite (encodes_decode w v rest He). cbn [bind]. rewrite drop_app. cbn [bind]. reflexivity.
Qed.

Lemma piece_fuel w v nxt rest fuel : Encodes w v nxt -> (List.length (w ++ rest) <= fuel)%nat ->
  exists fuel', fuel = S fuel' /\ (List.length rest <= fuel')%nat.
Proof.
  intros He Hf. pose proof (encodes_range _ _ _ He) as [Hw _]. rewrite app_length in Hf.
  unfold len in Hw. destruct fuel as [|fuel']; [lia|]. exists fuel'. split; [reflexivity|lia].
Qed.

Lemma loop_obf first scheme inp : Obf first scheme inp -> forallb scheme_char_ok scheme = true ->
  forall fuel acc, (List.length inp <= fuel)%nat ->
  exists out, starts_with_loop fuel inp first acc = Ok (rev acc ++ scheme ++ out).
Proof.
  induction 1 as [first inp|w v scheme rest He Hv _ IH|first w v scheme rest He Hv _ IH
                 |first w v c scheme rest He Hc _ IH]; intros Hs fuel acc Hf.
  - apply starts_with_loop_total. exact Hf.
  - destruct (piece_fuel _ _ _ _ _ He Hf) as (fuel' & -> & Hf'). rewrite (loop_step _ _ _ _ _ _ He).
    replace (true && (v <=? 32)) with true by lia. apply IH; assumption.
  - destruct (piece_fuel _ _ _ _ _ He Hf) as (fuel' & -> & Hf'). rewrite (loop_step _ _ _ _ _ _ He).
    destruct first.
    + replace (true && (v <=? 32)) with true by lia. apply IH; assumption.
    + cbn [andb]. replace ((v =? 0) || (v =? 10)) with true by lia. apply IH; assumption.
  - destruct (piece_fuel _ _ _ _ _ He Hf) as (fuel' & -> & Hf'). rewrite (loop_step _ _ _ _ _ _ He).
    cbn [forallb] in Hs. apply andb_true_iff in Hs. destruct Hs as [Hc1 Hs].
    destruct (spells_char_facts v c Hc1 Hc) as [Hr Hb].
    replace (first && (v <=? 32)) with false by lia.
    replace ((v =? 0) || (v =? 10)) with false by lia.
    rewrite Hb. destruct (IH Hs fuel' (c :: acc) Hf') as [out E]. exists out. rewrite E.
    cbn [rev]. rewrite <- app_assoc. reflexivity.
Qed.

Lemma has_prefix_app p out : has_prefix (p ++ out) p = true.
Proof. induction p as [|x p IH]; cbn [app has_prefix]; [destruct out; reflexivity|]. rewrite beq_refl, IH. reflexivity. Qed.

Lemma contains_prefix p out : contains (p ++ out) p = true.
Proof.
  unfold contains. pose proof (has_prefix_app p out) as H.
  destruct (p ++ out); cbn [index]; rewrite H; reflexivity.
Qed.

Lemma starts_with_obf scheme inp : Obf true scheme inp -> forallb scheme_char_ok scheme = true ->
  html_encode_starts_with scheme inp = Ok true.
Proof.
  intros H Hs. unfold html_encode_starts_with.
  destruct (loop_obf true scheme inp H Hs (S (List.length inp)) []) as [out E]; [lia|].
  rewrite E. cbn [bind rev app]. rewrite contains_prefix. reflexivity.
Qed.

(* ---------- the junk prefix ---------- *)

Lemma trim_junk_app junk s : forallb is_junk junk = true -> trim_left_junk (junk ++ s) = trim_left_junk s.
Proof.
  induction junk as [|b junk IH]; cbn [forallb app trim_left_junk]; [reflexivity|].
  intros H. apply andb_true_iff in H. destruct H as [Hb Hj]. unfold is_junk in Hb. rewrite Hb. apply IH, Hj.
Qed.

Lemma trim_amp l : trim_left_junk (x26 :: l) = x26 :: l.
Proof. reflexivity. Qed.

(* the trim either leaves an encoded piece alone or removes it entirely, the
   latter only for a literal junk byte *)
Lemma trim_piece w v nxt rest : Encodes w v nxt ->
  trim_left_junk (w ++ rest) = w ++ rest \/
  ((v <= 32 \/ 127 <= v) /\ trim_left_junk (w ++ rest) = trim_left_junk rest).
Proof.
  intros H. inversion H; subst; clear H; try (left; apply trim_amp).
  cbn [app trim_left_junk]. destruct ((code b <=? 32) || (127 <=? code b)) eqn:J.
  - right. split; [lia|reflexivity].
  - left. reflexivity.
Qed.

Lemma obf_trim first scheme inp : Obf first scheme inp -> first = true ->
  forallb scheme_char_ok scheme = true -> Obf true scheme (trim_left_junk inp).
Proof.
  induction 1 as [first inp|w v scheme rest He Hv Hrest IH|first w v scheme rest He Hv Hrest IH
                 |first w v c scheme rest He Hc Hrest _]; intros Hf Hs.
  - apply Obf_done.
  - destruct (trim_piece w v _ rest He) as [E|[_ E]]; rewrite E.
    + apply (Obf_lead w v); assumption.
    + apply IH; assumption.
  - subst first. destruct (trim_piece w v _ rest He) as [E|[_ E]]; rewrite E.
    + apply (Obf_skip true w v); assumption.
    + apply IH; [reflexivity|assumption].
  - cbn [forallb] in Hs. apply andb_true_iff in Hs. destruct Hs as [Hc1 Hs].
    destruct (spells_char_facts v c Hc1 Hc) as [Hr _].
    destruct (trim_piece w v _ rest He) as [E|[E _]]; [|lia]. rewrite E.
    apply (Obf_char true w v); assumption.
Qed.

(* ---------- the list of schemes ---------- *)

Lemma any_scheme_hit urls str scheme :
  In scheme urls -> html_encode_starts_with scheme str = Ok true -> any_scheme urls str = Ok true.
Proof.
  induction urls as [|u urls IH]; intros Hi Hh; [contradiction|]. cbn [any_scheme].
  destruct (html_encode_starts_with_total u str) as [r E]. rewrite E. cbn [bind].
  destruct r; [reflexivity|]. destruct Hi as [->|Hi]; [congruence|]. apply IH; assumption.
Qed.

Lemma url_schemes_ok scheme : In scheme url_schemes -> forallb scheme_char_ok scheme = true.
Proof.
  assert (S : forallb (forallb scheme_char_ok) url_schemes = true) by (vm_compute; reflexivity).
  rewrite forallb_forall in S. apply S.
Qed.

Theorem is_black_url_obf scheme junk inp :
  In scheme url_schemes -> forallb is_junk junk = true -> Obf true scheme inp ->
  is_black_url (junk ++ inp) = Ok true.
Proof.
  intros Hi Hj Ho. unfold is_black_url. rewrite (trim_junk_app junk inp Hj).
  apply (any_scheme_hit _ _ scheme Hi). pose proof (url_schemes_ok scheme Hi) as Hs.
  apply starts_with_obf; [|exact Hs]. apply (obf_trim true); [exact Ho|reflexivity|exact Hs].
Qed.

(* (f) for the prefixes the implementation looks for *)
Theorem is_black_url_spells scheme junk enc rest :
  In scheme url_schemes -> forallb is_junk junk = true ->
  Spells true scheme enc (hd_error rest) ->
  is_black_url (junk ++ enc ++ rest) = Ok true.
Proof.
  intros Hi Hj Hs. apply (is_black_url_obf scheme); [exact Hi|exact Hj|].
  apply (spells_obf true scheme enc (hd_error rest) Hs). reflexivity.
Qed.

(* every scheme name of the property starts with one of the prefixes looked for *)
Lemma dangerous_has_scheme name : In name dangerous_schemes ->
  exists scheme suffix, In scheme url_schemes /\ name = scheme ++ suffix.
Proof.
  intros H. cbn [dangerous_schemes In] in H. destruct H as [<-|[<-|[<-|[<-|[]]]]].
  - exists (bs "JAVA"), (bs "SCRIPT:"). split; [vm_compute; tauto|reflexivity].
  - exists (bs "VBSCRIPT"), (bs ":"). split; [vm_compute; tauto|reflexivity].
  - exists (bs "DATA"), (bs ":"). split; [vm_compute; tauto|reflexivity].
  - exists (bs "VIEW-SOURCE"), (bs ":"). split; [vm_compute; tauto|reflexivity].
Qed.

(* (f) for the scheme names of the property *)
Theorem is_black_url_dangerous name junk enc rest :
  In name dangerous_schemes -> forallb is_junk junk = true ->
  Spells true name enc (hd_error rest) ->
  is_black_url (junk ++ enc ++ rest) = Ok true.
Proof.
  intros Hn Hj Hs. destruct (dangerous_has_scheme name Hn) as (scheme & suffix & Hi & ->).
  apply (is_black_url_obf scheme); [exact Hi|exact Hj|].
  apply (obf_prefix true scheme suffix). apply (spells_obf true _ enc (hd_error rest) Hs). reflexivity.
Qed.


(* the simplest instance: the name written out literally, in any mix of cases *)
Definition plain_char_ok (c : byte) : bool := negb (beq c x26) && negb (beq (lower_ascii c) x26).

Lemma spells_plain text scheme : same_text_nocase text scheme ->
  forallb plain_char_ok scheme = true -> forall first next, Spells first scheme text next.
Proof.
  induction 1 as [|t c text scheme Hc _ IH]; intros Hs first next; [apply Sp_done|].
  cbn [forallb] in Hs. apply andb_true_iff in Hs. destruct Hs as [Hp Hs].
  change (t :: text) with ([t] ++ text). apply (Sp_char first [t] (code t) c).
  - apply Enc_literal. intros ->. unfold plain_char_ok in Hp.
    apply andb_true_iff in Hp. destruct Hp as [P1 P2].
    apply negb_true_iff in P1. apply negb_true_iff in P2. apply beq_neq in P1. apply beq_neq in P2.
    destruct Hc as [Hc|Hc]; apply code_inj in Hc; congruence.
  - exact Hc.
  - apply IH. exact Hs.
Qed.

Lemma dangerous_plain_ok name : In name dangerous_schemes -> forallb plain_char_ok name = true.
Proof.
  assert (S : forallb (forallb plain_char_ok) dangerous_schemes = true) by (vm_compute; reflexivity).
  rewrite forallb_forall in S. apply S.
Qed.

Theorem is_black_url_plain name junk text rest :
  In name dangerous_schemes -> forallb is_junk junk = true ->
  same_text_nocase text name ->
  is_black_url (junk ++ text ++ rest) = Ok true.
Proof.
  intros Hn Hj Ht. apply (is_black_url_dangerous name); [exact Hn|exact Hj|].
  apply spells_plain; [exact Ht|apply dangerous_plain_ok, Hn].
Qed.

(* ================================================================== *)
(* 10. the verdict of isXSS's loop body on a URL-bearing attribute     *)
(* ================================================================== *)

Theorem classify_url_value h start v :
  Html5.tok_type h = c_html5_type_attr_value ->
  drop "isXSS:tokenStart" (Html5.hs h) (Html5.tok_off h) = Ok start ->
  take "isXSS:tokenStart[:tokenLen]" start (Html5.tok_len h) = Ok v ->
  is_black_url v = Ok true ->
  classify h c_attribute_type_attr_url = Ok (Some true, c_attribute_type_attr_url).
Proof.
  intros Ht Hd Hk Hb. unfold classify. rewrite Ht, Hd. cbn [bind].
  cbv [c_html5_type_attr_value c_html5_type_doc_type c_html5_type_tag_name_open
       c_html5_type_attr_name c_attribute_type_none c_attribute_type_black
       c_attribute_type_attr_url Z.eqb Pos.eqb negb].
  rewrite Hk. cbn [bind]. rewrite Hb. reflexivity.
Qed.

