(* ShapeDecimal: digits "." digits is one number token; IsSQLi answers (false, ""). *)
From Coq Require Import List ZArith String Bool Lia ZifyBool.
From Coq.Strings Require Import Byte.
From LI Require Import Prelude Base SqliLex SqliFold Proofs.BaseFacts
  Spec.BenignSpec Proofs.BenignLex Spec.RefSqlLex Spec.RefSqlFold Spec.ShapeSpec
  Proofs.ShapeRules Proofs.ShapeCheck Proofs.ShapeLex.
From LIGen Require Import Consts.
Import ListNotations.
Local Open Scope Z_scope.

(* the token stream: one number *)
Lemma decimal_stream a b :
  benign_number a = true -> benign_number b = true ->
  RemS [cNum] (sqli_init (a ++ x2e :: b) fl_none_ansi).
Proof.
  intros Ha Hb. set (inp := a ++ x2e :: b).
  destruct (ref_lex_decimal fl_none_ansi a b Ha Hb) as (d0 & r & Er & Dw & Lx). fold inp in Er, Lx.
  pose proof (sst_init inp) as S0. 
  assert (S0' : sst (sqli_init inp fl_none_ansi) ([] ++ d0 :: r) (len [])) by (cbn [app]; rewrite <- Er; exact S0).
  destruct (scan_tok _ [] d0 r S0' Dw) as (s' & Sc & S'); try (rewrite Lx; reflexivity).
  rewrite Lx in Sc, S'. cbn [app lx_adv RefSqlLex.plain] in S'. rewrite <- Er in Sc, S'.
  cbn [RemS]. split; [apply S0|]. eexists. exists s'. split; [exact Sc|]. split; [apply gtok_decimal; assumption|].
  split; [reflexivity|]. split; [apply S'|]. apply (scan_end s' inp).
  - change (len []) with 0 in S'. rewrite Z.add_0_l in S'. exact S'.
  - rewrite Er. discriminate.
Qed.

Theorem decimal_not_sqli s : Decimal s -> is_sqli s = Ok (false, []).
Proof.
  intros (a & b & Ha & Hb & ->).
  assert (Sb : forallb sbyte (a ++ x2e :: b) = true).
  { pose proof (benign_number_inv a Ha) as [_ Da]. pose proof (benign_number_inv b Hb) as [_ Db].
    rewrite forallb_app. cbn [forallb]. rewrite !digits_sbyte by assumption. reflexivity. }
  destruct (no_quote _ Sb) as [Q1 Q2].
  apply (shape_not_sqli _ cNum []); try assumption; try reflexivity.
  - apply decimal_stream; assumption.
  - cbn [List.length]. lia.
Qed.
