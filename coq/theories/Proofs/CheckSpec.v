(* CheckSpec: sqliFingerprint, blacklist, notWhitelist, check and IsSQLi never
   fail: C01 for the whole pipeline. *)
From Coq Require Import List ZArith String Bool Lia ZifyBool.
From Coq.Strings Require Import Byte.
From Coq.FSets Require Import FMapPositive.
From LI Require Import Prelude Base SqliLex SqliFold Proofs.BaseFacts Proofs.Wp Proofs.LexBase Proofs.LexSpec
  Proofs.FoldBase Proofs.FoldSpec Proofs.FoldLoop.
From LIGen Require Import Tables Dispatch Consts.
Import ListNotations.
Local Open Scope Z_scope.

(* what the fingerprint step guarantees about every token it hands on *)
Definition ftok (t : token) : Prop := len (t_val t) = t_len t /\ 0 <= t_len t /\ is_class (t_cat t) = true.

Lemma wtok_ftok hi t : wtok hi t -> ftok t.
Proof. intros (A & B & C & _). unfold ftok. splits; try assumption; lia. Qed.

Lemma fwin_ok_ftok inp w : fwin_ok inp w -> Forall ftok w.
Proof.
  intros [H|(w0 & c & -> & Hc & T & H)].
  - eapply Forall_impl; [|exact H]. intros t. apply wtok_ftok.
  - apply Forall_app. split.
    + eapply Forall_impl; [|exact H]. intros t. apply wtok_ftok.
    + constructor; [|constructor]. unfold ftok. pose proof (len_nonneg inp).
      splits; [eapply tok_at_len; [| |exact T]; lia|destruct T as (_ & T & _); exact T|eapply tok_at_class; exact T].
Qed.

Definition fp_ok (inp : bytes) (r : bytes * list token * sqlst) : Prop :=
  let '(fp, w, s2) := r in
  input s2 = inp /\ st_wf s2 /\
  (fp = [b_sqli_token_type_evil] \/ (fp = map t_cat w /\ Forall ftok w /\ (wlen w = 2 -> fwin_ok inp w))).

Lemma fp_loop_spec : forall w acc,
  match fp_loop w acc with
  | Some fp => fp = rev acc ++ map t_cat w
  | None => exists t, In t w
  end.
Proof.
  induction w as [|t w IH]; intros acc; cbn [fp_loop map].
  - rewrite app_nil_r. reflexivity.
  - destruct (cat_is t b_sqli_token_type_evil); [exists t; left; reflexivity|].
    specialize (IH (t_cat t :: acc)). destruct (fp_loop w (t_cat t :: acc)).
    + rewrite IH. cbn [rev]. rewrite <- app_assoc. reflexivity.
    + destruct IH as [x Hx]. exists x. right. exact Hx.
Qed.

Lemma Forall_nth {A} (P : A -> Prop) l i x : Forall P l -> nth_error l i = Some x -> P x.
Proof. intros H N. rewrite Forall_forall in H. apply H. eapply nth_error_In; exact N. Qed.

Lemma sqli_fingerprint_spec s fl :
  wp (sqli_fingerprint s fl) (fp_ok (input s)).
Proof.
  unfold sqli_fingerprint, reset. set (s0 := sqli_init (input s) fl).
  assert (E0 : input s0 = input s) by reflexivity.
  assert (W0 : st_wf s0).
  { unfold st_wf, s0, sqli_init, slen. cbn [pos input]. pose proof (len_nonneg (input s)). lia. }
  apply wp_bind. eapply wp_conseq; [apply (fold_spec (input s) (flags s0)); [exact E0|reflexivity|exact W0]|].
  intros [w s1] (A & B & C & D & E).
  pose proof (fwin_ok_ftok _ _ E) as Fw.
  apply wp_bind.
  apply (wp_conseq _ (fun w' => Forall ftok w' /\ wlen w' = wlen w /\ (wlen w <= 2 -> w' = w))).
  { destruct (2 <? wlen w) eqn:E2; [|apply wp_Ok; splits; auto].
    apply wp_bind. eapply wp_wget; [exact Fw|lia|]. intros lt Hlt Nlt.
    destruct (_ && _ && _ && _).
    - apply (wp_wset (fun _ => True)); [lia|]. splits.
      + apply Forall_replace_nth; [exact Fw|]. destruct Hlt as (H1 & H2 & H3). unfold ftok, set_cat.
        cbn [t_val t_len t_cat]. splits; try assumption. reflexivity.
      + apply wlen_replace_nth.
      + lia.
    - apply wp_Ok. splits; auto. }
  intros w' (Fw' & Lw' & Ew').
  pose proof (fp_loop_spec w' []) as FL.
  destruct (fp_loop w' []) as [fp|].
  - apply wp_Ok. unfold fp_ok. splits; try assumption. right. cbn [rev app] in FL. splits; [exact FL|exact Fw'|].
    intros H2. rewrite Ew' by lia. exact E.
  - destruct FL as [t Ht].
    assert (1 <= wlen w') by (unfold wlen; destruct w'; [destruct Ht|cbn [List.length]; lia]).
    apply wp_bind. eapply wp_wget; [exact Fw'|lia|]. intros t0 H0 N0.
    apply wp_bind. apply (wp_wset (fun _ => True)); [lia|]. apply wp_Ok.
    unfold fp_ok. splits; try assumption. left. reflexivity.
Qed.

(* ---------- blacklist: shape of a blacklisted 2-character fingerprint ---------- *)

Lemma go_upper_view_ascii s : forallb is_ascii s = true -> go_upper_view s = Some (map upper_ascii s).
Proof.
  induction s as [|b s IH]; cbn [forallb go_upper_view map]; [reflexivity|].
  intros H. apply andb_true_iff in H. destruct H as [H1 H2]. rewrite H1, (IH H2). reflexivity.
Qed.

Lemma class_byte_facts b :
  is_class b = true ->
  is_ascii b = true /\ is_ascii (upper_ascii b) = true /\
  (upper_ascii (upper_ascii b) = x55 \/ upper_ascii (upper_ascii b) = x43 ->
   b = b_sqli_token_type_union \/ b = cC).
Proof.
  assert (S : forallb (fun b => negb (is_class b)
                       || (is_ascii b && is_ascii (upper_ascii b)
                           && (negb (beq (upper_ascii (upper_ascii b)) x55 || beq (upper_ascii (upper_ascii b)) x43)
                               || beq b b_sqli_token_type_union || beq b cC))) all_bytes = true)
    by (vm_compute; reflexivity).
  intros H. pose proof (byte_sweep _ S b) as K. cbv beta in K. rewrite H in K. cbn [negb orb] in K.
  apply andb_true_iff in K. destruct K as [K K3]. apply andb_true_iff in K. destruct K as [K1 K2].
  splits; try assumption. intros [E|E]; rewrite E in K3; cbn in K3.
  - apply orb_true_iff in K3. destruct K3 as [K3|K3]; apply beq_eq in K3; auto.
  - apply orb_true_iff in K3. destruct K3 as [K3|K3]; apply beq_eq in K3; auto.
Qed.

Lemma blacklist_upper_map fp :
  map (fun ch => if (97 <=? code ch) && (code ch <=? 122) then byte_of_Z (code ch - 32) else ch) fp
  = map upper_ascii fp.
Proof. apply map_ext. intros b. reflexivity. Qed.

Lemma kw_find_two_char_fp key :
  kw_find sql_kwmap key = b_sqli_token_type_fingerprint -> len key = 3 ->
  exists a b c, key = [a; b; c] /\ (c = x55 \/ c = x43).
Proof.
  assert (S : forallb (fun e => let k := fst (snd e) in let v := snd (snd e) in
                        negb (beq v b_sqli_token_type_fingerprint && (len k =? 3))
                        || match k with [_; _; c] => beq c x55 || beq c x43 | _ => false end)
                      (PositiveMap.elements sql_kwmap) = true) by (vm_compute; reflexivity).
  unfold kw_find. destruct (PositiveMap.find (encode key) sql_kwmap) as [[k v]|] eqn:F; [|discriminate].
  destruct (bytes_eqb k key) eqn:E; [|discriminate]. intros -> L.
  apply bytes_eqb_eq in E. subst k.
  apply PositiveMap.elements_correct in F. rewrite forallb_forall in S. specialize (S _ F). cbn [fst snd] in S.
  rewrite beq_refl in S. replace (len key =? 3) with true in S by lia. cbn [andb negb orb] in S.
  destruct key as [|a [|b [|c [|d r]]]]; try discriminate.
  exists a, b, c. split; [reflexivity|]. apply orb_true_iff in S. destruct S as [S|S]; apply beq_eq in S; auto.
Qed.

Lemma blacklist_two_shape f0 f1 :
  is_class f0 = true -> is_class f1 = true -> blacklist [f0; f1] = true ->
  f1 = b_sqli_token_type_union \/ f1 = cC.
Proof.
  intros C0 C1 B. unfold blacklist in B. change (len [f0; f1] <? 1) with false in B. cbv iota in B.
  rewrite blacklist_upper_map in B. cbn [map] in B.
  destruct (class_byte_facts f0 C0) as (A0 & U0 & _). destruct (class_byte_facts f1 C1) as (A1 & U1 & K1).
  unfold search_keyword in B.
  rewrite go_upper_view_ascii in B by (cbn [forallb]; rewrite U0, U1; reflexivity).
  cbn [map] in B. apply beq_eq in B.
  destruct (kw_find_two_char_fp _ B eq_refl) as (a & b & c & E & Hc).
  inversion E; subst. apply K1. exact Hc.
Qed.

(* ---------- notWhitelist ---------- *)

Lemma wlen_map_cat w : len (map t_cat w) = wlen w.
Proof. unfold len, wlen. rewrite map_length. reflexivity. Qed.

Lemma nth_error_map_cat w i t : nth_error w i = Some t -> nth_error (map t_cat w) i = Some (t_cat t).
Proof. intros H. rewrite nth_error_map, H. reflexivity. Qed.

Ltac ifs := repeat match goal with |- wp (if ?c then _ else _) _ => destruct c eqn:? end.

Lemma not_whitelist_total s fp w :
  (fp = [b_sqli_token_type_evil] \/
   (fp = map t_cat w /\ Forall ftok w /\ (wlen w = 2 -> fwin_ok (input s) w))) ->
  blacklist fp = true ->
  wp (not_whitelist s fp w) (fun _ => True).
Proof.
  intros [->|(-> & Fw & F2)] B.
  { vm_compute. exact I. }
  set (inp := input s) in *.
  unfold not_whitelist. rewrite wlen_map_cat.
  pose proof (wlen_nonneg w) as Hn.
  (* the early sp_password test *)
  apply wp_bind. apply (wp_conseq _ (fun _ => True)).
  { destruct (1 <? wlen w) eqn:E1; [|exact I]. apply wp_bind. apply wp_get; [rewrite wlen_map_cat; lia|].
    intros; exact I. }
  intros early _. destruct early; [exact I|].
  destruct (wlen w =? 2) eqn:E2.
  - (* two tokens *)
    apply Z.eqb_eq in E2.
    destruct w as [|t0 [|t1 [|t2 w]]]; try (unfold wlen in E2; cbn [List.length] in E2; lia).
    inversion Fw as [|? ? H0 Fw1]; subst. inversion Fw1 as [|? ? H1 _]; subst.
    cbn [map]. apply wp_bind. apply wp_get; [unfold len; cbn; lia|]. intros f1 Nf1.
    cbn in Nf1. inversion Nf1; subst f1. clear Nf1.
    destruct (beq (t_cat t1) b_sqli_token_type_union) eqn:EU; [exact I|].
    apply beq_neq in EU.
    destruct (blacklist_two_shape (t_cat t0) (t_cat t1) (proj2 (proj2 H0)) (proj2 (proj2 H1)) B) as [X|X];
      [contradiction|].
    (* the second token is the scanner's last comment *)
    destruct (F2 E2) as [Fa|(w0 & c & Ew & Hc & Tc & Fw0)].
    { exfalso. inversion Fa as [|? ? _ Fa1]; subst. inversion Fa1 as [|? ? G _]; subst.
      destruct G as (_ & _ & _ & G & _). contradiction. }
    assert (w0 = [t0] /\ c = t1) as [-> ->].
    { destruct w0 as [|a [|b r]]; cbn in Ew; inversion Ew; subst; auto.
      destruct r; discriminate. }
    inversion Fw0 as [|? ? G0 _]; subst.
    pose proof (len_nonneg inp) as Hli.
    pose proof (tok_at_len _ _ _ _ (Z.le_refl 0) (Z.le_refl _) Tc) as L1.
    destruct Tc as (P1 & P2 & P3 & P4 & P5 & P6).
    assert (CO : 1 <= t_len t1 /\ (first_is (t_val t1) x23 = false -> 2 <= t_len t1)).
    { unfold class_ok in P6. rewrite Hc in P6. rewrite beq_refl in P6.
      apply andb_true_iff in P6. destruct P6 as [_ P6]. cbn [negb orb] in P6.
      apply andb_true_iff in P6. destruct P6 as [Q1 Q2]. split; [lia|]. intros Hf. rewrite Hf in Q2. cbn in Q2. lia. }
    destruct CO as [CO1 CO2].
    apply wp_bind. cbn [wget]. change (0 <=? 1) with true. cbv iota. cbn [Z.to_nat Pos.to_nat Pos.iter_op Nat.add nth_error].
    apply wp_Ok. apply wp_bind. apply wp_get; [lia|]. intros v0 Nv0.
    destruct (beq v0 x23) eqn:Ehash; [exact I|].
    apply wp_bind. cbn [wget]. change (0 <=? 0) with true. cbv iota. cbn [Z.to_nat nth_error]. apply wp_Ok.
    ifs; try exact I.
    (* number followed by a dash comment, at most two tokens: the raw input is inspected *)
    assert (Hnohash : first_is (t_val t1) x23 = false).
    { destruct (t_val t1) as [|x r]; [discriminate|]. cbn in Nv0. inversion Nv0; subst x. cbn [first_is]. exact Ehash. }
    specialize (CO2 Hnohash).
    assert (Hnum : t_cat t0 = cN).
    { match goal with H : cat_is t0 cN && _ = true |- _ => apply andb_true_iff in H; destruct H as [H _]; apply cat_is_eq in H; exact H end. }
    destruct G0 as (_ & _ & _ & _ & _ & G0). destruct (G0 (or_introl Hnum)) as [Q1 Q2].
    destruct H0 as (_ & Z0 & _).
    apply wp_bind. apply wp_get; [fold inp; lia|]. intros ch Nch.
    destruct ((code ch <=? 32) || is_byte_white ch); [exact I|].
    apply wp_bind. apply (wp_conseq _ (fun _ => True)).
    { destruct (beq ch x2f); [|exact I]. apply wp_bind. apply wp_get; [fold inp; lia|]. intros; exact I. }
    intros sl _. destruct sl; [exact I|].
    apply wp_bind. apply (wp_conseq _ (fun _ => True)).
    { destruct (beq ch x2d); [|exact I]. apply wp_bind. apply wp_get; [fold inp; lia|]. intros; exact I. }
    intros; exact I.
  - (* three tokens, or any other length *)
    destruct (wlen w =? 3) eqn:E3; [|exact I].
    apply Z.eqb_eq in E3.
    destruct w as [|t0 [|t1 [|t2 [|t3 w]]]]; try (unfold wlen in E3; cbn [List.length] in E3; lia).
    inversion Fw as [|? ? H0 Fw1]; subst. inversion Fw1 as [|? ? H1 Fw2]; subst.
    cbn [map wget]. change (0 <=? 0) with true. change (0 <=? 1) with true. change (0 <=? 2) with true. cbv iota.
    cbn [Z.to_nat Pos.to_nat Pos.iter_op Nat.add nth_error bind].
    destruct (_ || _); [exact I|].
    destruct (_ && _); [exact I|]. cbn [bind].
    apply wp_bind. eapply wp_wget; [exact Fw|rewrite E3; lia|]. intros a Ha _.
    apply wp_bind. apply (wp_conseq _ (fun _ => True)); [|intros; exact I].
    destruct (cat_is a b_sqli_token_type_keyword); [|exact I].
    destruct (t_len a <? 5) eqn:E5; [exact I|].
    apply wp_bind. apply wp_take; [destruct Ha as (L & _); lia|]. exact I.
Qed.

(* ---------- check and IsSQLi ---------- *)

Lemma check_fingerprint_total s fp w :
  (fp = [b_sqli_token_type_evil] \/
   (fp = map t_cat w /\ Forall ftok w /\ (wlen w = 2 -> fwin_ok (input s) w))) ->
  wp (check_fingerprint s fp w) (fun _ => True).
Proof.
  intros H. unfold check_fingerprint. destruct (blacklist fp) eqn:B; [|exact I].
  apply not_whitelist_total; assumption.
Qed.

(* one pass of the cascade, followed by any total continuation *)
Lemma try_total (s : sqlst) (fl : Z) (k : sqlst -> res (bool * bytes)) :
  (forall s2, input s2 = input s -> wp (k s2) (fun _ => True)) ->
  wp ('(fp, w, s2) <- sqli_fingerprint s fl ;;
      v <- check_fingerprint s2 fp w ;;
      if (v : bool) then Ok (true, fp) else k s2) (fun _ => True).
Proof.
  intros Hk. apply wp_bind. eapply wp_conseq; [apply sqli_fingerprint_spec|].
  intros [[fp w] s2] (A & W & F). apply wp_bind.
  eapply wp_conseq; [apply check_fingerprint_total; rewrite A; exact F|].
  intros v _. destruct v; [exact I|]. apply Hk. exact A.
Qed.

Lemma check_total s : wp (check s) (fun _ => True).
Proof.
  unfold check. destruct (slen s =? 0); [exact I|]. cbv zeta.
  apply try_total. intros s1 E1.
  assert (D : forall s2, input s2 = input s ->
              wp (if negb (index_byte (input s2) b_byte_double =? -1)
                  then '(fp, w, s3) <- sqli_fingerprint s2 (Z.lor c_sqli_flag_quote_double c_sqli_flag_sqlmysql) ;;
                       v <- check_fingerprint s3 fp w ;;
                       if (v : bool) then Ok (true, fp) else Ok (false, [])
                  else Ok (false, [])) (fun _ => True)).
  { intros s2 E2. destruct (negb _); [|exact I]. apply try_total. intros; exact I. }
  assert (Sg : forall s2, input s2 = input s ->
              wp (if negb (index_byte (input s2) b_byte_single =? -1)
                  then '(fp, w, s3) <- sqli_fingerprint s2 (Z.lor c_sqli_flag_quote_single c_sqli_flag_sqlansi) ;;
                       v <- check_fingerprint s3 fp w ;;
                       if (v : bool) then Ok (true, fp)
                       else if reparse_as_mysql s3
                            then '(fp, w, s4) <- sqli_fingerprint s3 (Z.lor c_sqli_flag_quote_single c_sqli_flag_sqlmysql) ;;
                                 v <- check_fingerprint s4 fp w ;;
                                 if (v : bool) then Ok (true, fp)
                                 else if negb (index_byte (input s4) b_byte_double =? -1)
                                      then '(fp, w, s5) <- sqli_fingerprint s4 (Z.lor c_sqli_flag_quote_double c_sqli_flag_sqlmysql) ;;
                                           v <- check_fingerprint s5 fp w ;;
                                           if (v : bool) then Ok (true, fp) else Ok (false, [])
                                      else Ok (false, [])
                            else if negb (index_byte (input s3) b_byte_double =? -1)
                                 then '(fp, w, s5) <- sqli_fingerprint s3 (Z.lor c_sqli_flag_quote_double c_sqli_flag_sqlmysql) ;;
                                      v <- check_fingerprint s5 fp w ;;
                                      if (v : bool) then Ok (true, fp) else Ok (false, [])
                                 else Ok (false, [])
                  else if negb (index_byte (input s2) b_byte_double =? -1)
                       then '(fp, w, s5) <- sqli_fingerprint s2 (Z.lor c_sqli_flag_quote_double c_sqli_flag_sqlmysql) ;;
                            v <- check_fingerprint s5 fp w ;;
                            if (v : bool) then Ok (true, fp) else Ok (false, [])
                       else Ok (false, [])) (fun _ => True)).
  { intros s2 E2. destruct (negb (index_byte (input s2) b_byte_single =? -1)).
    - apply try_total. intros s3 E3. destruct (reparse_as_mysql s3).
      + apply try_total. intros s4 E4. apply D. congruence.
      + apply D. congruence.
    - apply D. exact E2. }
  destruct (reparse_as_mysql s1).
  - apply try_total. intros s2 E2. apply Sg. congruence.
  - apply Sg. exact E1.
Qed.

Theorem is_sqli_total inp : exists b fp, is_sqli inp = Ok (b, fp).
Proof.
  unfold is_sqli. destruct (wp_inv _ _ (check_total (sqli_init inp 0))) as [[b fp] [E _]].
  rewrite E. cbn [bind]. destruct b; eauto.
Qed.
