(* WsTokens: one call of the tokenizer on  a ++ run ++ b  against the same call on
   a ++ [w0] ++ b  (C03, whitespace runs and separator mixing).

   Three regimes.  In front of the slot the two scanners stand at the same
   offset and return the same token (locality: WsLocal, under the computed
   side condition pre_ok of Spec/WsSpec.v).  A call that meets the slot skips
   the whole run exactly as it skips the single byte (parse_white writes no
   token and tokenize_loop goes on).  Behind the slot the two scanners see the
   same bytes, at offsets that differ by  len run - 1  (shift: WsShift, through
   the scan of b alone). *)
From Coq Require Import List ZArith String Bool Lia ZifyBool.
From Coq.Strings Require Import Byte.
From LI Require Import Prelude Base SqliLex SqliFold Proofs.BaseFacts Proofs.Wp Proofs.LexBase Proofs.LexSpec
  Proofs.TokensSpec Proofs.QuoteBase Spec.WsSpec Proofs.WsBase Proofs.WsShift Proofs.WsLocal Proofs.WsStat Proofs.WsFold Proofs.WsCross.
From LIGen Require Import Tables Dispatch Consts.
Import ListNotations.
Local Open Scope Z_scope.

(* ---------- tokenize_loop: fuel, whitespace ---------- *)

Lemma tokenize_loop_mono : forall f s t r, tokenize_loop f s t = Ok r ->
  forall f', (f <= f')%nat -> tokenize_loop f' s t = Ok r.
Proof.
  induction f as [|f IH]; intros s t r E f' F.
  - cbn [tokenize_loop] in E. destruct (pos s <? slen s) eqn:P; [discriminate E|].
    destruct f'; cbn [tokenize_loop]; rewrite P; exact E.
  - destruct f' as [|f']; [lia|]. cbn [tokenize_loop] in *. destruct (pos s <? slen s); [|exact E].
    destruct (at_ "tokenize:input[pos]" s (pos s)) as [ch| | |]; cbn [bind] in *; try discriminate E.
    destruct (run_parser (dispatch ch) s t) as [[[s1 t1] np]| | |]; cbn [bind] in *; try discriminate E.
    destruct (negb (beq (t_cat t1) x00)); [exact E|]. apply (IH _ _ _ E). lia.
Qed.

(* a whitespace byte is skipped *)
Lemma tokenize_loop_white f s t ch :
  pos s < slen s -> get "tokenize:input[pos]" (input s) (pos s) = Ok ch ->
  is_white_id (dispatch ch) = true -> t_cat t = x00 ->
  tokenize_loop (S f) s t = tokenize_loop f (set_pos s (pos s + 1)) t.
Proof.
  intros P G W C. cbn [tokenize_loop]. replace (pos s <? slen s) with true by lia.
  unfold at_. rewrite G. cbn [bind]. destruct (dispatch ch); try discriminate W.
  cbn [run_parser]. unfold parse_white. cbn [bind]. rewrite C. cbn [beq negb]. reflexivity.
Qed.

(* when no token is reported the token slot is the one handed in *)
Lemma tokenize_loop_false_tok : forall f s t t' s',
  st_wf s -> t_cat t = x00 -> tokenize_loop f s t = Ok (false, t', s') -> t' = t.
Proof.
  induction f as [|f IH]; intros s t t' s' Hwf C E; cbn [tokenize_loop] in E.
  - destruct (pos s <? slen s); [discriminate E|]. inversion E. reflexivity.
  - destruct (pos s <? slen s) eqn:P; [|inversion E; reflexivity].
    unfold at_ in E. unfold st_wf in Hwf.
    assert (R0 : 0 <= pos s < len (input s)) by (unfold slen in *; lia).
    destruct (get_ok "tokenize:input[pos]" (input s) (pos s) R0) as [ch [G N]].
    rewrite G in E. cbn [bind] in E.
    pose proof (run_parser_spec s t ch ltac:(unfold lex_pre, slen in *; lia) N) as SP.
    destruct (run_parser (dispatch ch) s t) as [[[s1 t1] np]| | |]; cbn [bind wp] in *; try contradiction.
    destruct SP as (A & B & _ & _ & R & T).
    destruct (negb (beq (t_cat t1) x00)) eqn:K; [discriminate E|].
    apply negb_false_iff, beq_eq in K.
    destruct T as [T|T].
    + subst t1. eapply IH; [|exact C|exact E].
      unfold st_wf, set_pos, slen in *. cbn [pos input]. rewrite A. lia.
    + exfalso. apply tok_at_class in T. apply is_class_nonzero in T. contradiction.
Qed.


Lemma white_dispatch c : isW c = true -> is_white_id (dispatch c) = true.
Proof.
  intros H. apply isW_facts in H. unfold w_facts in H.
  destruct (is_white_id (dispatch c)); [reflexivity|discriminate H].
Qed.

(* a run of whitespace is skipped *)
Lemma skip_white inp fl stt t : forall ws pre rest f,
  inp = pre ++ ws ++ rest -> forallb isW ws = true -> t_cat t = x00 ->
  tokenize_loop (List.length ws + f) (mkSt inp fl (len pre) stt) t
  = tokenize_loop f (mkSt inp fl (len pre + len ws) stt) t.
Proof.
  induction ws as [|c ws IH]; intros pre rest f Hi Hw C.
  - cbn [List.length plus]. rewrite len_nil, Z.add_0_r. reflexivity.
  - cbn [forallb] in Hw. apply andb_true_iff in Hw. destruct Hw as [Hc Hw].
    cbn [List.length plus].
    rewrite (tokenize_loop_white _ _ _ c).
    + unfold set_pos. cbn [input flags pos st].
      replace (len pre + 1) with (len (pre ++ [c])) by (rewrite len_app; reflexivity).
      rewrite (IH (pre ++ [c]) rest f); [|rewrite Hi, <- app_assoc; reflexivity|exact Hw|exact C].
      f_equal. f_equal. rewrite ?len_app, ?len_cons, ?len_nil. lia.
    + unfold slen. cbn [input pos]. rewrite Hi, len_app. cbn [app]. rewrite len_cons.
      pose proof (len_nonneg (ws ++ rest)). lia.
    + cbn [input pos]. rewrite Hi. cbn [app]. apply get_app_n.
    + apply white_dispatch. exact Hc.
    + exact C.
Qed.

Lemma tok0_cat : t_cat tok0 = x00. Proof. reflexivity. Qed.

(* behind the slot: the call over  pre ++ b  is the call over b, shifted *)
Lemma post_tok b fl p' stt : 0 <= p' <= len b ->
  exists m tx sx,
    tokenize_loop (S (List.length b)) (mkSt b fl p' stt) tok0 = Ok (m, tx, sx) /\
    p' <= pos sx <= len b /\ (m = false -> tx = tok0) /\
    forall pre fuel, (S (List.length b) <= fuel)%nat ->
      tokenize_loop fuel (mkSt (pre ++ b) fl (p' + len pre) stt) tok0
      = Ok (m, (if m then shiftk (len pre) tx else tok0), mkSt (pre ++ b) fl (pos sx + len pre) (st sx)).
Proof.
  intros Hp.
  assert (Wf : st_wf (mkSt b fl p' stt)) by (unfold st_wf, slen; cbn [pos input]; lia).
  destruct (wp_inv _ _ (tokenize_loop_spec (S (List.length b)) (mkSt b fl p' stt) tok0 Wf tok0_cat
                          ltac:(unfold slen, len; cbn [pos input]; lia)))
    as [[[m tx] sx] [E P]].
  exists m, tx, sx. unfold tokenize_post in P. cbn [input flags pos st] in P.
  destruct P as (P1 & P2 & P3 & P4 & P5 & P6). unfold slen in P4. cbn [input] in P4.
  split; [exact E|]. split; [lia|]. split.
  { intros ->. exact (tokenize_loop_false_tok _ _ _ _ _ Wf tok0_cat E). }
  intros pre fuel F.
  destruct (tokenize_loop_simK pre fl fl (conj eq_refl eq_refl) (S (List.length b)) fuel F b (p' + len pre) p' stt
              tok0 tok0 eq_refl (trelK_refl pre tok0 tok0_cat) _ E) as [[[mq tq] sq] [Eq (R1 & R2 & R3 & R4)]].
  cbn [fst snd] in *. subst mq. rewrite Eq. f_equal.
  destruct sq as [iq fq pq stq]. destruct R2 as (A & B & C & D & G). cbn [input flags pos st] in *.
  subst iq fq pq stq. rewrite P1.
  destruct m.
  - rewrite (R3 eq_refl). reflexivity.
  - f_equal. f_equal.
    refine (tokenize_loop_false_tok _ _ _ _ _ _ tok0_cat Eq).
    unfold st_wf, slen. cbn [pos input]. rewrite len_app. pose proof (len_nonneg pre). lia.
Qed.


(* ---------- in front of the slot ---------- *)

Section Front.

Context (a : bytes) (w0 : byte) (fl : Z) (vw : bool) (Hw0 : isW w0 = true)
        (Hq : quoted fl = true -> isW (flag2delimiter fl) = false).

Notation n := (len a).

(* the other input: any whitespace byte, any tail *)
Definition okw (w : byte) : Prop := isW w = true /\ (vw = true -> isWv w = true).

Lemma pre_loop_sound : forall F p res, 0 <= p <= n -> pre_loop F vw w0 a fl p = Some res ->
  forall stt,
    match res with
    | Some (t, np) =>
        p < np <= n /\
        exists stt', forall w y fuel, okw w -> n - p < Z.of_nat fuel ->
          tokenize_loop fuel (mkSt (a ++ w :: y) fl p stt) tok0
          = Ok (true, t, bump_tokens (mkSt (a ++ w :: y) fl np stt'))
    | None =>
        forall w y fuel, okw w ->
          tokenize_loop (Z.to_nat (n - p) + fuel) (mkSt (a ++ w :: y) fl p stt) tok0
          = tokenize_loop fuel (mkSt (a ++ w :: y) fl n stt) tok0
    end.
Proof.
  induction F as [|F IH]; intros p res Hp E stt; [discriminate E|]. cbn [pre_loop] in E.
  destruct (n <=? p) eqn:Hn.
  { inversion E; subst res. assert (p = n) as -> by zlia.
    intros w y fuel _. rewrite Z.sub_diag. reflexivity. }
  destruct (get "" a p) as [ch| | |] eqn:G; try discriminate E.
  assert (Gi : forall w y, get "tokenize:input[pos]" (a ++ w :: y) p = Ok ch).
  { intros w y. rewrite get_app_l by zlia. exact (get_site _ _ _ _ _ G). }
  destruct (is_white_id (dispatch ch)) eqn:Wd.
  - (* a whitespace byte of a *)
    specialize (IH (p + 1) res ltac:(zlia) E stt). destruct res as [[t np]|].
    + destruct IH as [R [stt' IH]]. split; [zlia|]. exists stt'. intros w y fuel Ow Hf.
      destruct fuel as [|fuel]; [zlia|].
      rewrite (tokenize_loop_white _ _ _ ch); [|unfold slen; cbn [pos input]; rewrite len_app, len_cons; pose proof (len_nonneg y); lia
                                               |apply Gi|exact Wd|reflexivity].
      unfold set_pos. cbn [input flags pos st]. apply IH; [exact Ow|zlia].
    + intros w y fuel Ow.
      replace (Z.to_nat (n - p) + fuel)%nat with (S (Z.to_nat (n - (p + 1)) + fuel)) by zlia.
      rewrite (tokenize_loop_white _ _ _ ch); [|unfold slen; cbn [pos input]; rewrite len_app, len_cons; pose proof (len_nonneg y); lia
                                               |apply Gi|exact Wd|reflexivity].
      unfold set_pos. cbn [input flags pos st]. apply IH. exact Ow.
  - (* a token *)
    destruct (supported (dispatch ch) && side (a ++ [w0]) p (dispatch ch)) eqn:SS; [|discriminate E].
    apply andb_true_iff in SS. destruct SS as [Hs Sd].
    destruct (run_parser (dispatch ch) (mkSt (a ++ [w0]) fl p stats0) tok0) as [[[s0 t] np]| | |] eqn:R0;
      try discriminate E.
    destruct ((np <=? n) && negb (beq (t_cat t) x00) && (negb (is_var_id (dispatch ch)) || (np <? n) || vw)) eqn:C;
      [|discriminate E].
    inversion E; subst res. clear E.
    apply andb_true_iff in C. destruct C as [C V]. apply andb_true_iff in C. destruct C as [Cn Cc].
    destruct (run_parser_indep_Ok _ _ _ _ _ stt _ _ _ _ R0) as [su [Ru _]].
    assert (Hch : dispatch (ab a p) = dispatch ch).
    { f_equal. pose proof (get_a a w0 w0 Hw0 Hw0 "" p ltac:(zlia)) as X. rewrite G in X. inversion X. reflexivity. }
    assert (Npos : p < np).
    { assert (N : nth_error (a ++ [w0]) (Z.to_nat p) = Some ch).
      { apply get_Ok_inv in G. destruct G as [_ G]. rewrite nth_error_app1; [exact G|]. unfold len in *. zlia. }
      pose proof (run_parser_spec (mkSt (a ++ [w0]) fl p stt) tok0 ch
                    ltac:(unfold lex_pre, slen; cbn [pos input]; rewrite len_app; change (len [w0]) with 1; zlia) N) as SP.
      rewrite Ru in SP. cbn [wp] in SP. destruct SP as (_ & _ & _ & _ & R & _). cbn [pos] in R. zlia. }
    split; [zlia|]. exists (st su). intros w y fuel [Ow Ov] Hf.
    destruct fuel as [|fuel]; [zlia|].
    assert (V' : negb (is_var_id (dispatch ch)) || (np <? n) || isWv w = true).
    { apply orb_true_iff in V. destruct V as [V|V]; [rewrite V; reflexivity|].
      rewrite (Ov V). apply orb_true_r. }
    destruct (run_parser_loc a w0 w y Hw0 Ow (dispatch ch) Hs fl p stt tok0 su t np ltac:(zlia) Hch Sd Ru ltac:(zlia) V')
      as [s2 [R2 S2]].
    assert (N2 : nth_error (a ++ w :: y) (Z.to_nat p) = Some ch).
    { apply get_Ok_inv in G. destruct G as [_ G]. rewrite nth_error_app1; [exact G|]. unfold len in *. zlia. }
    pose proof (run_parser_spec (mkSt (a ++ w :: y) fl p stt) tok0 ch
                  ltac:(unfold lex_pre, slen; cbn [pos input]; rewrite len_app, len_cons; pose proof (len_nonneg y); zlia) N2) as SP.
    rewrite R2 in SP. cbn [wp] in SP. destruct SP as (A & B & _). cbn [input flags] in A, B.
    cbn [tokenize_loop]. unfold slen, at_. cbn [pos input].
    replace (p <? len (a ++ w :: y)) with true by (rewrite len_app, len_cons; pose proof (len_nonneg y); zlia).
    rewrite Gi. cbn [bind]. rewrite R2. cbn [bind]. rewrite Cc.
    destruct s2 as [i2 f2 p2 x2]. cbn [input flags st] in *. subst i2 f2. rewrite S2. reflexivity.
Qed.


(* one call of tokenize *)
Lemma pre_tok_sound p res : 0 <= p <= n -> pre_tok vw w0 a fl p = Some res ->
  forall stt,
    match res with
    | Some (t, np) =>
        np <= n /\
        exists stt', forall w y c, okw w ->
          tokenize (mkSt (a ++ w :: y) fl p stt) c
          = Ok (true, t, bump_tokens (mkSt (a ++ w :: y) fl np stt'))
    | None =>
        forall w y c, okw w ->
          tokenize (mkSt (a ++ w :: y) fl p stt) c
          = tokenize_loop (S (List.length (a ++ w :: y)) - Z.to_nat (n - p)) (mkSt (a ++ w :: y) fl n stt) tok0
    end.
Proof.
  intros Hp E stt. unfold pre_tok in E.
  assert (L0 : forall w y, (slen (mkSt (a ++ w :: y) fl p stt) =? 0) = false).
  { intros w y. unfold slen. cbn [input]. rewrite len_app, len_cons. pose proof (len_nonneg y). pose proof (len_nonneg a). lia. }
  destruct ((p =? 0) && quoted fl) eqn:Sp.
  - (* the first call in a quote context: the string of the virtual opening quote *)
    apply andb_true_iff in Sp. destruct Sp as [P0 Q]. assert (p = 0) as -> by lia.
    destruct (parse_string_core tok0 (a ++ [w0]) (n + 1) 0 0 (flag2delimiter fl)) as [[t np]| | |] eqn:C; try discriminate E.
    destruct (np <=? n) eqn:Cn; [|discriminate E]. inversion E; subst res. clear E.
    split; [lia|]. exists stt. intros w y c [Ow _]. unfold tokenize. rewrite L0. cbn [pos flags input].
    change (negb (Z.land fl (Z.lor c_sqli_flag_quote_single c_sqli_flag_quote_double) =? 0)) with (quoted fl).
    rewrite Q. cbn [Z.eqb andb]. unfold slen. cbn [input]. rewrite len_app, len_cons.
    replace (n + (1 + len y)) with (n + 1 + len y) by lia.
    rewrite (parse_string_core_loc a w0 w y Hw0 Ow tok0 0 0 (flag2delimiter fl) t np (Hq Q) ltac:(lia) C ltac:(lia)).
    cbn [bind]. reflexivity.
  - destruct res as [[t np]|].
    + destruct (pre_loop_sound _ _ _ Hp E stt) as [R [stt' H]]. split; [lia|]. exists stt'.
      intros w y c Ow. unfold tokenize. rewrite L0. cbn [pos flags input].
      change (negb (Z.land fl (Z.lor c_sqli_flag_quote_single c_sqli_flag_quote_double) =? 0)) with (quoted fl).
      rewrite Sp. apply H; [exact Ow|]. rewrite app_length. cbn [List.length]. unfold len. lia.
    + pose proof (pre_loop_sound _ _ _ Hp E stt) as H.
      intros w y c Ow. unfold tokenize. rewrite L0. cbn [pos flags input].
      change (negb (Z.land fl (Z.lor c_sqli_flag_quote_single c_sqli_flag_quote_double) =? 0)) with (quoted fl).
      rewrite Sp. rewrite <- (H w y _ Ow). f_equal.
      rewrite app_length. cbn [List.length]. unfold len. lia.
Qed.

End Front.


Lemma split_nl : forall l, no_nl l = false -> exists r1 r2, l = r1 ++ x0a :: r2 /\ no_nl r1 = true.
Proof.
  induction l as [|c l IH]; [discriminate|]. cbn [no_nl forallb]. intros H.
  destruct (beq c x0a) eqn:Ec.
  - apply beq_eq in Ec. subst c. exists [], l. split; reflexivity.
  - cbn [negb andb] in H. destruct (IH H) as (r1 & r2 & -> & N1). exists (c :: r1), r2.
    split; [reflexivity|]. cbn [no_nl forallb]. rewrite Ec. exact N1.
Qed.

(* ---------- the two scanners ---------- *)

Section Slot.

(* k: the kind of the slot; inside a `--` comment the run has no newline *)
Context (a b : bytes) (w0 w : byte) (r : bytes) (fl : Z) (vw : bool) (k : skind)
        (Hw0 : isW w0 = true) (Hw : isW w = true) (Hr : forallb isW r = true)
        (Hv0 : vw = true -> isWv w0 = true) (Hv : vw = true -> isWv w = true)
        (Hq : quoted fl = true -> isW (flag2delimiter fl) = false)
        (Hnl : k = K_comment ->
               (w0 <> x0a /\ no_nl (w :: r) = true)                           (* no newline in the run *)
               \/ (w0 = x0a /\ w = x0a)                                       (* the run starts with the newline *)
               \/ (w0 <> x0a /\ w <> x0a /\ b = [] /\ no_nl (w :: r) = false)). (* a newline later on, nothing behind the slot *)

Notation n := (len a).
Notation pre1 := (a ++ w :: r).
Notation pre2 := (a ++ [w0]).

(* run 1 scans i1 (the variant), run 2 scans i2 (the reference) *)
Definition i1 : bytes := pre1 ++ b.
Definition i2 : bytes := pre2 ++ b.

Lemma i1_front : i1 = a ++ w :: (r ++ b).
Proof. unfold i1. rewrite <- app_assoc. reflexivity. Qed.
Lemma i2_front : i2 = a ++ w0 :: b.
Proof. unfold i2. rewrite <- app_assoc. reflexivity. Qed.

Lemma okw_w : okw vw w. Proof. split; assumption. Qed.
Lemma okw_w0 : okw vw w0. Proof. split; assumption. Qed.

(* in front of the slot: same offset, and the rest of a passes the check *)
Definition chk (F : nat) (p : Z) : bool :=
  match k with
  | K_top => pre_ok F vw w0 a fl p
  | K_comment => pre_okc F vw w0 a fl p
  | K_string => pre_oks F vw w0 a fl p
  end.

Definition srelA (s1 s2 : sqlst) : Prop :=
  pos s1 = pos s2 /\ 0 <= pos s2 <= n /\ exists F, chk F (pos s2) = true.

(* behind the slot: the same offset of b *)
Definition srelB (s1 s2 : sqlst) : Prop :=
  exists p', 0 <= p' <= len b /\ pos s1 = p' + len pre1 /\ pos s2 = p' + len pre2.

(* a comment ended at a newline of the run: run 1 stands inside the run, run 2 at the start of b *)
Definition srelC (s1 s2 : sqlst) : Prop :=
  k = K_comment /\ exists rh rt, w :: r = rh ++ rt /\ rh <> [] /\ pos s1 = len (a ++ rh) /\ pos s2 = len pre2.

Definition srel (s1 s2 : sqlst) : Prop :=
  input s1 = i1 /\ input s2 = i2 /\ flags s1 = fl /\ flags s2 = fl /\ st s1 = st s2 /\
  (srelA s1 s2 \/ srelB s1 s2 \/ srelC s1 s2).

(* the tokens: the same token, or the same token  len r  bytes further to the right *)
Definition tokrel (t1 t2 : token) : Prop := t1 = t2 \/ t1 = shiftk (len r) t2.

Lemma tokrel_tq t1 t2 : tokrel t1 t2 -> tq t1 t2.
Proof. intros [->| ->]; left; [apply teq_refl|apply teq_shiftk]. Qed.

Lemma shiftk_pre tx : shiftk (len pre1) tx = shiftk (len r) (shiftk (len pre2) tx).
Proof.
  unfold shiftk. cbn [t_pos t_len t_count t_cat t_open t_close t_val]. f_equal.
  rewrite !len_app, len_cons. change (len [w0]) with 1. lia.
Qed.

(* the call that meets the slot, from the offset n on, and every later call *)
Lemma behind stt p' : 0 <= p' <= len b ->
  exists (m : bool) (tx : token) (sx : sqlst),
    p' <= pos sx <= len b /\
    (forall fuel, (S (List.length b) <= fuel)%nat ->
       tokenize_loop fuel (mkSt i1 fl (p' + len pre1) stt) tok0
       = Ok (m, (if m then shiftk (len pre1) tx else tok0), mkSt i1 fl (pos sx + len pre1) (st sx))) /\
    (forall fuel, (S (List.length b) <= fuel)%nat ->
       tokenize_loop fuel (mkSt i2 fl (p' + len pre2) stt) tok0
       = Ok (m, (if m then shiftk (len pre2) tx else tok0), mkSt i2 fl (pos sx + len pre2) (st sx))).
Proof.
  intros Hp. destruct (post_tok b fl p' stt Hp) as (m & tx & sx & _ & R & _ & H).
  exists m, tx, sx. split; [exact R|]. split; intros fuel F; apply H; exact F.
Qed.

Lemma cross1 stt f :
  tokenize_loop (List.length (w :: r) + f) (mkSt i1 fl n stt) tok0
  = tokenize_loop f (mkSt i1 fl (0 + len pre1) stt) tok0.
Proof.
  rewrite (skip_white i1 fl stt tok0 (w :: r) a b f).
  - rewrite len_app. reflexivity.
  - unfold i1. rewrite <- app_assoc. reflexivity.
  - cbn [forallb]. rewrite Hw, Hr. reflexivity.
  - reflexivity.
Qed.

Lemma cross2 stt f :
  tokenize_loop (List.length [w0] + f) (mkSt i2 fl n stt) tok0
  = tokenize_loop f (mkSt i2 fl (0 + len pre2) stt) tok0.
Proof.
  rewrite (skip_white i2 fl stt tok0 [w0] a b f).
  - rewrite len_app. reflexivity.
  - unfold i2. rewrite <- app_assoc. reflexivity.
  - cbn [forallb]. rewrite Hw0. reflexivity.
  - reflexivity.
Qed.

Lemma slen_i1 : len i1 = n + (1 + len r) + len b.
Proof. unfold i1. rewrite !len_app, len_cons. lia. Qed.
Lemma slen_i2 : len i2 = n + 1 + len b.
Proof. unfold i2. rewrite !len_app. reflexivity. Qed.

(* one call of tokenize in the two runs *)
Theorem tok_step s1 s2 c1 c2 : srel s1 s2 ->
  exists (m : bool) t1 t2 s1' s2',
    tokenize s1 c1 = Ok (m, t1, s1') /\ tokenize s2 c2 = Ok (m, t2, s2') /\
    srel s1' s2' /\ (m = true -> tq t1 t2 /\ (k = K_top -> tokrel t1 t2)) /\ (m = false -> t1 = t2).
Proof.
  destruct s1 as [in1 f1 p1 x1], s2 as [in2 f2 p2 x2]. unfold srel. cbn [input flags pos st].
  intros (-> & -> & -> & -> & -> & [A|[B|C]]).
  - (* in front of the slot *)
    unfold srelA in A. cbn [pos] in A. destruct A as (-> & Hp & F & PF).
    destruct F as [|F]; [unfold chk in PF; destruct k; discriminate PF|].
    assert (CASES : (exists t np, pre_tok vw w0 a fl p2 = Some (Some (t, np)) /\ chk F np = true)
                    \/ (k = K_top /\ pre_tok vw w0 a fl p2 = Some None)
                    \/ (k = K_comment /\ cross_tok w0 a fl p2 = true)
                    \/ (k = K_string /\ scross_tok a fl p2 = true)).
    { unfold chk in *. destruct k; cbn [pre_ok pre_okc pre_oks] in PF;
        destruct (pre_tok vw w0 a fl p2) as [[[t np]|]|] eqn:PT; try discriminate PF; eauto 10. }
    destruct CASES as [(t & np & PT & PF')|[(Kc & PT)|[(Kc & CT)|(Kc & CT)]]].
    + destruct (pre_tok_sound a w0 fl vw Hw0 Hq p2 _ Hp PT x2) as [Rn [stt' H]].
      exists true, t, t.
      exists (bump_tokens (mkSt i1 fl np stt')), (bump_tokens (mkSt i2 fl np stt')).
      rewrite i1_front at 1. rewrite (H w (r ++ b) c1 okw_w). rewrite <- i1_front.
      rewrite i2_front at 1. rewrite (H w0 b c2 okw_w0). rewrite <- i2_front.
      split; [reflexivity|]. split; [reflexivity|].
      assert (Np : 0 <= np).
      { pose proof (tokenize_spec (mkSt (a ++ w0 :: b) fl p2 x2) c2
                      ltac:(unfold st_wf, slen; cbn [pos input]; rewrite len_app, len_cons; pose proof (len_nonneg b); zlia)) as SP.
        rewrite (H w0 b c2 okw_w0) in SP. cbn [wp] in SP. unfold tokenize_post, bump_tokens, set_stats in SP.
        cbn [input flags pos st] in SP. zlia. }
      split.
      * unfold srel, bump_tokens, set_stats. cbn [input flags pos st]. splits; try reflexivity.
        left. unfold srelA. cbn [pos]. splits; try reflexivity; try zlia. exists F. exact PF'.
      * split; [intros _; split; [apply tq_refl|intros _; left; reflexivity]|discriminate].
    + (* the call meets the slot *)
      pose proof (pre_tok_sound a w0 fl vw Hw0 Hq p2 _ Hp PT x2) as H.
      destruct (behind x2 0 ltac:(pose proof (len_nonneg b); zlia)) as (m & tx & sx & Rx & H1 & H2).
      exists m, (if m then shiftk (len pre1) tx else tok0), (if m then shiftk (len pre2) tx else tok0).
      exists (mkSt i1 fl (pos sx + len pre1) (st sx)), (mkSt i2 fl (pos sx + len pre2) (st sx)).
      split.
      { rewrite i1_front at 1. rewrite (H w (r ++ b) c1 okw_w). rewrite <- i1_front.
        replace (S (List.length i1) - Z.to_nat (n - p2))%nat
          with (List.length (w :: r) + (S (List.length i1) - Z.to_nat (n - p2) - List.length (w :: r)))%nat.
        - rewrite cross1. apply H1. unfold i1. rewrite !app_length. cbn [List.length]. unfold len in *. zlia.
        - unfold i1. rewrite !app_length. cbn [List.length]. unfold len in *. zlia. }
      split.
      { rewrite i2_front at 1. rewrite (H w0 b c2 okw_w0). rewrite <- i2_front.
        replace (S (List.length i2) - Z.to_nat (n - p2))%nat
          with (List.length [w0] + (S (List.length i2) - Z.to_nat (n - p2) - List.length [w0]))%nat.
        - rewrite cross2. apply H2. unfold i2. rewrite !app_length. cbn [List.length]. unfold len in *. zlia.
        - unfold i2. rewrite !app_length. cbn [List.length]. unfold len in *. zlia. }
      split.
      { unfold srel. cbn [input flags pos st]. splits; try reflexivity. right. left. exists (pos sx). splits; try reflexivity; zlia. }
      split; [intros ->; split; [apply tokrel_tq|intros _]; right; apply shiftk_pre|intros ->; reflexivity].
    + (* a comment that starts in a reaches the slot *)
      unfold cross_tok in CT. destruct ((p2 =? 0) && quoted fl) eqn:Sp; [discriminate CT|].
      destruct (cross_loop_sound a fl w0 _ p2 Hp CT x2) as (p' & stt' & R1 & R2 & _ & H1 & H2).
      pose proof (len_nonneg a) as La. pose proof (len_nonneg r) as Lr. pose proof (len_nonneg b) as Lb.
      assert (T1 : forall c, tokenize (mkSt i1 fl p2 x2) c = tokenize_loop (S (List.length i1)) (mkSt i1 fl p2 x2) tok0).
      { intros c. unfold tokenize, slen. cbn [input flags pos]. rewrite slen_i1.
        replace (n + (1 + len r) + len b =? 0) with false by zlia.
        change (negb (Z.land fl (Z.lor c_sqli_flag_quote_single c_sqli_flag_quote_double) =? 0)) with (quoted fl).
        rewrite Sp. reflexivity. }
      assert (T2 : forall c, tokenize (mkSt i2 fl p2 x2) c = tokenize_loop (S (List.length i2)) (mkSt i2 fl p2 x2) tok0).
      { intros c. unfold tokenize, slen. cbn [input flags pos]. rewrite slen_i2.
        replace (n + 1 + len b =? 0) with false by zlia.
        change (negb (Z.land fl (Z.lor c_sqli_flag_quote_single c_sqli_flag_quote_double) =? 0)) with (quoted fl).
        rewrite Sp. reflexivity. }
      assert (F1 : n - p2 < Z.of_nat (S (List.length (a ++ (w :: r) ++ b)))).
      { rewrite !app_length. cbn [List.length]. unfold len in *. zlia. }
      assert (F2 : n - p2 < Z.of_nat (S (List.length (a ++ [w0] ++ b)))).
      { rewrite !app_length. cbn [List.length]. unfold len in *. zlia. }
      assert (Wrun : forallb isW (w :: r) = true) by (cbn [forallb]; rewrite Hw, Hr; reflexivity).
      rewrite T1, T2. unfold i1, i2. rewrite <- !app_assoc.
      destruct (Hnl Kc) as [(N0 & NL)|[(E0 & Ew)|(N0 & Nw & Eb & NL)]].
      * (* no newline in the run: the comment runs across the slot *)
        assert (NL0 : no_nl [w0] = true).
        { cbn. rewrite andb_true_r. apply negb_true_iff. apply beq_neq. exact N0. }
        exists true, (cross_tokn a p' (w :: r) b), (cross_tokn a p' [w0] b).
        exists (bump_tokens (mkSt (a ++ (w :: r) ++ b) fl (cross_np a p' (w :: r) b) stt')),
               (bump_tokens (mkSt (a ++ [w0] ++ b) fl (cross_np a p' [w0] b) stt')).
        split; [apply H1; [discriminate|exact Wrun|exact NL|exact F1]|].
        split; [apply H1; [discriminate|cbn [forallb]; rewrite Hw0; reflexivity|exact NL0|exact F2]|].
        split.
        { unfold srel, bump_tokens, set_stats, i1, i2. cbn [input flags pos st]. rewrite <- ?app_assoc.
          splits; try reflexivity. right. left.
          unfold cross_np. pose proof (index_byte_range b x0a) as Rb.
          exists (if index_byte b x0a =? -1 then len b else index_byte b x0a + 1).
          rewrite !len_app, !len_cons, !len_nil.
          destruct (index_byte b x0a =? -1) eqn:Eb; cbv iota; cbn [pos]; splits; zlia. }
        split; [|discriminate]. intros _. split; [|intros K; congruence].
        right. apply cross_tokn_loose; try zlia; discriminate.
      * (* the run starts with the newline, and so does the reference: the same comment *)
        exists true, (mid_tokn a p' [] r b), (mid_tokn a p' [] [] b).
        exists (bump_tokens (mkSt (a ++ (w :: r) ++ b) fl (n + len (@nil byte) + 1) stt')),
               (bump_tokens (mkSt (a ++ [w0] ++ b) fl (n + len (@nil byte) + 1) stt')).
        split.
        { rewrite Ew. apply (H2 [] r b _); [rewrite <- Ew; exact Wrun|reflexivity|rewrite <- Ew; exact F1]. }
        split.
        { rewrite E0. apply (H2 [] [] b _); [reflexivity|reflexivity|rewrite <- E0; exact F2]. }
        split.
        { unfold srel, bump_tokens, set_stats, i1, i2. cbn [input flags pos st]. rewrite <- ?app_assoc.
          splits; try reflexivity. right. right. split; [exact Kc|]. exists [w], r.
          rewrite !len_app, len_nil. change (len [w]) with 1. change (len [w0]) with 1. cbn [pos].
          splits; try reflexivity; try discriminate; zlia. }
        split; [|discriminate]. intros _. rewrite (mid_tokn_nil a p' r b [] b ltac:(zlia)).
        split; [apply tq_refl|intros K; congruence].
      * (* a newline later in the run, nothing behind the slot: the reference comment runs to the end *)
        destruct (split_nl (w :: r) NL) as (r1 & r2 & E & N1).
        assert (Ne1 : r1 <> []).
        { intros ->. cbn [app] in E. inversion E. contradiction. }
        assert (Wr : forallb isW (r1 ++ x0a :: r2) = true) by (rewrite <- E; exact Wrun).
        exists true, (mid_tokn a p' r1 r2 b), (cross_tokn a p' [w0] b).
        exists (bump_tokens (mkSt (a ++ (w :: r) ++ b) fl (n + len r1 + 1) stt')),
               (bump_tokens (mkSt (a ++ [w0] ++ b) fl (cross_np a p' [w0] b) stt')).
        assert (NL0 : no_nl [w0] = true).
        { cbn. rewrite andb_true_r. apply negb_true_iff. apply beq_neq. exact N0. }
        split; [rewrite E; apply H2; [exact Wr|exact N1|rewrite <- E; exact F1]|].
        split; [apply H1; [discriminate|cbn [forallb]; rewrite Hw0; reflexivity|exact NL0|exact F2]|].
        split.
        { unfold srel, bump_tokens, set_stats, i1, i2. cbn [input flags pos st]. rewrite <- ?app_assoc.
          splits; try reflexivity. right. right. split; [exact Kc|]. exists (r1 ++ [x0a]), r2.
          unfold cross_np. rewrite Eb. cbn [index_byte]. change (-1 =? -1) with true. cbv iota.
          rewrite !len_app, !len_cons, !len_nil. cbn [pos]. pose proof (len_nonneg r1).
          splits; try zlia.
          - rewrite E, <- app_assoc. reflexivity.
          - intros X. apply app_eq_nil in X. destruct X as [_ X]. discriminate X. }
        split; [|discriminate]. intros _. split; [|intros K; congruence].
        right. apply mid_cross_loose; try zlia; [exact Ne1|discriminate].
    + (* a string that starts in a runs across the slot *)
      pose proof (len_nonneg a) as La. pose proof (len_nonneg r) as Lr. pose proof (len_nonneg b) as Lb.
      unfold scross_tok in CT. destruct ((p2 =? 0) && quoted fl) eqn:Sp.
      { (* the string of the virtual opening quote *)
        apply andb_true_iff in Sp. destruct Sp as [P0 Q]. assert (p2 = 0) as -> by zlia.
        unfold string0_at in CT. apply andb_true_iff in CT. destruct CT as [Cx Ch].
        assert (Hh : 0 = n \/ beq (ab a 0) x2d = false \/ 2 <= n - 0).
        { change (ab a 0) with (byte_at a 0). destruct (0 =? n) eqn:A1; [left; zlia|].
          destruct (beq (byte_at a 0) x2d) eqn:A2; [|right; left; reflexivity]. cbn in Ch. right. right. zlia. }
        assert (TK : forall inp c, inp <> [] -> tokenize (mkSt inp fl 0 x2) c
                     = bind (parse_string_core tok0 inp (len inp) 0 0 (flag2delimiter fl))
                            (fun r => let '(t, np) := r in Ok (true, t, bump_tokens (set_pos (mkSt inp fl 0 x2) np)))).
        { intros inp c Hne. unfold tokenize, slen. cbn [input flags pos].
          replace (len inp =? 0) with false by (destruct inp; [congruence|rewrite len_cons; pose proof (len_nonneg inp); zlia]).
          change (negb (Z.land fl (Z.lor c_sqli_flag_quote_single c_sqli_flag_quote_double) =? 0)) with (quoted fl).
          rewrite Q. reflexivity. }
        destruct (wp_inv _ _ (tokenize_spec (mkSt i2 fl 0 x2) c2
                    ltac:(unfold st_wf, slen; cbn [pos input]; rewrite slen_i2; zlia))) as [r2 [E2 _]].
        assert (Ne1 : i1 <> []) by (unfold i1; destruct a; discriminate).
        assert (Ne2 : i2 <> []) by (unfold i2; destruct a; discriminate).
        rewrite (TK i1 c1 Ne1). rewrite (TK i2 c2 Ne2) in E2 |- *.
        unfold i1, i2 in *. rewrite <- !app_assoc in *.
        destruct (parse_string_core tok0 (a ++ [w0] ++ b) (len (a ++ [w0] ++ b)) 0 0 (flag2delimiter fl))
          as [[tk2 np2]| | |] eqn:C2; cbn [bind] in E2; try discriminate E2.
        destruct (parse_string_core_cross a (w :: r) [w0] b (flag2delimiter fl) 0 ltac:(discriminate) ltac:(discriminate)
                    ltac:(cbn [forallb]; rewrite Hw, Hr; reflexivity) ltac:(cbn [forallb]; rewrite Hw0; reflexivity)
                    (Hq Q) ltac:(zlia) ltac:(cbn [Z.to_nat skipn]; zlia) tok0 0 0 eq_refl ltac:(cbn [List.length]; zlia) Hh tk2 np2 C2)
          as (tk1 & np1 & C1 & Lo & p'' & Rp & -> & ->).
        rewrite C1. cbn [bind]. unfold set_pos. cbn [input flags pos st].
        exists true, tk1, tk2.
        exists (bump_tokens (mkSt (a ++ (w :: r) ++ b) fl (n + len (w :: r) + p'') x2)),
               (bump_tokens (mkSt (a ++ [w0] ++ b) fl (n + len [w0] + p'') x2)).
        split; [reflexivity|]. split; [reflexivity|]. split.
        { unfold srel, bump_tokens, set_stats. cbn [input flags pos st]. rewrite <- ?app_assoc.
          splits; try reflexivity. right. left. exists p''. rewrite !len_app. cbn [pos]. splits; zlia. }
        split; [|discriminate]. intros _. split; [right; exact Lo|intros K; congruence]. }
      assert (T2 : tokenize (mkSt i2 fl p2 x2) c2 = tokenize_loop (S (List.length i2)) (mkSt i2 fl p2 x2) tok0).
      { unfold tokenize, slen. cbn [input flags pos]. rewrite slen_i2.
        replace (n + 1 + len b =? 0) with false by zlia.
        change (negb (Z.land fl (Z.lor c_sqli_flag_quote_single c_sqli_flag_quote_double) =? 0)) with (quoted fl).
        rewrite Sp. reflexivity. }
      assert (T1 : tokenize (mkSt i1 fl p2 x2) c1 = tokenize_loop (S (List.length i1)) (mkSt i1 fl p2 x2) tok0).
      { unfold tokenize, slen. cbn [input flags pos]. rewrite slen_i1.
        replace (n + (1 + len r) + len b =? 0) with false by zlia.
        change (negb (Z.land fl (Z.lor c_sqli_flag_quote_single c_sqli_flag_quote_double) =? 0)) with (quoted fl).
        rewrite Sp. reflexivity. }
      destruct (wp_inv _ _ (tokenize_spec (mkSt i2 fl p2 x2) c2
                  ltac:(unfold st_wf, slen; cbn [pos input]; rewrite slen_i2; zlia))) as [r2 [E2 _]].
      rewrite T2 in E2. rewrite T1, T2.
      unfold i1, i2 in *. rewrite <- !app_assoc in *.
      destruct (scross_loop_sound a fl _ p2 Hp CT x2 (w :: r) [w0] b ltac:(discriminate) ltac:(discriminate)
                  ltac:(cbn [forallb]; rewrite Hw, Hr; reflexivity) ltac:(cbn [forallb]; rewrite Hw0; reflexivity)
                  ltac:(cbn [List.length]; zlia) (S (List.length (a ++ (w :: r) ++ b))) (S (List.length (a ++ [w0] ++ b)))
                  ltac:(rewrite !app_length; cbn [List.length]; unfold len in *; zlia)
                  ltac:(rewrite !app_length; cbn [List.length]; unfold len in *; zlia) r2 E2)
        as (t1 & t2 & p'' & -> & E1 & Lo & Rp).
      exists true, t1, t2.
      exists (bump_tokens (mkSt (a ++ (w :: r) ++ b) fl (n + len (w :: r) + p'') x2)),
             (bump_tokens (mkSt (a ++ [w0] ++ b) fl (n + len [w0] + p'') x2)).
      split; [exact E1|]. split; [exact E2|]. split.
      { unfold srel, bump_tokens, set_stats, i1, i2. cbn [input flags pos st]. rewrite <- ?app_assoc.
        splits; try reflexivity. right. left. exists p''. rewrite !len_app. cbn [pos]. splits; zlia. }
      split; [|discriminate]. intros _. split; [right; exact Lo|intros K; congruence].
  - (* behind the slot *)
    unfold srelB in B. cbn [pos] in B. destruct B as (p' & Hp & -> & ->).
    destruct (behind x2 p' Hp) as (m & tx & sx & Rx & H1 & H2).
    exists m, (if m then shiftk (len pre1) tx else tok0), (if m then shiftk (len pre2) tx else tok0).
    exists (mkSt i1 fl (pos sx + len pre1) (st sx)), (mkSt i2 fl (pos sx + len pre2) (st sx)).
    pose proof (len_nonneg a) as La. pose proof (len_nonneg r) as Lr. pose proof (len_nonneg b) as Lb.
    split.
    { unfold tokenize, slen. cbn [input flags pos]. rewrite slen_i1.
      replace (n + (1 + len r) + len b =? 0) with false by zlia.
      replace (p' + len pre1 =? 0) with false by (rewrite len_app, len_cons; zlia). cbn [andb].
      apply H1. unfold i1. rewrite !app_length. zlia. }
    split.
    { unfold tokenize, slen. cbn [input flags pos]. rewrite slen_i2.
      replace (n + 1 + len b =? 0) with false by zlia.
      replace (p' + len pre2 =? 0) with false by (rewrite len_app; change (len [w0]) with 1; zlia). cbn [andb].
      apply H2. unfold i2. rewrite !app_length. zlia. }
    split.
    { unfold srel. cbn [input flags pos st]. splits; try reflexivity. right. left. exists (pos sx). splits; try reflexivity; zlia. }
    split; [intros ->; split; [apply tokrel_tq|intros _]; right; apply shiftk_pre|intros ->; reflexivity].
  - (* run 1 still inside the run (behind a newline that ended a comment), run 2 at the start of b *)
    unfold srelC in C. cbn [pos] in C. destruct C as (Kc & rh & rt & Er & Nh & -> & ->).
    destruct (behind x2 0 ltac:(pose proof (len_nonneg b); zlia)) as (m & tx & sx & Rx & H1 & H2).
    exists m, (if m then shiftk (len pre1) tx else tok0), (if m then shiftk (len pre2) tx else tok0).
    exists (mkSt i1 fl (pos sx + len pre1) (st sx)), (mkSt i2 fl (pos sx + len pre2) (st sx)).
    pose proof (len_nonneg a) as La. pose proof (len_nonneg r) as Lr. pose proof (len_nonneg b) as Lb.
    assert (Lh : 1 <= len rh) by (destruct rh; [congruence|rewrite len_cons; pose proof (len_nonneg rh); lia]).
    assert (Wt : forallb isW rt = true).
    { assert (Wrun : forallb isW (w :: r) = true) by (cbn [forallb]; rewrite Hw, Hr; reflexivity).
      rewrite Er, forallb_app in Wrun. apply andb_true_iff in Wrun. exact (proj2 Wrun). }
    assert (Ll : len (w :: r) = len rh + len rt) by (rewrite Er, len_app; reflexivity).
    rewrite len_cons in Ll.
    split.
    { unfold tokenize, slen. cbn [input flags pos]. rewrite slen_i1.
      replace (n + (1 + len r) + len b =? 0) with false by zlia.
      replace (len (a ++ rh) =? 0) with false by (rewrite len_app; zlia). cbn [andb].
      replace (S (List.length i1)) with (List.length rt + (S (List.length i1) - List.length rt))%nat
        by (unfold i1; rewrite Er, !app_length; zlia).
      rewrite (skip_white i1 fl x2 tok0 rt (a ++ rh) b).
      - replace (len (a ++ rh) + len rt) with (0 + len pre1) by (rewrite !len_app, len_cons; zlia).
        apply H1. unfold i1. rewrite Er, !app_length. zlia.
      - unfold i1. rewrite Er, <- !app_assoc. reflexivity.
      - exact Wt.
      - reflexivity. }
    split.
    { unfold tokenize, slen. cbn [input flags pos]. rewrite slen_i2.
      replace (n + 1 + len b =? 0) with false by zlia.
      replace (len pre2 =? 0) with false by (rewrite len_app; change (len [w0]) with 1; zlia). cbn [andb].
      replace (len pre2) with (0 + len pre2) by zlia.
      apply H2. unfold i2. rewrite !app_length. zlia. }
    split.
    { unfold srel. cbn [input flags pos st]. splits; try reflexivity. right. left. exists (pos sx). splits; try reflexivity; zlia. }
    split; [intros ->; split; [apply tokrel_tq|intros _]; right; apply shiftk_pre|intros ->; reflexivity].
Qed.

(* ---------- the whole scan (C03ws_tokens) ---------- *)

(* offsets: the same in front of the slot, len r further to the right behind it *)
Definition posrel (q1 q2 : Z) : Prop := (q2 <= n /\ q1 = q2) \/ (n < q2 /\ q1 = q2 + len r).

Lemma srel_posrel s1 s2 : k = K_top -> srel s1 s2 -> posrel (pos s1) (pos s2).
Proof.
  intros Kt (_ & _ & _ & _ & _ & [A|[B|C]]); [| |destruct C as (C & _); congruence].
  - destruct A as (E & R & _). left. split; [lia|exact E].
  - destruct B as (p' & R & -> & ->). right. rewrite ?len_app, ?len_cons, ?len_nil. pose proof (len_nonneg a). pose proof (len_nonneg r). lia.
Qed.

Definition recrel (r1 r2 : token * Z * Z) : Prop :=
  let '(t1, b1, a1) := r1 in let '(t2, b2, a2) := r2 in
  tokrel t1 t2 /\ posrel b1 b2 /\ posrel a1 a2.

Lemma tokens_loop_rel : k = K_top -> forall fuel2 fuel1, (fuel2 <= fuel1)%nat ->
  forall s1 s2 acc1 acc2 l2 s2', srel s1 s2 -> Forall2 recrel acc1 acc2 ->
  tokens_loop fuel2 s2 acc2 = Ok (l2, s2') ->
  exists l1 s1', tokens_loop fuel1 s1 acc1 = Ok (l1, s1') /\ Forall2 recrel l1 l2 /\ srel s1' s2'.
Proof.
  intros Kc. induction fuel2 as [|fuel2 IH]; intros fuel1 F s1 s2 acc1 acc2 l2 s2' R A E; [discriminate E|].
  destruct fuel1 as [|fuel1]; [zlia|]. cbn [tokens_loop] in *.
  destruct (tok_step s1 s2 tok0 tok0 R) as (m & t1 & t2 & s1n & s2n & E1 & E2 & Rn & T & _).
  rewrite E1. rewrite E2 in E. cbn [bind] in *. destruct m.
  - apply (IH fuel1 ltac:(zlia) s1n s2n ((t1, pos s1, pos s1n) :: acc1) ((t2, pos s2, pos s2n) :: acc2) l2 s2' Rn); [|exact E].
    constructor; [|exact A]. cbn [recrel]. split; [exact (proj2 (T eq_refl) Kc)|]. split; apply srel_posrel; assumption.
  - inversion E; subst. exists (rev acc1), s1n. split; [reflexivity|]. split; [|exact Rn].
    clear - A. induction A; cbn [rev]; [constructor|]. apply Forall2_app; [assumption|]. constructor; [assumption|constructor].
Qed.

(* the hypotheses of the generic folder simulation (WsFold) *)
Lemma srel_tok s1 s2 c1 c2 : srel s1 s2 -> simR (relTk srel) (tokenize s1 c1) (tokenize s2 c2).
Proof.
  intros R r2 E2. destruct (tok_step s1 s2 c1 c2 R) as (m & t1 & t2 & s1' & s2' & E1 & E2' & R' & T & T').
  rewrite E2' in E2. inversion E2; subst r2. clear E2. exists (m, t1, s1'). split; [exact E1|].
  unfold relTk. cbn [fst snd]. splits; auto. intros ->. exact (proj1 (T eq_refl)).
Qed.

Lemma srel_st s1 s2 : srel s1 s2 -> st s1 = st s2.
Proof. intros (_ & _ & _ & _ & S & _). exact S. Qed.

Lemma srel_bump s1 s2 kf : srel s1 s2 -> srel (bump_folds s1 kf) (bump_folds s2 kf).
Proof.
  unfold srel, srelA, srelB, srelC, bump_folds, set_stats. cbn [input flags pos st].
  intros (A & B & C & D & E & F). rewrite E. splits; auto.
Qed.

Lemma srel_len s1 s2 : srel s1 s2 -> (List.length (input s2) <= List.length (input s1))%nat.
Proof.
  intros (-> & -> & _). unfold i1, i2. rewrite !app_length. cbn [List.length]. lia.
Qed.

Lemma srel_init_gen fl0 : fl = eff_flags fl0 -> chk (S (List.length a)) 0 = true ->
  srel (sqli_init i1 fl0) (sqli_init i2 fl0).
Proof.
  intros Hf T. unfold srel, sqli_init. fold (eff_flags fl0). rewrite <- Hf. cbn [input flags pos st].
  splits; try reflexivity. left. unfold srelA. cbn [pos]. pose proof (len_nonneg a).
  splits; try reflexivity; try zlia. exists (S (List.length a)). exact T.
Qed.

Lemma srel_init fl0 : k = K_top -> fl = eff_flags fl0 -> top_slot vw w0 a fl0 = true ->
  srel (sqli_init i1 fl0) (sqli_init i2 fl0).
Proof.
  intros Kc Hf T. apply srel_init_gen; [exact Hf|]. unfold chk. rewrite Kc. unfold top_slot in T. rewrite <- Hf in T. exact T.
Qed.



(* fold + fingerprint of the two inputs under the context value fl0 *)
Theorem slot_fingerprint_sim fl0 : fl = eff_flags fl0 -> chk (S (List.length a)) 0 = true ->
  simR (fp_relK srel) (sqli_fingerprint (sqli_init i1 0) fl0) (sqli_fingerprint (sqli_init i2 0) fl0).
Proof.
  intros Hf T.
  apply (sqli_fingerprint_simK srel srel_tok srel_st srel_bump srel_len).
  unfold reset. cbn [input sqli_init]. apply srel_init_gen; assumption.
Qed.

Lemma tokens_sim fl0 : k = K_top -> fl = eff_flags fl0 -> top_slot vw w0 a fl0 = true ->
  exists l1 l2 s1 s2,
    tokens i1 fl0 = Ok (l1, s1) /\ tokens i2 fl0 = Ok (l2, s2) /\
    Forall2 recrel l1 l2 /\ st s1 = st s2.
Proof.
  intros Kc Hf T.
  destruct (tokens_spec i2 fl0) as (l2 & s2 & E2 & _).
  pose proof (srel_init fl0 Kc Hf T) as R0.
  unfold tokens in *.
  destruct (tokens_loop_rel Kc (S (S (List.length i2))) (S (S (List.length i1)))
              ltac:(unfold i1, i2; rewrite !app_length; cbn [List.length]; lia)
              (sqli_init i1 fl0) (sqli_init i2 fl0) [] [] l2 s2 R0 ltac:(constructor) E2)
    as (l1 & s1 & E1 & FR & RS).
  exists l1, l2, s1, s2. splits; [exact E1|exact E2|exact FR|].
  destruct RS as (_ & _ & _ & _ & X & _). exact X.
Qed.

End Slot.

(* ---------- in the shape the callers use ---------- *)

Lemma eff_flags_quote fl0 : In fl0 [9; 17; 10; 18; 20] ->
  quoted (eff_flags fl0) = true -> isW (flag2delimiter (eff_flags fl0)) = false.
Proof.
  intros H. cbn [In] in H.
  repeat (destruct H as [<-|H]; [vm_compute; intros; try reflexivity; discriminate|]). contradiction.
Qed.

Theorem slot_fingerprint a b w0 w r fl0 vw k :
  isW w0 = true -> isW w = true -> forallb isW r = true ->
  (vw = true -> isWv w0 = true) -> (vw = true -> isWv w = true) ->
  (k = K_comment ->
     (w0 <> x0a /\ no_nl (w :: r) = true)
     \/ (w0 = x0a /\ w = x0a)
     \/ (w0 <> x0a /\ w <> x0a /\ b = [] /\ no_nl (w :: r) = false)) ->
  In fl0 [9; 17; 10; 18; 20] ->
  kind_slot k vw w0 a fl0 = true ->
  forall fp w2 s2,
    sqli_fingerprint (sqli_init (a ++ [w0] ++ b) 0) fl0 = Ok (fp, w2, s2) ->
    exists w1 s1,
      sqli_fingerprint (sqli_init (a ++ (w :: r) ++ b) 0) fl0 = Ok (fp, w1, s1) /\
      Forall2 tq w1 w2 /\ st s1 = st s2.
Proof.
  intros Hw0 Hw Hr Hv0 Hv Hnl Hfl T fp w2 s2 E.
  assert (T' : chk a w0 (eff_flags fl0) vw k (S (List.length a)) 0 = true).
  { unfold chk. destruct k; exact T. }
  pose proof (slot_fingerprint_sim a b w0 w r (eff_flags fl0) vw k Hw0 Hw Hr Hv0 Hv (eff_flags_quote fl0 Hfl) Hnl fl0 eq_refl T') as S.
  unfold i1, i2 in S. rewrite <- !app_assoc in S.
  destruct (S _ E) as [[[fp1 w1] s1] [E1 (R1 & R2 & R3)]]. cbn [fst snd] in *. subst fp1.
  exists w1, s1. split; [exact E1|]. split; [exact R2|]. destruct R3 as (_ & _ & _ & _ & X & _). exact X.
Qed.

Print Assumptions slot_fingerprint.

(* the token scans of the two inputs: the same records, those behind the slot
   len r  bytes further to the right *)
Theorem C03ws_tokens a b w0 w r fl0 vw :
  isW w0 = true -> isW w = true -> forallb isW r = true ->
  (vw = true -> isWv w0 = true) -> (vw = true -> isWv w = true) ->
  In fl0 [9; 17; 10; 18; 20] ->
  top_slot vw w0 a fl0 = true ->
  exists l1 l2 s1 s2,
    tokens (a ++ (w :: r) ++ b) fl0 = Ok (l1, s1) /\
    tokens (a ++ [w0] ++ b) fl0 = Ok (l2, s2) /\
    Forall2 (recrel a r) l1 l2 /\ st s1 = st s2.
Proof.
  intros Hw0 Hw Hr Hv0 Hv Hfl T.
  pose proof (tokens_sim a b w0 w r (eff_flags fl0) vw K_top Hw0 Hw Hr Hv0 Hv (eff_flags_quote fl0 Hfl)
                ltac:(discriminate) fl0 eq_refl eq_refl T) as S.
  unfold i1, i2 in S. rewrite <- !app_assoc in S. exact S.
Qed.

Print Assumptions C03ws_tokens.
