(* FoldSpec: fold never fails (no index out of range on the 8-slot window, no
   stale slot read, no fuel exhaustion) and keeps the window invariant; its
   main loop terminates within a number of iterations linear in the input. *)
From Coq Require Import List ZArith String Bool Lia ZifyBool.
From Coq.Strings Require Import Byte.
From Coq.FSets Require Import FMapPositive.
From LI Require Import Prelude Base SqliLex SqliFold Proofs.BaseFacts Proofs.Wp Proofs.LexBase Proofs.LexSpec
  Proofs.FoldBase.
From LIGen Require Import Tables Dispatch Consts.
Import ListNotations.
Local Open Scope Z_scope.

(* ---------- helpers on tokens ---------- *)

Lemma firstn_all_len (v : bytes) n : len v = n -> firstn (Z.to_nat n) v = v.
Proof. intros <-. unfold len. rewrite Nat2Z.id. apply firstn_all. Qed.

Lemma val_prefix_ok site t : len (t_val t) = t_len t -> val_prefix site t = Ok (t_val t).
Proof.
  intros H. unfold val_prefix. pose proof (len_nonneg (t_val t)).
  rewrite take_ok by lia. rewrite firstn_all_len by exact H. reflexivity.
Qed.

Lemma is_unary_op_total t : len (t_val t) = t_len t -> exists u, is_unary_op t = Ok u.
Proof.
  intros H. unfold is_unary_op.
  destruct (negb (beq (t_cat t) b_sqli_token_type_operator)); [eauto|].
  destruct (t_len t =? 1) eqn:E1.
  - destruct (get_ok "isUnaryOp:val[0]" (t_val t) 0) as [c [-> _]]; [lia|]. cbn. eauto.
  - destruct (t_len t =? 2) eqn:E2.
    + destruct (get_ok "isUnaryOp:val[0]" (t_val t) 0) as [c [-> _]]; [lia|]. cbn [bind].
      destruct (beq c x21); [|eauto].
      destruct (get_ok "isUnaryOp:val[1]" (t_val t) 1) as [c1 [-> _]]; [lia|]. cbn. eauto.
    + destruct (t_len t =? 3) eqn:E3; [|eauto]. rewrite take_ok by lia. cbn. eauto.
Qed.

Lemma is_arithmetic_op_total t : len (t_val t) = t_len t -> exists u, is_arithmetic_op t = Ok u.
Proof.
  intros H. unfold is_arithmetic_op.
  destruct (beq (t_cat t) b_sqli_token_type_operator && (t_len t =? 1)) eqn:E; [|eauto].
  apply andb_true_iff in E. destruct E as [_ E].
  destruct (get_ok "isArithmeticOp:val[0]" (t_val t) 0) as [c [-> _]]; [lia|]. cbn. eauto.
Qed.

(* to_upper_cmp against a literal bounds the length of the value from below *)
Lemma bytes_eqb_len a b : bytes_eqb a b = true -> len a = len b.
Proof. intros H. apply bytes_eqb_eq in H. subst. reflexivity. Qed.

Lemma to_upper_cmp_len lit v : to_upper_cmp lit v = true -> len lit <= len v.
Proof.
  unfold to_upper_cmp. destruct (go_upper_view v) as [u|] eqn:E; [|discriminate].
  intros H. apply bytes_eqb_len in H. apply go_upper_view_len in E. lia.
Qed.

(* ---------- merge ---------- *)

(* the ASCII view keeps a space *)
Lemma mem_cons b x (l : bytes) : mem b (x :: l) = beq b x || mem b l.
Proof. reflexivity. Qed.

Lemma go_upper_view_space s : forall u, go_upper_view s = Some u -> mem x20 s = true -> mem x20 u = true.
Proof.
  assert (G : forall n s, (List.length s <= n)%nat -> forall u, go_upper_view s = Some u ->
                          mem x20 s = true -> mem x20 u = true).
  { induction n as [|n IH]; intros s0 Hn u H M.
    - destruct s0; [cbn in M; discriminate|cbn in Hn; lia].
    - destruct s0 as [|b s']; [cbn in M; discriminate|].
      cbn [go_upper_view] in H. cbn [List.length] in Hn. rewrite mem_cons in M.
      destruct (is_ascii b) eqn:Ea.
      + destruct (go_upper_view s') as [u'|] eqn:E; [|discriminate]. cbn in H. inversion H; subst.
        rewrite mem_cons. destruct (beq x20 b) eqn:Eb.
        * apply beq_eq in Eb. subst b. reflexivity.
        * cbn [orb] in M. rewrite (IH s' ltac:(lia) u' E M). apply orb_true_r.
      + assert (Eb : beq x20 b = false).
        { apply beq_neq. intros <-. vm_compute in Ea. discriminate. }
        rewrite Eb in M. cbn [orb] in M.
        destruct s' as [|b2 s'']; [discriminate|]. cbn [List.length] in Hn. rewrite mem_cons in M.
        assert (J : forall c, option_map (cons c) (go_upper_view s'') = Some u ->
                              beq x20 b2 = false -> mem x20 u = true).
        { intros c Hc Hb2. rewrite Hb2 in M. cbn [orb] in M.
          destruct (go_upper_view s'') as [u'|] eqn:E; [|discriminate]. cbn in Hc. inversion Hc; subst.
          rewrite mem_cons. rewrite (IH s'' ltac:(lia) u' E M). apply orb_true_r. }
        destruct (beq b xc5 && beq b2 xbf) eqn:E1.
        { eapply J; [exact H|]. apply andb_true_iff in E1. destruct E1 as [_ E1]. apply beq_eq in E1. subst. reflexivity. }
        destruct (beq b xc4 && beq b2 xb1) eqn:E2; [|discriminate].
        eapply J; [exact H|]. apply andb_true_iff in E2. destruct E2 as [_ E2]. apply beq_eq in E2. subst. reflexivity. }
  intros u. apply (G (List.length s) s). lia.
Qed.

(* no key that contains a space is classified number or backslash *)
Lemma kw_find_space_class key :
  mem x20 key = true -> kw_find sql_kwmap key <> cN /\ kw_find sql_kwmap key <> cBS.
Proof.
  assert (S : forallb (fun e => negb (mem x20 (fst (snd e)))
                                || (negb (beq (snd (snd e)) cN) && negb (beq (snd (snd e)) cBS)))
                      (PositiveMap.elements sql_kwmap) = true) by (vm_compute; reflexivity).
  intros M. unfold kw_find.
  destruct (PositiveMap.find (encode key) sql_kwmap) as [[k v]|] eqn:F; [|split; discriminate].
  destruct (bytes_eqb k key) eqn:E; [|split; discriminate].
  apply bytes_eqb_eq in E. subst k.
  apply PositiveMap.elements_correct in F. rewrite forallb_forall in S. specialize (S _ F). cbn [fst snd] in S.
  rewrite M in S. cbn [negb orb] in S. apply andb_true_iff in S. destruct S as [S1 S2].
  apply negb_true_iff, beq_neq in S1, S2. split; assumption.
Qed.

Lemma mem_app_r b (x y : bytes) : mem b y = true -> mem b (x ++ y) = true.
Proof. unfold mem. rewrite existsb_app. intros ->. apply orb_true_r. Qed.

(* a token produced by merge *)
Definition mtok (t : token) : Prop :=
  len (t_val t) = t_len t /\ 0 <= t_len t < 32 /\
  is_class (t_cat t) = true /\ t_cat t <> cC /\
  (t_cat t = cF -> 2 <= t_len t) /\ t_cat t <> cN /\ t_cat t <> cBS.

Lemma mtok_wtok hi t : mtok t -> wtok hi t.
Proof. unfold mtok, wtok. intros (A & B & C & D & E & F & G). splits; try assumption; try lia. intros [H|H]; contradiction. Qed.

Lemma merge_spec hi a b :
  wtok hi a -> wtok hi b ->
  wp (merge a b) (fun r => match r with Some a' => mtok a' /\ t_pos a' = t_pos a | None => True end).
Proof.
  intros (A1 & A2 & _) (B1 & B2 & _). unfold merge.
  destruct (negb (merge_left_ok a)); [exact I|].
  destruct (negb (merge_right_ok b)); [exact I|].
  change c_token_size with 32.
  destruct (32 <? t_len a + t_len b + 1) eqn:E; [exact I|].
  rewrite (val_prefix_ok _ a A1), (val_prefix_ok _ b B1). cbn [bind].
  set (tmp := t_val a ++ [x20] ++ t_val b).
  assert (Ltmp : len tmp = t_len a + t_len b + 1).
  { unfold tmp. rewrite !len_app. change (len [x20]) with 1. lia. }
  destruct (negb (beq (search_keyword tmp) x00)) eqn:Ek; [|exact I].
  apply negb_true_iff, beq_neq in Ek.
  rewrite assign_ok by lia. cbn [bind wp]. unfold mtok. cbn [t_val t_len t_cat t_pos].
  destruct (search_keyword_ok tmp) as [K|K]; [contradiction|].
  pose proof K as K'. unfold kw_class in K'. apply andb_true_iff in K'. destruct K' as [K' K3].
  apply andb_true_iff in K'. destruct K' as [K1 K2]. apply negb_true_iff, beq_neq in K2.
  splits; try assumption; try lia; try reflexivity.
  - rewrite len_firstn_le; lia.
  - intros Hf. apply search_keyword_function_len in Hf. lia.
  - unfold search_keyword in *. destruct (go_upper_view tmp) as [u|] eqn:Eu; [|contradiction].
    apply (kw_find_space_class u). eapply go_upper_view_space; [exact Eu|].
    unfold tmp. apply mem_app_r. reflexivity.
  - unfold search_keyword in *. destruct (go_upper_view tmp) as [u|] eqn:Eu; [|contradiction].
    apply (kw_find_space_class u). eapply go_upper_view_space; [exact Eu|].
    unfold tmp. apply mem_app_r. reflexivity.
Qed.

(* ---------- fetching tokens into the window ---------- *)

Lemma Forall_wtok_mono hi hi' w : hi <= hi' -> Forall (wtok hi) w -> Forall (wtok hi') w.
Proof. intros H F. eapply Forall_impl; [|exact F]. intros t. apply wtok_mono. exact H. Qed.

Lemma cat_is_comment_set_none t : cat_is (set_cat t x00) cC = false.
Proof. reflexivity. Qed.

Definition fetch_post (want : Z) (inp : bytes) (fl : Z) (f f' : fstate) : Prop :=
  finv inp fl f' /\ f_left f' = f_left f /\ phi f' <= phi f /\
  (f_more f = true -> f_more f' = false -> phi f' < phi f) /\
  ~ (f_more f' = true /\ wlen (f_win f') <= 5 /\ wlen (f_win f') - f_left f' < want) /\
  (f_more f' = true -> f_more f = true) /\
  wlen (f_win f) <= wlen (f_win f').

Lemma fetch_spec inp fl want fuel : forall f,
  finv inp fl f -> slen (f_s f) - pos (f_s f) + 1 < Z.of_nat fuel ->
  wp (fetch fuel want f) (fetch_post want inp fl f).
Proof.
  induction fuel as [|fuel IH]; intros f Hinv Hf; cbn [fetch].
  { destruct Hinv as (_ & _ & W & _). unfold st_wf in W. lia. }
  change c_max_tokens with 5.
  destruct (f_more f && (wlen (f_win f) <=? 5) && (wlen (f_win f) - f_left f <? want)) eqn:G.
  2:{ apply wp_Ok. unfold fetch_post. splits; try assumption; try lia; try congruence. }
  apply andb_true_iff in G. destruct G as [G G3]. apply andb_true_iff in G. destruct G as [G1 G2].
  pose proof Hinv as (I1 & I2 & I3 & I4 & I5 & I6 & I7 & I8).
  apply wp_bind. eapply wp_conseq; [apply tokenize_spec; exact I3|].
  intros [[more t] s1] (A & B & C & D & E & F).
  assert (Hs1 : st_wf s1) by (unfold st_wf, slen in *; rewrite A; lia).
  unfold st_wf in I3.
  destruct more.
  - destruct (E eq_refl) as (E1 & E2 & E3).
    destruct (cat_is t cC) eqn:Ec.
    + (* a comment: remembered, not stored *)
      set (f1 := mkF s1 (f_win f) (f_left f) true t).
      assert (Hinv1 : finv inp fl f1).
      { unfold finv, f1, mark. cbn [f_s f_win f_left f_last]. rewrite Ec.
        destruct E2 as (T1 & T2 & T3 & T4 & T5 & T6).
        splits; try congruence; try assumption; try lia.
        - eapply Forall_wtok_mono; [|exact I4]. lia.
        - intros _. rewrite <- I1. unfold tok_at. splits; try assumption; lia. }
      eapply wp_conseq; [apply IH; [exact Hinv1|unfold f1, slen in *; cbn [f_s]; rewrite A; lia]|].
      intros f' (P1 & P2 & P3 & P4 & P5 & P6 & P7). unfold fetch_post.
      assert (Hphi : phi f1 < phi f).
      { unfold phi, f1, slen in *. cbn [f_s f_win f_left f_more]. rewrite A, G1. cbn [b2z]. lia. }
      unfold f1 in P7. cbn [f_win] in P7.
      splits; try assumption; try lia; try (intros _; exact G1).
    + (* any other token: appended *)
      set (f1 := mkF s1 (f_win f ++ [t]) (f_left f) true (set_cat (f_last f) x00)).
      assert (Tc : t_cat t <> cC).
      { intros Hc. unfold cat_is in Ec. rewrite Hc in Ec. vm_compute in Ec. discriminate. }
      assert (Hinv1 : finv inp fl f1).
      { unfold finv, f1, mark. cbn [f_s f_win f_left f_last]. rewrite cat_is_comment_set_none.
        rewrite wlen_app.
        splits; try congruence; try assumption; try lia.
        apply Forall_app. split.
        - eapply Forall_wtok_mono; [|exact I4]. lia.
        - constructor; [|constructor]. rewrite I1 in E2.
          eapply tok_at_wtok; [| |exact E2|exact Tc]; unfold slen in *; rewrite <- ?I1; lia. }
      eapply wp_conseq; [apply IH; [exact Hinv1|unfold f1, slen in *; cbn [f_s]; rewrite A; lia]|].
      intros f' (P1 & P2 & P3 & P4 & P5 & P6 & P7). unfold fetch_post.
      assert (Hphi : phi f1 < phi f).
      { unfold phi, f1, slen in *. cbn [f_s f_win f_left f_more]. rewrite A, G1, wlen_app, rank_sum_app. cbn [b2z].
        pose proof (rank_range (t_cat t)). lia. }
      unfold f1 in P7. cbn [f_win] in P7. rewrite wlen_app in P7.
      splits; try assumption; try lia; try (intros _; exact G1).
  - destruct (F eq_refl) as (F1 & F2).
    set (f1 := mkF s1 (f_win f) (f_left f) false (f_last f)).
    assert (Hinv1 : finv inp fl f1).
    { unfold finv, f1, mark in *. cbn [f_s f_win f_left f_last].
      destruct (cat_is (f_last f) cC) eqn:Ec.
      - splits; try congruence; try assumption; try lia.
        intros _. eapply tok_at_weaken; [| |exact (I8 eq_refl)]; lia.
      - splits; try congruence; try assumption; try lia.
        eapply Forall_wtok_mono; [|exact I4]. lia. }
    assert (Hphi : phi f1 < phi f).
    { unfold phi, f1, slen in *. cbn [f_s f_win f_left f_more]. rewrite A, G1. cbn [b2z]. lia. }
    destruct fuel as [|fuel']; [unfold slen in *; lia|].
    cbn [fetch]. unfold f1 at 1. cbn [f_more andb]. apply wp_Ok. unfold fetch_post.
    splits; try assumption; try lia; try reflexivity.
    intros (X & _). unfold f1 in X. cbn [f_more] in X. discriminate X.
Qed.

(* ---------- the rewrite rules ---------- *)

Definition step_ok (inp : bytes) (fl : Z) (bound : Z) (r : step_out) : Prop :=
  match r with
  | Continue f' => finv inp fl f' /\ phi f' < bound
  | Return n f' => finv inp fl f' /\ 0 <= n <= wlen (f_win f')
  end.

Lemma Forall_firstn {A} (P : A -> Prop) n l : Forall P l -> Forall P (firstn n l).
Proof. revert l. induction n as [|n IH]; intros [|x l] H; cbn; auto. inversion H; subst. constructor; auto. Qed.

Lemma wtok_set_plain hi t c :
  wtok hi t -> is_class c = true -> c <> cC -> c <> cF -> c <> cN -> c <> cBS -> wtok hi (set_cat t c).
Proof.
  unfold wtok, set_cat. cbn [t_val t_len t_cat t_pos]. intros (A & B & C & D & E & F) H1 H2 H3 H4 H5.
  splits; try assumption; try lia; try contradiction. intros [G|G]; contradiction.
Qed.

Lemma wtok_set_fn hi t : wtok hi t -> 2 <= t_len t -> wtok hi (set_cat t cF).
Proof.
  unfold wtok, set_cat. cbn [t_val t_len t_cat t_pos]. intros (A & B & C & D & E & F) H.
  splits; try assumption; try lia; try reflexivity; try discriminate. intros [G|G]; discriminate.
Qed.

Lemma wtok_set_num hi t : wtok hi t -> t_cat t = cBS -> wtok hi (set_cat t cN).
Proof.
  unfold wtok, set_cat. cbn [t_val t_len t_cat t_pos]. intros (A & B & C & D & E & F) H.
  splits; try assumption; try lia; try reflexivity; try discriminate. intros _. apply F. right. exact H.
Qed.

Lemma cat_is_eq t c : cat_is t c = true -> t_cat t = c.
Proof. unfold cat_is. apply beq_eq. Qed.

Lemma nth_error_wlen (w : list token) i t : nth_error w (Z.to_nat i) = Some t -> 0 <= i -> i < wlen w.
Proof. intros H Hi. apply nth_error_len in H. unfold wlen. lia. Qed.

(* turn the boolean guards of the context into equations on classes *)
Ltac cats :=
  repeat match goal with
         | H : _ && _ = true |- _ => apply andb_true_iff in H; destruct H
         | H : cat_is ?t ?c = true |- _ => apply cat_is_eq in H
         end.

Ltac simp_f :=
  unfold upd, bump_folds, set_stats in *;
  cbn [f_s f_win f_left f_more f_last input flags pos st slen] in *.

Ltac wlens :=
  repeat first [ rewrite wlen_replace_nth | rewrite wlen_firstn by (rewrite ?wlen_replace_nth; lia) ].

(* finv of an updated state: same scanner position, same last comment *)
Lemma finv_upd inp fl f s' w' l' :
  finv inp fl f ->
  input s' = input (f_s f) -> flags s' = flags (f_s f) -> pos s' = pos (f_s f) ->
  Forall (wtok (mark f)) w' -> 0 <= l' <= wlen w' -> wlen w' <= 6 ->
  finv inp fl (upd f s' w' l').
Proof.
  intros (I1 & I2 & I3 & I4 & I5 & I6 & I7 & I8) E1 E2 E3 Hw Hl H6.
  unfold finv, upd, mark, st_wf, slen in *. cbn [f_s f_win f_left f_last].
  rewrite E1, E2, E3. splits; try assumption; try lia.
Qed.

Lemma phi_upd f s' w' l' :
  input s' = input (f_s f) -> pos s' = pos (f_s f) ->
  phi (upd f s' w' l') =
  120 * (slen (f_s f) - pos (f_s f)) + b2z (f_more f) + 100 * wlen w' + 2 * (6 - l') + rank_sum w'.
Proof. intros E1 E2. unfold phi, upd, slen. cbn [f_s f_win f_left f_more]. rewrite E1, E2. reflexivity. Qed.

(* a rule that shortens the window always decreases the potential *)
Lemma phi_shrink f s' w' l' :
  input s' = input (f_s f) -> pos s' = pos (f_s f) ->
  wlen w' < wlen (f_win f) -> 0 <= l' -> 0 <= f_left f <= wlen (f_win f) -> wlen (f_win f) <= 6 ->
  phi (upd f s' w' l') < phi f.
Proof.
  intros E1 E2 H1 H2 H3 H4. rewrite phi_upd by assumption. unfold phi.
  pose proof (rank_sum_range w'). pose proof (rank_sum_range (f_win f)). pose proof (wlen_nonneg w'). lia.
Qed.

Ltac clear_bool := repeat match goal with H : @eq bool _ _ |- _ => clear H end.
Ltac wside :=
  clear_bool;
  repeat match goal with |- context [if (?a <? ?b) then _ else _] => destruct (Z.ltb_spec a b) end;
  wlens; lia.

Ltac rstep :=
  lazymatch goal with
  | |- wp (Ok _) _ => apply wp_Ok
  | |- wp (bind (val_prefix _ ?t) _) _ =>
      rewrite (val_prefix_ok _ t) by (match goal with H : wtok _ t |- _ => exact (proj1 H) end); cbn [bind]
  | |- wp (bind (is_unary_op ?t) _) _ =>
      let u := fresh "u" in let E := fresh "Eu" in
      destruct (is_unary_op_total t) as [u E];
      [ match goal with H : wtok _ t |- _ => exact (proj1 H) end | rewrite E; cbn [bind] ]
  | |- wp (bind (is_arithmetic_op ?t) _) _ =>
      let u := fresh "u" in let E := fresh "Eu" in
      destruct (is_arithmetic_op_total t) as [u E];
      [ match goal with H : wtok _ t |- _ => exact (proj1 H) end | rewrite E; cbn [bind] ]
  | |- wp (bind _ _) _ => apply wp_bind
  | |- wp (wset _ _ _ _) _ => apply (wp_wset (fun _ => True)); [ wside | ]
  | |- wp (wtrunc _ _ _) _ => apply wp_wtrunc; [ wside | ]
  | |- wp (if ?c then _ else _) _ => destruct c eqn:?
  end.

Ltac forall_w :=
  repeat first [ apply Forall_firstn | apply Forall_replace_nth ]; try assumption.

(* a leaf that shortens the window *)
Ltac shrink_leaf :=
  unfold step_ok; split;
  [ apply finv_upd; [ assumption | reflexivity | reflexivity | reflexivity | forall_w | wside | wside ]
  | apply phi_shrink; [ reflexivity | reflexivity | wside | wside | wside | wside ] ].

Lemma rules3_spec inp fl f :
  finv inp fl f -> 3 <= wlen (f_win f) - f_left f ->
  wp (rules3 f) (step_ok inp fl (phi f)).
Proof.
  intros Hinv H3. pose proof Hinv as (I1 & I2 & I3 & I4 & I5 & I6 & I7 & I8).
  unfold rules3.
  apply wp_bind. eapply wp_wget; [exact I4|lia|]. intros a Ha Na.
  apply wp_bind. eapply wp_wget; [exact I4|lia|]. intros b Hb Nb.
  apply wp_bind. eapply wp_wget; [exact I4|lia|]. intros c Hc Nc.
  cbv zeta.
  repeat rstep.
  all: try solve [shrink_leaf].
  all: unfold step_ok; split.
  all: try (apply finv_upd; [ assumption | reflexivity | reflexivity | reflexivity | forall_w | wside | wside ]).
  all: try (apply wtok_set_plain; [ assumption | reflexivity | discriminate | discriminate | discriminate | discriminate ]).
  all: rewrite phi_upd by reflexivity; unfold phi.
  all: try (match goal with
            | N : nth_error ?w ?i = Some ?x |- context [rank_sum (replace_nth ?w ?i _)] =>
                rewrite (rank_sum_replace _ _ _ _ N); cats;
                match goal with H : t_cat x = _ |- _ => rewrite H end
            end;
            unfold set_cat; cbn [t_cat];
            change (rank cF) with 12; change (rank b_sqli_token_type_bare_word) with 13).
  all: wlens; clear_bool; lia.
Qed.

(* the fall-through of the two-token switch: fetch a third token, then the three-token rules *)
Lemma three_spec inp fl f0 :
  finv inp fl f0 -> 2 <= wlen (f_win f0) - f_left f0 ->
  wp (f <- fetch_n 3 f0 ;;
      if wlen (f_win f) - f_left f <? 3
      then Ok (Continue (mkF (f_s f) (f_win f) (wlen (f_win f)) (f_more f) (f_last f)))
      else rules3 f)
     (step_ok inp fl (phi f0)).
Proof.
  intros Hinv H2. apply wp_bind. unfold fetch_n.
  eapply wp_conseq.
  { apply (fetch_spec inp fl 3); [exact Hinv|].
    destruct Hinv as (_ & _ & W & _). unfold st_wf, slen, len in *. lia. }
  intros f (P1 & P2 & P3 & P4 & P5 & P6 & P7).
  destruct (wlen (f_win f) - f_left f <? 3) eqn:E.
  - apply wp_Ok. unfold step_ok. pose proof P1 as (I1 & I2 & I3 & I4 & I5 & I6 & I7 & I8). split.
    + unfold finv, mark in *. cbn [f_s f_win f_left f_last]. splits; try assumption; try lia.
    + unfold phi in *. cbn [f_s f_win f_left f_more]. lia.
  - eapply wp_conseq; [apply rules3_spec; [exact P1|lia]|].
    intros [f'|n f']; unfold step_ok; intros [A B]; split; try assumption; lia.
Qed.

Ltac val_side :=
  match goal with
  | Hb : wtok _ ?t |- _ <= _ < len (t_val ?t) =>
      let L := fresh in let R := fresh in let F := fresh in
      destruct Hb as (L & R & _ & _ & F & _); cats; rewrite L;
      try (specialize (F ltac:(assumption))); clear_bool; lia
  end.

Ltac rstep2 inp fl :=
  lazymatch goal with
  | |- wp (bind (fetch_n 3 ?f0) _) _ =>
      eapply wp_conseq; [ apply (three_spec inp fl f0) | ]
  | |- wp (bind (merge ?a ?b) _) _ =>
      apply wp_bind; eapply wp_conseq; [ eapply merge_spec; eassumption | ];
      let m := fresh "m" in let Hm := fresh "Hm" in intros m Hm; destruct m
  | |- wp (get _ (t_val _) _) _ => apply wp_get; [ val_side | intros ? ? ]
  | _ => rstep
  end.

Lemma fnlike_len v : name_is_function_like v = true -> 4 <= len v.
Proof.
  unfold name_is_function_like. intros H.
  repeat match type of H with
         | _ || _ = true => apply orb_true_iff in H; destruct H as [H|H]
         end;
    apply to_upper_cmp_len in H;
    match type of H with len ?l <= _ => let n := eval vm_compute in (len l) in change (len l) with n in H end; lia.
Qed.

Lemma step_ok_mono inp fl b b' r : step_ok inp fl b r -> b <= b' -> step_ok inp fl b' r.
Proof. destruct r; unfold step_ok; intros [A B] H; split; try assumption; lia. Qed.

Lemma like_len v : to_upper_cmp (bs "LIKE") v || to_upper_cmp (bs "NOT LIKE") v = true -> 4 <= len v.
Proof.
  intros H. apply orb_true_iff in H. destruct H as [H|H]; apply to_upper_cmp_len in H;
    match type of H with len ?l <= _ => let n := eval vm_compute in (len l) in change (len l) with n in H end; lia.
Qed.

Ltac eval_ranks :=
  repeat match goal with
         | |- context [rank ?c] =>
             let v := eval vm_compute in (rank c) in
             lazymatch v with
             | Z0 => change (rank c) with v
             | Zpos _ => change (rank c) with v
             end
         end.

(* a leaf that re-classifies one window token (same window length) *)
Ltac recat_phi :=
  rewrite phi_upd by reflexivity; unfold phi;
  match goal with
  | N : nth_error ?w ?i = Some ?x |- context [rank_sum (replace_nth ?w ?i _)] =>
      rewrite (rank_sum_replace _ _ _ _ N); cats;
      repeat match goal with H : t_cat x = _ |- _ => rewrite H end
  end;
  unfold set_cat; cbn [t_cat]; eval_ranks; wlens; clear_bool; lia.

(* a guarded boolean computation `if g then m else Ok false`: all the proof keeps is
   that a true answer implies the guard (and a fact P about the body) *)
Lemma wp_guarded (g : bool) (m : res bool) (P : Prop) :
  (g = true -> wp m (fun r => r = true -> P)) ->
  wp (if g then m else Ok false) (fun r => r = true -> g = true /\ P).
Proof.
  destruct g; intros H.
  - eapply wp_conseq; [apply H; reflexivity|]. intros r Hr E. split; [reflexivity|apply Hr; exact E].
  - cbn. discriminate.
Qed.

Ltac guarded tac :=
  apply wp_bind; eapply wp_conseq;
  [ apply wp_guarded; let G := fresh "G" in intros G; tac
  | let x := fresh "x" in let Hx := fresh "Hx" in intros x Hx; destruct x;
    [ destruct (Hx eq_refl) as [?G ?P]; clear Hx | clear Hx ] ].

Ltac unary_total t :=
  let u := fresh "u" in let E := fresh "Eu" in
  destruct (is_unary_op_total t) as [u E];
  [ match goal with H : wtok _ t |- _ => exact (proj1 H) end | rewrite E; cbn [bind wp]; try (intros; exact I) ].

Lemma rules2_spec inp fl f :
  finv inp fl f -> 2 <= wlen (f_win f) - f_left f ->
  wp (rules2 (fetch_n 3) f) (step_ok inp fl (phi f)).
Proof.
  intros Hinv H2. pose proof Hinv as (I1 & I2 & I3 & I4 & I5 & I6 & I7 & I8).
  unfold rules2.
  apply wp_bind. eapply wp_wget; [exact I4|lia|]. intros a Ha Na.
  apply wp_bind. eapply wp_wget; [exact I4|lia|]. intros b Hb Nb.
  cbv zeta.
  rstep; [repeat rstep; shrink_leaf|]. rstep; [repeat rstep; shrink_leaf|].
  guarded ltac:(unary_total b); [repeat rstep; shrink_leaf|].
  guarded ltac:(unary_total b); [repeat rstep; shrink_leaf|].
  apply wp_bind. eapply wp_conseq; [eapply merge_spec; eassumption|]. intros [a'|] Hm.
  { destruct Hm as [Hm1 Hm2]. pose proof (mtok_wtok (mark f) a' Hm1) as Ha'. repeat rstep. shrink_leaf. }
  clear Hm.
  (* IF *)
  guarded ltac:(repeat (rstep2 inp fl); intros; exact I).
  { repeat rstep. unfold step_ok; split.
    - apply finv_upd; [assumption|reflexivity|reflexivity|reflexivity|forall_w|wside|wside].
      apply wtok_set_plain; [assumption|reflexivity|discriminate|discriminate|discriminate|discriminate].
    - recat_phi. }
  (* function-like names *)
  guarded ltac:(rewrite (val_prefix_ok _ a (proj1 Ha)); cbn [bind]; apply wp_Ok; intros E; exact E).
  { apply fnlike_len in P. repeat rstep. unfold step_ok; split.
    - apply finv_upd; [assumption|reflexivity|reflexivity|reflexivity|forall_w|wside|wside].
      apply wtok_set_fn; [assumption|]. destruct Ha as (L & _). lia.
    - cats. match goal with H : _ || _ = true |- _ => apply orb_true_iff in H; destruct H as [H|H]; apply cat_is_eq in H end;
        recat_phi. }
  (* IN / NOT IN *)
  guarded ltac:(rewrite (val_prefix_ok _ a (proj1 Ha)); cbn [bind]; apply wp_Ok; intros; exact I).
  { repeat rstep. unfold step_ok; split.
    - apply finv_upd; [assumption|reflexivity|reflexivity|reflexivity|forall_w|wside|wside].
      destruct (cat_is b b_sqli_token_type_left_parenthesis);
        (apply wtok_set_plain; [assumption|reflexivity|discriminate|discriminate|discriminate|discriminate]).
    - destruct (cat_is b b_sqli_token_type_left_parenthesis); recat_phi. }
  (* LIKE / NOT LIKE: no continue, falls out of the switch *)
  guarded ltac:(rewrite (val_prefix_ok _ a (proj1 Ha)); cbn [bind]; apply wp_Ok; intros E; exact E).
  { apply like_len in P. apply wp_bind.
    destruct (cat_is b b_sqli_token_type_left_parenthesis).
    - rstep. eapply wp_conseq.
      { apply (three_spec inp fl).
        - apply finv_upd; [assumption|reflexivity|reflexivity|reflexivity|forall_w|wside|wside].
          apply wtok_set_fn; [assumption|]. destruct Ha as (L & _). lia.
        - simp_f. wside. }
      intros r Hr. eapply step_ok_mono; [exact Hr|].
      assert (X : phi (upd f (f_s f) (replace_nth (f_win f) (Z.to_nat (f_left f)) (set_cat a cF)) (f_left f)) < phi f + 1)
        by recat_phi. lia.
    - apply wp_Ok. eapply wp_conseq.
      { apply (three_spec inp fl).
        - apply finv_upd; [assumption|reflexivity|reflexivity|reflexivity|assumption|wside|wside].
        - simp_f. wside. }
      intros r Hr. eapply step_ok_mono; [exact Hr|]. rewrite phi_upd by reflexivity. unfold phi. lia. }
  (* sqltype followed by a value *)
  rstep; [repeat rstep; shrink_leaf|].
  (* COLLATE name *)
  rstep.
  { rstep.
    - rstep. rstep. eapply wp_conseq.
      { apply (three_spec inp fl).
        - apply finv_upd; [assumption|reflexivity|reflexivity|reflexivity|forall_w|wside|wside].
          apply wtok_set_plain; [assumption|reflexivity|discriminate|discriminate|discriminate|discriminate].
        - simp_f. wside. }
      intros r Hr. eapply step_ok_mono; [exact Hr|].
      assert (X : phi (upd f (f_s f) (replace_nth (f_win f) (Z.to_nat (f_left f + 1))
                                        (set_cat b b_sqli_token_type_sqltype)) 0) < phi f + 1) by recat_phi.
      lia.
    - eapply wp_conseq; [apply (three_spec inp fl); [exact Hinv|wside]|]. intros r Hr; exact Hr. }
  (* backslash *)
  rstep.
  { rstep. rstep.
    - repeat rstep. unfold step_ok; split.
      + apply finv_upd; [assumption|reflexivity|reflexivity|reflexivity|forall_w|wside|wside].
        apply wtok_set_num; [assumption|]. apply cat_is_eq. assumption.
      + recat_phi.
    - repeat rstep. shrink_leaf. }
  rstep; [repeat rstep; shrink_leaf|].
  rstep; [repeat rstep; shrink_leaf|].
  (* left brace *)
  rstep.
  { rstep.
    - repeat rstep. unfold step_ok; split.
      + apply finv_upd; [assumption|reflexivity|reflexivity|reflexivity|forall_w|wside|wside].
        apply wtok_set_plain; [assumption|reflexivity|discriminate|discriminate|discriminate|discriminate].
      + simp_f. wside.
    - repeat rstep. shrink_leaf. }
  rstep; [repeat rstep; shrink_leaf|].
  eapply wp_conseq; [apply (three_spec inp fl); [exact Hinv|wside]|]. intros r Hr; exact Hr.
Qed.

