(* ShapeRules: Ref's rule tables (Spec/RefSqlFold.v) on windows of "plain text"
   tokens: bare words that cannot start a phrase of the keyword table, numbers,
   variables, commas, and — in the last place only — an operator or an
   unknown-class token.  No two-token rule applies to such a window, no
   five-token pattern matches, and the only three-token rule that applies is
   value , value -> value. *)
From Coq Require Import List ZArith String Bool Lia ZifyBool.
From Coq.Strings Require Import Byte.
From LI Require Import Prelude Base SqliLex Proofs.BaseFacts Spec.RefSqlFold.
From LIGen Require Import Consts.
Import ListNotations.
Local Open Scope Z_scope.

Notation cUnk := b_sqli_token_type_unknown.   (* ? *)

(* ---------- the class alphabet ---------- *)

(* classes that may occur anywhere: n 1 v , *)
Definition nfc (c : byte) : bool := beq c cWord || beq c cNum || beq c cVar || beq c cComma.
(* ... and those that may occur in the last place only: o ? *)
Definition anyc (c : byte) : bool := nfc c || beq c cOp || beq c cUnk.

(* a class string of the stream: every class but the last is n 1 v or , *)
Fixpoint chk (l : list byte) : bool :=
  match l with
  | [] => true
  | c :: l' => match l' with [] => anyc c | _ :: _ => nfc c && chk l' end
  end.

Lemma nfc_cases c : nfc c = true -> c = cWord \/ c = cNum \/ c = cVar \/ c = cComma.
Proof.
  unfold nfc. intros H. repeat (apply orb_true_iff in H; destruct H as [H|H]);
    apply beq_eq in H; auto.
Qed.

Lemma anyc_cases c : anyc c = true -> nfc c = true \/ c = cOp \/ c = cUnk.
Proof.
  unfold anyc. intros H. apply orb_true_iff in H. destruct H as [H|H].
  - apply orb_true_iff in H. destruct H as [H|H]; [auto|apply beq_eq in H; auto].
  - apply beq_eq in H; auto.
Qed.

Lemma nfc_anyc c : nfc c = true -> anyc c = true.
Proof. unfold anyc. intros ->. reflexivity. Qed.

Lemma chk_cons2 c d l : chk (c :: d :: l) = nfc c && chk (d :: l).
Proof. reflexivity. Qed.

Lemma chk_tail c l : chk (c :: l) = true -> chk l = true.
Proof. destruct l as [|d l]; [reflexivity|]. rewrite chk_cons2. intros H. apply andb_true_iff in H. tauto. Qed.

Lemma chk_head c l : chk (c :: l) = true -> anyc c = true.
Proof.
  destruct l as [|d l]; [auto|]. rewrite chk_cons2. intros H. apply andb_true_iff in H.
  apply nfc_anyc. tauto.
Qed.

Lemma chk_app_r A B : chk (A ++ B) = true -> chk B = true.
Proof. induction A as [|a A IH]; cbn [app]; [auto|]. intros H. apply IH. eapply chk_tail. exact H. Qed.

Lemma chk_app_l A B : chk (A ++ B) = true -> chk A = true.
Proof.
  induction A as [|a A IH]; [reflexivity|]. cbn [app]. intros H.
  destruct A as [|a' A].
  - cbn [chk]. eapply chk_head. exact H.
  - cbn [app] in *. rewrite chk_cons2 in H |- *. apply andb_true_iff in H. destruct H as [-> H].
    cbn [andb]. apply IH. exact H.
Qed.

(* a class that is followed by another one is n 1 v or , *)
Lemma chk_mid A c d B : chk (A ++ c :: d :: B) = true -> nfc c = true.
Proof. intros H. apply chk_app_r in H. rewrite chk_cons2 in H. apply andb_true_iff in H. tauto. Qed.

(* two adjacent classes may be taken out *)
Lemma chk_cut2 A x y B : chk (A ++ x :: y :: B) = true -> chk (A ++ B) = true.
Proof.
  induction A as [|a A IH]; cbn [app]; intros H.
  - apply chk_tail in H. apply chk_tail in H. exact H.
  - assert (Na : nfc a = true).
    { destruct A; cbn [app] in H; rewrite chk_cons2 in H; apply andb_true_iff in H; tauto. }
    assert (T : chk (A ++ x :: y :: B) = true) by (eapply chk_tail; exact H).
    specialize (IH T). destruct (A ++ B) as [|e E] eqn:Eq.
    + cbn [chk]. apply nfc_anyc. exact Na.
    + rewrite chk_cons2, Na, IH. reflexivity.
Qed.

Lemma chk_forall l : chk l = true -> forallb anyc l = true.
Proof.
  induction l as [|c l IH]; [reflexivity|]. intros H. cbn [forallb].
  rewrite (chk_head _ _ H), IH by (eapply chk_tail; exact H). reflexivity.
Qed.

(* ---------- the tokens of the stream ---------- *)

(* no phrase of the keyword table begins with v followed by a space *)
Definition headsafe (v : bytes) : Prop :=
  forall u, forallb is_ascii u = true -> search_keyword (v ++ x20 :: u) = x00.

Definition gtok (t : token) : Prop :=
  t_open t = x00 /\ anyc (t_cat t) = true /\ forallb is_ascii (t_val t) = true /\ 1 <= t_len t /\
  (t_cat t = cWord -> t_len t = 31 \/ headsafe (t_val t)).

Lemma gtok_anyc t : gtok t -> anyc (t_cat t) = true.
Proof. intros H. apply H. Qed.

(* two such tokens never merge *)
Lemma phrase_none a b : gtok a -> gtok b -> nfc (t_cat a) = true -> phrase a b = None.
Proof.
  intros (_ & _ & _ & La & Wa) (_ & _ & Ab & Lb & _) Na. unfold phrase, in_class.
  destruct (nfc_cases _ Na) as [Ca|[Ca|[Ca|Ca]]]; rewrite Ca; try reflexivity.
  destruct (existsb (beq cWord) phrase_left && existsb (beq (t_cat b)) phrase_right
            && (t_len a + t_len b + 1 <=? token_size)) eqn:E; [|reflexivity].
  apply andb_true_iff in E. destruct E as [_ E]. unfold token_size in E.
  destruct (Wa Ca) as [L|S]; [lia|].
  cbn [app]. rewrite (S _ Ab). reflexivity.
Qed.

(* ---------- patterns that a class rules out ---------- *)

Fixpoint class_excl (p : tpat) (c : byte) : bool :=
  match p with
  | PAny => false
  | PNot _ => false
  | PCls cs | PSpelt cs _ | PWord cs _ | PUnderscored cs | PEmpty cs => negb (existsb (beq c) cs)
  | PIfName => negb (existsb (beq c) [cFun])
  | POr p q => class_excl p c && class_excl q c
  end.

Lemma tmatch_excl p t : class_excl p (t_cat t) = true -> tmatch p t = false.
Proof.
  induction p as [| | | | | | | |p IHp q IHq]; cbn [class_excl tmatch]; unfold in_class; intros H;
    try discriminate; try (apply negb_true_iff in H; rewrite H; reflexivity).
  apply andb_true_iff in H. destruct H as [H1 H2]. rewrite IHp, IHq by assumption. reflexivity.
Qed.

Lemma pm_false1 p ps t ts : tmatch p t = false -> prefix_match (p :: ps) (t :: ts) = false.
Proof. intros H. cbn [prefix_match]. rewrite H. reflexivity. Qed.

Lemma pm_false2 p q ps t u ts : tmatch q u = false -> prefix_match (p :: q :: ps) (t :: u :: ts) = false.
Proof. intros H. cbn [prefix_match]. rewrite H. cbn [andb]. apply andb_false_r. Qed.

Lemma pm_false3 p q r ps t u v ts :
  tmatch r v = false -> prefix_match (p :: q :: r :: ps) (t :: u :: v :: ts) = false.
Proof. intros H. cbn [prefix_match]. rewrite H. cbn [andb]. rewrite !andb_false_r. reflexivity. Qed.

(* some position of the pattern list holds a pattern that no token of ts matches *)
Lemma pm_nth_false : forall ps ts i p,
  nth_error ps i = Some p -> (forall t, In t ts -> tmatch p t = false) -> prefix_match ps ts = false.
Proof.
  induction ps as [|p0 ps IH]; intros ts i p N H; [destruct i; discriminate|].
  destruct ts as [|t0 ts]; [reflexivity|]. cbn [prefix_match]. destruct i as [|i]; cbn [nth_error] in N.
  - injection N as <-. rewrite (H t0) by (left; reflexivity). reflexivity.
  - rewrite (IH ts i p N) by (intros t Ht; apply H; right; exact Ht). apply andb_false_r.
Qed.

Lemma gtok_not_paren t : gtok t -> tmatch (PCls [cLP]) t = false.
Proof.
  intros H. apply tmatch_excl. apply gtok_anyc in H.
  destruct (anyc_cases _ H) as [N|[->| ->]]; [|reflexivity|reflexivity].
  destruct (nfc_cases _ N) as [->|[->|[->| ->]]]; reflexivity.
Qed.

Lemma five_none w : Forall gtok w -> existsb (fun ps => prefix_match ps w) five_table = false.
Proof.
  intros H. assert (K : forall t, In t w -> tmatch (PCls [cLP]) t = false).
  { intros t Ht. apply gtok_not_paren. rewrite Forall_forall in H. apply H. exact Ht. }
  unfold five_table. cbn [existsb].
  rewrite (pm_nth_false _ w 2%nat (PCls [cLP])) by (try reflexivity; exact K).
  rewrite (pm_nth_false _ w 2%nat (PCls [cLP])) by (try reflexivity; exact K).
  rewrite (pm_nth_false _ w 3%nat (PCls [cLP])) by (try reflexivity; exact K).
  rewrite (pm_nth_false _ w 3%nat (PCls [cLP])) by (try reflexivity; exact K).
  reflexivity.
Qed.

(* ---------- list helpers ---------- *)

Lemma Forall_firstn' {A} (P : A -> Prop) n l : Forall P l -> Forall P (firstn n l).
Proof. intros H. revert n. induction H as [|x l Hx Hl IH]; intros [|n]; cbn [firstn]; auto. Qed.

Lemma skipn_len_app' {A} (pre r : list A) : skipn (List.length pre) (pre ++ r) = r.
Proof. induction pre; cbn; auto. Qed.

Lemma nth_error_len_app' {A} (pre : list A) k r : nth_error (pre ++ r) (List.length pre + k) = nth_error r k.
Proof. induction pre; cbn; auto. Qed.

(* a list with at least k elements from position n on *)
Lemma split2 {A} (w : list A) n : (n + 2 <= List.length w)%nat ->
  exists pre a b tl, w = pre ++ a :: b :: tl /\ List.length pre = n.
Proof.
  intros H. exists (firstn n w). pose proof (firstn_skipn n w) as E.
  assert (L : List.length (firstn n w) = n) by (rewrite firstn_length; lia).
  assert (L2 : (2 <= List.length (skipn n w))%nat) by (rewrite skipn_length; lia).
  destruct (skipn n w) as [|a [|b tl]]; cbn [List.length] in L2; try lia.
  exists a, b, tl. split; [symmetry; exact E|exact L].
Qed.

Lemma split3 {A} (w : list A) n : (n + 3 <= List.length w)%nat ->
  exists pre a b c tl, w = pre ++ a :: b :: c :: tl /\ List.length pre = n.
Proof.
  intros H. exists (firstn n w). pose proof (firstn_skipn n w) as E.
  assert (L : List.length (firstn n w) = n) by (rewrite firstn_length; lia).
  assert (L2 : (3 <= List.length (skipn n w))%nat) by (rewrite skipn_length; lia).
  destruct (skipn n w) as [|a [|b [|c tl]]]; cbn [List.length] in L2; try lia.
  exists a, b, c, tl. split; [symmetry; exact E|exact L].
Qed.

(* the last two elements *)
Lemma pop2_split {A} (w : list A) : (2 <= List.length w)%nat -> exists x y, w = pop 2 w ++ [x; y].
Proof.
  intros H. unfold pop. pose proof (firstn_skipn (List.length w - 2) w) as E.
  assert (L2 : List.length (skipn (List.length w - 2) w) = 2%nat) by (rewrite skipn_length; lia).
  destruct (skipn (List.length w - 2) w) as [|x [|y [|z tl]]]; cbn [List.length] in L2; try lia.
  exists x, y. symmetry. exact E.
Qed.

(* ---------- the rule tables on windows of such tokens ---------- *)

Section Rules.
  Context {Src : Type} (src : source Src).

  Notation rst := (@rstate Src).

  (* ----- the rule tables on windows of such tokens ----- *)

  Lemma run_table_skip ru tbl (r : rst) :
    prefix_match (r_pats ru) (skipn (r_left r) (r_win r)) = false ->
    run_table src (ru :: tbl) r = run_table src tbl r.
  Proof. intros H. cbn [run_table]. rewrite H. reflexivity. Qed.

  (* a Phrase rule on two tokens that do not merge *)
  Lemma run_table_phrase ps ops g n tbl (r : rst) a b :
    nth_error (r_win r) (r_left r) = Some a -> nth_error (r_win r) (r_left r + 1) = Some b ->
    phrase a b = None ->
    run_table src (Rule ps (Phrase :: ops) g n :: tbl) r = run_table src tbl r.
  Proof.
    intros Ha Hb Hp. cbn [run_table r_pats r_ops apply_ops apply_op]. rewrite Ha, Hb, Hp. cbn [option_map].
    destruct (prefix_match ps (skipn (r_left r) (r_win r))); reflexivity.
  Qed.

  Ltac kill Ca Cb Cc :=
    first [ apply pm_false1; apply tmatch_excl; rewrite Ca; vm_compute; reflexivity
          | apply pm_false2; apply tmatch_excl; rewrite Cb; vm_compute; reflexivity
          | apply pm_false3; apply tmatch_excl; rewrite Cc; vm_compute; reflexivity ].

  (* no two-token rule applies: the last row sends the window on to the three-token rules *)
  Lemma rules2_through (r : rst) A a b tl :
    r_win r = A ++ a :: b :: tl -> r_left r = List.length A ->
    gtok a -> gtok b -> nfc (t_cat a) = true ->
    run_table src rules2_table r = Some (r, Through).
  Proof.
    intros Hw Hl Ga Gb Na.
    assert (Hs : skipn (r_left r) (r_win r) = a :: b :: tl) by (rewrite Hl, Hw; apply skipn_len_app').
    assert (Ha : nth_error (r_win r) (r_left r) = Some a).
    { rewrite Hl, Hw, <- (Nat.add_0_r (List.length A)), nth_error_len_app'. reflexivity. }
    assert (Hb : nth_error (r_win r) (r_left r + 1) = Some b).
    { rewrite Hl, Hw, nth_error_len_app'. reflexivity. }
    pose proof (phrase_none a b Ga Gb Na) as Hp.
    pose proof (gtok_anyc b Gb) as Ab.
    unfold rules2_table.
    assert (Cc : t_cat a = t_cat a) by reflexivity.
    destruct (nfc_cases _ Na) as [Ca|[Ca|[Ca|Ca]]];
    (destruct (anyc_cases _ Ab) as [Nb|[Cb|Cb]];
     [destruct (nfc_cases _ Nb) as [Cb|[Cb|[Cb|Cb]]]| |]);
    repeat first [ rewrite run_table_skip by (cbn [r_pats]; rewrite Hs; kill Ca Cb Cc)
                 | rewrite (run_table_phrase _ _ _ _ _ r a b Ha Hb Hp) ];
    cbn [run_table r_pats r_ops r_goto r_next]; rewrite Hs; cbn [prefix_match tmatch andb apply_ops move];
    destruct r; reflexivity.
  Qed.

  Definition valc (c : byte) : bool := beq c cWord || beq c cNum || beq c cVar.

  (* the three-token rules: value , value loses its last two tokens; otherwise `left` advances *)
  Lemma rules3_step (r : rst) A a b c tl :
    r_win r = A ++ a :: b :: c :: tl -> r_left r = List.length A ->
    nfc (t_cat a) = true -> nfc (t_cat b) = true -> anyc (t_cat c) = true ->
    run_table src rules3_table r =
    Some (if valc (t_cat a) && beq (t_cat b) cComma && valc (t_cat c)
          then mkR (r_src r) (pop 2 (r_win r)) 0 (r_more r) (r_cmt r)
          else mkR (r_src r) (r_win r) (S (r_left r)) (r_more r) (r_cmt r), Loop).
  Proof.
    intros Hw Hl Na Nb Ac.
    assert (Hs : skipn (r_left r) (r_win r) = a :: b :: c :: tl) by (rewrite Hl, Hw; apply skipn_len_app').
    unfold rules3_table.
    destruct (nfc_cases _ Na) as [Ca|[Ca|[Ca|Ca]]];
    destruct (nfc_cases _ Nb) as [Cb|[Cb|[Cb|Cb]]];
    (destruct (anyc_cases _ Ac) as [Nc|[Cc|Cc]];
     [destruct (nfc_cases _ Nc) as [Cc|[Cc|[Cc|Cc]]]| |]);
    repeat (rewrite run_table_skip by (cbn [r_pats]; rewrite Hs; kill Ca Cb Cc));
    cbn [run_table r_pats r_ops r_goto r_next]; rewrite Hs; cbn [prefix_match tmatch]; unfold in_class;
    rewrite ?Ca, ?Cb, ?Cc; cbn [apply_ops apply_op move];
    reflexivity.
  Qed.
End Rules.
