(* XLiftUrl: C04, URL schemes through any encoding, in every break-out context. *)
From Coq Require Import List ZArith String Bool Lia ZifyBool.
From Coq.Strings Require Import Byte.
From LI Require Import Prelude Base Html5 Xss Proofs.BaseFacts Proofs.LexBase Spec.XCiSpec
  Spec.DecodeSpec Proofs.DecodeProofs Spec.RefHtml Proofs.RefHtmlProofs Spec.GrammarXss
  Proofs.XLiftSpec Proofs.XLiftRef Proofs.XLiftNames.
From LIGen Require Import Consts.
Import ListNotations.
Local Open Scope Z_scope.

(* ---------- an attribute in break-out context ci ---------- *)

(* if Ref fires within n steps from every mode in which it reads an attribute
   name next, in front of l, then apre_of ci ++ l is reported *)
Lemma attr_ctx_fires ci n l : (ci < 5)%nat -> (n <= 3)%nat ->
  (forall m w a, name_mode m w -> fires n m (w ++ l) false a) ->
  is_xss (apre_of ci ++ l) = Ok true.
Proof.
  intros Hci Hn H.
  destruct ci as [|[|[|[|[|ci]]]]]; [| | | | |lia].
  - change (apre_of 0 ++ l) with (x3c :: x61 :: x20 :: l).
    apply (is_xss_of_verdict 0); [cbn; auto|].
    apply (fires_verdict (S n)); [cbn [List.length]; lia|].
    apply apre0. intros a. exact (H MAttrs [] a NM_attrs).
  - change (apre_of 1 ++ l) with (x78 :: x20 :: l).
    apply (is_xss_of_verdict 1); [cbn; auto|].
    apply (fires_verdict (S n)); [cbn [List.length]; lia|].
    apply apre1. intros a. exact (H MAfterName [] a NM_after_name).
  - change (apre_of 2 ++ l) with (x78 :: x27 :: x20 :: l).
    apply (is_xss_of_verdict 2); [cbn; auto 6|].
    apply (fires_verdict (S n)); [cbn [List.length]; lia|].
    apply (apreq n x27 l eq_refl). intros a. exact (H MAfterQuoted [x20] a (NM_after_quoted x20 eq_refl)).
  - change (apre_of 3 ++ l) with (x78 :: x22 :: x20 :: l).
    apply (is_xss_of_verdict 3); [cbn; auto 6|].
    apply (fires_verdict (S n)); [cbn [List.length]; lia|].
    apply (apreq n x22 l eq_refl). intros a. exact (H MAfterQuoted [x20] a (NM_after_quoted x20 eq_refl)).
  - change (apre_of 4 ++ l) with (x78 :: x60 :: x20 :: l).
    apply (is_xss_of_verdict 4); [cbn; auto 7|].
    apply (fires_verdict (S n)); [cbn [List.length]; lia|].
    apply (apreq n x60 l eq_refl). intros a. exact (H MAfterQuoted [x20] a (NM_after_quoted x20 eq_refl)).
Qed.

(* NAME= value, the name being a variant of a URL-typed entry of the list *)
Lemma url_attr_ctx ci A A' post : (ci < 5)%nat ->
  In (A, 2) blacks -> name_variant A A' ->
  fires 1 MBeforeValue post false c_attribute_type_attr_url ->
  is_xss (apre_of ci ++ A' ++ x3d :: post) = Ok true.
Proof.
  intros Hci HA HV F. destruct (blacks_sweep (A, 2) HA) as [Ok1 Ty]. cbn [fst snd] in *.
  apply (attr_ctx_fires ci 2); [exact Hci|lia|].
  intros m w a M. apply fires_name_eq; [exact M|exact (variant_name_ok A A' HV Ok1)|].
  rewrite (variant_attr_type A A' HV), Ty. exact F.
Qed.

Lemma ref_black_url_dangerous name junk enc rest :
  In name dangerous_schemes -> forallb is_junk junk = true ->
  Spells true name enc (hd_error rest) ->
  ref_black_url (junk ++ enc ++ rest) = true.
Proof.
  intros Hn Hj Hs. pose proof (is_black_url_dangerous name junk enc rest Hn Hj Hs) as E.
  rewrite black_url_eq in E. inversion E. reflexivity.
Qed.

(* ---------- quoted values ---------- *)

Theorem url_quoted ci A A' bl q junk name enc tail rest :
  (ci < 5)%nat -> In (A, 2) blacks -> name_variant A A' ->
  forallb is_blank bl = true -> is_quote_byte q = true ->
  forallb is_junk junk = true -> In name dangerous_schemes ->
  Spells true name enc (hd_error tail) ->
  forallb (fun b => negb (beq q b)) (junk ++ enc ++ tail) = true ->
  is_xss (apre_of ci ++ A' ++ x3d :: bl ++ q :: (junk ++ enc ++ tail) ++ q :: rest) = Ok true.
Proof.
  intros Hci HA HV Hb Hq Hj Hn Hs Hnq.
  apply (url_attr_ctx ci A A'); [exact Hci|exact HA|exact HV|].
  apply fires_quoted_url; [exact Hb|exact Hq|exact Hnq|].
  apply (ref_black_url_dangerous name); assumption.
Qed.

(* the same when the closing quote is missing: the value runs to the end of the input *)
Theorem url_quoted_open ci A A' bl q junk name enc tail :
  (ci < 5)%nat -> In (A, 2) blacks -> name_variant A A' ->
  forallb is_blank bl = true -> is_quote_byte q = true ->
  forallb is_junk junk = true -> In name dangerous_schemes ->
  Spells true name enc (hd_error tail) ->
  forallb (fun b => negb (beq q b)) (junk ++ enc ++ tail) = true ->
  is_xss (apre_of ci ++ A' ++ x3d :: bl ++ q :: junk ++ enc ++ tail) = Ok true.
Proof.
  intros Hci HA HV Hb Hq Hj Hn Hs Hnq.
  apply (url_attr_ctx ci A A'); [exact Hci|exact HA|exact HV|].
  apply fires_open_url; [exact Hb|exact Hq|exact Hnq|].
  apply (ref_black_url_dangerous name); assumption.
Qed.

(* ---------- unquoted values ---------- *)

(* a spelling followed by `next` is also a spelling at the end of the input *)
Lemma encodes_none w v next : Encodes w v next -> Encodes w v None.
Proof.
  intros H. destruct H.
  - apply Enc_literal; assumption.
  - apply Enc_dec; [assumption|assumption|exact I].
  - apply Enc_dec_semi; assumption.
  - apply Enc_hex; [assumption|assumption|assumption|exact I].
  - apply Enc_hex_semi; assumption.
Qed.

Lemma encodes_first w v enc next : Encodes w v (first_of enc next) -> Encodes w v (first_of enc None).
Proof. destruct enc as [|c enc]; cbn [first_of]; [apply encodes_none|exact (fun H => H)]. Qed.

Lemma spells_none first scheme enc next : Spells first scheme enc next -> Spells first scheme enc None.
Proof.
  induction 1 as [first next|w v scheme enc next E R S IH|first w v scheme enc next E R S IH
                 |first w v c scheme enc next E R S IH].
  - apply Sp_done.
  - apply (Sp_lead w v); [apply encodes_first with (next := next); exact E|exact R|exact IH].
  - apply (Sp_skip first w v); [apply encodes_first with (next := next); exact E|exact R|exact IH].
  - apply (Sp_char first w v); [apply encodes_first with (next := next); exact E|exact R|exact IH].
Qed.

(* bytes as codes *)
Definition blankz (z : Z) : bool := existsb (Z.eqb z) [9; 10; 11; 12; 13; 32] || (z =? 0).
Definition quotez (z : Z) : bool := (z =? 34) || (z =? 39) || (z =? 96).
Definition okz (z : Z) : bool := negb (blankz z) && negb (quotez z).

Lemma blank_code b : is_blank b = blankz (code b).
Proof. reflexivity. Qed.
Lemma quote_code b : is_quote_byte b = quotez (code b).
Proof. reflexivity. Qed.

(* l has a first non-blank byte, and that byte is not a quote *)
Definition fnb (l : bytes) : Prop :=
  exists bl c t, l = bl ++ c :: t /\ forallb is_blank bl = true /\ is_blank c = false /\ is_quote_byte c = false.

Lemma fnb_amp w t : fnb ((x26 :: w) ++ t).
Proof. exists [], x26, (w ++ t). repeat split; reflexivity. Qed.

Lemma fnb_ok b t : okz (code b) = true -> fnb ([b] ++ t).
Proof.
  intros H. exists [], b, t. unfold okz in H. apply andb_true_iff in H. destruct H as [H1 H2].
  apply negb_true_iff in H1, H2. rewrite blank_code, quote_code. repeat split; assumption.
Qed.

Lemma fnb_low b t : code b <= 32 \/ 127 <= code b -> fnb t -> fnb ([b] ++ t).
Proof.
  intros H (bl & c & t' & -> & Hb & Hc & Hq).
  destruct (is_blank b) eqn:Bb.
  - exists (b :: bl), c, t'. cbn [forallb app]. rewrite Bb, Hb. repeat split; assumption.
  - exists [], b, (bl ++ c :: t'). rewrite quote_code. unfold quotez. repeat split; try reflexivity; try assumption. lia.
Qed.

Lemma enc_head w v nx : Encodes w v nx -> (exists b, w = [b] /\ code b = v) \/ (exists w', w = x26 :: w').
Proof. intros H. destruct H; [left; eexists; split; reflexivity|right; eexists; reflexivity..]. Qed.

Definition okc (c : byte) : bool := okz (code c) && okz (code (lower_ascii c)).

Lemma spells_fnb first scheme enc next : Spells first scheme enc next ->
  scheme <> [] -> forallb okc scheme = true -> fnb enc.
Proof.
  induction 1 as [first next|w v scheme enc next E R S IH|first w v scheme enc next E R S IH
                 |first w v c scheme enc next E R S IH]; intros Ne Ok.
  - contradiction.
  - destruct (enc_head w v _ E) as [(b & -> & Eb)|(w' & ->)]; [|apply fnb_amp].
    apply fnb_low; [lia|exact (IH Ne Ok)].
  - destruct (enc_head w v _ E) as [(b & -> & Eb)|(w' & ->)]; [|apply fnb_amp].
    apply fnb_low; [lia|exact (IH Ne Ok)].
  - destruct (enc_head w v _ E) as [(b & -> & Eb)|(w' & ->)]; [|apply fnb_amp].
    apply fnb_ok. cbn [forallb] in Ok. apply andb_true_iff in Ok. destruct Ok as [Oc _].
    unfold okc in Oc. apply andb_true_iff in Oc. destruct Oc as [O1 O2].
    rewrite Eb. destruct R as [->| ->]; assumption.
Qed.

Lemma dangerous_okc name : In name dangerous_schemes -> name <> [] /\ forallb okc name = true.
Proof.
  intros H.
  assert (E : forallb (fun n => negb (bytes_eqb n []) && forallb okc n) dangerous_schemes = true)
    by (vm_compute; reflexivity).
  rewrite forallb_forall in E. specialize (E _ H). apply andb_true_iff in E. destruct E as [E1 E2].
  split; [|exact E2]. intros ->. discriminate E1.
Qed.

Lemma fnb_junk junk l : forallb is_junk junk = true -> fnb l -> fnb (junk ++ l).
Proof.
  induction junk as [|j junk IH]; cbn [forallb app]; intros Hj F; [exact F|].
  apply andb_true_iff in Hj. destruct Hj as [H1 H2].
  apply (fnb_low j (junk ++ l)); [unfold is_junk in H1; lia|exact (IH H2 F)].
Qed.

Lemma blank_is_junk b : is_blank b = true -> is_junk b = true.
Proof.
  intros H. pose proof (byte_sweep (fun b => implb (is_blank b) (is_junk b)) ltac:(vm_compute; reflexivity) b) as S.
  cbv beta in S. rewrite H in S. exact S.
Qed.

Lemma ref_black_url_blanks bl x : forallb is_blank bl = true -> ref_black_url (bl ++ x) = ref_black_url x.
Proof.
  intros H. unfold ref_black_url, url_text.
  assert (E : drop_while is_junk (bl ++ x) = drop_while is_junk x).
  { induction bl as [|b bl IH]; [reflexivity|]. cbn [forallb] in H. apply andb_true_iff in H.
    destruct H as [H1 H2]. cbn [app drop_while]. rewrite (blank_is_junk b H1). exact (IH H2). }
  rewrite E. reflexivity.
Qed.

Lemma break_hd stop rest r1 r2 : break stop rest = (r1, r2) -> hd_error r1 = hd_error rest \/ r1 = [].
Proof.
  destruct rest as [|b rest]; cbn [break].
  - intros E. inversion E. right. reflexivity.
  - destruct (stop b).
    + intros E. inversion E. right. reflexivity.
    + destruct (break stop rest) as [a t]. intros E. inversion E. left. reflexivity.
Qed.

(* NAME=value without quotes.  The bytes of junk ++ enc must not end the value:
   none of them is white space or '>'.  What follows (rest) is arbitrary: the
   value ends at the first white-space byte or '>' of rest, or at the end of
   the input. *)
Theorem url_unquoted ci A A' junk name enc rest :
  (ci < 5)%nat -> In (A, 2) blacks -> name_variant A A' ->
  forallb is_junk junk = true -> In name dangerous_schemes ->
  Spells true name enc (hd_error rest) ->
  forallb (fun b => negb (ends_unquoted b)) (junk ++ enc) = true ->
  is_xss (apre_of ci ++ A' ++ x3d :: junk ++ enc ++ rest) = Ok true.
Proof.
  intros Hci HA HV Hj Hn Hs Hno.
  destruct (break ends_unquoted rest) as [r1 r2] eqn:Br.
  destruct (break_eq _ _ _ _ Br) as (Er & _ & Hr1 & Hr2).
  assert (Hs1 : Spells true name enc (hd_error r1)).
  { destruct (break_hd _ _ _ _ Br) as [E| ->]; [rewrite E; exact Hs|].
    apply spells_none with (next := hd_error rest). exact Hs. }
  pose proof (ref_black_url_dangerous name junk enc r1 Hn Hj Hs1) as Hu.
  destruct (dangerous_okc name Hn) as [Ne Okc].
  destruct (fnb_junk junk enc Hj (spells_fnb _ _ _ _ Hs Ne Okc)) as (bl & c & t & Ej & Hbl & Hc & Hq).
  assert (E1 : junk ++ enc ++ rest = bl ++ (c :: (t ++ r1)) ++ r2).
  { rewrite Er. rewrite app_assoc, Ej. cbn [app]. rewrite <- !app_assoc. cbn [app]. rewrite <- ?app_assoc. reflexivity. }
  assert (E2 : junk ++ enc ++ r1 = bl ++ c :: t ++ r1).
  { rewrite app_assoc, Ej. rewrite <- !app_assoc. reflexivity. }
  rewrite E1.
  apply (url_attr_ctx ci A A'); [exact Hci|exact HA|exact HV|].
  apply fires_unquoted_url; [exact Hbl|exact Hc|exact Hq| |exact Hr2|].
  - rewrite Ej in Hno. rewrite forallb_app in Hno. apply andb_true_iff in Hno. destruct Hno as [_ Hno].
    change (c :: t ++ r1) with ((c :: t) ++ r1). rewrite forallb_app, Hno, Hr1. reflexivity.
  - rewrite <- (ref_black_url_blanks bl) by exact Hbl. rewrite <- E2. exact Hu.
Qed.

(* ---------- the three quotings of the grammar in one statement ---------- *)

Lemma not_in_forallb c (V : bytes) : ~ In c V -> forallb (fun b => negb (beq c b)) V = true.
Proof.
  induction V as [|b V IH]; intros H; [reflexivity|]. cbn [forallb].
  rewrite IH by (intros Hin; apply H; right; exact Hin).
  destruct (beq c b) eqn:E; [|reflexivity]. apply beq_eq in E. subst b. exfalso. apply H. left. reflexivity.
Qed.

Lemma spells_tail first name enc tail more :
  Spells first name enc (hd_error (tail ++ more)) -> Spells first name enc (hd_error tail).
Proof.
  destruct tail as [|t tail]; [|exact (fun H => H)].
  cbn [app hd_error]. apply spells_none.
Qed.

Theorem url_any_quoting ci A A' q junk name enc tail rest :
  (ci < 5)%nat -> In (A, 2) blacks -> name_variant A A' -> In q quotes3 ->
  forallb is_junk junk = true -> In name dangerous_schemes ->
  Spells true name enc (hd_error (tail ++ q ++ rest)) ->
  value_kept q junk enc tail ->
  is_xss (apre_of ci ++ A' ++ bs "=" ++ q ++ junk ++ enc ++ tail ++ q ++ rest) = Ok true.
Proof.
  intros Hci HA HV Hq Hj Hn Hs Hk. cbn in Hq. destruct Hq as [<-|[<-|[<-|[]]]]; cbn [value_kept] in Hk.
  - cbn [app] in *. exact (url_unquoted ci A A' junk name enc (tail ++ rest) Hci HA HV Hj Hn Hs Hk).
  - pose proof (url_quoted ci A A' [] x27 junk name enc tail rest Hci HA HV eq_refl eq_refl Hj Hn
                  (spells_tail _ _ _ _ _ Hs) (not_in_forallb _ _ Hk)) as H.
    cbn [app] in H. rewrite <- !app_assoc in H. exact H.
  - pose proof (url_quoted ci A A' [] x22 junk name enc tail rest Hci HA HV eq_refl eq_refl Hj Hn
                  (spells_tail _ _ _ _ _ Hs) (not_in_forallb _ _ Hk)) as H.
    cbn [app] in H. rewrite <- !app_assoc in H. exact H.
Qed.

Print Assumptions url_quoted.
Print Assumptions url_unquoted.
Print Assumptions url_any_quoting.
