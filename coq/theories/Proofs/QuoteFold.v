(* QuoteFold: the folder and the fingerprint step are invariant under putting
   the quote in front of the input (C12, clause b, part 2).

   After the first token the two scanners run in lock-step (QuoteBase).  The
   folder reads of a token its class, length, value and count, never its
   position, and its opening / closing marks only in the back-tick rule of
   sqliFingerprint (last of more than two tokens, class bare word).  The two
   windows are therefore related token by token: the head is the string token
   of the virtual / real opening quote (marks NUL versus q, class 's' for the
   whole run of fold: no rule re-classes, merges or overwrites a string token
   at the head), every other token is the same token one byte to the right. *)
From Coq Require Import List ZArith String Bool Lia ZifyBool.
From Coq.Strings Require Import Byte.
From LI Require Import Prelude Base SqliLex SqliFold Proofs.BaseFacts Proofs.Wp Proofs.LexBase Proofs.LexSpec
  Proofs.FoldBase Proofs.FoldSpec Proofs.QuoteBase.
From LIGen Require Import Tables Dispatch Consts.
Import ListNotations.
Local Open Scope Z_scope.

Notation cS := b_sqli_token_type_string.

Section Fold.

Context (q : byte) (f1 f2 : Z) (Hdial : dial f1 f2).

Notation twin := (twin q f1 f2).
Notation relT := (relT q f1 f2).

(* ---------- tokens of the window ---------- *)

(* the head of the window: the opening-quote string token *)
Definition thd (tq tx : token) : Prop :=
  t_pos tq = t_pos tx + 1 /\ t_len tq = t_len tx /\ t_count tq = t_count tx /\
  t_cat tq = t_cat tx /\ t_close tq = t_close tx /\ t_val tq = t_val tx /\
  t_open tq = q /\ t_open tx = x00.

Definition win_rel (wq wx : list token) : Prop :=
  match wq, wx with
  | tq :: rq, tx :: rx => thd tq tx /\ t_cat tx = cS /\ Forall2 tsh rq rx
  | _, _ => False
  end.

(* what fold and the fingerprint hand on: possibly nothing; the head may have been re-classed 'X' *)
Definition win_relF (wq wx : list token) : Prop :=
  match wq, wx with
  | [], [] => True
  | tq :: rq, tx :: rx =>
      thd tq tx /\ (t_cat tx = cS \/ t_cat tx = b_sqli_token_type_evil) /\ Forall2 tsh rq rx
  | _, _ => False
  end.

Lemma win_rel_F wq wx : win_rel wq wx -> win_relF wq wx.
Proof. destruct wq, wx; cbn; tauto. Qed.

Lemma Forall2_len {A B} (R : A -> B -> Prop) l1 l2 : Forall2 R l1 l2 -> List.length l1 = List.length l2.
Proof. induction 1; cbn; congruence. Qed.

Lemma win_rel_len wq wx : win_rel wq wx -> wlen wq = wlen wx.
Proof.
  destruct wq as [|tq rq], wx as [|tx rx]; cbn [win_rel]; try contradiction.
  intros (_ & _ & F). unfold wlen. cbn [List.length]. rewrite (Forall2_len _ _ _ F). reflexivity.
Qed.

Lemma win_relF_len wq wx : win_relF wq wx -> wlen wq = wlen wx.
Proof.
  destruct wq as [|tq rq], wx as [|tx rx]; cbn [win_relF]; try contradiction; [reflexivity|].
  intros (_ & _ & F). unfold wlen. cbn [List.length]. rewrite (Forall2_len _ _ _ F). reflexivity.
Qed.

Lemma Forall2_nth {A B} (R : A -> B -> Prop) l1 l2 i b :
  Forall2 R l1 l2 -> nth_error l2 i = Some b -> exists a, nth_error l1 i = Some a /\ R a b.
Proof.
  intros F. revert i. induction F as [|x y l1 l2 Hxy F IH]; intros [|i] N; cbn [nth_error] in *; try discriminate.
  - inversion N; subst. eauto.
  - apply IH. exact N.
Qed.

(* reading slot i: the two tokens agree on everything the rules read; they agree
   on the opening mark as well unless i is the head, which is a string *)
Lemma sim_wget {C D} (Q : C -> D -> Prop) site wq wx i kq kx :
  win_rel wq wx ->
  (forall p l c k oq ox cl v,
     0 <= i < wlen wx ->
     (1 <= i /\ oq = ox) \/ (i = 0 /\ k = cS /\ oq = q /\ ox = x00) ->
     simR Q (kq (mkTok (p + 1) l c k oq cl v)) (kx (mkTok p l c k ox cl v))) ->
  simR Q (bind (wget site wq i) kq) (bind (wget site wx i) kx).
Proof.
  intros W H a E. inv_bind E. unfold wget in *.
  destruct (0 <=? i) eqn:E1; [|discriminate E0].
  destruct (nth_error wx (Z.to_nat i)) as [tx|] eqn:N; [|discriminate E0]. inversion E0; subst a0. clear E0.
  assert (Hi : 0 <= i < wlen wx) by (split; [lia|]; apply nth_error_wlen in N; lia).
  destruct wq as [|hq rq], wx as [|hx rx]; cbn [win_rel] in W; try contradiction.
  destruct W as (Th & Tc & F).
  destruct (Z.to_nat i) as [|n] eqn:En.
  - cbn [nth_error] in N |- *. inversion N; subst tx. cbn [bind].
    destruct hq as [p1 l1 c1 k1 o1 cl1 v1], hx as [p2 l2 c2 k2 o2 cl2 v2].
    unfold thd in Th. cbn [t_pos t_len t_count t_cat t_open t_close t_val] in Th, Tc.
    destruct Th as (-> & -> & -> & -> & -> & -> & -> & ->).
    apply (H p2 l2 c2 k2 q x00 cl2 v2 Hi); [|exact E]. right. splits; auto. lia.
  - cbn [nth_error] in N |- *. destruct (Forall2_nth _ _ _ _ _ F N) as [tq [Nq T]]. rewrite Nq. cbn [bind].
    destruct tq as [p1 l1 c1 k1 o1 cl1 v1], tx as [p2 l2 c2 k2 o2 cl2 v2].
    unfold tsh, teq in T. cbn [t_pos t_len t_count t_cat t_open t_close t_val] in T.
    destruct T as ((-> & -> & -> & -> & -> & ->) & ->).
    apply (H p2 l2 c2 k2 o2 o2 cl2 v2 Hi); [|exact E]. left. split; [lia|reflexivity].
Qed.



Lemma Forall2_replace_nth {A B} (R : A -> B -> Prop) l1 l2 n a b :
  Forall2 R l1 l2 -> R a b -> Forall2 R (replace_nth l1 n a) (replace_nth l2 n b).
Proof.
  intros F Hab. revert n. induction F as [|x y l1 l2 Hxy F IH]; intros [|n]; cbn [replace_nth]; constructor; auto.
Qed.

Lemma Forall2_firstn {A B} (R : A -> B -> Prop) l1 l2 n :
  Forall2 R l1 l2 -> Forall2 R (firstn n l1) (firstn n l2).
Proof.
  intros F. revert n. induction F as [|x y l1 l2 Hxy F IH]; intros [|n]; cbn [firstn]; constructor; auto.
Qed.

(* writing a shifted token into a slot other than the head *)
Lemma sim_wset {C D} (Q : C -> D -> Prop) site wq wx i tq tx kq kx :
  win_rel wq wx -> tsh tq tx -> 1 <= i ->
  (forall wq' wx', win_rel wq' wx' -> wlen wx' = wlen wx -> simR Q (kq wq') (kx wx')) ->
  simR Q (bind (wset site wq i tq) kq) (bind (wset site wx i tx) kx).
Proof.
  intros W T Hi H a E. inv_bind E. unfold wset in *. pose proof (win_rel_len _ _ W) as L. unfold wlen in L.
  destruct ((0 <=? i) && (i <? Z.of_nat (List.length wx))) eqn:E1; [|discriminate E0].
  inversion E0; subst a0. clear E0.
  replace ((0 <=? i) && (i <? Z.of_nat (List.length wq))) with true by lia. cbn [bind].
  refine (H _ _ _ _ a E).
  - destruct wq as [|hq rq], wx as [|hx rx]; cbn [win_rel] in W; try contradiction.
    destruct W as (Th & Tc & F).
    destruct (Z.to_nat i) as [|n] eqn:En; [lia|]. cbn [replace_nth win_rel].
    splits; auto. apply Forall2_replace_nth; assumption.
  - apply wlen_replace_nth.
Qed.

(* keeping at least the head *)
Lemma sim_wtrunc {C D} (Q : C -> D -> Prop) site wq wx nq nx kq kx :
  win_rel wq wx -> nq = nx -> 1 <= nx ->
  (forall wq' wx', win_rel wq' wx' -> wlen wx' = nx -> simR Q (kq wq') (kx wx')) ->
  simR Q (bind (wtrunc site wq nq) kq) (bind (wtrunc site wx nx) kx).
Proof.
  intros W -> Hn H a E. inv_bind E. unfold wtrunc in *. pose proof (win_rel_len _ _ W) as L. unfold wlen in L.
  destruct ((0 <=? nx) && (nx <=? Z.of_nat (List.length wx))) eqn:E1; [|discriminate E0].
  inversion E0; subst a0. clear E0.
  replace ((0 <=? nx) && (nx <=? Z.of_nat (List.length wq))) with true by lia. cbn [bind].
  refine (H _ _ _ _ a E).
  - destruct wq as [|hq rq], wx as [|hx rx]; cbn [win_rel] in W; try contradiction.
    destruct W as (Th & Tc & F).
    destruct (Z.to_nat nx) as [|n] eqn:En; [lia|]. cbn [firstn win_rel].
    splits; auto. apply Forall2_firstn; assumption.
  - apply wlen_firstn. unfold wlen. lia.
Qed.

Lemma win_rel_app wq wx tq tx : win_rel wq wx -> tsh tq tx -> win_rel (wq ++ [tq]) (wx ++ [tx]).
Proof.
  destruct wq as [|hq rq], wx as [|hx rx]; cbn [win_rel]; try contradiction.
  intros (Th & Tc & F) T. cbn [app win_rel]. splits; auto. apply Forall2_app; [exact F|]. constructor; auto.
Qed.

Lemma tsh_shift t : tsh (shift_tok t) t.
Proof. unfold tsh, teq, shift_tok. cbn [t_pos t_len t_count t_cat t_open t_close t_val]. splits; auto. Qed.

Lemma tsh_eq tq tx : tsh tq tx -> tq = shift_tok tx.
Proof.
  destruct tq as [p1 l1 c1 k1 o1 cl1 v1], tx as [p2 l2 c2 k2 o2 cl2 v2]. unfold tsh, teq, shift_tok.
  cbn [t_pos t_len t_count t_cat t_open t_close t_val]. intros ((-> & -> & -> & -> & -> & ->) & ->). reflexivity.
Qed.

(* ---------- folder states ---------- *)

(* the last comment: a scanned token, or not a comment at all *)
Definition lrel (lq lx : token) : Prop := tsh lq lx \/ (t_cat lq = x00 /\ t_cat lx = x00).

Definition frel (fq fx : fstate) : Prop :=
  twin (f_s fq) (f_s fx) /\ 1 <= pos (f_s fx) <= slen (f_s fx) /\
  win_rel (f_win fq) (f_win fx) /\ f_left fq = f_left fx /\ f_more fq = f_more fx /\
  lrel (f_last fq) (f_last fx).

Lemma twin_bump sq sx n : twin sq sx -> twin (bump_folds sq n) (bump_folds sx n).
Proof.
  unfold QuoteBase.twin, bump_folds, set_stats. cbn [input flags pos st].
  intros (A & B & C & D & E). rewrite E. auto.
Qed.

Lemma lrel_cat lq lx c : lrel lq lx -> cat_is lq c = cat_is lx c.
Proof.
  unfold cat_is. intros [((_ & _ & -> & _) & _)|[-> ->]]; reflexivity.
Qed.

(* ---------- the fetch loops ---------- *)

Lemma fetch_sim want : forall fuelx fuelq, (fuelx <= fuelq)%nat ->
  forall fq fx, frel fq fx -> simR frel (fetch fuelq want fq) (fetch fuelx want fx).
Proof.
  induction fuelx as [|fuelx IH]; intros fuelq F fq fx R; [apply simR_fail_fuel|].
  destruct fuelq as [|fuelq]; [lia|]. cbn [fetch].
  destruct R as (T & G & W & EL & EM & LR). rewrite (win_rel_len _ _ W), EL, EM.
  destruct (f_more fx && (wlen (f_win fx) <=? c_max_tokens) && (wlen (f_win fx) - f_left fx <? want)) eqn:Ec.
  2:{ apply simR_ret. unfold frel. splits; auto; lia. }
  eapply simR_bind.
  { eapply simR_wlp; [apply tokenize_sim; [exact Hdial|exact T|lia]|].
    apply wp_to_wlp. apply (tokenize_spec (f_s fx) tok0). unfold st_wf. lia. }
  intros [[mq tq] sq'] [[mx tx] sx'] [(R1 & R2 & R3) P] _. cbn [fst snd] in *. subst mq.
  destruct P as (P1 & P2 & P3 & P4 & P5 & P6).
  assert (G' : 1 <= pos sx' <= slen sx') by (unfold slen in *; rewrite P1; lia).
  destruct mx.
  - specialize (R3 eq_refl). subst tq.
    assert (Ec2 : cat_is (shift_tok tx) b_sqli_token_type_comment = cat_is tx b_sqli_token_type_comment) by reflexivity.
    rewrite Ec2. destruct (cat_is tx b_sqli_token_type_comment).
    + apply IH; [lia|]. unfold frel. cbn [f_s f_win f_left f_more f_last]. splits; auto; try lia. left. apply tsh_shift.
    + apply IH; [lia|]. unfold frel. cbn [f_s f_win f_left f_more f_last]. splits; auto; try lia.
      * apply win_rel_app; [exact W|apply tsh_shift].
      * right. split; reflexivity.
  - apply IH; [lia|]. unfold frel. cbn [f_s f_win f_left f_more f_last]. splits; auto; lia.
Qed.

Lemma fetch_n_sim want fq fx : frel fq fx -> simR frel (fetch_n want fq) (fetch_n want fx).
Proof.
  intros R. unfold fetch_n. apply fetch_sim; [|exact R].
  destruct R as ((E & _) & _). rewrite E. cbn [List.length]. lia.
Qed.



(* ---------- the rule cascade ---------- *)

Definition step_rel (rq rx : step_out) : Prop :=
  match rq, rx with
  | Continue fq, Continue fx => frel fq fx
  | Return nq fq, Return nx fx => nq = nx /\ frel fq fx
  | _, _ => False
  end.

Lemma guarded_true (g : bool) (m : res bool) : (if g then m else Ok false) = Ok true -> g = true.
Proof. destruct g; [reflexivity|discriminate]. Qed.

Ltac simp_t :=
  unfold cat_is, val_prefix, is_unary_op, is_arithmetic_op, set_cat in *;
  cbn [t_pos t_len t_count t_cat t_open t_close t_val f_s f_win f_left f_more f_last] in *.

(* the head is a string: a guard that wants another class there is false *)
Ltac kill_s :=
  repeat match goal with H : (if ?g then _ else Ok false) = Ok true |- _ => apply guarded_true in H end;
  repeat match goal with
         | H : context [beq cS ?c] |- _ =>
             let v := eval vm_compute in (beq cS c) in change (beq cS c) with v in H
         end;
  cbn [andb orb negb] in *; discriminate.

(* the opening marks of a token read from the window agree, or the token is the head *)
Ltac open_eq :=
  match goal with
  | |- ?oq = ?ox =>
      first [ reflexivity | assumption
            | match goal with
              | H : (_ /\ oq = ox) \/ _ |- _ => destruct H as [[_ ?]|(? & ? & ? & ?)]; [assumption|subst; exfalso; kill_s]
              end ]
  end.

Ltac blia := clear_bool; lia.

Ltac tsh_tac := unfold tsh, teq; simp_t; splits; try reflexivity; try open_eq; try blia.

(* an index or a new length that must stay clear of the head *)
Ltac idx_tac :=
  first [ solve [blia]
        | match goal with
          | H : (1 <= _ /\ _) \/ (_ = 0 /\ _) |- _ =>
              destruct H as [[? ?]|(? & ? & ? & ?)]; [blia|subst; exfalso; kill_s]
          end ].

Ltac frel_tac :=
  unfold step_rel, frel, upd; cbn [f_s f_win f_left f_more f_last]; splits;
  try assumption; try reflexivity; try blia; try (apply twin_bump; assumption);
  try (unfold bump_folds, set_stats, slen in *; cbn [input pos] in *; blia).

Ltac fstep :=
  lazymatch goal with
  | |- simR _ (Ok _) (Ok _) => apply simR_ret
  | |- simR _ (bind (wget _ _ _) _) (bind (wget _ _ _) _) =>
      apply sim_wget; [assumption | intros ?p ?l ?c ?k ?oq ?ox ?cl ?v ?Hi ?Ho]
  | |- simR _ (bind (wset _ _ _ _) _) (bind (wset _ _ _ _) _) =>
      apply sim_wset; [assumption | tsh_tac | idx_tac | intros ?wq' ?wx' ?W' ?L']
  | |- simR _ (bind (wtrunc _ _ _) _) (bind (wtrunc _ _ _) _) =>
      apply sim_wtrunc; [assumption | blia | idx_tac | intros ?wq' ?wx' ?W' ?L']
  | |- simR _ (bind (Ok _) _) (bind (Ok _) _) => cbn [bind]
  | |- simR eq ?m ?m => apply simR_refl
  | |- simR _ (if ?c then _ else _) (if ?c then _ else _) => destruct c eqn:?
  | |- simR _ (bind ?m _) (bind ?m _) =>
      eapply simR_bind with (R := eq); [apply simR_refl | intros ? ? ? ?E; subst]
  | |- simR _ (bind (if ?c then _ else _) _) (bind (if ?c then _ else _) _) => destruct c eqn:?
  end.

Ltac fgo := simp_t; repeat (fstep; simp_t).

Lemma rules3_sim fq fx : frel fq fx -> simR step_rel (rules3 fq) (rules3 fx).
Proof.
  destruct fq as [sq wq lq mq laq], fx as [sx wx lx mx lax]. unfold frel. cbn [f_s f_win f_left f_more f_last].
  intros (T & G & W & -> & -> & LR). unfold rules3. cbn [f_s f_win f_left f_more f_last]. cbv zeta.
  rewrite (win_rel_len _ _ W).
  fstep. fstep. fstep.
  destruct Ho0 as [[_ ->]|[? _]]; [|lia]. destruct Ho1 as [[_ ->]|[? _]]; [|lia].
  fgo.
  all: solve [frel_tac].
Qed.

(* the tail of the two-token rules: fetch a third token, then the three-token rules *)
Lemma three_sim (fetchq fetchx : fstate -> res fstate) fq fx :
  (forall gq gx, frel gq gx -> simR frel (fetchq gq) (fetchx gx)) ->
  frel fq fx ->
  simR step_rel
    (f <- fetchq fq ;;
     if wlen (f_win f) - f_left f <? 3
     then Ok (Continue (mkF (f_s f) (f_win f) (wlen (f_win f)) (f_more f) (f_last f)))
     else rules3 f)
    (f <- fetchx fx ;;
     if wlen (f_win f) - f_left f <? 3
     then Ok (Continue (mkF (f_s f) (f_win f) (wlen (f_win f)) (f_more f) (f_last f)))
     else rules3 f).
Proof.
  intros HF R. eapply simR_bind; [apply HF; exact R|].
  intros gq gx R' _. pose proof R' as (T & G & W & EL & EM & LR).
  rewrite (win_rel_len _ _ W), EL. destruct (wlen (f_win gx) - f_left gx <? 3).
  - apply simR_ret. unfold step_rel, frel. cbn [f_s f_win f_left f_more f_last]. splits; auto; lia.
  - apply rules3_sim. exact R'.
Qed.




Definition relM (i : Z) (mq mx : option token) : Prop :=
  match mq, mx with
  | Some aq, Some ax => tsh aq ax /\ 1 <= i
  | None, None => True
  | _, _ => False
  end.

Lemma merge_sim i p l c k oq ox cl v p0 l0 c0 k0 o0 cl0 v0 :
  (1 <= i /\ oq = ox) \/ (i = 0 /\ k = cS /\ oq = q /\ ox = x00) ->
  simR (relM i) (merge (mkTok (p + 1) l c k oq cl v) (mkTok (p0 + 1) l0 c0 k0 o0 cl0 v0))
            (merge (mkTok p l c k ox cl v) (mkTok p0 l0 c0 k0 o0 cl0 v0)).
Proof.
  intros Ho. unfold merge, merge_right_ok, merge_left_ok. simp_t.
  fstep; [apply simR_ret; exact I|]. fstep; [apply simR_ret; exact I|].
  fstep; [apply simR_ret; exact I|].
  fstep. fstep. fstep; [|apply simR_ret; exact I].
  assert (1 <= i /\ oq = ox) as [Hi ->].
  { destruct Ho as [Ho|(_ & Ho & _)]; [exact Ho|]. subst. exfalso. kill_s. }
  apply sim_assign; [reflexivity|]. intros last w. apply simR_ret. cbn [relM]. split; [tsh_tac|exact Hi].
Qed.

Lemma rules2_sim (fetchq fetchx : fstate -> res fstate) fq fx :
  (forall gq gx, frel gq gx -> simR frel (fetchq gq) (fetchx gx)) ->
  frel fq fx -> simR step_rel (rules2 fetchq fq) (rules2 fetchx fx).
Proof.
  intros HF. pose proof (three_sim fetchq fetchx) as H3. specialize (fun a b => H3 a b HF).
  destruct fq as [sq wq lq mq laq], fx as [sx wx lx mx lax]. unfold frel. cbn [f_s f_win f_left f_more f_last].
  intros (T & G & W & -> & -> & LR). unfold rules2. cbn [f_s f_win f_left f_more f_last]. cbv zeta.
  rewrite (win_rel_len _ _ W).
  fstep. fstep.
  destruct Ho0 as [[_ ->]|[? _]]; [|lia].
  fgo.
  all: try solve [frel_tac].
  eapply simR_bind; [apply (merge_sim lx); exact Ho|].
  intros [aq'|] [ax'|] RM _; cbn [relM] in RM; try contradiction.
  - destruct RM as [RM Hl1].
    destruct aq' as [p1 l1 c1 k1 o1 cl1 v1], ax' as [p2 l2 c2 k2 o2 cl2 v2].
    unfold tsh, teq in RM. cbn [t_pos t_len t_count t_cat t_open t_close t_val] in RM.
    destruct RM as ((-> & -> & -> & -> & -> & ->) & ->).
    fgo. all: try solve [frel_tac].
  - fgo.
    all: try solve [frel_tac].
    all: try (apply H3; solve [frel_tac]).

Qed.


(* ---------- one iteration of the main loop ---------- *)

Definition iter_rel (rq rx : iter_out) : Prop :=
  match rq, rx with
  | Again fq, Again fx => frel fq fx
  | Break fq, Break fx => frel fq fx /\ f_left fx = wlen (f_win fx)
  | Ret nq fq, Ret nx fx => nq = nx /\ frel fq fx
  | _, _ => False
  end.

Lemma five_special_sim wq wx : win_rel wq wx -> simR eq (five_special wq) (five_special wx).
Proof.
  intros W. unfold five_special. do 5 fstep. simp_t. apply simR_ret. reflexivity.
Qed.

Lemma fold_iter_sim fq fx : frel fq fx -> simR iter_rel (fold_iter fq) (fold_iter fx).
Proof.
  intros R. unfold fold_iter.
  eapply simR_bind with (R := frel).
  { destruct fq as [sq wq lq mq laq], fx as [sx wx lx mx lax]. unfold frel in R. cbn [f_s f_win f_left f_more f_last] in *.
    destruct R as (T & G & W & -> & -> & LR). rewrite (win_rel_len _ _ W).
    destruct (c_max_tokens <=? wlen wx) eqn:E5; [|apply simR_ret; frel_tac].
    eapply simR_bind with (R := eq); [apply five_special_sim; exact W|]. intros ? sp -> _.
    destruct sp; [|apply simR_ret; frel_tac].
    destruct (c_max_tokens <? wlen wx) eqn:E6.
    - fstep. destruct Ho as [[_ ->]|[? _]]; [|lia]. fgo. frel_tac.
    - fgo. frel_tac. }
  intros gq gx R' _. pose proof R' as (T & G & W & EL & EM & LR).
  rewrite EL, EM. destruct (negb (f_more gx) || (c_max_tokens <=? f_left gx)).
  { apply simR_ret. cbn [iter_rel]. rewrite (win_rel_len _ _ W). split; [|reflexivity].
    unfold frel. cbn [f_s f_win f_left f_more f_last]. splits; auto; lia. }
  eapply simR_bind; [apply fetch_n_sim; exact R'|].
  intros hq hx R2 _. pose proof R2 as (T2 & G2 & W2 & EL2 & EM2 & LR2).
  rewrite (win_rel_len _ _ W2), EL2. destruct (wlen (f_win hx) - f_left hx <? 2).
  { apply simR_ret. cbn [iter_rel]. unfold frel. cbn [f_s f_win f_left f_more f_last]. splits; auto; lia. }
  eapply simR_bind; [apply rules2_sim; [intros; apply fetch_n_sim; assumption|exact R2]|].
  intros [iq|nq iq] [ix|nx ix] SR _; cbn [step_rel] in SR; try contradiction; apply simR_ret; exact SR.
Qed.

(* ---------- after the loop ---------- *)

Definition fin_rel (rq rx : Z * fstate) : Prop :=
  fst rq = fst rx /\ win_rel (f_win (snd rq)) (f_win (snd rx)) /\ twin (f_s (snd rq)) (f_s (snd rx)).

Lemma fold_finish_sim fq fx : frel fq fx -> f_left fx = wlen (f_win fx) ->
  simR fin_rel (fold_finish fq) (fold_finish fx).
Proof.
  intros (T & G & W & EL & EM & LR) Hl. unfold fold_finish. rewrite EL, (lrel_cat _ _ _ LR), (win_rel_len _ _ W), Hl.
  rewrite Z.eqb_refl.
  destruct ((wlen (f_win fx) <? c_max_tokens) && cat_is (f_last fx) b_sqli_token_type_comment) eqn:E.
  - cbn [bind]. apply simR_ret. unfold fin_rel. cbn [fst snd f_s f_win]. splits; auto.
    apply win_rel_app; [exact W|]. destruct LR as [L|[_ L]]; [exact L|].
    apply andb_true_iff in E. destruct E as [_ E]. unfold cat_is in E. rewrite L in E. discriminate E.
  - cbn [bind]. apply simR_ret. unfold fin_rel. cbn [fst snd f_s f_win]. splits; auto.
Qed.

Definition steps_rel (rq rx : fstate + Z * fstate) : Prop :=
  match rq, rx with
  | inl fq, inl fx => frel fq fx
  | inr yq, inr yx => fin_rel yq yx
  | _, _ => False
  end.

Lemma fold_steps_sim k : forall fq fx, frel fq fx -> simR steps_rel (fold_steps k fq) (fold_steps k fx).
Proof.
  induction k as [|k IH]; intros fq fx R; cbn [fold_steps]; [apply simR_ret; exact R|].
  eapply simR_bind; [apply fold_iter_sim; exact R|].
  intros [gq|gq|nq gq] [gx|gx|nx gx] IR _; cbn [iter_rel] in IR; try contradiction.
  - apply IH. exact IR.
  - destruct IR as [IR Hl]. eapply simR_bind; [apply fold_finish_sim; assumption|].
    intros yq yx FR _. apply simR_ret. exact FR.
  - destruct IR as [-> IR]. apply simR_ret. cbn [steps_rel]. unfold fin_rel. cbn [fst snd].
    destruct IR as (T & _ & W & _). auto.
Qed.

Lemma fold_loop_sim : forall fuelx fuelq, (fuelx <= fuelq)%nat ->
  forall fq fx, frel fq fx -> simR fin_rel (fold_loop fuelq fq) (fold_loop fuelx fx).
Proof.
  induction fuelx as [|fuelx IH]; intros fuelq F fq fx R; [apply simR_fail_fuel|].
  destruct fuelq as [|fuelq]; [lia|]. cbn [fold_loop].
  eapply simR_bind; [apply fold_steps_sim; exact R|].
  intros [gq|yq] [gx|yx] SR _; cbn [steps_rel] in SR; try contradiction.
  - apply IH; [lia|exact SR].
  - apply simR_ret. exact SR.
Qed.



(* ---------- fold ---------- *)

Lemma wtrunc_simF site wq wx n : win_rel wq wx ->
  simR win_relF (wtrunc site wq n) (wtrunc site wx n).
Proof.
  intros W a E. unfold wtrunc in *. pose proof (win_rel_len _ _ W) as L. unfold wlen in L.
  destruct ((0 <=? n) && (n <=? Z.of_nat (List.length wx))) eqn:E1; [|discriminate E].
  inversion E; subst a. clear E.
  replace ((0 <=? n) && (n <=? Z.of_nat (List.length wq))) with true by lia.
  eexists. split; [reflexivity|].
  destruct wq as [|hq rq], wx as [|hx rx]; cbn [win_rel] in W; try contradiction.
  destruct W as (Th & Tc & F).
  destruct (Z.to_nat n) as [|m]; cbn [firstn win_relF]; [exact I|].
  splits; [exact Th|left; exact Tc|apply Forall2_firstn; exact F].
Qed.

Definition fold_rel (rq rx : list token * sqlst) : Prop :=
  win_relF (fst rq) (fst rx) /\ twin (snd rq) (snd rx).

Lemma skip_loop_S fuel s cur :
  skip_loop (S fuel) s cur =
  bind (tokenize s cur) (fun r => let '(more, t, s) := r in
    bind (is_unary_op t) (fun u =>
      if negb (cat_is t b_sqli_token_type_comment || cat_is t b_sqli_token_type_left_parenthesis
               || cat_is t b_sqli_token_type_sqltype || u)
      then Ok (more, t, s)
      else if (more : bool) then skip_loop fuel s t else Ok (more, t, s))).
Proof. reflexivity. Qed.

Lemma fold_sim x stt :
  x <> [] ->
  Z.land f2 (Z.lor c_sqli_flag_quote_single c_sqli_flag_quote_double) <> 0 ->
  flag2delimiter f2 = q ->
  Z.land f1 (Z.lor c_sqli_flag_quote_single c_sqli_flag_quote_double) = 0 ->
  dispatch q = PString ->
  simR fold_rel (fold (mkSt (q :: x) f1 0 stt)) (fold (mkSt x f2 0 stt)).
Proof.
  intros Hx Hf2 Hq Hf1 Hd. unfold fold. cbn [input List.length]. rewrite !skip_loop_S. rewrite !bind_assoc.
  assert (W0 : st_wf (mkSt x f2 0 stt)).
  { unfold st_wf, slen. cbn [pos input]. pose proof (len_nonneg x). lia. }
  eapply simR_bind.
  { eapply simR_wlp; [apply (tokenize_first q f1 f2 x stt tok0 tok0); assumption|].
    apply wp_to_wlp. apply (tokenize_spec _ tok0 W0). }
  intros [[mq tq] sq1] [[mx tx] sx1] [(R1 & R2 & R3 & R4 & R5 & R6 & R7) P] _. cbn [fst snd] in *. subst mq mx.
  destruct P as (P1 & P2 & P3 & P4 & P5 & P6). cbn [input pos slen] in *.
  assert (Cq : t_cat tq = cS) by (subst tq; exact R6).
  unfold is_unary_op, cat_is. rewrite Cq, R6.
  change (negb (beq cS b_sqli_token_type_operator)) with true. cbv iota. cbn [bind].
  change (negb (beq cS b_sqli_token_type_comment || beq cS b_sqli_token_type_left_parenthesis
                || beq cS b_sqli_token_type_sqltype || false)) with true. cbv iota. cbn [bind negb]. cbv iota.
  eapply simR_bind.
  { apply fold_loop_sim.
    - unfold fold_fuel. destruct R3 as (E & _). rewrite E. cbn [List.length]. lia.
    - unfold frel. cbn [f_s f_win f_left f_more f_last]. splits; auto.
      + unfold slen in *. rewrite P1. cbn [input] in P4. lia.
      + cbn [win_rel]. splits; auto. subst tq. unfold thd, set_open, shift_tok.
        cbn [t_pos t_len t_count t_cat t_open t_close t_val]. splits; auto.
      + right. split; reflexivity. }
  intros [nq gq] [nx gx] (FR1 & FR2 & FR3) _. cbn [fst snd] in *. subst nq.
  eapply simR_bind; [apply wtrunc_simF; exact FR2|].
  intros wq wx WF _. apply simR_ret. split; assumption.
Qed.






(* ---------- sqliFingerprint ---------- *)

Lemma relF_tail_get site wq wx i tx : win_relF wq wx -> 1 <= i -> wget site wx i = Ok tx ->
  exists tq, wget site wq i = Ok tq /\ tsh tq tx.
Proof.
  intros W Hi E. unfold wget in *. destruct (0 <=? i) eqn:E0; [|lia].
  destruct wq as [|hq rq], wx as [|hx rx]; cbn [win_relF] in W; try contradiction.
  - destruct (Z.to_nat i); discriminate E.
  - destruct W as (Th & Tc & F). destruct (Z.to_nat i) as [|n] eqn:En; [lia|]. cbn [nth_error] in *.
    destruct (nth_error rx n) as [t|] eqn:N; [|discriminate E]. inversion E; subst t.
    destruct (Forall2_nth _ _ _ _ _ F N) as [tq [Nq T]]. rewrite Nq. eauto.
Qed.

Lemma relF_tail_set site wq wx i tq tx : win_relF wq wx -> 1 <= i -> tsh tq tx ->
  simR win_relF (wset site wq i tq) (wset site wx i tx).
Proof.
  intros W Hi T a E. unfold wset in *. pose proof (win_relF_len _ _ W) as L. unfold wlen in L.
  destruct ((0 <=? i) && (i <? Z.of_nat (List.length wx))) eqn:E1; [|discriminate E].
  inversion E; subst a. clear E.
  replace ((0 <=? i) && (i <? Z.of_nat (List.length wq))) with true by lia.
  eexists. split; [reflexivity|].
  destruct wq as [|hq rq], wx as [|hx rx]; cbn [win_relF] in W; try contradiction; [exact I|].
  destruct W as (Th & Tc & F). destruct (Z.to_nat i) as [|n] eqn:En; [lia|]. cbn [replace_nth win_relF].
  splits; [exact Th|exact Tc|apply Forall2_replace_nth; assumption].
Qed.

Lemma relF_head_get site wq wx tx : win_relF wq wx -> wget site wx 0 = Ok tx ->
  exists tq, wget site wq 0 = Ok tq /\ thd tq tx /\ (t_cat tx = cS \/ t_cat tx = b_sqli_token_type_evil).
Proof.
  intros W E. unfold wget in *. cbn [Z.leb Z.compare Z.to_nat nth_error] in *.
  destruct wq as [|hq rq], wx as [|hx rx]; cbn [win_relF] in W; try contradiction; [discriminate E|].
  inversion E; subst. destruct W as (Th & Tc & _). eauto.
Qed.

Lemma relF_head_set site wq wx tq tx : win_relF wq wx -> thd tq tx ->
  t_cat tx = cS \/ t_cat tx = b_sqli_token_type_evil ->
  simR win_relF (wset site wq 0 tq) (wset site wx 0 tx).
Proof.
  intros W T Tk a E. unfold wset in *. pose proof (win_relF_len _ _ W) as L. unfold wlen in L.
  destruct ((0 <=? 0) && (0 <? Z.of_nat (List.length wx))) eqn:E1; [|discriminate E].
  inversion E; subst a. clear E.
  replace ((0 <=? 0) && (0 <? Z.of_nat (List.length wq))) with true by lia.
  eexists. split; [reflexivity|].
  destruct wq as [|hq rq], wx as [|hx rx]; cbn [win_relF] in W; try contradiction; [exact I|].
  destruct W as (Th & Tc & F). cbn [Z.to_nat replace_nth win_relF]. splits; assumption.
Qed.

Lemma fp_loop_cats : forall wq wx acc,
  Forall2 (fun a b => t_cat a = t_cat b) wq wx -> fp_loop wq acc = fp_loop wx acc.
Proof.
  intros wq wx acc F. revert acc. induction F as [|a b wq wx Hab F IH]; intros acc; cbn [fp_loop]; [reflexivity|].
  unfold cat_is. rewrite Hab. destruct (beq (t_cat b) b_sqli_token_type_evil); [reflexivity|]. apply IH.
Qed.

Lemma relF_cats wq wx : win_relF wq wx -> Forall2 (fun a b => t_cat a = t_cat b) wq wx.
Proof.
  destruct wq as [|hq rq], wx as [|hx rx]; cbn [win_relF]; try contradiction; [constructor|].
  intros ((_ & _ & _ & C & _) & _ & F). constructor; [exact C|].
  induction F as [|a b l1 l2 ((_ & _ & C' & _) & _) F IH]; constructor; auto.
Qed.

Definition fp_rel (rq rx : bytes * list token * sqlst) : Prop :=
  fst (fst rq) = fst (fst rx) /\ win_relF (snd (fst rq)) (snd (fst rx)) /\ twin (snd rq) (snd rx).

Lemma sqli_fingerprint_sim sq0 sx0 :
  input sq0 = q :: input sx0 -> input sx0 <> [] ->
  (f1 =? 0) = false -> (f2 =? 0) = false ->
  Z.land f2 (Z.lor c_sqli_flag_quote_single c_sqli_flag_quote_double) <> 0 ->
  flag2delimiter f2 = q ->
  Z.land f1 (Z.lor c_sqli_flag_quote_single c_sqli_flag_quote_double) = 0 ->
  dispatch q = PString ->
  simR fp_rel (sqli_fingerprint sq0 f1) (sqli_fingerprint sx0 f2).
Proof.
  intros Ei Hx Z1 Z2 Hf2 Hq Hf1 Hd. unfold sqli_fingerprint, reset, sqli_init. rewrite Z1, Z2, Ei.
  eapply simR_bind; [apply fold_sim; assumption|].
  intros [wq sq] [wx sx] [WF T] _. cbn [fst snd] in *.
  rewrite (win_relF_len _ _ WF).
  eapply simR_bind with (R := win_relF).
  { destruct (2 <? wlen wx) eqn:E2; [|apply simR_ret; exact WF].
    assert (H1 : 1 <= wlen wx - 1) by lia.
    intros a E. inv_bind E.
    destruct (relF_tail_get _ _ _ _ _ WF H1 E0) as [tq [Eq Tt]]. rewrite Eq. cbn [bind].
    pose proof Tt as ((A1 & A2 & A3 & A4 & A5 & A6) & A7).
    unfold cat_is in *. rewrite A1, A3, A4, A5.
    destruct (beq (t_cat a0) b_sqli_token_type_bare_word && beq (t_open a0) b_byte_tick && (t_len a0 =? 0)
              && beq (t_close a0) x00).
    - refine (relF_tail_set _ _ _ _ (set_cat tq b_sqli_token_type_comment) (set_cat a0 b_sqli_token_type_comment) WF H1 _ _ E).
      unfold tsh, teq, set_cat. cbn [t_pos t_len t_count t_cat t_open t_close t_val]. splits; auto.
    - inversion E; subst a. eexists. split; [reflexivity|exact WF]. }
  intros wq' wx' WF' _. rewrite (fp_loop_cats _ _ _ (relF_cats _ _ WF')).
  destruct (fp_loop wx' []) as [fp|].
  - apply simR_ret. unfold fp_rel. cbn [fst snd]. auto.
  - intros a E. inv_bind E. destruct (relF_head_get _ _ _ _ WF' E0) as [tq [Eq [Th _]]]. rewrite Eq. cbn [bind].
    inv_bind E.
    assert (Th' : thd (mkTok (t_pos tq) (t_len tq) (t_count tq) b_sqli_token_type_evil (t_open tq) (t_close tq)
                         [b_sqli_token_type_evil])
                      (mkTok (t_pos a0) (t_len a0) (t_count a0) b_sqli_token_type_evil (t_open a0) (t_close a0)
                         [b_sqli_token_type_evil])).
    { destruct Th as (B1 & B2 & B3 & B4 & B5 & B6 & B7 & B8). unfold thd.
      cbn [t_pos t_len t_count t_cat t_open t_close t_val]. splits; auto. }
    destruct (relF_head_set _ _ _ _ _ WF' Th' (or_intror eq_refl) _ E1) as [wq2 [Eq2 WF2]]. rewrite Eq2. cbn [bind].
    inversion E; subst a. eexists. split; [reflexivity|]. unfold fp_rel. cbn [fst snd]. auto.
Qed.

End Fold.

Print Assumptions sqli_fingerprint_sim.

