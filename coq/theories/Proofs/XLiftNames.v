(* XLiftNames: names under case change and NUL insertion (name_variant):
   the tokenizer still reads them as one name, and the tag / attribute tables
   classify them as the original name. *)
From Coq Require Import List ZArith String Bool Lia ZifyBool.
From Coq.Strings Require Import Byte.
From LI Require Import Prelude Base Html5 Xss Proofs.BaseFacts Spec.XCiSpec Proofs.XCiBase Proofs.XCiXss
  Proofs.XCiNulBase Spec.RefHtml Proofs.RefHtmlProofs Proofs.XLiftSpec Proofs.XLiftRef.
From LIGen Require Import Consts.
Import ListNotations.
Local Open Scope Z_scope.

(* ---------- NUL insertion ---------- *)

Lemma nul_inside_fold n n' : nul_inside n n' -> fold_name n' = fold_name n.
Proof.
  induction 1 as [|n a b H IH Ha Hb]; [reflexivity|].
  rewrite <- IH. rewrite <- !fold_name_eq. apply upper_without_nulls_ins.
Qed.

Lemma nul_inside_hd n n' d : nul_inside n n' -> hd d n' = hd d n.
Proof.
  induction 1 as [|n a b H IH Ha Hb]; [reflexivity|].
  rewrite <- IH. destruct a as [|x a]; [contradiction|reflexivity].
Qed.

Lemma nul_inside_forallb p n n' : p x00 = true -> nul_inside n n' ->
  forallb p n = true -> forallb p n' = true.
Proof.
  intros Hp. induction 1 as [|n a b H IH Ha Hb]; intros F; [exact F|].
  specialize (IH F). rewrite forallb_app in *. cbn [forallb]. rewrite Hp. exact IH.
Qed.

Lemma nul_inside_len n n' : nul_inside n n' -> len n <= len n'.
Proof.
  induction 1 as [|n a b H IH Ha Hb]; [lia|].
  rewrite len_app, len_cons. rewrite len_app in IH. lia.
Qed.

Lemma nul_inside_nonempty n n' : nul_inside n n' -> n <> [] -> n' <> [].
Proof.
  intros H Hn E. pose proof (nul_inside_len n n' H) as L. subst n'. rewrite len_nil in L.
  destruct n; [contradiction|]. rewrite len_cons in L. pose proof (len_nonneg n). lia.
Qed.

(* the form of C11b: one more NUL after the first k bytes, 0 < k < len *)
Lemma nul_inside_at n n' k : nul_inside n n' -> 0 < k < len n' ->
  nul_inside n (firstn (Z.to_nat k) n' ++ [x00] ++ skipn (Z.to_nat k) n').
Proof.
  intros H K. apply NI_ins.
  - rewrite firstn_skipn. exact H.
  - intros E. apply (f_equal len) in E. rewrite len_firstn, len_nil in E. lia.
  - intros E. apply (f_equal len) in E. rewrite len_skipn, len_nil in E. lia.
Qed.

(* ---------- case change ---------- *)

Lemma cv_forallb p s s' : resp p = true -> cv s s' -> forallb p s' = forallb p s.
Proof.
  intros R. induction 1 as [|b b' s s' Hb H IH]; [reflexivity|].
  cbn [forallb]. rewrite (cvb_resp p b b' R Hb), IH. reflexivity.
Qed.

Lemma cv_fold s s' : cv s s' -> fold_name s' = fold_name s.
Proof. intros H. rewrite <- !fold_name_eq. apply upper_without_nulls_cv, H. Qed.

(* ---------- name_variant ---------- *)

Lemma variant_fold n n' : name_variant n n' -> fold_name n' = fold_name n.
Proof. intros (m & C & I). rewrite (nul_inside_fold m n' I). apply cv_fold, C. Qed.

Lemma variant_len n n' : name_variant n n' -> len n <= len n'.
Proof. intros (m & C & I). rewrite <- (cv_len n m C). apply nul_inside_len, I. Qed.

Lemma variant_attr_type n n' : name_variant n n' -> ref_attr_type n' = ref_attr_type n.
Proof. intros H. unfold ref_attr_type. rewrite (variant_fold n n' H). reflexivity. Qed.

Lemma variant_black_tag n n' : name_variant n n' -> ref_is_black_tag n = true -> ref_is_black_tag n' = true.
Proof.
  intros H. unfold ref_is_black_tag. rewrite (variant_fold n n' H). pose proof (variant_len n n' H).
  intros B. apply andb_true_iff in B. destruct B as [B1 B2]. rewrite B2.
  replace (3 <=? len n') with true by lia. reflexivity.
Qed.

Lemma variant_name_ok n n' : name_variant n n' -> name_ok n = true -> name_ok n' = true.
Proof.
  intros (m & C & I) H. unfold name_ok in *. apply andb_true_iff in H. destruct H as [H1 H2].
  apply andb_true_iff. split.
  - destruct n as [|b n]; [discriminate|].
    destruct (cv_cons_l b n m C) as (b' & m' & -> & Cb & _).
    pose proof (nul_inside_hd _ _ x00 I) as Hh. cbn [hd] in Hh.
    pose proof (nul_inside_nonempty _ _ I ltac:(discriminate)) as Ne.
    destruct n' as [|c n']; [contradiction|]. cbn [hd] in Hh. subst c.
    rewrite (cvb_beq b b' x00 Cb) by reflexivity. exact H1.
  - apply (nul_inside_forallb _ m n'); [reflexivity|exact I|].
    rewrite (cv_forallb _ n m); [exact H2|vm_compute; reflexivity|exact C].
Qed.

Lemma variant_tag_ok n n' : name_variant n n' -> tag_ok n = true -> tag_ok n' = true.
Proof.
  intros (m & C & I) H. unfold tag_ok in *. apply andb_true_iff in H. destruct H as [H1 H2].
  apply andb_true_iff. split.
  - destruct n as [|b n]; [discriminate|].
    destruct (cv_cons_l b n m C) as (b' & m' & -> & Cb & _).
    pose proof (nul_inside_hd _ _ x00 I) as Hh. cbn [hd] in Hh.
    pose proof (nul_inside_nonempty _ _ I ltac:(discriminate)) as Ne.
    destruct n' as [|c n']; [contradiction|]. cbn [hd] in Hh. subst c.
    rewrite (cvb_resp is_ascii_letter b b' ltac:(vm_compute; reflexivity) Cb). exact H1.
  - apply (nul_inside_forallb _ m n'); [reflexivity|exact I|].
    rewrite (cv_forallb _ n m); [exact H2|vm_compute; reflexivity|exact C].
Qed.

Lemma variant_refl n : name_variant n n.
Proof. exists n. split; [apply cv_refl|apply NI_same]. Qed.

Lemma variant_nul n n' : nul_inside n n' -> name_variant n n'.
Proof. intros H. exists n. split; [apply cv_refl|exact H]. Qed.

Lemma variant_cv n n' : cv n n' -> name_variant n n'.
Proof. intros H. exists n'. split; [exact H|apply NI_same]. Qed.

(* ---------- the regenerated lists ---------- *)

Definition all_black_tags : list bytes := black_tags ++ [bs "SVT"; bs "XSL"].

Lemma tags_sweep : forall t, In t all_black_tags -> tag_ok t = true /\ ref_is_black_tag t = true.
Proof.
  intros t H.
  assert (E : forallb (fun t => tag_ok t && ref_is_black_tag t) all_black_tags = true)
    by (vm_compute; reflexivity).
  rewrite forallb_forall in E. specialize (E _ H). apply andb_true_iff in E. exact E.
Qed.

Lemma blacks_sweep : forall e, In e blacks -> name_ok (fst e) = true /\ ref_attr_type (fst e) = snd e.
Proof.
  intros e H.
  assert (E : forallb (fun e => name_ok (fst e) && (ref_attr_type (fst e) =? snd e)) blacks = true)
    by (vm_compute; reflexivity).
  rewrite forallb_forall in E. specialize (E _ H). apply andb_true_iff in E. destruct E as [E1 E2].
  split; [exact E1|apply Z.eqb_eq; exact E2].
Qed.

Lemma events_sweep : forall e, In e black_events ->
  name_ok (bs "ON" ++ fst e) = true /\ ref_attr_type (bs "ON" ++ fst e) = snd e.
Proof.
  intros e H.
  assert (E : forallb (fun e => name_ok (bs "ON" ++ fst e) && (ref_attr_type (bs "ON" ++ fst e) =? snd e))
                black_events = true)
    by (vm_compute; reflexivity).
  rewrite forallb_forall in E. specialize (E _ H). apply andb_true_iff in E. destruct E as [E1 E2].
  split; [exact E1|apply Z.eqb_eq; exact E2].
Qed.
