(* WsMixBase: definitions for the finite mixed-separator sweep (see WsMixSweep.v). *)
From Coq Require Import List ZArith String Bool.
From Coq.Strings Require Import Byte.
From LI Require Import Prelude Base SqliLex SqliFold GrammarSqli.
From LIGen Require Import C03CoreAll.
Import ListNotations.

Definition cmt : bytes := bs "/**/".

(* every member of `cases` is reported when all its slots hold the separator m *)
Definition mix1_ok (m : bytes) (cases : list (list bytes)) : bool :=
  forallb (fun segs => detected (inst m segs)) cases.

Lemma detected_spec s : detected s = true -> exists fp, is_sqli s = Ok (true, fp).
Proof.
  unfold detected. destruct (is_sqli s) as [[[|] fp]| | |]; try discriminate. intros _. exists fp. reflexivity.
Qed.

Lemma mix1_ok_spec m cases : mix1_ok m cases = true ->
  forall segs, In segs cases -> exists fp, is_sqli (inst m segs) = Ok (true, fp).
Proof.
  unfold mix1_ok. intros H segs Hs. rewrite forallb_forall in H. exact (detected_spec _ (H segs Hs)).
Qed.
