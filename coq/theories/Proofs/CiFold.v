(* CiFold: the folder of sqli.go (merge, the rule cascade, fold) run in lock-step
   on two inputs that are equal up to ASCII case (property C10). *)
From Coq Require Import List ZArith String Bool Lia ZifyBool.
From Coq.Strings Require Import Byte.
From LI Require Import Prelude Base SqliLex SqliFold Proofs.BaseFacts Proofs.Wp Proofs.LexBase Proofs.LexSpec
  Spec.CiSpec Proofs.CiBase Proofs.CiLex.
From LIGen Require Import Tables Dispatch Consts.
Import ListNotations.
Local Open Scope Z_scope.

(* ---------- the token window ---------- *)

Definition win_ci (w w' : list token) : Prop := Forall2 tok_ci w w'.

Lemma win_length w w' : win_ci w w' -> List.length w' = List.length w.
Proof. intros H. induction H; cbn; congruence. Qed.

Lemma win_wlen w w' : win_ci w w' -> wlen w' = wlen w.
Proof. intros H. unfold wlen. rewrite (win_length _ _ H). reflexivity. Qed.

Lemma rel_wget site w w' i : win_ci w w' -> rel_res tok_ci (wget site w i) (wget site w' i).
Proof.
  intros H. unfold wget. destruct (0 <=? i); [|reflexivity].
  generalize (Z.to_nat i). induction H as [|t t' w w' Ht H IH]; intros n; [destruct n; reflexivity|].
  destruct n as [|n]; cbn [nth_error]; [exact Ht|apply IH].
Qed.

Lemma win_replace_nth w w' n t t' : win_ci w w' -> tok_ci t t' -> win_ci (replace_nth w n t) (replace_nth w' n t').
Proof.
  intros H Ht. revert n. induction H as [|a a' w w' Ha H IH]; intros n; [destruct n; constructor|].
  destruct n as [|n]; cbn [replace_nth]; constructor; auto. apply IH.
Qed.

Lemma rel_wset site w w' i t t' : win_ci w w' -> tok_ci t t' ->
  rel_res win_ci (wset site w i t) (wset site w' i t').
Proof.
  intros H Ht. unfold wset. rewrite (win_length _ _ H).
  destruct ((0 <=? i) && (i <? Z.of_nat (List.length w))); [|reflexivity].
  apply rel_Ok. apply win_replace_nth; assumption.
Qed.

Lemma win_firstn n : forall w w', win_ci w w' -> win_ci (firstn n w) (firstn n w').
Proof.
  induction n as [|n IH]; intros w w' H; [constructor|].
  destruct H; cbn [firstn]; constructor; [assumption|]. apply IH. assumption.
Qed.

Lemma rel_wtrunc site w w' n : win_ci w w' -> rel_res win_ci (wtrunc site w n) (wtrunc site w' n).
Proof.
  intros H. unfold wtrunc. rewrite (win_length _ _ H).
  destruct ((0 <=? n) && (n <=? Z.of_nat (List.length w))); [|reflexivity].
  apply rel_Ok. apply win_firstn. exact H.
Qed.

Lemma win_app w w' t t' : win_ci w w' -> tok_ci t t' -> win_ci (w ++ [t]) (w' ++ [t']).
Proof. intros H Ht. apply Forall2_app; [exact H|]. constructor; [exact Ht|constructor]. Qed.

(* ---------- fold states ---------- *)

Definition fs_ci (G : bytes -> bytes -> Prop) (f f' : fstate) : Prop :=
  st_ci (f_s f) (f_s f') /\ win_ci (f_win f) (f_win f') /\ f_left f = f_left f' /\
  f_more f = f_more f' /\ tok_ci (f_last f) (f_last f') /\ G (input (f_s f)) (input (f_s f')) /\ st_wf (f_s f).

Lemma fs_ci_inv (G : bytes -> bytes -> Prop) f f' : fs_ci G f f' ->
  exists s s' w w' l m t t', f = mkF s w l m t /\ f' = mkF s' w' l m t' /\
    st_ci s s' /\ win_ci w w' /\ tok_ci t t' /\ G (input s) (input s') /\ st_wf s.
Proof.
  destruct f, f'. unfold fs_ci. cbn. intros (H1 & H2 & -> & -> & H5 & H6 & H7).
  do 8 eexists. split; [reflexivity|]. split; [reflexivity|]. auto 10.
Qed.

Lemma fs_ci_mk (G : bytes -> bytes -> Prop) s s' w w' l m t t' :
  st_ci s s' -> win_ci w w' -> tok_ci t t' -> G (input s) (input s') -> st_wf s ->
  fs_ci G (mkF s w l m t) (mkF s' w' l m t').
Proof. intros. unfold fs_ci. cbn. auto 10. Qed.

Inductive step_ci (G : bytes -> bytes -> Prop) : step_out -> step_out -> Prop :=
| step_ci_continue f f' : fs_ci G f f' -> step_ci G (Continue f) (Continue f')
| step_ci_return n f f' : fs_ci G f f' -> step_ci G (Return n f) (Return n f').

Definition opt_ci (o o' : option token) : Prop :=
  match o, o' with
  | Some t, Some t' => tok_ci t t'
  | None, None => True
  | _, _ => False
  end.

(* ---------- tactics ---------- *)

Ltac unpack_fs H :=
  let s := fresh "s" in let s' := fresh "s'" in let w := fresh "w" in let w' := fresh "w'" in
  let l := fresh "lf" in let m := fresh "more" in let t := fresh "lc" in let t' := fresh "lc'" in
  let E1 := fresh in let E2 := fresh in
  let H1 := fresh "Hs" in let H2 := fresh "Hw" in let H3 := fresh "Hlc" in let H4 := fresh "HG" in let H5 := fresh "Hwf" in
  destruct (fs_ci_inv _ _ _ H) as (s & s' & w & w' & l & m & t & t' & E1 & E2 & H1 & H2 & H3 & H4 & H5);
  clear H; try subst; unpack H1; unpack H3;
  unfold st_wf, slen in H5; cbn [f_s f_win f_left f_more f_last input pos] in *.

Ltac win_norm :=
  repeat match goal with
         | H : win_ci ?w ?w' |- _ => progress rewrite ?(win_wlen _ _ H), ?(win_length _ _ H)
         end.
Ltac opt_norm :=
  repeat match goal with
         | H : opt_ci ?a ?a' |- _ =>
             destruct a, a'; cbn [opt_ci] in H; try contradiction; [unpack H | clear H]
         end.
Ltac norm_hook ::= win_norm; opt_norm.

Ltac unfold_fold :=
  unfold cat_is, cat_in, val_prefix, upd, bump_folds, name_is_function_like in *; unfold_sets;
  cbn [f_s f_win f_left f_more f_last] in *.

Ltac solve_fold :=
  lazymatch goal with
  | |- opt_ci (Some _) (Some _) => cbn [opt_ci]; solve_ci
  | |- win_ci (_ ++ [_]) (_ ++ [_]) => apply win_app; solve_ci
  | |- fs_ci _ _ _ => unfold_fold; win_norm; apply fs_ci_mk; [solve_ci | solve_ci | solve_ci | solve_ci | unfold st_wf, slen; simp_rec; first [assumption | lia]]
  | |- step_ci _ (Continue _) (Continue _) => apply step_ci_continue; solve_ci
  | |- step_ci _ (Return _ _) (Return _ _) => apply step_ci_return; solve_ci
  end.
Ltac solve_hook ::= solve_fold.

(* ---------- token predicates ---------- *)

Lemma is_unary_op_ci t t' : tok_ci t t' -> rel_res eq (is_unary_op t) (is_unary_op t').
Proof. intros Ht. unpack Ht. unfold is_unary_op. unfold_fold. cv_norm_all. rel_go. Qed.

Lemma is_arithmetic_op_ci t t' : tok_ci t t' -> rel_res eq (is_arithmetic_op t) (is_arithmetic_op t').
Proof. intros Ht. unpack Ht. unfold is_arithmetic_op. unfold_fold. cv_norm_all. rel_go. Qed.

Lemma merge_ci a a' b b' : tok_ci a a' -> tok_ci b b' -> rel_res opt_ci (merge a b) (merge a' b').
Proof.
  intros Ha Hb. unpack Ha. unpack Hb. unfold merge, merge_left_ok, merge_right_ok. unfold_fold.
  repeat (rel_step; cbv beta zeta).
  match goal with
  | H1 : cv ?a ?a', H2 : cv ?b ?b' |- context [?a ++ [x20] ++ ?b] =>
      assert (K : cv (a ++ [x20] ++ b) (a' ++ [x20] ++ b')) by (apply cv_app; [exact H1|apply cv_cons; [reflexivity|exact H2]])
  end.
  cv_norm K. rel_go.
Qed.


Ltac hookF :=
  lazymatch goal with
  | |- rel_res _ (wget _ _ _) (wget _ _ _) => apply rel_wget; solve_ci
  | |- rel_res _ (wset _ _ _ _) (wset _ _ _ _) => apply rel_wset; solve_ci
  | |- rel_res _ (wtrunc _ _ _) (wtrunc _ _ _) => apply rel_wtrunc; solve_ci
  | |- rel_res _ (is_unary_op _) (is_unary_op _) => apply is_unary_op_ci; solve_ci
  | |- rel_res _ (is_arithmetic_op _) (is_arithmetic_op _) => apply is_arithmetic_op_ci; solve_ci
  | |- rel_res _ (merge _ _) (merge _ _) => apply merge_ci; solve_ci
  end.
Ltac rel_hook ::= hookF.

Lemma five_special_ci w w' : win_ci w w' -> rel_res eq (five_special w) (five_special w').
Proof. intros H. unfold five_special. unfold_fold. rel_go. Qed.

Lemma rules3_ci G f f' : fs_ci G f f' -> rel_res (step_ci G) (rules3 f) (rules3 f').
Proof.
  intros H. unpack_fs H. unfold rules3. unfold_fold. win_norm. rel_go.
Qed.

(* ---------- fetching tokens ---------- *)

Lemma fetch_ci G (PO : parser_ok G) fuel : forall want f f',
  fs_ci G f f' -> rel_res (fs_ci G) (fetch fuel want f) (fetch fuel want f').
Proof.
  induction fuel as [|fuel IH]; intros want f f' H; cbn [fetch]; [exact I|].
  destruct (fs_ci_inv _ _ _ H) as (s & s' & w & w' & l & m & t & t' & -> & -> & Hs & Hw & Ht & HG & Hwf).
  cbn [f_s f_win f_left f_more f_last]. rewrite (win_wlen _ _ Hw).
  destruct (m && (wlen w <=? c_max_tokens) && (wlen w - l <? want)); [|apply rel_Ok; exact H].
  eapply rel_bind; [apply (tokenize_ci_inv G PO); try assumption; apply tok_ci_refl|].
  intros [[more t1] s1] [[more' t1'] s1'] ((Hm & Ht1 & Hs1) & HG1 & Hwf1 & _). cbn [fst snd] in *. subst more'.
  pose proof Ht1 as (_ & _ & _ & Hcat & _). unfold cat_is. rewrite <- Hcat.
  destruct more.
  - destruct (beq (t_cat t1) b_sqli_token_type_comment).
    + apply IH. apply fs_ci_mk; assumption.
    + apply IH. apply fs_ci_mk; try assumption.
      * apply win_app; assumption.
      * clear - Ht. unpack Ht. unfold set_cat. cbn. apply tok_ci_mk. assumption.
  - apply IH. apply fs_ci_mk; assumption.
Qed.

Lemma fetch_n_ci G (PO : parser_ok G) want f f' :
  fs_ci G f f' -> rel_res (fs_ci G) (fetch_n want f) (fetch_n want f').
Proof.
  intros H. unfold fetch_n. pose proof H as ((Hi & _) & _). rewrite (cv_length _ _ Hi).
  apply (fetch_ci G PO). exact H.
Qed.

(* ---------- the two-token rules ---------- *)

Ltac fs_norm := repeat match goal with H : fs_ci _ _ _ |- _ => unpack_fs H end.
Ltac norm_hook ::= fs_norm; win_norm; opt_norm.

Ltac hookG :=
  lazymatch goal with
  | |- rel_res _ (fetch_n _ _) (fetch_n _ _) => eapply fetch_n_ci; [eassumption | solve_ci]
  | |- rel_res _ (rules3 _) (rules3 _) => apply rules3_ci; solve_ci
  | |- rel_res _ (five_special _) (five_special _) => apply five_special_ci; solve_ci
  | _ => hookF
  end.
Ltac rel_hook ::= hookG.

Lemma rules2_ci G (PO : parser_ok G) f f' :
  fs_ci G f f' -> rel_res (step_ci G) (rules2 (fetch_n 3) f) (rules2 (fetch_n 3) f').
Proof.
  intros H. unpack_fs H. unfold rules2. unfold_fold. win_norm.
  rel_go.
Qed.

(* ---------- one iteration, the loop, fold ---------- *)

Inductive iter_ci (G : bytes -> bytes -> Prop) : iter_out -> iter_out -> Prop :=
| iter_ci_again f f' : fs_ci G f f' -> iter_ci G (Again f) (Again f')
| iter_ci_break f f' : fs_ci G f f' -> iter_ci G (Break f) (Break f')
| iter_ci_ret n f f' : fs_ci G f f' -> iter_ci G (Ret n f) (Ret n f').

Ltac step_norm :=
  repeat match goal with
         | H : step_ci _ ?r ?r' |- _ => destruct H
         end.
Ltac norm_hook ::= step_norm; fs_norm; win_norm; opt_norm.

Ltac solve_fold2 :=
  lazymatch goal with
  | |- iter_ci _ (Again _) (Again _) => apply iter_ci_again; solve_ci
  | |- iter_ci _ (Break _) (Break _) => apply iter_ci_break; solve_ci
  | |- iter_ci _ (Ret _ _) (Ret _ _) => apply iter_ci_ret; solve_ci
  | _ => solve_fold
  end.
Ltac solve_hook ::= solve_fold2.

Ltac hookH :=
  lazymatch goal with
  | |- rel_res _ (rules2 _ _) (rules2 _ _) => eapply rules2_ci; [eassumption | solve_ci]
  | _ => hookG
  end.
Ltac rel_hook ::= hookH.

Lemma fold_iter_ci G (PO : parser_ok G) f f' :
  fs_ci G f f' -> rel_res (iter_ci G) (fold_iter f) (fold_iter f').
Proof.
  intros H. unpack_fs H. unfold fold_iter. unfold_fold. win_norm.
  repeat (first [rel_hoist | rel_step]; cbv beta zeta; cbn [f_s f_win f_left f_more f_last]; win_norm).
Qed.

Definition fin_ci (G : bytes -> bytes -> Prop) (r r' : Z * fstate) : Prop :=
  fst r = fst r' /\ fs_ci G (snd r) (snd r').

Lemma fold_finish_ci G f f' : fs_ci G f f' -> rel_res (fin_ci G) (fold_finish f) (fold_finish f').
Proof.
  intros H. unpack_fs H. unfold fold_finish. unfold_fold. win_norm. cbv beta zeta.
  eapply rel_bind with (R := fun r r' => win_ci (fst r) (fst r') /\ snd r = snd r').
  - rel_go; cbn [fst snd]; (split; [|reflexivity]); solve_ci.
  - intros [w1 l1] [w1' l1'] (A & B). cbn [fst snd] in A, B. subst l1'. cbv beta zeta.
    apply rel_Ok. unfold fin_ci. cbn [fst snd]. split; [reflexivity|]. solve_ci.
Qed.

Definition steps_ci (G : bytes -> bytes -> Prop) (r r' : fstate + Z * fstate) : Prop :=
  match r, r' with
  | inl f, inl f' => fs_ci G f f'
  | inr x, inr x' => fin_ci G x x'
  | _, _ => False
  end.

Lemma fold_steps_ci G (PO : parser_ok G) k : forall f f',
  fs_ci G f f' -> rel_res (steps_ci G) (fold_steps k f) (fold_steps k f').
Proof.
  induction k as [|k IH]; intros f f' H; cbn [fold_steps]; [exact H|].
  eapply rel_bind; [apply (fold_iter_ci G PO); exact H|].
  intros r r' Hr. destruct Hr as [g g' Hg | g g' Hg | n g g' Hg].
  - apply IH. exact Hg.
  - eapply rel_bind; [apply fold_finish_ci; exact Hg|]. intros x x' Hx. exact Hx.
  - apply rel_Ok. cbn. split; [reflexivity|exact Hg].
Qed.

Lemma fold_loop_ci G (PO : parser_ok G) fuel : forall f f',
  fs_ci G f f' -> rel_res (fin_ci G) (fold_loop fuel f) (fold_loop fuel f').
Proof.
  induction fuel as [|fuel IH]; intros f f' H; cbn [fold_loop]; [exact I|].
  eapply rel_bind; [apply (fold_steps_ci G PO); exact H|].
  intros [g|x] [g'|x'] Hr; cbn [steps_ci] in Hr; try contradiction.
  - apply IH. exact Hr.
  - exact Hr.
Qed.

Definition tkz_inv_ci (G : bytes -> bytes -> Prop) (r r' : bool * token * sqlst) : Prop :=
  tkz_ci r r' /\ G (input (snd r)) (input (snd r')) /\ st_wf (snd r).

Lemma skip_loop_ci G (PO : parser_ok G) fuel : forall s s' cur cur',
  st_ci s s' -> tok_ci cur cur' -> G (input s) (input s') -> st_wf s ->
  rel_res (tkz_inv_ci G) (skip_loop fuel s cur) (skip_loop fuel s' cur').
Proof.
  induction fuel as [|fuel IH]; intros s s' cur cur' Hs Hc HG Hwf; cbn [skip_loop]; [exact I|].
  eapply rel_bind; [apply (tokenize_ci_inv G PO); assumption|].
  intros [[more t1] s1] [[more' t1'] s1'] ((Hm & Ht1 & Hs1) & HG1 & Hwf1 & _). cbn [fst snd] in *. subst more'.
  eapply rel_bind; [apply is_unary_op_ci; exact Ht1|]. intros u u' <-.
  pose proof Ht1 as (_ & _ & _ & Hcat & _). unfold cat_is. rewrite <- Hcat.
  assert (K : tkz_inv_ci G (more, t1, s1) (more, t1', s1')).
  { unfold tkz_inv_ci, tkz_ci. cbn [fst snd]. auto 10. }
  destruct (negb _); [exact K|]. destruct more; [|exact K].
  apply IH; assumption.
Qed.

Definition fold_res_ci (G : bytes -> bytes -> Prop) (r r' : list token * sqlst) : Prop :=
  win_ci (fst r) (fst r') /\ st_ci (snd r) (snd r') /\ G (input (snd r)) (input (snd r')).

Lemma fold_ci G (PO : parser_ok G) s s' :
  st_ci s s' -> G (input s) (input s') -> st_wf s -> rel_res (fold_res_ci G) (fold s) (fold s').
Proof.
  intros Hs HG Hwf. unfold fold, fold_fuel. pose proof Hs as (Hi & _). rewrite (cv_length _ _ Hi).
  eapply rel_bind; [apply (skip_loop_ci G PO); try assumption; apply tok_ci_refl|].
  intros [[more t1] s1] [[more' t1'] s1'] ((Hm & Ht1 & Hs1) & HG1 & Hwf1). cbn [fst snd] in *. subst more'.
  destruct (negb more).
  - apply rel_Ok. unfold fold_res_ci. cbn [fst snd]. split; [constructor|]. auto.
  - pose proof Hs1 as (Hi1 & _). rewrite (cv_length _ _ Hi1).
    eapply rel_bind.
    { apply (fold_loop_ci G PO). apply fs_ci_mk; try assumption; try apply tok_ci_refl.
      constructor; [exact Ht1|constructor]. }
    intros [n f] [n' f'] (Hn & Hf). cbn [fst snd] in Hn, Hf. subst n'.
    pose proof Hf as (A1 & A2 & A3 & A4 & A5 & A6 & A7).
    eapply rel_bind; [apply rel_wtrunc; exact A2|]. intros w w' Hw.
    apply rel_Ok. unfold fold_res_ci. cbn [fst snd]. auto.
Qed.

