(* BenignWsCheck: C14c for the model.  The pass over an input of the family
   BenignW and the pass over the single-space join of its items are in
   lock-step (BenignWsLex.benign_step), so by the generic folder simulation
   (WsFold) they have the same fingerprint and the same statistics; for the
   join these are known (BenignCheck.sqli_fingerprint_benign): the fingerprint
   is not blacklisted, no comment counter moved.  The input holds no quote, so
   no other pass runs. *)
From Coq Require Import List ZArith String Bool Lia ZifyBool.
From Coq.Strings Require Import Byte.
From LI Require Import Prelude Base SqliLex SqliFold GrammarSqli Proofs.BaseFacts Proofs.Wp Proofs.LexBase Proofs.LexSpec
  Proofs.CascadeProofs Proofs.QuoteBase Spec.BenignSpec Proofs.BenignLex Proofs.BenignTok Proofs.BenignFold Proofs.BenignCheck
  Spec.WsSpec Spec.BenignWsSpec Proofs.WsBase Proofs.WsFold Proofs.WsTokens Proofs.BenignWsLex.
From LIGen Require Import Tables Dispatch Consts.
Import ListNotations.
Local Open Scope Z_scope.

Definition fl_none_ansi : Z := Z.lor c_sqli_flag_quote_none c_sqli_flag_sqlansi.

(* ---------- the shape of a member ---------- *)

Lemma benignw_shape s : BenignW s ->
  exists lead w l u items,
    forallb isW lead = true /\ Items (w :: l) /\ items = w :: l /\ s = lead ++ w ++ u /\ vt l u /\
    (List.length (join_sp items) <= List.length s)%nat.
Proof.
  intros (lead & items & runs & trail & Hne & Hit & Hl & Hr & Hld & Htr & ->).
  destruct items as [|w l]; [congruence|].
  destruct (vt_instw l w runs trail Hl Hr Htr) as (u & E & V).
  exists lead, w, l, u, (w :: l). splits; try assumption; try reflexivity.
  - rewrite E. reflexivity.
  - (* the single-space join is not longer *)
    rewrite !app_length. clear E V u Hld Htr Hne Hit.
    assert (G : forall l w runs, S (List.length runs) = List.length (w :: l) -> Forall wrun runs ->
                 (List.length (join_sp (w :: l)) <= List.length (instw runs (w :: l)))%nat).
    { induction l0 as [|w2 l0 IH]; intros w0 runs0 H1 H2; [reflexivity|].
      destruct runs0 as [|r runs']; [cbn in H1; lia|]. inversion H2 as [|? ? R1 R2]; subst.
      change (join_sp (w0 :: w2 :: l0)) with (w0 ++ x20 :: join_sp (w2 :: l0)).
      change (instw (r :: runs') (w0 :: w2 :: l0)) with (w0 ++ r ++ instw runs' (w2 :: l0)).
      rewrite !app_length. cbn [List.length].
      specialize (IH w2 runs' ltac:(cbn [List.length] in *; lia) R2).
      unfold wrun, wrunb in R1. destruct r as [|c r']; [discriminate|]. cbn [List.length]. lia. }
    specialize (G l w runs Hl Hr). lia.
Qed.

(* no quote byte in a member *)
Lemma item_noquote c w : benign_item w = true -> (c = b_byte_single \/ c = b_byte_double) -> ~ In c w.
Proof.
  intros Hw Hc Hin. pose proof (item_pw w Hw) as P. rewrite forallb_forall in P. specialize (P c Hin).
  destruct (pw_noquote c P) as (A & B & _). destruct Hc as [-> | ->]; [rewrite beq_refl in A|rewrite beq_refl in B]; discriminate.
Qed.

Lemma white_noquote c u : forallb isW u = true -> (c = b_byte_single \/ c = b_byte_double) -> ~ In c u.
Proof.
  intros Hu Hc Hin. rewrite forallb_forall in Hu. specialize (Hu c Hin). destruct Hc as [-> | ->]; discriminate Hu.
Qed.

Lemma vt_noquote c : (c = b_byte_single \/ c = b_byte_double) -> forall l u, Items l -> vt l u -> ~ In c u.
Proof.
  intros Hc. induction l as [|w l IH]; intros u Hl V; cbn [vt] in V.
  - apply white_noquote; assumption.
  - destruct V as (ws & u2 & _ & Hws & -> & V2). inversion Hl as [|? ? Hw Hl']; subst.
    intros Hin. apply in_app_or in Hin. destruct Hin as [Hin|Hin]; [exact (white_noquote c ws Hws Hc Hin)|].
    apply in_app_or in Hin. destruct Hin as [Hin|Hin]; [exact (item_noquote c w Hw Hc Hin)|exact (IH u2 Hl' V2 Hin)].
Qed.

Lemma index_byte_notin s c : ~ In c s -> index_byte s c = -1.
Proof. intros H. destruct (Wp.index_byte_cases s c) as [[E _]|[_ N]]; [exact E|]. exfalso. apply H. eapply nth_error_In. exact N. Qed.

(* ---------- the theorem ---------- *)

Theorem benignw_never_sqli s : BenignW s -> is_sqli s = Ok (false, []).
Proof.
  intros HB. destruct (benignw_shape s HB) as (lead & w & l & u & items & Hld & Hit & Ei & -> & Hv & Hlen).
  set (V := lead ++ w ++ u) in *. set (R := join_sp items) in *.
  assert (HBR : Benign R).
  { exists items. splits; [rewrite Ei; discriminate|rewrite Ei; exact Hit|reflexivity]. }
  inversion Hit as [|? ? Hw Hl]; subst.
  destruct (item_word_bytes w Hw) as [_ Lw].
  assert (HV : V <> []).
  { unfold V. intros E. apply app_eq_nil in E. destruct E as [_ E]. apply app_eq_nil in E. destruct E as [E _].
    subst w. rewrite len_nil in Lw. lia. }
  assert (HR : R <> []).
  { unfold R. rewrite join_sp_cons. intros E. apply app_eq_nil in E. destruct E as [E _]. subst w. rewrite len_nil in Lw. lia. }
  assert (Hfl : Z.land fl_none_ansi (Z.lor c_sqli_flag_quote_single c_sqli_flag_quote_double) = 0) by reflexivity.
  (* the two passes *)
  assert (R0 : srelB V R fl_none_ansi (reset (sqli_init V 0) fl_none_ansi) (reset (sqli_init R 0) fl_none_ansi)).
  { unfold srelB, reset, sqli_init. cbn [input flags pos st]. change (fl_none_ansi =? 0) with false. cbv iota.
    splits; try reflexivity. exists (w :: l), [], V, R. splits; try assumption; try reflexivity.
    - cbn [vt0]. exists lead, u. splits; try assumption. reflexivity.
    - apply (lex_inv_init R fl_none_ansi); [apply join_sp_plain; exact Hit|reflexivity|discriminate].
    - left. reflexivity. }
  pose proof (sqli_fingerprint_simK (srelB V R fl_none_ansi)
                (srelB_tok V R fl_none_ansi Hfl HV HR Hlen) (srelB_st V R fl_none_ansi)
                (srelB_bump V R fl_none_ansi) (srelB_len V R fl_none_ansi Hlen)
                (sqli_init V 0) (sqli_init R 0) fl_none_ansi R0) as SIM.
  assert (NQ : no_quote_flags fl_none_ansi) by (split; [reflexivity|discriminate]).
  destruct (wp_inv _ _ (sqli_fingerprint_benign (sqli_init R 0) fl_none_ansi HBR NQ))
    as [[[fp wR] sR] [ER (Hb & _ & Hd & Hh)]].
  destruct (SIM _ ER) as [[[fp1 wV] sV] [EV (F1 & _ & F3)]]. cbn [fst snd] in *. subst fp1.
  destruct F3 as (IV & _ & _ & _ & SV & _).
  (* the cascade *)
  unfold is_sqli, check, slen. cbn [input sqli_init].
  replace (len V =? 0) with false by (destruct V; [congruence|rewrite len_cons; pose proof (len_nonneg V); lia]).
  cbv zeta. fold fl_none_ansi. rewrite EV. cbn [bind]. unfold check_fingerprint. rewrite Hb. cbn [bind].
  unfold reparse_as_mysql. rewrite SV, Hd, Hh. cbn [Z.eqb negb orb]. rewrite IV.
  assert (Q : forall c, c = b_byte_single \/ c = b_byte_double -> index_byte V c = -1).
  { intros c Hc. apply index_byte_notin. unfold V. intros Hin.
    apply in_app_or in Hin. destruct Hin as [Hin|Hin]; [exact (white_noquote c lead Hld Hc Hin)|].
    apply in_app_or in Hin. destruct Hin as [Hin|Hin]; [exact (item_noquote c w Hw Hc Hin)|].
    exact (vt_noquote c Hc l u Hl Hv Hin). }
  rewrite (Q b_byte_single (or_introl eq_refl)), (Q b_byte_double (or_intror eq_refl)). reflexivity.
Qed.

(* ---------- the single-space family is inside ---------- *)

Lemma inst_join_sp : forall items, inst [x20] items = join_sp items.
Proof.
  induction items as [|w rest IH]; [reflexivity|]. destruct rest as [|w2 rest']; [reflexivity|].
  change (inst [x20] (w :: w2 :: rest')) with (w ++ [x20] ++ inst [x20] (w2 :: rest')). rewrite IH. reflexivity.
Qed.

Theorem benign_benignw s : Benign s -> BenignW s.
Proof.
  intros (items & Hne & Hit & ->).
  exists [], items, (repeat [x20] (pred (List.length items))), [].
  splits; try assumption; try reflexivity.
  - rewrite repeat_length. destruct items; [congruence|reflexivity].
  - apply Forall_forall. intros r Hr. apply repeat_spec in Hr. subst r. reflexivity.
  - cbn [app]. rewrite app_nil_r, instw_repeat, inst_join_sp. reflexivity.
Qed.

(* closed examples: a decomposition that passes the check is in the family *)
Lemma benignw_chk_sound lead items runs trail :
  benignw_chk lead items runs trail = true -> BenignW (lead ++ instw runs items ++ trail).
Proof.
  unfold benignw_chk. intros H.
  apply andb_true_iff in H. destruct H as [H Ht].
  apply andb_true_iff in H. destruct H as [H Hld].
  apply andb_true_iff in H. destruct H as [H Hr].
  apply andb_true_iff in H. destruct H as [H Hl].
  apply andb_true_iff in H. destruct H as [Hne Hit].
  exists lead, items, runs, trail. splits; try assumption; try reflexivity.
  - destruct items; [discriminate Hne|discriminate].
  - apply Forall_forall. intros w Hw. rewrite forallb_forall in Hit. exact (Hit w Hw).
  - apply Nat.eqb_eq. exact Hl.
  - apply Forall_forall. intros r Hr'. rewrite forallb_forall in Hr. exact (Hr r Hr').
Qed.

Print Assumptions benignw_never_sqli.
