(* GrammarLift: the finite cores of the attack grammars (C03, C04) lifted to every
   ASCII case assignment, by the case-insensitivity theorems C10 / C11a. *)
From Coq Require Import List ZArith String Bool Lia.
From Coq.Strings Require Import Byte.
From LI Require Import Prelude Base SqliLex SqliFold Html5 Xss GrammarSqli Proofs.BaseFacts
  Spec.CiSpec Properties.C10 Spec.GrammarXss.
From LIGen Require Import C03CoreAll.
Import ListNotations.
Local Open Scope Z_scope.

(* ---------- a literal that does not occur case-insensitively does not occur ---------- *)

Definition upper_all (s : bytes) : bytes := map upper_ascii s.

Lemma has_prefix_map (f : byte -> byte) s p : has_prefix s p = true -> has_prefix (map f s) (map f p) = true.
Proof.
  revert s. induction p as [|x p IH]; intros [|y s]; cbn [has_prefix map]; intros H; try reflexivity; try discriminate.
  apply andb_true_iff in H. destruct H as [H1 H2]. apply beq_eq in H1. subst y.
  rewrite beq_refl. cbn [andb]. apply IH. exact H2.
Qed.

Lemma index_nonneg_map (f : byte -> byte) s p : 0 <= index s p -> 0 <= index (map f s) (map f p).
Proof.
  induction s as [|y s IH]; cbn [index map].
  - destruct (has_prefix [] p) eqn:E.
    + intros _. change [] with (map f []). rewrite (has_prefix_map f [] p E). lia.
    + intros H. lia.
  - destruct (has_prefix (y :: s) p) eqn:E.
    + intros _. change (f y :: map f s) with (map f (y :: s)). rewrite (has_prefix_map f _ p E). lia.
    + intros H. destruct (index s p <? 0) eqn:E2; [lia|].
      destruct (has_prefix (f y :: map f s) (map f p)); [lia|].
      assert (0 <= index (map f s) (map f p)) by (apply IH; lia).
      destruct (index (map f s) (map f p) <? 0) eqn:E3; lia.
Qed.

Lemma contains_map (f : byte -> byte) s p : contains s p = true -> contains (map f s) (map f p) = true.
Proof. unfold contains. intros H. apply Z.leb_le in H. apply Z.leb_le. apply index_nonneg_map. exact H. Qed.

Lemma cv_upper_all s s' : cv s s' -> upper_all s = upper_all s'.
Proof. unfold cv, upper_all. induction 1 as [|b b' s s' H _ IH]; cbn [map]; [reflexivity|]. rewrite H, IH. reflexivity. Qed.

Lemma ci_absent s s' lit :
  cv s s' -> contains (upper_all s) (upper_all lit) = false ->
  contains s lit = false /\ contains s' lit = false.
Proof.
  intros C H. split.
  - destruct (contains s lit) eqn:E; [|reflexivity]. apply (contains_map upper_ascii) in E.
    unfold upper_all in H. congruence.
  - destruct (contains s' lit) eqn:E; [|reflexivity]. apply (contains_map upper_ascii) in E.
    rewrite (cv_upper_all _ _ C) in H. unfold upper_all in H. congruence.
Qed.

(* ---------- C03: every case assignment of every member of the core ---------- *)

Definition liftable (s : bytes) : bool :=
  plain2 s && negb (contains (upper_all s) (upper_all (bs "sp_password"))).

Definition core_liftable (cases : list (list bytes)) : bool :=
  forallb (fun segs => forallb (fun sep => liftable (inst sep segs)) separators) cases.

Lemma core_liftable_spec cases :
  core_liftable cases = true ->
  forall segs sep, In segs cases -> In sep separators -> liftable (inst sep segs) = true.
Proof.
  unfold core_liftable. intros L segs sep Hs Hp.
  rewrite forallb_forall in L. specialize (L _ Hs). rewrite forallb_forall in L. exact (L _ Hp).
Qed.

Lemma case_lift_generic cases :
  core_ok cases = true -> core_liftable cases = true ->
  forall segs sep s', In segs cases -> In sep separators -> cv (inst sep segs) s' ->
  exists fp, is_sqli s' = Ok (true, fp).
Proof.
  intros Hok Hl segs sep s' Hs Hp C.
  destruct (core_ok_spec cases Hok segs sep Hs Hp) as [fp E].
  pose proof (core_liftable_spec cases Hl segs sep Hs Hp) as L.
  unfold liftable in L. apply andb_true_iff in L. destruct L as [L1 L2]. apply negb_true_iff in L2.
  destruct (ci_absent _ _ _ C L2) as [A1 A2].
  exists fp. rewrite (C10_partial2 _ _ C L1); [exact E|]. rewrite A1, A2. reflexivity.
Qed.

Lemma all_cases_liftable : core_liftable all_cases = true.
Proof. vm_compute. reflexivity. Qed.

Theorem core_case_lift :
  forall segs sep s', In segs all_cases -> In sep separators -> cv (inst sep segs) s' ->
  exists fp, is_sqli s' = Ok (true, fp).
Proof. exact (case_lift_generic all_cases all_cases_ok all_cases_liftable). Qed.

(* ---------- C04: every case assignment of every vector of the core ---------- *)

From LI Require Spec.XCiSpec Properties.C11 Properties.C04.

Lemma xss_core_no_cdata : forallb XCiSpec.no_cdata_like xss_core = true.
Proof. vm_compute. reflexivity. Qed.

Theorem xss_core_case_lift :
  forall v s', In v xss_core -> XCiSpec.cv v s' -> is_xss s' = Ok true.
Proof.
  intros v s' Hv C.
  pose proof xss_core_no_cdata as N. rewrite forallb_forall in N. specialize (N _ Hv).
  rewrite (C11.C11a_case_insensitive _ _ C N). apply C04.C04_core. exact Hv.
Qed.
