(* CiLex: every SQL lexer, tokenize and the whole scan, run in lock-step on two
   inputs that are equal up to ASCII case (property C10). *)
From Coq Require Import List ZArith String Bool Lia ZifyBool.
From Coq.Strings Require Import Byte.
From LI Require Import Prelude Base SqliLex Proofs.BaseFacts Proofs.Wp Proofs.LexBase Proofs.LexSpec Spec.CiSpec Proofs.CiBase.
From LIGen Require Import Tables Dispatch Consts.
Import ListNotations.
Local Open Scope Z_scope.

Definition lexer_ci (L : lexer) : Prop :=
  forall s s' t t', st_ci s s' -> tok_ci t t' -> rel_res lex_ci (L s t) (L s' t').

Lemma parse_eol_comment_ci : lexer_ci parse_eol_comment.
Proof. lex_start parse_eol_comment. rel_go. Qed.
Ltac hook0 :=
  lazymatch goal with
  | |- rel_res _ (parse_eol_comment _ _) (parse_eol_comment _ _) => apply parse_eol_comment_ci; solve_ci
  end.
Ltac rel_hook ::= hook0.

Lemma parse_other_ci : lexer_ci parse_other.
Proof. lex_start parse_other. rel_go. Qed.

Lemma parse_white_ci : lexer_ci parse_white.
Proof. lex_start parse_white. rel_go. Qed.

Lemma parse_operator1_ci : lexer_ci parse_operator1.
Proof. lex_start parse_operator1. rel_go. Qed.
Ltac hook1 :=
  lazymatch goal with
  | |- rel_res _ (parse_operator1 _ _) (parse_operator1 _ _) => apply parse_operator1_ci; solve_ci
  | _ => hook0
  end.
Ltac rel_hook ::= hook1.

Lemma parse_hash_ci : lexer_ci parse_hash.
Proof. lex_start parse_hash. rel_go. Qed.

Lemma parse_dash_ci : lexer_ci parse_dash.
Proof. lex_start parse_dash. rel_go. Qed.

Lemma parse_slash_ci : lexer_ci parse_slash.
Proof. lex_start parse_slash. unfold is_mysql_comment. cv_norm_all. rel_go. Qed.

(* the byte under the cursor is not a letter *)
Definition head_nonalpha (s : sqlst) : Prop :=
  forall c, nth_error (input s) (Z.to_nat (pos s)) = Some c -> is_alpha c = false.

Ltac same_byte :=
  match goal with
  | H : ceq ?a ?a', N : is_alpha ?a = false |- _ =>
      let E := fresh in pose proof (ceq_nonalpha _ _ H N) as E; subst a'; clear H
  end.

Lemma parse_byte_ci s s' t t' : st_ci s s' -> tok_ci t t' -> head_nonalpha s ->
  rel_res lex_ci (parse_byte s t) (parse_byte s' t').
Proof.
  revert s s' t t'. lex_start parse_byte. intros HN. unfold head_nonalpha in HN. simp_rec.
  rel_step. match goal with K : nth_error _ _ = Some _ |- _ => pose proof (HN _ K) end.
  same_byte. rel_go.
Qed.

Lemma parse_operator2_ci : lexer_ci parse_operator2.
Proof. lex_start parse_operator2. rel_go. Qed.

(* ---------- strings ---------- *)

Lemma string_core_loop_ci fuel : forall s s' start k delim, cv s s' -> is_alpha delim = false ->
  rel_res eq (string_core_loop fuel s start k delim) (string_core_loop fuel s' start k delim).
Proof.
  induction fuel as [|fuel IH]; intros s s' start k delim H N; cbn [string_core_loop]; [exact I|].
  eapply rel_bind; [apply rel_drop_s; exact H|]. intros str str' (Hstr & Estr & Rk).
  cv_norm Hstr.
  destruct (index_byte str delim =? -1) eqn:E; [reflexivity|].
  eapply rel_bind; [apply rel_drop_s; exact H|]. intros str2 str2' (Hstr2 & Estr2 & Rk2).
  eapply rel_bind; [apply rel_slice; exact H|]. intros b b' Hb. cv_norm Hb.
  assert (D : nth_error str2 0 = Some delim).
  { destruct (index_byte_cases str delim) as [[I _]|[I1 I2]]; [lia|].
    rewrite Estr2, nth_error_skipn. rewrite Estr in I2 at 1. rewrite nth_error_skipn in I2.
    rewrite <- I2. f_equal. lia. }
  rewrite (cv_is_dde _ _ _ Hstr2 D N).
  destruct (is_backslash_escaped b).
  - eapply rel_bind; [apply rel_drop; exact Hstr2|]. intros _ _ _. apply IH; assumption.
  - destruct (is_double_delimiter_escaped str2); [|reflexivity].
    eapply rel_bind; [apply rel_drop; exact Hstr2|]. intros _ _ _. apply IH; assumption.
Qed.

Ltac hookA0 :=
  lazymatch goal with
  | |- rel_res _ (string_core_loop _ _ _ _ _) (string_core_loop _ _ _ _ _) =>
      apply string_core_loop_ci; [solve_ci | first [reflexivity | assumption]]
  | _ => hook1
  end.
Ltac rel_hook ::= hookA0.

Lemma parse_string_core_ci t t' s s' length p offset delim :
  tok_ci t t' -> cv s s' -> is_alpha delim = false ->
  rel_res tz_ci (parse_string_core t s length p offset delim) (parse_string_core t' s' length p offset delim).
Proof.
  intros Ht Hs N. unpack Ht. unfold parse_string_core. cv_norm_all. rel_go.
Qed.

Ltac hookA :=
  lazymatch goal with
  | |- rel_res _ (parse_string_core _ _ _ _ _ _) (parse_string_core _ _ _ _ _ _) =>
      apply parse_string_core_ci; [solve_ci | solve_ci | first [reflexivity | assumption]]
  | _ => hookA0
  end.
Ltac rel_hook ::= hookA.

(* is_alpha a = false from a test on a that no letter passes *)
Ltac nonalpha_from H :=
  match type of H with
  | ?e = ?v =>
      match goal with
      | |- is_alpha ?a = false =>
          let f := (eval pattern a in e) in
          match f with
          | ?g _ =>
              let K := fresh in
              pose proof (byte_sweep (fun b => negb (Bool.eqb (g b) v) || negb (is_alpha b))
                                     ltac:(vm_compute; reflexivity) a) as K;
              cbv beta in K; rewrite H in K; cbn in K; apply negb_true_iff in K; exact K
          end
      end
  end.

Ltac use_head HN :=
  unfold head_nonalpha in HN; simp_rec;
  match goal with K : nth_error _ _ = Some _ |- _ => pose proof (HN _ K) end; same_byte.

Lemma parse_string_ci s s' t t' : st_ci s s' -> tok_ci t t' -> head_nonalpha s ->
  rel_res lex_ci (parse_string s t) (parse_string s' t').
Proof.
  revert s s' t t'. lex_start parse_string. intros HN. rel_step. use_head HN. rel_go.
Qed.

Lemma word_split_loop_ci fuel : forall val val' i n, cv val val' ->
  rel_res eq (word_split_loop fuel val i n) (word_split_loop fuel val' i n).
Proof.
  induction fuel as [|fuel IH]; intros val val' i n H; cbn [word_split_loop]; [apply rel_refl_eq|].
  cv_norm_all. rel_go.
Qed.
Ltac hookB :=
  lazymatch goal with
  | |- rel_res _ (word_split_loop _ _ _ _) (word_split_loop _ _ _ _) => apply word_split_loop_ci; solve_ci
  | _ => hookA
  end.
Ltac rel_hook ::= hookB.

Lemma parse_word_ci : lexer_ci parse_word.
Proof. lex_start parse_word. rel_go. Qed.
Ltac hookC :=
  lazymatch goal with
  | |- rel_res _ (parse_word _ _) (parse_word _ _) => apply parse_word_ci; solve_ci
  | _ => hookB
  end.
Ltac rel_hook ::= hookC.

Lemma parse_tick_ci : lexer_ci parse_tick.
Proof. lex_start parse_tick. rel_go. Qed.

Ltac head_tac :=
  unfold head_nonalpha; simp_rec; intros ? ?;
  match goal with
  | K : nth_error ?i ?n = Some ?a, K' : nth_error ?i ?n = Some ?c |- is_alpha ?c = false =>
      rewrite K in K'; inversion K'; subst c
  end;
  match goal with H : _ = _ |- _ => nonalpha_from H end.

Ltac hookD :=
  lazymatch goal with
  | |- rel_res _ (parse_tick _ _) (parse_tick _ _) => apply parse_tick_ci; solve_ci
  | |- rel_res _ (parse_string _ _) (parse_string _ _) => apply parse_string_ci; [solve_ci | solve_ci | head_tac]
  | _ => hookC
  end.
Ltac rel_hook ::= hookD.

Lemma parse_var_ci : lexer_ci parse_var.
Proof.
  lex_start parse_var. rel_goH.
Qed.

Lemma parse_bword_ci : lexer_ci parse_bword.
Proof. lex_start parse_bword. rel_go. Qed.

Lemma parse_xb_string_ci digits : ci_fun (fun b => mem b digits) -> lexer_ci (parse_xb_string digits).
Proof. intros D. lex_start parse_xb_string. rel_go. Qed.

Lemma parse_xstring_ci : lexer_ci parse_xstring.
Proof. apply parse_xb_string_ci. exact hex2_ci. Qed.
Lemma parse_bstring_ci : lexer_ci parse_bstring.
Proof. apply parse_xb_string_ci. exact bin_ci. Qed.

Lemma parse_estring_ci : lexer_ci parse_estring.
Proof. lex_start parse_estring. rel_go. Qed.

Lemma parse_ustring_ci : lexer_ci parse_ustring.
Proof. lex_start parse_ustring. rel_goH. Qed.

Lemma parse_number_ci : lexer_ci parse_number.
Proof.
  lex_start parse_number. cbv zeta. rel_step.
  eapply rel_bind with (R := fun d d' => d = d' /\ (d = [] \/ ci_fun (fun b => mem b d))).
  { rel_go; (split; [ci_cond|]).
    repeat match goal with |- context [if ?c then _ else _] => destruct c end;
      [right; exact hex1_ci | right; exact bin_ci | left; reflexivity]. }
  intros d d' (<- & D). destruct d as [|d0 d]; [clear D|destruct D as [D|D]; [discriminate|]].
  - rel_go.
  - rel_go. 
Qed.

Ltac hookE :=
  lazymatch goal with
  | |- rel_res _ (parse_estring _ _) (parse_estring _ _) => apply parse_estring_ci; solve_ci
  | _ => hookD
  end.
Ltac rel_hook ::= hookE.

(* the q-quote delimiter is searched exactly: it must not be a letter *)
Lemma parse_qstring_core_ci offset s s' t t' :
  st_ci s s' -> tok_ci t t' -> no_qlit (input s) = true -> 0 <= pos s + offset ->
  rel_res lex_ci (parse_qstring_core offset s t) (parse_qstring_core offset s' t').
Proof.
  revert s s' t t'. lex_start parse_qstring_core. intros Q Hp. rel_goH.
  match goal with
  | Ha : nth_error i (Z.to_nat (p + offset)) = Some ?a, Ca : negb (beq ?a _) && _ = false,
    Hb : nth_error i (Z.to_nat (p + offset + 1)) = Some ?b, Cb : negb (beq ?b _) = false,
    Hc : nth_error i (Z.to_nat (p + offset + 2)) = Some ?c |- _ =>
      assert (N : is_alpha c = false);
      [ apply (no_qlit_nth i (Z.to_nat (p + offset)) a b c Q Ha);
        [ replace (S (Z.to_nat (p + offset))) with (Z.to_nat (p + offset + 1)) by lia; exact Hb
        | replace (S (S (Z.to_nat (p + offset)))) with (Z.to_nat (p + offset + 2)) by lia; exact Hc
        | destruct (beq a x71), (beq a x51); cbn in Ca |- *; congruence
        | apply negb_false_iff; exact Cb ]
      | same_byte;
        pose proof (byte_sweep (fun b => is_alpha b || alpha_free
                     [if beq b x28 then x29 else if beq b x5b then x5d
                      else if beq b x7b then x7d else if beq b x3c then x3e else b; b_byte_single])
                     ltac:(vm_compute; reflexivity) c) as AF;
        cbv beta in AF; rewrite N in AF; cbn [orb] in AF ]
  end.
  match goal with R : cv _ _ |- _ => rewrite !(cvr_index _ _ _ R AF) end.
  rel_go.
Qed.

Lemma parse_nqstring_ci s s' t t' :
  st_ci s s' -> tok_ci t t' -> no_qlit (input s) = true -> 0 <= pos s ->
  rel_res lex_ci (parse_nqstring s t) (parse_nqstring s' t').
Proof.
  intros Hs Ht Q Hp. unfold parse_nqstring.
  assert (K : rel_res lex_ci (parse_qstring_core 1 s t) (parse_qstring_core 1 s' t'))
    by (apply parse_qstring_core_ci; try assumption; lia).
  revert K. unpack Hs. unpack Ht. unfold_sets. cv_norm_all. intros K. rel_go.
Qed.

(* ---------- dispatch ---------- *)

Definition disp_ok (b : byte) : bool :=
  match dispatch b with
  | PByte | PString => negb (is_alpha b)
  | PBackSlash => beq b x5c
  | PMoney => beq b x24
  | _ => true
  end.

Lemma disp_ok_all b : disp_ok b = true.
Proof. apply byte_sweep. vm_compute. reflexivity. Qed.

Scheme Equality for parser_id.

Lemma dispatch_ci : ci_fun dispatch.
Proof.
  intros b. apply internal_parser_id_dec_bl.
  exact (byte_sweep (fun b => parser_id_beq (dispatch (upper_ascii b)) (dispatch b)) ltac:(vm_compute; reflexivity) b).
Qed.

(* what a lock-step proof of the scan needs from the lexers, for pairs of inputs satisfying G *)
Definition parser_ok (G : bytes -> bytes -> Prop) : Prop :=
  forall id s s' t t' ch, st_ci s s' -> tok_ci t t' -> G (input s) (input s') -> 0 <= pos s ->
    nth_error (input s) (Z.to_nat (pos s)) = Some ch -> dispatch ch = id ->
    rel_res lex_ci (run_parser id s t) (run_parser id s' t').

Lemma plain_parts i : plain i = true -> mem x5c i = false /\ mem x24 i = false /\ no_qlit i = true.
Proof.
  unfold plain. intros H. apply andb_true_iff in H. destruct H as [H H3].
  apply andb_true_iff in H. destruct H as [H1 H2]. apply negb_true_iff in H1, H2. auto.
Qed.

Lemma parser_ok_weaken (G G' : bytes -> bytes -> Prop) :
  (forall i i', G' i i' -> G i i') -> parser_ok G -> parser_ok G'.
Proof. intros W PO id s s' t t' ch Hs Ht HG. apply PO; try assumption. apply W. exact HG. Qed.

Lemma parser_ok_plain : parser_ok (fun i _ => plain i = true).
Proof.
  intros id s s' t t' ch Hs Ht G Hp N D. destruct (plain_parts _ G) as (G1 & G2 & G3).
  pose proof (disp_ok_all ch) as K. unfold disp_ok in K. rewrite D in K.
  assert (HN : is_alpha ch = false -> head_nonalpha s).
  { intros A c Hc. rewrite N in Hc. inversion Hc; subst c. exact A. }
  destruct id; cbn [run_parser].
  - apply parse_white_ci; assumption.
  - apply parse_operator1_ci; assumption.
  - apply parse_operator2_ci; assumption.
  - apply parse_string_ci; try assumption. apply HN. apply negb_true_iff. exact K.
  - apply parse_hash_ci; assumption.
  - apply beq_eq in K. subst ch. pose proof (mem_nth _ _ _ _ G2 N) as B. rewrite beq_refl in B. discriminate.
  - apply parse_byte_ci; try assumption. apply HN. apply negb_true_iff. exact K.
  - apply parse_dash_ci; assumption.
  - apply parse_number_ci; assumption.
  - apply parse_slash_ci; assumption.
  - apply parse_other_ci; assumption.
  - apply parse_var_ci; assumption.
  - apply parse_word_ci; assumption.
  - apply parse_bstring_ci; assumption.
  - apply parse_estring_ci; assumption.
  - apply parse_nqstring_ci; assumption.
  - apply parse_qstring_core_ci; try assumption. lia.
  - apply parse_ustring_ci; assumption.
  - apply parse_xstring_ci; assumption.
  - apply parse_bword_ci; assumption.
  - apply beq_eq in K. subst ch. pose proof (mem_nth _ _ _ _ G1 N) as B. rewrite beq_refl in B. discriminate.
  - apply parse_tick_ci; assumption.
Qed.

(* ---------- tokenize ---------- *)

Lemma rel_wp_l {A A'} (R : A -> A' -> Prop) (P : A -> Prop) m m' :
  wp m P -> rel_res R m m' -> rel_res (fun a a' => R a a' /\ P a) m m'.
Proof. destruct m, m'; cbn; intros H K; try contradiction; auto. Qed.

Lemma rel_wp_r {A A'} (R : A -> A' -> Prop) (P : A' -> Prop) m m' :
  wp m' P -> rel_res R m m' -> rel_res (fun a a' => R a a' /\ P a') m m'.
Proof. destruct m, m'; cbn; intros H K; try contradiction; auto. Qed.

Lemma st_wf_ci s s' : st_ci s s' -> st_wf s -> st_wf s'.
Proof.
  intros (Hi & _ & Hp & _) H. unfold st_wf, slen in *. rewrite <- Hp, (cv_len _ _ Hi). exact H.
Qed.

Lemma tokenize_loop_ci G (PO : parser_ok G) fuel : forall s s' t t',
  st_ci s s' -> tok_ci t t' -> G (input s) (input s') -> st_wf s ->
  rel_res tkz_ci (tokenize_loop fuel s t) (tokenize_loop fuel s' t').
Proof.
  induction fuel as [|fuel IH]; intros s s' t t' Hs Ht HG Hwf; cbn [tokenize_loop];
    pose proof Hs as (Hi & Hf & Hp & Hx); unfold slen; rewrite <- Hp, (cv_len _ _ Hi).
  - destruct (pos s <? len (input s)); [exact I|]. apply rel_Ok. unfold tkz_ci. cbn. auto.
  - destruct (pos s <? len (input s)) eqn:E; [|apply rel_Ok; unfold tkz_ci; cbn; auto].
    unfold at_. unfold st_wf in Hwf.
    destruct (get_ok "tokenize:input[pos]" (input s) (pos s) ltac:(lia)) as (ch & Ech & Nc).
    destruct (get_ok "tokenize:input[pos]" (input s') (pos s) ltac:(rewrite (cv_len _ _ Hi); lia)) as (ch' & Ech' & Nc').
    rewrite Ech, Ech'. cbn [bind].
    assert (Hc : ceq ch ch').
    { pose proof (cv_nth_error _ _ Hi (Z.to_nat (pos s))) as K. rewrite Nc, Nc' in K. exact K. }
    rewrite <- (ci_fun_ceq _ _ _ dispatch_ci Hc).
    eapply rel_bind.
    { apply rel_wp_r.
      - rewrite (ci_fun_ceq _ _ _ dispatch_ci Hc).
        apply run_parser_spec; [unfold lex_pre, slen; rewrite <- Hp, (cv_len _ _ Hi); lia|rewrite <- Hp; exact Nc'].
      - apply rel_wp_l.
        + apply run_parser_spec; [unfold lex_pre, slen; lia|exact Nc].
        + apply (PO _ s s' t t' ch); try assumption; try lia. reflexivity. }
    intros [[s1 t1] np] [[s1' t1'] np'] (((Hs1 & Ht1 & Hn) & (A & B & C & D & F & _)) & (A' & _)).
    cbn [fst snd] in Hs1, Ht1, Hn. subst np'.
    pose proof Ht1 as (_ & _ & _ & Hcat & _). rewrite <- Hcat.
    assert (S1 : st_ci (set_pos s1 np) (set_pos s1' np)).
    { destruct Hs1 as (X1 & X2 & X3 & X4). unfold st_ci, set_pos. cbn. auto. }
    destruct (negb (beq (t_cat t1) x00)).
    + apply rel_Ok. unfold tkz_ci. cbn [fst snd]. split; [reflexivity|]. split; [exact Ht1|].
      destruct Hs1 as (X1 & X2 & X3 & X4). unfold st_ci, bump_tokens, set_stats, set_pos.
      cbn [input flags pos st]. rewrite X4. auto.
    + apply IH; try assumption.
      * unfold set_pos. cbn [input]. rewrite A, A'. exact HG.
      * unfold st_wf, set_pos, slen in *. cbn [input pos]. rewrite A. lia.
Qed.

Lemma tokenize_ci G (PO : parser_ok G) s s' cur cur' :
  st_ci s s' -> tok_ci cur cur' -> G (input s) (input s') -> st_wf s ->
  rel_res tkz_ci (tokenize s cur) (tokenize s' cur').
Proof.
  intros Hs Hc HG Hwf. unfold tokenize.
  pose proof Hs as (Hi & Hf & Hp & Hx). unfold slen. rewrite <- Hp, <- Hf, (cv_len _ _ Hi), (cv_length _ _ Hi).
  destruct (len (input s) =? 0); [apply rel_Ok; unfold tkz_ci; cbn; auto|].
  destruct ((pos s =? 0) && negb (Z.land (flags s) (Z.lor c_sqli_flag_quote_single c_sqli_flag_quote_double) =? 0)).
  - eapply rel_bind.
    { apply parse_string_core_ci; [apply tok_ci_refl|exact Hi|].
      unfold flag2delimiter. repeat match goal with |- context [if ?c then _ else _] => destruct c end; reflexivity. }
    intros [t1 np] [t1' np'] (Ht1 & Hn). cbn [fst snd] in Ht1, Hn. subst np'.
    apply rel_Ok. unfold tkz_ci. cbn [fst snd]. split; [reflexivity|]. split; [exact Ht1|].
    unfold st_ci, bump_tokens, set_stats, set_pos. cbn [input flags pos st]. rewrite Hx. auto.
  - apply (tokenize_loop_ci G PO); try assumption. apply tok_ci_refl.
Qed.

(* the invariant that the callers of tokenize maintain, from the safety specification *)
Lemma tokenize_ci_inv G (PO : parser_ok G) s s' cur cur' :
  st_ci s s' -> tok_ci cur cur' -> G (input s) (input s') -> st_wf s ->
  rel_res (fun r r' => tkz_ci r r' /\ G (input (snd r)) (input (snd r')) /\ st_wf (snd r) /\
                       input (snd r) = input s /\ input (snd r') = input s')
          (tokenize s cur) (tokenize s' cur').
Proof.
  intros Hs Hc HG Hwf. eapply rel_mono.
  - apply rel_wp_r; [apply tokenize_spec; exact (st_wf_ci _ _ Hs Hwf)|].
    apply rel_wp_l; [apply tokenize_spec; exact Hwf|apply (tokenize_ci G PO); assumption].
  - intros [[more t] s1] [[more' t'] s1'] ((K & (A & B & C & D & _)) & (A' & _)). cbn [snd]. split; [exact K|].
    rewrite A, A'. split; [exact HG|]. split; [|auto]. unfold st_wf, slen in *. rewrite A. lia.
Qed.

Lemma Forall2_rev' {A B} (R : A -> B -> Prop) l l' : Forall2 R l l' -> Forall2 R (rev l) (rev l').
Proof.
  intros H. induction H; cbn [rev]; [constructor|]. apply Forall2_app; [assumption|].
  constructor; [assumption|constructor].
Qed.

Lemma tokens_loop_ci G (PO : parser_ok G) fuel : forall s s' acc acc',
  st_ci s s' -> Forall2 rec_ci acc acc' -> G (input s) (input s') -> st_wf s ->
  rel_res scan_ci (tokens_loop fuel s acc) (tokens_loop fuel s' acc').
Proof.
  induction fuel as [|fuel IH]; intros s s' acc acc' Hs Ha HG Hwf; cbn [tokens_loop]; [exact I|].
  eapply rel_bind; [apply (tokenize_ci_inv G PO); try assumption; apply tok_ci_refl|].
  intros [[more t] s1] [[more' t'] s1'] ((Hm & Ht & Hs1) & HG1 & Hwf1 & _). cbn [fst snd] in *. subst more'.
  pose proof Hs as (_ & _ & Hp & _). pose proof Hs1 as (_ & _ & Hp1 & _). rewrite <- Hp, <- Hp1.
  destruct more.
  - apply IH; try assumption. constructor; [|exact Ha]. unfold rec_ci. cbn. auto.
  - apply rel_Ok. unfold scan_ci. cbn [fst snd]. split; [|exact Hs1].
    apply Forall2_rev'. exact Ha.
Qed.

Theorem tokens_ci G (PO : parser_ok G) inp inp' fl :
  cv inp inp' -> G inp inp' -> rel_res scan_ci (tokens inp fl) (tokens inp' fl).
Proof.
  intros H HG. unfold tokens. rewrite (cv_length _ _ H).
  apply (tokens_loop_ci G PO); try assumption.
  - unfold sqli_init. apply st_ci_mk. exact H.
  - constructor.
  - unfold st_wf, sqli_init, slen. cbn [pos input]. pose proof (len_nonneg inp). lia.
Qed.
