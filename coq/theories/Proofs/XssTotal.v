(* XssTotal: the XSS classifier model is total: is_xss returns Ok on every
   input (no Panic, no OutOfFuel, no StackOverflow). *)
From Coq Require Import List ZArith String Bool Lia ZifyBool.
From Coq.Strings Require Import Byte.
From LI Require Import Prelude Base Html5 Xss Proofs.BaseFacts Proofs.Wp Proofs.H5Spec.
From LIGen Require Import Tables Consts.
Import ListNotations.
Local Open Scope Z_scope.

(* ---------- htmlDecodeByteAt ---------- *)

Lemma hex_decode_map_length : List.length hex_decode_map = 256%nat.
Proof. vm_compute. reflexivity. Qed.

Lemma wp_hex_val site ch (Q : Z -> Prop) : (forall v, Q v) -> wp (hex_val site ch) Q.
Proof.
  intros HQ. unfold hex_val. destruct (nth_error hex_decode_map (Z.to_nat (code ch))) as [v|] eqn:E.
  - apply HQ.
  - apply nth_error_None in E. rewrite hex_decode_map_length in E. pose proof (code_range ch). lia.
Qed.

Lemma decode_hex_loop_spec fuel : forall s i val,
  1 <= i <= len s -> len s - i <= Z.of_nat fuel ->
  wp (decode_hex_loop fuel s i val) (fun r => 1 <= snd r <= len s).
Proof.
  induction fuel as [|fuel IH]; intros s i val H1 H2; cbn [decode_hex_loop].
  - destruct (i <? len s) eqn:E; [lia|]. cbn. lia.
  - destruct (i <? len s) eqn:E; [|cbn; lia].
    apply wp_bind. apply wp_get; [lia|]. intros c _.
    destruct (beq c x3b); [cbn; lia|].
    apply wp_bind. apply wp_hex_val. intros v.
    destruct (v =? 256); [cbn; lia|].
    destruct (1048831 <? val * 16 + v); [cbn; lia|].
    apply IH; lia.
Qed.

Lemma decode_dec_loop_spec fuel : forall s i val,
  1 <= i <= len s -> len s - i <= Z.of_nat fuel ->
  wp (decode_dec_loop fuel s i val) (fun r => 1 <= snd r <= len s).
Proof.
  induction fuel as [|fuel IH]; intros s i val H1 H2; cbn [decode_dec_loop].
  - destruct (i <? len s) eqn:E; [lia|]. cbn. lia.
  - destruct (i <? len s) eqn:E; [|cbn; lia].
    apply wp_bind. apply wp_get; [lia|]. intros c _.
    destruct (beq c x3b); [cbn; lia|].
    destruct ((code c <? 48) || (57 <? code c)); [cbn; lia|].
    destruct (1048831 <? val * 10 + (code c - 48)); [cbn; lia|].
    apply IH; lia.
Qed.

Lemma html_decode_byte_at_spec s : 0 < len s ->
  wp (html_decode_byte_at s) (fun r => 1 <= snd r <= len s).
Proof.
  intros H. unfold html_decode_byte_at.
  destruct (len s =? 0) eqn:E0; [lia|].
  apply wp_bind. apply wp_get; [lia|]. intros c0 _.
  destruct (negb (beq c0 x26) || (len s <? 2)) eqn:E1; [cbn; lia|].
  apply wp_bind. apply wp_get; [lia|]. intros c1 _.
  destruct (negb (beq c1 x23) || (len s <? 3)) eqn:E2; [cbn; lia|].
  apply wp_bind. apply wp_get; [lia|]. intros c2 _.
  destruct (beq c2 x78 || beq c2 x58).
  - destruct (len s <? 4) eqn:E3; [cbn; lia|].
    apply wp_bind. apply wp_get; [lia|]. intros c3 _.
    apply wp_bind. apply wp_hex_val. intros v.
    destruct (v =? 256); [cbn; lia|].
    apply decode_hex_loop_spec; unfold len in *; lia.
  - destruct ((code c2 <? 48) || (57 <? code c2)); [cbn; lia|].
    apply decode_dec_loop_spec; unfold len in *; lia.
Qed.

(* ---------- htmlEncodeStartsWith, isBlackURL ---------- *)

Lemma starts_with_loop_total fuel : forall rest first acc,
  len rest <= Z.of_nat fuel -> wp (starts_with_loop fuel rest first acc) (fun _ => True).
Proof.
  induction fuel as [|fuel IH]; intros rest first acc H; cbn [starts_with_loop].
  - destruct (0 <? len rest) eqn:E; [lia|]. exact I.
  - destruct (0 <? len rest) eqn:E; [|exact I].
    apply wp_bind. eapply wp_conseq; [apply html_decode_byte_at_spec; lia|].
    intros [cb consumed]. cbn [snd]. intros C.
    apply wp_bind. apply wp_drop; [lia|].
    assert (L : len (skipn (Z.to_nat consumed) rest) <= Z.of_nat fuel) by (rewrite len_skipn_le; lia).
    destruct (first && (cb <=? 32)); [apply IH; exact L|].
    destruct ((cb =? 0) || (cb =? 10)); apply IH; exact L.
Qed.

Lemma html_encode_starts_with_total a b : wp (html_encode_starts_with a b) (fun _ => True).
Proof.
  unfold html_encode_starts_with. apply wp_bind.
  eapply wp_conseq; [apply starts_with_loop_total; unfold len; lia|]. intros d _. exact I.
Qed.

Lemma any_scheme_total urls str : wp (any_scheme urls str) (fun _ => True).
Proof.
  induction urls as [|u urls IH]; cbn [any_scheme]; [exact I|].
  apply wp_bind. eapply wp_conseq; [apply html_encode_starts_with_total|].
  intros [|] _; [exact I|exact IH].
Qed.

Lemma is_black_url_total s : wp (is_black_url s) (fun _ => True).
Proof. apply any_scheme_total. Qed.

(* ---------- the loop body of isXSS ---------- *)

Lemma classify_total h attr :
  0 <= tok_off h -> 0 <= tok_len h -> tok_off h + tok_len h <= hlen h ->
  wp (classify h attr) (fun _ => True).
Proof.
  intros H1 H2 H3. unfold classify, hlen in *.
  apply wp_bind. apply wp_drop; [lia|].
  set (start := skipn (Z.to_nat (tok_off h)) (hs h)).
  assert (L : len start = len (hs h) - tok_off h) by (unfold start; rewrite len_skipn_le; lia).
  repeat lazymatch goal with
    | |- True => exact I
    | |- wp (Ok _) _ => apply wp_Ok
    | |- wp (bind _ _) _ => apply wp_bind
    | |- wp (take _ _ _) _ => apply wp_take; [lia|]
    | |- wp (get _ _ _) _ => apply wp_get; [lia|intros ? _]
    | |- wp (slice _ _ _ _) _ => apply wp_slice; [lia|lia|]
    | |- wp (is_black_url _) _ => eapply wp_conseq; [apply is_black_url_total|intros ? _]
    | |- wp (match ?c with Some _ => _ | None => _ end) _ => destruct c
    | |- wp (if ?c then _ else _) _ => destruct c eqn:?
    end.
Qed.

(* ---------- the loop of isXSS ---------- *)

Lemma xss_loop_total fuel : forall h attr,
  h5_ok h -> Phi h < Z.of_nat fuel -> wp (xss_loop fuel h attr) (fun _ => True).
Proof.
  induction fuel as [|fuel IH]; intros h attr K F; [pose proof (Phi_nonneg h K); lia|].
  cbn [xss_loop]. apply wp_bind. eapply wp_conseq; [apply h5_next_spec; exact K|].
  intros [more h'] (P1 & P2 & P3). destruct more; [|exact I].
  destruct (P3 eq_refl) as (A1 & A2 & A3 & A4 & A5).
  apply wp_bind. eapply wp_conseq; [apply classify_total; assumption|].
  intros [[b|] attr'] _; [exact I|]. apply IH; [exact P2|lia].
Qed.

Theorem xss_ctx_total : forall s fl, 0 <= fl <= 4 -> exists b, xss_ctx s fl = Ok b.
Proof.
  intros s fl H. destruct (h5_init_ok s fl H) as [K B].
  assert (W : wp (xss_ctx s fl) (fun _ => True)).
  { unfold xss_ctx. apply xss_loop_total; [exact K|]. unfold h5_fuel. unfold len in B. lia. }
  apply wp_inv in W. destruct W as [b [E _]]. exists b. exact E.
Qed.

(* GOAL 3 *)
Theorem is_xss_total : forall s, exists b, is_xss s = Ok b.
Proof.
  intros s. unfold is_xss.
  destruct (xss_ctx_total s c_html5_flags_data_state ltac:(vm_compute; split; discriminate)) as [b0 E0].
  destruct (xss_ctx_total s c_html5_flags_value_no_quote ltac:(vm_compute; split; discriminate)) as [b1 E1].
  destruct (xss_ctx_total s c_html5_flags_value_single_quote ltac:(vm_compute; split; discriminate)) as [b2 E2].
  destruct (xss_ctx_total s c_html5_flags_value_double_quote ltac:(vm_compute; split; discriminate)) as [b3 E3].
  destruct (xss_ctx_total s c_html5_flags_value_back_quote ltac:(vm_compute; split; discriminate)) as [b4 E4].
  rewrite E0. cbn [bind]. destruct b0; [eauto|].
  rewrite E1. cbn [bind]. destruct b1; [eauto|].
  rewrite E2. cbn [bind]. destruct b2; [eauto|].
  rewrite E3. cbn [bind]. destruct b3; [eauto|].
  rewrite E4. eauto.
Qed.

Print Assumptions xss_ctx_total.
Print Assumptions is_xss_total.
