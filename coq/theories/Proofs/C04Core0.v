(* C04Core0: every vector of break-out context 0 of the XSS vector grammar is
   reported by the model (decided by vm_compute, one lemma per group of productions).
   No production is excluded. *)
From Coq Require Import List ZArith String Bool.
From Coq.Strings Require Import Byte.
From LI Require Import Prelude Base Html5 Xss GrammarXss.
Import ListNotations.

(* P1, P2: blacklisted elements x terminators, SVT / XSL *)
Lemma ctx0_tags_ok : forallb detected_xss (ctx_tags 0) = true.
Proof. vm_compute; reflexivity. Qed.

(* P3: listed on* event handlers of type 1 x value quotings *)
Lemma ctx0_events_ok : forallb detected_xss (ctx_events 0) = true.
Proof. vm_compute; reflexivity. Qed.

(* P4-P9: attribute separators, URL / black / style / indirect attributes, XMLNS / XLINK, markup *)
Lemma ctx0_rest_ok : forallb detected_xss (ctx_rest 0) = true.
Proof. vm_compute; reflexivity. Qed.

Lemma ctx0_ok : forallb detected_xss (xss_core_ctx 0) = true.
Proof.
  unfold xss_core_ctx. rewrite !forallb_app.
  rewrite ctx0_tags_ok, ctx0_events_ok, ctx0_rest_ok. reflexivity.
Qed.
