(* XLiftSpec: vocabulary of the C04 lifting theorems (Properties/C04c.v).
   Definitions only.

   nul_inside n n'   : n' is n with NUL bytes inserted strictly inside it, any
                       number of times: each insertion puts one NUL between two
                       bytes of the name built so far (never in front of its
                       first byte, never behind its last byte).
   name_variant n n' : n' is n with the case of some ASCII letters changed and
                       NUL bytes inserted strictly inside.
   value_kept q junk enc tail : the bytes of an attribute value written with
                       quoting q stay inside one attribute-value token.
   named_vectors ci  : the vectors of break-out context ci that contain an
                       element or attribute name. *)
From Coq Require Import List ZArith String Bool.
From Coq.Strings Require Import Byte.
From LI Require Import Prelude Base Xss Spec.XCiSpec Spec.RefHtml Spec.GrammarXss.
Import ListNotations.
Local Open Scope Z_scope.

Inductive nul_inside : bytes -> bytes -> Prop :=
| NI_same n : nul_inside n n
| NI_ins n a b : nul_inside n (a ++ b) -> a <> [] -> b <> [] -> nul_inside n (a ++ x00 :: b).

Definition name_variant (n n' : bytes) : Prop := exists m, cv n m /\ nul_inside m n'.


(* What must hold of the value bytes so that the tokenizer keeps them in one
   attribute-value token.  Unquoted (q = []): no white-space byte (TAB LF VT FF
   CR SPACE) and no '>' among junk ++ enc (RefHtml.ends_unquoted).  Quoted with
   the byte c: c occurs nowhere in junk ++ enc ++ tail. *)
Definition value_kept (q junk enc tail : bytes) : Prop :=
  match q with
  | [] => forallb (fun b => negb (ends_unquoted b)) (junk ++ enc) = true
  | c :: _ => ~ In c (junk ++ enc ++ tail)
  end.

(* the vectors of break-out context ci that contain an element or attribute
   name: all of xss_core_ctx ci except the ten markup vectors (p_markup) *)
Definition named_vectors (ci : nat) : list bytes :=
  ctx_tags ci ++ ctx_events ci ++ p_event_seps (pre_of ci) ++ p_blacks (apre_of ci) ++ p_xmlns_xlink (apre_of ci).
