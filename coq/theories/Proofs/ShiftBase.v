(* ShiftBase: shift invariance of the HTML5 tokenizer model and of the XSS loop.

   A state h1 over the input  pre ++ s  and a state h2 over  s  are twins when
   they are in the same state function, carry the same is_close flag and h1
   stands len pre bytes further to the right.  One step of the tokenizer maps
   twins to twins and emits the same token (offset shifted by len pre), as long
   as the state functions that look one byte back (STagOpen,
   SSelfClosingStartTag) or test "position = 0" (STagOpen, the three quoted
   value states and SBeforeAttributeValue, which calls them) are entered at a
   position >= 1 of s.  That side condition is preserved by every step.

   All simulation statements have the shape "if the run over s returns Ok r2
   then the run over pre ++ s returns Ok r1 with r1 ~ r2" (simR); totality of
   the model (XssTotal) turns them into equations at the end. *)
From Coq Require Import List ZArith String Bool Lia ZifyBool.
From Coq.Strings Require Import Byte.
From LI Require Import Prelude Base Html5 Xss Proofs.BaseFacts Proofs.Wp Proofs.H5Spec.
From LIGen Require Import Consts.
Import ListNotations.
Local Open Scope Z_scope.

(* ---------- one-directional simulation of two computations ---------- *)

Definition simR {A B} (R : A -> B -> Prop) (m1 : res A) (m2 : res B) : Prop :=
  forall a2, m2 = Ok a2 -> exists a1, m1 = Ok a1 /\ R a1 a2.

Lemma simR_ret {A B} (R : A -> B -> Prop) a1 a2 : R a1 a2 -> simR R (Ok a1) (Ok a2).
Proof. intros H x E. inversion E; subst. eauto. Qed.

Lemma simR_bind {A B C D} (R : A -> B -> Prop) (Q : C -> D -> Prop) m1 m2 k1 k2 :
  simR R m1 m2 ->
  (forall a1 a2, R a1 a2 -> m2 = Ok a2 -> simR Q (k1 a1) (k2 a2)) ->
  simR Q (bind m1 k1) (bind m2 k2).
Proof.
  intros H1 H2 x E. inv_bind E. destruct (H1 _ E0) as [a1 [E1 Ra]]. rewrite E1. cbn [bind].
  exact (H2 a1 a Ra E0 x E).
Qed.

Lemma simR_fail_stack {A B} (R : A -> B -> Prop) m1 : simR R m1 StackOverflow.
Proof. intros x E. discriminate E. Qed.
Lemma simR_fail_fuel {A B} (R : A -> B -> Prop) m1 : simR R m1 OutOfFuel.
Proof. intros x E. discriminate E. Qed.

Lemma bind_assoc {A B C} (m : res A) (f : A -> res B) (g : B -> res C) :
  bind (bind m f) g = bind m (fun x => bind (f x) g).
Proof. destruct m; reflexivity. Qed.

(* ---------- the checked primitives under a shift ---------- *)

Lemma skipn_shift (pre s : bytes) i : 0 <= i ->
  skipn (Z.to_nat (i + len pre)) (pre ++ s) = skipn (Z.to_nat i) s.
Proof.
  intros H. unfold len. rewrite skipn_app.
  rewrite skipn_all2 by lia. cbn [app]. f_equal. lia.
Qed.

Lemma nth_shift (pre s : bytes) i : 0 <= i ->
  nth_error (pre ++ s) (Z.to_nat (i + len pre)) = nth_error s (Z.to_nat i).
Proof.
  intros H. unfold len. rewrite nth_error_app2 by lia. f_equal. lia.
Qed.

Lemma drop_shift site pre s i r : drop site s i = Ok r -> drop site (pre ++ s) (i + len pre) = Ok r.
Proof.
  intros E. apply drop_Ok_inv in E. destruct E as [R ->]. pose proof (len_nonneg pre).
  rewrite drop_ok by (rewrite len_app; lia). rewrite skipn_shift by lia. reflexivity.
Qed.

Lemma get_shift site pre s i b : get site s i = Ok b -> get site (pre ++ s) (i + len pre) = Ok b.
Proof.
  intros E. apply get_Ok_inv in E. destruct E as [R N]. pose proof (len_nonneg pre).
  destruct (get_ok site (pre ++ s) (i + len pre)) as [b' [E' N']]; [rewrite len_app; lia|].
  rewrite nth_shift in N' by lia. congruence.
Qed.

Lemma slice_shift site pre s i j r : slice site s i j = Ok r ->
  slice site (pre ++ s) (i + len pre) (j + len pre) = Ok r.
Proof.
  intros E. apply slice_Ok_inv in E. destruct E as (R1 & R2 & ->). pose proof (len_nonneg pre).
  rewrite slice_ok by (try rewrite len_app; lia). rewrite skipn_shift by lia.
  replace (j + len pre - (i + len pre)) with (j - i) by lia. reflexivity.
Qed.

Lemma sim_drop {C D} (Q : C -> D -> Prop) site pre s i1 i2 k1 k2 :
  i1 = i2 + len pre ->
  (0 <= i2 <= len s -> simR Q (k1 (skipn (Z.to_nat i2) s)) (k2 (skipn (Z.to_nat i2) s))) ->
  simR Q (bind (drop site (pre ++ s) i1) k1) (bind (drop site s i2) k2).
Proof.
  intros -> H x E. inv_bind E. rewrite (drop_shift _ _ _ _ _ E0). cbn [bind].
  apply drop_Ok_inv in E0. destruct E0 as [R ->]. exact (H R x E).
Qed.

Lemma sim_get {C D} (Q : C -> D -> Prop) site pre s i1 i2 k1 k2 :
  i1 = i2 + len pre ->
  (forall b, 0 <= i2 < len s -> nth_error s (Z.to_nat i2) = Some b -> simR Q (k1 b) (k2 b)) ->
  simR Q (bind (get site (pre ++ s) i1) k1) (bind (get site s i2) k2).
Proof.
  intros -> H x E. inv_bind E. rewrite (get_shift _ _ _ _ _ E0). cbn [bind].
  apply get_Ok_inv in E0. destruct E0 as [R N]. exact (H a R N x E).
Qed.

Lemma sim_slice {C D} (Q : C -> D -> Prop) site pre s i1 i2 j1 j2 k1 k2 :
  i1 = i2 + len pre -> j1 = j2 + len pre ->
  (0 <= i2 <= j2 -> j2 <= len s ->
   simR Q (k1 (firstn (Z.to_nat (j2 - i2)) (skipn (Z.to_nat i2) s)))
          (k2 (firstn (Z.to_nat (j2 - i2)) (skipn (Z.to_nat i2) s)))) ->
  simR Q (bind (slice site (pre ++ s) i1 j1) k1) (bind (slice site s i2 j2) k2).
Proof.
  intros -> -> H x E. inv_bind E. rewrite (slice_shift _ _ _ _ _ _ E0). cbn [bind].
  apply slice_Ok_inv in E0. destruct E0 as (R1 & R2 & ->). exact (H R1 R2 x E).
Qed.

Lemma simR_drop_eq site pre s i1 i2 : i1 = i2 + len pre ->
  simR eq (drop site (pre ++ s) i1) (drop site s i2).
Proof. intros -> x E. exists x. split; [apply drop_shift; exact E|reflexivity]. Qed.

Lemma simR_get_eq site pre s i1 i2 : i1 = i2 + len pre ->
  simR eq (get site (pre ++ s) i1) (get site s i2).
Proof. intros -> x E. exists x. split; [apply get_shift; exact E|reflexivity]. Qed.

(* ---------- twins ---------- *)

(* positions at which the state function f may be entered on the unshifted side *)
Definition pre_ok (f : h5fn) (pos : Z) : Prop :=
  match f with
  | STagOpen | SSelfClosingStartTag | SBeforeAttributeValue
  | SAttributeValueSingleQuote | SAttributeValueDoubleQuote | SAttributeValueBackQuote => 1 <= pos
  | _ => 0 <= pos
  end.

Lemma pre_ok_nonneg f pos : pre_ok f pos -> 0 <= pos.
Proof. destruct f; cbn [pre_ok]; lia. Qed.

Definition twin (pre : bytes) (h1 h2 : h5) : Prop :=
  hs h1 = pre ++ hs h2 /\ hpos h1 = hpos h2 + len pre /\
  is_close h1 = is_close h2 /\ hstate h1 = hstate h2.

(* related results of one state function: same `more`; when a token was
   emitted: twin states, same token shifted, and the next state may be entered *)
Definition relR (pre : bytes) (r1 r2 : bool * h5) : Prop :=
  fst r1 = fst r2 /\
  (fst r2 = true ->
   twin pre (snd r1) (snd r2) /\ tok_off (snd r1) = tok_off (snd r2) + len pre /\
   tok_len (snd r1) = tok_len (snd r2) /\ tok_type (snd r1) = tok_type (snd r2) /\
   pre_ok (hstate (snd r2)) (hpos (snd r2))).

Lemma relR_false pre h1 h2 : relR pre (false, h1) (false, h2).
Proof. split; [reflexivity|]. cbn [fst]. discriminate. Qed.

(* ---------- tactics ---------- *)

Ltac sside :=
  simp_h; consts; note_facts; norm_len; rewrite ?len_app in *; lia.

Ltac sim_step :=
  lazymatch goal with
  | |- simR (relR _) (Ok (false, _)) (Ok (false, _)) => apply simR_ret; apply relR_false
  | |- simR _ (Ok _) (Ok _) => apply simR_ret; try reflexivity
  | |- simR _ _ StackOverflow => apply simR_fail_stack
  | |- simR _ _ OutOfFuel => apply simR_fail_fuel
  | |- simR _ (bind (drop _ _ _) _) (bind (drop _ _ _) _) => apply sim_drop; [sside | intros ?]
  | |- simR _ (bind (get _ _ _) _) (bind (get _ _ _) _) => apply sim_get; [sside | intros ? ? ?]
  | |- simR _ (bind (slice _ _ _ _) _) (bind (slice _ _ _ _) _) => apply sim_slice; [sside | sside | intros ? ?]
  | |- simR _ (bind (emit _ _ _ _ _ _ _ _) _) (bind (emit _ _ _ _ _ _ _ _) _) =>
      unfold emit; rewrite !bind_assoc
  | |- simR _ (emit _ _ _ _ _ _ _ _) (emit _ _ _ _ _ _ _ _) => unfold emit
  | |- simR _ (bind (Ok _) _) (bind (Ok _) _) => cbn [bind]
  | |- simR _ (bind (if _ then _ else _) _) (bind (if _ then _ else _) _) =>
      eapply simR_bind with (R := eq); [ | intros ? ? ? ?; subst ]
  | |- simR eq (drop _ _ _) (drop _ _ _) => apply simR_drop_eq; sside
  | |- simR eq (get _ _ _) (get _ _ _) => apply simR_get_eq; sside
  | |- simR _ (if ?c1 then _ else _) (if ?c2 then _ else _) =>
      first [ constr_eq c1 c2; destruct c1 eqn:?
            | destruct c1 eqn:?; destruct c2 eqn:?; try (exfalso; sside) ]
  end.

Ltac sim_go := simp_h; repeat (sim_step; simp_h).

(* a leaf: relR of two concrete results *)
Ltac rel0 :=
  unfold relR, twin; simp_h; consts;
  repeat match goal with |- context [if ?c then _ else _] => destruct c eqn:? end;
  cbn [pre_ok]; note_facts; norm_len; rewrite ?len_app in *;
  splits; try reflexivity; try lia;
  try (intros _; splits; try reflexivity; try lia).
Ltac rel := solve [rel0].

Ltac twin_ok := solve [unfold twin; simp_h; splits; try reflexivity; sside].

(* ---------- skip_white ---------- *)

Lemma sim_sw {C D} (Q : C -> D -> Prop) pre h1 h2 K1 K2 :
  twin pre h1 h2 ->
  (forall ch p, 0 <= hpos h2 <= p -> p <= hlen h2 ->
     simR Q (K1 (ch, with_pos h1 (p + len pre))) (K2 (ch, with_pos h2 p))) ->
  simR Q (bind (skip_white h1) K1) (bind (skip_white h2) K2).
Proof.
  intros (T1 & T2 & T3 & T4) H x E. inv_bind E. pose proof (len_nonneg pre) as Lp.
  unfold skip_white in E0. inv_bind E0. pose proof E1 as E1'. apply drop_Ok_inv in E1'. destruct E1' as [R ->].
  set (sp := span is_skip_white (skipn (Z.to_nat (hpos h2)) (hs h2))) in *.
  assert (Rs : 0 <= sp <= hlen h2 - hpos h2).
  { unfold sp, hlen. pose proof (span_range is_skip_white (skipn (Z.to_nat (hpos h2)) (hs h2))) as S.
    rewrite len_skipn_le in S by lia. lia. }
  assert (L1 : hlen h1 = hlen h2 + len pre) by (unfold hlen; rewrite T1, len_app; lia).
  assert (E2 : skip_white h1 = Ok (fst a, with_pos h1 (hpos h2 + sp + len pre))).
  { unfold skip_white. rewrite T1, T2. rewrite (drop_shift _ _ _ _ _ E1). cbn [bind]. fold sp.
    rewrite L1. destruct (hpos h2 + sp <? hlen h2) eqn:Cmp.
    - replace (hpos h2 + len pre + sp <? hlen h2 + len pre) with true by lia.
      inv_bind E0. replace (hpos h2 + len pre + sp) with (hpos h2 + sp + len pre) by lia.
      rewrite (get_shift _ _ _ _ _ E2). cbn [bind]. inversion E0; subst a. reflexivity.
    - replace (hpos h2 + len pre + sp <? hlen h2 + len pre) with false by lia.
      inversion E0; subst a. cbn [fst]. replace (hpos h2 + len pre + sp) with (hpos h2 + sp + len pre) by lia. reflexivity. }
  rewrite E2. cbn [bind].
  assert (E3 : a = (fst a, with_pos h2 (hpos h2 + sp))).
  { destruct (hpos h2 + sp <? hlen h2); [inv_bind E0|]; inversion E0; reflexivity. }
  rewrite E3 in E. exact (H (fst a) (hpos h2 + sp) ltac:(lia) ltac:(lia) x E).
Qed.


Ltac sw pre :=
  apply (sim_sw _ pre); [twin_ok|];
  let ch := fresh "ch" in let p := fresh "p" in let P1 := fresh "P" in let P2 := fresh "P" in
  intros ch p P1 P2; cbn beta iota.

(* ---------- the three fuel loops ---------- *)

Ltac loop_rec pre IH :=
  match goal with
  | |- simR _ (_ _ _ ?q1) (_ _ _ ?q2) =>
      replace q1 with (q2 + len pre) by lia; apply IH; sside
  end.

Lemma bogus2_sim pre : forall fuel2 fuel1, (fuel2 <= fuel1)%nat ->
  forall s c st a1 b1 t1 a2 b2 t2 hp p, 0 <= hp -> 0 <= p ->
  simR (relR pre) (bogus2_loop fuel1 (mkH5 (pre ++ s) (hp + len pre) c st a1 b1 t1) (p + len pre))
                  (bogus2_loop fuel2 (mkH5 s hp c st a2 b2 t2) p).
Proof.
  pose proof (len_nonneg pre) as Lp.
  induction fuel2 as [|fuel2 IH]; intros fuel1 F s c st a1 b1 t1 a2 b2 t2 hp p H1 H2;
    [apply simR_fail_fuel|].
  destruct fuel1 as [|fuel1]; [lia|]. cbn [bogus2_loop]. sim_go; try rel.
  loop_rec pre IH.
Qed.


Lemma comment_sim pre : forall fuel2 fuel1, (fuel2 <= fuel1)%nat ->
  forall s c st a1 b1 t1 a2 b2 t2 hp p, 0 <= hp -> 0 <= p ->
  simR (relR pre) (comment_loop fuel1 (mkH5 (pre ++ s) (hp + len pre) c st a1 b1 t1) (p + len pre))
                  (comment_loop fuel2 (mkH5 s hp c st a2 b2 t2) p).
Proof.
  pose proof (len_nonneg pre) as Lp.
  induction fuel2 as [|fuel2 IH]; intros fuel1 F s c st a1 b1 t1 a2 b2 t2 hp p H1 H2;
    [apply simR_fail_fuel|].
  destruct fuel1 as [|fuel1]; [lia|]. cbn [comment_loop]. sim_go; try rel; loop_rec pre IH.
Qed.

Lemma cdata_sim pre : forall fuel2 fuel1, (fuel2 <= fuel1)%nat ->
  forall s c st a1 b1 t1 a2 b2 t2 hp p, 0 <= hp -> 0 <= p ->
  simR (relR pre) (cdata_loop fuel1 (mkH5 (pre ++ s) (hp + len pre) c st a1 b1 t1) (p + len pre))
                  (cdata_loop fuel2 (mkH5 s hp c st a2 b2 t2) p).
Proof.
  pose proof (len_nonneg pre) as Lp.
  induction fuel2 as [|fuel2 IH]; intros fuel1 F s c st a1 b1 t1 a2 b2 t2 hp p H1 H2;
    [apply simR_fail_fuel|].
  destruct fuel1 as [|fuel1]; [lia|]. cbn [cdata_loop]. sim_go; try rel; try loop_rec pre IH.

Qed.

(* ---------- stateBeforeAttributeName ---------- *)

Definition relB (pre : bytes) (o1 o2 : ban_out) : Prop :=
  match o1, o2 with
  | BanDone r1, BanDone r2 => relR pre r1 r2
  | BanCall f1 h1, BanCall f2 h2 => f1 = f2 /\ twin pre h1 h2 /\ pre_ok f2 (hpos h2)
  | _, _ => False
  end.

Lemma ban_sim pre : forall fuel2 fuel1, (fuel2 <= fuel1)%nat ->
  forall s c st a1 b1 t1 a2 b2 t2 hp, 0 <= hp ->
  simR (relB pre) (before_attr_name_loop fuel1 (mkH5 (pre ++ s) (hp + len pre) c st a1 b1 t1))
                  (before_attr_name_loop fuel2 (mkH5 s hp c st a2 b2 t2)).
Proof.
  pose proof (len_nonneg pre) as Lp.
  induction fuel2 as [|fuel2 IH]; intros fuel1 F s c st a1 b1 t1 a2 b2 t2 hp H1;
    [apply simR_fail_fuel|].
  destruct fuel1 as [|fuel1]; [lia|]. cbn [before_attr_name_loop]. sim_go.
  - sw pre. sim_go; cbn [relB]; try rel.
    replace (p + len pre + 1) with (p + 1 + len pre) by lia. apply IH; lia.
  - cbn [relB]. rel.
Qed.

(* ---------- one call of a state function ---------- *)

Lemma loop_fuel_le pre s c st a1 b1 t1 a2 b2 t2 p1 p2 :
  (loop_fuel (mkH5 s p2 c st a2 b2 t2) <= loop_fuel (mkH5 (pre ++ s) p1 c st a1 b1 t1))%nat.
Proof. unfold loop_fuel. cbn [hs]. rewrite app_length. lia. Qed.

Lemma call_sim pre : forall d2 d1, (d2 <= d1)%nat ->
  forall f h1 h2, twin pre h1 h2 -> pre_ok f (hpos h2) ->
  simR (relR pre) (h5_call d1 f h1) (h5_call d2 f h2).
Proof.
  pose proof (len_nonneg pre) as Lp.
  induction d2 as [|d2 IH]; intros d1 D f h1 h2 T P; [apply simR_fail_stack|].
  destruct d1 as [|d1]; [lia|].
  assert (IH' : forall f s c st a1 b1 t1 a2 b2 t2 p1 p2, p1 = p2 + len pre -> pre_ok f p2 ->
            simR (relR pre) (h5_call d1 f (mkH5 (pre ++ s) p1 c st a1 b1 t1))
                            (h5_call d2 f (mkH5 s p2 c st a2 b2 t2))).
  { intros. apply IH; [lia|unfold twin; cbn [hs hpos is_close hstate]; auto|assumption]. }
  destruct h1 as [s1 p1 c1 st1 a1 b1 t1], h2 as [s2 p2 c2 st2 a2 b2 t2].
  destruct T as (T1 & T2 & T3 & T4). cbn [hs hpos is_close hstate] in *. subst s1 p1 c1 st1.
  destruct f; cbn [pre_ok] in P; cbn [h5_call].
  all: try solve [sim_go; first [rel | apply IH'; [sside|cbn [pre_ok]; sside]]].
  - simp_h. apply bogus2_sim; [apply loop_fuel_le|lia|lia].
  - simp_h. apply comment_sim; [apply loop_fuel_le|lia|lia].
  - simp_h. apply cdata_sim; [apply loop_fuel_le|lia|lia].
  - eapply simR_bind; [apply ban_sim; [apply loop_fuel_le|lia]|].
    intros [r1|f1 h1] [r2|f2 h2] Ro _; cbn [relB] in Ro; try contradiction.
    + apply simR_ret. exact Ro.
    + destruct Ro as (-> & T & P'). apply IH; [lia|exact T|exact P'].
  - sw pre. sim_go; first [rel | apply IH'; [sside|cbn [pre_ok]; sside]].
  - sw pre. sim_go; first [rel | apply IH'; [sside|cbn [pre_ok]; sside]].
  - simp_h. replace (0 <? p2 + len pre) with true by lia. replace (0 <? p2) with true by lia.
    sim_go; rel.
  - simp_h. replace (0 <? p2 + len pre) with true by lia. replace (0 <? p2) with true by lia.
    sim_go; rel.
  - simp_h. replace (0 <? p2 + len pre) with true by lia. replace (0 <? p2) with true by lia.
    sim_go; rel.

Qed.

(* ---------- one step of the tokenizer, the classifier, the XSS loop ---------- *)

Lemma next_sim pre h1 h2 : twin pre h1 h2 -> pre_ok (hstate h2) (hpos h2) ->
  simR (relR pre) (h5_next h1) (h5_next h2).
Proof.
  intros T P. unfold h5_next. destruct T as (T1 & T2 & T3 & T4). rewrite T4.
  apply call_sim; [lia|unfold twin; auto|exact P].
Qed.

(* classify reads the token bytes, the token type and the attribute type only *)
Lemma classify_shift pre h1 h2 attr x :
  hs h1 = pre ++ hs h2 -> tok_off h1 = tok_off h2 + len pre ->
  tok_len h1 = tok_len h2 -> tok_type h1 = tok_type h2 ->
  classify h2 attr = Ok x -> classify h1 attr = Ok x.
Proof.
  intros E1 E2 E3 E4 H. unfold classify in *. rewrite E1, E2, E3, E4.
  cbv zeta in *. inv_bind H. rewrite (drop_shift _ _ _ _ _ E). cbn [bind]. exact H.
Qed.

Lemma xss_loop_shift pre : forall fuel2 fuel1, (fuel2 <= fuel1)%nat ->
  forall h1 h2 attr b, twin pre h1 h2 -> pre_ok (hstate h2) (hpos h2) ->
  xss_loop fuel2 h2 attr = Ok b -> xss_loop fuel1 h1 attr = Ok b.
Proof.
  induction fuel2 as [|fuel2 IH]; intros fuel1 F h1 h2 attr b T P H; [discriminate H|].
  destruct fuel1 as [|fuel1]; [lia|]. cbn [xss_loop] in *.
  inv_bind H. destruct (next_sim pre h1 h2 T P _ E) as [[more1 h1'] [E1 [R1 R2]]].
  rewrite E1. cbn [bind]. destruct a as [more2 h2']. cbn [fst snd] in *. subst more1.
  destruct more2; [|exact H].
  destruct (R2 eq_refl) as (T' & O1 & O2 & O3 & P').
  inv_bind H. rewrite (classify_shift pre h1' h2' attr a (proj1 T') O1 O2 O3 E0). cbn [bind].
  destruct a as [[v|] attr']; [exact H|].
  apply (IH fuel1 ltac:(lia) h1' h2' attr' b T' P' H).
Qed.

(* the loop body after h5_next, as a function of the step result *)
Definition xss_body (fuel : nat) (r : bool * h5) (attr : Z) : res bool :=
  let '(more, h) := r in
  if (more : bool) then
    bind (classify h attr) (fun ra =>
      let '(v, attr) := ra in
      match v with
      | Some b => Ok b
      | None => xss_loop fuel h attr
      end)
  else Ok false.

Lemma xss_loop_S fuel h attr :
  xss_loop (S fuel) h attr = bind (h5_next h) (fun r => xss_body fuel r attr).
Proof. reflexivity. Qed.

Lemma xss_body_shift pre fuel2 fuel1 r1 r2 attr b : (fuel2 <= fuel1)%nat ->
  relR pre r1 r2 -> xss_body fuel2 r2 attr = Ok b -> xss_body fuel1 r1 attr = Ok b.
Proof.
  intros F [R1 R2] H. destruct r1 as [more1 h1'], r2 as [more2 h2']. cbn [fst snd] in *. subst more1.
  unfold xss_body in *. destruct more2; [|exact H].
  destruct (R2 eq_refl) as (T' & O1 & O2 & O3 & P').
  inv_bind H. rewrite (classify_shift pre h1' h2' attr a (proj1 T') O1 O2 O3 E). cbn [bind].
  destruct a as [[v|] attr']; [exact H|].
  apply (xss_loop_shift pre fuel2 fuel1 F h1' h2' attr' b T' P' H).
Qed.

(* a step that emits a text token inside the input is ignored by the classifier *)
Lemma classify_text h attr : tok_type h = c_html5_type_data_text -> 0 <= tok_off h <= hlen h ->
  classify h attr = Ok (None, c_attribute_type_none).
Proof.
  intros E R. unfold classify. rewrite E. rewrite drop_ok by exact R. reflexivity.
Qed.

Print Assumptions xss_loop_shift.
