(* CiXBase: structural facts about the relation cvx of Spec/CiXSpec.v (symmetry,
   suffix closure, decidability, plain2 => cvx) and the searches of the three
   case-sensitive lexers under cvx (property C10, theorem C10_full). *)
From Coq Require Import List ZArith String Bool Lia ZifyBool.
From Coq.Strings Require Import Byte.
From LI Require Import Prelude Base SqliLex Proofs.BaseFacts Proofs.Wp Proofs.LexBase
  Spec.CiSpec Proofs.CiBase Proofs.CiLex Proofs.CiLex2 Spec.CiXSpec.
From LIGen Require Import Tables Dispatch Consts.
Import ListNotations.
Local Open Scope Z_scope.

(* ---------- every2 ---------- *)

Lemma every2_nil_r P s : every2 P s [] = true.
Proof. destruct s; reflexivity. Qed.

Lemma every2_cons P a m a' m' :
  every2 P (a :: m) (a' :: m') = P (a :: m) (a' :: m') && every2 P m m'.
Proof. reflexivity. Qed.

Lemma every2_head P a m a' m' :
  every2 P (a :: m) (a' :: m') = true -> P (a :: m) (a' :: m') = true.
Proof. rewrite every2_cons. intros H. apply andb_true_iff in H. tauto. Qed.

Lemma every2_skipn P n : forall s s', every2 P s s' = true -> every2 P (skipn n s) (skipn n s') = true.
Proof.
  induction n as [|n IH]; intros s s' H; [exact H|].
  destruct s as [|a m]; [reflexivity|]. destruct s' as [|a' m']; [cbn [skipn]; apply every2_nil_r|].
  cbn [skipn]. apply IH. rewrite every2_cons in H. apply andb_true_iff in H. tauto.
Qed.

Lemma every2_refl P : (forall l, P l l = true) -> forall s, every2 P s s = true.
Proof. intros H s. induction s as [|a s IH]; [reflexivity|]. rewrite every2_cons, H, IH. reflexivity. Qed.

Lemma every2_sym (P Q : bytes -> bytes -> bool) :
  (forall l l', cv l l' -> P l l' = true -> Q l' l = true) ->
  forall s s', cv s s' -> every2 P s s' = true -> every2 Q s' s = true.
Proof.
  intros H s s' C. induction C as [|a a' s s' Ha C IH]; intros E; [reflexivity|].
  rewrite every2_cons in *. apply andb_true_iff in E. destruct E as [E1 E2].
  rewrite (H _ _ (cv_cons _ _ _ _ Ha C) E1), (IH E2). reflexivity.
Qed.

Lemma every2_mono (P Q : bytes -> bytes -> bool) :
  (forall l l', cv l l' -> P l l' = true -> Q l l' = true) ->
  forall s s', cv s s' -> every2 P s s' = true -> every2 Q s s' = true.
Proof.
  intros H s s' C. induction C as [|a a' s s' Ha C IH]; intros E; [reflexivity|].
  rewrite every2_cons in *. apply andb_true_iff in E. destruct E as [E1 E2].
  rewrite (H _ _ (cv_cons _ _ _ _ Ha C) E1), (IH E2). reflexivity.
Qed.

(* a condition whose guard is false everywhere *)
Lemma every2_nowhere (g : bytes -> bool) (P : bytes -> bytes -> bool) :
  (forall l l', g l = false -> P l l' = true) ->
  forall s s', nowhere g s = true -> every2 P s s' = true.
Proof.
  intros H s. induction s as [|a s IH]; intros s' N; [reflexivity|]. destruct s' as [|a' s']; [reflexivity|].
  cbn [nowhere] in N. apply andb_true_iff in N. destruct N as [N1 N2]. apply negb_true_iff in N1.
  rewrite every2_cons, (H _ _ N1), (IH _ N2). reflexivity.
Qed.

(* ---------- lists ---------- *)

Lemma skipn_nth {A} (l : list A) : forall n a, nth_error l n = Some a -> skipn n l = a :: skipn (S n) l.
Proof.
  induction l as [|x l IH]; intros n a H; [destruct n; discriminate|].
  destruct n as [|n]; cbn [nth_error] in H; [inversion H; reflexivity|].
  cbn [skipn]. rewrite (IH _ _ H). reflexivity.
Qed.

Lemma firstn_S_nth {A} (l : list A) : forall n a, nth_error l n = Some a -> firstn (S n) l = firstn n l ++ [a].
Proof.
  induction l as [|x l IH]; intros n a H; [destruct n; discriminate|].
  destruct n as [|n]; cbn [nth_error] in H; [inversion H; reflexivity|].
  cbn [firstn app]. f_equal. exact (IH _ _ H).
Qed.

Lemma has_prefix_nil m : has_prefix m [] = true.
Proof. destruct m; reflexivity. Qed.

Lemma beq_true_eq a b : beq a b = true -> a = b.
Proof. apply beq_eq. Qed.

Lemma beq_ceq a c : beq (upper_ascii a) (upper_ascii c) = true <-> ceq a c.
Proof. unfold ceq. split; [apply beq_eq|intros ->; apply beq_refl]. Qed.

(* ---------- the letter run after a dollar ---------- *)

Lemma run_term_cv m m' : cv m m' -> run_term m' = run_term m.
Proof.
  intros H. induction H as [|a a' m m' Ha H IH]; [reflexivity|]. cbn [run_term].
  rewrite <- (ci_fun_ceq _ _ _ is_alpha_ci Ha), IH, (ceq_beq _ _ x24 Ha eq_refl). reflexivity.
Qed.

Lemma run_same_refl m : run_same m m = true.
Proof. induction m as [|a m IH]; [reflexivity|]. cbn [run_same]. rewrite beq_refl, IH. destruct (is_alpha a); reflexivity. Qed.

Lemma run_same_sym m m' : cv m m' -> run_same m m' = true -> run_same m' m = true.
Proof.
  intros H. induction H as [|a a' m m' Ha H IH]; [reflexivity|]. cbn [run_same].
  rewrite <- (ci_fun_ceq _ _ _ is_alpha_ci Ha). destruct (is_alpha a); [|reflexivity].
  intros E. apply andb_true_iff in E. destruct E as [E1 E2]. apply beq_eq in E1. subst a'.
  rewrite beq_refl, (IH E2). reflexivity.
Qed.

Lemma run_same_nonalpha_head a m m' : is_alpha a = false -> run_same (a :: m) m' = true.
Proof. intros H. destruct m'; cbn [run_same]; [reflexivity|]. rewrite H. reflexivity. Qed.

(* the run and the byte that ends it are unchanged *)
Lemma run_same_firstn m m' : cv m m' -> run_same m m' = true ->
  firstn (S (Z.to_nat (span is_alpha m))) m' = firstn (S (Z.to_nat (span is_alpha m))) m.
Proof.
  intros H. induction H as [|a a' m m' Ha H IH]; [reflexivity|]. cbn [run_same span].
  destruct (is_alpha a) eqn:A.
  - intros E. apply andb_true_iff in E. destruct E as [E1 E2]. apply beq_eq in E1. subst a'.
    pose proof (span_range is_alpha m).
    replace (Z.to_nat (1 + span is_alpha m)) with (S (Z.to_nat (span is_alpha m))) by lia.
    cbn [firstn] in *. rewrite (IH E2). reflexivity.
  - intros _. cbn [Z.to_nat firstn]. rewrite (ceq_nonalpha _ _ Ha A). reflexivity.
Qed.

Lemma run_term_of_nth m : nth_error m (Z.to_nat (span is_alpha m)) = Some x24 -> run_term m = true.
Proof.
  induction m as [|a m IH]; cbn [span run_term]; [discriminate|].
  destruct (is_alpha a) eqn:A.
  - pose proof (span_range is_alpha m).
    replace (Z.to_nat (1 + span is_alpha m)) with (S (Z.to_nat (span is_alpha m))) by lia.
    cbn [nth_error]. exact IH.
  - cbn. intros E. inversion E. reflexivity.
Qed.

Lemma span_firstn_all (p : byte -> bool) m : forallb p (firstn (Z.to_nat (span p m)) m) = true.
Proof.
  induction m as [|a m IH]; cbn [span]; [reflexivity|].
  destruct (p a) eqn:A; [|reflexivity].
  pose proof (span_range p m).
  replace (Z.to_nat (1 + span p m)) with (S (Z.to_nat (span p m))) by lia.
  cbn [firstn forallb]. rewrite A, IH. reflexivity.
Qed.

Lemma span_ext (p q : byte -> bool) : (forall b, p b = q b) -> forall m, span p m = span q m.
Proof. intros H m. induction m as [|a m IH]; [reflexivity|]. cbn [span]. rewrite H, IH. reflexivity. Qed.

(* a candidate that is not of the shape letters$ never matches a tag *)
Lemma has_prefix_noterm L : forallb is_alpha L = true -> forall m,
  run_term m = false -> has_prefix m (L ++ [x24]) = false.
Proof.
  induction L as [|x L IH]; intros HL m R.
  - destruct m as [|a m]; [reflexivity|]. cbn [app has_prefix]. cbn [run_term] in R.
    destruct (is_alpha a) eqn:A.
    + destruct (beq x24 a) eqn:E; [|reflexivity]. apply beq_eq in E. subst a. discriminate.
    + rewrite beq_sym, R. reflexivity.
  - cbn [forallb] in HL. apply andb_true_iff in HL. destruct HL as [Hx HL].
    destruct m as [|a m]; [reflexivity|]. cbn [app has_prefix]. cbn [run_term] in R.
    destruct (is_alpha a) eqn:A.
    + rewrite (IH HL m R). apply andb_false_r.
    + destruct (beq x a) eqn:E; [|reflexivity]. apply beq_eq in E. subst a. congruence.
Qed.

Lemma has_prefix_run L : forallb is_alpha L = true -> forall m m', cv m m' ->
  run_same m m' = true -> has_prefix m' (L ++ [x24]) = has_prefix m (L ++ [x24]).
Proof.
  induction L as [|x L IH]; intros HL m m' H R.
  - destruct H as [|a a' m m' Ha H]; [reflexivity|]. cbn [app has_prefix].
    rewrite (beq_sym x24 a'), (beq_sym x24 a), (ceq_beq _ _ x24 Ha eq_refl).
    destruct m, m'; reflexivity.
  - cbn [forallb] in HL. apply andb_true_iff in HL. destruct HL as [Hx HL].
    destruct H as [|a a' m m' Ha H]; [reflexivity|]. cbn [app has_prefix]. cbn [run_same] in R.
    destruct (is_alpha a) eqn:A.
    + apply andb_true_iff in R. destruct R as [R1 R2]. apply beq_eq in R1. subst a'.
      rewrite (IH HL _ _ H R2). reflexivity.
    + rewrite (ceq_nonalpha _ _ Ha A). destruct (beq x a) eqn:E; [|reflexivity].
      apply beq_eq in E. subst a. congruence.
Qed.

Lemma has_prefix_tag L : forallb is_alpha L = true -> forall l l', cv l l' -> tag_ok l l' = true ->
  has_prefix l' (x24 :: L ++ [x24]) = has_prefix l (x24 :: L ++ [x24]).
Proof.
  intros HL l l' H T. destruct H as [|a a' m m' Ha H]; [reflexivity|].
  cbn [has_prefix]. rewrite (beq_sym x24 a'), (beq_sym x24 a), (ceq_beq _ _ x24 Ha eq_refl).
  cbn [tag_ok] in T. destruct (beq a x24); [|reflexivity]. cbn [andb] in *.
  destruct (run_term m) eqn:R.
  - apply has_prefix_run; assumption.
  - rewrite (has_prefix_noterm L HL m R). apply has_prefix_noterm; [exact HL|].
    rewrite (run_term_cv _ _ H). exact R.
Qed.

(* strings.Index of a tag $letters$ in a body *)
Lemma index_tag L : forallb is_alpha L = true -> forall l l', cv l l' -> every2 tag_ok l l' = true ->
  index l' (x24 :: L ++ [x24]) = index l (x24 :: L ++ [x24]).
Proof.
  intros HL l l' H. induction H as [|a a' m m' Ha H IH]; intros E; [reflexivity|].
  rewrite every2_cons in E. apply andb_true_iff in E. destruct E as [E1 E2].
  cbn [index]. rewrite (has_prefix_tag L HL (a :: m) (a' :: m') (cv_cons _ _ _ _ Ha H) E1), (IH E2).
  reflexivity.
Qed.

(* ---------- the q-quote terminator ---------- *)

(* strings.Index of  c'  in a body *)
Lemma index_qb c l l' : cv l l' -> every2 (qb_ok c) l l' = true ->
  index l' [c; x27] = index l [c; x27].
Proof.
  intros H. induction H as [|a a' m m' Ha H IH]; intros E; [reflexivity|].
  rewrite every2_cons in E. apply andb_true_iff in E. destruct E as [E1 E2].
  cbn [index]. rewrite (IH E2).
  assert (P : has_prefix (a' :: m') [c; x27] = has_prefix (a :: m) [c; x27]).
  { destruct H as [|y y' m2 m2' Hy H2]; [cbn [has_prefix]; rewrite !andb_false_r; reflexivity|].
    cbn [has_prefix qb_ok] in *. rewrite !has_prefix_nil, (beq_sym x27 y'), (beq_sym x27 y), (ceq_beq _ _ x27 Hy eq_refl).
    destruct (beq y x27); [|rewrite !andb_false_r; reflexivity]. cbn [andb] in *.
    destruct (beq (upper_ascii a) (upper_ascii c)) eqn:U.
    - apply beq_eq in E1. subst a'. reflexivity.
    - assert (N1 : beq c a = false).
      { destruct (beq c a) eqn:B; [|reflexivity]. apply beq_eq in B. subst a. rewrite beq_refl in U. discriminate. }
      assert (N2 : beq c a' = false).
      { destruct (beq c a') eqn:B; [|reflexivity]. apply beq_eq in B. subst a'.
        unfold ceq in Ha. rewrite Ha, beq_refl in U. discriminate. }
      rewrite N1, N2. reflexivity. }
  rewrite P. reflexivity.
Qed.

(* ---------- symmetry of the local conditions ---------- *)

Lemma bs_ok_sym l l' : cv l l' -> bs_ok l l' = true -> bs_ok l' l = true.
Proof.
  intros H. destruct H as [|a a' ? ? Ha H]; [reflexivity|].
  destruct H as [|c c' ? ? Hc H]; [reflexivity|]. cbn [bs_ok].
  rewrite (ceq_beq _ _ x5c Ha eq_refl).
  rewrite <- (ci_fun_ceq (fun b => beq b x4e || beq b x6e) _ _ ltac:(ci_sweep) Hc).
  destruct (beq a x5c && (beq c x4e || beq c x6e)); [|reflexivity].
  intros E. apply beq_eq in E. subst c'. apply beq_refl.
Qed.

Lemma tag_ok_sym l l' : cv l l' -> tag_ok l l' = true -> tag_ok l' l = true.
Proof.
  intros H. destruct H as [|a a' m m' Ha H]; [reflexivity|]. cbn [tag_ok].
  rewrite (ceq_beq _ _ x24 Ha eq_refl), (run_term_cv _ _ H).
  destruct (beq a x24 && run_term m); [|reflexivity]. apply run_same_sym. exact H.
Qed.

Lemma qb_ok_sym c l l' : cv l l' -> qb_ok c l l' = true -> qb_ok c l' l = true.
Proof.
  intros H. destruct H as [|a a' ? ? Ha H]; [reflexivity|].
  destruct H as [|y y' ? ? Hy H]; [reflexivity|]. cbn [qb_ok].
  rewrite (ceq_beq _ _ x27 Hy eq_refl). unfold ceq in Ha. rewrite <- Ha.
  destruct (beq y x27 && beq (upper_ascii a) (upper_ascii c)); [|reflexivity].
  intros E. apply beq_eq in E. subst a'. apply beq_refl.
Qed.

Lemma q_ok_sym l l' : cv l l' -> q_ok l l' = true -> q_ok l' l = true.
Proof.
  intros H. pose proof (qlit_at_cv _ _ H) as Q. revert Q.
  destruct H as [|a a' ? ? Ha H]; [reflexivity|].
  destruct H as [|b b' ? ? Hb H]; [reflexivity|].
  destruct H as [|c c' body body' Hc H]; [reflexivity|]. intros Q. cbn [q_ok]. rewrite Q.
  destruct (qlit_at (a :: b :: c :: body)); [|reflexivity].
  intros E. apply andb_true_iff in E. destruct E as [E1 E2]. apply beq_eq in E1. subst c'.
  rewrite beq_refl. cbn [andb]. apply (every2_sym (qb_ok c) (qb_ok c) (qb_ok_sym c) _ _ H E2).
Qed.

(* ---------- fixed / cvx: reflexive, symmetric, closed under suffixes, decidable ---------- *)

Lemma fixed_parts s s' : fixed s s' = true <->
  every2 bs_ok s s' = true /\ every2 tag_ok s s' = true /\ every2 q_ok s s' = true.
Proof. unfold fixed. rewrite !andb_true_iff. tauto. Qed.

Lemma bs_ok_refl l : bs_ok l l = true.
Proof. destruct l as [|a [|c l]]; cbn [bs_ok]; try reflexivity. rewrite beq_refl. destruct (_ && _); reflexivity. Qed.
Lemma tag_ok_refl l : tag_ok l l = true.
Proof. destruct l as [|a m]; cbn [tag_ok]; [reflexivity|]. rewrite run_same_refl. destruct (_ && _); reflexivity. Qed.
Lemma qb_ok_refl c l : qb_ok c l l = true.
Proof. destruct l as [|a [|y l]]; cbn [qb_ok]; try reflexivity. rewrite beq_refl. destruct (_ && _); reflexivity. Qed.
Lemma q_ok_refl l : q_ok l l = true.
Proof.
  destruct l as [|a [|b [|c l]]]; cbn [q_ok]; try reflexivity.
  rewrite beq_refl, (every2_refl _ (qb_ok_refl c)). destruct (qlit_at _); reflexivity.
Qed.

Lemma fixed_refl s : fixed s s = true.
Proof.
  apply fixed_parts. repeat split; apply every2_refl; [exact bs_ok_refl|exact tag_ok_refl|exact q_ok_refl].
Qed.

Lemma cvx_refl s : cvx s s.
Proof. split; [apply cv_refl|apply fixed_refl]. Qed.

Lemma fixed_sym s s' : cv s s' -> fixed s s' = true -> fixed s' s = true.
Proof.
  intros H F. apply fixed_parts in F. destruct F as (F1 & F2 & F3). apply fixed_parts.
  repeat split.
  - exact (every2_sym _ _ bs_ok_sym _ _ H F1).
  - exact (every2_sym _ _ tag_ok_sym _ _ H F2).
  - exact (every2_sym _ _ q_ok_sym _ _ H F3).
Qed.

(* the relation does not depend on which of the two inputs it is stated on *)
Lemma cvx_sym s s' : cvx s s' -> cvx s' s.
Proof. intros [H F]. split; [apply cv_sym; exact H|apply fixed_sym; assumption]. Qed.

Lemma fixed_skipn n s s' : fixed s s' = true -> fixed (skipn n s) (skipn n s') = true.
Proof.
  intros F. apply fixed_parts in F. destruct F as (F1 & F2 & F3). apply fixed_parts.
  repeat split; apply every2_skipn; assumption.
Qed.

(* closed under taking suffixes *)
Lemma cvx_skipn n s s' : cvx s s' -> cvx (skipn n s) (skipn n s').
Proof. intros [H F]. split; [apply cv_skipn; exact H|apply fixed_skipn; exact F]. Qed.

Lemma cvb_iff s s' : cvb s s' = true <-> cv s s'.
Proof.
  split.
  - revert s'. induction s as [|a s IH]; intros [|a' s'] H; cbn [cvb] in H; try discriminate; [constructor|].
    apply andb_true_iff in H. destruct H as [H1 H2]. constructor; [apply beq_eq; exact H1|apply IH; exact H2].
  - intros H. induction H as [|a a' s s' Ha H IH]; [reflexivity|]. cbn [cvb]. unfold ceq in Ha.
    rewrite Ha, beq_refl, IH. reflexivity.
Qed.

Lemma cvxb_iff s s' : cvxb s s' = true <-> cvx s s'.
Proof. unfold cvxb, cvx. rewrite andb_true_iff, cvb_iff. tauto. Qed.

Lemma cvx_dec s s' : {cvx s s'} + {~ cvx s s'}.
Proof.
  destruct (cvxb s s') eqn:E; [left; apply cvxb_iff; exact E|right].
  intros H. apply cvxb_iff in H. congruence.
Qed.

(* ---------- plain2 implies cvx ---------- *)

Lemma fixed_of_plain2 s s' : plain2 s = true -> fixed s s' = true.
Proof.
  intros P. unfold plain2 in P. apply andb_true_iff in P. destruct P as [P P3].
  apply andb_true_iff in P. destruct P as [P1 P2]. apply fixed_parts. repeat split.
  - apply (every2_nowhere bsn_at); [|exact P1]. intros [|a [|c l]] [|a' [|c' l']] G; try reflexivity.
    cbn [bsn_at] in G. cbn [bs_ok]. rewrite G. reflexivity.
  - apply (every2_nowhere dollar_alpha_at); [|exact P2]. intros [|a m] [|a' m'] G; try reflexivity.
    cbn [tag_ok]. destruct (beq a x24) eqn:A; [|reflexivity]. cbn [andb].
    destruct m as [|b m]; [reflexivity|]. cbn [dollar_alpha_at] in G. rewrite A in G. cbn [andb] in G.
    rewrite (run_same_nonalpha_head _ _ _ G). destruct (run_term _); reflexivity.
  - apply (every2_nowhere qlit_at); [|exact P3]. intros l l' G.
    destruct l as [|a [|b [|c l]]]; try reflexivity; destruct l' as [|a' [|b' [|c' l']]]; try reflexivity.
    cbn [q_ok]. rewrite G. reflexivity.
Qed.

Lemma cvx_of_plain2 s s' : cv s s' -> plain2 s = true -> cvx s s'.
Proof. intros H P. split; [exact H|apply fixed_of_plain2; exact P]. Qed.

(* ---------- the stronger conditions of the task brief imply fixed ---------- *)

Lemma qlit_nowhere_skip s : forall n, nowhere qlit_at s = true -> nowhere qlit_at (skipn n s) = true.
Proof. intros n. apply nowhere_skipn. Qed.

Lemma fixed_of_strong s s' : cv s s' -> fixed_strong s s' = true -> fixed s s' = true.
Proof.
  intros H F. unfold fixed_strong in F. apply andb_true_iff in F. destruct F as [F F3].
  apply andb_true_iff in F. destruct F as [F1 F2]. apply fixed_parts. repeat split.
  - apply (every2_mono bs_ok_strong); [|exact H|exact F1].
    intros [|a [|c l]] [|a' [|c' l']] _ E; try reflexivity. cbn [bs_ok bs_ok_strong] in *.
    destruct (beq a x5c); [|reflexivity]. cbn [andb]. rewrite E. destruct (beq c x4e || beq c x6e); reflexivity.
  - apply (every2_mono tag_ok_strong); [|exact H|exact F2].
    intros [|a m] [|a' m'] _ E; try reflexivity. cbn [tag_ok tag_ok_strong] in *.
    destruct (beq a x24); [|reflexivity]. cbn [andb]. rewrite E. destruct (run_term m); reflexivity.
  - apply orb_true_iff in F3. destruct F3 as [N|F3].
    + apply (every2_nowhere qlit_at); [|exact N]. intros l l' G.
      destruct l as [|a [|b [|c l]]]; try reflexivity; destruct l' as [|a' [|b' [|c' l']]]; try reflexivity.
      cbn [q_ok]. rewrite G. reflexivity.
    + apply andb_true_iff in F3. destruct F3 as [Q1 Q2]. clear F1 F2.
      (* every suffix: qpre gives the delimiter, qfol (on the later suffixes) the candidates *)
      revert Q1 Q2. induction H as [|a a' m m' Ha H IH]; intros Q1 Q2; [reflexivity|].
      rewrite every2_cons in *. apply andb_true_iff in Q1, Q2. destruct Q1 as [Q1 Q1'], Q2 as [Q2 Q2'].
      rewrite (IH Q1' Q2'), andb_true_r.
      destruct H as [|b b' m2 m2' Hb H2]; [reflexivity|].
      destruct H2 as [|c c' body body' Hc H3]; [reflexivity|].
      cbn [q_ok qlit_at qpre_ok] in *.
      destruct ((beq a x71 || beq a x51) && beq b x27 && is_alpha c); [|reflexivity].
      rewrite Q2. cbn [andb].
      rewrite !every2_cons in Q1'. apply andb_true_iff in Q1'. destruct Q1' as [_ Q1'].
      apply andb_true_iff in Q1'. destruct Q1' as [_ Q1'].
      apply (every2_mono qfol_ok); [|exact H3|exact Q1'].
      intros [|x [|y l]] [|x' l'] C E; try reflexivity. cbn [qb_ok qfol_ok] in *.
      destruct (beq y x27); [|reflexivity]. cbn [andb] in *.
      destruct (is_alpha x) eqn:A; [rewrite E; destruct (beq (upper_ascii x) (upper_ascii c)); reflexivity|].
      inversion C; subst. match goal with K : upper_ascii x = upper_ascii x' |- _ =>
        rewrite (ceq_nonalpha _ _ K A) end. rewrite beq_refl. destruct (beq (upper_ascii x) (upper_ascii c)); reflexivity.
Qed.
