(* WsCount: coverage of the side condition of C03_core_any_whitespace_partial over the
   frozen grammar (optional; a vm_compute sweep of a few minutes).  Only a lower
   bound is stated, so that the lemma survives an extension of the grammar. *)
From Coq Require Import List ZArith String Bool.
From Coq.Strings Require Import Byte.
From LI Require Import Prelude Base SqliLex SqliFold GrammarSqli Spec.WsSpec.
From LIGen Require Import C03CoreAll.
Import ListNotations.

Lemma ws_coverage_lower_bound :
  (19000 <=? List.length (filter (member_chk x20) all_cases))%nat = true.
Proof. vm_compute. reflexivity. Qed.
