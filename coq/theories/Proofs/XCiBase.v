(* XCiBase: generic lemmas for the lock-step proof of C11 (a): facts about the
   case-variant relation cv, the primitives of Base.v on cv-related inputs, and
   the relation rel_res on results of the error monad. *)
From Coq Require Import List ZArith String Bool Lia ZifyBool.
From Coq.Strings Require Import Byte.
From LI Require Import Prelude Base Proofs.BaseFacts Proofs.LexBase Spec.XCiSpec.
Import ListNotations.
Local Open Scope Z_scope.

(* ---------- bytes up to case ---------- *)

(* a byte predicate that does not look at the case of letters (boolean, so that
   it is decided by computation over the 256 bytes) *)
Definition resp (p : byte -> bool) : bool :=
  forallb (fun b => Bool.eqb (p (upper_ascii b)) (p b)) all_bytes.

Lemma resp_ua p : resp p = true -> forall b, p (upper_ascii b) = p b.
Proof.
  intros H b. apply eqb_prop. revert b. apply byte_sweep. exact H.
Qed.

Lemma cvb_resp p b b' : resp p = true -> cvb b b' -> p b' = p b.
Proof.
  intros H C. rewrite <- (resp_ua p H b), <- (resp_ua p H b'). unfold cvb in C. rewrite C. reflexivity.
Qed.

Lemma cvb_refl b : cvb b b.
Proof. reflexivity. Qed.

Lemma cvb_sym b b' : cvb b b' -> cvb b' b.
Proof. unfold cvb. congruence. Qed.

Lemma ua_nonalpha b : is_alpha b = false -> upper_ascii b = b.
Proof.
  unfold is_alpha, upper_ascii. intros H. apply orb_false_iff in H. destruct H as [H _]. rewrite H. reflexivity.
Qed.

Lemma cvb_alpha b b' : cvb b b' -> is_alpha b' = is_alpha b.
Proof. apply cvb_resp. vm_compute. reflexivity. Qed.

Lemma cvb_cases b b' : cvb b b' -> b = b' \/ (is_alpha b = true /\ is_alpha b' = true).
Proof.
  intros C. pose proof (cvb_alpha b b' C) as A. destruct (is_alpha b) eqn:E.
  - right. split; [reflexivity|exact A].
  - left. unfold cvb in C. rewrite (ua_nonalpha b E), (ua_nonalpha b' A) in C. exact C.
Qed.

Lemma cvb_nonalpha b b' : cvb b b' -> is_alpha b = false -> b' = b.
Proof. intros C A. destruct (cvb_cases b b' C) as [E|[E _]]; congruence. Qed.

(* comparison with a byte that is not a letter *)
Lemma cvb_beq b b' c : cvb b b' -> is_alpha c = false -> beq b' c = beq b c.
Proof.
  intros C A. destruct (cvb_cases b b' C) as [->|[A1 A2]]; [reflexivity|].
  assert (N : forall x, is_alpha x = true -> beq x c = false).
  { intros x Hx. apply beq_neq. intros ->. congruence. }
  rewrite (N b A1), (N b' A2). reflexivity.
Qed.

Lemma cvb_lower b b' : cvb b b' -> lower_ascii b' = lower_ascii b.
Proof.
  intros C.
  assert (S : forall x, lower_ascii (upper_ascii x) = lower_ascii x).
  { intros x. apply beq_eq. revert x. apply byte_sweep. vm_compute. reflexivity. }
  rewrite <- (S b), <- (S b'). unfold cvb in C. rewrite C. reflexivity.
Qed.

(* codes up to case *)
Definition upz (z : Z) : Z := if (97 <=? z) && (z <=? 122) then z - 32 else z.
Definition alphaz (z : Z) : bool := ((97 <=? z) && (z <=? 122)) || ((65 <=? z) && (z <=? 90)).

Lemma cvb_upz b b' : cvb b b' -> upz (code b') = upz (code b).
Proof.
  intros C.
  assert (S : forall x, code (upper_ascii x) = upz (code x)).
  { intros x. apply Z.eqb_eq. revert x. apply byte_sweep. vm_compute. reflexivity. }
  rewrite <- (S b), <- (S b'). unfold cvb in C. rewrite C. reflexivity.
Qed.

Lemma upz_eqb z z' c : upz z' = upz z -> alphaz c = false -> (z' =? c) = (z =? c).
Proof.
  unfold upz, alphaz. intros H A.
  destruct ((97 <=? z') && (z' <=? 122)) eqn:E1; destruct ((97 <=? z) && (z <=? 122)) eqn:E2; lia.
Qed.

Lemma is_alpha_code b : is_alpha b = alphaz (code b).
Proof. reflexivity. Qed.

(* ---------- strings up to case ---------- *)

Lemma cv_refl s : cv s s.
Proof. induction s; constructor; [reflexivity|assumption]. Qed.

Lemma cv_sym s s' : cv s s' -> cv s' s.
Proof. induction 1; constructor; [apply cvb_sym|]; assumption. Qed.

Lemma cv_length s s' : cv s s' -> List.length s' = List.length s.
Proof. induction 1; cbn [List.length]; congruence. Qed.

Lemma cv_len s s' : cv s s' -> len s' = len s.
Proof. intros H. unfold len. rewrite (cv_length _ _ H). reflexivity. Qed.

Lemma cv_skipn n : forall s s', cv s s' -> cv (skipn n s) (skipn n s').
Proof.
  induction n as [|n IH]; intros s s' H; [exact H|].
  destruct H; cbn [skipn]; [constructor|apply IH; assumption].
Qed.

Lemma cv_firstn n : forall s s', cv s s' -> cv (firstn n s) (firstn n s').
Proof.
  induction n as [|n IH]; intros s s' H; [constructor|].
  destruct H; cbn [firstn]; constructor; [assumption|apply IH; assumption].
Qed.

Lemma cv_nth n : forall s s' b b', cv s s' -> nth_error s n = Some b -> nth_error s' n = Some b' -> cvb b b'.
Proof.
  induction n as [|n IH]; intros s s' b b' H N N'; destruct H; cbn [nth_error] in *; try discriminate.
  - inversion N; inversion N'; subst; assumption.
  - eapply IH; eassumption.
Qed.

Lemma cv_app a a' b b' : cv a a' -> cv b b' -> cv (a ++ b) (a' ++ b').
Proof. intros H1 H2. apply Forall2_app; assumption. Qed.

Lemma cv_index_byte s s' c : cv s s' -> is_alpha c = false -> index_byte s' c = index_byte s c.
Proof.
  intros H A. induction H as [|b b' s s' Hb Hs IH]; [reflexivity|].
  cbn [index_byte]. rewrite (cvb_beq b b' c Hb A), IH. reflexivity.
Qed.

Lemma cv_span p s s' : cv s s' -> resp p = true -> span p s' = span p s.
Proof.
  intros H R. induction H as [|b b' s s' Hb Hs IH]; [reflexivity|].
  cbn [span]. rewrite (cvb_resp p b b' R Hb), IH. reflexivity.
Qed.

Lemma cv_filter p s s' : cv s s' -> resp p = true -> cv (filter p s) (filter p s').
Proof.
  intros H R. induction H as [|b b' s s' Hb Hs IH]; [constructor|].
  cbn [filter]. rewrite (cvb_resp p b b' R Hb). destruct (p b); [constructor|]; assumption.
Qed.

Lemma cv_remove_nul s s' : cv s s' -> cv (remove_byte x00 s) (remove_byte x00 s').
Proof. intros H. unfold remove_byte. apply cv_filter; [exact H|]. vm_compute. reflexivity. Qed.

(* comparison with a literal that contains no letter *)
Lemma cv_bytes_eqb_lit s s' k : cv s s' -> forallb (fun c => negb (is_alpha c)) k = true ->
  bytes_eqb s' k = bytes_eqb s k.
Proof.
  intros H. revert k. induction H as [|b b' s s' Hb Hs IH]; intros k K; [reflexivity|].
  destruct k as [|c k]; [reflexivity|]. cbn [forallb] in K. apply andb_true_iff in K. destruct K as [K1 K2].
  cbn [bytes_eqb]. rewrite (cvb_beq b b' c Hb) by (apply negb_true_iff; exact K1). rewrite (IH k K2). reflexivity.
Qed.

Lemma cv_nil_l s : cv [] s -> s = [].
Proof. intros H. inversion H. reflexivity. Qed.

Lemma cv_cons_l b s t : cv (b :: s) t -> exists b' s', t = b' :: s' /\ cvb b b' /\ cv s s'.
Proof. intros H. inversion H; subst. eauto. Qed.

(* strings.ToUpper / ToLower as modelled: the ASCII part is folded, the
   non-ASCII special cases look at bytes >= 0x80 only, which cv leaves alone *)
Lemma cv_go_upper_view s s' : cv s s' -> go_upper_view s' = go_upper_view s.
Proof.
  assert (G : forall n s s', (List.length s <= n)%nat -> cv s s' -> go_upper_view s' = go_upper_view s).
  { induction n as [|n IH]; intros t t' L H.
    - destruct H; [reflexivity|cbn in L; lia].
    - destruct H as [|b b' t t' Hb Ht]; [reflexivity|]. cbn [List.length] in L.
      cbn [go_upper_view].
      rewrite (cvb_resp is_ascii b b' ltac:(vm_compute; reflexivity) Hb).
      destruct (is_ascii b) eqn:A.
      + rewrite (IH t t' ltac:(lia) Ht). unfold cvb in Hb. rewrite Hb. reflexivity.
      + assert (E : b' = b).
        { apply cvb_nonalpha; [exact Hb|]. revert A. unfold is_ascii, is_alpha, is_lower, is_upper. lia. }
        subst b'. destruct Ht as [|b2 b2' t t' Hb2 Ht]; [reflexivity|]. cbn [List.length] in L.
        rewrite (cvb_beq b2 b2' xbf Hb2 eq_refl), (cvb_beq b2 b2' xb1 Hb2 eq_refl).
        rewrite (IH t t' ltac:(lia) Ht). reflexivity. }
  intros H. exact (G _ s s' (le_n _) H).
Qed.

Lemma cv_go_lower_view s s' : cv s s' -> go_lower_view s' = go_lower_view s.
Proof.
  assert (G : forall n s s', (List.length s <= n)%nat -> cv s s' -> go_lower_view s' = go_lower_view s).
  { induction n as [|n IH]; intros t t' L H.
    - destruct H; [reflexivity|cbn in L; lia].
    - destruct H as [|b b' t t' Hb Ht]; [reflexivity|]. cbn [List.length] in L.
      cbn [go_lower_view].
      rewrite (cvb_resp is_ascii b b' ltac:(vm_compute; reflexivity) Hb).
      destruct (is_ascii b) eqn:A.
      + rewrite (IH t t' ltac:(lia) Ht). rewrite (cvb_lower b b' Hb). reflexivity.
      + assert (E : b' = b).
        { apply cvb_nonalpha; [exact Hb|]. revert A. unfold is_ascii, is_alpha, is_lower, is_upper. lia. }
        subst b'. destruct Ht as [|b2 b2' t t' Hb2 Ht]; [reflexivity|]. cbn [List.length] in L.
        rewrite (cvb_beq b2 b2' xb0 Hb2 eq_refl), (cvb_beq b2 b2' x84 Hb2 eq_refl).
        destruct (beq b xc4 && beq b2 xb0); [rewrite (IH t t' ltac:(lia) Ht); reflexivity|].
        destruct Ht as [|b3 b3' t t' Hb3 Ht]; [reflexivity|]. cbn [List.length] in L.
        rewrite (cvb_beq b3 b3' xaa Hb3 eq_refl).
        rewrite (IH t t' ltac:(lia) Ht). reflexivity. }
  intros H. exact (G _ s s' (le_n _) H).
Qed.

Lemma cv_to_upper_cmp k s s' : cv s s' -> to_upper_cmp k s' = to_upper_cmp k s.
Proof. intros H. unfold to_upper_cmp. rewrite (cv_go_upper_view s s' H). reflexivity. Qed.

Lemma cv_to_lower_cmp k s s' : cv s s' -> to_lower_cmp k s' = to_lower_cmp k s.
Proof. intros H. unfold to_lower_cmp. rewrite (cv_go_lower_view s s' H). reflexivity. Qed.

(* ---------- the excluded marker ---------- *)

Lemma cv_ci_starts pat s s' : cv s s' -> ci_starts pat s' = ci_starts pat s.
Proof.
  intros H. revert pat. induction H as [|b b' s s' Hb Hs IH]; intros [|x pat]; try reflexivity.
  cbn [ci_starts]. unfold cvb in Hb. rewrite Hb, IH. reflexivity.
Qed.

(* symmetric under case change *)
Lemma cv_no_cdata_like s s' : cv s s' -> no_cdata_like s' = no_cdata_like s.
Proof.
  intros H. induction H as [|b b' s s' Hb Hs IH]; [reflexivity|].
  cbn [no_cdata_like]. rewrite IH. f_equal. f_equal. apply cv_ci_starts. constructor; assumption.
Qed.

(* closed under suffixes *)
Lemma no_cdata_like_skipn n : forall s, no_cdata_like s = true -> no_cdata_like (skipn n s) = true.
Proof.
  induction n as [|n IH]; intros s H; [exact H|]. destruct s as [|b s]; [exact H|].
  cbn [skipn]. apply IH. cbn [no_cdata_like] in H. apply andb_true_iff in H. tauto.
Qed.

Lemma no_cdata_like_app a b : no_cdata_like (a ++ b) = true -> no_cdata_like b = true.
Proof.
  intros H. apply (no_cdata_like_skipn (List.length a)) in H.
  rewrite skipn_app, skipn_all, Nat.sub_diag in H. exact H.
Qed.

Lemma no_cdata_like_at n s : no_cdata_like s = true -> ci_starts cdata_open (skipn n s) = false.
Proof.
  intros H. apply (no_cdata_like_skipn n) in H. destruct (skipn n s) as [|b t]; [reflexivity|].
  cbn [no_cdata_like] in H. apply andb_true_iff in H. destruct H as [H _]. apply negb_true_iff in H. exact H.
Qed.

Lemma ci_starts_firstn pat : forall l, cv pat (firstn (List.length pat) l) -> ci_starts pat l = true.
Proof.
  induction pat as [|x pat IH]; intros l H; [reflexivity|].
  destruct l as [|y l]; [inversion H|]. cbn [List.length firstn] in H.
  apply cv_cons_l in H. destruct H as (y' & l' & E & Hb & Hl). inversion E; subst y' l'.
  cbn [ci_starts]. unfold cvb in Hb. rewrite Hb, beq_refl. cbn [andb]. apply IH. exact Hl.
Qed.

Lemma skipn_nth_cons {A} n : forall (l : list A) a, nth_error l n = Some a -> skipn n l = a :: skipn (S n) l.
Proof.
  induction n as [|n IH]; intros l a H; destruct l as [|x l]; try discriminate.
  - cbn in H. inversion H. reflexivity.
  - cbn [nth_error] in H. change (skipn (S n) (x :: l)) with (skipn n l). rewrite (IH l a H). reflexivity.
Qed.

(* ---------- related results ---------- *)

Definition rel_res {A B} (R : A -> B -> Prop) (m : res A) (m' : res B) : Prop :=
  match m, m' with
  | Ok a, Ok b => R a b
  | Panic x, Panic y => x = y
  | OutOfFuel, OutOfFuel => True
  | StackOverflow, StackOverflow => True
  | _, _ => False
  end.

Lemma rel_bind {A A' B B'} (R1 : A -> A' -> Prop) (R : B -> B' -> Prop) m m' k k' :
  rel_res R1 m m' -> (forall a a', R1 a a' -> rel_res R (k a) (k' a')) ->
  rel_res R (bind m k) (bind m' k').
Proof. destruct m, m'; cbn; intros H K; try contradiction; auto. Qed.

Lemma rel_conseq {A B} (R R' : A -> B -> Prop) m m' :
  rel_res R m m' -> (forall a b, R a b -> R' a b) -> rel_res R' m m'.
Proof. destruct m, m'; cbn; auto. Qed.

Lemma rel_eq {A} (m m' : res A) : rel_res eq m m' -> m' = m.
Proof. destruct m, m'; cbn; intros H; try contradiction; congruence. Qed.

Lemma rel_Ok {A B} (R : A -> B -> Prop) a b : R a b -> rel_res R (Ok a) (Ok b).
Proof. exact (fun H => H). Qed.

Lemma nth_error_len' {A} (s : list A) i b : nth_error s i = Some b -> (i < List.length s)%nat.
Proof. intros H. apply nth_error_Some. congruence. Qed.

Lemma rel_get site s s' i : cv s s' -> rel_res cvb (get site s i) (get site s' i).
Proof.
  intros H. unfold get. destruct (0 <=? i); [|reflexivity].
  destruct (nth_error s (Z.to_nat i)) as [b|] eqn:N; destruct (nth_error s' (Z.to_nat i)) as [b'|] eqn:N'; cbn.
  - eapply cv_nth; eassumption.
  - apply nth_error_None in N'. apply nth_error_len' in N. rewrite (cv_length _ _ H) in N'. lia.
  - apply nth_error_None in N. apply nth_error_len' in N'. rewrite (cv_length _ _ H) in N'. lia.
  - reflexivity.
Qed.

Lemma rel_drop site s s' i : cv s s' -> rel_res cv (drop site s i) (drop site s' i).
Proof.
  intros H. unfold drop. rewrite (cv_len _ _ H). destruct ((0 <=? i) && (i <=? len s)); cbn; [|reflexivity].
  apply cv_skipn. exact H.
Qed.

Lemma rel_take site s s' i : cv s s' -> rel_res cv (take site s i) (take site s' i).
Proof.
  intros H. unfold take. rewrite (cv_len _ _ H). destruct ((0 <=? i) && (i <=? len s)); cbn; [|reflexivity].
  apply cv_firstn. exact H.
Qed.

Lemma rel_slice site s s' i j : cv s s' -> rel_res cv (slice site s i j) (slice site s' i j).
Proof.
  intros H. unfold slice. rewrite (cv_len _ _ H). destruct ((0 <=? i) && (i <=? j) && (j <=? len s)); cbn; [|reflexivity].
  apply cv_firstn, cv_skipn. exact H.
Qed.

(* the same, remembering what the first run read *)
Lemma rel_get_x site s s' i : cv s s' ->
  rel_res (fun b b' => cvb b b' /\ 0 <= i < len s /\ nth_error s (Z.to_nat i) = Some b)
          (get site s i) (get site s' i).
Proof.
  intros H. pose proof (rel_get site s s' i H) as R.
  destruct (get site s i) as [b| | |] eqn:E; destruct (get site s' i) as [b'| | |]; cbn in *; try contradiction; try exact R.
  apply get_Ok_inv in E. tauto.
Qed.

Lemma rel_drop_x site s s' i : cv s s' ->
  rel_res (fun r r' => cv r r' /\ 0 <= i <= len s /\ r = skipn (Z.to_nat i) s)
          (drop site s i) (drop site s' i).
Proof.
  intros H. pose proof (rel_drop site s s' i H) as R.
  destruct (drop site s i) as [b| | |] eqn:E; destruct (drop site s' i) as [b'| | |]; cbn in *; try contradiction; try exact R.
  apply drop_Ok_inv in E. tauto.
Qed.

Lemma rel_slice_x site s s' i j : cv s s' ->
  rel_res (fun r r' => cv r r' /\ (0 <= i <= j /\ j <= len s) /\ r = firstn (Z.to_nat (j - i)) (skipn (Z.to_nat i) s))
          (slice site s i j) (slice site s' i j).
Proof.
  intros H. pose proof (rel_slice site s s' i j H) as R.
  destruct (slice site s i j) as [b| | |] eqn:E; destruct (slice site s' i j) as [b'| | |]; cbn in *; try contradiction; try exact R.
  apply slice_Ok_inv in E. tauto.
Qed.

(* where index_byte found its byte, seen from the whole input *)
Lemma index_byte_at (s : bytes) p rest c :
  0 <= p <= len s -> rest = skipn (Z.to_nat p) s -> index_byte rest c <> -1 ->
  0 <= index_byte rest c /\ nth_error s (Z.to_nat (p + index_byte rest c)) = Some c.
Proof.
  intros Hp -> N. destruct (index_byte_range (skipn (Z.to_nat p) s) c) as [R|R]; [contradiction|].
  split; [lia|]. pose proof (index_byte_found _ c _ eq_refl (proj1 R)) as F.
  rewrite nth_error_skipn in F. rewrite <- F. f_equal. lia.
Qed.
