(* XCiNulBase: list-level facts for C11 (b): the input s = A ++ B against the
   input t = A ++ NUL :: B (one NUL byte inserted at offset |A|): the checked
   primitives on both, scans (index_byte, span) across the insertion point, and
   the invariance of the tag / attribute name tables under NUL insertion. *)
From Coq Require Import List ZArith String Bool Lia ZifyBool.
From Coq.Strings Require Import Byte.
From LI Require Import Prelude Base Html5 Xss Proofs.BaseFacts Proofs.Wp.
Import ListNotations.
Local Open Scope Z_scope.

(* ---------- scans across an inserted NUL ---------- *)

Lemma index_byte_ins (C D : bytes) c : c <> x00 ->
  (0 <= index_byte (C ++ D) c < len C /\ index_byte (C ++ x00 :: D) c = index_byte (C ++ D) c) \/
  (index_byte (C ++ D) c = -1 /\ index_byte (C ++ x00 :: D) c = -1) \/
  (len C <= index_byte (C ++ D) c /\ index_byte (C ++ x00 :: D) c = index_byte (C ++ D) c + 1).
Proof.
  intros N. induction C as [|b C IH].
  - cbn [app]. rewrite len_nil. cbn [index_byte].
    assert (E : beq x00 c = false) by (apply beq_neq; congruence). rewrite E.
    destruct (index_byte_range D c) as [R|R].
    + right. left. rewrite R. split; reflexivity.
    + right. right. destruct (index_byte D c <? 0) eqn:E2; lia.
  - cbn [app index_byte]. rewrite len_cons. pose proof (len_nonneg C).
    destruct (beq b c); [left; lia|].
    destruct IH as [[I1 I2]|[[I1 I2]|[I1 I2]]]; rewrite I2.
    + left. destruct (index_byte (C ++ D) c <? 0) eqn:E2; lia.
    + right. left. rewrite I1. split; reflexivity.
    + right. right. destruct (index_byte (C ++ D) c <? 0) eqn:E2; [lia|].
      destruct (index_byte (C ++ D) c + 1 <? 0) eqn:E3; lia.
Qed.

Lemma span_ins (C D : bytes) p :
  (span p (C ++ D) < len C /\ span p (C ++ x00 :: D) = span p (C ++ D)) \/
  (len C <= span p (C ++ D) /\
   span p (C ++ x00 :: D) = if p x00 then span p (C ++ D) + 1 else len C).
Proof.
  induction C as [|b C IH].
  - right. cbn [app span]. rewrite len_nil. pose proof (span_range p D). split; [lia|].
    destruct (p x00); lia.
  - cbn [app span]. rewrite len_cons. pose proof (len_nonneg C). destruct (p b); [|left; lia].
    destruct IH as [[I1 I2]|[I1 I2]]; rewrite I2; [left; lia|right]. split; [lia|]. destruct (p x00); lia.
Qed.

Lemma span_ins_t (C D : bytes) p : p x00 = true ->
  (span p (C ++ D) < len C /\ span p (C ++ x00 :: D) = span p (C ++ D)) \/
  (len C <= span p (C ++ D) /\ span p (C ++ x00 :: D) = span p (C ++ D) + 1).
Proof. intros H. pose proof (span_ins C D p) as S. rewrite H in S. exact S. Qed.

(* ---------- the two inputs ---------- *)

Section Ins.
Variables A B : bytes.

Definition sS : bytes := A ++ B.
Definition sT : bytes := A ++ x00 :: B.
Definition ii : Z := len A.

Lemma len_sT : len sT = len sS + 1.
Proof. unfold sT, sS. rewrite !len_app, len_cons. lia. Qed.

Lemma length_sT : List.length sT = S (List.length sS).
Proof. unfold sT, sS. rewrite !app_length. cbn [List.length]. lia. Qed.

Lemma len_sS : len sS = ii + len B.
Proof. unfold sS, ii. rewrite len_app. reflexivity. Qed.

Lemma ii_range : 0 <= ii <= len sS.
Proof. unfold ii, sS. rewrite len_app. pose proof (len_nonneg A). pose proof (len_nonneg B). lia. Qed.

Lemma nth_lt P : 0 <= P < ii -> nth_error sT (Z.to_nat P) = nth_error sS (Z.to_nat P).
Proof.
  intros H. unfold sT, sS, ii, len in *. rewrite !nth_error_app1 by lia. reflexivity.
Qed.

Lemma nth_ge P : ii <= P -> nth_error sT (Z.to_nat (P + 1)) = nth_error sS (Z.to_nat P).
Proof.
  intros H. unfold sT, sS, ii, len in *. rewrite !nth_error_app2 by lia.
  replace (Z.to_nat (P + 1) - List.length A)%nat with (S (Z.to_nat P - List.length A)) by lia. reflexivity.
Qed.

Lemma nth_at : nth_error sT (Z.to_nat ii) = Some x00.
Proof.
  unfold sT, ii, len. rewrite nth_error_app2 by lia.
  replace (Z.to_nat (Z.of_nat (List.length A)) - List.length A)%nat with 0%nat by lia. reflexivity.
Qed.

Lemma get_lt site P P' : P' = P -> P < ii -> get site sT P' = get site sS P.
Proof.
  intros -> H. unfold get. destruct (0 <=? P) eqn:E; [|reflexivity]. rewrite nth_lt by lia. reflexivity.
Qed.

Lemma get_ge site P P' : P' = P + 1 -> ii <= P -> get site sT P' = get site sS P.
Proof.
  intros -> H. pose proof ii_range. unfold get.
  destruct (0 <=? P + 1) eqn:E1; [|lia]. destruct (0 <=? P) eqn:E2; [|lia].
  rewrite nth_ge by lia. reflexivity.
Qed.

Lemma get_at site P' : P' = ii -> get site sT P' = Ok x00.
Proof.
  intros ->. pose proof ii_range. unfold get. destruct (0 <=? ii) eqn:E; [|lia]. rewrite nth_at. reflexivity.
Qed.

Lemma skipn_lt p : 0 <= p <= ii ->
  exists C, skipn (Z.to_nat p) sS = C ++ B /\ skipn (Z.to_nat p) sT = C ++ x00 :: B /\ len C = ii - p.
Proof.
  intros H. exists (skipn (Z.to_nat p) A). unfold sS, sT, ii, len in *.
  rewrite !skipn_app. replace (Z.to_nat p - List.length A)%nat with 0%nat by lia.
  cbn [skipn]. repeat split. rewrite skipn_length. lia.
Qed.

Lemma skipn_ge p : ii <= p -> skipn (Z.to_nat (p + 1)) sT = skipn (Z.to_nat p) sS.
Proof.
  intros H. unfold sS, sT, ii, len in *. rewrite !skipn_app.
  rewrite (skipn_all2 A (n := Z.to_nat (p + 1))) by lia. rewrite (skipn_all2 A (n := Z.to_nat p)) by lia. cbn [app].
  replace (Z.to_nat (p + 1) - List.length A)%nat with (S (Z.to_nat p - List.length A)) by lia. reflexivity.
Qed.

Lemma drop_lt site p : 0 <= p <= ii ->
  exists C, drop site sS p = Ok (C ++ B) /\ drop site sT p = Ok (C ++ x00 :: B) /\ len C = ii - p.
Proof.
  intros H. destruct (skipn_lt p H) as (C & E1 & E2 & E3). exists C. pose proof ii_range. pose proof len_sT.
  rewrite !drop_ok by lia. rewrite E1, E2. repeat split. exact E3.
Qed.

Lemma drop_ge site p p' : p' = p + 1 -> ii <= p -> drop site sT p' = drop site sS p.
Proof.
  intros -> H. pose proof ii_range. pose proof len_sT. unfold drop.
  replace ((0 <=? p + 1) && (p + 1 <=? len sT)) with ((0 <=? p) && (p <=? len sS)) by lia.
  rewrite skipn_ge by lia. reflexivity.
Qed.

Lemma firstn_lt n : 0 <= n <= ii -> firstn (Z.to_nat n) sT = firstn (Z.to_nat n) sS.
Proof.
  intros H. unfold sS, sT, ii, len in *. rewrite !firstn_app.
  replace (Z.to_nat n - List.length A)%nat with 0%nat by lia. reflexivity.
Qed.

(* a window entirely before / entirely behind the insertion point *)
Lemma slice_lt site a b : b <= ii -> slice site sT a b = slice site sS a b.
Proof.
  intros H. pose proof ii_range. pose proof len_sT. unfold slice.
  destruct ((0 <=? a) && (a <=? b)) eqn:E; [|reflexivity]. cbn [andb].
  replace (b <=? len sT) with true by lia. replace (b <=? len sS) with true by lia.
  f_equal. destruct (skipn_lt a ltac:(lia)) as (C & E1 & E2 & E3). rewrite E1, E2.
  unfold len in *. rewrite !firstn_app. replace (Z.to_nat (b - a) - List.length C)%nat with 0%nat by lia.
  reflexivity.
Qed.

Lemma slice_ge site a b a' b' : a' = a + 1 -> b' = b + 1 -> ii <= a ->
  slice site sT a' b' = slice site sS a b.
Proof.
  intros -> -> H. pose proof ii_range. pose proof len_sT. unfold slice.
  replace ((0 <=? a + 1) && (a + 1 <=? b + 1) && (b + 1 <=? len sT))
    with ((0 <=? a) && (a <=? b) && (b <=? len sS)) by lia.
  rewrite skipn_ge by lia. replace (b + 1 - (a + 1)) with (b - a) by lia. reflexivity.
Qed.

(* a window that contains the inserted byte *)
Lemma slice_straddle site a b w : a <= ii < b -> slice site sT a b = Ok w -> In x00 w.
Proof.
  intros H E. apply slice_Ok_inv in E. destruct E as (E1 & E2 & ->).
  destruct (skipn_lt a ltac:(lia)) as (C & _ & E4 & E5). rewrite E4.
  unfold len in *. rewrite firstn_app. apply in_or_app. right.
  replace (Z.to_nat (b - a) - List.length C)%nat with (S (Z.to_nat (b - a) - List.length C - 1)) by lia.
  cbn [firstn]. left. reflexivity.
Qed.

End Ins.

(* ---------- the name tables do not see NUL bytes ---------- *)

Lemma remove_nul_ins (C D : bytes) : remove_byte x00 (C ++ x00 :: D) = remove_byte x00 (C ++ D).
Proof.
  unfold remove_byte. rewrite !filter_app. cbn [filter]. rewrite beq_refl. reflexivity.
Qed.

Lemma upper_without_nulls_ins C D : upper_without_nulls (C ++ x00 :: D) = upper_without_nulls (C ++ D).
Proof. unfold upper_without_nulls. rewrite remove_nul_ins. reflexivity. Qed.

Lemma is_black_attr_ins C D : is_black_attr (C ++ x00 :: D) = is_black_attr (C ++ D).
Proof. unfold is_black_attr. rewrite upper_without_nulls_ins. reflexivity. Qed.

(* every entry of the tag table (and the two literals) has at least 3 bytes, so a
   name that is shorter than 3 bytes once the NULs are removed is never black *)
Lemma black_tag_long u :
  (existsb (bytes_eqb u) black_tags || bytes_eqb u (bs "SVT") || bytes_eqb u (bs "XSL")) = true -> 3 <= len u.
Proof.
  assert (S : forallb (fun k => 3 <=? len k) (bs "SVT" :: bs "XSL" :: black_tags) = true) by (vm_compute; reflexivity).
  rewrite forallb_forall in S. intros H.
  assert (I : In u (bs "SVT" :: bs "XSL" :: black_tags)).
  { apply orb_true_iff in H. destruct H as [H|H].
    - apply orb_true_iff in H. destruct H as [H|H].
      + apply existsb_exists in H. destruct H as (k & K1 & K2). apply bytes_eqb_eq in K2. subst k.
        right. right. exact K1.
      + apply bytes_eqb_eq in H. left. symmetry. exact H.
    - apply bytes_eqb_eq in H. right. left. symmetry. exact H. }
  specialize (S u I). lia.
Qed.

Lemma go_upper_view_len_le : forall n s u, (List.length s <= n)%nat -> go_upper_view s = Some u -> len u <= len s.
Proof.
  induction n as [|n IH]; intros s u L H.
  - destruct s; [|cbn in L; lia]. cbn in H. inversion H. lia.
  - destruct s as [|b s']; [cbn in H; inversion H; lia|].
    cbn [go_upper_view] in H. cbn [List.length] in L. destruct (is_ascii b).
    + destruct (go_upper_view s') as [u'|] eqn:E; [|discriminate]. cbn in H. inversion H; subst.
      rewrite !len_cons. specialize (IH s' u' ltac:(lia) E). lia.
    + destruct s' as [|b2 s'']; [discriminate|]. cbn [List.length] in L.
      destruct (beq b xc5 && beq b2 xbf).
      * destruct (go_upper_view s'') as [u'|] eqn:E; [|discriminate]. cbn in H. inversion H; subst.
        rewrite !len_cons. specialize (IH s'' u' ltac:(lia) E). lia.
      * destruct (beq b xc4 && beq b2 xb1); [|discriminate].
        destruct (go_upper_view s'') as [u'|] eqn:E; [|discriminate]. cbn in H. inversion H; subst.
        rewrite !len_cons. specialize (IH s'' u' ltac:(lia) E). lia.
Qed.

Lemma len_remove_le c s : len (remove_byte c s) <= len s.
Proof.
  unfold remove_byte. induction s as [|b s IH]; cbn [filter]; [lia|].
  destruct (negb (beq b c)); rewrite ?len_cons; lia.
Qed.

(* isBlackTag tests the raw length first: inserting a NUL can only make the raw
   name longer, and a raw name of fewer than 3 bytes is not black either way *)
Lemma is_black_tag_ins C D : is_black_tag (C ++ x00 :: D) = is_black_tag (C ++ D).
Proof.
  unfold is_black_tag. rewrite upper_without_nulls_ins.
  rewrite !len_app, len_cons.
  destruct (len C + len D <? 3) eqn:E1; destruct (len C + (1 + len D) <? 3) eqn:E2; try reflexivity; try lia.
  destruct (upper_without_nulls (C ++ D)) as [u|] eqn:U; [|reflexivity].
  destruct (existsb (bytes_eqb u) black_tags || bytes_eqb u (bs "SVT") || bytes_eqb u (bs "XSL")) eqn:K; [|reflexivity].
  apply black_tag_long in K. unfold upper_without_nulls in U.
  apply (go_upper_view_len_le _ _ _ (le_n _)) in U.
  pose proof (len_remove_le x00 (C ++ D)). rewrite len_app in *. lia.
Qed.

(* ---------- the doctype / CDATA / "--" tests against a window ---------- *)

From LI Require Import Spec.H5TermSpec Proofs.H5TermProofs.

(* a case-insensitive match of pat leaves no byte c (whose lower case is not in pat) in the matched part *)
Lemma ci_prefix_no c pat : forall l, (forall x, In x pat -> x <> lower_ascii c) ->
  ci_prefix pat l = true -> index_byte l c = -1 \/ len pat <= index_byte l c.
Proof.
  induction pat as [|x pat IH]; intros l N H.
  - rewrite len_nil. destruct (index_byte_range l c); [left; assumption|right; lia].
  - destruct l as [|y l]; [discriminate|]. cbn [ci_prefix] in H. apply andb_true_iff in H. destruct H as [H1 H2].
    apply beq_eq in H1. cbn [index_byte]. destruct (beq y c) eqn:E.
    + apply beq_eq in E. subst y. exfalso. apply (N x); [left; reflexivity|exact H1].
    + rewrite len_cons. pose proof (len_nonneg pat).
      destruct (IH l (fun x0 Hx => N x0 (or_intror Hx)) H2) as [R|R]; [left; rewrite R; reflexivity|right].
      destruct (index_byte l c <? 0) eqn:E2; lia.
Qed.

Lemma ci_prefix_In c pat : forall w, List.length w = List.length pat -> In c w ->
  (forall x, In x pat -> x <> lower_ascii c) -> ci_prefix pat w = false.
Proof.
  induction pat as [|x pat IH]; intros w L I N.
  - destruct w; [destruct I|discriminate].
  - destruct w as [|y w]; [destruct I|]. cbn [ci_prefix]. cbn [List.length] in L.
    destruct I as [->|I].
    + destruct (beq x (lower_ascii c)) eqn:E; [|reflexivity]. apply beq_eq in E.
      exfalso. apply (N x); [left; reflexivity|exact E].
    + rewrite (IH w ltac:(lia) I (fun x0 Hx => N x0 (or_intror Hx))). apply andb_false_r.
Qed.

Lemma doctype_no_gt l : ci_prefix (bs "doctype") l = true -> index_byte l x3e = -1 \/ 7 <= index_byte l x3e.
Proof.
  intros H. apply (ci_prefix_no x3e) in H; [exact H|].
  intros x Hx E. cbn in Hx. repeat (destruct Hx as [<-|Hx]; [discriminate E|]). destruct Hx.
Qed.

Lemma doctype_nul w : List.length w = 7%nat -> In x00 w -> to_lower_cmp (bs "doctype") w = false.
Proof.
  intros L I. rewrite to_lower_cmp_ci; [|reflexivity|exact L].
  apply (ci_prefix_In x00); [exact L|exact I|].
  intros x Hx E. cbn in Hx. repeat (destruct Hx as [<-|Hx]; [discriminate E|]). destruct Hx.
Qed.

Lemma eqb_lit_nul w k : In x00 w -> ~ In x00 k -> bytes_eqb w k = false.
Proof.
  intros I N. destruct (bytes_eqb w k) eqn:E; [|reflexivity]. apply bytes_eqb_eq in E. subst. contradiction.
Qed.
