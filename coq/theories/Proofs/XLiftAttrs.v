(* XLiftAttrs: C04, NUL bytes and letter case inside the attribute names of the
   remaining attribute productions of the vector grammar (p_blacks: URL, black,
   style and indirect attributes; p_xmlns_xlink; p_event_seps). *)
From Coq Require Import List ZArith String Bool Lia ZifyBool.
From Coq.Strings Require Import Byte.
From LI Require Import Prelude Base Html5 Xss Proofs.BaseFacts Spec.XCiSpec
  Spec.RefHtml Proofs.RefHtmlProofs Spec.GrammarXss
  Proofs.XLiftSpec Proofs.XLiftRef Proofs.XLiftNames Proofs.XLiftUrl Proofs.XLiftNul.
From LIGen Require Import Consts.
Import ListNotations.
Local Open Scope Z_scope.

(* what follows the attribute name in the vectors of p_blacks, by attribute type *)
Definition posts_of (ty : Z) : list bytes :=
  if ty =? 2 then flat_map (fun sch => map (fun q => bs "=" ++ q ++ sch ++ bs "x" ++ q) quotes3) schemes
  else if (ty =? 1) || (ty =? 3) then map (fun q => bs "=" ++ q ++ bs "x" ++ q) quotes3
  else if ty =? 4 then [bs "=ONCLICK"; bs "=XMLNS"]
  else [].

Lemma p_blacks_inv apre v : In v (p_blacks apre) ->
  exists A ty post, In (A, ty) blacks /\ In post (posts_of ty) /\ v = apre ++ A ++ post.
Proof.
  unfold p_blacks. intros H. apply in_flat_map in H. destruct H as ([A ty] & HA & H).
  cbn [fst snd] in H. exists A, ty. unfold posts_of.
  destruct (ty =? 2).
  - unfold p_url_attr in H. apply in_flat_map in H. destruct H as (sch & Hs & H).
    apply in_map_iff in H. destruct H as (q & <- & Hq).
    exists (bs "=" ++ q ++ sch ++ bs "x" ++ q). split; [exact HA|]. split; [|reflexivity].
    apply in_flat_map. exists sch. split; [exact Hs|]. apply in_map_iff. exists q. auto.
  - destruct ((ty =? 1) || (ty =? 3)).
    + unfold p_black_attr in H. apply in_map_iff in H. destruct H as (q & <- & Hq).
      exists (bs "=" ++ q ++ bs "x" ++ q). split; [exact HA|]. split; [|reflexivity].
      apply in_map_iff. exists q. auto.
    + destruct (ty =? 4); [|contradiction].
      unfold p_indirect_attr in H. cbn [In] in H. destruct H as [<-|[<-|[]]].
      * exists (bs "=ONCLICK"). split; [exact HA|]. split; [left; reflexivity|reflexivity].
      * exists (bs "=XMLNS"). split; [exact HA|]. split; [right; left; reflexivity|reflexivity].
Qed.

Ltac fire_concrete :=
  eexists; split; [reflexivity|];
  eapply fires_now; [reflexivity|vm_compute; discriminate|vm_compute; reflexivity].

Lemma posts_fire ty post : In post (posts_of ty) ->
  exists post', post = x3d :: post' /\ fires 1 MBeforeValue post' false ty.
Proof.
  unfold posts_of. destruct (ty =? 2) eqn:T2.
  { apply Z.eqb_eq in T2. subst ty. intros H. cbn in H.
    repeat (destruct H as [<-|H]; [fire_concrete|]). contradiction. }
  destruct (ty =? 1) eqn:T1.
  { apply Z.eqb_eq in T1. subst ty. intros H. cbn in H.
    repeat (destruct H as [<-|H]; [fire_concrete|]). contradiction. }
  destruct (ty =? 3) eqn:T3.
  { apply Z.eqb_eq in T3. subst ty. intros H. cbn in H.
    repeat (destruct H as [<-|H]; [fire_concrete|]). contradiction. }
  cbn [orb]. destruct (ty =? 4) eqn:T4; [|contradiction].
  apply Z.eqb_eq in T4. subst ty. intros H. cbn in H.
  repeat (destruct H as [<-|H]; [fire_concrete|]). contradiction.
Qed.

(* NAME' post : NAME' a variant of an entry of the attribute list, post what
   follows the name in a vector of the grammar *)
Theorem blacks_variant ci A ty post A' : (ci < 5)%nat ->
  In (A, ty) blacks -> In post (posts_of ty) -> name_variant A A' ->
  is_xss (apre_of ci ++ A' ++ post) = Ok true.
Proof.
  intros Hci HA Hp HV. destruct (blacks_sweep (A, ty) HA) as [Ok1 Ty]. cbn [fst snd] in *.
  destruct (posts_fire ty post Hp) as (post' & -> & F).
  apply (attr_ctx_fires ci 2); [exact Hci|lia|].
  intros m w a M. apply fires_name_eq; [exact M|exact (variant_name_ok A A' HV Ok1)|].
  rewrite (variant_attr_type A A' HV), Ty. exact F.
Qed.

Theorem p_blacks_variant ci v : (ci < 5)%nat -> In v (p_blacks (apre_of ci)) ->
  exists A ty post, v = apre_of ci ++ A ++ post /\ In (A, ty) blacks /\
    forall A', name_variant A A' -> is_xss (apre_of ci ++ A' ++ post) = Ok true.
Proof.
  intros Hci Hv. destruct (p_blacks_inv _ _ Hv) as (A & ty & post & HA & Hp & ->).
  exists A, ty, post. split; [reflexivity|]. split; [exact HA|].
  intros A' HV. exact (blacks_variant ci A ty post A' Hci HA Hp HV).
Qed.

(* XMLNS / XLINK *)
Theorem xmlns_xlink_variant ci A A' : (ci < 5)%nat -> In A [bs "XMLNS"; bs "XLINK"] ->
  name_variant A A' -> is_xss (apre_of ci ++ A' ++ bs "=x") = Ok true.
Proof.
  intros Hci HA HV.
  assert (S : name_ok A = true /\ ref_attr_type A = 1).
  { cbn in HA. destruct HA as [<-|[<-|[]]]; split; vm_compute; reflexivity. }
  destruct S as [Ok1 Ty].
  apply (attr_ctx_fires ci 2); [exact Hci|lia|].
  intros m w a M. change (bs "=x") with (x3d :: bs "x").
  apply fires_name_eq; [exact M|exact (variant_name_ok A A' HV Ok1)|].
  rewrite (variant_attr_type A A' HV), Ty. eapply fires_now_black. reflexivity.
Qed.

(* <a SEP ONCLICK'=x : the seven separators between a tag name and an attribute name *)
Lemma a_sep_step n w l : is_space w = true -> (forall a, fires n MAttrs l false a) ->
  forall a, fires (S n) MText (x3c :: x61 :: w :: l) false a.
Proof.
  intros Hw F a. pose proof (len_nonneg l).
  eapply (fires_next _ _ _ _ _ KTagOpen 1 1 3 MAttrs false);
    [|lia|rewrite !len_cons; lia|apply F].
  cbn [ref_step]. change (beq x3c x3c) with true. cbv iota. cbn [tag_open].
  change (beq x61 x21) with false. change (beq x61 x2f) with false.
  change (beq x61 x3f) with false. change (beq x61 x25) with false.
  change (is_ascii_letter x61 || beq x61 x00) with true. cbv iota.
  unfold tag_name. cbn [break]. change (ends_tag_name x61) with false. cbv iota.
  unfold ends_tag_name. rewrite Hw. cbn [orb]. cbv iota. rewrite Hw. reflexivity.
Qed.

Lemma a_slash_step n l : (forall a, fires n MSlash (x2f :: l) false a) ->
  forall a, fires (S n) MText (x3c :: x61 :: x2f :: l) false a.
Proof.
  intros F a. pose proof (len_nonneg l).
  eapply (fires_next _ _ _ _ _ KTagOpen 1 1 2 MSlash false);
    [reflexivity|lia|rewrite !len_cons; lia|apply F].
Qed.

Theorem event_seps_variant ci sp N' : (ci < 5)%nat -> In sp event_seps ->
  name_variant (bs "ONCLICK") N' ->
  is_xss (pre_of ci ++ bs "<a" ++ sp ++ N' ++ bs "=x") = Ok true.
Proof.
  intros Hci Hsp HV.
  assert (S : name_ok (bs "ONCLICK") = true /\ ref_attr_type (bs "ONCLICK") = 1)
    by (split; vm_compute; reflexivity).
  destruct S as [Ok1 Ty].
  pose proof (variant_name_ok _ _ HV Ok1) as Ok2.
  pose proof (variant_attr_type _ _ HV) as Ty2. rewrite Ty in Ty2.
  assert (F : forall m w a, name_mode m w -> fires 2 m (w ++ N' ++ x3d :: bs "x") false a).
  { intros m w a M. apply fires_name_eq; [exact M|exact Ok2|].
    rewrite Ty2. eapply fires_now_black. reflexivity. }
  assert (G : exists w l, bs "<a" ++ sp ++ N' ++ bs "=x" = x3c :: x61 :: w :: l /\
                          forall a, fires 3 MText (x3c :: x61 :: w :: l) false a).
  { cbn in Hsp. destruct Hsp as [<-|[<-|[<-|[<-|[<-|[<-|[<-|[]]]]]]]].
    1-6: eexists; eexists; (split; [reflexivity|]);
         apply a_sep_step; [reflexivity|intros a; exact (F MAttrs [] a NM_attrs)].
    eexists; eexists; (split; [reflexivity|]).
    apply a_slash_step. intros a. exact (F MSlash [x2f] a NM_slash). }
  destruct G as (w & l & -> & G).
  apply (tag_ctx_fires ci 3); [exact Hci|lia|exact G].
Qed.

(* ---------- every name-bearing vector of the grammar ---------- *)

Theorem named_vectors_variant ci v : (ci < 5)%nat -> In v (named_vectors ci) ->
  exists pre name post, v = pre ++ name ++ post /\
    forall name', name_variant name name' -> is_xss (pre ++ name' ++ post) = Ok true.
Proof.
  intros Hci Hv. unfold named_vectors, ctx_tags, ctx_events in Hv.
  rewrite !in_app_iff in Hv. destruct Hv as [[Hv|Hv]|[Hv|[Hv|[Hv|Hv]]]].
  - destruct (p_black_tags_variant ci v Hci Hv) as (tag & term & -> & _ & _ & H).
    exists (pre_of ci ++ bs "<"), tag, term. split; [rewrite <- app_assoc; reflexivity|].
    intros t' HV. rewrite <- app_assoc. exact (H t' HV).
  - unfold p_svt_xsl in Hv. apply in_map_iff in Hv. destruct Hv as (tag & <- & Ht).
    exists (pre_of ci ++ bs "<"), tag, (bs ">"). split; [rewrite <- app_assoc; reflexivity|].
    intros t' HV. rewrite <- app_assoc. exact (p_svt_xsl_variant ci tag t' Hci Ht HV).
  - destruct (p_events_variant ci v Hci Hv) as (ev & q & -> & _ & _ & H).
    exists (apre_of ci), (bs "ON" ++ ev), q. split; [rewrite <- app_assoc; reflexivity|].
    exact H.
  - unfold p_event_seps in Hv. apply in_map_iff in Hv. destruct Hv as (sp & <- & Hs).
    exists (pre_of ci ++ bs "<a" ++ sp), (bs "ONCLICK"), (bs "=x").
    split; [rewrite <- !app_assoc; reflexivity|].
    intros N' HV. rewrite <- !app_assoc. exact (event_seps_variant ci sp N' Hci Hs HV).
  - destruct (p_blacks_variant ci v Hci Hv) as (A & ty & post & -> & _ & H).
    exists (apre_of ci), A, post. split; [reflexivity|exact H].
  - unfold p_xmlns_xlink in Hv. apply in_map_iff in Hv. destruct Hv as (A & <- & HA).
    exists (apre_of ci), A, (bs "=x"). split; [reflexivity|].
    intros A' HV. exact (xmlns_xlink_variant ci A A' Hci HA HV).
Qed.

Print Assumptions p_blacks_variant.
Print Assumptions event_seps_variant.
Print Assumptions named_vectors_variant.
Print Assumptions xmlns_xlink_variant.
