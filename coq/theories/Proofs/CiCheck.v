(* CiCheck: sqliFingerprint, blacklist, notWhitelist, check and IsSQLi in
   lock-step on two inputs that are equal up to ASCII case (property C10). *)
From Coq Require Import List ZArith String Bool Lia ZifyBool.
From Coq.Strings Require Import Byte.
From LI Require Import Prelude Base SqliLex SqliFold Proofs.BaseFacts Proofs.Wp Proofs.LexBase Proofs.LexSpec
  Spec.CiSpec Proofs.CiBase Proofs.CiLex Proofs.CiFold.
From LIGen Require Import Tables Dispatch Consts.
Import ListNotations.
Local Open Scope Z_scope.

(* identical first computations first: their results are equal, not just related *)
Ltac rel_step' :=
  lazymatch goal with
  | |- rel_res _ (bind ?m _) (bind ?m' _) =>
      first [ constr_eq m m'; eapply rel_bind; [apply rel_refl_eq | rel_intro] | rel_step ]
  | _ => rel_step
  end.
Ltac rel_go' := unfold_sets; cbv beta zeta; repeat (rel_step'; cbv beta zeta).

Lemma fp_loop_ci w w' : win_ci w w' -> forall acc, fp_loop w' acc = fp_loop w acc.
Proof.
  intros H. induction H as [|t t' w w' Ht H IH]; intros acc; cbn [fp_loop]; [reflexivity|].
  destruct Ht as (_ & _ & _ & Hc & _). unfold cat_is. rewrite <- Hc, IH. reflexivity.
Qed.

Definition fpr_ci (G : bytes -> bytes -> Prop) (r r' : bytes * list token * sqlst) : Prop :=
  fst (fst r) = fst (fst r') /\ win_ci (snd (fst r)) (snd (fst r')) /\
  st_ci (snd r) (snd r') /\ G (input (snd r)) (input (snd r')).

Ltac win_norm2 :=
  repeat match goal with
         | H : win_ci ?w ?w' |- _ => progress rewrite ?(win_wlen _ _ H), ?(win_length _ _ H), ?(fp_loop_ci _ _ H)
         | H : Forall2 tok_ci ?w ?w' |- _ => progress rewrite ?(win_wlen _ _ H), ?(win_length _ _ H), ?(fp_loop_ci _ _ H)
         end.
Ltac norm_hook ::= step_norm; fs_norm; win_norm2; opt_norm.

Ltac solve_check :=
  lazymatch goal with
  | |- fpr_ci _ _ _ => unfold fpr_ci; simp_rec; split; [reflexivity | split; [solve_ci | split; [solve_ci | solve_ci]]]
  | _ => solve_fold2
  end.
Ltac solve_hook ::= solve_check.

Lemma sqli_fingerprint_ci G (PO : parser_ok G) s s' fl :
  st_ci s s' -> G (input s) (input s') ->
  rel_res (fpr_ci G) (sqli_fingerprint s fl) (sqli_fingerprint s' fl).
Proof.
  intros Hs HG. unfold sqli_fingerprint, reset. pose proof Hs as (Hi & _).
  eapply rel_bind.
  { apply (fold_ci G PO).
    - unfold sqli_init. apply st_ci_mk. exact Hi.
    - exact HG.
    - unfold st_wf, sqli_init, slen. cbn [pos input]. pose proof (len_nonneg (input s)). lia. }
  intros [w s1] [w' s1'] (Hw & Hs1 & HG1). cbn [fst snd] in Hw, Hs1, HG1.
  unpack Hs1. simp_rec. unfold_fold. win_norm2.
  rel_go'.
Qed.

Definition sp_same (i i' : bytes) : Prop :=
  contains i (bs "sp_password") = contains i' (bs "sp_password").

Lemma not_whitelist_ci s s' fp w w' :
  st_ci s s' -> win_ci w w' -> sp_same (input s) (input s') ->
  rel_res eq (not_whitelist s fp w) (not_whitelist s' fp w').
Proof.
  intros Hs Hw SP. unfold sp_same in SP. unpack Hs. simp_rec. unfold not_whitelist. unfold_fold.
  rewrite <- SP. cv_norm_all.
  rel_go'.
Qed.

Lemma check_fingerprint_ci s s' fp w w' :
  st_ci s s' -> win_ci w w' -> sp_same (input s) (input s') ->
  rel_res eq (check_fingerprint s fp w) (check_fingerprint s' fp w').
Proof.
  intros Hs Hw SP. unfold check_fingerprint. destruct (blacklist fp); [|reflexivity].
  apply not_whitelist_ci; assumption.
Qed.

(* the local function `try` of check *)
Definition try_ (s : sqlst) (fl : Z) (k : sqlst -> res (bool * bytes)) : res (bool * bytes) :=
  '(fp, w, s) <- sqli_fingerprint s fl ;;
  v <- check_fingerprint s fp w ;;
  if (v : bool) then Ok (true, fp) else k s.

Definition dbl_ (s : sqlst) : res (bool * bytes) :=
  if negb (index_byte (input s) b_byte_double =? -1) then
    try_ s (Z.lor c_sqli_flag_quote_double c_sqli_flag_sqlmysql) (fun _ => Ok (false, []))
  else Ok (false, []).

Definition sgl_ (s : sqlst) : res (bool * bytes) :=
  if negb (index_byte (input s) b_byte_single =? -1) then
    try_ s (Z.lor c_sqli_flag_quote_single c_sqli_flag_sqlansi)
      (fun s => if reparse_as_mysql s
                then try_ s (Z.lor c_sqli_flag_quote_single c_sqli_flag_sqlmysql) dbl_
                else dbl_ s)
  else dbl_ s.

Lemma check_unfold s :
  check s =
  if slen s =? 0 then Ok (false, [])
  else try_ s (Z.lor c_sqli_flag_quote_none c_sqli_flag_sqlansi)
         (fun s => if reparse_as_mysql s
                   then try_ s (Z.lor c_sqli_flag_quote_none c_sqli_flag_sqlmysql) sgl_
                   else sgl_ s).
Proof. reflexivity. Qed.

Section Check.
  Variable G : bytes -> bytes -> Prop.
  Variable PO : parser_ok G.
  Variable GSP : forall i i', G i i' -> sp_same i i'.

  Definition k_ci (k k' : sqlst -> res (bool * bytes)) : Prop :=
    forall s s', st_ci s s' -> G (input s) (input s') -> rel_res eq (k s) (k' s').

  Lemma try_ci s s' fl k k' :
    st_ci s s' -> G (input s) (input s') -> k_ci k k' -> rel_res eq (try_ s fl k) (try_ s' fl k').
  Proof.
    intros Hs HG Hk. unfold try_.
    eapply rel_bind; [apply (sqli_fingerprint_ci G PO); assumption|].
    intros [[fp w] s1] [[fp' w'] s1'] (Hfp & Hw & Hs1 & HG1). cbn [fst snd] in *. subst fp'.
    eapply rel_bind; [apply check_fingerprint_ci; try assumption; apply GSP; exact HG1|].
    intros v v' <-. destruct v; [reflexivity|]. apply Hk; assumption.
  Qed.

  Lemma dbl_ci : k_ci dbl_ dbl_.
  Proof.
    intros s s' Hs HG. unfold dbl_. pose proof Hs as (Hi & _).
    rewrite (cv_index_byte _ _ b_byte_double Hi eq_refl).
    destruct (negb _); [|reflexivity]. apply try_ci; try assumption. intros ? ? _ _. reflexivity.
  Qed.

  Lemma reparse_ci s s' : st_ci s s' -> reparse_as_mysql s' = reparse_as_mysql s.
  Proof. intros (_ & _ & _ & Hx). unfold reparse_as_mysql. rewrite Hx. reflexivity. Qed.

  Lemma sgl_ci : k_ci sgl_ sgl_.
  Proof.
    intros s s' Hs HG. unfold sgl_. pose proof Hs as (Hi & _).
    rewrite (cv_index_byte _ _ b_byte_single Hi eq_refl).
    destruct (negb _); [|apply dbl_ci; assumption]. apply try_ci; try assumption.
    intros s1 s1' Hs1 HG1. rewrite (reparse_ci _ _ Hs1).
    destruct (reparse_as_mysql s1); [|apply dbl_ci; assumption].
    apply try_ci; try assumption. exact dbl_ci.
  Qed.

  Lemma check_ci s s' : st_ci s s' -> G (input s) (input s') -> rel_res eq (check s) (check s').
  Proof.
    intros Hs HG. rewrite !check_unfold. pose proof Hs as (Hi & _). unfold slen. rewrite (cv_len _ _ Hi).
    destruct (len (input s) =? 0); [reflexivity|]. apply try_ci; try assumption.
    intros s1 s1' Hs1 HG1. rewrite (reparse_ci _ _ Hs1).
    destruct (reparse_as_mysql s1); [|apply sgl_ci; assumption].
    apply try_ci; try assumption. exact sgl_ci.
  Qed.

  Lemma is_sqli_ci inp inp' : cv inp inp' -> G inp inp' -> is_sqli inp' = is_sqli inp.
  Proof.
    intros H HG. unfold is_sqli.
    assert (K : check (sqli_init inp' 0) = check (sqli_init inp 0)).
    { symmetry. apply rel_eq. apply check_ci; [unfold sqli_init; apply st_ci_mk; exact H|exact HG]. }
    rewrite K. reflexivity.
  Qed.
End Check.
