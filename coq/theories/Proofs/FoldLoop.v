(* FoldLoop: one iteration of the main loop of fold, the loop itself within its
   fuel, the initial skip loop and fold as a whole. *)
From Coq Require Import List ZArith String Bool Lia ZifyBool.
From Coq.Strings Require Import Byte.
From LI Require Import Prelude Base SqliLex SqliFold Proofs.BaseFacts Proofs.Wp Proofs.LexBase Proofs.LexSpec
  Proofs.FoldBase Proofs.FoldSpec.
From LIGen Require Import Tables Dispatch Consts.
Import ListNotations.
Local Open Scope Z_scope.

(* ---------- one iteration of the main loop ---------- *)

Lemma five_special_total (P : token -> Prop) w : 5 <= wlen w -> exists r, five_special w = Ok r.
Proof.
  intros H. unfold five_special, wget, wlen in *.
  assert (N : forall i, (i < 5)%nat -> exists t, nth_error w i = Some t).
  { intros i Hi. destruct (nth_error w i) eqn:E; [eauto|]. apply nth_error_None in E. lia. }
  destruct (N 0%nat) as [t0 E0]; [lia|]. destruct (N 1%nat) as [t1 E1]; [lia|].
  destruct (N 2%nat) as [t2 E2]; [lia|]. destruct (N 3%nat) as [t3 E3]; [lia|].
  destruct (N 4%nat) as [t4 E4]; [lia|].
  change (Z.to_nat 0) with 0%nat. change (Z.to_nat 1) with 1%nat. change (Z.to_nat 2) with 2%nat.
  change (Z.to_nat 3) with 3%nat. change (Z.to_nat 4) with 4%nat.
  cbn [Z.leb Z.compare]. rewrite E0, E1, E2, E3, E4. cbn [bind]. eauto.
Qed.

Definition iter_ok (inp : bytes) (fl : Z) (f : fstate) (r : iter_out) : Prop :=
  match r with
  | Again f' => finv inp fl f' /\ phi f' < phi f
  | Break f' => finv inp fl f'
  | Ret n f' => finv inp fl f' /\ 0 <= n <= wlen (f_win f')
  end.

Lemma fold_iter_spec inp fl f : finv inp fl f -> wp (fold_iter f) (iter_ok inp fl f).
Proof.
  intros Hinv. pose proof Hinv as (I1 & I2 & I3 & I4 & I5 & I6 & I7 & I8).
  unfold fold_iter. change c_max_tokens with 5.
  apply wp_bind.
  (* the 5-token special cases: a state f1 with the invariant and no larger potential *)
  apply (wp_conseq _ (fun f1 => finv inp fl f1 /\ phi f1 <= phi f /\ f_more f1 = f_more f)).
  { destruct (5 <=? wlen (f_win f)) eqn:E5; [|apply wp_Ok; splits; [assumption|lia|reflexivity]].
    destruct (five_special_total (fun _ => True) (f_win f)) as [sp Esp]; [lia|]. rewrite Esp. cbn [bind].
    destruct sp; [|apply wp_Ok; splits; [assumption|lia|reflexivity]].
    apply Z.leb_le in E5.
    destruct (5 <? wlen (f_win f)) eqn:E6; [apply Z.ltb_lt in E6|apply Z.ltb_ge in E6].
    - apply wp_bind. eapply wp_wget; [exact I4|lia|]. intros t5 H5 N5.
      apply wp_bind. apply (wp_wset (fun _ => True)); [lia|].
      apply wp_bind. apply wp_wtrunc; [wlens; lia|]. apply wp_Ok.
      change (mkF (f_s f) ?w 0 (f_more f) (f_last f)) with (upd f (f_s f) w 0).
      splits; [|apply Z.lt_le_incl|reflexivity].
      + apply finv_upd; [assumption|reflexivity|reflexivity|reflexivity|forall_w|wside|wside].
      + apply phi_shrink; [reflexivity|reflexivity|wside|wside|wside|wside].
    - apply wp_bind. apply wp_wtrunc; [lia|]. apply wp_Ok.
      change (mkF (f_s f) ?w 0 (f_more f) (f_last f)) with (upd f (f_s f) w 0).
      splits; [|apply Z.lt_le_incl|reflexivity].
      + apply finv_upd; [assumption|reflexivity|reflexivity|reflexivity|forall_w|wside|wside].
      + apply phi_shrink; [reflexivity|reflexivity|wside|wside|wside|wside]. }
  intros f1 (J & Jphi & Jmore). pose proof J as (J1 & J2 & J3 & J4 & J5 & J6 & J7 & J8).
  destruct (negb (f_more f1) || (5 <=? f_left f1)) eqn:Eb.
  { apply wp_Ok. unfold iter_ok, finv, mark in *. cbn [f_s f_win f_left f_last].
    splits; try assumption; try lia. }
  apply orb_false_iff in Eb. destruct Eb as [Em El]. apply negb_false_iff in Em.
  apply wp_bind. change (fetch_n 2 f1) with (fetch (S (S (List.length (input (f_s f1))))) 2 f1). eapply wp_conseq.
  { apply (fetch_spec inp fl 2); [exact J|]. unfold st_wf, slen, len in *. lia. }
  intros f2 (P1 & P2 & P3 & P4 & P5 & P6 & P7).
  pose proof P1 as (K1 & K2 & K3 & K4 & K5 & K6 & K7 & K8).
  destruct (wlen (f_win f2) - f_left f2 <? 2) eqn:E2.
  - apply wp_Ok. unfold iter_ok. split.
    + unfold finv, mark in *. cbn [f_s f_win f_left f_last]. splits; try assumption; try lia.
    + assert (Hm : f_more f2 = false).
      { destruct (f_more f2) eqn:X; [|reflexivity]. exfalso. apply P5. splits; [reflexivity|lia|lia]. }
      specialize (P4 Em Hm). unfold phi in *. cbn [f_s f_win f_left f_more]. lia.
  - apply wp_bind. eapply wp_conseq; [apply rules2_spec; [exact P1|lia]|].
    intros [f3|n f3]; unfold step_ok, iter_ok; intros [A B]; apply wp_Ok; split; try assumption; lia.
Qed.

(* ---------- after the loop ---------- *)

(* the tokens fold hands to the fingerprint: window tokens, possibly followed by the
   last comment as the scanner produced it *)
Definition fwin_ok (inp : bytes) (w : list token) : Prop :=
  Forall (wtok (len inp)) w \/
  exists w0 c, w = w0 ++ [c] /\ t_cat c = cC /\ tok_at inp 0 (len inp) c /\ Forall (wtok (t_pos c)) w0.

Definition final_ok (inp : bytes) (fl : Z) (r : Z * fstate) : Prop :=
  let '(n, f') := r in
  input (f_s f') = inp /\ flags (f_s f') = fl /\ st_wf (f_s f') /\
  0 <= n <= wlen (f_win f') /\ n <= 6 /\ fwin_ok inp (firstn (Z.to_nat n) (f_win f')).

Lemma firstn_app_exact {A} (l1 l2 : list A) : firstn (List.length l1) (l1 ++ l2) = l1.
Proof. rewrite firstn_app, Nat.sub_diag, firstn_all. cbn. apply app_nil_r. Qed.

Lemma firstn_replace_nth {A} (l : list A) n x : firstn n (replace_nth l n x) = firstn n l.
Proof. revert n. induction l as [|y l IH]; intros [|n]; cbn; auto. f_equal. apply IH. Qed.

Lemma firstn_S_replace_nth {A} (l : list A) n x :
  (n < List.length l)%nat -> firstn (S n) (replace_nth l n x) = firstn n l ++ [x].
Proof.
  revert n. induction l as [|y l IH]; intros [|n] H; cbn in *; try lia; auto. f_equal. apply IH. lia.
Qed.

Lemma finv_final_plain inp fl f n :
  finv inp fl f -> 0 <= n <= wlen (f_win f) -> n <= 6 -> final_ok inp fl (n, f).
Proof.
  intros (I1 & I2 & I3 & I4 & I5 & I6 & I7 & I8) Hn H6. unfold final_ok. splits; try assumption; try lia.
  left. apply Forall_firstn. eapply Forall_wtok_mono; [|exact I4]. unfold st_wf, slen in I3. rewrite I1 in I3. lia.
Qed.

Lemma fold_finish_spec inp fl f : finv inp fl f -> wp (fold_finish f) (final_ok inp fl).
Proof.
  intros Hinv. pose proof Hinv as (I1 & I2 & I3 & I4 & I5 & I6 & I7 & I8).
  unfold fold_finish. change c_max_tokens with 5.
  assert (Hpos : pos (f_s f) <= len inp) by (unfold st_wf, slen in I3; rewrite I1 in I3; lia).
  destruct ((f_left f <? 5) && cat_is (f_last f) cC) eqn:E.
  - apply andb_true_iff in E. destruct E as [E1 Ec]. apply Z.ltb_lt in E1.
    pose proof (I8 Ec) as Tc. pose proof Ec as Ec'. apply cat_is_eq in Ec'.
    assert (M : mark f = t_pos (f_last f)) by (unfold mark; rewrite Ec; reflexivity).
    assert (Tc' : tok_at inp 0 (len inp) (f_last f)) by (eapply tok_at_weaken; [| |exact Tc]; lia).
    rewrite M in I4.
    destruct (f_left f =? wlen (f_win f)) eqn:El.
    + apply Z.eqb_eq in El. cbn [bind]. destruct (5 <? f_left f + 1) eqn:E5; [lia|].
      apply wp_Ok. unfold final_ok. cbn [f_s f_win]. rewrite wlen_app.
      splits; try assumption; try lia. right. exists (f_win f), (f_last f).
      replace (Z.to_nat (f_left f + 1)) with (List.length (f_win f ++ [f_last f])).
      * rewrite firstn_all. splits; try assumption; reflexivity.
      * rewrite app_length. cbn. unfold wlen in El. lia.
    + apply Z.eqb_neq in El. apply wp_bind. apply wp_bind. apply (wp_wset (fun _ => True)); [lia|].
      apply wp_Ok. destruct (5 <? f_left f + 1) eqn:E5; [lia|]. apply wp_Ok.
      unfold final_ok. cbn [f_s f_win]. rewrite wlen_replace_nth.
      splits; try assumption; try lia. right. exists (firstn (Z.to_nat (f_left f)) (f_win f)), (f_last f).
      replace (Z.to_nat (f_left f + 1)) with (S (Z.to_nat (f_left f))) by lia.
      rewrite firstn_S_replace_nth by (unfold wlen in *; lia).
      splits; try assumption; try reflexivity. apply Forall_firstn. exact I4.
  - cbn [bind]. apply wp_Ok.
    destruct (5 <? f_left f) eqn:E5.
    + apply Z.ltb_lt in E5. unfold final_ok. cbn [f_s f_win]. splits; try assumption; try lia.
      left. apply Forall_firstn. eapply Forall_wtok_mono; [|exact I4]. lia.
    + apply Z.ltb_ge in E5. unfold final_ok. cbn [f_s f_win]. splits; try assumption; try lia.
      left. apply Forall_firstn. eapply Forall_wtok_mono; [|exact I4]. lia.
Qed.

(* ---------- the loop within its fuel ---------- *)

Lemma phi_nonneg inp fl f : finv inp fl f -> 0 <= phi f.
Proof.
  intros (I1 & I2 & I3 & I4 & I5 & I6 & I7 & I8). unfold phi, st_wf in *.
  pose proof (rank_sum_range (f_win f)). pose proof (wlen_nonneg (f_win f)). destruct (f_more f); cbn [b2z]; lia.
Qed.

Lemma fold_steps_spec inp fl k : forall f,
  finv inp fl f ->
  wp (fold_steps k f)
     (fun r => match r with
               | inl f' => finv inp fl f' /\ phi f' + Z.of_nat k <= phi f
               | inr x => final_ok inp fl x
               end).
Proof.
  induction k as [|k IH]; intros f Hinv; cbn [fold_steps].
  - split; [assumption|lia].
  - apply wp_bind. eapply wp_conseq; [apply fold_iter_spec; exact Hinv|].
    intros [f'|f'|n f']; unfold iter_ok.
    + intros [A B]. eapply wp_conseq; [apply IH; exact A|].
      intros [f2|x]; [|auto]. intros [C D]. split; [assumption|lia].
    + intros A. apply wp_bind. eapply wp_conseq; [apply fold_finish_spec; exact A|].
      intros x Hx. exact Hx.
    + intros [A B]. apply wp_Ok. apply finv_final_plain; try assumption. destruct A as (_ & _ & _ & _ & _ & A6 & _). lia.
Qed.

Lemma fold_loop_spec inp fl fuel : forall f,
  finv inp fl f -> phi f < 256 * Z.of_nat fuel ->
  wp (fold_loop fuel f) (final_ok inp fl).
Proof.
  induction fuel as [|fuel IH]; intros f Hinv Hphi; cbn [fold_loop].
  - pose proof (phi_nonneg inp fl f Hinv). lia.
  - apply wp_bind. eapply wp_conseq; [apply (fold_steps_spec inp fl fold_chunk); exact Hinv|].
    intros [f'|x]; [|auto]. intros [A B]. apply IH; [exact A|].
    change (Z.of_nat fold_chunk) with 256 in B. lia.
Qed.

(* ---------- the initial skip loop and fold ---------- *)

(* when tokenize reports no token, the slot holds no class (or is the untouched slot) *)
Lemma tokenize_loop_false fuel : forall s t more t' s',
  t_cat t = x00 -> tokenize_loop fuel s t = Ok (more, t', s') -> more = false -> t_cat t' = x00.
Proof.
  induction fuel as [|fuel IH]; intros s t more t' s' Ht H Hm; cbn [tokenize_loop] in H.
  - destruct (pos s <? slen s); [discriminate|]. inversion H; subst. exact Ht.
  - destruct (pos s <? slen s); [|inversion H; subst; exact Ht].
    apply bind_Ok in H. destruct H as [ch [_ H]].
    apply bind_Ok in H. destruct H as [[[s1 t1] np] [_ H]].
    destruct (negb (beq (t_cat t1) x00)) eqn:E.
    + inversion H; subst. discriminate.
    + apply negb_false_iff, beq_eq in E. eapply IH; [exact E|exact H|exact Hm].
Qed.

Lemma tokenize_false s cur t s' :
  tokenize s cur = Ok (false, t, s') -> t = cur \/ t_cat t = x00.
Proof.
  unfold tokenize. destruct (slen s =? 0); [intros H; inversion H; left; reflexivity|].
  destruct (_ && _).
  - intros H. apply bind_Ok in H. destruct H as [[t1 np] [_ H]]. inversion H.
  - intros H. right. eapply tokenize_loop_false; [|exact H|reflexivity]. reflexivity.
Qed.

Lemma is_unary_op_total' t :
  (t_cat t = b_sqli_token_type_operator -> len (t_val t) = t_len t) -> exists u, is_unary_op t = Ok u.
Proof.
  intros H. destruct (beq (t_cat t) b_sqli_token_type_operator) eqn:E.
  - apply beq_eq in E. apply is_unary_op_total. auto.
  - unfold is_unary_op. rewrite E. cbn. eauto.
Qed.

Definition skip_post (inp : bytes) (fl : Z) (r : bool * token * sqlst) : Prop :=
  let '(more, t, s') := r in
  input s' = inp /\ flags s' = fl /\ st_wf s' /\
  (more = true -> wtok (pos s') t).

Lemma skip_loop_spec inp fl fuel : forall s cur,
  input s = inp -> flags s = fl -> st_wf s -> len (t_val cur) = t_len cur ->
  slen s - pos s + 1 < Z.of_nat fuel ->
  wp (skip_loop fuel s cur) (skip_post inp fl).
Proof.
  induction fuel as [|fuel IH]; intros s cur E1 E2 W Hc Hf; cbn [skip_loop]; [unfold st_wf in W; lia|].
  apply wp_bind. destruct (wp_inv _ _ (tokenize_spec s cur W)) as [[[more t] s1] [Et (A & B & C & D & E & F)]].
  rewrite Et. cbn [wp].
  assert (W1 : st_wf s1) by (unfold st_wf, slen in *; rewrite A; lia).
  assert (Lt : t_cat t = b_sqli_token_type_operator -> len (t_val t) = t_len t).
  { intros Hop. destruct more.
    - destruct (E eq_refl) as (_ & T & _). eapply tok_at_len; [| |exact T]; unfold st_wf, slen in *; lia.
    - destruct (tokenize_false _ _ _ _ Et) as [->|X]; [exact Hc|]. rewrite X in Hop. discriminate. }
  destruct (is_unary_op_total' t Lt) as [u Eu]. rewrite Eu. cbn [bind].
  destruct (negb (cat_is t cC || cat_is t b_sqli_token_type_left_parenthesis
                  || cat_is t b_sqli_token_type_sqltype || u)) eqn:G.
  - apply wp_Ok. unfold skip_post. splits; try congruence.
    intros ->. destruct (E eq_refl) as (E3 & T & _). rewrite E1 in T.
    eapply tok_at_wtok; [| |exact T|]; unfold st_wf, slen in *; try rewrite <- E1; try rewrite <- A; try lia.
    apply negb_true_iff in G. apply orb_false_iff in G. destruct G as [G _].
    apply orb_false_iff in G. destruct G as [G _]. apply orb_false_iff in G. destruct G as [G _].
    intros Hcat. unfold cat_is in G. rewrite Hcat in G. vm_compute in G. discriminate.
  - destruct more.
    + destruct (E eq_refl) as (E3 & T & _).
      apply IH; try congruence.
      * eapply tok_at_len; [| |exact T]; unfold st_wf, slen in *; lia.
      * unfold slen in *. rewrite A. lia.
    + apply wp_Ok. unfold skip_post. splits; try congruence; try discriminate.
Qed.

(* fold as a whole *)
Definition fold_ok (inp : bytes) (fl : Z) (r : list token * sqlst) : Prop :=
  let '(w, s') := r in
  input s' = inp /\ flags s' = fl /\ st_wf s' /\ wlen w <= 6 /\ fwin_ok inp w.

Lemma fold_spec inp fl s :
  input s = inp -> flags s = fl -> st_wf s -> wp (fold s) (fold_ok inp fl).
Proof.
  intros E1 E2 W. unfold fold. apply wp_bind.
  eapply wp_conseq.
  { apply (skip_loop_spec inp fl); try assumption; [reflexivity|]. unfold st_wf, slen, len in *. lia. }
  intros [[more t] s1] (A & B & C & D).
  destruct more; cbn [negb].
  2:{ apply wp_Ok. unfold fold_ok. splits; try assumption; [cbn; lia|]. left. constructor. }
  specialize (D eq_refl).
  set (f0 := mkF s1 [t] 0 true tok0).
  assert (Hinv : finv inp fl f0).
  { unfold finv, f0, mark. cbn [f_s f_win f_left f_last]. change (cat_is tok0 cC) with false. cbn [wlen List.length].
    splits; try assumption; try lia; try discriminate. constructor; [exact D|constructor]. }
  apply wp_bind. eapply wp_conseq.
  { apply (fold_loop_spec inp fl); [exact Hinv|].
    unfold phi, f0, fold_fuel. cbn [f_s f_win f_left f_more b2z rank_sum]. unfold wlen. cbn [List.length].
    pose proof (rank_range (t_cat t)). unfold st_wf, slen, len in *. lia. }
  intros [n f'] (F1 & F2 & F3 & F4 & F5 & F6).
  apply wp_bind. apply wp_wtrunc; [lia|]. apply wp_Ok.
  unfold fold_ok. rewrite wlen_firstn by lia. splits; try assumption; try lia.
Qed.
