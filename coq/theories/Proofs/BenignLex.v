(* BenignLex: how the SQL tokenizer lexes a benign input (Spec/BenignSpec.v):
   every item becomes exactly one token — a bare word 'n' or a number '1' —,
   the single separating spaces produce no token, no comment counter moves.
   Also the keyword-table facts behind it: a benign word is not a key, and the
   merged probe "W1 W2" of two benign words is not a key either. *)
From Coq Require Import List ZArith String Bool Lia ZifyBool.
From Coq.Strings Require Import Byte.
From Coq.FSets Require Import FMapPositive.
From LI Require Import Prelude Base SqliLex Proofs.BaseFacts Proofs.Wp Proofs.LexBase Spec.BenignSpec.
From LIGen Require Import Tables Dispatch Consts.
Import ListNotations.
Local Open Scope Z_scope.

(* ---------- byte sweeps ---------- *)

Definition wordlike (id : parser_id) : bool :=
  match id with
  | PWord | PBString | PEString | PNqString | PQString | PUString | PXString => true
  | _ => false
  end.

(* a byte of a benign input: word byte or the separator *)
Definition plain (b : byte) : bool := is_word_byte b || beq b x20.

Definition word_byte_ok (b : byte) : bool :=
  negb (is_word_byte b)
  || (negb (mem b word_accept) && negb (beq b x2e || beq b x60) && is_ascii b
      && negb (beq (upper_ascii b) x20)).

Lemma word_byte_sweep b : word_byte_ok b = true.
Proof. apply byte_sweep. vm_compute. reflexivity. Qed.

Definition word_start_ok (b : byte) : bool :=
  negb (is_word_start b) || (wordlike (dispatch b) && negb (beq (upper_ascii b) x30) && negb (is_ascii_digit b)).

Lemma word_start_sweep b : word_start_ok b = true.
Proof. apply byte_sweep. vm_compute. reflexivity. Qed.

Definition plain_ok (b : byte) : bool :=
  negb (plain b) || (negb (beq b x27) && negb (beq b x22) && negb (beq b x26)).

Lemma plain_sweep b : plain_ok b = true.
Proof. apply byte_sweep. vm_compute. reflexivity. Qed.

Definition digit_ok (b : byte) : bool :=
  negb (is_ascii_digit b) || (match dispatch b with PNumber => true | _ => false end && is_digit b && is_word_byte b).

Lemma digit_sweep b : digit_ok b = true.
Proof. apply byte_sweep. vm_compute. reflexivity. Qed.

(* the byte after the leading digit of a number item: a digit or the separator *)
Definition digit_or_sp (b : byte) : bool := is_ascii_digit b || beq b x20.

Definition after_zero_ok (b : byte) : bool :=
  negb (digit_or_sp b)
  || (negb (beq b x58 || beq b x78) && negb (beq b x42 || beq b x62)).

Lemma after_zero_sweep b : after_zero_ok b = true.
Proof. apply byte_sweep. vm_compute. reflexivity. Qed.

Lemma word_byte_facts b : is_word_byte b = true ->
  mem b word_accept = false /\ (beq b x2e || beq b x60) = false /\ is_ascii b = true /\
  beq (upper_ascii b) x20 = false.
Proof.
  intros H. pose proof (word_byte_sweep b) as K. unfold word_byte_ok in K. rewrite H in K. cbn [negb orb] in K.
  repeat (apply andb_true_iff in K; destruct K as [K ?]).
  repeat match goal with H0 : negb _ = true |- _ => apply negb_true_iff in H0 end. auto.
Qed.

Lemma word_start_facts b : is_word_start b = true ->
  wordlike (dispatch b) = true /\ beq (upper_ascii b) x30 = false /\ is_ascii_digit b = false.
Proof.
  intros H. pose proof (word_start_sweep b) as K. unfold word_start_ok in K. rewrite H in K. cbn [negb orb] in K.
  repeat (apply andb_true_iff in K; destruct K as [K ?]).
  repeat match goal with H0 : negb _ = true |- _ => apply negb_true_iff in H0 end. auto.
Qed.

Lemma plain_facts b : plain b = true -> beq b x27 = false /\ beq b x22 = false /\ beq b x26 = false.
Proof.
  intros H. pose proof (plain_sweep b) as K. unfold plain_ok in K. rewrite H in K. cbn [negb orb] in K.
  repeat (apply andb_true_iff in K; destruct K as [K ?]).
  repeat match goal with H0 : negb _ = true |- _ => apply negb_true_iff in H0 end. auto.
Qed.

Lemma digit_facts b : is_ascii_digit b = true ->
  dispatch b = PNumber /\ is_digit b = true /\ is_word_byte b = true.
Proof.
  intros H. pose proof (digit_sweep b) as K. unfold digit_ok in K. rewrite H in K. cbn [negb orb] in K.
  repeat (apply andb_true_iff in K; destruct K as [K ?]).
  destruct (dispatch b); try discriminate. auto.
Qed.

Lemma after_zero_facts b : digit_or_sp b = true ->
  (beq b x58 || beq b x78) = false /\ (beq b x42 || beq b x62) = false.
Proof.
  intros H. pose proof (after_zero_sweep b) as K. unfold after_zero_ok in K. rewrite H in K. cbn [negb orb] in K.
  repeat (apply andb_true_iff in K; destruct K as [K ?]).
  repeat match goal with H0 : negb _ = true |- _ => apply negb_true_iff in H0 end. auto.
Qed.

(* ---------- list / primitive helpers over decompositions ---------- *)

Lemma len_app3 (a b c : bytes) : len (a ++ b ++ c) = len a + len b + len c.
Proof. rewrite !len_app. lia. Qed.

Lemma skipn_len_app {A} (pre r : list A) : skipn (List.length pre) (pre ++ r) = r.
Proof. induction pre; cbn; auto. Qed.

Lemma firstn_len_app {A} (a r : list A) : firstn (List.length a) (a ++ r) = a.
Proof. induction a; cbn; [destruct r; reflexivity|]. f_equal. assumption. Qed.

Lemma drop_app site pre r p : p = len pre -> drop site (pre ++ r) p = Ok r.
Proof.
  intros ->. rewrite drop_ok by (rewrite len_app; pose proof (len_nonneg pre); pose proof (len_nonneg r); lia).
  unfold len. rewrite Nat2Z.id, skipn_len_app. reflexivity.
Qed.

Lemma take_app site a r n : n = len a -> take site (a ++ r) n = Ok a.
Proof.
  intros ->. rewrite take_ok by (rewrite len_app; pose proof (len_nonneg a); pose proof (len_nonneg r); lia).
  unfold len. rewrite Nat2Z.id, firstn_len_app. reflexivity.
Qed.

Lemma take_all site a : take site a (len a) = Ok a.
Proof. rewrite <- (app_nil_r a) at 1. apply take_app. reflexivity. Qed.

Lemma nth_error_len_app {A} (pre : list A) b r : nth_error (pre ++ b :: r) (List.length pre) = Some b.
Proof. induction pre; cbn; auto. Qed.

Lemma get_app site pre b r p : p = len pre -> get site (pre ++ b :: r) p = Ok b.
Proof.
  intros ->. unfold get. pose proof (len_nonneg pre). destruct (0 <=? len pre) eqn:E; [|lia].
  unfold len. rewrite Nat2Z.id, nth_error_len_app. reflexivity.
Qed.

Lemma span_len_exact site p s n : 0 <= n <= len s -> span_len site p s n = Ok (Z.min n (span p s)).
Proof.
  intros H. unfold span_len. destruct (n <? 0) eqn:E; [lia|].
  rewrite span_n_exact by (unfold len in H; lia). f_equal. lia.
Qed.

(* a tail that is empty or starts with the separator *)
Definition sep_tail (tl : bytes) : Prop := tl = [] \/ exists tl', tl = x20 :: tl'.

Lemma span_app_all (f : byte -> bool) w tl :
  forallb f w = true -> (tl = [] \/ exists b tl', tl = b :: tl' /\ f b = false) -> span f (w ++ tl) = len w.
Proof.
  intros Hw Ht. induction w as [|b w IH]; cbn [app span forallb] in *.
  - destruct Ht as [->|(b & tl' & -> & Hb)]; cbn [span]; [reflexivity|]. rewrite Hb. reflexivity.
  - apply andb_true_iff in Hw. destruct Hw as [Hb Hw]. rewrite Hb, IH by assumption. rewrite len_cons. reflexivity.
Qed.

Lemma forallb_firstn {A} (f : A -> bool) n l : forallb f l = true -> forallb f (firstn n l) = true.
Proof.
  revert n. induction l as [|x l IH]; intros [|n] H; cbn [firstn forallb] in *; auto.
  apply andb_true_iff in H. destruct H as [-> H]. cbn. apply IH. exact H.
Qed.

Lemma forallb_skipn {A} (f : A -> bool) n l : forallb f l = true -> forallb f (skipn n l) = true.
Proof.
  revert n. induction l as [|x l IH]; intros [|n] H; cbn [skipn forallb] in *; auto.
  apply andb_true_iff in H. destruct H as [_ H]. apply IH. exact H.
Qed.

Lemma forallb_nth {A} (f : A -> bool) l n x : forallb f l = true -> nth_error l n = Some x -> f x = true.
Proof. intros H N. rewrite forallb_forall in H. apply H. eapply nth_error_In. exact N. Qed.

(* ---------- upper-casing ---------- *)

Lemma go_upper_view_ascii w : forallb is_ascii w = true -> go_upper_view w = Some (map upper_ascii w).
Proof.
  induction w as [|b w IH]; cbn [forallb go_upper_view map]; intros H; [reflexivity|].
  apply andb_true_iff in H. destruct H as [Hb Hw]. rewrite Hb, IH by exact Hw. reflexivity.
Qed.

Lemma forallb_impl {A} (f g : A -> bool) l : (forall x, f x = true -> g x = true) -> forallb f l = true -> forallb g l = true.
Proof. intros H. induction l as [|x l IH]; cbn; [auto|]. intros K. apply andb_true_iff in K. destruct K as [K1 K2]. rewrite (H _ K1), IH by exact K2. reflexivity. Qed.

Lemma word_bytes_ascii w : forallb is_word_byte w = true -> forallb is_ascii w = true.
Proof. apply forallb_impl. intros b H. apply word_byte_facts in H. tauto. Qed.

(* ---------- split_sp ---------- *)

Lemma split_sp_nonnil s : split_sp s <> [].
Proof. destruct s as [|b s]; cbn [split_sp]; [discriminate|]. destruct (beq b x20); [discriminate|]. destruct (split_sp s); discriminate. Qed.

Lemma split_sp_app a r : forallb (fun b => negb (beq b x20)) a = true -> split_sp (a ++ x20 :: r) = a :: split_sp r.
Proof.
  induction a as [|b a IH]; cbn [app forallb]; intros H.
  - cbn [split_sp]. rewrite beq_refl. reflexivity.
  - apply andb_true_iff in H. destruct H as [Hb Ha]. apply negb_true_iff in Hb.
    cbn [split_sp]. rewrite Hb, IH by exact Ha. reflexivity.
Qed.

Lemma split_sp_nosp a : forallb (fun b => negb (beq b x20)) a = true -> split_sp a = [a].
Proof.
  induction a as [|b a IH]; cbn [forallb]; intros H; [reflexivity|].
  apply andb_true_iff in H. destruct H as [Hb Ha]. apply negb_true_iff in Hb.
  cbn [split_sp]. rewrite Hb, IH by exact Ha. reflexivity.
Qed.

(* ---------- the keyword table ---------- *)

(* every entry of the map is a fingerprint key (which starts with '0') or has
   its key and all of the key's fields among the components *)
Definition entry_ok (e : positive * (bytes * byte)) : bool :=
  let (k, v) := snd e in
  if beq v b_sqli_token_type_fingerprint then first_is k x30
  else forallb is_kw_component (k :: split_sp k).

Lemma entries_ok : forallb entry_ok (PositiveMap.elements sql_kwmap) = true.
Proof. vm_compute. reflexivity. Qed.

Lemma kw_find_hit u : kw_find sql_kwmap u <> x00 ->
  first_is u x30 = true \/ forallb is_kw_component (u :: split_sp u) = true.
Proof.
  unfold kw_find. destruct (PositiveMap.find (encode u) sql_kwmap) as [[k v]|] eqn:F; [|congruence].
  destruct (bytes_eqb k u) eqn:E; [|congruence]. intros _.
  apply bytes_eqb_eq in E. subst k.
  apply PositiveMap.elements_correct in F. pose proof entries_ok as S. rewrite forallb_forall in S.
  specialize (S _ F). unfold entry_ok in S. cbn [snd] in S.
  destruct (beq v b_sqli_token_type_fingerprint); [left|right]; exact S.
Qed.

(* the shape part of benign_word *)
Definition word_shape (w : bytes) : Prop :=
  (exists b w', w = b :: w' /\ is_word_start b = true) /\ forallb is_word_byte w = true.

Lemma benign_word_inv w : benign_word w = true ->
  word_shape w /\ is_kw_component (map upper_ascii w) = false.
Proof.
  unfold benign_word, word_shape. destruct w as [|b w']; [discriminate|]. intros H.
  apply andb_true_iff in H. destruct H as [H H3]. apply andb_true_iff in H. destruct H as [H1 H2].
  apply negb_true_iff in H3. split; [split|]; try assumption. exists b, w'. auto.
Qed.

Lemma upper_nosp w : forallb is_word_byte w = true ->
  forallb (fun b => negb (beq b x20)) (map upper_ascii w) = true.
Proof.
  induction w as [|b w IH]; cbn [forallb map]; intros H; [reflexivity|].
  apply andb_true_iff in H. destruct H as [Hb Hw]. apply word_byte_facts in Hb.
  destruct Hb as (_ & _ & _ & Hb). rewrite Hb, IH by exact Hw. reflexivity.
Qed.

Lemma first_is_upper_word w r : word_shape w -> first_is (map upper_ascii w ++ r) x30 = false.
Proof.
  intros [(b & w' & -> & Hb) _]. cbn [map app first_is]. apply word_start_facts in Hb. tauto.
Qed.

(* (a) a benign word is not a key *)
Lemma search_keyword_benign w : benign_word w = true -> search_keyword w = x00.
Proof.
  intros H. apply benign_word_inv in H. destruct H as [Hs Hc]. pose proof Hs as [_ Hb].
  unfold search_keyword. rewrite go_upper_view_ascii by (apply word_bytes_ascii; exact Hb).
  destruct (beq (kw_find sql_kwmap (map upper_ascii w)) x00) eqn:E; [apply beq_eq in E; exact E|].
  apply beq_neq in E. apply kw_find_hit in E. destruct E as [E|E].
  - pose proof (first_is_upper_word w [] Hs) as K. rewrite app_nil_r in K. congruence.
  - cbn [forallb] in E. apply andb_true_iff in E. destruct E as [E _]. congruence.
Qed.

(* (b) the probe "W1 W2" that merge builds from two benign words is not a key *)
Lemma search_keyword_benign_pair w1 w2 :
  benign_word w1 = true -> benign_word w2 = true -> search_keyword (w1 ++ [x20] ++ w2) = x00.
Proof.
  intros H1 H2. apply benign_word_inv in H1, H2. destruct H1 as [Hs1 Hc1]. destruct H2 as [Hs2 Hc2].
  pose proof Hs1 as [_ Hb1]. pose proof Hs2 as [_ Hb2].
  unfold search_keyword. cbn [app].
  assert (A : forallb is_ascii (w1 ++ x20 :: w2) = true).
  { rewrite forallb_app. cbn [forallb]. rewrite !word_bytes_ascii by assumption. reflexivity. }
  rewrite go_upper_view_ascii by exact A. rewrite map_app. cbn [map].
  change (upper_ascii x20) with x20.
  destruct (beq (kw_find sql_kwmap (map upper_ascii w1 ++ x20 :: map upper_ascii w2)) x00) eqn:E;
    [apply beq_eq in E; exact E|].
  apply beq_neq in E. apply kw_find_hit in E. destruct E as [E|E].
  - rewrite first_is_upper_word in E by exact Hs1. discriminate.
  - cbn [forallb] in E. apply andb_true_iff in E. destruct E as [_ E].
    rewrite split_sp_app in E by (apply upper_nosp; exact Hb1).
    cbn [forallb] in E. apply andb_true_iff in E. destruct E as [E _]. congruence.
Qed.

(* ---------- items ---------- *)

Lemma benign_number_inv w : benign_number w = true ->
  (exists b w', w = b :: w' /\ is_ascii_digit b = true) /\ forallb is_ascii_digit w = true.
Proof.
  unfold benign_number. destruct w as [|b w']; [discriminate|]. intros H. split; [|exact H].
  exists b, w'. cbn [forallb] in H. apply andb_true_iff in H. tauto.
Qed.

Lemma number_not_word w : benign_number w = true -> benign_word w = false.
Proof.
  intros H. apply benign_number_inv in H. destruct H as [(b & w' & -> & Hb) _].
  unfold benign_word. destruct (is_word_start b) eqn:E; [|reflexivity].
  apply word_start_facts in E. destruct E as (_ & _ & E). congruence.
Qed.

Lemma digits_word_bytes w : forallb is_ascii_digit w = true -> forallb is_word_byte w = true.
Proof. apply forallb_impl. intros b H. apply digit_facts in H. tauto. Qed.

Lemma item_word_bytes w : benign_item w = true -> forallb is_word_byte w = true /\ 1 <= len w.
Proof.
  unfold benign_item. intros H. apply orb_true_iff in H. destruct H as [H|H].
  - apply benign_number_inv in H. destruct H as [(b & w' & -> & _) H]. split; [apply digits_word_bytes; exact H|].
    rewrite len_cons. pose proof (len_nonneg w'). lia.
  - apply benign_word_inv in H. destruct H as [[(b & w' & -> & _) H] _]. split; [exact H|].
    rewrite len_cons. pose proof (len_nonneg w'). lia.
Qed.

(* ---------- join ---------- *)

(* the items after the first one, each preceded by its separator *)
Fixpoint sp_tail (l : list bytes) : bytes :=
  match l with
  | [] => []
  | w :: l' => x20 :: w ++ sp_tail l'
  end.

Lemma join_sp_cons w l : join_sp (w :: l) = w ++ sp_tail l.
Proof.
  revert w. induction l as [|w' l IH]; intros w; cbn [join_sp sp_tail]; [rewrite app_nil_r; reflexivity|].
  f_equal. f_equal. apply IH.
Qed.

Lemma sp_tail_sep l : sep_tail (sp_tail l).
Proof. destruct l; cbn [sp_tail]; [left; reflexivity|right; eexists; reflexivity]. Qed.

Definition Items (l : list bytes) : Prop := Forall (fun w => benign_item w = true) l.

Lemma sp_tail_plain l : Items l -> forallb plain (sp_tail l) = true.
Proof.
  induction 1 as [|w l Hw Hl IH]; cbn [sp_tail forallb]; [reflexivity|].
  rewrite forallb_app, IH. apply item_word_bytes in Hw. destruct Hw as [Hw _].
  rewrite (forallb_impl is_word_byte plain w); [reflexivity| |exact Hw].
  intros b Hb. unfold plain. rewrite Hb. reflexivity.
Qed.

Lemma join_sp_plain l : Items l -> forallb plain (join_sp l) = true.
Proof.
  intros H. destruct l as [|w l]; [reflexivity|]. rewrite join_sp_cons. inversion H; subst.
  rewrite forallb_app, sp_tail_plain by assumption.
  match goal with K : benign_item w = true |- _ => apply item_word_bytes in K; destruct K as [K _] end.
  rewrite (forallb_impl is_word_byte plain w); [reflexivity| |assumption].
  intros b Hb. unfold plain. rewrite Hb. reflexivity.
Qed.

Lemma benign_plain s : Benign s -> forallb plain s = true.
Proof. intros (items & _ & H & ->). apply join_sp_plain. exact H. Qed.

(* the decision procedure of BenignSpec is sound *)
Lemma join_split_sp s : join_sp (split_sp s) = s.
Proof.
  induction s as [|b s IH]; [reflexivity|]. cbn [split_sp]. destruct (beq b x20) eqn:E.
  - apply beq_eq in E. subst b. pose proof (split_sp_nonnil s) as N.
    destruct (split_sp s) as [|f fs] eqn:F; [congruence|]. cbn [join_sp app]. rewrite <- IH. reflexivity.
  - pose proof (split_sp_nonnil s) as N. destruct (split_sp s) as [|f fs] eqn:F; [congruence|].
    rewrite <- IH. destruct fs; cbn [join_sp app]; reflexivity.
Qed.

Lemma benign_dec_sound s : benign_dec s = true -> Benign s.
Proof.
  unfold benign_dec. intros H. exists (split_sp s). split; [apply split_sp_nonnil|]. split.
  - apply Forall_forall. rewrite forallb_forall in H. exact H.
  - symmetry. apply join_split_sp.
Qed.
