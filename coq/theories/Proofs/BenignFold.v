(* BenignFold: on a benign input no folding rule fires.  The window only ever
   holds bare-word / number tokens whose adjacent pairs cannot merge; every
   iteration of the main loop of `fold` only fetches or advances `left`; the
   result is the first min(k,5) tokens, n_folds = 0, no comment counter moves. *)
From Coq Require Import List ZArith String Bool Lia ZifyBool.
From Coq.Strings Require Import Byte.
From LI Require Import Prelude Base SqliLex SqliFold Proofs.BaseFacts Proofs.Wp Proofs.LexBase
  Spec.BenignSpec Proofs.BenignLex Proofs.BenignTok.
From LIGen Require Import Tables Dispatch Consts.
Import ListNotations.
Local Open Scope Z_scope.

(* ---------- benign tokens ---------- *)

Notation cW := b_sqli_token_type_bare_word.
Notation c1 := b_sqli_token_type_number.

(* a token of a benign scan: slot marks untouched; a number, or a bare word that
   is either clipped (31 bytes: it can never merge) or a whole benign word *)
Definition btok (t : token) : Prop :=
  t_open t = x00 /\
  (t_cat t = c1 \/
   (t_cat t = cW /\ (t_len t = 31 \/ (benign_word (t_val t) = true /\ t_len t = len (t_val t))))).

Lemma btok_cat t : btok t -> t_cat t = c1 \/ t_cat t = cW.
Proof. intros [_ [H|[H _]]]; auto. Qed.

Lemma btok_item p w : benign_item w = true -> btok (item_tok p w (item_class w) tok0).
Proof.
  intros Hw. unfold btok, item_tok, item_class. cbn [t_open t_cat t_len t_val tok0]. split; [reflexivity|].
  unfold benign_item in Hw. destruct (benign_number w) eqn:En; [left; reflexivity|right].
  cbn [orb] in Hw. split; [reflexivity|].
  destruct (item_word_bytes w ltac:(unfold benign_item; rewrite Hw; apply orb_true_r)) as [_ Lw].
  destruct (Z.le_gt_cases 31 (len w)) as [G|G]; [left; lia|right].
  replace (Z.min (len w) 31) with (len w) by lia.
  assert (E : firstn (Z.to_nat (len w)) w = w) by (unfold len; rewrite Nat2Z.id; apply firstn_all).
  rewrite E. split; [exact Hw|reflexivity].
Qed.

(* ---------- scanner states of a benign pass ---------- *)

Definition sinv (inp : bytes) (fl : Z) (s : sqlst) : Prop :=
  input s = inp /\ flags s = fl /\ n_ddx (st s) = 0 /\ n_hash (st s) = 0 /\ n_folds (st s) = 0 /\
  exists r l, lex_inv s r /\ Items l /\ (r = join_sp l \/ r = sp_tail l).

Lemma sinv_pos inp fl s : sinv inp fl s -> 0 <= pos s <= len inp.
Proof.
  intros (Hi & _ & _ & _ & _ & r & l & ((pre & E & P) & _) & _). rewrite <- Hi, E, P, len_app.
  pose proof (len_nonneg pre). pose proof (len_nonneg r). lia.
Qed.

Lemma wp_tokenize inp fl s cur : sinv inp fl s ->
  wp (tokenize s cur)
     (fun x => let '(more, t, s') := x in
               sinv inp fl s' /\ pos s <= pos s' /\ (more = true -> btok t /\ pos s < pos s')).
Proof.
  intros (Hi & Hf & H1 & H2 & H3 & r & l & Hlex & Hl & Hr).
  pose proof (tokenize_benign s cur r l Hlex Hl Hr) as T. destruct l as [|w l'].
  - destruct T as [t' ->]. apply wp_Ok. cbv beta iota. split; [|split; [lia|discriminate]].
    unfold sinv. splits; try assumption. exists r, []. auto.
  - destruct T as (p & Hp & -> & Hlex'). apply wp_Ok. cbv beta iota. inversion Hl as [|w0 l0 Hw Hl']; subst.
    destruct (item_word_bytes w Hw) as [_ Lw].
    split; [|unfold after; cbn [pos]; split; [lia|intros _; split; [apply btok_item; exact Hw|lia]]].
    unfold sinv. splits; try (unfold after; cbn [input flags st n_ddx n_hash n_folds]; first [reflexivity|assumption]).
    exists (sp_tail l'), l'. auto.
Qed.

(* ---------- window helpers ---------- *)

Lemma wget_ok (P : token -> Prop) w i :
  Forall P w -> 0 <= i < wlen w -> exists t, (forall site, wget site w i = Ok t) /\ P t.
Proof.
  intros HP Hi. unfold wlen in Hi. destruct (nth_error w (Z.to_nat i)) as [t|] eqn:N.
  - exists t. split.
    + intros site. unfold wget. destruct (0 <=? i) eqn:E; [|lia]. rewrite N. reflexivity.
    + rewrite Forall_forall in HP. apply HP. eapply nth_error_In. exact N.
  - apply nth_error_None in N. lia.
Qed.

Lemma wlen_app1 w t : wlen (w ++ [t]) = wlen w + 1.
Proof. unfold wlen. rewrite app_length. cbn [List.length]. lia. Qed.

Lemma Forall_firstn_ {A} (P : A -> Prop) n l : Forall P l -> Forall P (firstn n l).
Proof. intros H. revert n. induction H as [|x l Hx Hl IH]; intros [|n]; cbn [firstn]; auto. Qed.

(* evaluate every closed byte comparison of the goal *)
Ltac eval_beq :=
  repeat match goal with
         | |- context [beq ?a ?b] =>
             let v := eval vm_compute in (beq a b) in
             lazymatch v with
             | true => change (beq a b) with true
             | false => change (beq a b) with false
             end
         end.

(* ---------- merge ---------- *)

Lemma btok_word_len t : btok t -> t_cat t = cW -> 1 <= t_len t.
Proof.
  intros [_ [H|[_ [H|[Hb Hl]]]]] Hc; [rewrite H in Hc; discriminate|lia|].
  apply benign_word_inv in Hb. destruct Hb as [[(b & w' & E & _) _] _]. rewrite Hl, E, len_cons.
  pose proof (len_nonneg w'). lia.
Qed.

Lemma merge_btok a b : btok a -> btok b -> merge a b = Ok None.
Proof.
  intros Ha Hb. unfold merge, merge_left_ok, merge_right_ok, merge_left_ok, cat_is.
  destruct (btok_cat a Ha) as [Ca|Ca]; rewrite Ca; eval_beq; cbn [orb negb]; [reflexivity|].
  destruct (btok_cat b Hb) as [Cb|Cb]; rewrite Cb; eval_beq; cbn [orb negb]; [reflexivity|].
  change c_token_size with 32.
  pose proof (btok_word_len a Ha Ca) as La. pose proof (btok_word_len b Hb Cb) as Lb.
  destruct (32 <? t_len a + t_len b + 1) eqn:E; [reflexivity|].
  destruct Ha as [_ [Ha|[_ [Ha|[Wa Ea]]]]]; [rewrite Ha in Ca; discriminate|lia|].
  destruct Hb as [_ [Hb|[_ [Hb|[Wb Eb]]]]]; [rewrite Hb in Cb; discriminate|lia|].
  unfold val_prefix. rewrite Ea, Eb, !take_all. cbn [bind].
  rewrite search_keyword_benign_pair by assumption. reflexivity.
Qed.

(* ---------- the loop invariant ---------- *)

Section Fold.
Variables (inp : bytes) (fl : Z).

Definition finv (f : fstate) : Prop :=
  sinv inp fl (f_s f) /\ Forall btok (f_win f) /\
  0 <= f_left f <= wlen (f_win f) /\ 1 <= wlen (f_win f) <= 6 /\
  t_cat (f_last f) = x00.

Definition b2z (b : bool) : Z := if b then 1 else 0.
Definition mu (f : fstate) : Z := 2 * (6 - f_left f) + b2z (f_more f).

Lemma fetch_spec fuel : forall want f,
  finv f -> len inp - pos (f_s f) + 1 + b2z (f_more f) <= Z.of_nat fuel ->
  wp (fetch fuel want f)
     (fun f' => finv f' /\ f_left f' = f_left f /\ wlen (f_win f) <= wlen (f_win f') /\
                pos (f_s f) <= pos (f_s f') /\
                (f_more f' = true -> f_more f = true) /\
                (f_more f' = false \/ 5 < wlen (f_win f') \/ want <= wlen (f_win f') - f_left f')).
Proof.
  induction fuel as [|fuel IH]; intros want f Hf Hfuel.
  - destruct Hf as (Hs & _). apply sinv_pos in Hs. unfold b2z in Hfuel. destruct (f_more f); lia.
  - cbn [fetch]. change c_max_tokens with 5.
    destruct (f_more f && (wlen (f_win f) <=? 5) && (wlen (f_win f) - f_left f <? want)) eqn:C.
    + apply andb_true_iff in C. destruct C as [C C3]. apply andb_true_iff in C. destruct C as [C1 C2].
      destruct Hf as (Hs & Hw & Hl & Hn & Hc). rewrite C1 in Hfuel. unfold b2z in Hfuel.
      apply wp_bind. eapply wp_conseq; [apply (wp_tokenize inp fl); exact Hs|].
      intros [[more t] s'] (Hs' & Hp & Hm). destruct more.
      * destruct (Hm eq_refl) as [Bt Hp']. unfold cat_is.
        destruct (btok_cat t Bt) as [Ct|Ct]; rewrite Ct; eval_beq; cbv iota.
        all: eapply wp_conseq;
          [apply IH; [unfold finv; cbn [f_s f_win f_left f_more f_last]; rewrite wlen_app1;
                      splits; try assumption; try lia; try reflexivity;
                      apply Forall_app; split; [assumption|constructor; [assumption|constructor]]
                     |cbn [f_s f_more b2z]; lia]|].
        all: cbn [f_s f_win f_left f_more f_last]; rewrite wlen_app1; intros f' (A1 & A2 & A3 & A4 & A5 & A6);
          splits; try assumption; try lia; auto.
      * eapply wp_conseq;
          [apply IH; [unfold finv; cbn [f_s f_win f_left f_more f_last]; splits; try assumption; lia
                     |cbn [f_s f_more b2z]; lia]|].
        cbn [f_s f_win f_left f_more f_last]. intros f' (A1 & A2 & A3 & A4 & A5 & A6).
        splits; try assumption; try lia; try (intros K; specialize (A5 K); discriminate).
    + apply wp_Ok. splits; try assumption; try lia; auto.
Qed.

(* no three-token rule fires: `left` advances *)
Lemma rules3_benign f : finv f -> 3 <= wlen (f_win f) - f_left f ->
  rules3 f = Ok (Continue (upd f (f_s f) (f_win f) (f_left f + 1))).
Proof.
  intros (Hs & Hw & Hl & Hn & Hc) H3. unfold rules3.
  destruct (wget_ok btok (f_win f) (f_left f) Hw ltac:(lia)) as (a & Ea & Ba).
  destruct (wget_ok btok (f_win f) (f_left f + 1) Hw ltac:(lia)) as (b & Eb & Bb).
  destruct (wget_ok btok (f_win f) (f_left f + 2) Hw ltac:(lia)) as (c & Ec & Bc).
  rewrite Ea, Eb, Ec. cbn [bind]. unfold cat_is, is_unary_op.
  destruct (btok_cat a Ba) as [Ca|Ca]; destruct (btok_cat b Bb) as [Cb|Cb]; destruct (btok_cat c Bc) as [Cc|Cc];
    rewrite Ca, Cb, Cc; eval_beq; cbn [negb andb orb bind]; reflexivity.
Qed.

Lemma fetch_n_spec want f : finv f ->
  wp (fetch_n want f)
     (fun f' => finv f' /\ f_left f' = f_left f /\ wlen (f_win f) <= wlen (f_win f') /\
                (f_more f' = true -> f_more f = true) /\
                (f_more f' = false \/ 5 < wlen (f_win f') \/ want <= wlen (f_win f') - f_left f')).
Proof.
  intros Hf. unfold fetch_n. eapply wp_conseq.
  - apply fetch_spec; [exact Hf|]. pose proof (proj1 Hf) as Hs. pose proof (proj1 Hs) as Hi.
    apply sinv_pos in Hs. rewrite Hi. unfold len, b2z. destruct (f_more f); lia.
  - intros f' (A1 & A2 & A3 & A4 & A5 & A6). auto.
Qed.

(* no two-token rule fires: a third token is fetched and rules3 runs *)
Lemma rules2_benign f : finv f -> 2 <= wlen (f_win f) - f_left f ->
  wp (rules2 (fetch_n 3) f)
     (fun r => exists f', r = Continue f' /\ finv f' /\ f_left f < f_left f' /\
                          (f_more f' = true -> f_more f = true)).
Proof.
  intros Hf H2. pose proof Hf as (Hs & Hw & Hl & Hn & Hc). unfold rules2.
  destruct (wget_ok btok (f_win f) (f_left f) Hw ltac:(lia)) as (a & Ea & Ba).
  destruct (wget_ok btok (f_win f) (f_left f + 1) Hw ltac:(lia)) as (b & Eb & Bb).
  rewrite Ea, Eb. cbn [bind]. rewrite (merge_btok a b Ba Bb). unfold cat_is, is_unary_op.
  assert (G : wp (f1 <- fetch_n 3 f ;;
                  if wlen (f_win f1) - f_left f1 <? 3
                  then Ok (Continue (mkF (f_s f1) (f_win f1) (wlen (f_win f1)) (f_more f1) (f_last f1)))
                  else rules3 f1)
                 (fun r => exists f', r = Continue f' /\ finv f' /\ f_left f < f_left f' /\
                                      (f_more f' = true -> f_more f = true))).
  { apply wp_bind. eapply wp_conseq; [apply fetch_n_spec; exact Hf|].
    intros f1 (A1 & A2 & A3 & A4 & A5). pose proof A1 as (Hs1 & Hw1 & Hl1 & Hn1 & Hc1).
    destruct (wlen (f_win f1) - f_left f1 <? 3) eqn:E.
    - apply wp_Ok. eexists. split; [reflexivity|]. cbn [f_left f_more]. split; [|split; [lia|exact A4]].
      unfold finv. cbn [f_s f_win f_left f_last]. splits; try assumption; lia.
    - rewrite rules3_benign by (try assumption; lia). apply wp_Ok. eexists. split; [reflexivity|].
      unfold upd. cbn [f_left f_more]. split; [|split; [lia|exact A4]].
      unfold finv. cbn [f_s f_win f_left f_last]. splits; try assumption; lia. }
  destruct (btok_cat a Ba) as [Ca|Ca]; destruct (btok_cat b Bb) as [Cb|Cb];
    rewrite Ca, Cb; eval_beq; cbn [negb andb orb bind]; exact G.
Qed.

Lemma five_special_benign w : Forall btok w -> 5 <= wlen w -> five_special w = Ok false.
Proof.
  intros Hw H5. unfold five_special.
  destruct (wget_ok btok w 0 Hw ltac:(lia)) as (t0 & E0 & B0).
  destruct (wget_ok btok w 1 Hw ltac:(lia)) as (t1 & E1 & B1).
  destruct (wget_ok btok w 2 Hw ltac:(lia)) as (t2 & E2 & _).
  destruct (wget_ok btok w 3 Hw ltac:(lia)) as (t3 & E3 & _).
  destruct (wget_ok btok w 4 Hw ltac:(lia)) as (t4 & E4 & _).
  rewrite E0, E1, E2, E3, E4. cbn [bind]. unfold cat_is.
  destruct (btok_cat t0 B0) as [C0|C0]; destruct (btok_cat t1 B1) as [C1|C1];
    rewrite C0, C1; eval_beq; cbn [negb andb orb]; reflexivity.
Qed.

(* one iteration of the main loop: fetch or advance, never fold, never return *)
Lemma fold_iter_benign f : finv f ->
  wp (fold_iter f)
     (fun r => match r with
               | Again f' => finv f' /\ mu f' < mu f
               | Break f' => finv f' /\ f_left f' = wlen (f_win f')
               | Ret _ _ => False
               end).
Proof.
  intros Hf. pose proof Hf as (Hs & Hw & Hl & Hn & Hc). unfold fold_iter. change c_max_tokens with 5.
  apply wp_bind.
  apply (wp_conseq _ (fun f0 => f0 = f)).
  { destruct (5 <=? wlen (f_win f)) eqn:E; [|reflexivity].
    rewrite five_special_benign by (try assumption; lia). cbn [bind]. reflexivity. }
  intros f0 ->.
  destruct (negb (f_more f) || (5 <=? f_left f)) eqn:E.
  - apply wp_Ok. split; [|reflexivity]. unfold finv. cbn [f_s f_win f_left f_last]. splits; try assumption; lia.
  - apply orb_false_iff in E. destruct E as [Em El]. apply negb_false_iff in Em.
    apply wp_bind. eapply wp_conseq; [apply (fetch_n_spec 2); exact Hf|].
    intros f1 (A1 & A2 & A3 & A4 & A5). pose proof A1 as (Hs1 & Hw1 & Hl1 & Hn1 & Hc1).
    destruct (wlen (f_win f1) - f_left f1 <? 2) eqn:E2.
    + apply wp_Ok. split.
      * unfold finv. cbn [f_s f_win f_left f_last]. splits; try assumption; lia.
      * unfold mu, b2z. cbn [f_left f_more]. rewrite Em.
        destruct A5 as [A5|A5]; [rewrite A5; lia|lia].
    + apply wp_bind. eapply wp_conseq; [apply rules2_benign; [exact A1|lia]|].
      intros r (f' & -> & B1 & B2 & B3). apply wp_Ok. split; [exact B1|].
      unfold mu, b2z. rewrite Em. destruct (f_more f'); lia.
Qed.

(* what the loop leaves: the window, and the count min(|window|, 5) *)
Definition fold_out (x : Z * fstate) : Prop :=
  let (n, f) := x in
  sinv inp fl (f_s f) /\ Forall btok (f_win f) /\ 1 <= wlen (f_win f) <= 6 /\ n = Z.min (wlen (f_win f)) 5.

Lemma fold_finish_benign f : finv f -> f_left f = wlen (f_win f) -> wp (fold_finish f) fold_out.
Proof.
  intros (Hs & Hw & Hl & Hn & Hc) E. unfold fold_finish, cat_is. rewrite Hc. eval_beq.
  rewrite andb_false_r. cbn [bind]. change c_max_tokens with 5. apply wp_Ok.
  unfold fold_out. cbn [f_s f_win]. splits; try assumption; try lia.
  destruct (5 <? f_left f) eqn:E5; lia.
Qed.

Lemma fold_steps_benign k : forall f, finv f -> mu f < Z.of_nat k ->
  wp (fold_steps k f) (fun r => exists x, r = inr x /\ fold_out x).
Proof.
  induction k as [|k IH]; intros f Hf Hk.
  - destruct Hf as (_ & _ & Hl & Hn & _). unfold mu, b2z in Hk. destruct (f_more f); lia.
  - cbn [fold_steps]. apply wp_bind. eapply wp_conseq; [apply fold_iter_benign; exact Hf|].
    intros [f'|f'|n f'].
    + intros [Hf' Hmu]. apply IH; [exact Hf'|lia].
    + intros [Hf' Hl]. apply wp_bind. eapply wp_conseq; [apply fold_finish_benign; assumption|].
      intros x Hx. apply wp_Ok. exists x. auto.
    + intros [].
Qed.

Lemma fold_loop_benign fuel f : finv f -> (1 <= fuel)%nat -> wp (fold_loop fuel f) fold_out.
Proof.
  intros Hf Hfuel. destruct fuel as [|fuel]; [lia|]. cbn [fold_loop].
  apply wp_bind. eapply wp_conseq.
  - apply fold_steps_benign; [exact Hf|]. destruct Hf as (_ & _ & Hl & Hn & _).
    unfold mu, b2z, fold_chunk. destruct (f_more f); lia.
  - intros r (x & -> & Hx). apply wp_Ok. exact Hx.
Qed.

(* THE FOLD LEMMA: the pass over a benign input returns between one and five
   bare-word / number tokens, and a scanner state whose comment and fold
   counters are still zero *)
Lemma fold_benign s l :
  input s = inp -> flags s = fl -> n_ddx (st s) = 0 -> n_hash (st s) = 0 -> n_folds (st s) = 0 ->
  lex_inv s (join_sp l) -> Items l -> l <> [] ->
  wp (fold s) (fun x => let (w, s') := x in
                        sinv inp fl s' /\ Forall btok w /\ 1 <= wlen w <= 5).
Proof.
  intros Hi Hfl H1 H2 H3 Hlex Hl Hne. unfold fold.
  destruct l as [|w0 l']; [congruence|].
  destruct (tokenize_benign s tok0 _ _ Hlex Hl (or_introl eq_refl)) as (p & Hp & T & Hlex').
  inversion Hl as [|w1 l1 Hw0 Hl']; subst w1 l1.
  pose proof (btok_item p w0 Hw0) as Bt.
  cbn [skip_loop]. rewrite T. cbn [bind]. unfold is_unary_op, cat_is.
  set (t := item_tok p w0 (item_class w0) tok0) in *.
  set (s1 := after s (p + len w0)) in *.
  assert (Hs1 : sinv inp fl s1).
  { unfold sinv. splits; try (unfold s1, after; cbn [input flags st n_ddx n_hash n_folds]; assumption).
    exists (sp_tail l'), l'. auto. }
  assert (Hf : finv (mkF s1 [t] 0 true tok0)).
  { unfold finv. cbn [f_s f_win f_left f_last]. splits; try assumption; try reflexivity.
    - constructor; [exact Bt|constructor].
    - unfold wlen. cbn [List.length]. lia.
    - unfold wlen. cbn [List.length]. lia. }
  assert (G : wp ('(n, f) <- fold_loop (fold_fuel s1) (mkF s1 [t] 0 true tok0) ;;
                  w <- wtrunc "fold:return" (f_win f) n ;; Ok (w, f_s f))
                 (fun x => let (w, s') := x in sinv inp fl s' /\ Forall btok w /\ 1 <= wlen w <= 5)).
  { apply wp_bind. eapply wp_conseq; [apply fold_loop_benign; [exact Hf|unfold fold_fuel; lia]|].
    intros [n f] (A1 & A2 & A3 & A4). unfold wtrunc. fold (wlen (f_win f)).
    destruct ((0 <=? n) && (n <=? wlen (f_win f))) eqn:E; [|lia]. cbn [bind]. apply wp_Ok.
    splits; try assumption.
    - apply Forall_firstn_. exact A2.
    - unfold wlen in *. rewrite firstn_length. lia.
    - unfold wlen in *. rewrite firstn_length. lia. }
  destruct (btok_cat t Bt) as [Ct|Ct]; rewrite Ct; eval_beq; cbn [negb andb orb bind]; exact G.
Qed.

End Fold.

