(* WsMixSweep3: one shard of the finite mixed-separator sweep (vm_compute over the whole grammar). *)
From Coq Require Import List ZArith String Bool.
From Coq.Strings Require Import Byte.
From LI Require Import Prelude Base SqliLex SqliFold GrammarSqli.
From LIGen Require Import C03CoreAll.
Import ListNotations.
From LI Require Import Proofs.WsMixBase.

Definition sep : bytes := cmt ++ [x20].
Lemma sep_ok : mix1_ok sep all_cases = true.
Proof. vm_compute. reflexivity. Qed.
